/*
 * drv_codec.c - conformance driver for the external representations (C07):
 * integers (binary, digit vector, text in radix 2..64), prime-field elements (binary, text),
 * quadratic/dodecic extension elements (binary, uncompressed), prime-curve points (binary
 * compressed/uncompressed, ep_pck/ep_upk).
 *
 * Case line:  <op> <args...>      (bn ops)   |   <op> <curve> <args...>   (fp/fp2/fp12/ep ops)
 *   curve    id<N>                                 ep_param_set(N)
 *            t:<p>:<a>:<b>:<gx>:<gy>:<r>:<h>       tiny world (hex VALUES): fp_prime_set_dense + ep_curve_set_plain
 *   bytes    even-length hex, "." = empty string
 *   integer  hex with optional '-'
 *   point    inf | <x>,<y> | <x>,<y>/p<z> (x*z, y*z, z PROJC) | <x>,<y>/j<z> (x*z^2, y*z^3, z JACOB)
 *
 * Every output buffer is a malloc'ed region  [16 guard bytes A5][len bytes 5C][16 guard bytes A5];
 * "out" = the len bytes after the call, "g" = 1 iff both guards survived.  Every input byte string
 * is passed in an exact-size copy.  After a successful decode the object is re-encoded in the same
 * format and length ("re", "rerr").
 *
 * Event: {"op","i","eb":ERR_NO_BUFFER,"ev":ERR_NO_VALID,"em":ERR_MAX, [field header p,w,fd,mont,"fb"],
 *         ["ca","cb" raw curve coefficients,"pairf"], inputs (raw projection / bytes), outputs, "err","code"}
 */
#include "vh.h"

static bn_t A, C, N, H, T;
#ifdef WITH_EP
static ep_t P, R, G;
#endif

static char cur_curve[8192];
static int cur_ok = 0;

/* ------------------------------------------------------------ event buffering (as drv_ep.c) */
static FILE *real_out;
static char *mbuf;
static size_t mlen, safe_len;
static volatile int in_event;

static void ev_begin(const char *op) {
	mbuf = NULL; mlen = 0; safe_len = 0;
	vh_out = open_memstream(&mbuf, &mlen);
	if (!vh_out) { perror("open_memstream"); exit(2); }
	in_event = 1;
	vh_begin(op);
	vh_int("eb", ERR_NO_BUFFER); vh_int("ev", ERR_NO_VALID); vh_int("em", ERR_MAX);
}
/* bn events: digit bytes, configured precision in digits, physical capacity */
static void bhdr(void) {
	vh_int("w", (long)sizeof(dig_t)); vh_int("digs", (long)RLC_BN_DIGS); vh_int("cap", (long)RLC_BN_SIZE);
}
static void ev_end(void) {
	vh_end();
	fclose(vh_out);
	in_event = 0;
	fwrite(mbuf, 1, mlen, real_out);
	fflush(real_out);
	free(mbuf);
	vh_out = real_out;
}
#define MARK() do { fflush(vh_out); safe_len = mlen; } while (0)

static void cd_fatal(int sig) {
	char buf[200];
	int n;
	const char *what = (sig == SIGALRM) ? "TIMEOUT" : "CRASH";
	if (in_event && safe_len > 0) {
		if (write(vh_outfd, mbuf, safe_len) < 0) {}
		n = snprintf(buf, sizeof(buf), ",\"crash\":%d,\"err\":0,\"code\":0}\n", sig);
		if (write(vh_outfd, buf, n) < 0) {}
		what = "restart";
	}
	n = snprintf(buf, sizeof(buf), "{\"op\":\"%s\",\"i\":%ld,\"sig\":%d}\n", what, (long)vh_case, sig);
	if (write(vh_outfd, buf, n) < 0) {}
	_exit(sig == SIGALRM ? 3 : 4);
}
static void cd_install(void) {
	signal(SIGSEGV, cd_fatal); signal(SIGBUS, cd_fatal); signal(SIGFPE, cd_fatal);
	signal(SIGABRT, cd_fatal); signal(SIGILL, cd_fatal); signal(SIGALRM, cd_fatal);
}
/* the judged call: thrown error and the sticky code read right after it */
static int g_code;
#define CALL(err, stmt) do { VH_TRY(err, stmt); g_code = vh_code(); } while (0)
static void fin(int err) {
	vh_int("err", err);
	vh_int("code", g_code);
	(void)vh_code();            /* a failed re-encoding must not leak into the next case */
	ev_end();
}

/* ------------------------------------------------------------ guarded buffers */
#define GRD 16
typedef struct { uint8_t *base; uint8_t *p; size_t len; } gbuf_t;
static void gb_new(gbuf_t *g, size_t len) {
	g->base = malloc(len + 2 * GRD);
	if (!g->base) { perror("malloc"); exit(2); }
	memset(g->base, 0xA5, GRD);
	memset(g->base + GRD, 0x5C, len);
	memset(g->base + GRD + len, 0xA5, GRD);
	g->p = g->base + GRD;
	g->len = len;
}
static int gb_ok(const gbuf_t *g) {
	size_t i;
	for (i = 0; i < GRD; i++) if (g->base[i] != 0xA5 || g->base[GRD + g->len + i] != 0xA5) return 0;
	return 1;
}
static void gb_log(const char *k, const gbuf_t *g) {
	vh_bytes(k, g->p, g->len);
	vh_int("g", gb_ok(g));
}
static void gb_free(gbuf_t *g) { free(g->base); g->base = NULL; }

/* input byte string from a hex token, exact-size copy followed by a guard */
static uint8_t *in_bytes(const char *tok, size_t *len) {
	static uint8_t tmp[VH_LINE / 2];
	uint8_t *b;
	*len = vh_hex2bytes(tok, tmp, sizeof(tmp), NULL);
	b = malloc(*len + GRD);
	if (!b) { perror("malloc"); exit(2); }
	memcpy(b, tmp, *len);
	memset(b + *len, 0xA5, GRD);
	return b;
}

/* ------------------------------------------------------------ integers */
static void do_bn_size_bin(void) {
	int err; volatile long sz = -1;
	vh_bn_set(A, vh_tok[1]);
	ev_begin("bn_size_bin"); bhdr();
	vh_bn("a", A); MARK();
	CALL(err, sz = (long)bn_size_bin(A));
	vh_int("size", sz);
	fin(err);
}
static void do_bn_write_bin(void) {
	int err; long len = atol(vh_tok[2]); gbuf_t g;
	vh_bn_set(A, vh_tok[1]);
	gb_new(&g, (size_t)len);
	ev_begin("bn_write_bin"); bhdr();
	vh_bn("a", A); vh_int("len", len); vh_int("size", (long)bn_size_bin(A)); MARK();
	CALL(err, bn_write_bin(g.p, (size_t)len, A));
	gb_log("out", &g);
	fin(err);
	gb_free(&g);
}
static void do_bn_read_bin(void) {
	int err, rerr = 0; size_t len; uint8_t *in = in_bytes(vh_tok[1], &len); gbuf_t g;
	bn_set_dig(C, 0x5a);
	gb_new(&g, len);
	ev_begin("bn_read_bin"); bhdr();
	vh_bytes("in", in, len); MARK();
	CALL(err, bn_read_bin(C, in, len));
	vh_bn("c", C);
	if (!err) { VH_TRY(rerr, bn_write_bin(g.p, len, C)); }
	vh_int("rerr", rerr); gb_log("re", &g);
	fin(err);
	gb_free(&g); free(in);
}
static void do_bn_write_raw(void) {
	int err; long len = atol(vh_tok[2]); gbuf_t g;
	vh_bn_set(A, vh_tok[1]);
	gb_new(&g, (size_t)len * sizeof(dig_t));
	ev_begin("bn_write_raw"); bhdr();
	vh_bn("a", A); vh_int("len", len); vh_int("size", (long)bn_size_raw(A)); MARK();
	CALL(err, bn_write_raw((dig_t *)g.p, (size_t)len, A));
	gb_log("out", &g);
	fin(err);
	gb_free(&g);
}
/* bn_read_raw <hexvalue> <len>: the digit vector is the value padded to len digits */
static void do_bn_read_raw(void) {
	int err, rerr = 0; long len = atol(vh_tok[2]); size_t i; gbuf_t g, o;
	vh_bn_set(A, vh_tok[1]);
	gb_new(&g, (size_t)len * sizeof(dig_t));
	gb_new(&o, (size_t)len * sizeof(dig_t));
	memset(g.p, 0, (size_t)len * sizeof(dig_t));
	for (i = 0; i < A->used && i < (size_t)len; i++) ((dig_t *)g.p)[i] = A->dp[i];
	bn_set_dig(C, 0x5a);
	ev_begin("bn_read_raw"); bhdr();
	vh_digs("in", (dig_t *)g.p, (size_t)len); vh_int("len", len);
	MARK();
	CALL(err, bn_read_raw(C, (dig_t *)g.p, (size_t)len));
	vh_bn("c", C);
	if (!err) { VH_TRY(rerr, bn_write_raw((dig_t *)o.p, (size_t)len, C)); }
	vh_int("rerr", rerr); gb_log("re", &o);
	fin(err);
	gb_free(&g); gb_free(&o);
}
static void do_bn_size_str(void) {
	int err; volatile long sz = -1; long radix = atol(vh_tok[2]);
	vh_bn_set(A, vh_tok[1]);
	ev_begin("bn_size_str"); bhdr();
	vh_bn("a", A); vh_int("radix", radix); MARK();
	CALL(err, sz = (long)bn_size_str(A, (uint_t)radix));
	vh_int("size", sz);
	fin(err);
}
static void do_bn_write_str(void) {
	int err; long radix = atol(vh_tok[2]), len = atol(vh_tok[3]); gbuf_t g;
	vh_bn_set(A, vh_tok[1]);
	gb_new(&g, (size_t)len);
	ev_begin("bn_write_str"); bhdr();
	vh_bn("a", A); vh_int("radix", radix); vh_int("len", len); MARK();
	CALL(err, bn_write_str((char *)g.p, (size_t)len, A, (uint_t)radix));
	gb_log("out", &g);
	fin(err);
	gb_free(&g);
}
static void do_bn_read_str(void) {
	int err, rerr = 0; size_t len; uint8_t *in = in_bytes(vh_tok[1], &len); long radix = atol(vh_tok[2]);
	volatile long sz = 0; gbuf_t g;
	bn_set_dig(C, 0x5a);
	ev_begin("bn_read_str"); bhdr();
	vh_bytes("in", in, len); vh_int("radix", radix);
	MARK();
	{
		/* the bytes that FOLLOW the len given ones are digits of every radix: a reader that
		 * looks at str[len] (the length is the limit, not a terminator) changes the value */
		static char padded[1 << 16];
		size_t n = len < sizeof(padded) - 8 ? len : sizeof(padded) - 8;
		memcpy(padded, in, n); memcpy(padded + n, "1111111", 8);
		CALL(err, bn_read_str(C, padded, n, (uint_t)radix));
	}
	vh_bn("c", C);
	if (!err) { VH_TRY(rerr, sz = (long)bn_size_str(C, (uint_t)radix)); }
	if (rerr || sz < 0) sz = 0;
	gb_new(&g, (size_t)sz);
	if (!err && !rerr) { VH_TRY(rerr, bn_write_str((char *)g.p, (size_t)sz, C, (uint_t)radix)); }
	vh_int("rerr", rerr); gb_log("re", &g);
	fin(err);
	gb_free(&g); free(in);
}

/* ------------------------------------------------------------ field / curve selection */
#ifdef WITH_EP
static int set_tiny(char *spec) {
	char *f[12];
	int nf = 0, err = 0;
	char *s = spec;
	fp_t a, b;
	bn_t p, r, h;
	ep_t g;
	while (nf < 12) {
		f[nf++] = s;
		s = strchr(s, ':');
		if (!s) break;
		*s++ = 0;
	}
	if (nf != 8) return 0;
	bn_null(p); bn_null(r); bn_null(h); ep_null(g);
	bn_new(p); bn_new(r); bn_new(h); ep_new(g);
	fp_null(a); fp_null(b);
	vh_bn_set(p, f[1]);
	VH_TRY(err, fp_prime_set_dense(p));
	if (vh_code() || err) return 0;
	fp_new(a); fp_new(b);
	vh_fp_set(a, f[2]); vh_fp_set(b, f[3]);
	vh_fp_set(g->x, f[4]); vh_fp_set(g->y, f[5]); fp_set_dig(g->z, 1); g->coord = BASIC;
	vh_bn_set(r, f[6]); vh_bn_set(h, f[7]);
	VH_TRY(err, ep_curve_set_plain(a, b, g, r, h, 0));
	if (vh_code() || err) return 0;
	return 1;
}

static int set_curve(const char *spec) {
	int err = 0;
	if (strcmp(spec, cur_curve) == 0) return cur_ok;
	if (strlen(spec) >= sizeof(cur_curve)) return 0;
	strcpy(cur_curve, spec);
	cur_ok = 0;
	if (spec[0] == 'i' && spec[1] == 'd') {
		int id = atoi(spec + 2);
		int code;
		VH_TRY(err, ep_param_set(id));
		code = vh_code();
		cur_ok = (err == 0) && (code == 0);
#ifdef WITH_ED
	} else if (strcmp(spec, "ed") == 0) {
		/* the build's Edwards curve (sets the prime field as well) */
		volatile int r = RLC_ERR;
		int code;
		VH_TRY(err, r = ed_param_set_any());
		code = vh_code();
		if ((err == 0) && (code == 0) && (r == RLC_OK)) {
			/* the generic part below needs a prime curve too: none is required for ed ops */
			strcpy(cur_curve, spec);
			cur_ok = 1;
			return 1;
		}
#endif
#if defined(WITH_EPX) && defined(WITH_PP)
	} else if (strcmp(spec, "pf") == 0) {
		/* the build's pairing-friendly curve with its sextic twist (G2) configured */
		volatile int r = RLC_ERR;
		int code;
		VH_TRY(err, r = ep_param_set_any_pairf());
		code = vh_code();
		cur_ok = (err == 0) && (code == 0) && (r == RLC_OK) && ep2_curve_is_twist();
#endif
	} else if (spec[0] == 't' && spec[1] == ':') {
		static char tmp[8192];
		strcpy(tmp, spec);
		cur_ok = set_tiny(tmp);
	}
	if (cur_ok) {
		ep_curve_get_gen(G);
		ep_curve_get_ord(N);
		ep_curve_get_cof(H);
	}
	return cur_ok;
}

static void fhdr(void) {
	vh_fp_hdr();
	vh_int("fb", (long)RLC_FP_BYTES); vh_int("digs", (long)RLC_BN_DIGS);
	vh_int("qnr", (long)fp_prime_get_qnr());
}
static void chdr(void) {
	fhdr();
	vh_fp("ca", ep_curve_get_a());
	vh_fp("cb", ep_curve_get_b());
	vh_int("pairf", ep_curve_is_pairf() ? 1 : 0);
}

#if defined(WITH_EPX) && defined(WITH_PP)
static void fp2_raw(fp2_t a);
#endif
/* input discovery for the generator: is the curve selectable, and its parameters */
static void do_probe(void) {
	int ok;
	cur_curve[0] = 0;
	ok = set_curve(vh_tok[1]);
	ev_begin("curve_probe");
	vh_str("curve", vh_tok[1]);
	vh_int("ok", ok);
	if (ok) {
		chdr();
		vh_ep("G", G); vh_bn("n", N); vh_bn("h", H);
#if defined(WITH_EPX) && defined(WITH_PP)
		if (strcmp(vh_tok[1], "pf") == 0) { fputs(",\"b2\":", vh_out); fp2_raw(ep2_curve_get_b()); }
#endif
		vh_int("bndigs", (long)RLC_BN_DIGS); vh_int("bncap", (long)RLC_BN_SIZE);
#ifdef WITH_PP
		vh_int("pp", 1);
#else
		vh_int("pp", 0);
#endif
	}
	vh_int("err", 0); vh_int("code", 0);
	ev_end();
}

/* ------------------------------------------------------------ field elements */
static fp_t FA, FC;

static void do_fp_read_bin(void) {
	int err, rerr = 0; size_t len; uint8_t *in = in_bytes(vh_tok[2], &len); gbuf_t g;
	fp_set_dig(FC, 0x5a);
	gb_new(&g, len);
	ev_begin("fp_read_bin");
	fhdr(); vh_bytes("in", in, len); MARK();
	CALL(err, fp_read_bin(FC, in, len));
	vh_fp("c", FC);
	if (!err) { VH_TRY(rerr, fp_write_bin(g.p, len, FC)); }
	vh_int("rerr", rerr); gb_log("re", &g);
	fin(err);
	gb_free(&g); free(in);
}
static void do_fp_write_bin(void) {
	int err; long len = atol(vh_tok[3]); gbuf_t g;
	vh_fp_set(FA, vh_tok[2]);
	gb_new(&g, (size_t)len);
	ev_begin("fp_write_bin");
	fhdr(); vh_fp("a", FA); vh_int("len", len); MARK();
	CALL(err, fp_write_bin(g.p, (size_t)len, FA));
	gb_log("out", &g);
	fin(err);
	gb_free(&g);
}
static void do_fp_size_str(void) {
	int err; volatile long sz = -1; long radix = atol(vh_tok[3]);
	vh_fp_set(FA, vh_tok[2]);
	ev_begin("fp_size_str");
	fhdr(); vh_fp("a", FA); vh_int("radix", radix); MARK();
	CALL(err, sz = (long)fp_size_str(FA, (uint_t)radix));
	vh_int("size", sz);
	fin(err);
}
static void do_fp_write_str(void) {
	int err; long radix = atol(vh_tok[3]), len = atol(vh_tok[4]); gbuf_t g;
	vh_fp_set(FA, vh_tok[2]);
	gb_new(&g, (size_t)len);
	ev_begin("fp_write_str");
	fhdr(); vh_fp("a", FA); vh_int("radix", radix); vh_int("len", len); MARK();
	CALL(err, fp_write_str((char *)g.p, (size_t)len, FA, (uint_t)radix));
	gb_log("out", &g);
	fin(err);
	gb_free(&g);
}
static void do_fp_read_str(void) {
	int err; size_t len; uint8_t *in = in_bytes(vh_tok[2], &len); long radix = atol(vh_tok[3]);
	fp_set_dig(FC, 0x5a);
	ev_begin("fp_read_str");
	fhdr(); vh_bytes("in", in, len); vh_int("radix", radix); MARK();
	CALL(err, fp_read_str(FC, (const char *)in, len, (uint_t)radix));
	vh_fp("c", FC);
	fin(err);
	free(in);
}

/* ------------------------------------------------------------ extension fields (uncompressed) */
#ifdef WITH_FPX
static fp2_t F2A, F2C;
static fp12_t F12A, F12C;

static void fp2_log(const char *k, fp2_t a) {
	fprintf(vh_out, ",\"%s\":[", k); vh_fp_raw(a[0]); fputc(',', vh_out); vh_fp_raw(a[1]); fputc(']', vh_out);
}
static void fp12_log(const char *k, fp12_t a) {
	int i, j, l, first = 1;
	fprintf(vh_out, ",\"%s\":[", k);
	for (i = 0; i < 2; i++) for (j = 0; j < 3; j++) for (l = 0; l < 2; l++) {
		if (!first) fputc(',', vh_out);
		first = 0;
		vh_fp_raw(a[i][j][l]);
	}
	fputc(']', vh_out);
}
/* comma separated VALUES -> n coefficients */
static void fpx_set(fp_t *dst[], int n, char *tok) {
	int i;
	char *s = tok, *e;
	for (i = 0; i < n; i++) {
		e = s ? strchr(s, ',') : NULL;
		if (e) *e++ = 0;
		if (s && *s) vh_fp_set(*dst[i], s); else fp_zero(*dst[i]);
		s = e;
	}
}
static void do_fp2_read_bin(void) {
	int err, rerr = 0; size_t len; uint8_t *in = in_bytes(vh_tok[2], &len); gbuf_t g;
	fp_set_dig(F2C[0], 0x5a); fp_set_dig(F2C[1], 0x5b);
	gb_new(&g, len);
	ev_begin("fp2_read_bin");
	fhdr(); vh_bytes("in", in, len); vh_int("deg", 2); MARK();
	CALL(err, fp2_read_bin(F2C, in, len));
	fp2_log("c", F2C);
	if (!err) { VH_TRY(rerr, fp2_write_bin(g.p, len, F2C, len == RLC_FP_BYTES + 1)); }
	vh_int("rerr", rerr); gb_log("re", &g);
	fin(err);
	gb_free(&g); free(in);
}
/* fp2_write_bin <curve> <v0>,<v1> <len> [pack] */
static void do_fp2_write_bin(void) {
	int err; long len = atol(vh_tok[3]); gbuf_t g;
	int pack = vh_ntok > 4 ? atoi(vh_tok[4]) : 0;
	fp_t *d[2] = { &F2A[0], &F2A[1] };
	fpx_set(d, 2, vh_tok[2]);
	gb_new(&g, (size_t)len);
	ev_begin("fp2_write_bin");
	fhdr(); fp2_log("a", F2A); vh_int("len", len); vh_int("deg", 2); vh_int("pack", pack);
	vh_int("size", (long)fp2_size_bin(F2A, pack)); MARK();
	CALL(err, fp2_write_bin(g.p, (size_t)len, F2A, pack));
	gb_log("out", &g);
	fin(err);
	gb_free(&g);
}
static void do_fp12_read_bin(void) {
	int err, rerr = 0; size_t len; uint8_t *in = in_bytes(vh_tok[2], &len); gbuf_t g;
	fp12_zero(F12C);
	gb_new(&g, len);
	ev_begin("fp12_read_bin");
	fhdr(); vh_bytes("in", in, len); vh_int("deg", 12); MARK();
	CALL(err, fp12_read_bin(F12C, in, len));
	fp12_log("c", F12C);
	if (!err) { VH_TRY(rerr, fp12_write_bin(g.p, len, F12C, 0)); }
	vh_int("rerr", rerr); gb_log("re", &g);
	fin(err);
	gb_free(&g); free(in);
}
static void do_fp12_write_bin(void) {
	int err, i, j, l, k = 0; long len = atol(vh_tok[3]); gbuf_t g;
	fp_t *d[12];
	for (i = 0; i < 2; i++) for (j = 0; j < 3; j++) for (l = 0; l < 2; l++) d[k++] = &F12A[i][j][l];
	fpx_set(d, 12, vh_tok[2]);
	gb_new(&g, (size_t)len);
	ev_begin("fp12_write_bin");
	fhdr(); fp12_log("a", F12A); vh_int("len", len); vh_int("deg", 12); vh_int("pack", 0);
	vh_int("size", (long)fp12_size_bin(F12A, 0)); MARK();
	CALL(err, fp12_write_bin(g.p, (size_t)len, F12A, 0));
	gb_log("out", &g);
	fin(err);
	gb_free(&g);
}
#endif

/* ------------------------------------------------------------ points */
static void set_point(ep_t p, char *tok) {
	char *rep = strchr(tok, '/');
	char *y;
	fp_t z, t;
	if (strcmp(tok, "inf") == 0) { ep_set_infty(p); return; }
	if (rep) *rep++ = 0;
	y = strchr(tok, ',');
	*y++ = 0;
	vh_fp_set(p->x, tok); vh_fp_set(p->y, y);
	fp_set_dig(p->z, 1); p->coord = BASIC;
	if (!rep) return;
	fp_null(z); fp_null(t); fp_new(z); fp_new(t);
	vh_fp_set(z, rep + 1);
	if (rep[0] == 'p') {
		fp_mul(p->x, p->x, z); fp_mul(p->y, p->y, z); fp_copy(p->z, z); p->coord = PROJC;
	} else {
		fp_sqr(t, z); fp_mul(p->x, p->x, t); fp_mul(t, t, z); fp_mul(p->y, p->y, t);
		fp_copy(p->z, z); p->coord = JACOB;
	}
	fp_free(z); fp_free(t);
}

static void do_ep_size_bin(void) {
	int err; volatile long sz = -1; long pack = atol(vh_tok[3]);
	set_point(P, vh_tok[2]);
	ev_begin("ep_size_bin");
	chdr(); vh_ep("P", P); vh_int("pack", pack); MARK();
	CALL(err, sz = (long)ep_size_bin(P, (int)pack));
	vh_int("size", sz);
	fin(err);
}
static void do_ep_write_bin(void) {
	int err; long pack = atol(vh_tok[3]), len = atol(vh_tok[4]); gbuf_t g;
	set_point(P, vh_tok[2]);
	gb_new(&g, (size_t)len);
	ev_begin("ep_write_bin");
	chdr(); vh_ep("P", P); vh_int("pack", pack); vh_int("len", len);
	vh_int("size", (long)ep_size_bin(P, (int)pack)); MARK();
	CALL(err, ep_write_bin(g.p, (size_t)len, P, (int)pack));
	gb_log("out", &g);
	fin(err);
	gb_free(&g);
}
static void do_ep_read_bin(void) {
	int err, rerr = 0; size_t len; uint8_t *in = in_bytes(vh_tok[2], &len); gbuf_t g;
	int pack = len > 0 && (in[0] == 2 || in[0] == 3);
	ep_curve_get_gen(R);         /* stale but valid content */
	gb_new(&g, len);
	ev_begin("ep_read_bin");
	chdr(); vh_bytes("in", in, len); MARK();
	CALL(err, ep_read_bin(R, in, len));
	vh_ep("R", R);
	if (!err) { VH_TRY(rerr, ep_write_bin(g.p, len, R, pack)); }
	vh_int("rerr", rerr); gb_log("re", &g);
	fin(err);
	gb_free(&g); free(in);
}
static void do_ep_pck(void) {
	int err;
	set_point(P, vh_tok[2]);
	ep_curve_get_gen(R);
	ev_begin("ep_pck");
	chdr(); vh_ep("P", P); MARK();
	CALL(err, ep_pck(R, P));
	vh_ep("R", R);
	fin(err);
}
/* ep_upk <curve> <x> <bit>: the compressed object (x, raw y = bit, z = 1) */
static void do_ep_upk(void) {
	int err; volatile long ret = -1; long bit = atol(vh_tok[3]);
	vh_fp_set(P->x, vh_tok[2]);
	fp_zero(P->y); fp_set_bit(P->y, 0, (int)bit);
	fp_set_dig(P->z, 1); P->coord = BASIC;
	ep_curve_get_gen(R);
	ev_begin("ep_upk");
	chdr(); vh_ep("P", P); vh_int("bit", bit); MARK();
	CALL(err, ret = ep_upk(R, P));
	vh_ep("R", R); vh_int("ret", ret);
	fin(err);
}
#endif /* WITH_EP */

/* ------------------------------------------------------------ points of the twist over F_p^2 (G2) */
#if defined(WITH_EPX) && defined(WITH_PP)
static ep2_t P2, R2;
static void fp2_raw(fp2_t a) { fputc('[', vh_out); vh_fp_raw(a[0]); fputc(',', vh_out); vh_fp_raw(a[1]); fputc(']', vh_out); }
static void ep2_log(const char *k, ep2_t p) {
	fprintf(vh_out, ",\"%s\":{\"x\":", k); fp2_raw(p->x);
	fputs(",\"y\":", vh_out); fp2_raw(p->y);
	fputs(",\"z\":", vh_out); fp2_raw(p->z);
	fprintf(vh_out, ",\"c\":%d}", p->coord);
}
static void c2hdr(void) {
	fhdr();
	fputs(",\"a2\":", vh_out); fp2_raw(ep2_curve_get_a());
	fputs(",\"b2\":", vh_out); fp2_raw(ep2_curve_get_b());
}
/* inf | m<k> [k]G2 normalised | d<k> 2[k]G2 left in projective coordinates | x<x0>,<x1>,<y0>,<y1> affine VALUES */
static void set_point2(ep2_t p, char *tok) {
	if (strcmp(tok, "inf") == 0) { ep2_set_infty(p); return; }
	if (tok[0] == 'm' || tok[0] == 'd') {
		ep2_t g; ep2_null(g); ep2_new(g);
		ep2_curve_get_gen(g);
		vh_bn_set(T, tok + 1);
		ep2_mul_basic(p, g, T);
		ep2_norm(p, p);
		if (tok[0] == 'd') ep2_dbl_projc(p, p);
		ep2_free(g);
		return;
	}
	{
		fp_t *d[4] = { &p->x[0], &p->x[1], &p->y[0], &p->y[1] };
		fpx_set(d, 4, tok + 1);
		fp_set_dig(p->z[0], 1); fp_zero(p->z[1]); p->coord = BASIC;
	}
}
static void do_ep2_size_bin(void) {
	int err; volatile long sz = -1; long pack = atol(vh_tok[3]);
	set_point2(P2, vh_tok[2]);
	ev_begin("ep2_size_bin");
	c2hdr(); ep2_log("P", P2); vh_int("pack", pack); MARK();
	CALL(err, sz = (long)ep2_size_bin(P2, (int)pack));
	vh_int("size", sz);
	fin(err);
}
static void do_ep2_write_bin(void) {
	int err; long pack = atol(vh_tok[3]), len = atol(vh_tok[4]); gbuf_t g;
	set_point2(P2, vh_tok[2]);
	gb_new(&g, (size_t)len);
	ev_begin("ep2_write_bin");
	c2hdr(); ep2_log("P", P2); vh_int("pack", pack); vh_int("len", len);
	vh_int("size", (long)ep2_size_bin(P2, (int)pack)); MARK();
	CALL(err, ep2_write_bin(g.p, (size_t)len, P2, (int)pack));
	gb_log("out", &g);
	fin(err);
	gb_free(&g);
}
static void do_ep2_read_bin(void) {
	int err, rerr = 0; size_t len; uint8_t *in = in_bytes(vh_tok[2], &len); gbuf_t g;
	int pack = len > 0 && (in[0] == 2 || in[0] == 3);
	ep2_curve_get_gen(R2);
	gb_new(&g, len);
	ev_begin("ep2_read_bin");
	c2hdr(); vh_bytes("in", in, len); MARK();
	CALL(err, ep2_read_bin(R2, in, len));
	ep2_log("R", R2);
	if (!err) { VH_TRY(rerr, ep2_write_bin(g.p, len, R2, pack)); }
	vh_int("rerr", rerr); gb_log("re", &g);
	fin(err);
	gb_free(&g); free(in);
}
#endif

/* ------------------------------------------------------------ Edwards points */
#ifdef WITH_ED
static ed_t EP1, ER1;
static void ed_log(const char *k, ed_t p) {
	fprintf(vh_out, ",\"%s\":{\"x\":", k); vh_fp_raw(p->x);
	fputs(",\"y\":", vh_out); vh_fp_raw(p->y);
	fputs(",\"z\":", vh_out); vh_fp_raw(p->z);
	fprintf(vh_out, ",\"c\":%d}", p->coord);
}
static void ehdr(void) {
	fhdr();
	vh_fp("ea", core_get()->ed_a);
	vh_fp("ed", core_get()->ed_d);
}
/* inf | m<k> [k]G normalised | d<k> 2[k]G not normalised | <x>,<y> affine VALUES */
static void set_pointe(ed_t p, char *tok) {
	if (strcmp(tok, "inf") == 0) { ed_set_infty(p); return; }
	if (tok[0] == 'm' || tok[0] == 'd') {
		ed_t g; ed_null(g); ed_new(g);
		ed_curve_get_gen(g);
		vh_bn_set(T, tok + 1);
		ed_mul_basic(p, g, T);
		ed_norm(p, p);
		if (tok[0] == 'd') ed_dbl(p, p);
		ed_free(g);
		return;
	}
	{
		char *y = strchr(tok, ',');
		*y++ = 0;
		vh_fp_set(p->x, tok); vh_fp_set(p->y, y);
		fp_set_dig(p->z, 1);
		fp_mul(p->t, p->x, p->y);
		p->coord = BASIC;
	}
}
static void do_ed_probe(void) {
	int ok;
	cur_curve[0] = 0;
	ok = set_curve("ed");
	ev_begin("curve_probe");
	vh_str("curve", "ed");
	vh_int("ok", ok);
	if (ok) {
		ed_t g; ed_null(g); ed_new(g);
		ehdr();
		ed_curve_get_gen(g); ed_norm(g, g); ed_log("G", g);
		ed_curve_get_ord(N); vh_bn("n", N);
		ed_free(g);
	}
	vh_int("err", 0); vh_int("code", 0);
	ev_end();
}
static void do_ed_size_bin(void) {
	int err; volatile long sz = -1; long pack = atol(vh_tok[3]);
	set_pointe(EP1, vh_tok[2]);
	ev_begin("ed_size_bin");
	ehdr(); ed_log("P", EP1); vh_int("pack", pack); MARK();
	CALL(err, sz = (long)ed_size_bin(EP1, (int)pack));
	vh_int("size", sz);
	fin(err);
}
static void do_ed_write_bin(void) {
	int err; long pack = atol(vh_tok[3]), len = atol(vh_tok[4]); gbuf_t g;
	set_pointe(EP1, vh_tok[2]);
	gb_new(&g, (size_t)len);
	ev_begin("ed_write_bin");
	ehdr(); ed_log("P", EP1); vh_int("pack", pack); vh_int("len", len);
	vh_int("size", (long)ed_size_bin(EP1, (int)pack)); MARK();
	CALL(err, ed_write_bin(g.p, (size_t)len, EP1, (int)pack));
	gb_log("out", &g);
	fin(err);
	gb_free(&g);
}
static void do_ed_read_bin(void) {
	int err, rerr = 0; size_t len; uint8_t *in = in_bytes(vh_tok[2], &len); gbuf_t g;
	int pack = len > 0 && (in[0] == 2 || in[0] == 3);
	ed_curve_get_gen(ER1);
	gb_new(&g, len);
	ev_begin("ed_read_bin");
	ehdr(); vh_bytes("in", in, len); MARK();
	CALL(err, ed_read_bin(ER1, in, len));
	ed_log("R", ER1);
	if (!err) { VH_TRY(rerr, ed_write_bin(g.p, len, ER1, pack)); }
	vh_int("rerr", rerr); gb_log("re", &g);
	fin(err);
	gb_free(&g); free(in);
}
#endif

/* ------------------------------------------------------------ aliasing of the (de)compression routines
 * alias <curve> <fn> <args as for the plain op>: the routine is run out of place and in place (result object =
 * operand object); both memory images, return values and error outcomes are logged - they must coincide. */
#if defined(WITH_EPX) && defined(WITH_PP)
static void ep2_img(const char *k, ep2_t p) {          /* field by field: the structure has padding */
	fprintf(vh_out, ",\"%s\":{\"c\":%d", k, p->coord);
	vh_digs("x0", p->x[0], RLC_FP_DIGS); vh_digs("x1", p->x[1], RLC_FP_DIGS);
	vh_digs("y0", p->y[0], RLC_FP_DIGS); vh_digs("y1", p->y[1], RLC_FP_DIGS);
	vh_digs("z0", p->z[0], RLC_FP_DIGS); vh_digs("z1", p->z[1], RLC_FP_DIGS);
	fputc('}', vh_out);
}
#endif
static void do_alias(void) {
#ifdef WITH_EP
	const char *fn = vh_tok[2];
	volatile int eo = 0, en = 0; volatile long ro = -1, rn = -1;
	memmove(&vh_tok[2], &vh_tok[3], (vh_ntok - 3) * sizeof(vh_tok[0])); vh_ntok--;   /* now tok[1] = curve, tok[2..] = args */
	ev_begin("alias");
	vh_str("fn", fn);
	if (strcmp(fn, "ep_pck") == 0 || strcmp(fn, "ep_upk") == 0) {
		int upk = fn[3] == 'u';
		if (upk) { vh_fp_set(P->x, vh_tok[2]); fp_zero(P->y); fp_set_bit(P->y, 0, atoi(vh_tok[3])); fp_set_dig(P->z, 1); P->coord = BASIC; }
		else set_point(P, vh_tok[2]);
		ep_curve_get_gen(R); ep_copy(G, P);
		chdr(); vh_ep("P", P); MARK();
		if (upk) { VH_TRY(eo, ro = ep_upk(R, P)); VH_TRY(en, rn = ep_upk(G, G)); }
		else { VH_TRY(eo, ep_pck(R, P)); VH_TRY(en, ep_pck(G, G)); }
		vh_ep("o", R); vh_ep("n", G);
	}
#ifdef WITH_FPX
	else if (strcmp(fn, "fp2_pck") == 0 || strcmp(fn, "fp2_upk") == 0) {
		fp_t *d[2] = { &F2A[0], &F2A[1] };
		fp2_t b; fp2_null(b); fp2_new(b);
		fpx_set(d, 2, vh_tok[2]);
		fp2_copy(b, F2A); fp_set_dig(F2C[0], 0x5a); fp_set_dig(F2C[1], 0x5b);
		fhdr(); fp2_log("a", F2A); MARK();
		if (fn[4] == 'u') { VH_TRY(eo, ro = fp2_upk(F2C, F2A)); VH_TRY(en, rn = fp2_upk(b, b)); }
		else { VH_TRY(eo, fp2_pck(F2C, F2A)); VH_TRY(en, fp2_pck(b, b)); }
		fp2_log("o", F2C); fp2_log("n", b);
		fp2_free(b);
	}
#endif
#if defined(WITH_EPX) && defined(WITH_PP)
	else if (strcmp(fn, "ep2_pck") == 0 || strcmp(fn, "ep2_upk") == 0) {
		ep2_t b; ep2_null(b); ep2_new(b);
		set_point2(P2, vh_tok[2]);
		if (fn[4] == 'u') { VH_TRY(eo, ep2_pck(P2, P2)); eo = 0; (void)vh_code(); }   /* operand of upk: a packed point */
		ep2_copy(b, P2); ep2_curve_get_gen(R2);
		chdr(); MARK();
		if (fn[4] == 'u') { VH_TRY(eo, ro = ep2_upk(R2, P2)); VH_TRY(en, rn = ep2_upk(b, b)); }
		else { VH_TRY(eo, ep2_pck(R2, P2)); VH_TRY(en, ep2_pck(b, b)); }
		ep2_img("o", R2); ep2_img("n", b);
		ep2_free(b);
	}
#endif
#ifdef WITH_ED
	else if (strcmp(fn, "ed_pck") == 0 || strcmp(fn, "ed_upk") == 0) {
		ed_t b; ed_null(b); ed_new(b);
		set_pointe(EP1, vh_tok[2]);
		if (fn[3] == 'u') { VH_TRY(eo, ed_pck(EP1, EP1)); eo = 0; (void)vh_code(); }
		ed_copy(b, EP1); ed_curve_get_gen(ER1);
		ehdr(); MARK();
		if (fn[3] == 'u') { VH_TRY(eo, ro = ed_upk(ER1, EP1)); VH_TRY(en, rn = ed_upk(b, b)); }
		else { VH_TRY(eo, ed_pck(ER1, EP1)); VH_TRY(en, ed_pck(b, b)); }
		ed_log("o", ER1); ed_log("n", b);
		ed_free(b);
	}
#endif
	else { fprintf(stderr, "unknown alias fn %s\n", fn); exit(2); }
	vh_int("ro", ro); vh_int("rn", rn); vh_int("eo", eo != 0); vh_int("en", en != 0);
	(void)vh_code();
	vh_int("err", 0); vh_int("code", 0);
	ev_end();
#endif
}

static int run_case(void) {
	const char *op = vh_tok[0];
#define OP(n) (strcmp(op, n) == 0)
	if (OP("bn_size_bin")) { do_bn_size_bin(); return 1; }
	if (OP("bn_write_bin")) { do_bn_write_bin(); return 1; }
	if (OP("bn_read_bin")) { do_bn_read_bin(); return 1; }
	if (OP("bn_write_raw")) { do_bn_write_raw(); return 1; }
	if (OP("bn_read_raw")) { do_bn_read_raw(); return 1; }
	if (OP("bn_size_str")) { do_bn_size_str(); return 1; }
	if (OP("bn_write_str")) { do_bn_write_str(); return 1; }
	if (OP("bn_read_str")) { do_bn_read_str(); return 1; }
#ifdef WITH_EP
#ifdef WITH_ED
	if (OP("curve_probe") && vh_ntok > 1 && strcmp(vh_tok[1], "ed") == 0) { do_ed_probe(); return 1; }
#endif
	if (OP("curve_probe")) { do_probe(); return 1; }
	if (vh_ntok < 2 || !set_curve(vh_tok[1])) {
		ev_begin("BADCURVE"); vh_str("curve", vh_ntok > 1 ? vh_tok[1] : ""); ev_end();
		return 1;
	}
	if (OP("fp_read_bin")) do_fp_read_bin();
	else if (OP("fp_write_bin")) do_fp_write_bin();
	else if (OP("fp_size_str")) do_fp_size_str();
	else if (OP("fp_write_str")) do_fp_write_str();
	else if (OP("fp_read_str")) do_fp_read_str();
#ifdef WITH_FPX
	else if (OP("fp2_read_bin")) do_fp2_read_bin();
	else if (OP("fp2_write_bin")) do_fp2_write_bin();
	else if (OP("fp12_read_bin")) do_fp12_read_bin();
	else if (OP("fp12_write_bin")) do_fp12_write_bin();
#endif
#if defined(WITH_EPX) && defined(WITH_PP)
	else if (OP("ep2_size_bin")) do_ep2_size_bin();
	else if (OP("ep2_write_bin")) do_ep2_write_bin();
	else if (OP("ep2_read_bin")) do_ep2_read_bin();
#endif
#ifdef WITH_ED
	else if (OP("ed_size_bin")) do_ed_size_bin();
	else if (OP("ed_write_bin")) do_ed_write_bin();
	else if (OP("ed_read_bin")) do_ed_read_bin();
#endif
	else if (OP("ep_size_bin")) do_ep_size_bin();
	else if (OP("ep_write_bin")) do_ep_write_bin();
	else if (OP("ep_read_bin")) do_ep_read_bin();
	else if (OP("ep_pck")) do_ep_pck();
	else if (OP("ep_upk")) do_ep_upk();
	else if (OP("alias")) do_alias();
	else return 0;
	return 1;
#else
	return 0;
#endif
}

int main(int argc, char **argv) {
	long start, idx = 0;
	FILE *in = vh_open(argc, argv, &start);
	real_out = vh_out;
	cd_install();
	if (core_init() != RLC_OK) return 2;
	bn_null(A); bn_null(C); bn_null(N); bn_null(H); bn_null(T);
	bn_new(A); bn_new(C); bn_new(N); bn_new(H); bn_new(T);
#ifdef WITH_EP
	ep_null(P); ep_null(R); ep_null(G);
	ep_new(P); ep_new(R); ep_new(G);
	fp_null(FA); fp_null(FC); fp_new(FA); fp_new(FC);
#ifdef WITH_FPX
	fp2_null(F2A); fp2_null(F2C); fp2_new(F2A); fp2_new(F2C);
	fp12_null(F12A); fp12_null(F12C); fp12_new(F12A); fp12_new(F12C);
#endif
#if defined(WITH_EPX) && defined(WITH_PP)
	ep2_null(P2); ep2_null(R2); ep2_new(P2); ep2_new(R2);
#endif
#ifdef WITH_ED
	ed_null(EP1); ed_null(ER1); ed_new(EP1); ed_new(ER1);
#endif
#endif
	while (vh_next(in)) {
		if (idx++ < start) continue;
		vh_case = idx - 1;
		alarm(30);
		if (!run_case()) { fprintf(stderr, "unknown op %s\n", vh_tok[0]); return 2; }
		alarm(0);
	}
	fclose(real_out);
	core_clean();
	return 0;
}
