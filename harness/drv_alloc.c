/*
 * drv_alloc.c - allocation-fault replay (C08, fault sequences), ALLOC=DYNAMIC build.
 * Linked with --wrap=malloc,calloc,realloc,free,posix_memalign: while a call is
 * ARMED every allocation is counted and tracked, and the fail_at-th allocation
 * returns NULL.  For each driven call:
 *   1. baseline, armed without failure: number of allocations N, result digest
 *   2. for k in the requested set: armed with fail_at = k -> err, sticky code, number of
 *      allocations made during the call that are still live afterwards (leak), double/foreign
 *      frees; then the SAME call unarmed -> must reproduce the baseline digest (usable afterwards)
 * Case line: <call> <kspec>      kspec = "all" | "k1,k2,..."
 * Event: {"op":"allocfault","call":..,"k":k,"n":N,"err":e,"code":c,"leak":l,"badfree":b,
 *         "base":[digest bytes],"after":[digest bytes],"aerr":e2}
 */
#include "vh.h"

void *__real_malloc(size_t);
void *__real_calloc(size_t, size_t);
void *__real_realloc(void *, size_t);
void __real_free(void *);
int __real_posix_memalign(void **, size_t, size_t);

#define MAXLIVE 65536
static int armed;
static long n_alloc, fail_at, bad_free;
static void *live[MAXLIVE];
static int n_live;

static int should_fail(void) { n_alloc++; return fail_at > 0 && n_alloc == fail_at; }
static void track(void *p) { if (p && n_live < MAXLIVE) live[n_live++] = p; }
static int untrack(void *p) {
	int i;
	for (i = n_live - 1; i >= 0; i--) if (live[i] == p) { live[i] = live[--n_live]; return 1; }
	return 0;
}
void *__wrap_malloc(size_t n) {
	void *p;
	if (!armed) return __real_malloc(n);
	if (should_fail()) return NULL;
	p = __real_malloc(n); track(p); return p;
}
void *__wrap_calloc(size_t a, size_t b) {
	void *p;
	if (!armed) return __real_calloc(a, b);
	if (should_fail()) return NULL;
	p = __real_calloc(a, b); track(p); return p;
}
void *__wrap_realloc(void *q, size_t n) {
	void *p;
	if (!armed) return __real_realloc(q, n);
	if (should_fail()) return NULL;
	p = __real_realloc(q, n);
	if (p) { untrack(q); track(p); }
	return p;
}
int __wrap_posix_memalign(void **pp, size_t al, size_t n) {
	int r;
	if (!armed) return __real_posix_memalign(pp, al, n);
	if (should_fail()) return 12;
	r = __real_posix_memalign(pp, al, n);
	if (r == 0) track(*pp);
	return r;
}
void __wrap_free(void *p) {
	if (armed && p) untrack(p);     /* frees of objects allocated before arming are legitimate */
	__real_free(p);
}

/* ---- the driven calls: each writes a digest of its result into out[] ---- */
static bn_t A, B, M, C, D, E; static fp_t FA, FB; static ep_t P, Q, R;
#if defined(WITH_PC)
static g2_t P2, R2; static gt_t G, H;
#endif
static uint8_t out[1024]; static size_t outn;

static void dg_bn(const bn_t a) { outn = bn_size_bin(a); if (outn > sizeof(out)) outn = sizeof(out); bn_write_bin(out, outn, a); }
static void dg_ep(const ep_t a) { outn = ep_size_bin(a, 0); ep_write_bin(out, outn, a, 0); }

/* results larger than a fresh integer's initial allocation: bn_grow has to realloc (a caller with the
 * library's own try/finally discipline around a temporary) */
static bn_t BIG1, BIG2, BIGF;
#define BIGOP(fn, stmt) static void fn(void) { bn_t t; bn_null(t); \
	RLC_TRY { bn_new(t); stmt; dg_bn(t); } RLC_CATCH_ANY { RLC_THROW(ERR_CAUGHT); } RLC_FINALLY { bn_free(t); } }
BIGOP(big_mul, bn_mul(t, BIG1, BIG2))
BIGOP(big_sqr, bn_sqr(t, BIG1))
BIGOP(big_lsh, bn_lsh(t, A, 64 * RLC_BN_SIZE + 13))
BIGOP(big_add, (bn_copy(t, BIGF), bn_add(t, t, BIGF)))
BIGOP(big_muldig, (bn_copy(t, BIGF), bn_mul_dig(t, t, 251)))
static void big_copy(void) {
	bn_t t, u; bn_null(t); bn_null(u);
	RLC_TRY { bn_new(t); bn_new(u); bn_mul(t, BIG1, BIG2); bn_copy(u, t); dg_bn(u); }
	RLC_CATCH_ANY { RLC_THROW(ERR_CAUGHT); } RLC_FINALLY { bn_free(t); bn_free(u); }
}

static int do_call(const char *c) {
	volatile int err = 0;
	outn = 0;
#define CALL(name, stmt) if (strcmp(c, name) == 0) { VH_TRY(err, stmt); return err; }
	CALL("bn_mul", (bn_mul(C, A, B), dg_bn(C)))
	CALL("bn_mul_big", big_mul())
	CALL("bn_sqr_big", big_sqr())
	CALL("bn_lsh_big", big_lsh())
	CALL("bn_add_big", big_add())
	CALL("bn_mul_dig_big", big_muldig())
	CALL("bn_copy_big", big_copy())
	CALL("bn_sqr", (bn_sqr(C, A), dg_bn(C)))
	CALL("bn_div_rem", (bn_div_rem(C, D, A, M), dg_bn(D)))
	CALL("bn_mod", (bn_mod(C, A, M), dg_bn(C)))
	CALL("bn_gcd_ext", (bn_gcd_ext(C, D, E, A, M), dg_bn(D)))
	CALL("bn_gcd_lehme", (bn_gcd_lehme(C, A, M), dg_bn(C)))
	CALL("bn_mod_inv", (bn_mod_inv(C, B, M), dg_bn(C)))
	CALL("bn_mxp_slide", (bn_mxp_slide(C, A, B, M), dg_bn(C)))
	CALL("bn_mxp_monty", (bn_mxp_monty(C, A, B, M), dg_bn(C)))
	CALL("bn_mxp_basic", (bn_mxp_basic(C, A, B, M), dg_bn(C)))
	CALL("bn_srt", (bn_srt(C, A), dg_bn(C)))
	CALL("bn_is_prime", (out[0] = (uint8_t)bn_is_prime(M), outn = 1))
	CALL("bn_write_str", (bn_write_str((char *)out, 600, B, 10), outn = strlen((char *)out)))
	CALL("fp_inv", (fp_inv(FB, FA), fp_write_bin(out, RLC_FP_BYTES, FB), outn = RLC_FP_BYTES))
	CALL("fp_exp", (fp_exp(FB, FA, B), fp_write_bin(out, RLC_FP_BYTES, FB), outn = RLC_FP_BYTES))
	CALL("fp_srt", (fp_sqr(FB, FA), out[0] = (uint8_t)fp_srt(FB, FB), outn = 1))
	CALL("ep_mul_basic", (ep_mul_basic(R, P, B), dg_ep(R)))
	CALL("ep_mul_lwnaf", (ep_mul_lwnaf(R, P, B), dg_ep(R)))
	CALL("ep_mul_lwreg", (ep_mul_lwreg(R, P, B), dg_ep(R)))
	CALL("ep_mul_monty", (ep_mul_monty(R, P, B), dg_ep(R)))
	CALL("ep_mul_slide", (ep_mul_slide(R, P, B), dg_ep(R)))
	CALL("ep_mul_gen", (ep_mul_gen(R, B), dg_ep(R)))
	CALL("ep_mul_sim", (ep_mul_sim(R, P, B, P, A), dg_ep(R)))
	CALL("ep_mul_sim_gen", (ep_mul_sim_gen(R, B, P, A), dg_ep(R)))
	CALL("ep_map", (ep_map(R, (const uint8_t *)"alloc-fault", 11), dg_ep(R)))
	CALL("ep_norm", (ep_dbl(R, P), ep_norm(R, R), dg_ep(R)))
	CALL("ep_write_read", (outn = ep_size_bin(P, 1), ep_write_bin(out, outn, P, 1), ep_read_bin(R, out, outn), dg_ep(R)))
#if defined(WITH_PC)
	CALL("g2_mul", (g2_mul(R2, P2, B), g2_norm(R2, R2), outn = g2_size_bin(R2, 0), g2_write_bin(out, outn, R2, 0)))
	CALL("pc_map", (pc_map(H, P, P2), outn = gt_size_bin(H, 0), gt_write_bin(out, outn > sizeof(out) ? sizeof(out) : outn, H, 0)))
	CALL("gt_exp", (gt_exp(H, G, B), outn = gt_size_bin(H, 0), gt_write_bin(out, outn > sizeof(out) ? sizeof(out) : outn, H, 0)))
	CALL("g1_map", (g1_map(R, (const uint8_t *)"alloc-fault", 11), dg_ep(R)))
#endif
#if defined(WITH_CP)
	if (strcmp(c, "cp_ecdsa") == 0) {
		/* protocol functions report through their return value */
		volatile int r1 = RLC_OK, r2 = 0;
		VH_TRY(err, (r1 = cp_ecdsa_sig(C, D, (uint8_t *)"message", 7, 0, E), r2 = cp_ecdsa_ver(C, D, (uint8_t *)"message", 7, 0, Q)));
		out[0] = (uint8_t)r2; outn = 1;
		if (!err && r1 != RLC_OK) err = ERR_MAX;
		if (!err && r2 != 1 && core_get()->code != RLC_OK) err = ERR_MAX;
		return err;
	}
#endif
	return -1;
}

static void reseed(void) {
	uint8_t seed[32]; int i;
	for (i = 0; i < 32; i++) seed[i] = (uint8_t)(i + 11);
	core_get()->seeded = 0; rand_seed(seed, 32);
}

int main(int argc, char **argv) {
	long start, idx = 0;
	static uint8_t base[1024]; size_t basen;
	FILE *in = vh_open(argc, argv, &start);
	if (!freopen("/dev/null", "w", stderr)) return 2;
	if (core_init() != RLC_OK) return 2;
	if (ep_param_set_any_pairf() != RLC_OK) return 2;
	bn_null(A); bn_null(B); bn_null(M); bn_null(C); bn_null(D); bn_null(E);
	bn_new(A); bn_new(B); bn_new(M); bn_new(C); bn_new(D); bn_new(E);
	fp_null(FA); fp_null(FB); fp_new(FA); fp_new(FB);
	ep_null(P); ep_null(Q); ep_null(R); ep_new(P); ep_new(Q); ep_new(R);
	bn_read_str(A, "C1A551F1EDC0DEDBADC0FFEE0123456789ABCDEFFEDCBA98765432100F1E2D3C4B5A6978", 72, 16);
	bn_read_str(B, "7FFFFFFFFFFFFFFFFFFFFFFFFFFFFFFF5D576E7357A4501DDFE92F46681B20A1", 64, 16);
	bn_read_str(M, "FFFFFFFFFFFFFFFFFFFFFFFFFFFFFFFFFFFFFFFFFFFFFFFFFFFFFFFEFFFFFC2F", 64, 16);
	bn_mod(E, B, M);
	bn_null(BIG1); bn_null(BIG2); bn_null(BIGF); bn_new(BIG1); bn_new(BIG2); bn_new(BIGF);
	bn_set_2b(BIG1, RLC_DIG * (RLC_BN_SIZE / 2 + 3)); bn_sub(BIG1, BIG1, A);      /* RLC_BN_SIZE / 2 + 3 digits */
	bn_set_2b(BIG2, RLC_DIG * (RLC_BN_SIZE / 2 + 2)); bn_add(BIG2, BIG2, B);
	bn_set_dig(BIGF, 1); bn_lsh(BIGF, BIGF, RLC_DIG * RLC_BN_SIZE); bn_sub_dig(BIGF, BIGF, 1);   /* all ones, exactly the initial size */
	if (core_get()->code != RLC_OK || BIGF->used != RLC_BN_SIZE) { fprintf(stdout, "setup failed\n"); return 2; }
	fp_prime_conv(FA, A);
	ep_curve_get_gen(P); ep_dbl(Q, P); ep_norm(Q, Q);
	ep_curve_get_ord(D); bn_mod(E, A, D); ep_mul_gen(Q, E);        /* ECDSA key pair (E, Q) */
#if defined(WITH_PC)
	g2_null(P2); g2_null(R2); gt_null(G); gt_null(H); g2_new(P2); g2_new(R2); gt_new(G); gt_new(H);
	g2_get_gen(P2); gt_get_gen(G);
#endif
	while (vh_next(in)) {
		const char *call = vh_tok[0], *ks = vh_ntok > 1 ? vh_tok[1] : "all";
		long N, k;
		int err;
		if (idx++ < start) continue;
		vh_case = idx - 1;
		alarm(600);
		/* 1. baseline */
		reseed();
		n_alloc = 0; fail_at = 0; n_live = 0; bad_free = 0; armed = 1;
		err = do_call(call);
		armed = 0;
		N = n_alloc;
		if (err == -1) { fprintf(stdout, "unknown call %s\n", call); return 2; }
		memcpy(base, out, outn); basen = outn;
		vh_begin("allocbase");
		vh_str("call", call); vh_int("n", N); vh_int("err", err); vh_int("code", vh_code()); vh_int("leak", n_live);
		vh_bytes("base", base, basen);
		vh_end();
		/* 2. every requested failure point */
		for (k = 1; k <= N; k++) {
			int e2, code, leak;
			if (strcmp(ks, "all") != 0) {
				char pat[32], lst[4096];
				snprintf(pat, sizeof(pat), ",%ld,", k); snprintf(lst, sizeof(lst), ",%s,", ks);
				if (!strstr(lst, pat)) continue;
			}
			reseed();
			n_alloc = 0; fail_at = k; n_live = 0; armed = 1;
			err = do_call(call);
			armed = 0;
			code = vh_code(); leak = n_live;
			reseed();
			e2 = do_call(call);          /* the library must be usable afterwards */
			vh_begin("allocfault");
			vh_str("call", call); vh_int("k", k); vh_int("n", N); vh_int("err", err); vh_int("code", code);
			vh_int("leak", leak);
			vh_bytes("base", base, basen); vh_bytes("after", out, outn); vh_int("aerr", e2); vh_int("acode", vh_code());
			vh_end();
			fflush(vh_out);
		}
		alarm(0);
	}
	fclose(vh_out);
	return 0;
}
