/*
 * drv_ep2.c - conformance driver for the twists over F_p2 that carry the second pairing group (C11):
 * group law in every coordinate system, every scalar multiplication, Frobenius, cofactor clearing.
 *
 * Case line:  <op> <curve> <alias> <args...>     (tokens: see ep2_common.h)
 * Event: {"op","i", field/tower/twist header (ep2_common.h: x_hdr), "al",
 *         inputs "P","Q" raw points / "k","m" bn / "dg" digit / "pw" Frobenius power / "ps","ks" lists (before the call),
 *         outputs "R" raw point / "ret" (after), "crash","err","code","unch"}
 */
#include "ep2_common.h"

static ep2_t P, Q, R, P0, Q0;
static bn_t K, M, K0, M0;
static ep2_t TAB[RLC_EP_TABLE_MAX];
#define LOT_MAX 24
static ep2_t LP[LOT_MAX], LP0[LOT_MAX];
static bn_t LK[LOT_MAX], LK0[LOT_MAX];
static dig_t LD[LOT_MAX];

#define STALE(r) do { char st_[] = "m7/p3,5"; set_point2(r, st_); } while (0)

/* r = f(p): al 0 none, 1 r == p */
typedef void (*un_f)(ep2_t, const ep2_t);
static void do_un(const char *op, un_f f, int al) {
	int err, unch = 1;
	ep2_st *pp = P, *pr = R;
	set_point2(P, vh_tok[3]);
	if (al == 1) pr = pp;
	ep2_copy(P0, P);
	STALE(R);
	x_hdr(op, al);
	vh_ep2("P", pp);
	MARK();
	VH_TRY(err, f(pr, pp));
	vh_ep2("R", pr);
	if (pr != pp) unch &= vh_ep2_same(P, P0);
	x_fin(err, unch);
}

/* r = f(p, q): al 0 none, 1 r == p, 2 r == q, 3 p == q, 4 r == p == q */
typedef void (*bin_f)(ep2_t, const ep2_t, const ep2_t);
static void do_bin(const char *op, bin_f f, int al) {
	int err, unch = 1;
	ep2_st *pp = P, *pq = Q, *pr = R;
	set_point2(P, vh_tok[3]);
	set_point2(Q, vh_tok[4]);
	if (al == 3 || al == 4) pq = pp;
	if (al == 1 || al == 4) pr = pp;
	if (al == 2) pr = pq;
	ep2_copy(P0, P); ep2_copy(Q0, Q);
	STALE(R);
	x_hdr(op, al);
	vh_ep2("P", pp); vh_ep2("Q", pq);
	MARK();
	VH_TRY(err, f(pr, pp, pq));
	vh_ep2("R", pr);
	if (pr != pp) unch &= vh_ep2_same(P, P0);
	if (pr != pq && pq != pp) unch &= vh_ep2_same(Q, Q0);
	x_fin(err, unch);
}

static void do_query(const char *op, int which) {
	int err;
	volatile long ret = 0;
	set_point2(P, vh_tok[3]);
	ep2_copy(P0, P);
	if (which == 0) { set_point2(Q, vh_tok[4]); ep2_copy(Q0, Q); }
	x_hdr(op, 0);
	vh_ep2("P", P);
	if (which == 0) vh_ep2("Q", Q);
	MARK();
	switch (which) {
		case 0: VH_TRY(err, ret = ep2_cmp(P, Q)); break;
		case 1: VH_TRY(err, ret = ep2_on_curve(P)); break;
		case 2: VH_TRY(err, ret = ep2_is_infty(P)); break;
		default: err = 0;
	}
	vh_int("ret", ret);
	vh_int("EQ", RLC_EQ);
	x_fin(err, vh_ep2_same(P, P0) && (which != 0 || vh_ep2_same(Q, Q0)));
}

/* r = [k]p: al 0 none, 1 r == p */
typedef void (*mul_f)(ep2_t, const ep2_t, const bn_t);
static void do_mul(const char *op, mul_f f, int al) {
	int err, unch = 1;
	ep2_st *pp = P, *pr = R;
	set_point2(P, vh_tok[3]);
	vh_bn_set(K, vh_tok[4]);
	if (al == 1) pr = pp;
	ep2_copy(P0, P); bn_copy(K0, K);
	STALE(R);
	x_hdr(op, al);
	vh_ep2("P", pp); vh_bn("k", K);
	MARK();
	VH_TRY(err, f(pr, pp, K));
	vh_ep2("R", pr);
	if (pr != pp) unch &= vh_ep2_same(P, P0);
	unch &= vh_bn_same(K, K0);
	x_fin(err, unch);
}

static void do_mul_gen(const char *op) {
	int err, unch = 1;
	ep2_curve_get_gen(P);
	vh_bn_set(K, vh_tok[3]);
	bn_copy(K0, K);
	STALE(R);
	x_hdr(op, 0);
	vh_ep2("P", P); vh_bn("k", K);
	MARK();
	VH_TRY(err, ep2_mul_gen(R, K));
	vh_ep2("R", R);
	unch &= vh_bn_same(K, K0);
	x_fin(err, unch);
}

static void do_mul_dig(const char *op, int al) {
	int err, unch = 1;
	ep2_st *pp = P, *pr = R;
	dig_t d = vh_dig_tok(vh_tok[4]);
	set_point2(P, vh_tok[3]);
	if (al == 1) pr = pp;
	ep2_copy(P0, P);
	STALE(R);
	x_hdr(op, al);
	vh_ep2("P", pp); vh_dig("dg", d);
	MARK();
	VH_TRY(err, ep2_mul_dig(pr, pp, d));
	vh_ep2("R", pr);
	if (pr != pp) unch &= vh_ep2_same(P, P0);
	x_fin(err, unch);
}

/* r = cof(p) / r = frb^i(p): al 0 none, 1 r == p */
static void do_cof(const char *op, int al) {
	int err, unch = 1;
	ep2_st *pp = P, *pr = R;
	set_point2(P, vh_tok[3]);
	if (al == 1) pr = pp;
	ep2_copy(P0, P);
	STALE(R);
	x_hdr(op, al);
	vh_ep2("P", pp);
	MARK();
	VH_TRY(err, ep2_mul_cof(pr, pp));
	vh_ep2("R", pr);
	if (pr != pp) unch &= vh_ep2_same(P, P0);
	x_fin(err, unch);
}
static void do_frb(const char *op, int al) {
	int err, unch = 1, pw = atoi(vh_tok[4]);
	ep2_st *pp = P, *pr = R;
	set_point2(P, vh_tok[3]);
	if (al == 1) pr = pp;
	ep2_copy(P0, P);
	STALE(R);
	x_hdr(op, al);
	vh_ep2("P", pp); vh_int("pw", pw);
	MARK();
	VH_TRY(err, ep2_frb(pr, pp, pw));
	vh_ep2("R", pr);
	if (pr != pp) unch &= vh_ep2_same(P, P0);
	x_fin(err, unch);
}

/* fixed base: table built by the matching builder from P (cached for the same curve/point/builder) */
typedef void (*pre_f)(ep2_t *, const ep2_t);
typedef void (*fix_f)(ep2_t, const ep2_t *, const bn_t);
static char tab_key[1024];
static void do_fix(const char *op, pre_f pre, fix_f fix) {
	int err = 0, err2 = 0, unch = 1;
	char key[1024];
	snprintf(key, sizeof(key), "%s|%s|%s", op, cur_curve, vh_tok[3]);
	set_point2(P, vh_tok[3]);
	ep2_copy(P0, P);
	vh_bn_set(K, vh_tok[4]);
	bn_copy(K0, K);
	if (strcmp(key, tab_key) != 0) {
		VH_TRY(err, pre(TAB, P));
		strcpy(tab_key, err ? "" : key);
	}
	STALE(R);
	x_hdr(op, 0);
	vh_ep2("P", P); vh_bn("k", K);
	vh_int("perr", err);
	MARK();
	if (!err) VH_TRY(err2, fix(R, (const ep2_t *)TAB, K));
	vh_ep2("R", R);
	unch &= vh_ep2_same(P, P0) && vh_bn_same(K, K0);
	x_fin(err ? err : err2, unch);
}

/* r = [k]p + [m]q: al 0 none, 1 r == p, 2 r == q, 3 p == q */
typedef void (*sim_f)(ep2_t, const ep2_t, const bn_t, const ep2_t, const bn_t);
static void do_sim(const char *op, sim_f f, int al) {
	int err, unch = 1;
	ep2_st *pp = P, *pq = Q, *pr = R;
	set_point2(P, vh_tok[3]);
	vh_bn_set(K, vh_tok[4]);
	set_point2(Q, vh_tok[5]);
	vh_bn_set(M, vh_tok[6]);
	if (al == 3) pq = pp;
	if (al == 1) pr = pp;
	if (al == 2) pr = pq;
	ep2_copy(P0, P); ep2_copy(Q0, Q); bn_copy(K0, K); bn_copy(M0, M);
	STALE(R);
	x_hdr(op, al);
	vh_ep2("P", pp); vh_bn("k", K); vh_ep2("Q", pq); vh_bn("m", M);
	MARK();
	VH_TRY(err, f(pr, pp, K, pq, M));
	vh_ep2("R", pr);
	if (pr != pp) unch &= vh_ep2_same(P, P0);
	if (pr != pq && pq != pp) unch &= vh_ep2_same(Q, Q0);
	unch &= vh_bn_same(K, K0) && vh_bn_same(M, M0);
	x_fin(err, unch);
}

/* r = [k]G + [m]q: al 0 none, 2 r == q */
static void do_sim_gen(const char *op, int al) {
	int err, unch = 1;
	ep2_st *pq = Q, *pr = R;
	ep2_curve_get_gen(P);
	vh_bn_set(K, vh_tok[3]);
	set_point2(Q, vh_tok[4]);
	vh_bn_set(M, vh_tok[5]);
	if (al == 2) pr = pq;
	ep2_copy(Q0, Q); bn_copy(K0, K); bn_copy(M0, M);
	STALE(R);
	x_hdr(op, al);
	vh_ep2("P", P); vh_bn("k", K); vh_ep2("Q", pq); vh_bn("m", M);
	MARK();
	VH_TRY(err, ep2_mul_sim_gen(pr, K, pq, M));
	vh_ep2("R", pr);
	if (pr != pq) unch &= vh_ep2_same(Q, Q0);
	unch &= vh_bn_same(K, K0) && vh_bn_same(M, M0);
	x_fin(err, unch);
}

/* r = sum [k_i]p_i : <n> then n pairs (point, scalar | digit) */
static void do_lot(const char *op, int dig) {
	int err, unch = 1, i, n = atoi(vh_tok[3]);
	if (n > LOT_MAX || vh_ntok < 4 + 2 * n) { fprintf(stderr, "bad lot case\n"); exit(2); }
	for (i = 0; i < n; i++) {
		set_point2(LP[i], vh_tok[4 + 2 * i]);
		ep2_copy(LP0[i], LP[i]);
		if (dig) LD[i] = vh_dig_tok(vh_tok[5 + 2 * i]);
		else { vh_bn_set(LK[i], vh_tok[5 + 2 * i]); bn_copy(LK0[i], LK[i]); }
	}
	STALE(R);
	x_hdr(op, 0);
	vh_int("cnt", n);
	fputs(",\"ps\":[", vh_out);
	for (i = 0; i < n; i++) { if (i) fputc(',', vh_out); vh_ep2_raw(LP[i]); }
	fputs("],\"ks\":[", vh_out);
	for (i = 0; i < n; i++) {
		if (i) fputc(',', vh_out);
		if (dig) { bn_set_dig(K, LD[i]); vh_bn_raw(K); } else vh_bn_raw(LK[i]);
	}
	fputc(']', vh_out);
	MARK();
	if (dig) VH_TRY(err, ep2_mul_sim_dig(R, (const ep2_t *)LP, LD, n));
	else VH_TRY(err, ep2_mul_sim_lot(R, (const ep2_t *)LP, (const bn_t *)LK, n));
	vh_ep2("R", R);
	for (i = 0; i < n; i++) {
		unch &= vh_ep2_same(LP[i], LP0[i]);
		if (!dig) unch &= vh_bn_same(LK[i], LK0[i]);
	}
	x_fin(err, unch);
}

/* which curve ids select a pairing-friendly set with a twist over F_p2 in this build? (input discovery) */
static void do_probe(void) {
	int ok;
	cur_curve[0] = 0;
	ok = set_curve(vh_tok[1]);
	ev_begin("curve_probe");
	vh_str("curve", vh_tok[1]);
	vh_int("ok", ok);
	if (ok) {
		vh_fp_hdr();
		vh_bn("n", N2); vh_bn("h2", H2); vh_bn("h1", H1); vh_bn("par", PAR);
		vh_int("pf", ep_curve_is_pairf());
		vh_int("BN", EP_BN); vh_int("B12", EP_B12);
		vh_int("tw", cur_twist);
		vh_int("endom", ep_curve_is_endom());
		vh_int("fpb", (long)RLC_FP_BITS);
		vh_int("bnbits", (long)RLC_BN_BITS);
		vh_int("wd", (long)RLC_WIDTH);
		vh_int("dep", (long)RLC_DEPTH);
		vh_int("dgb", (long)RLC_DIG);
		vh_int("add", (long)EP_ADD);
	}
	ev_end();
}

static void w_add(ep2_t r, const ep2_t p, const ep2_t q) { ep2_add(r, p, q); }
static void w_dbl(ep2_t r, const ep2_t p) { ep2_dbl(r, p); }
static void w_mul(ep2_t r, const ep2_t p, const bn_t k) { ep2_mul(r, p, k); }
static void w_pre(ep2_t *t, const ep2_t p) { ep2_mul_pre(t, p); }
static void w_fix(ep2_t r, const ep2_t *t, const bn_t k) { ep2_mul_fix(r, t, k); }
static void w_sim(ep2_t r, const ep2_t p, const bn_t k, const ep2_t q, const bn_t m) { ep2_mul_sim(r, p, k, q, m); }

static int run_case(void) {
	const char *op = vh_tok[0];
	int al = vh_ntok > 2 ? atoi(vh_tok[2]) : 0;
#define OP(n) (strcmp(op, n) == 0)
	if (OP("curve_probe")) { do_probe(); return 1; }
	if (!set_curve(vh_tok[1])) {
		ev_begin("BADCURVE"); vh_str("curve", vh_tok[1]); ev_end();
		return 1;
	}
	if (OP("ep2_neg")) do_un(op, ep2_neg, al);
	else if (OP("ep2_norm")) do_un(op, ep2_norm, al);
	else if (OP("ep2_dbl")) do_un(op, w_dbl, al);
	else if (OP("ep2_dbl_basic")) do_un(op, ep2_dbl_basic, al);
	else if (OP("ep2_dbl_projc")) do_un(op, ep2_dbl_projc, al);
	else if (OP("ep2_dbl_jacob")) do_un(op, ep2_dbl_jacob, al);
	else if (OP("ep2_add")) do_bin(op, w_add, al);
	else if (OP("ep2_add_basic")) do_bin(op, ep2_add_basic, al);
	else if (OP("ep2_add_projc")) do_bin(op, ep2_add_projc, al);
	else if (OP("ep2_add_jacob")) do_bin(op, ep2_add_jacob, al);
	else if (OP("ep2_sub")) do_bin(op, ep2_sub, al);
	else if (OP("ep2_cmp")) do_query(op, 0);
	else if (OP("ep2_on_curve")) do_query(op, 1);
	else if (OP("ep2_is_infty")) do_query(op, 2);
	else if (OP("ep2_mul")) do_mul(op, w_mul, al);
	else if (OP("ep2_mul_basic")) do_mul(op, ep2_mul_basic, al);
	else if (OP("ep2_mul_slide")) do_mul(op, ep2_mul_slide, al);
	else if (OP("ep2_mul_monty")) do_mul(op, ep2_mul_monty, al);
	else if (OP("ep2_mul_lwnaf")) do_mul(op, ep2_mul_lwnaf, al);
	else if (OP("ep2_mul_lwreg")) do_mul(op, ep2_mul_lwreg, al);
	else if (OP("ep2_mul_gen")) do_mul_gen(op);
	else if (OP("ep2_mul_dig")) do_mul_dig(op, al);
	else if (OP("ep2_mul_cof")) do_cof(op, al);
	else if (OP("ep2_frb")) do_frb(op, al);
	else if (OP("ep2_mul_fix")) do_fix(op, w_pre, w_fix);
	else if (OP("ep2_mul_fix_basic")) do_fix(op, ep2_mul_pre_basic, ep2_mul_fix_basic);
	else if (OP("ep2_mul_fix_combs")) do_fix(op, ep2_mul_pre_combs, ep2_mul_fix_combs);
	else if (OP("ep2_mul_fix_combd")) do_fix(op, ep2_mul_pre_combd, ep2_mul_fix_combd);
	else if (OP("ep2_mul_fix_lwnaf")) do_fix(op, ep2_mul_pre_lwnaf, ep2_mul_fix_lwnaf);
	else if (OP("ep2_mul_sim")) do_sim(op, w_sim, al);
	else if (OP("ep2_mul_sim_basic")) do_sim(op, ep2_mul_sim_basic, al);
	else if (OP("ep2_mul_sim_trick")) do_sim(op, ep2_mul_sim_trick, al);
	else if (OP("ep2_mul_sim_inter")) do_sim(op, ep2_mul_sim_inter, al);
	else if (OP("ep2_mul_sim_joint")) do_sim(op, ep2_mul_sim_joint, al);
	else if (OP("ep2_mul_sim_gen")) do_sim_gen(op, al);
	else if (OP("ep2_mul_sim_lot")) do_lot(op, 0);
	else if (OP("ep2_mul_sim_dig")) do_lot(op, 1);
	else return 0;
	return 1;
}

int main(int argc, char **argv) {
	long start, idx = 0;
	int i;
	FILE *in = vh_open(argc, argv, &start);
	real_out = vh_out;
	x_install();
	if (core_init() != RLC_OK) return 2;
	x_init_common();
	ep2_null(P); ep2_null(Q); ep2_null(R); ep2_null(P0); ep2_null(Q0);
	ep2_new(P); ep2_new(Q); ep2_new(R); ep2_new(P0); ep2_new(Q0);
	bn_null(K); bn_null(M); bn_null(K0); bn_null(M0);
	bn_new(K); bn_new(M); bn_new(K0); bn_new(M0);
	for (i = 0; i < (int)RLC_EP_TABLE_MAX; i++) { ep2_null(TAB[i]); ep2_new(TAB[i]); }
	for (i = 0; i < LOT_MAX; i++) {
		ep2_null(LP[i]); ep2_new(LP[i]); ep2_null(LP0[i]); ep2_new(LP0[i]);
		bn_null(LK[i]); bn_new(LK[i]); bn_null(LK0[i]); bn_new(LK0[i]);
	}
	while (vh_next(in)) {
		if (idx++ < start) continue;
		vh_case = idx - 1;
		alarm(60);
		if (!run_case()) { fprintf(stderr, "unknown op %s\n", vh_tok[0]); return 2; }
		alarm(0);
	}
	fclose(real_out);
	core_clean();
	return 0;
}
