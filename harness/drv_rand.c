/*
 * drv_rand.c - structural trace driver for the Hash_DRBG (C15).
 * Linked with -Wl,--wrap=md_map_sh256 -Wl,--wrap=rand_bytes: every hash call the
 * generator makes is logged as {"op":"hash","in":[..],"out":[..]} and every
 * rand_bytes call (also those made inside bn_rand / bn_rand_mod) as
 * {"op":"gen","len":n,"out":[..],"V":[..],"C":[..],"ctr":n,"err":e} after it returned.
 * Case lines:  inst <hex> | seed <hex> | gen <len> | setstate <Vhex> <Chex> <ctr>
 *              | bn_rand <sign 0|1> <bits> | bn_rand_mod <hex b>
 */
#include "vh.h"

static int logging;
#define SL ((RLC_RAND_SIZE - 1) / 2)

void __real_md_map_sh256(uint8_t *hash, const uint8_t *msg, size_t len);
void __real_rand_bytes(uint8_t *buf, size_t size);

void __wrap_md_map_sh256(uint8_t *hash, const uint8_t *msg, size_t len) {
	__real_md_map_sh256(hash, msg, len);
	if (logging) {
		vh_begin("hash");
		vh_bytes("in", msg, len);
		vh_bytes("out", hash, RLC_MD_LEN);
		vh_end();
	}
}

static void state_out(void) {
	ctx_t *ctx = core_get();
	vh_bytes("V", ctx->rand + 1, SL);
	vh_bytes("C", ctx->rand + 1 + SL, SL);
	vh_int("ctr", (long)ctx->counter);
	vh_int("seeded", (long)ctx->seeded);
}

static int last_err;
static int notry;      /* gen_notry: the request is made outside any RLC_TRY block (a refusal then only sets the code) */
void __wrap_rand_bytes(uint8_t *buf, size_t size) {
	int err;
	if (!logging) { __real_rand_bytes(buf, size); return; }
	if (notry) {
		(void)vh_code();
		__real_rand_bytes(buf, size);
		err = vh_code() ? ERR_NO_VALID : 0;
		last_err = err;
	} else
	VH_TRY(err, __real_rand_bytes(buf, size));
	vh_begin("gen");
	vh_int("len", (long)size);
	vh_bytes("out", buf, err ? 0 : size);
	state_out();
	vh_int("err", err);
	vh_end();
	if (err && !notry) { RLC_THROW(ERR_NO_VALID); }
}

int main(int argc, char **argv) {
	long start, idx = 0;
	static uint8_t buf[1 << 17];
	bn_t a, b;
	FILE *in = vh_open(argc, argv, &start);
	if (core_init() != RLC_OK) return 2;
	bn_null(a); bn_null(b); bn_new(a); bn_new(b);
	while (vh_next(in)) {
		const char *op = vh_tok[0];
		int err = 0;
		if (idx++ < start) continue;
		vh_case = idx - 1;
		alarm(60);
		logging = 1;
		if (strcmp(op, "seed") == 0 || strcmp(op, "inst") == 0) {
			size_t n = vh_hex2bytes(vh_tok[1], buf, sizeof(buf), NULL);
			if (op[0] == 'i') core_get()->seeded = 0;
			VH_TRY(err, rand_seed(buf, n));
			vh_begin(op);
			vh_bytes("data", buf, n);
			state_out();
			vh_int("err", err); vh_int("code", vh_code());
			vh_end();
		} else if (strcmp(op, "gen_notry") == 0) {
			size_t n = (size_t)atol(vh_tok[1]);
			notry = 1; err = 0;
			rand_bytes(buf, n);                    /* outside any block; the wrapper logs the gen event */
			notry = 0;
			err = last_err;
			vh_begin("genret");
			vh_int("len", (long)n); vh_int("err", err); vh_int("code", err ? 1 : 0);     /* (the wrapper read the code) */
			vh_end();
		} else if (strcmp(op, "gen") == 0) {
			size_t n = (size_t)atol(vh_tok[1]);
			VH_TRY(err, rand_bytes(buf, n));       /* the wrapper logs the gen event */
			vh_begin("genret");
			vh_int("len", (long)n); vh_int("err", err); vh_int("code", vh_code());
			vh_end();
		} else if (strcmp(op, "setstate") == 0) {
			ctx_t *ctx = core_get();
			uint8_t t[SL];
			size_t n;
			memset(t, 0, SL); n = vh_hex2bytes(vh_tok[1], buf, sizeof(buf), NULL);
			memcpy(ctx->rand + 1 + (SL - (n > SL ? SL : n)), buf + (n > SL ? n - SL : 0), n > SL ? SL : n);
			if (n < SL) memset(ctx->rand + 1, 0, SL - n);
			n = vh_hex2bytes(vh_tok[2], buf, sizeof(buf), NULL);
			memcpy(ctx->rand + 1 + SL + (SL - (n > SL ? SL : n)), buf + (n > SL ? n - SL : 0), n > SL ? SL : n);
			if (n < SL) memset(ctx->rand + 1 + SL, 0, SL - n);
			ctx->counter = atoi(vh_tok[3]);
			ctx->seeded = 1;
			vh_begin("setstate");
			state_out();
			vh_end();
		} else if (strcmp(op, "bn_rand") == 0) {
			int sign = atoi(vh_tok[1]) ? RLC_NEG : RLC_POS;
			long bits = atol(vh_tok[2]);
			bn_set_dig(a, 0x5a);
			VH_TRY(err, bn_rand(a, sign, (size_t)bits));
			vh_begin("bn_rand");
			vh_int("w", (long)sizeof(dig_t));
			vh_int("sign", sign == RLC_NEG); vh_int("bits", bits);
			vh_bn("a", a);
			vh_int("err", err); vh_int("code", vh_code());
			vh_end();
		} else if (strcmp(op, "bn_rand_mod") == 0) {
			vh_bn_set(b, vh_tok[1]);
			bn_set_dig(a, 0x5a);
			VH_TRY(err, bn_rand_mod(a, b));
			vh_begin("bn_rand_mod");
			vh_int("w", (long)sizeof(dig_t));
			vh_bn("b", b); vh_bn("a", a);
			vh_int("err", err); vh_int("code", vh_code());
			vh_end();
		} else { fprintf(stderr, "unknown op %s\n", op); return 2; }
		logging = 0;
		alarm(0);
	}
	fclose(vh_out);
	core_clean();
	return 0;
}
