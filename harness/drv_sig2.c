/*
 * drv_sig2.c - conformance driver for the signature schemes of C05 that drv_sig.c does not drive:
 * proofs / signatures of knowledge (cp_pokdl, cp_pokor, cp_sokdl, cp_sokor), vBNN-IBS (cp_vbnn),
 * ring signatures (cp_ers, cp_smlers, cp_etrs), Camenisch-Lysyanskaya (cp_cls, cp_cli, cp_clb),
 * Pointcheval-Sanders (cp_pss, cp_psb, cp_mpss, cp_mpsb), homomorphic signatures (cp_cmlhs, cp_mklhs).
 *
 * One case line = keys + one honest signature + a list of (mutated) verifications.  Every verification
 * is one self-contained event: domain parameters, every value the verifier was given, GHOST values
 * (discrete logarithms of the G2 elements, known to the driver because it generated the keys or
 * captured the signer's random scalars through ld --wrap=bn_rand_mod) and the library's verdict.
 * The trace spec (tla/model/Sig2Spec.tla) VERIFIES each ghost value against the logged group element
 * and evaluates the scheme's verification equation by definition; the library is used here only to
 * CONSTRUCT inputs.
 *
 * Case lines (EC schemes run on the curve <cid> of ep_param_set, pairing schemes on pc_param_set_any):
 *   pokdl <cid> <seed> <mut>...
 *   pokor <cid> <seed> <mut>...
 *   sokdl <cid> <seed> <msghex> <mut>...
 *   sokor <cid> <seed> <gflag> <first> <msghex> <mut>...     gflag 1: explicit generators (g0 = G or random, g1 the other)
 *   vbnn  <cid> <seed> <idhex> <msghex> <mut>...
 *   ers | smlers <cid> <seed> <ringsize> <msghex> <mut>...
 *   etrs  <cid> <seed> <max> <plan> <msghex> <mut>...        plan: s then e (extend) / u (join) letters
 *   cls | cli <seed> <msghex> <mut>...
 *   clb <seed> <l> <msghex>*l <mut>...
 *   pss <seed> <mhex> <mut>...          psb <seed> <l> <mhex>*l <mut>...
 *   mpss <seed> <m0hex> <m1hex> <mut>...   mpsb <seed> <l> <vflag> <mhex>*2l <mut>...
 *   cmlhs <seed> <bls> <S> <L> <datahex> <mut>...    mklhs <seed> <S> <L> <datahex> <mut>...
 *
 * A mutation token is a comma separated list of operations applied to a fresh copy of the honest input:
 *   honest | m=<hex> | id=<hex> | <comp>:<op>[:<arg>] | swap:<A>:<B> | cp:<A>:<B> | scheme specific (see each scheme;
 *   CL: forge:b forge:B<i> forge:A<i> = forgeries made with the secret key that violate exactly one verification equation)
 *   integer components:  bit:<k>  +n  n-  =0  =n  =1  neg  -n  +nshl:<k> (x + n 2^k)
 *   curve points (G1 / E): fx:<k> fy:<k> inf neg dbl other (a point of y^2 = x^3 + ax + b + 1) gen
 *   G2 points: fx:<k> fy:<k> inf neg dbl +T (a twist point outside G2 is added) gen
 */
#include "vh.h"
#include <sys/wait.h>

#if !defined(WITH_CP) || !defined(WITH_PC)
#error "drv_sig2.c needs the CP and PC modules"
#endif

#define MAXM 4096
static bn_t N, T, U, V, W;
static uint8_t msg0[MAXM], msg[MAXM], id0[MAXM], idb[MAXM], buf[MAXM];
static size_t len0, len, idl0, idl;

static void reseed(const char *tok) {
	static uint8_t sd[512];
	size_t n = vh_hex2bytes(tok, sd, sizeof(sd), NULL);
	if (n == 0) { sd[0] = 0x5a; n = 1; }
	core_get()->seeded = 0;
	rand_seed(sd, n);
}

static size_t tok_bytes(const char *t, uint8_t *out) { return vh_hex2bytes(t, out, MAXM - 1, NULL); }

/* ------------------------------------------------------------ captures (ld --wrap) */
/* the random scalars drawn by the library: ghost logarithms of the signer's ephemeral values */
#define NRND 64
static bn_t rnd[NRND];
static int nrnd, rnd_on;
void __real_bn_rand_mod(bn_t a, const bn_t b);
void __wrap_bn_rand_mod(bn_t a, const bn_t b) {
	__real_bn_rand_mod(a, b);
	if (rnd_on && nrnd < NRND) { bn_copy(rnd[nrnd], a); nrnd++; }
}
/* the hash-to-curve calls of a verifier: input string and output point of each */
#define NHM 24
static int hm_n;
static uint8_t hm_in[NHM][512];
static size_t hm_len[NHM];
static ep_t hm_out[NHM];
void __real_ep_map_sswum(ep_t p, const uint8_t *m, size_t l);
void __wrap_ep_map_sswum(ep_t p, const uint8_t *m, size_t l) {
	__real_ep_map_sswum(p, m, l);
	if (hm_n < NHM && l <= 512) { memcpy(hm_in[hm_n], m, l); hm_len[hm_n] = l; ep_copy(hm_out[hm_n], p); }
	hm_n++;
}
static void vh_maps(void) {
	int i;
	vh_int("hn", hm_n);
	fputs(",\"hm\":[", vh_out);
	for (i = 0; i < hm_n && i < NHM; i++) {
		if (i) fputc(',', vh_out);
		fputs("{\"in\":", vh_out); vh_bytes_raw(hm_in[i], hm_len[i]);
		fputs(",\"P\":", vh_out); vh_ep_raw(hm_out[i]); fputc('}', vh_out);
	}
	fputc(']', vh_out);
}

/* ------------------------------------------------------------ projections */
static void vh_fp2_raw(const fp2_t a) {
	fputc('[', vh_out); vh_fp_raw(a[0]); fputc(',', vh_out); vh_fp_raw(a[1]); fputc(']', vh_out);
}
static void vh_ep2_raw(const ep2_t p) {
	fputs("{\"x\":", vh_out); vh_fp2_raw(((ep2_st *)p)->x);
	fputs(",\"y\":", vh_out); vh_fp2_raw(((ep2_st *)p)->y);
	fputs(",\"z\":", vh_out); vh_fp2_raw(((ep2_st *)p)->z);
	fprintf(vh_out, ",\"c\":%d}", p->coord);
}
static void vh_ep2(const char *k, const ep2_t p) { fprintf(vh_out, ",\"%s\":", k); vh_ep2_raw(p); }
/* a G2 element with its ghost logarithm: has = 1 "P = [lg]G2", has = 0 "P is not an element of G2" (both claims are checked) */
static void vh_g2l(const char *k, const ep2_t p, int has, const bn_t lg) {
	fprintf(vh_out, ",\"%s\":{\"P\":", k); vh_ep2_raw(p);
	fprintf(vh_out, ",\"has\":%d,\"lg\":", has); vh_bn_raw(lg); fputc('}', vh_out);
}
/* an element of the pairing target group: its coordinates over F_p, in memory order */
static void vh_gt(const char *k, const gt_t e) {
	const fp_t *f = (const fp_t *)e;
	size_t i, n = sizeof(gt_t) / sizeof(fp_t);
	fprintf(vh_out, ",\"%s\":[", k);
	for (i = 0; i < n; i++) { if (i) fputc(',', vh_out); vh_fp_raw(f[i]); }
	fputc(']', vh_out);
}
static void key_open(const char *k) { fprintf(vh_out, ",\"%s\":", k); }

/* ------------------------------------------------------------ curve selection */
static ep_t G;
static bn_t H;
static int cur_id = -1, cur_ok, pc_ok = -1;
static g1_t G1G;
static g2_t G2G, TT;

static int set_curve(int id) {
	int err, code;
	if (id == cur_id) return cur_ok;
	cur_id = id;
	VH_TRY(err, ep_param_set(id));
	code = vh_code();
	cur_ok = (err == 0 && code == 0);
	if (cur_ok) { ep_curve_get_gen(G); ep_curve_get_ord(N); ep_curve_get_cof(H); }
	return cur_ok;
}
static int set_pairing(void) {
	int err, ret = -1;
	if (pc_ok < 0) {
		VH_TRY(err, ret = pc_param_set_any());
		pc_ok = (err == 0 && ret == RLC_OK && vh_code() == 0);
		cur_id = -1;
	}
	if (!pc_ok) return 0;
	if (cur_id != -2) { pc_param_set_any(); cur_id = -2; }
	pc_get_ord(N);
	g1_get_gen(G1G); g2_get_gen(G2G);
	ep_curve_get_gen(G); ep_curve_get_cof(H);
	return 1;
}
static void curve_hdr(void) {
	vh_fp_hdr();
	vh_fp("ca", ep_curve_get_a());
	vh_fp("cb", ep_curve_get_b());
	vh_ep("G", G);
	vh_bn("n", N);
	vh_bn("h", H);
	vh_int("fcb", (long)RLC_FC_BYTES);
	vh_int("mdl", (long)RLC_MD_LEN);
	vh_int("pairf", ep_curve_is_pairf() ? 1 : 0);
}
static void pc_hdr(void) {
	curve_hdr();
	vh_ep("G1", G1G);
	vh_int("qnr", (long)fp_prime_get_qnr());
	fprintf(vh_out, ",\"ta\":"); vh_fp2_raw(ep2_curve_get_a());
	fprintf(vh_out, ",\"tb\":"); vh_fp2_raw(ep2_curve_get_b());
	vh_ep2("G2", G2G);
}
static void ver_tail(const char *mut, int ret, int err) {
	vh_str("mut", mut);
	vh_int("honest", strcmp(mut, "honest") == 0);
	vh_int("ret", ret); vh_int("err", err); vh_int("code", vh_code());
}

/* ------------------------------------------------------------ input construction helpers */
static void flip_fp(fp_t a, long bit) {
	bn_t t;
	bn_null(t); bn_new(t);
	fp_prime_back(t, a);
	if (bn_get_bit(t, bit)) bn_set_bit(t, bit, 0); else bn_set_bit(t, bit, 1);
	bn_mod(t, t, &core_get()->prime);
	if (bn_is_zero(t)) fp_zero(a); else fp_prime_conv(a, t);
	bn_free(t);
}
static void flip_bn(bn_t a, long bit) {
	if (bn_get_bit(a, bit)) bn_set_bit(a, bit, 0); else bn_set_bit(a, bit, 1);
	bn_trim(a);
}
/* a point of the curve with b + 1: same field, same a, not on the configured curve */
static void off_curve(ep_t q, const ep_t from) {
	fp_t t;
	fp_null(t); fp_new(t);
	if (ep_is_infty(from)) fp_set_dig(q->x, 2); else fp_copy(q->x, from->x);
	for (;;) {
		ep_rhs(t, q->x);
		fp_add_dig(t, t, 1);
		if (fp_srt(q->y, t)) break;
		fp_add_dig(q->x, q->x, 1);
	}
	fp_set_dig(q->z, 1); q->coord = BASIC;
	fp_free(t);
}
/* a point T # O of the twist with order coprime to n: [n]X for a random point X of E'(F_p^2) */
static void twist_torsion(ep2_t tt) {
	fp2_t t;
	fp2_null(t); fp2_new(t);
	do {
		do {
			fp2_rand(((ep2_st *)tt)->x);
			ep2_rhs(t, ((ep2_st *)tt)->x);
		} while (!fp2_srt(((ep2_st *)tt)->y, t));
		fp2_set_dig(((ep2_st *)tt)->z, 1);
		tt->coord = BASIC;
		ep2_mul_basic(tt, tt, N);
	} while (ep2_is_infty(tt));
	fp2_free(t);
}

/* ------------------------------------------------------------ components and generic mutations */
enum { K_BN, K_EP, K_G2 };
#define NC 160
typedef struct {
	char name[12];
	int kind;
	void *cur;       /* bn_st* / ep_st* / ep2_st* : the value handed to the verifier */
	int *has;        /* G2: ghost flag and logarithm (w.r.t. the G2 generator) */
	bn_st *lg;
} comp_t;
static comp_t comps[NC];
static int ncomp;
static bn_t bk_bn[NC], bk_lg[NC];
static ep_t bk_ep[NC];
static ep2_t bk_g2[NC];
static int bk_has[NC];

static void comp_reset(void) { ncomp = 0; }
static void reg(const char *name, int kind, void *cur, int *has, bn_st *lg) {
	comp_t *c;
	if (ncomp >= NC) { fprintf(stderr, "too many components\n"); exit(2); }
	c = &comps[ncomp++];
	snprintf(c->name, sizeof(c->name), "%s", name);
	c->kind = kind; c->cur = cur; c->has = has; c->lg = lg;
}
static void regi(const char *pre, int i, const char *suf, int kind, void *cur, int *has, bn_st *lg) {
	char nm[16];
	snprintf(nm, sizeof(nm), "%s%d%s", pre, i, suf);
	reg(nm, kind, cur, has, lg);
}
#define reg_bn(n, x) reg(n, K_BN, (void *)(x), NULL, NULL)
#define reg_ep(n, p) reg(n, K_EP, (void *)(p), NULL, NULL)
#define reg_g2(n, q, has, lg) reg(n, K_G2, (void *)(q), has, lg)

static void comp_save(void) {
	int i;
	for (i = 0; i < ncomp; i++) {
		comp_t *c = &comps[i];
		if (c->kind == K_BN) bn_copy(bk_bn[i], (bn_st *)c->cur);
		else if (c->kind == K_EP) ep_copy(bk_ep[i], (ep_st *)c->cur);
		else { ep2_copy(bk_g2[i], (ep2_st *)c->cur); bk_has[i] = *c->has; bn_copy(bk_lg[i], c->lg); }
	}
}
static void comp_restore(void) {
	int i;
	for (i = 0; i < ncomp; i++) {
		comp_t *c = &comps[i];
		if (c->kind == K_BN) bn_copy((bn_st *)c->cur, bk_bn[i]);
		else if (c->kind == K_EP) ep_copy((ep_st *)c->cur, bk_ep[i]);
		else { ep2_copy((ep2_st *)c->cur, bk_g2[i]); *c->has = bk_has[i]; bn_copy(c->lg, bk_lg[i]); }
	}
}
static comp_t *find(const char *name, size_t l) {
	int i;
	for (i = 0; i < ncomp; i++) if (strlen(comps[i].name) == l && strncmp(comps[i].name, name, l) == 0) return &comps[i];
	return NULL;
}

/* one operation "<comp>:<op>[:<arg>]", "swap:A:B", "cp:A:B"; returns 0 when the token is not a generic one */
static int apply_op(const char *op) {
	const char *p = strchr(op, ':'), *a;
	comp_t *c, *d;
	long k = 0;
	if (!p) return 0;
	if (strncmp(op, "swap:", 5) == 0 || strncmp(op, "cp:", 3) == 0) {
		int sw = op[0] == 's';
		const char *n1 = p + 1, *q = strchr(n1, ':');
		if (!q) return 0;
		c = find(n1, (size_t)(q - n1)); d = find(q + 1, strlen(q + 1));
		if (!c || !d || c->kind != d->kind) return 0;
		if (c->kind == K_BN) {
			bn_copy(T, (bn_st *)c->cur); bn_copy((bn_st *)c->cur, (bn_st *)d->cur); if (sw) bn_copy((bn_st *)d->cur, T);
		} else if (c->kind == K_EP) {
			ep_t t; ep_null(t); ep_new(t);
			ep_copy(t, (ep_st *)c->cur); ep_copy((ep_st *)c->cur, (ep_st *)d->cur); if (sw) ep_copy((ep_st *)d->cur, t);
			ep_free(t);
		} else {
			int h = *c->has;
			ep2_copy(TT, (ep2_st *)c->cur); bn_copy(T, c->lg);
			ep2_copy((ep2_st *)c->cur, (ep2_st *)d->cur); *c->has = *d->has; bn_copy(c->lg, d->lg);
			if (sw) { ep2_copy((ep2_st *)d->cur, TT); *d->has = h; bn_copy(d->lg, T); }
		}
		return 1;
	}
	c = find(op, (size_t)(p - op));
	if (!c) return 0;
	p++;
	a = strchr(p, ':');
	if (a) k = atol(a + 1);
#define IS(s) (strncmp(p, s, strlen(s)) == 0 && (p[strlen(s)] == 0 || p[strlen(s)] == ':'))
	if (c->kind == K_BN) {
		bn_st *x = (bn_st *)c->cur;
		if (IS("bit")) flip_bn(x, k);
		else if (IS("+n")) bn_add(x, x, N);
		else if (IS("n-")) bn_sub(x, N, x);
		else if (IS("=0")) bn_zero(x);
		else if (IS("=n")) bn_copy(x, N);
		else if (IS("=1")) bn_set_dig(x, 1);
		else if (IS("neg")) bn_neg(x, x);
		else if (IS("-n")) bn_sub(x, x, N);
		else if (IS("+nshl")) { bn_lsh(T, N, k); bn_add(x, x, T); }        /* x + n 2^k */
		else return 0;
		return 1;
	}
	if (c->kind == K_EP) {
		ep_st *q = (ep_st *)c->cur;
		if (IS("fx")) { ep_norm(q, q); flip_fp(q->x, k); }
		else if (IS("fy")) { ep_norm(q, q); flip_fp(q->y, k); }
		else if (IS("inf")) ep_set_infty(q);
		else if (IS("neg")) ep_neg(q, q);
		else if (IS("dbl")) { ep_dbl(q, q); ep_norm(q, q); }
		else if (IS("other")) off_curve(q, q);
		else if (IS("gen")) ep_copy(q, G);
		else return 0;
		return 1;
	}
	{
		ep2_st *q = (ep2_st *)c->cur;
		if (IS("fx")) { flip_fp(q->x[0], k); *c->has = 0; bn_zero(c->lg); }
		else if (IS("fy")) { flip_fp(q->y[1], k); *c->has = 0; bn_zero(c->lg); }
		else if (IS("inf")) { ep2_set_infty(q); *c->has = 1; bn_zero(c->lg); }
		else if (IS("neg")) { ep2_neg(q, q); if (*c->has && !bn_is_zero(c->lg)) bn_sub(c->lg, N, c->lg); }
		else if (IS("dbl")) { ep2_dbl(q, q); ep2_norm(q, q); if (*c->has) { bn_dbl(c->lg, c->lg); bn_mod(c->lg, c->lg, N); } }
		else if (IS("+T")) { twist_torsion(TT); ep2_add(q, q, TT); ep2_norm(q, q); *c->has = 0; bn_zero(c->lg); }
		else if (IS("gen")) { ep2_copy(q, G2G); *c->has = 1; bn_set_dig(c->lg, 1); }
		else return 0;
		return 1;
	}
#undef IS
}

/* scheme specific operation hook: returns 1 when it handled the token */
typedef int (*hook_t)(const char *op);

static void apply_mut(const char *mut, hook_t hook) {
	char tmp[2 * MAXM + 64], *op, *save = NULL;
	if (strlen(mut) >= sizeof(tmp)) { fprintf(stderr, "mutation too long\n"); exit(2); }
	strcpy(tmp, mut);
	for (op = strtok_r(tmp, ",", &save); op; op = strtok_r(NULL, ",", &save)) {
		if (!strcmp(op, "honest")) continue;
		if (op[0] == 'm' && op[1] == '=') { len = tok_bytes(op + 2, msg); continue; }
		if (op[0] == 'i' && op[1] == 'd' && op[2] == '=') { idl = tok_bytes(op + 3, idb); continue; }
		if (hook && hook(op)) continue;
		if (apply_op(op)) continue;
		fprintf(stderr, "unknown mutation %s\n", op); exit(2);
	}
}
static void fresh(void) {
	comp_restore();
	memcpy(msg, msg0, len0); len = len0;
	memcpy(idb, id0, idl0); idl = idl0;
}

/* ==================================================================== EC schemes */
#define RMAX 4
static bn_t X, X2, C[2], R[2], TD, SK[RMAX];
static ec_t Y[2], Y2, GG[2], PP, PK[RMAX], FPK;

static void bad_curve(int id) { vh_begin("BADCURVE"); vh_int("id", id); vh_end(); }

/* ---- proof of knowledge of a discrete logarithm ---- */
static void do_pokdl(void) {
	int id = atoi(vh_tok[1]), err, ret = -1, i;
	if (!set_curve(id)) { bad_curve(id); return; }
	reseed(vh_tok[2]);
	bn_rand_mod(X, N); ec_mul_gen(Y[0], X);
	bn_rand_mod(X2, N); ec_mul_gen(Y2, X2);
	VH_TRY(err, ret = cp_pokdl_prv(C[0], R[0], Y[0], X));
	vh_begin("pokdl_prv"); vh_bn("n", N); vh_bn("c", C[0]); vh_bn("r", R[0]);
	vh_int("ret", ret); vh_int("err", err); vh_int("code", vh_code()); vh_end();
	comp_reset();
	reg_bn("c", C[0]); reg_bn("r", R[0]); reg_ep("y", Y[0]); reg_ep("fy", Y2);
	comp_save();
	for (i = 3; i < vh_ntok; i++) {
		fresh(); apply_mut(vh_tok[i], NULL);
		ret = -1; vh_code();
		VH_TRY(err, ret = cp_pokdl_ver(C[0], R[0], Y[0]));
		vh_begin("pokdl_ver"); curve_hdr();
		vh_bn("c", C[0]); vh_bn("r", R[0]); vh_ep("y", Y[0]);
		ver_tail(vh_tok[i], ret, err); vh_end();
	}
}

static void or_fields(const char *sname) {
	char k[8];
	int j;
	for (j = 0; j < 2; j++) {
		snprintf(k, sizeof(k), "c%d", j); vh_bn(k, C[j]);
		snprintf(k, sizeof(k), "%s%d", sname, j); vh_bn(k, R[j]);
		snprintf(k, sizeof(k), "y%d", j); vh_ep(k, Y[j]);
	}
}

/* ---- proof of knowledge of one of two discrete logarithms (the witness is for y1) ---- */
static void do_pokor(void) {
	int id = atoi(vh_tok[1]), err, ret = -1, i;
	if (!set_curve(id)) { bad_curve(id); return; }
	reseed(vh_tok[2]);
	bn_rand_mod(X, N); ec_rand(Y[0]); ec_mul_gen(Y[1], X);
	bn_rand_mod(X2, N); ec_mul_gen(Y2, X2);
	VH_TRY(err, ret = cp_pokor_prv(C, R, (const ec_t *)Y, X));
	vh_begin("pokor_prv"); vh_bn("n", N); or_fields("r");
	vh_int("ret", ret); vh_int("err", err); vh_int("code", vh_code()); vh_end();
	comp_reset();
	reg_bn("c0", C[0]); reg_bn("c1", C[1]); reg_bn("r0", R[0]); reg_bn("r1", R[1]);
	reg_ep("y0", Y[0]); reg_ep("y1", Y[1]); reg_ep("fy", Y2);
	comp_save();
	for (i = 3; i < vh_ntok; i++) {
		fresh(); apply_mut(vh_tok[i], NULL);
		ret = -1; vh_code();
		VH_TRY(err, ret = cp_pokor_ver((const bn_t *)C, (const bn_t *)R, (const ec_t *)Y));
		vh_begin("pokor_ver"); curve_hdr(); or_fields("r");
		ver_tail(vh_tok[i], ret, err); vh_end();
	}
}

/* ---- signature of knowledge of a discrete logarithm ---- */
static void do_sokdl(void) {
	int id = atoi(vh_tok[1]), err, ret = -1, i;
	if (!set_curve(id)) { bad_curve(id); return; }
	reseed(vh_tok[2]);
	len0 = tok_bytes(vh_tok[3], msg0);
	bn_rand_mod(X, N); ec_mul_gen(Y[0], X);
	bn_rand_mod(X2, N); ec_mul_gen(Y2, X2);
	VH_TRY(err, ret = cp_sokdl_sig(C[0], R[0], msg0, len0, Y[0], X));
	vh_begin("sokdl_sig"); vh_bn("n", N); vh_bn("c", C[0]); vh_bn("s", R[0]);
	vh_int("ret", ret); vh_int("err", err); vh_int("code", vh_code()); vh_end();
	comp_reset();
	reg_bn("c", C[0]); reg_bn("s", R[0]); reg_ep("y", Y[0]); reg_ep("fy", Y2);
	comp_save();
	for (i = 4; i < vh_ntok; i++) {
		fresh(); apply_mut(vh_tok[i], NULL);
		ret = -1; vh_code();
		VH_TRY(err, ret = cp_sokdl_ver(C[0], R[0], msg, len, Y[0]));
		vh_begin("sokdl_ver"); curve_hdr();
		vh_bn("c", C[0]); vh_bn("s", R[0]); vh_ep("y", Y[0]); vh_bytes("msg", msg, len);
		ver_tail(vh_tok[i], ret, err); vh_end();
	}
}

/* ---- signature of knowledge of one of two discrete logarithms ---- */
static void do_sokor(void) {
	int id = atoi(vh_tok[1]), err, ret = -1, i, gflag, first;
	if (!set_curve(id)) { bad_curve(id); return; }
	reseed(vh_tok[2]);
	gflag = atoi(vh_tok[3]); first = atoi(vh_tok[4]) != 0;
	len0 = tok_bytes(vh_tok[5], msg0);
	bn_rand_mod(X, N);
	bn_rand_mod(X2, N); ec_mul_gen(Y2, X2);
	/* the witness x is the logarithm of y[1 - first] to the base g[1 - first]; the other y is a random point */
	if (gflag) { ec_copy(GG[first], G); ec_rand(GG[1 - first]); }
	else { ec_copy(GG[0], G); ec_copy(GG[1], G); }
	ec_mul(Y[1 - first], GG[1 - first], X); ec_norm(Y[1 - first], Y[1 - first]);
	ec_rand(Y[first]);
	VH_TRY(err, ret = cp_sokor_sig(C, R, msg0, len0, (const ec_t *)Y, gflag ? (const ec_t *)GG : NULL, X, first));
	vh_begin("sokor_sig"); vh_bn("n", N); or_fields("s");
	vh_int("ret", ret); vh_int("err", err); vh_int("code", vh_code()); vh_end();
	comp_reset();
	reg_bn("c0", C[0]); reg_bn("c1", C[1]); reg_bn("s0", R[0]); reg_bn("s1", R[1]);
	reg_ep("y0", Y[0]); reg_ep("y1", Y[1]); reg_ep("fy", Y2);
	if (gflag) { reg_ep("g0", GG[0]); reg_ep("g1", GG[1]); }
	comp_save();
	for (i = 6; i < vh_ntok; i++) {
		fresh(); apply_mut(vh_tok[i], NULL);
		ret = -1; vh_code();
		VH_TRY(err, ret = cp_sokor_ver((const bn_t *)C, (const bn_t *)R, msg, len, (const ec_t *)Y, gflag ? (const ec_t *)GG : NULL));
		vh_begin("sokor_ver"); curve_hdr(); or_fields("s");
		vh_int("gflag", gflag); vh_ep("g0", GG[0]); vh_ep("g1", GG[1]);
		vh_bytes("msg", msg, len);
		ver_tail(vh_tok[i], ret, err); vh_end();
	}
}

/* ---- vBNN-IBS ---- */
static bn_t MSK, MSK2, USK, USK2, Z, HH;
static ec_t MPK, MPK2, UPK, UPK2, RR;
static void do_vbnn(void) {
	int id = atoi(vh_tok[1]), err, ret = -1, i, crash = 0, code2 = 0;
	if (!set_curve(id)) { bad_curve(id); return; }
	reseed(vh_tok[2]);
	idl0 = tok_bytes(vh_tok[3], id0);
	len0 = tok_bytes(vh_tok[4], msg0);
	VH_TRY(err, ret = cp_vbnn_gen(MSK, MPK));
	vh_begin("vbnn_gen"); curve_hdr(); vh_bn("d", MSK); vh_ep("Q", MPK);
	vh_int("ret", ret); vh_int("err", err); vh_int("code", vh_code()); vh_end();
	cp_vbnn_gen(MSK2, MPK2);
	VH_TRY(err, ret = cp_vbnn_gen_prv(USK, UPK, MSK, id0, idl0));
	vh_begin("vbnn_prv"); vh_int("ret", ret); vh_int("err", err); vh_int("code", vh_code()); vh_end();
	/* another user of the same authority */
	buf[0] = 0x55; memcpy(buf + 1, id0, idl0);
	cp_vbnn_gen_prv(USK2, UPK2, MSK, buf, idl0 + 1);
	VH_TRY(err, ret = cp_vbnn_sig(RR, Z, HH, id0, idl0, msg0, (int)len0, USK, UPK));
	vh_begin("vbnn_sig"); vh_bn("n", N); vh_bn("z", Z); vh_bn("hh", HH);
	vh_int("ret", ret); vh_int("err", err); vh_int("code", vh_code()); vh_end();
	comp_reset();
	reg_ep("R", RR); reg_bn("z", Z); reg_bn("hh", HH); reg_ep("mpk", MPK); reg_ep("fmpk", MPK2); reg_ep("fR", UPK2);
	comp_save();
	for (i = 5; i < vh_ntok; i++) {
		fresh();
		if (!strcmp(vh_tok[i], "fsig")) {
			/* a signature of the same message made with another user's key of the same authority, submitted under id */
			cp_vbnn_sig(RR, Z, HH, id0, idl0, msg0, (int)len0, USK2, UPK2);
		} else apply_mut(vh_tok[i], NULL);
		ret = -1; vh_code(); crash = 0;
		if (ec_is_infty(RR)) {
			/* the verifier sizes its hash buffer with the encoding of R (1 byte for the identity) and writes the encoding of
			 * Z behind it: an abnormal end must become a field of THIS event, so the call runs in a child */
			int fd[2], st = 0, res[3] = { -1, 0, 0 };
			pid_t pid;
			fflush(vh_out);
			if (pipe(fd) != 0) exit(2);
			pid = fork();
			if (pid < 0) exit(2);
			if (pid == 0) {
				int e2, r2 = -1;
				signal(SIGSEGV, SIG_DFL); signal(SIGBUS, SIG_DFL); signal(SIGABRT, SIG_DFL); signal(SIGILL, SIG_DFL); signal(SIGFPE, SIG_DFL);
				close(fd[0]);
				VH_TRY(e2, r2 = cp_vbnn_ver(RR, Z, HH, idb, idl, msg, (int)len, MPK));
				res[0] = r2; res[1] = e2; res[2] = vh_code();
				if (write(fd[1], res, sizeof(res)) < 0) {}
				_exit(0);
			}
			close(fd[1]);
			if (read(fd[0], res, sizeof(res)) != (ssize_t)sizeof(res)) { res[0] = -1; res[1] = 0; res[2] = 0; }
			close(fd[0]);
			waitpid(pid, &st, 0);
			if (WIFSIGNALED(st)) crash = WTERMSIG(st);
			else if (!WIFEXITED(st) || WEXITSTATUS(st) != 0) crash = 255;
			ret = res[0]; err = res[1]; code2 = res[2];
		} else {
			VH_TRY(err, ret = cp_vbnn_ver(RR, Z, HH, idb, idl, msg, (int)len, MPK));
			code2 = vh_code();
		}
		vh_begin("vbnn_ver"); curve_hdr();
		vh_int("crash", crash);
		vh_ep("R", RR); vh_bn("z", Z); vh_bn("hh", HH); vh_ep("mpk", MPK);
		vh_bytes("id", idb, idl); vh_bytes("msg", msg, len);
		vh_str("mut", vh_tok[i]);
		vh_int("honest", strcmp(vh_tok[i], "honest") == 0);
		vh_int("ret", ret); vh_int("err", err); vh_int("code", code2);
		vh_end();
	}
}

/* ---- extendable ring signatures ---- */
static ers_t ERS[RMAX];
static smlers_t SML[RMAX];
static etrs_t ETR[RMAX + 1];
static size_t rsize;

static void ers_entry(const ers_st *s) {
	fputs("{\"h\":", vh_out); vh_ep_raw(s->h);
	fputs(",\"pk\":", vh_out); vh_ep_raw(s->pk);
	fputs(",\"c0\":", vh_out); vh_bn_raw(s->c[0]); fputs(",\"c1\":", vh_out); vh_bn_raw(s->c[1]);
	fputs(",\"s0\":", vh_out); vh_bn_raw(s->r[0]); fputs(",\"s1\":", vh_out); vh_bn_raw(s->r[1]);
}
/* ring:drop (last entry removed)  ring:rot (entries rotated by one)  ring:dup (last entry = copy of the first) */
static size_t vsize;
static int rot;
static int ring_hook(const char *op) {
	if (!strcmp(op, "ring:drop")) { if (vsize > 0) vsize--; return 1; }
	if (!strcmp(op, "ring:rot")) { rot = 1; return 1; }
	return 0;
}

static void do_ers(void) {
	int id = atoi(vh_tok[1]), err, ret = -1, i;
	size_t j, want;
	ers_t ring[RMAX];
	if (!set_curve(id)) { bad_curve(id); return; }
	reseed(vh_tok[2]);
	want = (size_t)atoi(vh_tok[3]);
	if (want < 1 || want > RMAX) { fprintf(stderr, "ring size\n"); exit(2); }
	len0 = tok_bytes(vh_tok[4], msg0);
	for (j = 0; j < RMAX; j++) cp_ers_gen_key(SK[j], PK[j]);
	bn_rand_mod(X2, N); ec_mul_gen(FPK, X2);
	cp_ers_gen(PP);
	VH_TRY(err, ret = cp_ers_sig(TD, ERS[0], msg0, len0, SK[0], PK[0], PP));
	rsize = 1;
	for (j = 1; j < want && !err && ret == RLC_OK; j++) { VH_TRY(err, ret = cp_ers_ext(TD, ERS, &rsize, msg0, len0, PK[j], PP)); }
	vh_begin("ers_sig"); vh_int("size", (long)rsize);
	vh_int("ret", ret); vh_int("err", err); vh_int("code", vh_code()); vh_end();
	comp_reset();
	reg_bn("td", TD); reg_ep("pp", PP); reg_ep("fpk", FPK);
	for (j = 0; j < rsize; j++) {
		regi("h", (int)j, "", K_EP, ERS[j]->h, NULL, NULL); regi("pk", (int)j, "", K_EP, ERS[j]->pk, NULL, NULL);
		regi("c", (int)j, "0", K_BN, ERS[j]->c[0], NULL, NULL); regi("c", (int)j, "1", K_BN, ERS[j]->c[1], NULL, NULL);
		regi("s", (int)j, "0", K_BN, ERS[j]->r[0], NULL, NULL); regi("s", (int)j, "1", K_BN, ERS[j]->r[1], NULL, NULL);
	}
	comp_save();
	for (i = 5; i < vh_ntok; i++) {
		fresh(); vsize = rsize; rot = 0;
		apply_mut(vh_tok[i], ring_hook);
		for (j = 0; j < vsize; j++) memcpy(ring[j], ERS[rot ? (j + 1) % vsize : j], sizeof(ers_t));
		ret = -1; vh_code();
		VH_TRY(err, ret = cp_ers_ver(TD, ring, vsize, msg, len, PP));
		vh_begin("ers_ver"); curve_hdr();
		vh_bn("td", TD); vh_ep("pp", PP); vh_bytes("msg", msg, len);
		fputs(",\"ring\":[", vh_out);
		for (j = 0; j < vsize; j++) { if (j) fputc(',', vh_out); ers_entry(ring[j]); fputc('}', vh_out); }
		fputc(']', vh_out);
		ver_tail(vh_tok[i], ret, err); vh_end();
	}
}

static void do_smlers(void) {
	int id = atoi(vh_tok[1]), err, ret = -1, i;
	size_t j, want;
	smlers_t ring[RMAX];
	if (!set_curve(id)) { bad_curve(id); return; }
	reseed(vh_tok[2]);
	want = (size_t)atoi(vh_tok[3]);
	if (want < 1 || want > RMAX) { fprintf(stderr, "ring size\n"); exit(2); }
	len0 = tok_bytes(vh_tok[4], msg0);
	for (j = 0; j < RMAX; j++) cp_ers_gen_key(SK[j], PK[j]);
	bn_rand_mod(X2, N); ec_mul_gen(FPK, X2);
	cp_ers_gen(PP);
	VH_TRY(err, ret = cp_smlers_sig(TD, SML[0], msg0, len0, SK[0], PK[0], PP));
	rsize = 1;
	for (j = 1; j < want && !err && ret == RLC_OK; j++) { VH_TRY(err, ret = cp_smlers_ext(TD, SML, &rsize, msg0, len0, PK[j], PP)); }
	vh_begin("smlers_sig"); vh_int("size", (long)rsize);
	vh_int("ret", ret); vh_int("err", err); vh_int("code", vh_code()); vh_end();
	comp_reset();
	reg_bn("td", TD); reg_ep("pp", PP); reg_ep("fpk", FPK);
	for (j = 0; j < rsize; j++) {
		regi("h", (int)j, "", K_EP, SML[j]->sig->h, NULL, NULL); regi("pk", (int)j, "", K_EP, SML[j]->sig->pk, NULL, NULL);
		regi("c", (int)j, "0", K_BN, SML[j]->sig->c[0], NULL, NULL); regi("c", (int)j, "1", K_BN, SML[j]->sig->c[1], NULL, NULL);
		regi("s", (int)j, "0", K_BN, SML[j]->sig->r[0], NULL, NULL); regi("s", (int)j, "1", K_BN, SML[j]->sig->r[1], NULL, NULL);
		regi("tau", (int)j, "", K_EP, SML[j]->tau, NULL, NULL);
		regi("d", (int)j, "0", K_BN, SML[j]->c[0], NULL, NULL); regi("d", (int)j, "1", K_BN, SML[j]->c[1], NULL, NULL);
		regi("t", (int)j, "0", K_BN, SML[j]->r[0], NULL, NULL); regi("t", (int)j, "1", K_BN, SML[j]->r[1], NULL, NULL);
	}
	comp_save();
	for (i = 5; i < vh_ntok; i++) {
		fresh(); vsize = rsize; rot = 0;
		apply_mut(vh_tok[i], ring_hook);
		for (j = 0; j < vsize; j++) memcpy(ring[j], SML[rot ? (j + 1) % vsize : j], sizeof(smlers_t));
		ret = -1; hm_n = 0; vh_code();
		VH_TRY(err, ret = cp_smlers_ver(TD, ring, vsize, msg, len, PP));
		vh_begin("smlers_ver"); curve_hdr();
		vh_bn("td", TD); vh_ep("pp", PP); vh_bytes("msg", msg, len);
		vh_maps();
		fputs(",\"ring\":[", vh_out);
		for (j = 0; j < vsize; j++) {
			if (j) fputc(',', vh_out);
			ers_entry(ring[j]->sig);
			fputs(",\"tau\":", vh_out); vh_ep_raw(ring[j]->tau);
			fputs(",\"d0\":", vh_out); vh_bn_raw(ring[j]->c[0]); fputs(",\"d1\":", vh_out); vh_bn_raw(ring[j]->c[1]);
			fputs(",\"t0\":", vh_out); vh_bn_raw(ring[j]->r[0]); fputs(",\"t1\":", vh_out); vh_bn_raw(ring[j]->r[1]);
			fputc('}', vh_out);
		}
		fputc(']', vh_out);
		ver_tail(vh_tok[i], ret, err); vh_end();
	}
}

/* ---- extendable threshold ring signatures ----
 * plan: 's' (cp_etrs_sig with key 0) followed by 'e' (cp_etrs_ext: a trapdoor point moves into the ring under the next
 * key) and 'u' (cp_etrs_uni: the next key joins as a signer) steps; the honest threshold is 1 + number of 'u' steps.
 * thres:<t> submits another threshold. */
#define EMAX 6
static bn_t ETD[EMAX], EY[EMAX];
static long thres;
static int etrs_hook(const char *op) {
	if (strncmp(op, "thres:", 6) == 0) { thres = atol(op + 6); return 1; }
	return ring_hook(op);
}
static void do_etrs(void) {
	int id = atoi(vh_tok[1]), err, ret = -1, i, used = 0, hon = 1, nkey = 1, crash = 0, code2 = 0;
	size_t j, max;
	const char *plan;
	etrs_t ring[RMAX + 1];
	if (!set_curve(id)) { bad_curve(id); return; }
	reseed(vh_tok[2]);
	max = (size_t)atoi(vh_tok[3]);
	plan = vh_tok[4];
	if (max < 1 || max > EMAX || plan[0] != 's' || strlen(plan) > RMAX) { fprintf(stderr, "etrs parameters\n"); exit(2); }
	len0 = tok_bytes(vh_tok[5], msg0);
	for (j = 0; j < RMAX; j++) cp_ers_gen_key(SK[j], PK[j]);
	bn_rand_mod(X2, N); ec_mul_gen(FPK, X2);
	cp_ers_gen(PP);
	VH_TRY(err, ret = cp_etrs_sig(ETD, EY, max, ETR[0], msg0, len0, SK[0], PK[0], PP));
	rsize = 1;
	for (j = 1; plan[j] && !err && ret == RLC_OK; j++, nkey++) {
		if (plan[j] == 'e') {
			if ((size_t)used >= max) { fprintf(stderr, "etrs: no trapdoor left\n"); exit(2); }
			VH_TRY(err, ret = cp_etrs_ext(ETD + used, EY + used, max - used, ETR, &rsize, msg0, len0, PK[nkey], PP));
			used++;
		} else {
			VH_TRY(err, ret = cp_etrs_uni(hon, ETD + used, EY + used, (int)(max - used), ETR, &rsize, msg0, len0, SK[nkey], PK[nkey], PP));
			hon++;
		}
	}
	vh_begin("etrs_sig"); vh_int("size", (long)rsize); vh_int("thres", hon); vh_int("max", (long)(max - used));
	vh_int("ret", ret); vh_int("err", err); vh_int("code", vh_code()); vh_end();
	comp_reset();
	reg_ep("pp", PP); reg_ep("fpk", FPK);
	for (j = (size_t)used; j < max; j++) { regi("td", (int)j - used, "", K_BN, ETD[j], NULL, NULL); regi("y", (int)j - used, "", K_BN, EY[j], NULL, NULL); }
	for (j = 0; j < rsize; j++) {
		regi("ry", (int)j, "", K_BN, ETR[j]->y, NULL, NULL);
		regi("h", (int)j, "", K_EP, ETR[j]->h, NULL, NULL); regi("pk", (int)j, "", K_EP, ETR[j]->pk, NULL, NULL);
		regi("c", (int)j, "0", K_BN, ETR[j]->c[0], NULL, NULL); regi("c", (int)j, "1", K_BN, ETR[j]->c[1], NULL, NULL);
		regi("s", (int)j, "0", K_BN, ETR[j]->r[0], NULL, NULL); regi("s", (int)j, "1", K_BN, ETR[j]->r[1], NULL, NULL);
	}
	comp_save();
	for (i = 6; i < vh_ntok; i++) {
		fresh(); vsize = rsize; rot = 0; thres = hon;
		apply_mut(vh_tok[i], etrs_hook);
		for (j = 0; j < vsize; j++) memcpy(ring[j], ETR[rot ? (j + 1) % vsize : j], sizeof(etrs_t));
		ret = -1; vh_code(); crash = 0;
		if (thres > (long)vsize || thres < 0) {
			/* the verifier sizes its work arrays with max + size - thres and fills max entries: an abnormal end of the
			 * call must become a field of THIS event, so the call runs in a forked child (as drv_sig.c does for RSA) */
			int fd[2], st = 0, res[3] = { -1, 0, 0 };
			pid_t pid;
			fflush(vh_out);
			if (pipe(fd) != 0) exit(2);
			pid = fork();
			if (pid < 0) exit(2);
			if (pid == 0) {
				int e2, r2 = -1;
				signal(SIGSEGV, SIG_DFL); signal(SIGBUS, SIG_DFL); signal(SIGABRT, SIG_DFL); signal(SIGILL, SIG_DFL); signal(SIGFPE, SIG_DFL);
				close(fd[0]);
				VH_TRY(e2, r2 = cp_etrs_ver((size_t)thres, (const bn_t *)(ETD + used), (const bn_t *)(EY + used), max - used, ring, vsize, msg, len, PP));
				res[0] = r2; res[1] = e2; res[2] = vh_code();
				if (write(fd[1], res, sizeof(res)) < 0) {}
				_exit(0);
			}
			close(fd[1]);
			if (read(fd[0], res, sizeof(res)) != (ssize_t)sizeof(res)) { res[0] = -1; res[1] = 0; res[2] = 0; }
			close(fd[0]);
			waitpid(pid, &st, 0);
			if (WIFSIGNALED(st)) crash = WTERMSIG(st);
			else if (!WIFEXITED(st) || WEXITSTATUS(st) != 0) crash = 255;
			ret = res[0]; err = res[1]; code2 = res[2];
		} else {
			VH_TRY(err, ret = cp_etrs_ver((size_t)thres, (const bn_t *)(ETD + used), (const bn_t *)(EY + used), max - used, ring, vsize, msg, len, PP));
			code2 = vh_code();
		}
		vh_begin("etrs_ver"); curve_hdr();
		vh_int("crash", crash);
		vh_int("thres", thres); vh_int("hthres", hon);
		vh_ep("pp", PP); vh_bytes("msg", msg, len);
		fputs(",\"td\":[", vh_out);
		for (j = (size_t)used; j < max; j++) { if (j > (size_t)used) fputc(',', vh_out); vh_bn_raw(ETD[j]); }
		fputs("],\"y\":[", vh_out);
		for (j = (size_t)used; j < max; j++) { if (j > (size_t)used) fputc(',', vh_out); vh_bn_raw(EY[j]); }
		fputs("],\"ring\":[", vh_out);
		for (j = 0; j < vsize; j++) {
			if (j) fputc(',', vh_out);
			fputs("{\"y\":", vh_out); vh_bn_raw(ring[j]->y);
			fputs(",\"h\":", vh_out); vh_ep_raw(ring[j]->h);
			fputs(",\"pk\":", vh_out); vh_ep_raw(ring[j]->pk);
			fputs(",\"c0\":", vh_out); vh_bn_raw(ring[j]->c[0]); fputs(",\"c1\":", vh_out); vh_bn_raw(ring[j]->c[1]);
			fputs(",\"s0\":", vh_out); vh_bn_raw(ring[j]->r[0]); fputs(",\"s1\":", vh_out); vh_bn_raw(ring[j]->r[1]);
			fputc('}', vh_out);
		}
		fputc(']', vh_out);
		vh_str("mut", vh_tok[i]);
		vh_int("honest", strcmp(vh_tok[i], "honest") == 0);
		vh_int("ret", ret); vh_int("err", err); vh_int("code", code2);
		vh_end();
	}
}

/* ==================================================================== pairing schemes */
#define LMAX 4
static bn_t KR, KS, KT, KU, KV[LMAX], LX, LY, LZ[LMAX], LG, MB[LMAX], RB;
static g1_t SA, SB, SC, SAA[LMAX], SBB[LMAX];
static g2_t KX, KY, KZ[LMAX], KG;
static int HX, HY, HZ[LMAX], HG;
static uint8_t bmsg0[LMAX][MAXM], bmsg[LMAX][MAXM];
static size_t blen0[LMAX], blen[LMAX];
static size_t nblk;

static void bad_pairing(void) { vh_begin("BADCURVE"); vh_int("id", -1); vh_end(); }
static void pc_gen_event(const char *op, int ret, int err) {
	vh_begin(op); pc_hdr();
	vh_int("ret", ret); vh_int("err", err); vh_int("code", vh_code()); vh_end();
}
/* m<i>=<hex>: block message i */
static int blk_hook(const char *op) {
	if (op[0] == 'm' && op[1] >= '0' && op[1] <= '9' && op[2] == '=') {
		size_t i = (size_t)(op[1] - '0');
		if (i >= nblk) return 0;
		blen[i] = tok_bytes(op + 3, bmsg[i]);
		return 1;
	}
	return 0;
}
static void blk_fresh(void) {
	size_t i;
	fresh();
	for (i = 0; i < nblk; i++) { memcpy(bmsg[i], bmsg0[i], blen0[i]); blen[i] = blen0[i]; }
}
static void blk_log(void) {
	size_t i;
	fputs(",\"ms\":[", vh_out);
	for (i = 0; i < nblk; i++) { if (i) fputc(',', vh_out); vh_bytes_raw(bmsg[i], blen[i]); }
	fputc(']', vh_out);
}

/* Forgeries that violate exactly ONE of the verification equations (built with the secret key; input construction only):
 *   forge:b    b' = b + G1, c' = c + [x m]G1            only e(a, Y) = e(b', g) fails
 *   forge:B<i> B' = B + G1, c' = c + [x r]G1            only e(A, Y) = e(B', g) fails       (r = the scalar that multiplies B in c)
 *   forge:A<i> A' = A + G1, B' = B + [y]G1, c' = c + [x r y]G1     only e(a, Z) = e(A', g) fails */
static g1_t FP1;
static void msg_int(bn_t m, const uint8_t *b, size_t l) {
	if (l == 0) bn_zero(m); else bn_read_bin(m, b, l);
	bn_mod(m, m, N);
}
static void add_gen_mul(g1_t p, const bn_t k) {       /* p <- p + [k]G1 */
	g1_mul_gen(FP1, k);
	g1_add(p, p, FP1);
	g1_norm(p, p);
}
static void forge_b(g1_st *b, g1_st *c, const bn_t x, const bn_t m) {
	bn_set_dig(U, 1); add_gen_mul(b, U);
	bn_mul(U, x, m); bn_mod(U, U, N); add_gen_mul(c, U);
}
static void forge_A(g1_st *A, g1_st *B, g1_st *c, const bn_t x, const bn_t y, const bn_t r) {
	bn_set_dig(U, 1); add_gen_mul(A, U);
	add_gen_mul(B, y);
	bn_mul(U, x, r); bn_mod(U, U, N); bn_mul(U, U, y); bn_mod(U, U, N); add_gen_mul(c, U);
}
static int cls_hook(const char *op) {
	if (!strcmp(op, "forge:b")) { msg_int(V, msg, len); forge_b(SB, SC, KR, V); return 1; }
	return 0;
}
static int cli_hook(const char *op) {
	if (!strcmp(op, "forge:b")) { msg_int(V, msg, len); forge_b(SB, SC, KT, V); return 1; }
	if (!strcmp(op, "forge:B")) { bn_mod(V, RB, N); forge_b(SBB[0], SC, KT, V); return 1; }
	if (!strcmp(op, "forge:A")) { bn_mod(V, RB, N); forge_A(SAA[0], SBB[0], SC, KT, KU, V); return 1; }
	return 0;
}
static int blk_hook(const char *op);
static int clb_hook(const char *op) {
	if (!strcmp(op, "forge:b")) { msg_int(V, bmsg[0], blen[0]); forge_b(SB, SC, KT, V); return 1; }
	if (!strncmp(op, "forge:B", 7) || !strncmp(op, "forge:A", 7)) {
		size_t i = (size_t)(op[7] - '0');
		if (op[7] < '0' || op[7] > '9' || i + 1 >= nblk) return 0;
		msg_int(V, bmsg[i + 1], blen[i + 1]);
		if (op[6] == 'B') forge_b(SBB[i], SC, KT, V); else forge_A(SAA[i], SBB[i], SC, KT, KU, V);
		return 1;
	}
	return blk_hook(op);
}

/* ---- Camenisch-Lysyanskaya, scheme A ---- */
static void do_cls(void) {
	int err, ret = -1, i;
	if (!set_pairing()) { bad_pairing(); return; }
	reseed(vh_tok[1]);
	len0 = tok_bytes(vh_tok[2], msg0);
	VH_TRY(err, ret = cp_cls_gen(KR, KS, KX, KY));
	pc_gen_event("cls_gen", ret, err);
	VH_TRY(err, ret = cp_cls_sig(SA, SB, SC, msg0, len0, KR, KS));
	vh_begin("cls_sig"); vh_int("ret", ret); vh_int("err", err); vh_int("code", vh_code()); vh_end();
	HX = HY = 1; bn_copy(LX, KR); bn_copy(LY, KS);
	comp_reset();
	reg_ep("a", SA); reg_ep("b", SB); reg_ep("c", SC);
	reg_g2("x", KX, &HX, LX); reg_g2("y", KY, &HY, LY);
	comp_save();
	for (i = 3; i < vh_ntok; i++) {
		fresh(); apply_mut(vh_tok[i], cls_hook);
		ret = -1; vh_code();
		VH_TRY(err, ret = cp_cls_ver(SA, SB, SC, msg, len, KX, KY));
		vh_begin("cls_ver"); pc_hdr();
		vh_ep("a", SA); vh_ep("b", SB); vh_ep("c", SC);
		vh_g2l("x", KX, HX, LX); vh_g2l("y", KY, HY, LY);
		vh_bytes("msg", msg, len);
		ver_tail(vh_tok[i], ret, err); vh_end();
	}
}

/* ---- Camenisch-Lysyanskaya, scheme B (signature on a committed value with randomness r) ---- */
static void do_cli(void) {
	int err, ret = -1, i;
	if (!set_pairing()) { bad_pairing(); return; }
	reseed(vh_tok[1]);
	len0 = tok_bytes(vh_tok[2], msg0);
	VH_TRY(err, ret = cp_cli_gen(KT, KU, KV[0], KX, KY, KZ[0]));
	pc_gen_event("cli_gen", ret, err);
	bn_rand_mod(RB, N);
	VH_TRY(err, ret = cp_cli_sig(SA, SAA[0], SB, SBB[0], SC, msg0, len0, RB, KT, KU, KV[0]));
	vh_begin("cli_sig"); vh_int("ret", ret); vh_int("err", err); vh_int("code", vh_code()); vh_end();
	HX = HY = HZ[0] = 1; bn_copy(LX, KT); bn_copy(LY, KU); bn_copy(LZ[0], KV[0]);
	comp_reset();
	reg_ep("a", SA); reg_ep("A", SAA[0]); reg_ep("b", SB); reg_ep("B", SBB[0]); reg_ep("c", SC);
	reg_bn("r", RB);
	reg_g2("x", KX, &HX, LX); reg_g2("y", KY, &HY, LY); reg_g2("z", KZ[0], &HZ[0], LZ[0]);
	comp_save();
	for (i = 3; i < vh_ntok; i++) {
		fresh(); apply_mut(vh_tok[i], cli_hook);
		ret = -1; vh_code();
		VH_TRY(err, ret = cp_cli_ver(SA, SAA[0], SB, SBB[0], SC, msg, len, RB, KX, KY, KZ[0]));
		vh_begin("cli_ver"); pc_hdr();
		vh_ep("a", SA); vh_ep("A", SAA[0]); vh_ep("b", SB); vh_ep("B", SBB[0]); vh_ep("c", SC);
		vh_bn("r", RB);
		vh_g2l("x", KX, HX, LX); vh_g2l("y", KY, HY, LY); vh_g2l("z", KZ[0], HZ[0], LZ[0]);
		vh_bytes("msg", msg, len);
		ver_tail(vh_tok[i], ret, err); vh_end();
	}
}

/* ---- Camenisch-Lysyanskaya, scheme C (blocks of messages) ---- */
static void do_clb(void) {
	int err, ret = -1, i;
	size_t j, l;
	const uint8_t *ms[LMAX];
	size_t ls[LMAX];
	if (!set_pairing()) { bad_pairing(); return; }
	reseed(vh_tok[1]);
	l = (size_t)atoi(vh_tok[2]);
	if (l < 1 || l > LMAX || vh_ntok < (int)(3 + l)) { fprintf(stderr, "clb parameters\n"); exit(2); }
	nblk = l;
	for (j = 0; j < l; j++) { blen0[j] = tok_bytes(vh_tok[3 + j], bmsg0[j]); ms[j] = bmsg0[j]; ls[j] = blen0[j]; }
	VH_TRY(err, ret = cp_clb_gen(KT, KU, KV, KX, KY, KZ, l));
	pc_gen_event("clb_gen", ret, err);
	VH_TRY(err, ret = cp_clb_sig(SA, SAA, SB, SBB, SC, ms, ls, KT, KU, (const bn_t *)KV, l));
	vh_begin("clb_sig"); vh_int("ret", ret); vh_int("err", err); vh_int("code", vh_code()); vh_end();
	HX = HY = 1; bn_copy(LX, KT); bn_copy(LY, KU);
	comp_reset();
	reg_ep("a", SA); reg_ep("b", SB); reg_ep("c", SC);
	reg_g2("x", KX, &HX, LX); reg_g2("y", KY, &HY, LY);
	for (j = 0; j + 1 < l; j++) {
		HZ[j] = 1; bn_copy(LZ[j], KV[j]);
		regi("A", (int)j, "", K_EP, SAA[j], NULL, NULL); regi("B", (int)j, "", K_EP, SBB[j], NULL, NULL);
		regi("z", (int)j, "", K_G2, KZ[j], &HZ[j], LZ[j]);
	}
	comp_save();
	for (i = (int)(3 + l); i < vh_ntok; i++) {
		blk_fresh(); apply_mut(vh_tok[i], clb_hook);
		for (j = 0; j < l; j++) { ms[j] = bmsg[j]; ls[j] = blen[j]; }
		ret = -1; vh_code();
		VH_TRY(err, ret = cp_clb_ver(SA, (const g1_t *)SAA, SB, (const g1_t *)SBB, SC, ms, ls, KX, KY, (const g2_t *)KZ, l));
		vh_begin("clb_ver"); pc_hdr();
		vh_ep("a", SA); vh_ep("b", SB); vh_ep("c", SC);
		vh_g2l("x", KX, HX, LX); vh_g2l("y", KY, HY, LY);
		fputs(",\"A\":[", vh_out); for (j = 0; j + 1 < l; j++) { if (j) fputc(',', vh_out); vh_ep_raw(SAA[j]); }
		fputs("],\"B\":[", vh_out); for (j = 0; j + 1 < l; j++) { if (j) fputc(',', vh_out); vh_ep_raw(SBB[j]); }
		fputs("],\"z\":[", vh_out);
		for (j = 0; j + 1 < l; j++) {
			if (j) fputc(',', vh_out);
			fputs("{\"P\":", vh_out); vh_ep2_raw(KZ[j]); fprintf(vh_out, ",\"has\":%d,\"lg\":", HZ[j]); vh_bn_raw(LZ[j]); fputc('}', vh_out);
		}
		fputc(']', vh_out);
		blk_log();
		ver_tail(vh_tok[i], ret, err); vh_end();
	}
}

/* ---- Pointcheval-Sanders (single message / block) ----
 * the key is (g, x = [r]g, y_i = [s_i]g) with g = [gamma]G2 drawn by g2_rand: gamma is captured */
static void ps_logs(size_t l) {
	size_t j;
	HG = HX = 1;
	bn_mul(LX, KR, LG); bn_mod(LX, LX, N);
	for (j = 0; j < l; j++) { HZ[j] = 1; bn_mul(LZ[j], KV[j], LG); bn_mod(LZ[j], LZ[j], N); }
}
static void g2l_list(const char *k, g2_t *q, int *has, bn_t *lg, size_t l) {
	size_t j;
	fprintf(vh_out, ",\"%s\":[", k);
	for (j = 0; j < l; j++) {
		if (j) fputc(',', vh_out);
		fputs("{\"P\":", vh_out); vh_ep2_raw(q[j]); fprintf(vh_out, ",\"has\":%d,\"lg\":", has[j]); vh_bn_raw(lg[j]); fputc('}', vh_out);
	}
	fputc(']', vh_out);
}
static void bn_list(const char *k, bn_t *x, size_t l) {
	size_t j;
	fprintf(vh_out, ",\"%s\":[", k);
	for (j = 0; j < l; j++) { if (j) fputc(',', vh_out); vh_bn_raw(x[j]); }
	fputc(']', vh_out);
}
static void tok_bn(bn_t x, const char *tok) {
	size_t l = tok_bytes(tok, buf);
	if (l == 0) bn_zero(x); else bn_read_bin(x, buf, l);
}

static void do_ps(int block) {
	int err, ret = -1, i, first;
	size_t j, l = 1;
	if (!set_pairing()) { bad_pairing(); return; }
	reseed(vh_tok[1]);
	if (block) {
		l = (size_t)atoi(vh_tok[2]);
		if (l < 1 || l > LMAX || vh_ntok < (int)(3 + l)) { fprintf(stderr, "psb parameters\n"); exit(2); }
		for (j = 0; j < l; j++) tok_bn(MB[j], vh_tok[3 + j]);
		first = (int)(3 + l);
	} else { tok_bn(MB[0], vh_tok[2]); first = 3; }
	nrnd = 0; rnd_on = 1;
	if (block) { VH_TRY(err, ret = cp_psb_gen(KR, KV, KG, KX, KZ, l)); }
	else { VH_TRY(err, ret = cp_pss_gen(KR, KV[0], KG, KX, KZ[0])); }
	rnd_on = 0;
	pc_gen_event(block ? "psb_gen" : "pss_gen", ret, err);
	/* draws: r, (s,) gamma for pss; r, gamma, s_i for psb */
	bn_copy(LG, rnd[block ? 1 : 2]);
	ps_logs(l);
	if (block) { VH_TRY(err, ret = cp_psb_sig(SA, SB, (const bn_t *)MB, KR, (const bn_t *)KV, l)); }
	else { VH_TRY(err, ret = cp_pss_sig(SA, SB, MB[0], KR, KV[0])); }
	vh_begin(block ? "psb_sig" : "pss_sig"); vh_int("ret", ret); vh_int("err", err); vh_int("code", vh_code()); vh_end();
	comp_reset();
	reg_ep("a", SA); reg_ep("b", SB);
	reg_g2("g", KG, &HG, LG); reg_g2("x", KX, &HX, LX);
	for (j = 0; j < l; j++) { regi("m", (int)j, "", K_BN, MB[j], NULL, NULL); regi("y", (int)j, "", K_G2, KZ[j], &HZ[j], LZ[j]); }
	comp_save();
	for (i = first; i < vh_ntok; i++) {
		fresh(); apply_mut(vh_tok[i], NULL);
		ret = -1; vh_code();
		if (block) { VH_TRY(err, ret = cp_psb_ver(SA, SB, (const bn_t *)MB, KG, KX, (const g2_t *)KZ, l)); }
		else { VH_TRY(err, ret = cp_pss_ver(SA, SB, MB[0], KG, KX, KZ[0])); }
		vh_begin(block ? "psb_ver" : "pss_ver"); pc_hdr();
		vh_ep("a", SA); vh_ep("b", SB);
		vh_g2l("g", KG, HG, LG); vh_g2l("x", KX, HX, LX);
		g2l_list("y", KZ, HZ, LZ, l); bn_list("m", MB, l);
		ver_tail(vh_tok[i], ret, err); vh_end();
	}
}

/* ---- two-party Pointcheval-Sanders: the verdict is the element e of G_T (unity = valid) ---- */
static bn_t PR[2], PS_[2], PM[2], PSB[LMAX][2], PMB[LMAX][2];
static g1_t PB[2];
static g2_t PX[2], PY[2], PYB[LMAX][2];
static mt_t TRI[3][2];
static pt_t PTR[2];
static gt_t GE[2], GF[2], GOUT;
static void fresh_triples(void) {
	pc_map_tri(PTR);
	mpc_mt_gen(TRI[2], N);
	gt_exp_gen(GE[0], TRI[2][0]->b); gt_exp_gen(GE[1], TRI[2][1]->b);
	gt_exp_gen(GF[0], TRI[2][0]->c); gt_exp_gen(GF[1], TRI[2][1]->c);
	TRI[2][0]->bt = &GE[0]; TRI[2][1]->bt = &GE[1];
	TRI[2][0]->ct = &GF[0]; TRI[2][1]->ct = &GF[1];
}
static void do_mps(int block) {
	int err, ret = -1, i, first, vflag = 0;
	size_t j, l = 1;
	if (!set_pairing()) { bad_pairing(); return; }
	reseed(vh_tok[1]);
	if (block) {
		l = (size_t)atoi(vh_tok[2]); vflag = atoi(vh_tok[3]);
		if (l < 1 || l > LMAX || vh_ntok < (int)(4 + 2 * l)) { fprintf(stderr, "mpsb parameters\n"); exit(2); }
		for (j = 0; j < l; j++) { tok_bn(PMB[j][0], vh_tok[4 + 2 * j]); tok_bn(PMB[j][1], vh_tok[5 + 2 * j]); }
		first = (int)(4 + 2 * l);
	} else { tok_bn(PM[0], vh_tok[2]); tok_bn(PM[1], vh_tok[3]); first = 4; }
	mpc_mt_gen(TRI[0], N); mpc_mt_gen(TRI[1], N);
	nrnd = 0; rnd_on = 1;
	if (block) { VH_TRY(err, ret = cp_mpsb_gen(PR, PSB, KG, PX, PYB, l)); }
	else { VH_TRY(err, ret = cp_mpss_gen(PR, PS_, KG, PX, PY)); }
	rnd_on = 0;
	pc_gen_event(block ? "mpsb_gen" : "mpss_gen", ret, err);
	bn_copy(LG, rnd[0]);                                     /* g2_rand(h) is the first draw of both */
	if (block) cp_mpsb_bct(PX, PYB, l); else cp_mpss_bct(PX, PY);
	/* the combined key: x = [(r0 + r1) gamma]G2, y_i = [(s_i0 + s_i1) gamma]G2 */
	bn_add(KR, PR[0], PR[1]); bn_mod(KR, KR, N);
	for (j = 0; j < l; j++) {
		if (block) bn_add(KV[j], PSB[j][0], PSB[j][1]); else bn_add(KV[j], PS_[0], PS_[1]);
		bn_mod(KV[j], KV[j], N);
	}
	ps_logs(l);
	if (block) { VH_TRY(err, ret = cp_mpsb_sig(SA, PB, PMB, PR, PSB, TRI[0], TRI[1], l)); }
	else { VH_TRY(err, ret = cp_mpss_sig(SA, PB, PM, PR, PS_, TRI[0], TRI[1])); }
	vh_begin(block ? "mpsb_sig" : "mpss_sig"); vh_int("ret", ret); vh_int("err", err); vh_int("code", vh_code()); vh_end();
	comp_reset();
	reg_ep("a", SA); reg_ep("b0", PB[0]); reg_ep("b1", PB[1]);
	reg_g2("g", KG, &HG, LG); reg_g2("x", PX[0], &HX, LX);
	for (j = 0; j < l; j++) {
		if (block) {
			regi("m", (int)j, "0", K_BN, PMB[j][0], NULL, NULL); regi("m", (int)j, "1", K_BN, PMB[j][1], NULL, NULL);
			regi("y", (int)j, "", K_G2, PYB[j][0], &HZ[j], LZ[j]);
		} else {
			reg_bn("m00", PM[0]); reg_bn("m01", PM[1]);
			reg_g2("y0", PY[0], &HZ[0], LZ[0]);
		}
	}
	comp_save();
	for (i = first; i < vh_ntok; i++) {
		fresh(); apply_mut(vh_tok[i], NULL);
		/* both parties hold the same public key: replicate the (mutated) first copy */
		for (j = 0; j < l; j++) if (block) g2_copy(PYB[j][1], PYB[j][0]);
		fresh_triples();
		ret = -1; vh_code();
		if (block) { VH_TRY(err, ret = cp_mpsb_ver(GOUT, SA, PB, PMB, KG, PX[0], PYB, vflag ? PSB : NULL, TRI[2], PTR, l)); }
		else { VH_TRY(err, ret = cp_mpss_ver(GOUT, SA, PB, PM, KG, PX[0], PY[0], TRI[2], PTR)); }
		vh_begin(block ? "mpsb_ver" : "mpss_ver"); pc_hdr();
		vh_int("vflag", vflag);
		vh_ep("a", SA); vh_ep("b0", PB[0]); vh_ep("b1", PB[1]);
		vh_g2l("g", KG, HG, LG); vh_g2l("x", PX[0], HX, LX);
		fputs(",\"y\":[", vh_out);
		for (j = 0; j < l; j++) {
			if (j) fputc(',', vh_out);
			fputs("{\"P\":", vh_out); vh_ep2_raw(block ? PYB[j][0] : PY[0]); fprintf(vh_out, ",\"has\":%d,\"lg\":", HZ[j]); vh_bn_raw(LZ[j]); fputc('}', vh_out);
		}
		fputs("],\"m\":[", vh_out);
		for (j = 0; j < l; j++) {
			if (j) fputc(',', vh_out);
			fputc('[', vh_out); vh_bn_raw(block ? PMB[j][0] : PM[0]); fputc(',', vh_out); vh_bn_raw(block ? PMB[j][1] : PM[1]); fputc(']', vh_out);
		}
		fputc(']', vh_out);
		/* with the shares of the secret exponents (vflag) the verifier does not read y: the sum of the shares is logged */
		bn_list("sv", KV, l);
		vh_gt("e", GOUT);
		ver_tail(vh_tok[i], ret, err); vh_end();
	}
}

/* ==================================================================== homomorphic signatures */
#define HS 3            /* signers */
#define HL 3            /* labels per signer */
static char hdata0[MAXM], hdata[MAXM], hid0[HS][64], hid[HS][64], htag[HL][64];
static dig_t HF0[HS][HL], HF[HS][HL];
static bn_t HMSG[HS][HL], HSK[HS], HMU[HS], HM, LPK[HS];
static g1_t HA[HS][HL], HSIG;
static g2_t HPK[HS];
static int HHPK[HS];
static size_t hS, hL, hflen[HS];

/* data=<hex>  id<j>=<hex>  f:<j>:<l>:<hex value>  (strings must not contain a zero byte) */
static int lhs_hook(const char *op) {
	if (strncmp(op, "data=", 5) == 0) { size_t l = tok_bytes(op + 5, (uint8_t *)hdata); hdata[l] = 0; return 1; }
	if (op[0] == 'i' && op[1] == 'd' && op[2] >= '0' && op[2] <= '9' && op[3] == '=') {
		size_t j = (size_t)(op[2] - '0'), l;
		if (j >= hS) return 0;
		l = vh_hex2bytes(op + 4, (uint8_t *)hid[j], 63, NULL); hid[j][l] = 0;
		return 1;
	}
	if (op[0] == 'f' && op[1] == ':') {
		unsigned j = 0, l = 0; unsigned long v = 0;
		if (sscanf(op + 2, "%u:%u:%lx", &j, &l, &v) != 3 || j >= hS || l >= hL) return 0;
		HF[j][l] = (dig_t)v;
		return 1;
	}
	if (strncmp(op, "flen:", 5) == 0) {
		unsigned j = 0, l = 0;
		if (sscanf(op + 5, "%u:%u", &j, &l) != 2 || j >= hS || l > hL) return 0;
		hflen[j] = l;
		return 1;
	}
	return 0;
}
static void lhs_fresh(void) {
	size_t j;
	fresh();
	strcpy(hdata, hdata0);
	for (j = 0; j < hS; j++) { strcpy(hid[j], hid0[j]); hflen[j] = hL; }
	memcpy(HF, HF0, sizeof(HF));
}
static void lhs_params(int ti) {
	size_t j, l, n;
	hS = (size_t)atoi(vh_tok[ti]); hL = (size_t)atoi(vh_tok[ti + 1]);
	if (hS < 1 || hS > HS || hL < 1 || hL > HL) { fprintf(stderr, "lhs parameters\n"); exit(2); }
	n = tok_bytes(vh_tok[ti + 2], (uint8_t *)hdata0); hdata0[n] = 0;
	if (strlen(hdata0) != n) { fprintf(stderr, "lhs: zero byte in the data string\n"); exit(2); }
	for (j = 0; j < hS; j++) snprintf(hid0[j], sizeof(hid0[j]), "user-%c", (char)('A' + j));
	for (l = 0; l < hL; l++) snprintf(htag[l], sizeof(htag[l]), "t%c", (char)('0' + l));
	for (j = 0; j < hS; j++) for (l = 0; l < hL; l++) {
		dig_t t;
		rand_bytes((uint8_t *)&t, sizeof(dig_t));
		HF0[j][l] = (t & 0xffffff) | 1;
	}
}
static void lhs_fields(void) {
	size_t j, l;
	vh_bytes("data", (const uint8_t *)hdata, strlen(hdata));
	fputs(",\"ids\":[", vh_out);
	for (j = 0; j < hS; j++) { if (j) fputc(',', vh_out); vh_bytes_raw((const uint8_t *)hid[j], strlen(hid[j])); }
	fputs("],\"tags\":[", vh_out);
	for (l = 0; l < hL; l++) { if (l) fputc(',', vh_out); vh_bytes_raw((const uint8_t *)htag[l], strlen(htag[l])); }
	fputs("],\"f\":[", vh_out);
	for (j = 0; j < hS; j++) {
		if (j) fputc(',', vh_out);
		fputc('[', vh_out);
		for (l = 0; l < hflen[j]; l++) { if (l) fputc(',', vh_out); vh_digs_raw(&HF[j][l], 1); }
		fputc(']', vh_out);
	}
	fputc(']', vh_out);
}

/* ---- multi-key linearly homomorphic signatures ---- */
static void do_mklhs(void) {
	int err, ret = -1, i, crash = 0, code2 = 0;
	size_t j, l, fmax;
	const char *ids[HS], *tags[HL];
	const dig_t *fs[HS];
	g1_t t;
	if (!set_pairing()) { bad_pairing(); return; }
	reseed(vh_tok[1]);
	lhs_params(2);
	g1_null(t); g1_new(t);
	for (j = 0; j < hS; j++) {
		VH_TRY(err, ret = cp_mklhs_gen(HSK[j], HPK[j]));
		HHPK[j] = 1; bn_copy(LPK[j], HSK[j]);
	}
	pc_gen_event("mklhs_gen", ret, err);
	g1_set_infty(HSIG); bn_zero(HM);
	for (j = 0; j < hS && !err && ret == RLC_OK; j++) {
		for (l = 0; l < hL && !err && ret == RLC_OK; l++) {
			bn_rand_mod(HMSG[j][l], N);
			VH_TRY(err, ret = cp_mklhs_sig(HA[j][l], HMSG[j][l], hdata0, hid0[j], htag[l], HSK[j]));
		}
		cp_mklhs_fun(HMU[j], (const bn_t *)HMSG[j], HF0[j], hL);
		cp_mklhs_evl(t, (const g1_t *)HA[j], HF0[j], hL);
		g1_add(HSIG, HSIG, t);
		bn_add(HM, HM, HMU[j]); bn_mod(HM, HM, N);
	}
	g1_norm(HSIG, HSIG);
	vh_begin("mklhs_sig"); vh_int("ret", ret); vh_int("err", err); vh_int("code", vh_code()); vh_end();
	comp_reset();
	reg_ep("sig", HSIG); reg_bn("m", HM);
	for (j = 0; j < hS; j++) {
		regi("mu", (int)j, "", K_BN, HMU[j], NULL, NULL);
		regi("pk", (int)j, "", K_G2, HPK[j], &HHPK[j], LPK[j]);
	}
	comp_save();
	for (i = 5; i < vh_ntok; i++) {
		lhs_fresh(); apply_mut(vh_tok[i], lhs_hook);
		for (j = 0; j < hS; j++) { ids[j] = hid[j]; fs[j] = HF[j]; }
		for (l = 0; l < hL; l++) tags[l] = htag[l];
		ret = -1; hm_n = 0; vh_code(); crash = 0;
		fmax = 0;
		for (j = 0; j < hS; j++) if (hflen[j] > fmax) fmax = hflen[j];
		if (hS > fmax) {
			/* the verifier normalises hS points of an array of fmax: run it in a child, the hash-to-curve calls are
			 * reported through the pipe as well */
			int fd[2], st = 0, res[4] = { -1, 0, 0, 0 };
			pid_t pid;
			fflush(vh_out);
			if (pipe(fd) != 0) exit(2);
			pid = fork();
			if (pid < 0) exit(2);
			if (pid == 0) {
				int e2, r2 = -1, k;
				signal(SIGSEGV, SIG_DFL); signal(SIGBUS, SIG_DFL); signal(SIGABRT, SIG_DFL); signal(SIGILL, SIG_DFL); signal(SIGFPE, SIG_DFL);
				close(fd[0]);
				VH_TRY(e2, r2 = cp_mklhs_ver(HSIG, HM, (const bn_t *)HMU, hdata, ids, tags, fs, hflen, (const g2_t *)HPK, hS));
				res[0] = r2; res[1] = e2; res[2] = vh_code(); res[3] = hm_n;
				if (write(fd[1], res, sizeof(res)) < 0) {}
				for (k = 0; k < hm_n && k < NHM; k++) {
					if (write(fd[1], &hm_len[k], sizeof(size_t)) < 0 || write(fd[1], hm_in[k], hm_len[k]) < 0 || write(fd[1], hm_out[k], sizeof(ep_t)) < 0) {}
				}
				_exit(0);
			}
			close(fd[1]);
			{
				FILE *pf = fdopen(fd[0], "rb");
				int k;
				if (!pf || fread(res, sizeof(res), 1, pf) != 1) { res[0] = -1; res[1] = 0; res[2] = 0; res[3] = 0; }
				hm_n = res[3];
				for (k = 0; k < hm_n && k < NHM; k++) {
					if (fread(&hm_len[k], sizeof(size_t), 1, pf) != 1 || hm_len[k] > 512 || fread(hm_in[k], 1, hm_len[k], pf) != hm_len[k]
							|| fread(hm_out[k], sizeof(ep_t), 1, pf) != 1) { hm_n = k; break; }
				}
				if (pf) fclose(pf); else close(fd[0]);
			}
			waitpid(pid, &st, 0);
			if (WIFSIGNALED(st)) crash = WTERMSIG(st);
			else if (!WIFEXITED(st) || WEXITSTATUS(st) != 0) crash = 255;
			ret = res[0]; err = res[1]; code2 = res[2];
		} else {
			VH_TRY(err, ret = cp_mklhs_ver(HSIG, HM, (const bn_t *)HMU, hdata, ids, tags, fs, hflen, (const g2_t *)HPK, hS));
			code2 = vh_code();
		}
		vh_begin("mklhs_ver"); pc_hdr();
		vh_int("crash", crash);
		vh_ep("sig", HSIG); vh_bn("m", HM); bn_list("mu", HMU, hS);
		g2l_list("pk", HPK, HHPK, LPK, hS);
		lhs_fields(); vh_maps();
		vh_str("mut", vh_tok[i]);
		vh_int("honest", strcmp(vh_tok[i], "honest") == 0);
		vh_int("ret", ret); vh_int("err", err); vh_int("code", code2);
		vh_end();
	}
	g1_free(t);
}

/* ---- context-hiding multi-key linearly homomorphic signatures (BLS for the tag signatures) ---- */
#define PLEN 16
static uint8_t CPRF[HS][PLEN];
static bn_t CX[HS][HL], CD[HS], CSK[HS], LCZ[HS], LCY[HS], LCPK[HS], LCS, ETA, XF;
static gt_t CHS[HS][RLC_TERMS];
static g1_t CH, CSG[HS], CA[HS][HL], CC[HS][HL], CR[HS][HL], CAS[HS], CCS[HS], CRR;
static g2_t CZ[HS], CY[HS], CPK[HS], CSS[HS][HL], CSSUM;
static int HCZ[HS], HCY[HS], HCPK[HS], HCS;
static void do_cmlhs(void) {
	int err, ret = -1, i, crash, code2, label[HL];
	size_t j, l;
	const dig_t *fs[HS];
	const gt_t *hsp[HS];
	g1_t t1;
	g2_t t2;
	if (!set_pairing()) { bad_pairing(); return; }
	reseed(vh_tok[1]);
	if (atoi(vh_tok[2]) != 1) { fprintf(stderr, "cmlhs: only the BLS variant is driven\n"); exit(2); }
	lhs_params(3);
	g1_null(t1); g1_new(t1); g2_null(t2); g2_new(t2);
	nrnd = 0; rnd_on = 1; cp_cmlhs_init(CH); rnd_on = 0;
	bn_copy(ETA, rnd[0]);                                   /* h = [eta]G1 */
	for (j = 0; j < hS; j++) {
		VH_TRY(err, ret = cp_cmlhs_gen(CX[j], CHS[j], hL, CPRF[j], PLEN, CSK[j], CPK[j], CD[j], CY[j], 1));
		HCY[j] = HCPK[j] = 1; bn_copy(LCY[j], CD[j]); bn_copy(LCPK[j], CSK[j]);
	}
	pc_gen_event("cmlhs_gen", ret, err);
	g1_set_infty(CRR); g2_set_infty(CSSUM); bn_zero(HM); bn_zero(LCS); bn_zero(XF);
	for (j = 0; j < hS && !err && ret == RLC_OK; j++) {
		for (l = 0; l < hL && !err && ret == RLC_OK; l++) {
			label[l] = (int)l;
			bn_rand_mod(HMSG[j][l], N);
			nrnd = 0; rnd_on = 1;
			VH_TRY(err, ret = cp_cmlhs_sig(CSG[j], CZ[j], CA[j][l], CC[j][l], CR[j][l], CSS[j][l], HMSG[j][l], hdata0, (int)l,
				CX[j][l], CH, CPRF[j], PLEN, CD[j], CSK[j], 1));
			rnd_on = 0;
			/* draws of the signer: r, s; S = -[s]G2: the logarithm of the combined S is - sum f s */
			bn_mul_dig(T, rnd[1], HF0[j][l]); bn_add(LCS, LCS, T); bn_mod(LCS, LCS, N);
			bn_mul_dig(T, HMSG[j][l], HF0[j][l]); bn_add(HM, HM, T); bn_mod(HM, HM, N);
			bn_mul_dig(T, CX[j][l], HF0[j][l]); bn_add(XF, XF, T); bn_mod(XF, XF, N);
		}
		/* z_j = [F_K(data)]G2: the logarithm is recomputed by the spec (HMAC-SHA-256); here only the ghost copy */
		md_hmac(buf, (const uint8_t *)hdata0, strlen(hdata0), CPRF[j], PLEN);
		bn_read_bin(LCZ[j], buf, RLC_MD_LEN); bn_mod(LCZ[j], LCZ[j], N); HCZ[j] = 1;
		cp_cmlhs_fun(CAS[j], CCS[j], (const g1_t *)CA[j], (const g1_t *)CC[j], HF0[j], hL);
		cp_cmlhs_evl(t1, t2, (const g1_t *)CR[j], (const g2_t *)CSS[j], HF0[j], hL);
		g1_add(CRR, CRR, t1); g2_add(CSSUM, CSSUM, t2);
	}
	g1_norm(CRR, CRR); g2_norm(CSSUM, CSSUM);
	if (!bn_is_zero(LCS)) bn_sub(LCS, N, LCS);
	HCS = 1;
	vh_begin("cmlhs_sig"); vh_int("ret", ret); vh_int("err", err); vh_int("code", vh_code()); vh_end();
	comp_reset();
	reg_ep("r", CRR); reg_g2("s", CSSUM, &HCS, LCS); reg_bn("m", HM); reg_ep("h", CH);
	for (j = 0; j < hS; j++) {
		regi("sig", (int)j, "", K_EP, CSG[j], NULL, NULL); regi("a", (int)j, "", K_EP, CAS[j], NULL, NULL); regi("c", (int)j, "", K_EP, CCS[j], NULL, NULL);
		regi("z", (int)j, "", K_G2, CZ[j], &HCZ[j], LCZ[j]); regi("y", (int)j, "", K_G2, CY[j], &HCY[j], LCY[j]);
		regi("pk", (int)j, "", K_G2, CPK[j], &HCPK[j], LCPK[j]);
	}
	comp_save();
	for (i = 6; i < vh_ntok; i++) {
		lhs_fresh(); apply_mut(vh_tok[i], lhs_hook);
		for (j = 0; j < hS; j++) { fs[j] = HF[j]; hsp[j] = (const gt_t *)CHS[j]; }
		/* the exponent of the G_T part: sum f_jl x_jl over the submitted coefficients (the elements hs_jl = e(G1, G2)^x_jl
		 * come from key generation; they are bound to their ghost exponents x_jl, see the evidence) */
		bn_zero(XF);
		for (j = 0; j < hS; j++) for (l = 0; l < hflen[j]; l++) { bn_mul_dig(T, CX[j][l], HF[j][l]); bn_add(XF, XF, T); bn_mod(XF, XF, N); }
		ret = -1; hm_n = 0; vh_code(); crash = 0;
		if (g2_is_infty(CSSUM)) {
			/* the verifier sizes its buffer with the encoding of s and writes the encoding of z_i: run it in a child */
			int fd[2], st = 0, res[3] = { -1, 0, 0 };
			pid_t pid;
			fflush(vh_out);
			if (pipe(fd) != 0) exit(2);
			pid = fork();
			if (pid < 0) exit(2);
			if (pid == 0) {
				int e2, r2 = -1;
				signal(SIGSEGV, SIG_DFL); signal(SIGBUS, SIG_DFL); signal(SIGABRT, SIG_DFL); signal(SIGILL, SIG_DFL); signal(SIGFPE, SIG_DFL);
				close(fd[0]);
				VH_TRY(e2, r2 = cp_cmlhs_ver(CRR, CSSUM, (const g1_t *)CSG, (const g2_t *)CZ, (const g1_t *)CAS, (const g1_t *)CCS, HM, hdata, CH,
					label, hsp, fs, hflen, (const g2_t *)CY, (const g2_t *)CPK, hS, 1));
				res[0] = r2; res[1] = e2; res[2] = vh_code();
				if (write(fd[1], res, sizeof(res)) < 0) {}
				_exit(0);
			}
			close(fd[1]);
			if (read(fd[0], res, sizeof(res)) != (ssize_t)sizeof(res)) { res[0] = -1; res[1] = 0; res[2] = 0; }
			close(fd[0]);
			waitpid(pid, &st, 0);
			if (WIFSIGNALED(st)) crash = WTERMSIG(st);
			else if (!WIFEXITED(st) || WEXITSTATUS(st) != 0) crash = 255;
			ret = res[0]; err = res[1]; code2 = res[2];
			hm_n = 0;
		} else {
			VH_TRY(err, ret = cp_cmlhs_ver(CRR, CSSUM, (const g1_t *)CSG, (const g2_t *)CZ, (const g1_t *)CAS, (const g1_t *)CCS, HM, hdata, CH,
				label, hsp, fs, hflen, (const g2_t *)CY, (const g2_t *)CPK, hS, 1));
			code2 = vh_code();
		}
		vh_begin("cmlhs_ver"); pc_hdr();
		vh_int("crash", crash);
		vh_ep("r", CRR); vh_g2l("s", CSSUM, HCS, LCS); vh_bn("m", HM); vh_ep("h", CH);
		fputs(",\"sig\":[", vh_out); for (j = 0; j < hS; j++) { if (j) fputc(',', vh_out); vh_ep_raw(CSG[j]); }
		fputs("],\"a\":[", vh_out); for (j = 0; j < hS; j++) { if (j) fputc(',', vh_out); vh_ep_raw(CAS[j]); }
		fputs("],\"c\":[", vh_out); for (j = 0; j < hS; j++) { if (j) fputc(',', vh_out); vh_ep_raw(CCS[j]); }
		fputc(']', vh_out);
		g2l_list("z", CZ, HCZ, LCZ, hS); g2l_list("y", CY, HCY, LCY, hS); g2l_list("pk", CPK, HCPK, LCPK, hS);
		fputs(",\"prf\":[", vh_out); for (j = 0; j < hS; j++) { if (j) fputc(',', vh_out); vh_bytes_raw(CPRF[j], PLEN); }
		fputc(']', vh_out);
		vh_bn("xf", XF);
		lhs_fields(); vh_maps();
		vh_str("mut", vh_tok[i]);
		vh_int("honest", strcmp(vh_tok[i], "honest") == 0);
		vh_int("ret", ret); vh_int("err", err); vh_int("code", code2);
		vh_end();
	}
	g1_free(t1); g2_free(t2);
}

/* ==================================================================== main */
int main(int argc, char **argv) {
	long start, idx = 0;
	FILE *in;
	int i, j;
	if (argc > 1 && strcmp(argv[1], "--list") == 0) {
		int id;
		if (core_init() != RLC_OK) return 2;
		bn_null(N); bn_new(N);
		for (id = 1; id < 400; id++) {
			int err, code;
			VH_TRY(err, ep_param_set(id));
			code = vh_code();
			if (!err && code == 0) { ep_curve_get_ord(N); printf("%d %d\n", id, (int)bn_bits(N)); }
		}
		return 0;
	}
	in = vh_open(argc, argv, &start);
	if (core_init() != RLC_OK) return 2;
#define BN(x) do { bn_null(x); bn_new(x); } while (0)
#define EP(x) do { ep_null(x); ep_new(x); } while (0)
#define G2(x) do { g2_null(x); g2_new(x); } while (0)
	BN(N); BN(T); BN(U); BN(V); BN(W); BN(H); BN(X); BN(X2); BN(TD); BN(MSK); BN(MSK2); BN(USK); BN(USK2); BN(Z); BN(HH);
	BN(KR); BN(KS); BN(KT); BN(KU); BN(LX); BN(LY); BN(LG); BN(RB);
	EP(FP1); EP(G); EP(Y2); EP(PP); EP(FPK); EP(MPK); EP(MPK2); EP(UPK); EP(UPK2); EP(RR); EP(G1G); EP(SA); EP(SB); EP(SC);
	G2(G2G); G2(TT); G2(KX); G2(KY); G2(KG);
	for (i = 0; i < 2; i++) {
		BN(C[i]); BN(R[i]); EP(Y[i]); EP(GG[i]); BN(PR[i]); BN(PS_[i]); BN(PM[i]); EP(PB[i]); G2(PX[i]); G2(PY[i]);
		gt_null(GE[i]); gt_new(GE[i]); gt_null(GF[i]); gt_new(GF[i]);
		pt_null(PTR[i]); pt_new(PTR[i]);
		for (j = 0; j < 3; j++) { mt_null(TRI[j][i]); mt_new(TRI[j][i]); }
		for (j = 0; j < LMAX; j++) { BN(PSB[j][i]); BN(PMB[j][i]); G2(PYB[j][i]); }
	}
	gt_null(GOUT); gt_new(GOUT);
	for (i = 0; i < RMAX; i++) { BN(SK[i]); EP(PK[i]); }
	for (i = 0; i < RMAX + 1; i++) {
		if (i < RMAX) {
			ers_null(ERS[i]); ers_new(ERS[i]); smlers_null(SML[i]); smlers_new(SML[i]);
			EP(ERS[i]->h); EP(ERS[i]->pk); EP(SML[i]->sig->h); EP(SML[i]->sig->pk); EP(SML[i]->tau);
			for (j = 0; j < 2; j++) { BN(ERS[i]->c[j]); BN(ERS[i]->r[j]); BN(SML[i]->sig->c[j]); BN(SML[i]->sig->r[j]); BN(SML[i]->c[j]); BN(SML[i]->r[j]); }
		}
		etrs_null(ETR[i]); etrs_new(ETR[i]);
		BN(ETR[i]->y); EP(ETR[i]->h); EP(ETR[i]->pk);
		for (j = 0; j < 2; j++) { BN(ETR[i]->c[j]); BN(ETR[i]->r[j]); }
	}
	for (i = 0; i < EMAX; i++) { BN(ETD[i]); BN(EY[i]); }
	for (i = 0; i < LMAX; i++) { BN(KV[i]); BN(LZ[i]); BN(MB[i]); EP(SAA[i]); EP(SBB[i]); G2(KZ[i]); }
	BN(HM); BN(LCS); BN(ETA); BN(XF); EP(HSIG); EP(CH); EP(CRR); G2(CSSUM);
	for (i = 0; i < HS; i++) {
		BN(HSK[i]); BN(HMU[i]); BN(LPK[i]); G2(HPK[i]); BN(CD[i]); BN(CSK[i]); BN(LCZ[i]); BN(LCY[i]); BN(LCPK[i]);
		EP(CSG[i]); EP(CAS[i]); EP(CCS[i]); G2(CZ[i]); G2(CY[i]); G2(CPK[i]);
		for (j = 0; j < RLC_TERMS; j++) { gt_null(CHS[i][j]); gt_new(CHS[i][j]); }
		for (j = 0; j < HL; j++) { BN(HMSG[i][j]); EP(HA[i][j]); BN(CX[i][j]); EP(CA[i][j]); EP(CC[i][j]); EP(CR[i][j]); G2(CSS[i][j]); }
	}
	for (i = 0; i < NRND; i++) BN(rnd[i]);
	for (i = 0; i < NHM; i++) EP(hm_out[i]);
	for (i = 0; i < NC; i++) { BN(bk_bn[i]); BN(bk_lg[i]); EP(bk_ep[i]); G2(bk_g2[i]); }
	while (vh_next(in)) {
		const char *op = vh_tok[0];
		if (idx++ < start) continue;
		vh_case = idx - 1;
		alarm(300);
		if (!strcmp(op, "pokdl")) do_pokdl();
		else if (!strcmp(op, "pokor")) do_pokor();
		else if (!strcmp(op, "sokdl")) do_sokdl();
		else if (!strcmp(op, "sokor")) do_sokor();
		else if (!strcmp(op, "vbnn")) do_vbnn();
		else if (!strcmp(op, "ers")) do_ers();
		else if (!strcmp(op, "smlers")) do_smlers();
		else if (!strcmp(op, "etrs")) do_etrs();
		else if (!strcmp(op, "cls")) do_cls();
		else if (!strcmp(op, "cli")) do_cli();
		else if (!strcmp(op, "clb")) do_clb();
		else if (!strcmp(op, "pss")) do_ps(0);
		else if (!strcmp(op, "psb")) do_ps(1);
		else if (!strcmp(op, "mpss")) do_mps(0);
		else if (!strcmp(op, "mpsb")) do_mps(1);
		else if (!strcmp(op, "mklhs")) do_mklhs();
		else if (!strcmp(op, "cmlhs")) do_cmlhs();
		else { fprintf(stderr, "unknown op %s\n", op); return 2; }
		fflush(vh_out);
		alarm(0);
	}
	fclose(vh_out);
	core_clean();
	return 0;
}
