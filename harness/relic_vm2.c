/*
 * relic_vm2.c - call-history interpreter ACROSS the layers (model/RelicSys): integers, prime field, prime curve
 * over numbered slots 1..NS per type, under changing parameter selections in ONE library context.
 * Program lines (one history per segment; "reset" starts one and is followed by a selection):
 *   reset
 *   param <id> <p> <a> <b> <gx> <gy> <n>          ep_param_set(id); the hex values are what a FRESH library reports
 *   plain <p> <a> <b> <gx> <gy> <n> <h>           fp_prime_set_dense + ep_curve_set_plain
 *   bset <o> <hex> | fset <o> <hex> | getcode
 *   <op> <o> <a> <b> <k> <m>                      slot numbers (k = shift amount for bn_lsh / bn_rsh)
 * The VM keeps a KNOWN flag per slot exactly as the machine does (set by a successful write, cleared by an
 * error outcome and - for field elements and points - by a selection); a line that would read an unknown
 * slot, or needs a parameter set before one was selected, is not executed (event "skip").
 * After every line one event with the raw projection of ALL slots of all types, the field header and the
 * sticky code (read WITHOUT clearing it, except for getcode).
 */
#include "vh.h"
#define NS 4
static bn_t B[NS + 1];
static fp_t F[NS + 1];
static ep_t E[NS + 1];
static int kb[NS + 1], kf[NS + 1], ke[NS + 1], sel = 0;

static void all_slots(void) {
	int s;
	fputs(",\"bn\":[", vh_out);
	for (s = 1; s <= NS; s++) { if (s > 1) fputc(',', vh_out); vh_bn_raw(B[s]); }
	fputs("],\"fp\":[", vh_out);
	for (s = 1; s <= NS; s++) { if (s > 1) fputc(',', vh_out); vh_fp_raw(F[s]); }
	fputs("],\"ep\":[", vh_out);
	for (s = 1; s <= NS; s++) { if (s > 1) fputc(',', vh_out); vh_ep_raw(E[s]); }
	fputs("]", vh_out);
	vh_int("code", core_get()->code == RLC_OK ? 0 : 1);
	vh_int("bw", (long)sizeof(dig_t));
	if (sel) vh_fp_hdr(); else { fputs(",\"p\":[]", vh_out); vh_int("w", (long)sizeof(dig_t)); vh_int("fd", (long)RLC_FP_DIGS); vh_int("mont", 0); }
}
static void forget_field(void) {
	int s;
	for (s = 1; s <= NS; s++) { kf[s] = 0; ke[s] = 0; }
}
/* what the library reports about the current selection (raw field elements: the spec maps them) */
static void log_params(void) {
	bn_t n; ep_t g;
	bn_null(n); ep_null(g); bn_new(n); ep_new(g);
	ep_curve_get_gen(g); ep_curve_get_ord(n);
	vh_fp("ca", ep_curve_get_a()); vh_fp("cb", ep_curve_get_b());
	vh_ep("g", g); vh_bn("n", n);
	/* the same constants as integers (used only by the generator's probe of a FRESH process) */
	fp_prime_back(n, ep_curve_get_a()); vh_bn("va", n);
	fp_prime_back(n, ep_curve_get_b()); vh_bn("vb", n);
	fp_prime_back(n, g->x); vh_bn("vgx", n);
	fp_prime_back(n, g->y); vh_bn("vgy", n);
	bn_free(n); ep_free(g);
}
static void echo_expected(int first) {
	static const char *nm[6] = { "xp", "xa", "xb", "xgx", "xgy", "xn" };
	bn_t t; int j;
	bn_null(t); bn_new(t);
	for (j = 0; j < 6; j++) { vh_bn_set(t, vh_tok[first + j]); vh_bn(nm[j], t); }
	bn_free(t);
}
static void do_plain(void) {
	bn_t p, r, h; fp_t a, b; ep_t g;
	bn_null(p); bn_null(r); bn_null(h); fp_null(a); fp_null(b); ep_null(g);
	bn_new(p); bn_new(r); bn_new(h); fp_new(a); fp_new(b); ep_new(g);
	vh_bn_set(p, vh_tok[1]);
	fp_prime_set_dense(p);
	vh_fp_set(a, vh_tok[2]); vh_fp_set(b, vh_tok[3]);
	vh_fp_set(g->x, vh_tok[4]); vh_fp_set(g->y, vh_tok[5]);
	fp_set_dig(g->z, 1); g->coord = BASIC;
	vh_bn_set(r, vh_tok[6]); vh_bn_set(h, vh_tok[7]);
	ep_curve_set_plain(a, b, g, r, h, 0);
	bn_free(p); bn_free(r); bn_free(h); fp_free(a); fp_free(b); ep_free(g);
}
#define OP(n) (strcmp(op, n) == 0)
int main(int argc, char **argv) {
	long start, idx = 0;
	int s;
	FILE *in = vh_open(argc, argv, &start);
	if (!freopen("/dev/null", "w", stderr)) return 2;
	if (core_init() != RLC_OK) return 2;
	for (s = 1; s <= NS; s++) {
		bn_null(B[s]); bn_new(B[s]); bn_zero(B[s]); kb[s] = 1;
		fp_null(F[s]); fp_new(F[s]); memset(F[s], 0, sizeof(dig_t) * RLC_FP_DIGS);
		ep_null(E[s]); ep_new(E[s]); memset(E[s], 0, sizeof(ep_st));
	}
	while (vh_next(in)) {
		const char *op = vh_tok[0];
		int err = 0;
		if (idx++ < start) continue;
		vh_case = idx - 1;
		alarm(60);
		if (OP("reset")) {
			for (s = 1; s <= NS; s++) { bn_zero(B[s]); kb[s] = 1; }
			forget_field(); sel = 0;
			err_get_code();
			vh_begin("reset"); all_slots(); vh_end();
		} else if (OP("param") || OP("plain")) {
			int isid = OP("param");
			if (isid) VH_TRY(err, ep_param_set(atoi(vh_tok[1])));
			else VH_TRY(err, do_plain());
			forget_field(); sel = (err == 0);
			vh_begin("select"); vh_int("id", isid ? atoi(vh_tok[1]) : -1); vh_int("err", err != 0);
			echo_expected(isid ? 2 : 1);
			if (sel) log_params();
			all_slots(); vh_end();
		} else if (OP("bset")) {
			int o = atoi(vh_tok[1]);
			vh_bn_set(B[o], vh_tok[2]); kb[o] = 1;
			vh_begin("bset"); vh_int("o", o); vh_bn("v", B[o]); all_slots(); vh_end();
		} else if (OP("fset")) {
			int o = atoi(vh_tok[1]);
			if (!sel) { vh_begin("skip"); all_slots(); vh_end(); }
			else {
				bn_t t; bn_null(t); bn_new(t); vh_bn_set(t, vh_tok[2]);
				vh_fp_set(F[o], vh_tok[2]); kf[o] = 1;
				vh_begin("fset"); vh_int("o", o); vh_bn("v", t); all_slots(); vh_end();
				bn_free(t);
			}
		} else if (OP("getcode")) {
			int r = err_get_code() == RLC_OK ? 0 : 1;
			vh_begin("getcode"); vh_int("ret", r); all_slots(); vh_end();
		} else {
			int o = atoi(vh_tok[1]), a = atoi(vh_tok[2]), b = atoi(vh_tok[3]);
			long k = atol(vh_tok[4]); int m = atoi(vh_tok[5]);
			int ok = 1, ret = -1, out = 0;      /* out: 1 bn, 2 fp, 3 ep, 0 query */
			/* ---- integer layer ---- */
			if (strncmp(op, "bn_", 3) == 0) {
				int two = OP("bn_add") || OP("bn_sub") || OP("bn_mul") || OP("bn_div");
				out = 1;
				ok = kb[a] && (!two || kb[b]);
				if (!ok) goto emit;
				if (OP("bn_add")) VH_TRY(err, bn_add(B[o], B[a], B[b]));
				else if (OP("bn_sub")) VH_TRY(err, bn_sub(B[o], B[a], B[b]));
				else if (OP("bn_mul")) VH_TRY(err, bn_mul(B[o], B[a], B[b]));
				else if (OP("bn_div")) VH_TRY(err, bn_div(B[o], B[a], B[b]));
				else if (OP("bn_sqr")) VH_TRY(err, bn_sqr(B[o], B[a]));
				else if (OP("bn_neg")) VH_TRY(err, bn_neg(B[o], B[a]));
				else if (OP("bn_abs")) VH_TRY(err, bn_abs(B[o], B[a]));
				else if (OP("bn_copy")) VH_TRY(err, bn_copy(B[o], B[a]));
				else if (OP("bn_dbl")) VH_TRY(err, bn_dbl(B[o], B[a]));
				else if (OP("bn_lsh")) VH_TRY(err, bn_lsh(B[o], B[a], (uint_t)k));
				else if (OP("bn_rsh")) VH_TRY(err, bn_rsh(B[o], B[a], (uint_t)k));
				else { fprintf(stdout, "unknown op %s\n", op); return 2; }
				kb[o] = (err == 0);
				goto emit;
			}
			if (!sel) { ok = 0; goto emit; }
			/* ---- field-typed results ---- */
			if (OP("fp_add") || OP("fp_sub") || OP("fp_mul")) {
				out = 2; ok = kf[a] && kf[b]; if (!ok) goto emit;
				if (OP("fp_add")) VH_TRY(err, fp_add(F[o], F[a], F[b]));
				else if (OP("fp_sub")) VH_TRY(err, fp_sub(F[o], F[a], F[b]));
				else VH_TRY(err, fp_mul(F[o], F[a], F[b]));
			} else if (OP("fp_neg") || OP("fp_dbl") || OP("fp_hlv") || OP("fp_sqr") || OP("fp_inv") || OP("fp_copy") || OP("ep_rhs")) {
				out = 2; ok = kf[a]; if (!ok) goto emit;
				if (OP("fp_neg")) VH_TRY(err, fp_neg(F[o], F[a]));
				else if (OP("fp_dbl")) VH_TRY(err, fp_dbl(F[o], F[a]));
				else if (OP("fp_hlv")) VH_TRY(err, fp_hlv(F[o], F[a]));
				else if (OP("fp_sqr")) VH_TRY(err, fp_sqr(F[o], F[a]));
				else if (OP("fp_inv")) VH_TRY(err, fp_inv(F[o], F[a]));
				else if (OP("fp_copy")) VH_TRY(err, fp_copy(F[o], F[a]));
				else VH_TRY(err, ep_rhs(F[o], F[a]));
			} else if (OP("fp_exp")) {
				out = 2; ok = kf[a] && kb[b] && bn_bits(B[b]) <= RLC_FP_BITS; if (!ok) goto emit;
				VH_TRY(err, fp_exp(F[o], F[a], B[b]));
			} else if (OP("fp_conv")) {
				out = 2; ok = kb[a]; if (!ok) goto emit;
				VH_TRY(err, fp_prime_conv(F[o], B[a]));
			} else if (OP("ep_getx")) {
				ep_t t;
				out = 2; ok = ke[a]; if (!ok) goto emit;
				ep_null(t);
				VH_TRY(err, { ep_new(t); ep_norm(t, E[a]); if (ep_is_infty(t)) fp_zero(F[o]); else fp_copy(F[o], t->x); ep_free(t); });
			} else if (OP("fp_back")) {
				out = 1; ok = kf[a]; if (!ok) goto emit;
				VH_TRY(err, fp_prime_back(B[o], F[a]));
			}
			/* ---- curve-typed results ---- */
			else if (OP("ep_gen")) { out = 3; VH_TRY(err, ep_curve_get_gen(E[o])); }
			else if (OP("ep_inf")) { out = 3; VH_TRY(err, ep_set_infty(E[o])); }
			else if (OP("ep_neg") || OP("ep_dbl") || OP("ep_norm") || OP("ep_copy")) {
				out = 3; ok = ke[a]; if (!ok) goto emit;
				if (OP("ep_neg")) VH_TRY(err, ep_neg(E[o], E[a]));
				else if (OP("ep_dbl")) VH_TRY(err, ep_dbl(E[o], E[a]));
				else if (OP("ep_norm")) VH_TRY(err, ep_norm(E[o], E[a]));
				else VH_TRY(err, ep_copy(E[o], E[a]));
			} else if (OP("ep_add") || OP("ep_sub")) {
				out = 3; ok = ke[a] && ke[b]; if (!ok) goto emit;
				if (OP("ep_add")) VH_TRY(err, ep_add(E[o], E[a], E[b]));
				else VH_TRY(err, ep_sub(E[o], E[a], E[b]));
			} else if (OP("ep_mul")) {
				out = 3; ok = ke[a] && kb[k]; if (!ok) goto emit;
				VH_TRY(err, ep_mul(E[o], E[a], B[k]));
			} else if (OP("ep_mul_gen")) {
				out = 3; ok = kb[k]; if (!ok) goto emit;
				VH_TRY(err, ep_mul_gen(E[o], B[k]));
			} else if (OP("ep_mul_sim")) {
				out = 3; ok = ke[a] && ke[b] && kb[k] && kb[m]; if (!ok) goto emit;
				VH_TRY(err, ep_mul_sim(E[o], E[a], B[k], E[b], B[m]));
			}
			/* ---- queries ---- */
			else if (OP("ep_eq")) { ok = ke[a] && ke[b]; if (!ok) goto emit; VH_TRY(err, ret = (ep_cmp(E[a], E[b]) == RLC_EQ)); }
			else if (OP("ep_is_infty")) { ok = ke[a]; if (!ok) goto emit; VH_TRY(err, ret = (ep_is_infty(E[a]) != 0)); }
			else if (OP("ep_on_curve")) { ok = ke[a]; if (!ok) goto emit; VH_TRY(err, ret = (ep_on_curve(E[a]) != 0)); }
			else if (OP("fp_eq")) { ok = kf[a] && kf[b]; if (!ok) goto emit; VH_TRY(err, ret = (fp_cmp(F[a], F[b]) == RLC_EQ)); }
			else if (OP("fp_is_zero")) { ok = kf[a]; if (!ok) goto emit; VH_TRY(err, ret = (fp_is_zero(F[a]) != 0)); }
			else { fprintf(stdout, "unknown op %s\n", op); return 2; }
			if (out == 1) kb[o] = (err == 0);
			if (out == 2) kf[o] = (err == 0);
			if (out == 3) ke[o] = (err == 0);
emit:
			if (!ok) { vh_begin("skip"); all_slots(); vh_end(); }
			else {
				vh_begin(op); vh_int("o", o); vh_int("a", a); vh_int("b", b); vh_int("k", k); vh_int("m", m);
				vh_int("err", err != 0); vh_int("ret", ret);
				all_slots(); vh_end();
			}
		}
		alarm(0);
	}
	fclose(vh_out);
	core_clean();
	return 0;
}
