/*
 * drv_ctx.c - library-context half of C19: re-parameterisation, context switches, threads.
 *
 * After every parameter selection a fixed PROBE WORKLOAD that consults every group of
 * derived constants (Montgomery constants, roots of unity / non-residues, tower and
 * Frobenius constants, curve coefficients, generator table, GLV constants, map
 * constants, twist, pairing, GT) is run with the generator reseeded to a fixed value,
 * and its results are logged.  The property's own formulation is the oracle: the
 * trace spec requires every probe to equal the probe of a FRESHLY initialised library
 * (separate process) with the same last selection.
 *
 * Case lines:
 *   ids                       -> {"op":"ids","ids":[accepted ep parameter ids]}
 *   fresh <id>                -> core_init, select id, probe  ("op":"fresh")
 *   seq <id1> <id2> ...       -> core_init, then select+probe each in turn ("op":"probe", pos k)
 *   two <idA> <idB> <n>       -> two contexts (core_set), alternate n times, probe after each switch
 *   reinit <idA> <idB>        -> a caller-provided context used, left with an unfetched error, cleaned and initialised again
 *   thr <idA> <idB> ...       -> (MULTI build) one thread per id sequence element list "a,b,c"
 */
#include "vh.h"
#ifdef MULTI
#include <pthread.h>
#endif

#define MAXITEM 64
#define MAXV 800
typedef struct { const char *k; uint8_t v[MAXV]; size_t n; } item_t;
typedef struct { item_t it[MAXITEM]; int n; int id; } probe_t;

static void put(probe_t *p, const char *k, const uint8_t *v, size_t n) {
	if (p->n >= MAXITEM) return;
	p->it[p->n].k = k;
	p->it[p->n].n = n > MAXV ? MAXV : n;
	memcpy(p->it[p->n].v, v, p->it[p->n].n);
	p->n++;
}
static void put_bn(probe_t *p, const char *k, const bn_t a) {
	uint8_t b[MAXV];
	size_t n = bn_size_bin(a);
	if (n > MAXV - 1) n = MAXV - 1;
	b[0] = (uint8_t)(bn_sign(a) == RLC_NEG);
	bn_write_bin(b + 1, n, a);
	put(p, k, b, n + 1);
}
static void put_fp(probe_t *p, const char *k, const fp_t a) {
	uint8_t b[RLC_FP_BYTES];
	fp_write_bin(b, RLC_FP_BYTES, a);
	put(p, k, b, RLC_FP_BYTES);
}
static void put_ep(probe_t *p, const char *k, const ep_t a) {
	uint8_t b[2 * RLC_FP_BYTES + 1];
	size_t n = ep_size_bin(a, 0);
	ep_write_bin(b, n, a, 0);
	put(p, k, b, n);
}

/* select a parameter set the way an application does: curve (+ field), then twist / pairing data */
/* custom parameter sets installed through the DIRECT API (fp_prime_set_dense + ep_curve_set_plain),
 * pseudo ids 1000 (the NIST P-256 values) and 1001 (the Brainpool P-256 values) */
#if FP_PRIME == 256
static const char *CUSTOM[2][6] = {
	{ "FFFFFFFF00000001000000000000000000000000FFFFFFFFFFFFFFFFFFFFFFFF",
	  "FFFFFFFF00000001000000000000000000000000FFFFFFFFFFFFFFFFFFFFFFFC",
	  "5AC635D8AA3A93E7B3EBBD55769886BC651D06B0CC53B0F63BCE3C3E27D2604B",
	  "6B17D1F2E12C4247F8BCE6E563A440F277037D812DEB33A0F4A13945D898C296",
	  "4FE342E2FE1A7F9B8EE7EB4A7C0F9E162BCE33576B315ECECBB6406837BF51F5",
	  "FFFFFFFF00000000FFFFFFFFFFFFFFFFBCE6FAADA7179E84F3B9CAC2FC632551" },
	{ "A9FB57DBA1EEA9BC3E660A909D838D726E3BF623D52620282013481D1F6E5377",
	  "7D5A0975FC2C3057EEF67530417AFFE7FB8055C126DC5C6CE94A4B44F330B5D9",
	  "26DC5C6CE94A4B44F330B5D9BBD77CBF958416295CF7E1CE6BCCDC18FF8C07B6",
	  "8BD2AEB9CB7E57CB2C4B482FFC81B7AFB9DE27E1E3BD23C23A4453BD9ACE3262",
	  "547EF835C3DAC4FD97F8461A14611DC9C27745132DED8E545C1D54C72F046997",
	  "A9FB57DBA1EEA9BC3E660A909D838D718C397AA3B561A6F7901E0E82974856A7" } };
static void select_custom(int k) {
	bn_t p, r, h; fp_t a, b; ep_t g;
	bn_null(p); bn_null(r); bn_null(h); fp_null(a); fp_null(b); ep_null(g);
	bn_new(p); bn_new(r); bn_new(h); fp_new(a); fp_new(b); ep_new(g);
	bn_read_str(p, CUSTOM[k][0], 64, 16);
	fp_prime_set_dense(p);
	fp_read_str(a, CUSTOM[k][1], 64, 16); fp_read_str(b, CUSTOM[k][2], 64, 16);
	fp_read_str(g->x, CUSTOM[k][3], 64, 16); fp_read_str(g->y, CUSTOM[k][4], 64, 16);
	fp_set_dig(g->z, 1); g->coord = BASIC;
	bn_read_str(r, CUSTOM[k][5], 64, 16); bn_set_dig(h, 1);
	ep_curve_set_plain(a, b, g, r, h, 0);
	bn_free(p); bn_free(r); bn_free(h); fp_free(a); fp_free(b); ep_free(g);
}
#endif

static int select_id(int id) {
	volatile int ok = 1;
	RLC_TRY {
#if FP_PRIME == 256
		if (id >= 1000) { select_custom(id - 1000); } else
#endif
		ep_param_set(id);
#if defined(WITH_PP)
		if (id < 1000 && ep_curve_is_pairf() && ep_curve_embed() == 12) {
			/* the twist type is the caller's knowledge: take the one under which the Frobenius
			 * endomorphism acts on the generator as multiplication by p (selection only, not a verdict) */
			{
				ep2_t g, f; bn_t pp;
				ep2_null(g); ep2_null(f); bn_null(pp); ep2_new(g); ep2_new(f); bn_new(pp);
				ep2_curve_set_twist(RLC_EP_DTYPE);
				ep2_curve_get_gen(g);
				pp->used = RLC_FP_DIGS; pp->sign = RLC_POS; dv_copy(pp->dp, fp_prime_get(), RLC_FP_DIGS);
				ep2_frb(f, g, 1); ep2_mul_basic(g, g, pp);
				if (ep2_cmp(f, g) != RLC_EQ) ep2_curve_set_twist(RLC_EP_MTYPE);
				ep2_free(g); ep2_free(f); bn_free(pp);
			}
		}
#endif
	} RLC_CATCH_ANY { ok = 0; }
	err_get_code();
	return ok;
}

static void probe(probe_t *p, int id) {
	uint8_t seed[32], buf[64];
	volatile int stage = 0;
	bn_t k, n, t; fp_t a, b, c; ep_t g, q, r;
	int i;
	p->n = 0; p->id = id;
	for (i = 0; i < 32; i++) seed[i] = (uint8_t)(i * 5 + 1);
	bn_null(k); bn_null(n); bn_null(t); fp_null(a); fp_null(b); fp_null(c); ep_null(g); ep_null(q); ep_null(r);
	RLC_TRY {
		bn_new(k); bn_new(n); bn_new(t); fp_new(a); fp_new(b); fp_new(c); ep_new(g); ep_new(q); ep_new(r);
		/* the sticky error code as the workload finds it (always the FIRST item: the reinit case overwrites it with
		 * the code read right after core_init) */
		buf[0] = (uint8_t)core_get()->code; put(p, "code0", buf, 1);
		core_get()->seeded = 0;
		rand_seed(seed, 32);
		/* field: Montgomery constants, conversions, multiplication, inversions, roots, symbols */
		stage = 1;
		put(p, "prime", (const uint8_t *)fp_prime_get(), RLC_FP_DIGS * sizeof(dig_t));
		bn_read_str(k, "1234567890ABCDEF1234567890ABCDEF1234567890ABCDEF", 48, 16);
		fp_prime_conv(a, k); fp_prime_back(t, a); put_bn(p, "conv_back", t);
		fp_set_dig(b, 7); fp_mul(c, a, b); put_fp(p, "mul", c);
		fp_sqr(c, a); put_fp(p, "sqr", c);
		fp_inv(c, a); put_fp(p, "inv", c);
		fp_inv_basic(c, a); put_fp(p, "inv_basic", c);
		fp_inv_binar(c, a); put_fp(p, "inv_binar", c);
		fp_inv_monty(c, a); put_fp(p, "inv_monty", c);
		fp_inv_exgcd(c, a); put_fp(p, "inv_exgcd", c);
		fp_inv_divst(c, a); put_fp(p, "inv_divst", c);
		fp_inv_lower(c, a); put_fp(p, "inv_lower", c);
		fp_sqr(c, a); i = fp_srt(b, c); fp_sqr(b, b); put_fp(p, "srt_sq", b); buf[0] = (uint8_t)i; put(p, "srt_ok", buf, 1);
		buf[0] = (uint8_t)(fp_smb(a) + 1); put(p, "smb", buf, 1);
		buf[0] = (uint8_t)fp_is_sqr(a); put(p, "is_sqr", buf, 1);
		fp_exp(c, a, k); put_fp(p, "exp", c);
		fp_hlv(c, a); put_fp(p, "hlv", c);
		fp_rand(c); put_fp(p, "fp_rand", c);
		/* curve: coefficients, order, cofactor, generator, every multiplication path, map */
		stage = 2;
		ep_curve_get_gen(g); put_ep(p, "gen", g);
		ep_curve_get_ord(n); put_bn(p, "ord", n);
		ep_curve_get_cof(t); put_bn(p, "cof", t);
		put_fp(p, "curve_a", ep_curve_get_a()); put_fp(p, "curve_b", ep_curve_get_b());
		bn_read_str(k, "F123456789ABCDEF0123456789ABCDEF0123456789ABCDEF012345678", 57, 16);
		ep_mul_gen(r, k); put_ep(p, "mul_gen", r);
		ep_mul_basic(r, g, k); put_ep(p, "mul_basic", r);
		ep_mul_lwnaf(r, g, k); put_ep(p, "mul_lwnaf", r);
		ep_mul_lwreg(r, g, k); put_ep(p, "mul_lwreg", r);
		ep_mul_slide(r, g, k); put_ep(p, "mul_slide", r);
		ep_mul_monty(r, g, k); put_ep(p, "mul_monty", r);
		ep_dbl(q, g); ep_mul_sim(r, g, k, q, n); put_ep(p, "mul_sim", r);
		ep_mul_sim_gen(r, k, q, k); put_ep(p, "mul_sim_gen", r);
		ep_map(r, (const uint8_t *)"relic-verif-probe", 17); put_ep(p, "map", r);
		ep_rand(r); put_ep(p, "ep_rand", r);
		buf[0] = (uint8_t)ep_on_curve(g); buf[1] = (uint8_t)ep_curve_is_endom(); buf[2] = (uint8_t)ep_curve_is_pairf();
		buf[3] = (uint8_t)ep_curve_opt_a(); buf[4] = (uint8_t)ep_curve_opt_b(); buf[5] = (uint8_t)ep_param_level();
		put(p, "flags", buf, 6);
		if (ep_curve_is_endom()) {
			ep_psi(r, g); put_ep(p, "psi", r);
		}
#if defined(WITH_PP)
		/* tower, twist, pairing, target group */
		stage = 3;
		if (id < 1000 && ep_curve_is_pairf() && ep_curve_embed() == 12) {
			uint8_t big[12 * RLC_FP_BYTES];
			fp2_t x2, y2; ep2_t g2, r2; fp12_t e1, e2; g1_t p1; gt_t gg;
			fp2_null(x2); fp2_null(y2); ep2_null(g2); ep2_null(r2); fp12_null(e1); fp12_null(e2); g1_null(p1); gt_null(gg);
			fp2_new(x2); fp2_new(y2); ep2_new(g2); ep2_new(r2); fp12_new(e1); fp12_new(e2); g1_new(p1); gt_new(gg);
			fp_copy(x2[0], a); fp_set_dig(x2[1], 3);
			fp2_mul(y2, x2, x2); fp2_write_bin(big, 2 * RLC_FP_BYTES, y2, 0); put(p, "fp2_mul", big, 2 * RLC_FP_BYTES);
			fp2_inv(y2, x2); fp2_write_bin(big, 2 * RLC_FP_BYTES, y2, 0); put(p, "fp2_inv", big, 2 * RLC_FP_BYTES);
			fp2_frb(y2, x2, 1); fp2_write_bin(big, 2 * RLC_FP_BYTES, y2, 0); put(p, "fp2_frb", big, 2 * RLC_FP_BYTES);
			fp2_mul_nor(y2, x2); fp2_write_bin(big, 2 * RLC_FP_BYTES, y2, 0); put(p, "fp2_mul_nor", big, 2 * RLC_FP_BYTES);
			ep2_curve_get_gen(g2);
			ep2_write_bin(big, 4 * RLC_FP_BYTES + 1, g2, 0); put(p, "g2_gen", big, 4 * RLC_FP_BYTES + 1);
			ep2_mul_gen(r2, k); ep2_norm(r2, r2); ep2_write_bin(big, 4 * RLC_FP_BYTES + 1, r2, 0); put(p, "g2_mul_gen", big, 4 * RLC_FP_BYTES + 1);
			ep2_mul(r2, g2, k); ep2_norm(r2, r2); ep2_write_bin(big, 4 * RLC_FP_BYTES + 1, r2, 0); put(p, "g2_mul", big, 4 * RLC_FP_BYTES + 1);
			ep2_frb(r2, g2, 1); ep2_norm(r2, r2); ep2_write_bin(big, 4 * RLC_FP_BYTES + 1, r2, 0); put(p, "g2_frb", big, 4 * RLC_FP_BYTES + 1);
			ep2_map(r2, (const uint8_t *)"relic-verif-probe", 17); ep2_norm(r2, r2);
			ep2_write_bin(big, 4 * RLC_FP_BYTES + 1, r2, 0); put(p, "g2_map", big, 4 * RLC_FP_BYTES + 1);
			buf[0] = (uint8_t)g2_is_valid(g2); g1_get_gen(p1); buf[1] = (uint8_t)g1_is_valid(p1); put(p, "valid", buf, 2);
			pc_map(e1, p1, g2); fp12_write_bin(big, 12 * RLC_FP_BYTES, e1, 0); put(p, "pairing", big, 12 * RLC_FP_BYTES);
			fp12_frb(e2, e1, 1); fp12_write_bin(big, 12 * RLC_FP_BYTES, e2, 0); put(p, "fp12_frb", big, 12 * RLC_FP_BYTES);
			gt_exp(e2, e1, k); fp12_write_bin(big, 12 * RLC_FP_BYTES, e2, 0); put(p, "gt_exp", big, 12 * RLC_FP_BYTES);
			gt_get_gen(gg); fp12_write_bin(big, 12 * RLC_FP_BYTES, gg, 0); put(p, "gt_gen", big, 12 * RLC_FP_BYTES);
			buf[0] = (uint8_t)gt_is_valid(e1); put(p, "gt_valid", buf, 1);
			fp2_free(x2); fp2_free(y2); ep2_free(g2); ep2_free(r2); fp12_free(e1); fp12_free(e2); g1_free(p1); gt_free(gg);
		}
#endif
		stage = 9;
	} RLC_CATCH_ANY {
		buf[0] = (uint8_t)stage;
		put(p, "THROWN", buf, 1);
	} RLC_FINALLY {
		bn_free(k); bn_free(n); bn_free(t); fp_free(a); fp_free(b); fp_free(c); ep_free(g); ep_free(q); ep_free(r);
	}
	err_get_code();
}

static void emit(const char *op, const probe_t *p, int pos, int thr) {
	int i;
	vh_begin(op);
	vh_int("id", p->id); vh_int("pos", pos); vh_int("t", thr);
	fputs(",\"items\":[", vh_out);
	for (i = 0; i < p->n; i++) {
		fprintf(vh_out, "%s{\"k\":\"%s\",\"v\":", i ? "," : "", p->it[i].k);
		vh_bytes_raw(p->it[i].v, p->it[i].n);
		fputc('}', vh_out);
	}
	fputc(']', vh_out);
	vh_end();
}

#ifdef MULTI
typedef struct { int ids[16]; int n; probe_t *out; int thr; } targ_t;
static void *thread_main(void *arg) {
	targ_t *a = (targ_t *)arg;
	int i;
	if (core_init() != RLC_OK) return NULL;
	for (i = 0; i < a->n; i++) {
		if (select_id(a->ids[i])) probe(&a->out[i], a->ids[i]); else { a->out[i].n = 0; a->out[i].id = -a->ids[i]; }
		sched_yield();
	}
	core_clean();
	return NULL;
}
#endif

static probe_t P;

int main(int argc, char **argv) {
	long start, idx = 0;
	FILE *in = vh_open(argc, argv, &start);
	if (!freopen("/dev/null", "w", stderr)) return 2;
	while (vh_next(in)) {
		const char *op = vh_tok[0];
		int i;
		if (idx++ < start) continue;
		vh_case = idx - 1;
		alarm(300);
		if (strcmp(op, "ids") == 0) {
			int first = 1;
			vh_begin("ids");
			fputs(",\"ids\":[", vh_out);
			/* each id in a context of its own: what can be selected must not depend on what was selected before */
			for (i = 1; i < 200; i++) {
				int ok;
				if (core_init() != RLC_OK) return 2;
				ok = select_id(i);
				core_clean();
				if (ok) { fprintf(vh_out, "%s%d", first ? "" : ",", i); first = 0; }
			}
#if FP_PRIME == 256
			fprintf(vh_out, "%s1000,1001", first ? "" : ",");
#endif
			fputs("]", vh_out);
			vh_end();
		} else if (strcmp(op, "fresh") == 0 || strcmp(op, "seq") == 0) {
			if (core_init() != RLC_OK) return 2;
			for (i = 1; i < vh_ntok; i++) {
				int id = atoi(vh_tok[i]);
				if (!select_id(id)) { P.n = 0; P.id = -id; } else probe(&P, id);
				emit(op[0] == 'f' ? "fresh" : "probe", &P, i, 0);
			}
			core_clean();
		} else if (strcmp(op, "two") == 0) {
			int ida = atoi(vh_tok[1]), idb = atoi(vh_tok[2]), n = atoi(vh_tok[3]);
			ctx_t *c1, *c2 = calloc(1, sizeof(ctx_t));
			if (core_init() != RLC_OK) return 2;
			c1 = core_get();
			select_id(ida);
			core_set(c2);
			if (core_init() != RLC_OK) return 2;
			select_id(idb);
			for (i = 0; i < n; i++) {
				core_set(c1); probe(&P, ida); emit("probe", &P, 2 * i + 1, 0);
				core_set(c2); probe(&P, idb); emit("probe", &P, 2 * i + 2, 0);
				if (i == 0) { core_set(c1); select_id(idb); select_id(ida); }   /* reselect in one context only */
			}
			core_set(c2); core_clean();
			core_set(c1); core_clean();
			free(c2);
		}
		else if (strcmp(op, "reinit") == 0) {
			/* a caller-provided context: initialise, select, raise an error that is never fetched, clean, initialise
			 * AGAIN: the second life of the context must be that of a fresh one (code read before anything else) */
			int ida = atoi(vh_tok[1]), idb = atoi(vh_tok[2]), c0;
			ctx_t *c1, *c2 = calloc(1, sizeof(ctx_t));
			if (core_init() != RLC_OK) return 2;
			c1 = core_get();
			core_set(c2);
			if (core_init() != RLC_OK) return 2;
			select_id(ida);
			RLC_THROW(ERR_NO_VALID);                     /* outside any block: recorded in the context, not fetched */
			core_clean();
			core_set(c2);                                /* (core_clean detaches the context) */
			if (core_init() != RLC_OK) return 2;
			c0 = core_get()->code;
			if (!select_id(idb)) { P.n = 0; P.id = -idb; } else { probe(&P, idb); P.it[0].v[0] = (uint8_t)c0; }
			emit("probe", &P, 1, 0);
			core_clean();
			core_set(c1); core_clean();
			free(c2);
		}
#ifdef MULTI
		else if (strcmp(op, "thr") == 0) {
			int nt = vh_ntok - 1, t, j;
			pthread_t th[16];
			static targ_t ta[16];
			for (t = 0; t < nt && t < 16; t++) {
				char *s = vh_tok[t + 1], *q;
				ta[t].n = 0; ta[t].thr = t + 1;
				for (q = strtok(s, ","); q && ta[t].n < 16; q = strtok(NULL, ",")) ta[t].ids[ta[t].n++] = atoi(q);
				ta[t].out = calloc(ta[t].n, sizeof(probe_t));
			}
			for (t = 0; t < nt && t < 16; t++) pthread_create(&th[t], NULL, thread_main, &ta[t]);
			for (t = 0; t < nt && t < 16; t++) pthread_join(th[t], NULL);
			for (t = 0; t < nt && t < 16; t++) {
				for (j = 0; j < ta[t].n; j++) emit("probe", &ta[t].out[j], j + 1, t + 1);
				free(ta[t].out);
			}
		}
#endif
		else { return 2; }
		alarm(0);
	}
	fclose(vh_out);
	return 0;
}
