/*
 * vh.h - shared part of the conformance drivers (DESIGN.md 2.2, 4a-A).
 *
 * A driver reads a case file (one case per line, whitespace separated tokens,
 * wide values as big-endian hex with an optional leading '-'), executes each
 * case against the real library inside RLC_TRY and appends one ndjson event
 * per case to the trace file.  Wide values are written as little-endian byte
 * arrays (never JSON numbers).  Objects are projected from their RAW fields
 * (sign/used/dp), not through the library's own encoders, so that a fault in
 * an encoder cannot hide a fault in an operation.
 *
 * Abnormal executions are events too: a watchdog and fatal-signal handlers
 * append {"op":"TIMEOUT"|"CRASH",...} with write(2) and _exit, and the
 * orchestrator restarts the driver after the offending case.
 */
#ifndef VH_H
#define VH_H

#include <relic.h>
#include <ctype.h>
#include <signal.h>
#include <stdarg.h>
#include <stdint.h>
#include <stdio.h>
#include <stdlib.h>
#include <string.h>
#include <unistd.h>

#define VH_MAXTOK 512
#define VH_LINE (1 << 20)

static FILE *vh_out;
static int vh_outfd = -1;
static volatile long vh_case = -1;      /* index of the case being executed */
static char *vh_line;
static char *vh_tok[VH_MAXTOK];
static int vh_ntok;
static int vh_first;                    /* first field of the current object */

/* ---------------------------------------------------------------- fatal */
static void vh_fatal(int sig) {
	char buf[128];
	const char *what = (sig == SIGALRM) ? "TIMEOUT" : "CRASH";
	int n;
	if (vh_out) fflush(vh_out);
	/* on a line of its own: the event being written when the signal arrived is left unterminated */
	n = snprintf(buf, sizeof(buf), "\n{\"op\":\"%s\",\"i\":%ld,\"sig\":%d}\n", what, (long)vh_case, sig);
	if (vh_outfd >= 0) { if (write(vh_outfd, buf, n) < 0) {} }
	_exit(sig == SIGALRM ? 3 : 4);
}

static void vh_install(void) {
	signal(SIGSEGV, vh_fatal); signal(SIGBUS, vh_fatal); signal(SIGFPE, vh_fatal);
	signal(SIGABRT, vh_fatal); signal(SIGILL, vh_fatal); signal(SIGALRM, vh_fatal);
}

/* usage: driver <cases> <trace-out> [start-index] */
static FILE *vh_open(int argc, char **argv, long *start) {
	FILE *in;
	if (argc < 3) { fprintf(stderr, "usage: %s cases trace [start]\n", argv[0]); exit(2); }
	in = fopen(argv[1], "r");
	if (!in) { perror(argv[1]); exit(2); }
	*start = argc > 3 ? atol(argv[3]) : 0;
	vh_out = fopen(argv[2], *start > 0 ? "a" : "w");
	if (!vh_out) { perror(argv[2]); exit(2); }
	vh_outfd = fileno(vh_out);
	vh_line = malloc(VH_LINE);
	vh_install();
	return in;
}

/* read next case line into tokens; returns 0 at EOF */
static int vh_next(FILE *in) {
	char *p;
	for (;;) {
		if (!fgets(vh_line, VH_LINE, in)) return 0;
		vh_ntok = 0;
		p = strtok(vh_line, " \t\r\n");
		while (p && vh_ntok < VH_MAXTOK) { vh_tok[vh_ntok++] = p; p = strtok(NULL, " \t\r\n"); }
		if (vh_ntok > 0 && vh_tok[0][0] != '#') return 1;
	}
}

/* ---------------------------------------------------------------- hex */
static int vh_hexv(int c) {
	if (c >= '0' && c <= '9') return c - '0';
	if (c >= 'a' && c <= 'f') return c - 'a' + 10;
	if (c >= 'A' && c <= 'F') return c - 'A' + 10;
	return -1;
}

/* hex token (big-endian, optional '-', "." = empty) -> bytes big-endian; returns length */
static size_t vh_hex2bytes(const char *t, uint8_t *buf, size_t max, int *neg) {
	size_t n, i, len = 0;
	if (neg) *neg = 0;
	if (*t == '-') { if (neg) *neg = 1; t++; }
	if (t[0] == '.' ) return 0;
	n = strlen(t);
	if (n % 2) { if (len < max) buf[len++] = (uint8_t)vh_hexv(t[0]); t++; n--; }
	for (i = 0; i < n; i += 2) {
		if (len < max) buf[len++] = (uint8_t)((vh_hexv(t[i]) << 4) | vh_hexv(t[i + 1]));
	}
	return len;
}

/* ---------------------------------------------------------------- json out */
static void vh_begin(const char *op) {
	fprintf(vh_out, "{\"op\":\"%s\",\"i\":%ld", op, (long)vh_case);
}
static void vh_end(void) { fputs("}\n", vh_out); }
static void vh_int(const char *k, long v) { fprintf(vh_out, ",\"%s\":%ld", k, v); }
static void vh_bool(const char *k, int v) { fprintf(vh_out, ",\"%s\":%s", k, v ? "true" : "false"); }
static void vh_str(const char *k, const char *v) { fprintf(vh_out, ",\"%s\":\"%s\"", k, v); }
static void vh_bytes_raw(const uint8_t *b, size_t n) {
	size_t i;
	fputc('[', vh_out);
	for (i = 0; i < n; i++) { if (i) fputc(',', vh_out); fprintf(vh_out, "%u", b[i]); }
	fputc(']', vh_out);
}
/* bytes in the order given */
static void vh_bytes(const char *k, const uint8_t *b, size_t n) {
	fprintf(vh_out, ",\"%s\":", k);
	vh_bytes_raw(b, n);
}
/* big-endian buffer written as a little-endian byte array (a BigNat, not normalised) */
static void vh_be_as_le(const char *k, const uint8_t *b, size_t n) {
	size_t i;
	fprintf(vh_out, ",\"%s\":[", k);
	for (i = 0; i < n; i++) { if (i) fputc(',', vh_out); fprintf(vh_out, "%u", b[n - 1 - i]); }
	fputc(']', vh_out);
}
/* a digit vector as little-endian bytes */
static void vh_digs_raw(const dig_t *d, size_t n) {
	size_t i, j;
	int first = 1;
	fputc('[', vh_out);
	for (i = 0; i < n; i++) {
		for (j = 0; j < sizeof(dig_t); j++) {
			if (!first) fputc(',', vh_out);
			first = 0;
			fprintf(vh_out, "%u", (unsigned)((d[i] >> (8 * j)) & 0xff));
		}
	}
	fputc(']', vh_out);
}
static void vh_digs(const char *k, const dig_t *d, size_t n) {
	fprintf(vh_out, ",\"%s\":", k);
	vh_digs_raw(d, n);
}
static void vh_dig(const char *k, dig_t d) { vh_digs(k, &d, 1); }

#ifdef WITH_BN
/* raw projection of a bn object: sign, used, digits [0, used) */
static void vh_bn_raw(const bn_t a) {
	fprintf(vh_out, "{\"s\":%d,\"u\":%lu,\"d\":", a->sign == RLC_NEG ? 1 : 0, (unsigned long)a->used);
	vh_digs_raw(a->dp, a->used <= (size_t)a->alloc ? a->used : 0);
	fputc('}', vh_out);
}
static void vh_bn(const char *k, const bn_t a) {
	fprintf(vh_out, ",\"%s\":", k);
	vh_bn_raw(a);
}
/* set a bn from a hex token by writing its raw fields */
static void vh_bn_set(bn_t a, const char *tok) {
	static uint8_t buf[VH_LINE / 2];
	int neg;
	size_t n = vh_hex2bytes(tok, buf, sizeof(buf), &neg), i, nd;
	size_t lead = 0;
	while (lead < n && buf[lead] == 0) lead++;
	n -= lead;
	nd = (n + sizeof(dig_t) - 1) / sizeof(dig_t);
	bn_grow(a, nd ? nd : 1);
	for (i = 0; i < (size_t)a->alloc; i++) a->dp[i] = 0;
	for (i = 0; i < n; i++) {
		a->dp[i / sizeof(dig_t)] |= (dig_t)buf[lead + n - 1 - i] << (8 * (i % sizeof(dig_t)));
	}
	a->used = nd ? nd : 1;      /* the library's canonical zero: used = 1, dp[0] = 0 */
	a->sign = (neg && nd > 0) ? RLC_NEG : RLC_POS;
}
/* raw equality (sign, used, digits) */
static int vh_bn_same(const bn_t a, const bn_t b) {
	size_t i;
	if (a->sign != b->sign || a->used != b->used) return 0;
	for (i = 0; i < a->used; i++) if (a->dp[i] != b->dp[i]) return 0;
	return 1;
}
static dig_t vh_dig_tok(const char *tok) {
	uint8_t buf[32];
	size_t n = vh_hex2bytes(tok, buf, sizeof(buf), NULL), i;
	dig_t d = 0;
	for (i = 0; i < n; i++) d = (dig_t)((d << 8) | buf[i]);
	return d;
}
#endif


#ifdef WITH_FP
/* raw projection of a prime-field element: its RLC_FP_DIGS digits (Montgomery form when mont=1) */
static void vh_fp_raw(const fp_t a) { vh_digs_raw(a, RLC_FP_DIGS); }
static void vh_fp(const char *k, const fp_t a) { vh_digs(k, a, RLC_FP_DIGS); }
/* field header: prime (LE bytes), digit bytes, digits, Montgomery flag */
static void vh_fp_hdr(void) {
	vh_digs("p", fp_prime_get(), RLC_FP_DIGS);
	vh_int("w", (long)sizeof(dig_t));
	vh_int("fd", (long)RLC_FP_DIGS);
#if FP_RDC == MONTY
	vh_int("mont", 1);
#else
	vh_int("mont", 0);
#endif
}
/* set from a token: "r:<hex>" raw digits as given, otherwise the VALUE <hex> (converted by the library;
 * the spec reads the raw digits back, so a faulty conversion cannot corrupt a case silently) */
static void vh_fp_set(fp_t a, const char *tok) {
	bn_t t;
	bn_null(t);
	if (tok[0] == 'r' && tok[1] == ':') {
		size_t i;
		bn_new(t);
		vh_bn_set(t, tok + 2);
		for (i = 0; i < RLC_FP_DIGS; i++) a[i] = (i < t->used) ? t->dp[i] : 0;
		bn_free(t);
		return;
	}
	bn_new(t);
	vh_bn_set(t, tok);
	if (bn_is_zero(t)) fp_zero(a); else fp_prime_conv(a, t);
	bn_free(t);
}
#endif

#ifdef WITH_EP
/* raw projection of a prime-curve point: raw coordinates and the coordinate-system tag */
static void vh_ep_raw(const ep_t p) {
	fputs("{\"x\":", vh_out); vh_fp_raw(p->x);
	fputs(",\"y\":", vh_out); vh_fp_raw(p->y);
	fputs(",\"z\":", vh_out); vh_fp_raw(p->z);
	fprintf(vh_out, ",\"c\":%d}", p->coord);
}
static void vh_ep(const char *k, const ep_t p) {
	fprintf(vh_out, ",\"%s\":", k);
	vh_ep_raw(p);
}
/* "inf" | "<hexx>,<hexy>" affine | "<hexx>,<hexy>,<hexz>,<coord>" raw-valued projective */
static void vh_ep_set(ep_t p, char *tok) {
	char *x, *y, *z, *c;
	if (strcmp(tok, "inf") == 0) { ep_set_infty(p); return; }
	x = tok; y = strchr(x, ','); *y++ = 0;
	z = strchr(y, ',');
	if (z) { *z++ = 0; c = strchr(z, ','); *c++ = 0; }
	vh_fp_set(p->x, x); vh_fp_set(p->y, y);
	if (z) { vh_fp_set(p->z, z); p->coord = atoi(c); }
	else { fp_set_dig(p->z, 1); p->coord = BASIC; }
}
static int vh_ep_same(const ep_t a, const ep_t b) {
	return memcmp(a->x, b->x, sizeof(dig_t) * RLC_FP_DIGS) == 0 && memcmp(a->y, b->y, sizeof(dig_t) * RLC_FP_DIGS) == 0
		&& memcmp(a->z, b->z, sizeof(dig_t) * RLC_FP_DIGS) == 0 && a->coord == b->coord;
}
#endif

/* run a statement under the library's own try/catch and record the error:
 * 0 = none, otherwise the thrown number (ERR_MAX = caught, number not propagated) */
#define VH_TRY(err, stmt)                                                   \
	do {                                                                    \
		err_t _ve = ERR_MAX;                                                \
		(err) = 0;                                                          \
		RLC_TRY { stmt; } RLC_CATCH(_ve) { (err) = (int)_ve; }              \
	} while (0)

/* after a case: the sticky code (reading resets it), must end up clean */
static int vh_code(void) { return err_get_code() == RLC_OK ? 0 : 1; }

#endif
