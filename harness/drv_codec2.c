/*
 * drv_codec2.c - conformance driver for the external representations of binary-field elements and
 * binary-curve points (C07, second part): fb_size_str / fb_write_str / fb_read_str, fb_write_bin /
 * fb_read_bin, eb_size_bin / eb_write_bin / eb_read_bin (pack = 0, 1), eb_pck / eb_upk.
 *
 * Case line:  <op> <sel> <args...>
 *   sel      E<id>                     eb_param_set(id)   (field polynomial + curve)
 *            F<id>                     fb_param_set(id)   (field only)
 *            T<a> | Q<a>,<b>,<c>       fb_poly_set_trino / fb_poly_set_penta (field only; tiny worlds)
 *            C<T..|Q..>:<a>:<b>:<gx>:<gy>:<r>:<h>   polynomial as above + eb_curve_set (hex VALUES)
 *            (the selection is redone only when sel changes: every line can be replayed alone)
 *   element  hex (the polynomial; raw digits = value: binary fields have no internal form)
 *   bytes    even-length hex, "." = empty string
 *   point    inf | inf0p (all-zero triple tagged PROJC) | <x>,<y>[/<rep>]  affine VALUES as given (may be off the curve)
 *            rep:  P (retag PROJC, z = 1) | p<z> (x*z, y*z^2, z: Lopez-Dahab projective) | h (lambda form (x, x + y/x) tagged HALVE)
 *
 * Every output buffer is a malloc'ed region [16 guard bytes A5][len bytes 5C][16 guard bytes A5];
 * "out" = the len bytes after the call, "g" = 1 iff both guards survived.  Every input byte string is
 * passed in an exact-size copy (text: followed by digits of every radix, so that a reader that looks
 * past the given length changes the value).  After a successful decode the object is re-encoded in the
 * same format and length ("re", "rerr").
 *
 * Event: {"op","i","eb":ERR_NO_BUFFER,"ev":ERR_NO_VALID,"em":ERR_MAX, field header m,f,w,fd,fb,digs,
 *         ["ca","cb" raw curve coefficients], inputs (raw projection / bytes), outputs, "err","code"}
 */
#include "vh.h"

#define FD ((int)RLC_FB_DIGS)

static bn_t T;
static fb_t FA, FC;
static eb_t P, R, G;
static int have_curve = 0;

/* ------------------------------------------------------------ event buffering (as drv_codec.c) */
static FILE *real_out;
static char *mbuf;
static size_t mlen, safe_len;
static volatile int in_event;

static void ev_begin(const char *op) {
	mbuf = NULL; mlen = 0; safe_len = 0;
	vh_out = open_memstream(&mbuf, &mlen);
	if (!vh_out) { perror("open_memstream"); exit(2); }
	in_event = 1;
	vh_begin(op);
	vh_int("eb", ERR_NO_BUFFER); vh_int("ev", ERR_NO_VALID); vh_int("em", ERR_MAX);
}
static void ev_end(void) {
	vh_end();
	fclose(vh_out);
	in_event = 0;
	fwrite(mbuf, 1, mlen, real_out);
	fflush(real_out);
	free(mbuf);
	vh_out = real_out;
}
#define MARK() do { fflush(vh_out); safe_len = mlen; } while (0)

static void cd_fatal(int sig) {
	char buf[200];
	int n;
	const char *what = (sig == SIGALRM) ? "TIMEOUT" : "CRASH";
	if (in_event && safe_len > 0) {
		if (write(vh_outfd, mbuf, safe_len) < 0) {}
		n = snprintf(buf, sizeof(buf), ",\"crash\":%d,\"err\":0,\"code\":0}\n", sig);
		if (write(vh_outfd, buf, n) < 0) {}
		what = "restart";
	}
	n = snprintf(buf, sizeof(buf), "{\"op\":\"%s\",\"i\":%ld,\"sig\":%d}\n", what, (long)vh_case, sig);
	if (write(vh_outfd, buf, n) < 0) {}
	_exit(sig == SIGALRM ? 3 : 4);
}
static void cd_install(void) {
	signal(SIGSEGV, cd_fatal); signal(SIGBUS, cd_fatal); signal(SIGFPE, cd_fatal);
	signal(SIGABRT, cd_fatal); signal(SIGILL, cd_fatal); signal(SIGALRM, cd_fatal);
}
/* the judged call: thrown error and the sticky code read right after it */
static int g_code;
#define CALL(err, stmt) do { VH_TRY(err, stmt); g_code = vh_code(); } while (0)
static void fin(int err) {
	vh_int("err", err);
	vh_int("code", g_code);
	(void)vh_code();            /* a failed re-encoding must not leak into the next case */
	ev_end();
}

/* ------------------------------------------------------------ guarded buffers */
#define GRD 16
typedef struct { uint8_t *base; uint8_t *p; size_t len; } gbuf_t;
static void gb_new(gbuf_t *g, size_t len) {
	g->base = malloc(len + 2 * GRD);
	if (!g->base) { perror("malloc"); exit(2); }
	memset(g->base, 0xA5, GRD);
	memset(g->base + GRD, 0x5C, len);
	memset(g->base + GRD + len, 0xA5, GRD);
	g->p = g->base + GRD;
	g->len = len;
}
static int gb_ok(const gbuf_t *g) {
	size_t i;
	for (i = 0; i < GRD; i++) if (g->base[i] != 0xA5 || g->base[GRD + g->len + i] != 0xA5) return 0;
	return 1;
}
static void gb_log(const char *k, const gbuf_t *g) {
	vh_bytes(k, g->p, g->len);
	vh_int("g", gb_ok(g));
}
static void gb_free(gbuf_t *g) { free(g->base); g->base = NULL; }

/* input byte string from a hex token, exact-size copy followed by a guard */
static uint8_t *in_bytes(const char *tok, size_t *len) {
	static uint8_t tmp[VH_LINE / 2];
	uint8_t *b;
	*len = vh_hex2bytes(tok, tmp, sizeof(tmp), NULL);
	b = malloc(*len + GRD);
	if (!b) { perror("malloc"); exit(2); }
	memcpy(b, tmp, *len);
	memset(b + *len, 0xA5, GRD);
	return b;
}

/* ------------------------------------------------------------ values */
static void fb_set_tok(fb_t a, const char *tok) {
	static uint8_t buf[4096];
	size_t n = vh_hex2bytes(tok, buf, sizeof(buf), NULL), i;
	fb_zero(a);
	if (n > sizeof(dig_t) * FD) {
		size_t extra = n - sizeof(dig_t) * FD;
		for (i = 0; i < extra; i++) if (buf[i]) { fprintf(stderr, "case %ld: element %s too long\n", (long)vh_case, tok); exit(2); }
		memmove(buf, buf + extra, n - extra);
		n -= extra;
	}
	for (i = 0; i < n; i++) a[i / sizeof(dig_t)] |= (dig_t)buf[n - 1 - i] << (8 * (i % sizeof(dig_t)));
}
static void vh_fb(const char *k, const fb_t a) { vh_digs(k, a, FD); }
static void stale(fb_t c) { int i; for (i = 0; i < FD; i++) c[i] = (dig_t)0x5a5a5a5a5a5a5a5aULL; }
static void vh_eb(const char *k, const eb_t p) {
	fprintf(vh_out, ",\"%s\":{\"x\":", k); vh_digs_raw(p->x, FD);
	fputs(",\"y\":", vh_out); vh_digs_raw(p->y, FD);
	fputs(",\"z\":", vh_out); vh_digs_raw(p->z, FD);
	fprintf(vh_out, ",\"c\":%d}", p->coord);
}

/* ------------------------------------------------------------ selection (as drv_fb.c) */
static char g_sel[8192] = "";
static int g_ok = 0;

static int set_poly(const char *s) {
	int err = 0, code, a, b, c;
	if (s[0] == 'T') {
		a = atoi(s + 1);
		VH_TRY(err, fb_poly_set_trino(a));
	} else if (s[0] == 'Q') {
		if (sscanf(s + 1, "%d,%d,%d", &a, &b, &c) != 3) return 0;
		VH_TRY(err, fb_poly_set_penta(a, b, c));
	} else return 0;
	code = vh_code();
	return err == 0 && code == 0;
}
static int set_tiny_curve(char *spec) {
	/* <poly>:a:b:gx:gy:r:h */
	char *f[8];
	int nf = 0, err = 0, code;
	char *s = spec;
	fb_t a, b;
	eb_t g;
	bn_t r, h;
	while (nf < 8) { f[nf++] = s; s = strchr(s, ':'); if (!s) break; *s++ = 0; }
	if (nf != 7) return 0;
	if (!set_poly(f[0])) return 0;
	fb_null(a); fb_null(b); eb_null(g); bn_null(r); bn_null(h);
	fb_new(a); fb_new(b); eb_new(g); bn_new(r); bn_new(h);
	fb_set_tok(a, f[1]); fb_set_tok(b, f[2]);
	fb_set_tok(g->x, f[3]); fb_set_tok(g->y, f[4]); fb_set_dig(g->z, 1); g->coord = BASIC;
	vh_bn_set(r, f[5]); vh_bn_set(h, f[6]);
	VH_TRY(err, eb_curve_set(a, b, g, r, h));
	code = vh_code();
	return err == 0 && code == 0;
}
static int ensure_sel(const char *sel) {
	int err = 0, code;
	if (strcmp(sel, g_sel) == 0) return g_ok;
	if (strlen(sel) >= sizeof(g_sel)) return 0;
	strcpy(g_sel, sel);
	g_ok = 0; have_curve = 0;
	if (sel[0] == 'E') {
		VH_TRY(err, eb_param_set(atoi(sel + 1)));
		code = vh_code();
		g_ok = have_curve = (err == 0 && code == 0);
	} else if (sel[0] == 'F') {
		VH_TRY(err, fb_param_set(atoi(sel + 1)));
		code = vh_code();
		g_ok = (err == 0 && code == 0);
	} else if (sel[0] == 'T' || sel[0] == 'Q') {
		g_ok = set_poly(sel);
	} else if (sel[0] == 'C') {
		static char tmp[8192];
		strcpy(tmp, sel + 1);
		g_ok = have_curve = set_tiny_curve(tmp);
	}
	if (have_curve) eb_curve_get_gen(G);
	return g_ok;
}

/* ------------------------------------------------------------ headers */
static void fhdr(const char *op) {
	ev_begin(op);
	vh_int("m", (long)RLC_FB_BITS);
	vh_digs("f", fb_poly_get(), FD);
	vh_int("w", (long)sizeof(dig_t));
	vh_int("fd", (long)FD);
	vh_int("fb", (long)RLC_FB_BYTES);
	vh_int("digs", (long)RLC_BN_DIGS);
}
static void chdr(const char *op) {
	fhdr(op);
	vh_fb("ca", eb_curve_get_a());
	vh_fb("cb", eb_curve_get_b());
}

/* ------------------------------------------------------------ field elements */
static void do_fb_write_bin(void) {
	int err; long len = atol(vh_tok[3]); gbuf_t g;
	fb_set_tok(FA, vh_tok[2]);
	gb_new(&g, (size_t)len);
	fhdr("fb_write_bin");
	vh_fb("a", FA); vh_int("len", len); MARK();
	CALL(err, fb_write_bin(g.p, (size_t)len, FA));
	gb_log("out", &g);
	fin(err);
	gb_free(&g);
}
static void do_fb_read_bin(void) {
	int err, rerr = 0; size_t len; uint8_t *in = in_bytes(vh_tok[2], &len); gbuf_t g;
	stale(FC);
	gb_new(&g, len);
	fhdr("fb_read_bin");
	vh_bytes("in", in, len); MARK();
	CALL(err, fb_read_bin(FC, in, len));
	vh_fb("c", FC);
	if (!err) { VH_TRY(rerr, fb_write_bin(g.p, len, FC)); }
	vh_int("rerr", rerr); gb_log("re", &g);
	fin(err);
	gb_free(&g); free(in);
}
static void do_fb_size_str(void) {
	int err; volatile long sz = -1; long radix = atol(vh_tok[3]);
	fb_set_tok(FA, vh_tok[2]);
	fhdr("fb_size_str");
	vh_fb("a", FA); vh_int("radix", radix); MARK();
	CALL(err, sz = (long)fb_size_str(FA, (uint_t)radix));
	vh_int("size", sz);
	fin(err);
}
static void do_fb_write_str(void) {
	int err; long radix = atol(vh_tok[3]), len = atol(vh_tok[4]); gbuf_t g;
	fb_set_tok(FA, vh_tok[2]);
	gb_new(&g, (size_t)len);
	fhdr("fb_write_str");
	vh_fb("a", FA); vh_int("radix", radix); vh_int("len", len); MARK();
	CALL(err, fb_write_str((char *)g.p, (size_t)len, FA, (uint_t)radix));
	gb_log("out", &g);
	fin(err);
	gb_free(&g);
}
static void do_fb_read_str(void) {
	int err, rerr = 0; size_t len; uint8_t *in = in_bytes(vh_tok[2], &len); long radix = atol(vh_tok[3]);
	volatile long sz = 0; gbuf_t g;
	stale(FC);
	fhdr("fb_read_str");
	vh_bytes("in", in, len); vh_int("radix", radix);
	MARK();
	{
		/* the bytes that FOLLOW the len given ones are digits of every radix: a reader that
		 * looks at str[len] (the length is the limit, not a terminator) changes the value */
		static char padded[1 << 16];
		size_t n = len < sizeof(padded) - 8 ? len : sizeof(padded) - 8;
		memcpy(padded, in, n); memcpy(padded + n, "1111111", 8);
		CALL(err, fb_read_str(FC, padded, n, (uint_t)radix));
	}
	vh_fb("c", FC);
	if (!err) { VH_TRY(rerr, sz = (long)fb_size_str(FC, (uint_t)radix)); }
	if (rerr || sz < 0) sz = 0;
	gb_new(&g, (size_t)sz);
	if (!err && !rerr) { VH_TRY(rerr, fb_write_str((char *)g.p, (size_t)sz, FC, (uint_t)radix)); }
	vh_int("rerr", rerr); gb_log("re", &g);
	fin(err);
	gb_free(&g); free(in);
}

/* ------------------------------------------------------------ points */
static void set_point(eb_t p, char *tok) {
	char *rep = strchr(tok, '/');
	char *y;
	fb_t z, t;
	if (rep) *rep++ = 0;
	if (strcmp(tok, "inf") == 0) { eb_set_infty(p); return; }
	if (strcmp(tok, "inf0p") == 0) { eb_set_infty(p); p->coord = PROJC; return; }
	y = strchr(tok, ',');
	if (!y) { fprintf(stderr, "bad point token %s\n", tok); exit(2); }
	*y++ = 0;
	fb_set_tok(p->x, tok); fb_set_tok(p->y, y); fb_set_dig(p->z, 1); p->coord = BASIC;
	if (!rep) return;
	if (rep[0] == 'P') { p->coord = PROJC; return; }
	fb_null(z); fb_null(t); fb_new(z); fb_new(t);
	if (rep[0] == 'p') {
		fb_set_tok(z, rep + 1);
		fb_mul(p->x, p->x, z); fb_sqr(t, z); fb_mul(p->y, p->y, t); fb_copy(p->z, z); p->coord = PROJC;
	} else if (rep[0] == 'h') {
		if (!fb_is_zero(p->x)) {
			fb_inv(t, p->x); fb_mul(t, t, p->y); fb_add(p->y, t, p->x); p->coord = HALVE;
		}
	} else { fprintf(stderr, "bad representation %s\n", rep); exit(2); }
	fb_free(z); fb_free(t);
}

static void do_eb_size_bin(void) {
	int err; volatile long sz = -1; long pack = atol(vh_tok[3]);
	set_point(P, vh_tok[2]);
	chdr("eb_size_bin");
	vh_eb("P", P); vh_int("pack", pack); MARK();
	CALL(err, sz = (long)eb_size_bin(P, (int)pack));
	vh_int("size", sz);
	fin(err);
}
static void do_eb_write_bin(void) {
	int err; long pack = atol(vh_tok[3]), len = atol(vh_tok[4]); gbuf_t g;
	set_point(P, vh_tok[2]);
	gb_new(&g, (size_t)len);
	chdr("eb_write_bin");
	vh_eb("P", P); vh_int("pack", pack); vh_int("len", len);
	vh_int("size", (long)eb_size_bin(P, (int)pack)); MARK();
	CALL(err, eb_write_bin(g.p, (size_t)len, P, (int)pack));
	gb_log("out", &g);
	fin(err);
	gb_free(&g);
}
static void do_eb_read_bin(void) {
	int err, rerr = 0; size_t len; uint8_t *in = in_bytes(vh_tok[2], &len); gbuf_t g;
	int pack = len > 0 && (in[0] == 2 || in[0] == 3);
	eb_copy(R, G);               /* stale but valid content */
	gb_new(&g, len);
	chdr("eb_read_bin");
	vh_bytes("in", in, len); MARK();
	CALL(err, eb_read_bin(R, in, len));
	vh_eb("R", R);
	if (!err) { VH_TRY(rerr, eb_write_bin(g.p, len, R, pack)); }
	vh_int("rerr", rerr); gb_log("re", &g);
	fin(err);
	gb_free(&g); free(in);
}
/* eb_pck <sel> <point> <alias>: alias 1 = in place (result object = operand) */
static void do_eb_pck(void) {
	int err, al = vh_ntok > 3 ? atoi(vh_tok[3]) : 0;
	eb_st *pr = al ? P : R;
	set_point(P, vh_tok[2]);
	eb_copy(R, G);
	chdr("eb_pck");
	vh_eb("P", P); vh_int("al", al); MARK();
	CALL(err, eb_pck(pr, P));
	vh_eb("R", pr);
	fin(err);
}
/* eb_upk <sel> <x> <bit> <alias>: the compressed object (x, raw y = bit, z = 1) */
static void do_eb_upk(void) {
	int err, al = vh_ntok > 4 ? atoi(vh_tok[4]) : 0; volatile long ret = -1; long bit = atol(vh_tok[3]);
	eb_st *pr = al ? P : R;
	fb_set_tok(P->x, vh_tok[2]);
	fb_zero(P->y); fb_set_bit(P->y, 0, (int)bit);
	fb_set_dig(P->z, 1); P->coord = BASIC;
	eb_copy(R, G);
	chdr("eb_upk");
	vh_eb("P", P); vh_int("bit", bit); vh_int("al", al); MARK();
	CALL(err, ret = eb_upk(pr, P));
	vh_eb("R", pr); vh_int("ret", ret);
	fin(err);
}

/* input discovery for the generator: is the selection accepted, and its parameters */
static void do_probe(void) {
	int ok;
	g_sel[0] = 0;
	ok = vh_ntok > 1 && ensure_sel(vh_tok[1]);
	ev_begin("curve_probe");
	vh_str("sel", vh_ntok > 1 ? vh_tok[1] : "");
	vh_int("ok", ok); vh_int("curve", ok && have_curve);
	if (ok) {
		vh_int("m", (long)RLC_FB_BITS);
		vh_digs("f", fb_poly_get(), FD);
		vh_int("w", (long)sizeof(dig_t)); vh_int("fd", (long)FD); vh_int("fb", (long)RLC_FB_BYTES);
		vh_int("digs", (long)RLC_BN_DIGS);
		if (have_curve) {
			vh_fb("ca", eb_curve_get_a()); vh_fb("cb", eb_curve_get_b());
			vh_eb("G", G);
			eb_curve_get_ord(T); vh_bn("n", T);
			eb_curve_get_cof(T); vh_bn("h", T);
			vh_int("kbl", eb_curve_is_kbltz());
		}
	}
	vh_int("err", 0); vh_int("code", 0);
	ev_end();
}

static int run_case(void) {
	const char *op = vh_tok[0];
	int curve_op;
#define OP(n) (strcmp(op, n) == 0)
	if (OP("curve_probe")) { do_probe(); return 1; }
	if (vh_ntok < 2 || !ensure_sel(vh_tok[1])) {
		ev_begin("BADSEL"); vh_str("sel", vh_ntok > 1 ? vh_tok[1] : ""); ev_end();
		return 1;
	}
	curve_op = (op[0] == 'e');
	if (curve_op && !have_curve) {
		ev_begin("BADSEL"); vh_str("sel", vh_tok[1]); ev_end();
		return 1;
	}
	if (OP("fb_write_bin")) do_fb_write_bin();
	else if (OP("fb_read_bin")) do_fb_read_bin();
	else if (OP("fb_size_str")) do_fb_size_str();
	else if (OP("fb_write_str")) do_fb_write_str();
	else if (OP("fb_read_str")) do_fb_read_str();
	else if (OP("eb_size_bin")) do_eb_size_bin();
	else if (OP("eb_write_bin")) do_eb_write_bin();
	else if (OP("eb_read_bin")) do_eb_read_bin();
	else if (OP("eb_pck")) do_eb_pck();
	else if (OP("eb_upk")) do_eb_upk();
	else return 0;
	return 1;
}

int main(int argc, char **argv) {
	long start, idx = 0;
	FILE *in = vh_open(argc, argv, &start);
	real_out = vh_out;
	cd_install();
	if (core_init() != RLC_OK) return 2;
	bn_null(T); bn_new(T);
	fb_null(FA); fb_null(FC); fb_new(FA); fb_new(FC);
	eb_null(P); eb_null(R); eb_null(G);
	eb_new(P); eb_new(R); eb_new(G);
	while (vh_next(in)) {
		if (idx++ < start) continue;
		vh_case = idx - 1;
		alarm(30);
		if (!run_case()) { fprintf(stderr, "unknown op %s\n", vh_tok[0]); return 2; }
		alarm(0);
	}
	fclose(real_out);
	core_clean();
	return 0;
}
