/*
 * drv_md.c - conformance driver for hashes, HMAC, KDF/MGF, XMD and AES-CBC (C14).
 * Case line (hex tokens, "." = empty):
 *   md_map_sh224|sh256|sh384|sh512|b2s160|b2s256 <msg>
 *   md_hmac <msg> <key>           md_kdf|md_mgf <in> <outlen>
 *   md_xmd_sh224|sh256|sh384|sh512 <msg> <dst> <outlen>
 *   bc_aes_cbc_enc|bc_aes_cbc_dec <key> <iv> <text> <cap>
 *   bc_aes_rt <key> <iv> <pt>         encrypt, then decrypt the library's own output (two events)
 *   bc_aes_craft <key> <iv> <blocks>  build the ciphertext whose CBC decryption is exactly <blocks>
 *                                     (encrypt, drop the pad block) and decrypt it: the last block of
 *                                     <blocks> is then read as padding (one bc_aes_cbc_dec event)
 *   sha224|sha256|sha384|sha512_splits <msg>   digest through Reset/Input/Input/Result for EVERY cut
 *   sha224|sha256|sha384|sha512_stream <msg> <script...>  script: z reset, i<n> input next n bytes
 *                                     of msg (cyclic), f<bits>:<n> FinalBits, r Result
 * Event: {"op","i","md",inputs...,"out":[bytes in order],"err","code","over"} (see MdSpec.tla);
 * bytes are logged as produced (vh_bytes), never through a library encoder.
 */
/* src/md/sha.h: the (non-static) RFC 4634 streaming interface.  It is included FIRST, exactly as
 * src/md/sha384-512.c does: sha_private.h then tests WSIZE before relic_conf.h has defined it and
 * selects USE_32BIT_ONLY, so this driver sees the SHA512Context layout the implementation uses
 * (uint32_t Intermediate_Hash[16], Length[4]); both layouts are handled below. */
#include "sha.h"
#include "vh.h"

#define MAXB (1 << 17)
#define GUARD 64
static uint8_t M[MAXB], K[MAXB], D[MAXB], OUT[MAXB + GUARD], OUT2[MAXB + GUARD];

static void arm(uint8_t *o, size_t n) { memset(o, 0xA5, n + GUARD); }
/* a byte beyond the n permitted ones was written */
static int over(const uint8_t *o, size_t n) {
	size_t i;
	for (i = 0; i < GUARD; i++) if (o[n + i] != 0xA5) return 1;
	return 0;
}
static void fin(int err, int ov) {
	vh_int("err", err);
	vh_int("code", vh_code());
	vh_bool("over", ov);
	vh_end();
}
static void hdr(const char *op) {
	vh_begin(op);
	vh_str("md", MD_METHD);
}

typedef void (*map_f)(uint8_t *, const uint8_t *, size_t);
static void do_map(const char *op, map_f f, size_t dl) {
	int err;
	size_t n = vh_hex2bytes(vh_tok[1], M, MAXB, NULL);
	arm(OUT, dl);
	hdr(op);
	vh_bytes("msg", M, n);
	VH_TRY(err, f(OUT, M, n));
	vh_bytes("out", OUT, dl);
	fin(err, over(OUT, dl));
}

static void do_hmac(void) {
	int err;
	size_t n = vh_hex2bytes(vh_tok[1], M, MAXB, NULL);
	size_t kl = vh_hex2bytes(vh_tok[2], K, MAXB, NULL);
	arm(OUT, RLC_MD_LEN);
	hdr("md_hmac");
	vh_bytes("msg", M, n); vh_bytes("key", K, kl);
	VH_TRY(err, md_hmac(OUT, M, n, K, kl));
	vh_bytes("out", OUT, RLC_MD_LEN);
	fin(err, over(OUT, RLC_MD_LEN));
}

static void do_kdf(const char *op, int mgf) {
	int err;
	size_t n = vh_hex2bytes(vh_tok[1], M, MAXB, NULL);
	size_t ol = (size_t)atol(vh_tok[2]);
	arm(OUT, ol);
	hdr(op);
	vh_bytes("msg", M, n); vh_int("outlen", (long)ol);
	if (mgf) VH_TRY(err, md_mgf(OUT, ol, M, n)); else VH_TRY(err, md_kdf(OUT, ol, M, n));
	vh_bytes("out", OUT, ol);
	fin(err, over(OUT, ol));
}

typedef void (*xmd_f)(uint8_t *, size_t, const uint8_t *, size_t, const uint8_t *, size_t);
static void do_xmd(const char *op, xmd_f f) {
	int err;
	size_t n = vh_hex2bytes(vh_tok[1], M, MAXB, NULL);
	size_t dl = vh_hex2bytes(vh_tok[2], D, MAXB, NULL);
	size_t ol = (size_t)atol(vh_tok[3]);
	arm(OUT, ol);
	hdr(op);
	vh_bytes("msg", M, n); vh_bytes("dst", D, dl); vh_int("outlen", (long)ol);
	VH_TRY(err, f(OUT, ol, M, n, D, dl));
	/* on refusal nothing is promised about the buffer: log it only on success */
	vh_bytes("out", OUT, err ? 0 : ol);
	fin(err, over(OUT, ol));
}

/* ------------------------------------------------------------------ AES-CBC */
static void bc_event(int dec, const uint8_t *key, size_t kl, const uint8_t *iv, const uint8_t *in, size_t n,
		size_t cap, uint8_t *out) {
	int err, ret = -1;
	size_t ol = cap;
	arm(out, cap);
	hdr(dec ? "bc_aes_cbc_dec" : "bc_aes_cbc_enc");
	vh_bytes("key", key, kl); vh_bytes("iv", iv, 16); vh_bytes("msg", in, n); vh_int("cap", (long)cap);
	if (dec) VH_TRY(err, ret = bc_aes_cbc_dec(out, &ol, in, n, key, kl, iv));
	else VH_TRY(err, ret = bc_aes_cbc_enc(out, &ol, in, n, key, kl, iv));
	vh_int("ret", ret);
	vh_int("olen", (long)ol);
	vh_bytes("out", out, (ret == RLC_OK && ol <= cap) ? ol : 0);
	fin(err, over(out, cap));
}

/* the same call with the result written over the input (out == in) */
static void bc_event_inplace(int dec, const uint8_t *key, size_t kl, const uint8_t *iv, const uint8_t *in, size_t n,
		size_t cap, uint8_t *out) {
	static uint8_t saved[MAXB];
	int err, ret = -1;
	size_t ol = cap;
	if (n > cap || n > MAXB) return;
	memcpy(saved, in, n);
	arm(out, cap);
	memcpy(out, saved, n);
	hdr(dec ? "bc_aes_cbc_dec" : "bc_aes_cbc_enc");
	vh_bytes("key", key, kl); vh_bytes("iv", iv, 16); vh_bytes("msg", saved, n); vh_int("cap", (long)cap); vh_int("inplace", 1);
	if (dec) VH_TRY(err, ret = bc_aes_cbc_dec(out, &ol, out, n, key, kl, iv));
	else VH_TRY(err, ret = bc_aes_cbc_enc(out, &ol, out, n, key, kl, iv));
	vh_int("ret", ret);
	vh_int("olen", (long)ol);
	vh_bytes("out", out, (ret == RLC_OK && ol <= cap) ? ol : 0);
	fin(err, over(out, cap));
}

static void do_bc(int which) {
	size_t kl = vh_hex2bytes(vh_tok[1], K, MAXB, NULL);
	uint8_t iv[16];
	size_t n, ol;
	memset(iv, 0, 16);
	vh_hex2bytes(vh_tok[2], iv, 16, NULL);
	n = vh_hex2bytes(vh_tok[3], M, MAXB - 64, NULL);
	switch (which) {
		case 0: bc_event(0, K, kl, iv, M, n, (size_t)atol(vh_tok[4]), OUT); break;
		case 1: bc_event(1, K, kl, iv, M, n, (size_t)atol(vh_tok[4]), OUT); break;
		case 2: /* round trip through the library's own ciphertext */
			bc_event(0, K, kl, iv, M, n, n + 32, OUT);
			ol = n + 32;
			memset(OUT2, 0, n + 32);
			if (bc_aes_cbc_enc(OUT2, &ol, M, n, K, kl, iv) != RLC_OK) ol = 0;
			(void)vh_code();
			memcpy(M, OUT2, ol);
			bc_event(1, K, kl, iv, M, ol, ol + 16, OUT);
			bc_event_inplace(1, K, kl, iv, M, ol, ol + 16, OUT);
			break;
		case 3: /* crafted final block */
			ol = n + 32;
			memset(OUT2, 0, n + 32);
			if (bc_aes_cbc_enc(OUT2, &ol, M, n, K, kl, iv) != RLC_OK || ol < 16) ol = 16;
			(void)vh_code();
			ol -= 16;
			memcpy(M, OUT2, ol);
			bc_event(1, K, kl, iv, M, ol, ol + 16, OUT);
			break;
	}
}

/* ------------------------------------------------- SHA-2 streaming interface */
/* the chaining value as big-endian bytes, whatever the word type of Intermediate_Hash */
#define IH_BYTES(c, ih, total) do {                                                              \
	size_t _w = sizeof((c)->Intermediate_Hash[0]), _i, _j;                                         \
	for (_i = 0; _i < (total) / _w; _i++) for (_j = 0; _j < _w; _j++)                              \
		(ih)[_i * _w + _j] = (uint8_t)((c)->Intermediate_Hash[_i] >> (8 * (_w - 1 - _j)));         \
} while (0)
#define LEN256_LO(c) ((unsigned long)(c)->Length_Low)
#define LEN256_HI(c) ((unsigned long)(c)->Length_High)
#ifdef USE_32BIT_ONLY
#define LEN512_LO(c) (((unsigned long)(c)->Length[2] << 32) | (c)->Length[3])
#define LEN512_HI(c) (((unsigned long)(c)->Length[0] << 32) | (c)->Length[1])
#else
#define LEN512_LO(c) ((unsigned long)(c)->Length_Low)
#define LEN512_HI(c) ((unsigned long)(c)->Length_High)
#endif

#define STREAM(NAME, CTX, RESET, INPUT, FINAL, RESULT, HSZ, IHSZ, LO, HI)                           \
static void ctx_##NAME(const CTX *c, int ret) {                                                  \
	uint8_t ih[64];                                                                                 \
	IH_BYTES(c, ih, IHSZ);                                                                          \
	fprintf(vh_out, ",\"ret\":%d,\"idx\":%d,\"lo\":%lu,\"hi\":%lu,\"comp\":%d,\"corr\":%d,\"ih\":", ret,   \
		(int)c->Message_Block_Index, LO(c), HI(c), c->Computed, c->Corrupted);                      \
	vh_bytes_raw(ih, IHSZ);                                                                         \
}                                                                                                \
static void splits_##NAME(const char *op) {                                                      \
	size_t n = vh_hex2bytes(vh_tok[1], M, MAXB, NULL), k; int bad = 0;                             \
	CTX c;                                                                                          \
	hdr(op); vh_bytes("msg", M, n);                                                                 \
	fputs(",\"outs\":[", vh_out);                                                                   \
	for (k = 0; k <= n; k++) {                                                                      \
		memset(OUT, 0, HSZ);                                                                        \
		bad += RESET(&c) != shaSuccess;                                                             \
		bad += INPUT(&c, M, (unsigned)k) != shaSuccess;                                             \
		bad += INPUT(&c, M + k, (unsigned)(n - k)) != shaSuccess;                                   \
		bad += RESULT(&c, OUT) != shaSuccess;                                                       \
		if (k) fputc(',', vh_out);                                                                  \
		vh_bytes_raw(OUT, HSZ);                                                                     \
	}                                                                                               \
	fputc(']', vh_out);                                                                             \
	vh_int("bad", bad);                                                                             \
	fin(0, 0);                                                                                      \
}                                                                                                \
static void stream_##NAME(const char *op) {                                                      \
	size_t n = vh_hex2bytes(vh_tok[1], M, MAXB, NULL), pos = 0, i; int t, ret, first = 1;          \
	CTX c;                                                                                          \
	memset(&c, 0, sizeof(c));                                                                       \
	hdr(op); vh_bytes("msg", M, n);                                                                 \
	fputs(",\"calls\":[", vh_out);                                                                  \
	for (t = 2; t < vh_ntok; t++) {                                                                 \
		const char *s = vh_tok[t];                                                                  \
		size_t dl = 0; int bits = 0, nb = 0, ol = 0;                                                \
		if (!first) fputc(',', vh_out);                                                             \
		first = 0;                                                                                  \
		if (s[0] == 'z') ret = RESET(&c);                                                           \
		else if (s[0] == 'i') {                                                                     \
			dl = (size_t)atol(s + 1);                                                               \
			for (i = 0; i < dl; i++) D[i] = n ? M[(pos + i) % n] : 0xEE;                            \
			pos += dl;                                                                              \
			ret = INPUT(&c, D, (unsigned)dl);                                                       \
		} else if (s[0] == 'f') {                                                                   \
			bits = atoi(s + 1); nb = atoi(strchr(s, ':') + 1);                                      \
			ret = FINAL(&c, (uint8_t)bits, (unsigned)nb);                                           \
		} else {                                                                                    \
			memset(OUT, 0, HSZ);                                                                    \
			ret = RESULT(&c, OUT); ol = HSZ;                                                        \
		}                                                                                           \
		fprintf(vh_out, "{\"k\":\"%c\",\"bits\":%d,\"n\":%d,\"d\":", s[0], bits, nb);              \
		vh_bytes_raw(D, dl);                                                                        \
		fputs(",\"out\":", vh_out);                                                                 \
		vh_bytes_raw(OUT, (size_t)ol);                                                              \
		ctx_##NAME(&c, ret);                                                                        \
		fputc('}', vh_out);                                                                         \
	}                                                                                               \
	fputc(']', vh_out);                                                                             \
	fin(0, 0);                                                                                      \
}

STREAM(sha224, SHA224Context, SHA224Reset, SHA224Input, SHA224FinalBits, SHA224Result, SHA224HashSize, 32, LEN256_LO, LEN256_HI)
STREAM(sha256, SHA256Context, SHA256Reset, SHA256Input, SHA256FinalBits, SHA256Result, SHA256HashSize, 32, LEN256_LO, LEN256_HI)
STREAM(sha384, SHA384Context, SHA384Reset, SHA384Input, SHA384FinalBits, SHA384Result, SHA384HashSize, 64, LEN512_LO, LEN512_HI)
STREAM(sha512, SHA512Context, SHA512Reset, SHA512Input, SHA512FinalBits, SHA512Result, SHA512HashSize, 64, LEN512_LO, LEN512_HI)

static void run_case(void) {
	const char *op = vh_tok[0];
	if (!strcmp(op, "md_map_sh224")) do_map(op, md_map_sh224, RLC_MD_LEN_SH224);
	else if (!strcmp(op, "md_map_sh256")) do_map(op, md_map_sh256, RLC_MD_LEN_SH256);
	else if (!strcmp(op, "md_map_sh384")) do_map(op, md_map_sh384, RLC_MD_LEN_SH384);
	else if (!strcmp(op, "md_map_sh512")) do_map(op, md_map_sh512, RLC_MD_LEN_SH512);
	else if (!strcmp(op, "md_map_b2s160")) do_map(op, md_map_b2s160, RLC_MD_LEN_B2S160);
	else if (!strcmp(op, "md_map_b2s256")) do_map(op, md_map_b2s256, RLC_MD_LEN_B2S256);
	else if (!strcmp(op, "md_hmac")) do_hmac();
	else if (!strcmp(op, "md_kdf")) do_kdf(op, 0);
	else if (!strcmp(op, "md_mgf")) do_kdf(op, 1);
	else if (!strcmp(op, "md_xmd_sh224")) do_xmd(op, md_xmd_sh224);
	else if (!strcmp(op, "md_xmd_sh256")) do_xmd(op, md_xmd_sh256);
	else if (!strcmp(op, "md_xmd_sh384")) do_xmd(op, md_xmd_sh384);
	else if (!strcmp(op, "md_xmd_sh512")) do_xmd(op, md_xmd_sh512);
	else if (!strcmp(op, "bc_aes_cbc_enc")) do_bc(0);
	else if (!strcmp(op, "bc_aes_cbc_dec")) do_bc(1);
	else if (!strcmp(op, "bc_aes_rt")) do_bc(2);
	else if (!strcmp(op, "bc_aes_craft")) do_bc(3);
	else if (!strcmp(op, "sha224_splits")) splits_sha224(op);
	else if (!strcmp(op, "sha256_splits")) splits_sha256(op);
	else if (!strcmp(op, "sha384_splits")) splits_sha384(op);
	else if (!strcmp(op, "sha512_splits")) splits_sha512(op);
	else if (!strcmp(op, "sha224_stream")) stream_sha224(op);
	else if (!strcmp(op, "sha256_stream")) stream_sha256(op);
	else if (!strcmp(op, "sha384_stream")) stream_sha384(op);
	else if (!strcmp(op, "sha512_stream")) stream_sha512(op);
	else { vh_begin("UNKNOWN"); vh_str("name", op); vh_end(); }
}

int main(int argc, char **argv) {
	long start, idx = 0;
	FILE *in = vh_open(argc, argv, &start);
	if (core_init() != RLC_OK) { fprintf(stderr, "core_init failed\n"); return 2; }
	while (vh_next(in)) {
		if (idx >= start) {
			vh_case = idx;
			alarm(60);
			run_case();
			alarm(0);
			fflush(vh_out);
		}
		idx++;
	}
	fclose(vh_out);
	core_clean();
	return 0;
}
