/*
 * drv_tau.c - conformance driver for the tau-adic scalar recodings and the
 * signed aligned column recoding of src/bn/relic_bn_rec.c (C09, extension).
 * Same family as drv_bnt.c.
 * Case lines:
 *   bn_rec_tnaf_get u w
 *   bn_rec_tnaf_mod k u m
 *   bn_rec_tnaf     k u m w cap
 *   bn_rec_rtnaf    k u m w cap
 *   bn_rec_sac      cap c n cof x k_1 ... k_ms     (x: the curve parameter "u" of the contract)
 * Event: {"op","i","w", inputs..., outputs..., "err","code","unch"}; inputs are read back from the
 * objects before the call (raw projection), outputs after it; digits are JSON int arrays.
 * The recoding buffer lies in front of an inaccessible guard page and is filled with a
 * sentinel: a write beyond the capacity passed in *len is observed ("ovf"), a runaway
 * write faults at once (CRASH event).
 */
#include "vh.h"
#include <sys/mman.h>

#define MAXS 8
static bn_t A, A0, R0, R1, X, X0;
static bn_t KS[MAXS], KS0[MAXS];

static const char *cur_op = "-";
static void tau_fatal(int sig) {
	char buf[200];
	int n = snprintf(buf, sizeof(buf), "\n{\"op\":\"%s\",\"i\":%ld,\"sig\":%d,\"in\":\"%s\"}\n",
			sig == SIGALRM ? "TIMEOUT" : "CRASH", (long)vh_case, sig, cur_op);
	if (vh_out) fflush(vh_out);
	if (vh_outfd >= 0) { if (write(vh_outfd, buf, n) < 0) {} }
	_exit(sig == SIGALRM ? 3 : 4);
}

static void hdr(const char *op) {
	cur_op = op;
	vh_begin(op);
	vh_int("w", (long)sizeof(dig_t));
}
static void fin(int err, int unch) {
	vh_int("err", err);
	vh_int("code", vh_code());
	vh_bool("unch", unch);
	vh_end();
}
static void i8_arr(const char *k, const int8_t *v, long n) {
	long i;
	fprintf(vh_out, ",\"%s\":[", k);
	for (i = 0; i < n; i++) { if (i) fputc(',', vh_out); fprintf(vh_out, "%d", (int)v[i]); }
	fputc(']', vh_out);
}

/* recoding buffer: REC_SZ usable bytes followed by a PROT_NONE page */
#define REC_SZ 16384
#define SENT 0x55
static uint8_t *rec;
static void rec_init(void) {
	long pg = sysconf(_SC_PAGESIZE);
	uint8_t *p = mmap(NULL, REC_SZ + pg, PROT_READ | PROT_WRITE, MAP_PRIVATE | MAP_ANONYMOUS, -1, 0);
	if (p == MAP_FAILED) { perror("mmap"); exit(2); }
	mprotect(p + REC_SZ, pg, PROT_NONE);
	rec = p;
}
static void rec_fill(void) { memset(rec, SENT, REC_SZ); }
static int rec_ovf(long from) {
	long i;
	if (from < 0) from = 0;
	for (i = from; i < REC_SZ; i++) if (rec[i] != SENT) return 1;
	return 0;
}

/* bn_rec_tnaf_get u w : the tables are 64 entries each in every caller */
static void do_get(const char *op) {
	int err = 0;
	long u = atol(vh_tok[1]), w = atol(vh_tok[2]), n = (w >= 2 && w <= 8) ? (1L << (w - 2)) : 0, i;
	int8_t *beta = (int8_t *)rec, *gama = (int8_t *)rec + 64;
	uint8_t *t = rec + 128;
	int ovf = 0;
	rec_fill();
	hdr(op);
	vh_int("u", u); vh_int("rw", w);
	VH_TRY(err, bn_rec_tnaf_get(t, beta, gama, (int8_t)u, (size_t)w));
	vh_int("t", (long)*t);
	i8_arr("beta", beta, n);
	i8_arr("gama", gama, n);
	/* nothing but the first 2^(w-2) entries of each table and t may have been written */
	for (i = n; i < 64; i++) if (rec[i] != SENT || rec[64 + i] != SENT) ovf = 1;
	if (rec_ovf(129)) ovf = 1;
	vh_bool("ovf", ovf);
	fin(err, 1);
}

/* bn_rec_tnaf_mod k u m */
static void do_mod(const char *op) {
	int err = 0;
	long u = atol(vh_tok[2]), m = atol(vh_tok[3]);
	vh_bn_set(A, vh_tok[1]);
	bn_copy(A0, A);
	bn_zero(R0); bn_zero(R1);
	hdr(op);
	vh_bn("k", A); vh_int("u", u); vh_int("m", m);
	VH_TRY(err, bn_rec_tnaf_mod(R0, R1, A, (int)u, (size_t)m));
	vh_bn("c", R0); vh_bn("d", R1);
	fin(err, vh_bn_same(A, A0));
}

/* bn_rec_tnaf|bn_rec_rtnaf k u m w cap */
static void do_tnaf(const char *op, int regular) {
	int err = 0;
	long u = atol(vh_tok[2]), m = atol(vh_tok[3]), w = atol(vh_tok[4]), cap = atol(vh_tok[5]);
	size_t len;
	vh_bn_set(A, vh_tok[1]);
	bn_copy(A0, A);
	if (cap > REC_SZ - 64) cap = REC_SZ - 64;
	len = (size_t)cap;
	rec_fill();
	hdr(op);
	vh_bn("k", A); vh_int("u", u); vh_int("m", m); vh_int("rw", w); vh_int("rcap", cap);
	if (regular) {
		VH_TRY(err, bn_rec_rtnaf((int8_t *)rec, &len, A, (int8_t)u, (size_t)m, (size_t)w));
	} else {
		VH_TRY(err, bn_rec_tnaf((int8_t *)rec, &len, A, (int8_t)u, (size_t)m, (size_t)w));
	}
	vh_int("len", (long)len);
	if ((long)len > cap) len = (size_t)cap;
	if (err) len = 0;
	i8_arr("ds", (int8_t *)rec, (long)len);
	vh_bool("ovf", rec_ovf(cap));
	fin(err, vh_bn_same(A, A0));
}

/* bn_rec_sac cap c n cof x k_1 ... k_ms : the capacity is per row (callers pass the row length of an ms-row buffer) */
static void do_sac(const char *op) {
	int err = 0, unch = 1;
	long cap = atol(vh_tok[1]), c = atol(vh_tok[2]), n = atol(vh_tok[3]), cof = atol(vh_tok[4]);
	long ms = vh_ntok - 6, j;
	size_t len;
	if (ms < 1 || ms > MAXS) { fprintf(stderr, "bn_rec_sac: bad number of sub-scalars\n"); exit(2); }
	if (cap * ms > REC_SZ - 64) cap = (REC_SZ - 64) / ms;
	vh_bn_set(X, vh_tok[5]);
	bn_copy(X0, X);
	for (j = 0; j < ms; j++) { vh_bn_set(KS[j], vh_tok[6 + j]); bn_copy(KS0[j], KS[j]); }
	len = (size_t)cap;
	rec_fill();
	hdr(op);
	vh_int("rcap", cap); vh_int("c", c); vh_int("ms", ms); vh_int("n", n); vh_int("cof", cof);
	vh_bn("x", X);
	fprintf(vh_out, ",\"ks\":[");
	for (j = 0; j < ms; j++) { if (j) fputc(',', vh_out); vh_bn_raw(KS[j]); }
	fputc(']', vh_out);
	VH_TRY(err, bn_rec_sac((int8_t *)rec, &len, (const bn_t *)KS, X, (size_t)c, (size_t)ms, (size_t)n, (int)cof));
	vh_int("len", (long)len);
	fprintf(vh_out, ",\"rows\":[");
	for (j = 0; j < ms; j++) {
		long l = (err || (long)len > cap) ? 0 : (long)len, i;
		if (j) fputc(',', vh_out);
		fputc('[', vh_out);
		for (i = 0; i < l; i++) { if (i) fputc(',', vh_out); fprintf(vh_out, "%d", (int)((int8_t *)rec)[j * l + i]); }
		fputc(']', vh_out);
	}
	fputc(']', vh_out);
	vh_bool("ovf", rec_ovf(cap * ms));
	if (!vh_bn_same(X, X0)) unch = 0;
	for (j = 0; j < ms; j++) if (!vh_bn_same(KS[j], KS0[j])) unch = 0;
	fin(err, unch);
}

static int run_case(void) {
	const char *op = vh_tok[0];
#define OP(n) (strcmp(op, n) == 0)
	if (OP("bn_rec_tnaf_get")) do_get(op);
	else if (OP("bn_rec_tnaf_mod")) do_mod(op);
	else if (OP("bn_rec_tnaf")) do_tnaf(op, 0);
	else if (OP("bn_rec_rtnaf")) do_tnaf(op, 1);
	else if (OP("bn_rec_sac")) do_sac(op);
	else return 0;
	return 1;
}

int main(int argc, char **argv) {
	long start, idx = 0;
	int i;
	FILE *in = vh_open(argc, argv, &start);
	signal(SIGSEGV, tau_fatal); signal(SIGBUS, tau_fatal); signal(SIGFPE, tau_fatal);
	signal(SIGABRT, tau_fatal); signal(SIGILL, tau_fatal); signal(SIGALRM, tau_fatal);
	if (core_init() != RLC_OK) return 2;
	rec_init();
	bn_new(A); bn_new(A0); bn_new(R0); bn_new(R1); bn_new(X); bn_new(X0);
	for (i = 0; i < MAXS; i++) { bn_new(KS[i]); bn_new(KS0[i]); }
	while (vh_next(in)) {
		if (idx++ < start) continue;
		vh_case = idx - 1;
		cur_op = vh_tok[0];
		fflush(vh_out);
		alarm(5);
		if (!run_case()) { fprintf(stderr, "unknown op %s\n", vh_tok[0]); return 2; }
		alarm(0);
	}
	fclose(vh_out);
	core_clean();
	return 0;
}
