/*
 * drv_fb.c - conformance driver for binary fields and binary curves (C16).
 *
 * Case line:  <sel> <op> <alias> <args...>
 *   sel   E<id>                      eb_param_set(id) (installs the field polynomial and the curve)
 *         F<id>                      fb_param_set(id) (field only)
 *         T<a> | Q<a>,<b>,<c>        fb_poly_set_trino(a) | fb_poly_set_penta(a,b,c) (field only; tiny worlds)
 *         C<T..|Q..>:<a>:<b>:<gx>:<gy>:<r>:<h>   field polynomial as above + eb_curve_set (hex VALUES)
 *         the selection is redone only when sel changes, so every line can be replayed alone.
 *   field element  <hex> (raw digits = the polynomial)
 *   point   inf                       identity (library form)
 *           m<k>[/<rep>]              [k]G (INPUT construction with eb_mul_basic + eb_norm; the spec reads the raw
 *                                     result back and requires it to be on the curve)
 *           s<k>[/<rep>]              [k]G + T, T = (0, sqrt b) the point of order two (eb_add_basic; idem)
 *           xy<x>,<y>[/<rep>]         affine VALUES as given (may be off the curve)
 *           rep:  P (retag PROJC, z = 1)   p<z> (x*z, y*z^2, z; PROJC = Lopez-Dahab)
 *                 h (lambda form (x, x + y/x, 1) tagged HALVE)
 *   scalar  hex with optional '-'
 *
 * Event: {"op","i","m","f","w","fd","al", inputs before (raw), outputs after (raw), "ret","crash","err","code","unch"}
 *   field events:  a, b, c raw digit vectors (LE bytes); t double-length input; e bn; dg digit; as/cs lists;
 *                  A, B, C pairs [a0, a1] for the quadratic extension
 *   curve events:  ca, cb, n, h, kbl, opta, optb, add, wd, dep, dgb + P, Q, R points {x,y,z,c}, k, m scalars
 */
#include "vh.h"
#include <setjmp.h>
#include <sys/wait.h>
#ifdef VH_FBX
#include <relic_fbx.h>
#endif

#define FD ((int)RLC_FB_DIGS)

static fb_t A, B, C, A0, B0, X[8], Y[8], X0[8];
#ifdef VH_FBX
static fb2_t A2, B2, C2, A20, B20;
#endif
static bn_t E, E0;
static dv_t T;
static eb_t P, Q, R, P0, Q0, G, T2;
static bn_t K, M, K0, M0, N, H;
static eb_t TAB[RLC_EB_TABLE_MAX];
static fb_st ITAB[RLC_FB_TABLE_QUICK];
static int have_curve = 0;

/* ------------------------------------------------------------ event buffering (as drv_ep.c) */
static FILE *real_out;
static char *mbuf;
static size_t mlen, safe_len;
static volatile int in_event;
static int fork_mode = 1, is_child = 0, risky = 0;

static void ev_begin(const char *op) {
	mbuf = NULL; mlen = 0; safe_len = 0;
	vh_out = open_memstream(&mbuf, &mlen);
	if (!vh_out) { perror("open_memstream"); exit(2); }
	in_event = 1;
	vh_begin(op);
}
static void ev_end(void) {
	vh_end();
	fclose(vh_out);
	in_event = 0;
	fwrite(mbuf, 1, mlen, real_out);
	fflush(real_out);
	free(mbuf);
	vh_out = real_out;
	if (is_child) _exit(0);
}
/* The inputs are complete (MARK): the call itself runs in a forked child, which finishes the event
 * and exits; the parent waits.  If the child dies (fatal signal, watchdog) the parent - whose memory
 * the faulty call could not touch - publishes the inputs as an event of the SAME op with
 * "crash":<signal> (the spec judges it: never accepted) and goes on with the next case.
 * A fifth argument "nofork" forks only for a few routines; VH_NOFORK=1 runs everything in one process (then a crash ends the process: see fb_fatal). */
static char safe_buf[1 << 20];
static jmp_buf case_jmp;
static void fork_point(void) {
	pid_t pid;
	int st = 0, sig;
	char buf[128];
	fflush(real_out);
	pid = fork();
	if (pid < 0) { perror("fork"); exit(2); }
	if (pid == 0) {
		is_child = 1;
		signal(SIGSEGV, SIG_DFL); signal(SIGBUS, SIG_DFL); signal(SIGFPE, SIG_DFL);
		signal(SIGABRT, SIG_DFL); signal(SIGILL, SIG_DFL); signal(SIGALRM, SIG_DFL);
		alarm(60);
		return;
	}
	while (waitpid(pid, &st, 0) < 0) {}
	if (!(WIFEXITED(st) && WEXITSTATUS(st) == 0)) {
		sig = WIFSIGNALED(st) ? WTERMSIG(st) : 99;
		fwrite(mbuf, 1, mlen, real_out);
		snprintf(buf, sizeof(buf), ",\"crash\":%d,\"err\":0,\"code\":0,\"unch\":false}\n", sig);
		fputs(buf, real_out);
		fflush(real_out);
	}
	fclose(vh_out);
	free(mbuf);
	vh_out = real_out;
	in_event = 0;
	longjmp(case_jmp, 1);
}
#define MARK() do { fflush(vh_out); safe_len = mlen < sizeof(safe_buf) ? mlen : 0; memcpy(safe_buf, mbuf, safe_len); \
	if (fork_mode == 1 || (fork_mode == 2 && risky)) fork_point(); } while (0)

static void fb_fatal(int sig) {
	char buf[200];
	int n;
	const char *what = (sig == SIGALRM) ? "TIMEOUT" : "CRASH";
	if (in_event && safe_len > 0) {
		if (write(vh_outfd, safe_buf, safe_len) < 0) {}
		n = snprintf(buf, sizeof(buf), ",\"crash\":%d,\"err\":0,\"code\":0,\"unch\":false}\n", sig);
		if (write(vh_outfd, buf, n) < 0) {}
		what = "restart";
	}
	n = snprintf(buf, sizeof(buf), "{\"op\":\"%s\",\"i\":%ld,\"sig\":%d}\n", what, (long)vh_case, sig);
	if (write(vh_outfd, buf, n) < 0) {}
	_exit(sig == SIGALRM ? 3 : 4);
}
static void fb_install(void) {
	static char altstack[1 << 16];
	stack_t ss;
	struct sigaction sa;
	int sigs[] = { SIGSEGV, SIGBUS, SIGFPE, SIGABRT, SIGILL, SIGALRM }, i;
	ss.ss_sp = altstack; ss.ss_size = sizeof(altstack); ss.ss_flags = 0;
	sigaltstack(&ss, NULL);
	memset(&sa, 0, sizeof(sa));
	sa.sa_handler = fb_fatal;
	sa.sa_flags = SA_ONSTACK | SA_NODEFER | SA_RESETHAND;   /* a second fault (inside the handler) ends the process */
	for (i = 0; i < 6; i++) sigaction(sigs[i], &sa, NULL);
	return;
	signal(SIGSEGV, fb_fatal); signal(SIGBUS, fb_fatal); signal(SIGFPE, fb_fatal);
	signal(SIGABRT, fb_fatal); signal(SIGILL, fb_fatal); signal(SIGALRM, fb_fatal);
}

/* RAND=CALL builds (tiny worlds, eb_mul_lodah blinds with random field elements): non-zero bytes */
#if RAND == CALL
static uint32_t vh_rs = 12345;
static void vh_rand_cb(uint8_t *buf, size_t size, void *arg) {
	size_t i;
	(void)arg;
	for (i = 0; i < size; i++) {
		vh_rs = vh_rs * 1103515245u + 12345u;
		buf[i] = (uint8_t)(1 + ((vh_rs >> 16) % 100));
	}
}
#endif

/* ------------------------------------------------------------ values */
static void fb_set_tok(fb_t a, const char *tok) {
	static uint8_t buf[4096];
	size_t n = vh_hex2bytes(tok, buf, sizeof(buf), NULL), i;
	fb_zero(a);
	if (n > sizeof(dig_t) * FD) {
		size_t extra = n - sizeof(dig_t) * FD;
		for (i = 0; i < extra; i++) if (buf[i]) { fprintf(stderr, "case %ld: element %s too long\n", (long)vh_case, tok); exit(2); }
		memmove(buf, buf + extra, n - extra);
		n -= extra;
	}
	for (i = 0; i < n; i++) a[i / sizeof(dig_t)] |= (dig_t)buf[n - 1 - i] << (8 * (i % sizeof(dig_t)));
}
static void vh_fb(const char *k, const fb_t a) { vh_digs(k, a, FD); }
static int same(const fb_t a, const fb_t b) { return memcmp(a, b, sizeof(dig_t) * FD) == 0; }
static void stale(fb_t c) { int i; for (i = 0; i < FD; i++) c[i] = (dig_t)0x5a5a5a5a5a5a5a5aULL; }

static void vh_eb_raw(const eb_t p) {
	fputs("{\"x\":", vh_out); vh_digs_raw(p->x, FD);
	fputs(",\"y\":", vh_out); vh_digs_raw(p->y, FD);
	fputs(",\"z\":", vh_out); vh_digs_raw(p->z, FD);
	fprintf(vh_out, ",\"c\":%d}", p->coord);
}
static void vh_eb(const char *k, const eb_t p) { fprintf(vh_out, ",\"%s\":", k); vh_eb_raw(p); }
static int eb_same(const eb_t a, const eb_t b) {
	return same(a->x, b->x) && same(a->y, b->y) && same(a->z, b->z) && a->coord == b->coord;
}

/* ------------------------------------------------------------ selection */
static char g_sel[8192] = "";
static int g_ok = 0;

static int set_poly(const char *s) {
	int err = 0, code, a, b, c;
	if (s[0] == 'T') {
		a = atoi(s + 1);
		VH_TRY(err, fb_poly_set_trino(a));
	} else if (s[0] == 'Q') {
		if (sscanf(s + 1, "%d,%d,%d", &a, &b, &c) != 3) return 0;
		VH_TRY(err, fb_poly_set_penta(a, b, c));
	} else return 0;
	code = vh_code();
	return err == 0 && code == 0;
}

static int set_tiny_curve(char *spec) {
	/* <poly>:a:b:gx:gy:r:h */
	char *f[8];
	int nf = 0, err = 0, code;
	char *s = spec;
	fb_t a, b;
	eb_t g;
	bn_t r, h;
	while (nf < 8) { f[nf++] = s; s = strchr(s, ':'); if (!s) break; *s++ = 0; }
	if (nf != 7) return 0;
	if (!set_poly(f[0])) return 0;
	fb_null(a); fb_null(b); eb_null(g); bn_null(r); bn_null(h);
	fb_new(a); fb_new(b); eb_new(g); bn_new(r); bn_new(h);
	fb_set_tok(a, f[1]); fb_set_tok(b, f[2]);
	fb_set_tok(g->x, f[3]); fb_set_tok(g->y, f[4]); fb_set_dig(g->z, 1); g->coord = BASIC;
	vh_bn_set(r, f[5]); vh_bn_set(h, f[6]);
	VH_TRY(err, eb_curve_set(a, b, g, r, h));
	code = vh_code();
	return err == 0 && code == 0;
}

static int ensure_sel(const char *sel) {
	int err = 0, code;
	if (strcmp(sel, g_sel) == 0) return g_ok;
	if (strlen(sel) >= sizeof(g_sel)) return 0;
	strcpy(g_sel, sel);
	g_ok = 0; have_curve = 0;
	if (sel[0] == 'E') {
		VH_TRY(err, eb_param_set(atoi(sel + 1)));
		code = vh_code();
		g_ok = have_curve = (err == 0 && code == 0);
	} else if (sel[0] == 'F') {
		VH_TRY(err, fb_param_set(atoi(sel + 1)));
		code = vh_code();
		g_ok = (err == 0 && code == 0);
	} else if (sel[0] == 'T' || sel[0] == 'Q') {
		g_ok = set_poly(sel);
	} else if (sel[0] == 'C') {
		static char tmp[8192];
		strcpy(tmp, sel + 1);
		g_ok = have_curve = set_tiny_curve(tmp);
	}
	if (have_curve) {
		eb_curve_get_gen(G);
		eb_curve_get_ord(N);
		eb_curve_get_cof(H);
		/* T = (0, sqrt b): input construction only (the spec checks that it lies on the curve) */
		fb_zero(T2->x); fb_srt(T2->y, eb_curve_get_b()); fb_set_dig(T2->z, 1); T2->coord = BASIC;
	}
	return g_ok;
}

/* ------------------------------------------------------------ headers */
static void fhdr(const char *op, int al) {
	int a, b, c;
	ev_begin(op);
	vh_int("m", (long)RLC_FB_BITS);
	vh_digs("f", fb_poly_get(), FD);
	vh_int("w", (long)sizeof(dig_t));
	vh_int("fd", (long)FD);
	fb_poly_get_rdc(&a, &b, &c);
	vh_int("pa", a); vh_int("pb", b); vh_int("pc", c);
	vh_int("al", al);
}
static void chdr(const char *op, int al) {
	fhdr(op, al);
	vh_fb("ca", eb_curve_get_a());
	vh_fb("cb", eb_curve_get_b());
	vh_bn("n", N);
	vh_bn("h", H);
	vh_int("kbl", eb_curve_is_kbltz());
	vh_int("add", (long)EB_ADD);
	vh_int("wd", (long)RLC_WIDTH);
	vh_int("dep", (long)RLC_DEPTH);
	vh_int("dgb", (long)RLC_DIG);
}
static void fin(int err, int unch) {
	vh_int("crash", 0);
	vh_int("err", err);
	vh_int("code", vh_code());
	vh_bool("unch", unch);
	ev_end();
}

/* ============================================================ field operations */
typedef void (*bin_f)(fb_t, const fb_t, const fb_t);
typedef void (*un_f)(fb_t, const fb_t);
typedef dig_t (*trc_f)(const fb_t);
typedef void (*exp_f)(fb_t, const fb_t, const bn_t);
typedef void (*rdc_f)(fb_t, dv_t);

static void w_mul(fb_t c, const fb_t a, const fb_t b) { fb_mul(c, a, b); }
static void w_sqr(fb_t c, const fb_t a) { fb_sqr(c, a); }
static void w_inv(fb_t c, const fb_t a) { fb_inv(c, a); }
static void w_srt(fb_t c, const fb_t a) { fb_srt(c, a); }
static void w_slv(fb_t c, const fb_t a) { fb_slv(c, a); }
static dig_t w_trc(const fb_t a) { return fb_trc(a); }
static void w_exp(fb_t c, const fb_t a, const bn_t b) { fb_exp(c, a, b); }
static void w_rdc(fb_t c, dv_t a) { fb_rdc(c, a); }

/* c = a op b; alias 0 none, 1 c==a, 2 c==b, 3 a==b, 4 c==a==b */
static void do_bin(const char *op, bin_f f, int al) {
	int err, unch = 1;
	dig_t *pa = A, *pb = B, *pc = C;
	fb_set_tok(A, vh_tok[2]);
	fb_set_tok(B, vh_tok[3]);
	if (al == 3 || al == 4) pb = pa;
	if (al == 1 || al == 4) pc = pa;
	if (al == 2) pc = pb;
	fb_copy(A0, A); fb_copy(B0, B);
	stale(C);
	fhdr(op, al);
	vh_fb("a", pa); vh_fb("b", pb);
	MARK();
	VH_TRY(err, f(pc, pa, pb));
	vh_fb("c", pc);
	if (pc != pa) unch &= same(A, A0);
	if (pc != pb && pb != pa) unch &= same(B, B0);
	fin(err, unch);
}

static void do_un(const char *op, un_f f, int al) {
	int err, unch = 1;
	dig_t *pa = A, *pc = C;
	fb_set_tok(A, vh_tok[2]);
	if (al == 1) pc = pa;
	fb_copy(A0, A);
	stale(C);
	fhdr(op, al);
	vh_fb("a", pa);
	MARK();
	VH_TRY(err, f(pc, pa));
	vh_fb("c", pc);
	if (pc != pa) unch &= same(A, A0);
	fin(err, unch);
}

static void do_trc(const char *op, trc_f f) {
	int err;
	volatile long ret = -99;
	fb_set_tok(A, vh_tok[2]);
	fb_copy(A0, A);
	fhdr(op, 0);
	vh_fb("a", A);
	MARK();
	VH_TRY(err, ret = (long)f(A));
	vh_int("ret", ret);
	fin(err, same(A, A0));
}

/* which: 0 fb_add_dig, 1 fb_mul_dig */
static void do_dig(const char *op, int which, int al) {
	int err, unch = 1;
	dig_t d = vh_dig_tok(vh_tok[3]);
	dig_t *pa = A, *pc = C;
	fb_set_tok(A, vh_tok[2]);
	if (al == 1) pc = pa;
	fb_copy(A0, A);
	stale(C);
	fhdr(op, al);
	vh_fb("a", pa); vh_dig("dg", d);
	MARK();
	if (which == 0) VH_TRY(err, fb_add_dig(pc, pa, d)); else VH_TRY(err, fb_mul_dig(pc, pa, d));
	vh_fb("c", pc);
	if (pc != pa) unch &= same(A, A0);
	fin(err, unch);
}

static void do_cmp(const char *op, int al) {
	int err;
	volatile long ret = -99;
	dig_t *pa = A, *pb = B;
	fb_set_tok(A, vh_tok[2]);
	fb_set_tok(B, vh_tok[3]);
	if (al == 3) pb = pa;
	fb_copy(A0, A); fb_copy(B0, B);
	fhdr(op, al);
	vh_fb("a", pa); vh_fb("b", pb);
	MARK();
	VH_TRY(err, ret = fb_cmp(pa, pb));
	vh_int("ret", ret);
	vh_int("EQ", RLC_EQ);
	fin(err, same(A, A0) && same(B, B0));
}

static void do_cmp_dig(const char *op) {
	int err;
	volatile long ret = -99;
	dig_t d = vh_dig_tok(vh_tok[3]);
	fb_set_tok(A, vh_tok[2]);
	fb_copy(A0, A);
	fhdr(op, 0);
	vh_fb("a", A); vh_dig("dg", d);
	MARK();
	VH_TRY(err, ret = fb_cmp_dig(A, d));
	vh_int("ret", ret);
	vh_int("EQ", RLC_EQ);
	fin(err, same(A, A0));
}

static void do_exp(const char *op, exp_f f, int al) {
	int err, unch = 1;
	dig_t *pa = A, *pc = C;
	fb_set_tok(A, vh_tok[2]);
	vh_bn_set(E, vh_tok[3]);
	if (al == 1) pc = pa;
	fb_copy(A0, A); bn_copy(E0, E);
	stale(C);
	fhdr(op, al);
	vh_fb("a", pa); vh_bn("e", E);
	MARK();
	VH_TRY(err, f(pc, pa, E));
	vh_fb("c", pc);
	if (pc != pa) unch &= same(A, A0);
	unch &= vh_bn_same(E, E0);
	fin(err, unch);
}

/* iterated squaring: fb_itr_basic(c, a, k) / fb_itr_quick with the table built by fb_itr_pre_quick(k) */
static int itab_k = 1 << 30;
static char itab_sel[8192] = "";
static void do_itr(const char *op, int quick, int al) {
	int err = 0, unch = 1, k = atoi(vh_tok[3]);
	dig_t *pa = A, *pc = C;
	fb_set_tok(A, vh_tok[2]);
	if (al == 1) pc = pa;
	fb_copy(A0, A);
	stale(C);
	if (quick && (k != itab_k || strcmp(itab_sel, g_sel) != 0)) {
		VH_TRY(err, fb_itr_pre_quick(ITAB, k));
		itab_k = err ? (1 << 30) : k;
		strcpy(itab_sel, g_sel);
	}
	fhdr(op, al);
	vh_fb("a", pa); vh_int("k", k);
	MARK();
	if (!err) {
		if (quick) VH_TRY(err, fb_itr_quick(pc, pa, ITAB)); else VH_TRY(err, fb_itr_basic(pc, pa, k));
	}
	vh_fb("c", pc);
	if (pc != pa) unch &= same(A, A0);
	fin(err, unch);
}

static void do_inv_sim(const char *op, int al) {
	int err, unch = 1, i, n = atoi(vh_tok[2]);
	fb_t *pc = (al == 1) ? X : Y;
	if (n < 1 || n > 8) { fprintf(stderr, "bad n\n"); exit(2); }
	for (i = 0; i < n; i++) { fb_set_tok(X[i], vh_tok[3 + i]); fb_copy(X0[i], X[i]); stale(Y[i]); }
	fhdr(op, al);
	vh_int("n", n);
	fprintf(vh_out, ",\"as\":[");
	for (i = 0; i < n; i++) { if (i) fputc(',', vh_out); vh_digs_raw(X[i], FD); }
	fputc(']', vh_out);
	MARK();
	VH_TRY(err, fb_inv_sim(pc, (const fb_t *)X, n));
	fprintf(vh_out, ",\"cs\":[");
	for (i = 0; i < n; i++) { if (i) fputc(',', vh_out); vh_digs_raw(pc[i], FD); }
	fputc(']', vh_out);
	if (al != 1) for (i = 0; i < n; i++) unch &= same(X[i], X0[i]);
	fin(err, unch);
}

/* reduction of a double-length value */
static void do_rdc(const char *op, rdc_f f) {
	int err, i;
	bn_t t;
	bn_null(t); bn_new(t);
	vh_bn_set(t, vh_tok[2]);
	if ((int)t->used > 2 * FD) { fprintf(stderr, "rdc input too long\n"); exit(2); }
	dv_zero(T, RLC_DV_DIGS);
	for (i = 0; i < (int)t->used; i++) T[i] = t->dp[i];
	bn_free(t);
	stale(C);
	fhdr(op, 0);
	vh_digs("t", T, 2 * FD);
	MARK();
	VH_TRY(err, f(C, T));
	vh_fb("c", C);
	fin(err, 1);
}

static void do_read_bin(const char *op) {
	static uint8_t buf[4096];
	int err;
	size_t n = vh_hex2bytes(vh_tok[2], buf, sizeof(buf), NULL);
	stale(C);
	fhdr(op, 0);
	vh_bytes("bin", buf, n);
	vh_int("len", (long)n);
	vh_int("fb", (long)RLC_FB_BYTES);
	MARK();
	VH_TRY(err, fb_read_bin(C, buf, n));
	vh_fb("c", C);
	fin(err, 1);
}
static void do_write_bin(const char *op) {
	static uint8_t buf[4096];
	int err;
	size_t n = (size_t)atol(vh_tok[3]);
	fb_set_tok(A, vh_tok[2]);
	fb_copy(A0, A);
	memset(buf, 0x5a, sizeof(buf));
	fhdr(op, 0);
	vh_fb("a", A);
	vh_int("len", (long)n);
	vh_int("fb", (long)RLC_FB_BYTES);
	MARK();
	VH_TRY(err, fb_write_bin(buf, n, A));
	vh_bytes("bin", buf, n);
	fin(err, same(A, A0));
}
static void do_rand(const char *op) {
	int err;
	stale(C);
	fhdr(op, 0);
	MARK();
	VH_TRY(err, fb_rand(C));
	vh_fb("c", C);
	fin(err, 1);
}

/* ---- quadratic extension: tokens a0 a1 [b0 b1] */
#ifdef VH_FBX
static void vh_fb2(const char *k, fb2_t a) {
	fprintf(vh_out, ",\"%s\":[", k);
	vh_digs_raw(a[0], FD); fputc(',', vh_out); vh_digs_raw(a[1], FD);
	fputc(']', vh_out);
}
static int same2(fb2_t a, fb2_t b) { return same(a[0], b[0]) && same(a[1], b[1]); }
/* which: 0 mul, 1 sqr, 2 inv, 3 slv, 4 mul_nor */
static void do_fb2(const char *op, int which, int al) {
	int err, unch = 1;
	fb_set_tok(A2[0], vh_tok[2]); fb_set_tok(A2[1], vh_tok[3]);
	if (which == 0) { fb_set_tok(B2[0], vh_tok[4]); fb_set_tok(B2[1], vh_tok[5]); }
	fb_copy(A20[0], A2[0]); fb_copy(A20[1], A2[1]);
	fb_copy(B20[0], B2[0]); fb_copy(B20[1], B2[1]);
	stale(C2[0]); stale(C2[1]);
	fhdr(op, al);
	vh_fb2("A", A2);
	if (which == 0) vh_fb2("B", (al == 3 || al == 4) ? A2 : B2);
	MARK();
#define OUT2 ((al == 1 || al == 4) ? A2 : (al == 2 ? B2 : C2))
#define INB2 ((al == 3 || al == 4) ? A2 : B2)
	switch (which) {
		case 0: VH_TRY(err, fb2_mul(OUT2, A2, INB2)); break;
		case 1: VH_TRY(err, fb2_sqr(OUT2, A2)); break;
		case 2: VH_TRY(err, fb2_inv(OUT2, A2)); break;
		case 3: VH_TRY(err, fb2_slv(OUT2, A2)); break;
		default: VH_TRY(err, fb2_mul_nor(OUT2, A2)); break;
	}
	vh_fb2("C", OUT2);
	if (OUT2 != A2) unch &= same2(A2, A20);
	if (which == 0 && OUT2 != B2 && INB2 == B2) unch &= same2(B2, B20);
	fin(err, unch);
}
#else
static void do_fb2(const char *op, int which, int al) { (void)op; (void)which; (void)al; fprintf(stderr, "no FBX in this build\n"); exit(2); }
#endif

/* ---- field selection: the polynomial and every constant derived from it */
static void do_select(void) {
	int ta, tb, tc, len = 0, i;
	const int *chain;
	fhdr("fb_select", 0);
	fb_poly_get_trc(&ta, &tb, &tc);
	vh_int("ta", ta); vh_int("tb", tb); vh_int("tc", tc);
	vh_fb("srz", fb_poly_get_srz());
	chain = fb_poly_get_chain(&len);
	vh_int("chain_len", len);
	(void)chain; (void)i;
	vh_int("ok", g_ok);
	fin(0, 1);
}
/* one entry of the half-trace table: fb_half[l][j] */
static void do_tab_half(void) {
	int l = atoi(vh_tok[2]), j = atoi(vh_tok[3]);
	const fb_st *tab = (const fb_st *)fb_poly_get_slv();
	fhdr("tab_half", 0);
	vh_int("l", l); vh_int("j", j);
	vh_fb("c", tab[16 * l + j]);
	fin(0, 1);
}
/* one entry of the sqrt(z) table: fb_tab_srz[i] = i * sqrt(z) */
static void do_tab_srz(void) {
	int i = atoi(vh_tok[2]);
	fhdr("tab_srz", 0);
	vh_int("j", i);
	vh_fb("srz", fb_poly_get_srz());
	vh_fb("c", fb_poly_tab_srz(i));
	fin(0, 1);
}

/* ============================================================ curve operations */
static void set_point(eb_t p, char *tok) {
	char *rep = strchr(tok, '/');
	fb_t z, t;
	if (rep) *rep++ = 0;
	if (strcmp(tok, "inf") == 0) { eb_set_infty(p); return; }
	if (strcmp(tok, "inf0p") == 0) { eb_set_infty(p); p->coord = PROJC; return; }      /* what eb_add_projc returns for P + (-P) */
	if (tok[0] == 'm' || tok[0] == 's') {
		bn_t k;
		bn_null(k); bn_new(k);
		vh_bn_set(k, tok + 1);
		eb_mul_basic(p, G, k);
		eb_norm(p, p);
		if (tok[0] == 's') { eb_add_basic(p, p, T2); eb_norm(p, p); }
		bn_free(k);
	} else if (tok[0] == 'x' && tok[1] == 'y') {
		char *x = tok + 2, *y = strchr(x, ',');
		if (!y) { fprintf(stderr, "bad point token %s\n", tok); exit(2); }
		*y++ = 0;
		fb_set_tok(p->x, x); fb_set_tok(p->y, y); fb_set_dig(p->z, 1); p->coord = BASIC;
	} else { fprintf(stderr, "bad point token %s\n", tok); exit(2); }
	if (!rep || eb_is_infty(p)) return;
	if (rep[0] == 'P') { p->coord = PROJC; return; }
	fb_null(z); fb_null(t); fb_new(z); fb_new(t);
	if (rep[0] == 'p') {
		fb_set_tok(z, rep + 1);
		fb_mul(p->x, p->x, z); fb_sqr(t, z); fb_mul(p->y, p->y, t); fb_copy(p->z, z); p->coord = PROJC;
	} else if (rep[0] == 'h') {
		if (!fb_is_zero(p->x)) {
			fb_inv(t, p->x); fb_mul(t, t, p->y); fb_add(p->y, t, p->x); p->coord = HALVE;
		}
	} else { fprintf(stderr, "bad representation %s\n", rep); exit(2); }
	fb_free(z); fb_free(t);
}

typedef void (*eun_f)(eb_t, const eb_t);
typedef void (*ebin_f)(eb_t, const eb_t, const eb_t);
typedef void (*emul_f)(eb_t, const eb_t, const bn_t);
typedef void (*epre_f)(eb_t *, const eb_t);
typedef void (*efix_f)(eb_t, const eb_t *, const bn_t);
typedef void (*esim_f)(eb_t, const eb_t, const bn_t, const eb_t, const bn_t);

static void ew_neg(eb_t r, const eb_t p) { eb_neg(r, p); }
static void ew_dbl(eb_t r, const eb_t p) { eb_dbl(r, p); }
static void ew_add(eb_t r, const eb_t p, const eb_t q) { eb_add(r, p, q); }
static void ew_sub(eb_t r, const eb_t p, const eb_t q) { eb_sub(r, p, q); }
static void ew_mul(eb_t r, const eb_t p, const bn_t k) { eb_mul(r, p, k); }
static void ew_pre(eb_t *t, const eb_t p) { eb_mul_pre(t, p); }
static void ew_fix(eb_t r, const eb_t *t, const bn_t k) { eb_mul_fix(r, t, k); }
static void ew_sim(eb_t r, const eb_t p, const bn_t k, const eb_t q, const bn_t m) { eb_mul_sim(r, p, k, q, m); }

static void stale_pt(eb_t r) { char s[] = "m7/p3"; set_point(r, s); }

static void do_eun(const char *op, eun_f f, int al) {
	int err, unch = 1;
	eb_st *pp = P, *pr = R;
	set_point(P, vh_tok[2]);
	if (al == 1) pr = pp;
	eb_copy(P0, P);
	stale_pt(R);
	chdr(op, al);
	vh_eb("P", pp);
	MARK();
	VH_TRY(err, f(pr, pp));
	vh_eb("R", pr);
	if (pr != pp) unch &= eb_same(P, P0);
	fin(err, unch);
}

static void do_ebin(const char *op, ebin_f f, int al) {
	int err, unch = 1;
	eb_st *pp = P, *pq = Q, *pr = R;
	set_point(P, vh_tok[2]);
	set_point(Q, vh_tok[3]);
	if (al == 3 || al == 4) pq = pp;
	if (al == 1 || al == 4) pr = pp;
	if (al == 2) pr = pq;
	eb_copy(P0, P); eb_copy(Q0, Q);
	stale_pt(R);
	chdr(op, al);
	vh_eb("P", pp); vh_eb("Q", pq);
	MARK();
	VH_TRY(err, f(pr, pp, pq));
	vh_eb("R", pr);
	if (pr != pp) unch &= eb_same(P, P0);
	if (pr != pq && pq != pp) unch &= eb_same(Q, Q0);
	fin(err, unch);
}

static void do_query(const char *op, int which) {
	int err;
	volatile long ret = 0;
	set_point(P, vh_tok[2]);
	eb_copy(P0, P);
	if (which == 0) { set_point(Q, vh_tok[3]); eb_copy(Q0, Q); }
	chdr(op, 0);
	vh_eb("P", P);
	if (which == 0) vh_eb("Q", Q);
	MARK();
	switch (which) {
		case 0: VH_TRY(err, ret = eb_cmp(P, Q)); break;
		case 1: VH_TRY(err, ret = eb_on_curve(P)); break;
		default: VH_TRY(err, ret = eb_is_infty(P)); break;
	}
	vh_int("ret", ret);
	vh_int("EQ", RLC_EQ);
	fin(err, eb_same(P, P0) && (which != 0 || eb_same(Q, Q0)));
}

static void do_emul(const char *op, emul_f f, int al) {
	int err, unch = 1;
	eb_st *pp = P, *pr = R;
	set_point(P, vh_tok[2]);
	vh_bn_set(K, vh_tok[3]);
	if (al == 1) pr = pp;
	eb_copy(P0, P); bn_copy(K0, K);
	stale_pt(R);
	chdr(op, al);
	vh_eb("P", pp); vh_bn("k", K);
	MARK();
	VH_TRY(err, f(pr, pp, K));
	vh_eb("R", pr);
	if (pr != pp) unch &= eb_same(P, P0);
	unch &= vh_bn_same(K, K0);
	fin(err, unch);
}

static void do_emul_gen(const char *op) {
	int err, unch = 1;
	eb_curve_get_gen(P);
	vh_bn_set(K, vh_tok[2]);
	bn_copy(K0, K);
	stale_pt(R);
	chdr(op, 0);
	vh_eb("P", P); vh_bn("k", K);
	MARK();
	VH_TRY(err, eb_mul_gen(R, K));
	vh_eb("R", R);
	unch &= vh_bn_same(K, K0);
	fin(err, unch);
}

static void do_emul_dig(const char *op, int al) {
	int err, unch = 1;
	eb_st *pp = P, *pr = R;
	dig_t d = vh_dig_tok(vh_tok[3]);
	set_point(P, vh_tok[2]);
	if (al == 1) pr = pp;
	eb_copy(P0, P);
	stale_pt(R);
	chdr(op, al);
	vh_eb("P", pp); vh_dig("dg", d);
	MARK();
	VH_TRY(err, eb_mul_dig(pr, pp, d));
	vh_eb("R", pr);
	if (pr != pp) unch &= eb_same(P, P0);
	fin(err, unch);
}

static char tab_key[9000];
static void do_efix(const char *op, epre_f pre, efix_f fix) {
	int err = 0, err2 = 0, unch = 1;
	static char key[9000];
	snprintf(key, sizeof(key), "%s|%s|%s", op, g_sel, vh_tok[2]);
	set_point(P, vh_tok[2]);
	eb_copy(P0, P);
	vh_bn_set(K, vh_tok[3]);
	bn_copy(K0, K);
	if (strcmp(key, tab_key) != 0) {
		VH_TRY(err, pre(TAB, P));
		strcpy(tab_key, err ? "" : key);
	}
	stale_pt(R);
	chdr(op, 0);
	vh_eb("P", P); vh_bn("k", K);
	vh_int("perr", err);
	MARK();
	if (!err) VH_TRY(err2, fix(R, (const eb_t *)TAB, K));
	vh_eb("R", R);
	unch &= eb_same(P, P0) && vh_bn_same(K, K0);
	fin(err ? err : err2, unch);
}

static void do_esim(const char *op, esim_f f, int al) {
	int err, unch = 1;
	eb_st *pp = P, *pq = Q, *pr = R;
	set_point(P, vh_tok[2]);
	vh_bn_set(K, vh_tok[3]);
	set_point(Q, vh_tok[4]);
	vh_bn_set(M, vh_tok[5]);
	if (al == 3) pq = pp;
	if (al == 1) pr = pp;
	if (al == 2) pr = pq;
	eb_copy(P0, P); eb_copy(Q0, Q); bn_copy(K0, K); bn_copy(M0, M);
	stale_pt(R);
	chdr(op, al);
	vh_eb("P", pp); vh_bn("k", K); vh_eb("Q", pq); vh_bn("m2", M);
	MARK();
	VH_TRY(err, f(pr, pp, K, pq, M));
	vh_eb("R", pr);
	if (pr != pp) unch &= eb_same(P, P0);
	if (pr != pq && pq != pp) unch &= eb_same(Q, Q0);
	unch &= vh_bn_same(K, K0) && vh_bn_same(M, M0);
	fin(err, unch);
}

static void do_esim_gen(const char *op, int al) {
	int err, unch = 1;
	eb_st *pq = Q, *pr = R;
	eb_curve_get_gen(P);
	vh_bn_set(K, vh_tok[2]);
	set_point(Q, vh_tok[3]);
	vh_bn_set(M, vh_tok[4]);
	if (al == 2) pr = pq;
	eb_copy(Q0, Q); bn_copy(K0, K); bn_copy(M0, M);
	stale_pt(R);
	chdr(op, al);
	vh_eb("P", P); vh_bn("k", K); vh_eb("Q", pq); vh_bn("m2", M);
	MARK();
	VH_TRY(err, eb_mul_sim_gen(pr, K, pq, M));
	vh_eb("R", pr);
	if (pr != pq) unch &= eb_same(Q, Q0);
	unch &= vh_bn_same(K, K0) && vh_bn_same(M, M0);
	fin(err, unch);
}

/* curve selection: everything the getters expose (parameter consistency, C18 part) */
static void do_eb_select(void) {
	chdr("eb_select", 0);
	vh_eb("P", G);
	vh_int("opta", eb_curve_opt_a());
	vh_int("optb", eb_curve_opt_b());
	vh_int("ebid", eb_param_get());
	vh_int("level", eb_param_level());
	vh_int("ok", g_ok);
	fin(0, 1);
}

static int run_case(void) {
	const char *op = vh_tok[1];
	const char *sel = vh_tok[0];
	int al = vh_ntok > 2 ? atoi(vh_tok[2]) : 0;
	int ok = ensure_sel(sel);
	int curve_op = (strncmp(op, "eb_", 3) == 0);
	risky = strcmp(op, "fb_rdc_basic") == 0 || strncmp(op, "eb_mul_sim", 10) == 0 || strncmp(op, "fb_exp", 6) == 0;
#define OP(n) (strcmp(op, n) == 0)
	if (!ok || (curve_op && !have_curve)) {
		ev_begin("BADSEL"); vh_str("sel", sel); vh_str("for", op); ev_end();
		return 1;
	}
	/* shift: vh_tok[2..] = args */
	if (OP("fb_select")) do_select();
	else if (OP("tab_half")) do_tab_half();
	else if (OP("tab_srz")) do_tab_srz();
	else if (OP("eb_select")) do_eb_select();
	else {
		/* drop the alias token so that args start at vh_tok[2] */
		memmove(vh_tok + 2, vh_tok + 3, sizeof(vh_tok[0]) * (size_t)(vh_ntok - 3));
		vh_ntok--;
		if (OP("fb_add")) do_bin(op, fb_add, al);
		else if (OP("fb_mul")) do_bin(op, w_mul, al);
		else if (OP("fb_mul_basic")) do_bin(op, fb_mul_basic, al);
		else if (OP("fb_mul_integ")) do_bin(op, fb_mul_integ, al);
		else if (OP("fb_mul_lodah")) do_bin(op, fb_mul_lodah, al);
		else if (OP("fb_mul_karat")) do_bin(op, fb_mul_karat, al);
		else if (OP("fb_sqr")) do_un(op, w_sqr, al);
		else if (OP("fb_sqr_basic")) do_un(op, fb_sqr_basic, al);
		else if (OP("fb_sqr_quick")) do_un(op, fb_sqr_quick, al);
		else if (OP("fb_sqr_integ")) do_un(op, fb_sqr_integ, al);
		else if (OP("fb_inv")) do_un(op, w_inv, al);
		else if (OP("fb_inv_basic")) do_un(op, fb_inv_basic, al);
		else if (OP("fb_inv_binar")) do_un(op, fb_inv_binar, al);
		else if (OP("fb_inv_exgcd")) do_un(op, fb_inv_exgcd, al);
		else if (OP("fb_inv_almos")) do_un(op, fb_inv_almos, al);
		else if (OP("fb_inv_itoht")) do_un(op, fb_inv_itoht, al);
		else if (OP("fb_inv_bruch")) do_un(op, fb_inv_bruch, al);
		else if (OP("fb_inv_ctaia")) do_un(op, fb_inv_ctaia, al);
		else if (OP("fb_inv_lower")) do_un(op, fb_inv_lower, al);
		else if (OP("fb_inv_sim")) do_inv_sim(op, al);
		else if (OP("fb_srt")) do_un(op, w_srt, al);
		else if (OP("fb_srt_basic")) do_un(op, fb_srt_basic, al);
		else if (OP("fb_srt_quick")) do_un(op, fb_srt_quick, al);
		else if (OP("fb_slv")) do_un(op, w_slv, al);
		else if (OP("fb_slv_basic")) do_un(op, fb_slv_basic, al);
		else if (OP("fb_slv_quick")) do_un(op, fb_slv_quick, al);
		else if (OP("fb_copy")) do_un(op, fb_copy, al);
		else if (OP("fb_trc")) do_trc(op, w_trc);
		else if (OP("fb_trc_basic")) do_trc(op, fb_trc_basic);
		else if (OP("fb_trc_quick")) do_trc(op, fb_trc_quick);
		else if (OP("fb_add_dig")) do_dig(op, 0, al);
		else if (OP("fb_mul_dig")) do_dig(op, 1, al);
		else if (OP("fb_cmp")) do_cmp(op, al);
		else if (OP("fb_cmp_dig")) do_cmp_dig(op);
		else if (OP("fb_exp")) do_exp(op, w_exp, al);
		else if (OP("fb_exp_basic")) do_exp(op, fb_exp_basic, al);
		else if (OP("fb_exp_slide")) do_exp(op, fb_exp_slide, al);
		else if (OP("fb_exp_monty")) do_exp(op, fb_exp_monty, al);
		else if (OP("fb_itr_basic")) do_itr(op, 0, al);
		else if (OP("fb_itr_quick")) do_itr(op, 1, al);
		else if (OP("fb_rdc")) do_rdc(op, w_rdc);
		else if (OP("fb_rdc_basic")) do_rdc(op, fb_rdc_basic);
		else if (OP("fb_rdc_quick")) do_rdc(op, fb_rdc_quick);
		else if (OP("fb_read_bin")) do_read_bin(op);
		else if (OP("fb_write_bin")) do_write_bin(op);
		else if (OP("fb_rand")) do_rand(op);
		else if (OP("fb2_mul")) do_fb2(op, 0, al);
		else if (OP("fb2_sqr")) do_fb2(op, 1, al);
		else if (OP("fb2_inv")) do_fb2(op, 2, al);
		else if (OP("fb2_slv")) do_fb2(op, 3, al);
		else if (OP("fb2_mul_nor")) do_fb2(op, 4, al);
		else if (OP("eb_neg")) do_eun(op, ew_neg, al);
		else if (OP("eb_neg_basic")) do_eun(op, eb_neg_basic, al);
		else if (OP("eb_neg_projc")) do_eun(op, eb_neg_projc, al);
		else if (OP("eb_dbl")) do_eun(op, ew_dbl, al);
		else if (OP("eb_dbl_basic")) do_eun(op, eb_dbl_basic, al);
		else if (OP("eb_dbl_projc")) do_eun(op, eb_dbl_projc, al);
		else if (OP("eb_norm")) do_eun(op, eb_norm, al);
		else if (OP("eb_hlv")) do_eun(op, eb_hlv, al);
		else if (OP("eb_frb")) do_eun(op, eb_frb, al);
		else if (OP("eb_add")) do_ebin(op, ew_add, al);
		else if (OP("eb_add_basic")) do_ebin(op, eb_add_basic, al);
		else if (OP("eb_add_projc")) do_ebin(op, eb_add_projc, al);
		else if (OP("eb_sub")) do_ebin(op, ew_sub, al);
		else if (OP("eb_sub_basic")) do_ebin(op, eb_sub_basic, al);
		else if (OP("eb_sub_projc")) do_ebin(op, eb_sub_projc, al);
		else if (OP("eb_cmp")) do_query(op, 0);
		else if (OP("eb_on_curve")) do_query(op, 1);
		else if (OP("eb_is_infty")) do_query(op, 2);
		else if (OP("eb_mul")) do_emul(op, ew_mul, al);
		else if (OP("eb_mul_basic")) do_emul(op, eb_mul_basic, al);
		else if (OP("eb_mul_lodah")) do_emul(op, eb_mul_lodah, al);
		else if (OP("eb_mul_lwnaf")) do_emul(op, eb_mul_lwnaf, al);
		else if (OP("eb_mul_rwnaf")) do_emul(op, eb_mul_rwnaf, al);
		else if (OP("eb_mul_halve")) do_emul(op, eb_mul_halve, al);
		else if (OP("eb_mul_gen")) do_emul_gen(op);
		else if (OP("eb_mul_dig")) do_emul_dig(op, al);
		else if (OP("eb_mul_fix")) do_efix(op, ew_pre, ew_fix);
		else if (OP("eb_mul_fix_basic")) do_efix(op, eb_mul_pre_basic, eb_mul_fix_basic);
		else if (OP("eb_mul_fix_combs")) do_efix(op, eb_mul_pre_combs, eb_mul_fix_combs);
		else if (OP("eb_mul_fix_combd")) do_efix(op, eb_mul_pre_combd, eb_mul_fix_combd);
		else if (OP("eb_mul_fix_lwnaf")) do_efix(op, eb_mul_pre_lwnaf, eb_mul_fix_lwnaf);
		else if (OP("eb_mul_sim")) do_esim(op, ew_sim, al);
		else if (OP("eb_mul_sim_basic")) do_esim(op, eb_mul_sim_basic, al);
		else if (OP("eb_mul_sim_trick")) do_esim(op, eb_mul_sim_trick, al);
		else if (OP("eb_mul_sim_inter")) do_esim(op, eb_mul_sim_inter, al);
		else if (OP("eb_mul_sim_joint")) do_esim(op, eb_mul_sim_joint, al);
		else if (OP("eb_mul_sim_gen")) do_esim_gen(op, al);
		else return 0;
	}
	return 1;
}

/* `driver --list`: parameter ids this build accepts.
 *   "fb <id> <pa> <pb> <pc> <poly hex>"      for each fb_param_set id that does not throw
 *   "eb <id> <poly hex> <a> <b> <gx> <gy> <r> <h> <kbl>"   for each eb_param_set id */
static void px(const dig_t *d, int n) {
	int i;
	for (i = n - 1; i >= 0; i--) printf("%0*llx", (int)(2 * sizeof(dig_t)), (unsigned long long)d[i]);
}
static int list_params(void) {
	int id, err, a, b, c;
	for (id = 1; id < 64; id++) {
		VH_TRY(err, fb_param_set(id));
		if (vh_code() || err) continue;
		fb_poly_get_rdc(&a, &b, &c);
		printf("fb %d %d %d %d ", id, a, b, c); px(fb_poly_get(), FD); printf("\n");
	}
	for (id = 1; id < 64; id++) {
		VH_TRY(err, eb_param_set(id));
		if (vh_code() || err) continue;
		eb_curve_get_gen(G); eb_curve_get_ord(N); eb_curve_get_cof(H);
		printf("eb %d ", id); px(fb_poly_get(), FD);
		printf(" "); px(eb_curve_get_a(), FD);
		printf(" "); px(eb_curve_get_b(), FD);
		printf(" "); px(G->x, FD);
		printf(" "); px(G->y, FD);
		printf(" "); px(N->dp, (int)N->used);
		printf(" "); px(H->dp, (int)H->used);
		printf(" %d\n", eb_curve_is_kbltz());
	}
	printf("conf m=%d w=%d fd=%d wd=%d dep=%d bnbits=%d add=%d\n", (int)RLC_FB_BITS, (int)sizeof(dig_t), FD,
		(int)RLC_WIDTH, (int)RLC_DEPTH, (int)RLC_BN_BITS, (int)EB_ADD);
	return 0;
}

static void alloc_all(void) {
	int i;
	bn_null(E); bn_null(E0); bn_new(E); bn_new(E0);
	dv_null(T); dv_new(T);
	for (i = 0; i < 8; i++) { fb_new(X[i]); fb_new(Y[i]); fb_new(X0[i]); }
	fb_new(A); fb_new(B); fb_new(C); fb_new(A0); fb_new(B0);
#ifdef VH_FBX
	fb2_new(A2); fb2_new(B2); fb2_new(C2); fb2_new(A20); fb2_new(B20);
#endif
	eb_null(P); eb_null(Q); eb_null(R); eb_null(P0); eb_null(Q0); eb_null(G); eb_null(T2);
	eb_new(P); eb_new(Q); eb_new(R); eb_new(P0); eb_new(Q0); eb_new(G); eb_new(T2);
	bn_null(K); bn_null(M); bn_null(K0); bn_null(M0); bn_null(N); bn_null(H);
	bn_new(K); bn_new(M); bn_new(K0); bn_new(M0); bn_new(N); bn_new(H);
	for (i = 0; i < (int)RLC_EB_TABLE_MAX; i++) { eb_null(TAB[i]); eb_new(TAB[i]); }
}

int main(int argc, char **argv) {
	long start, idx = 0;
	FILE *in;
	if (argc > 1 && strcmp(argv[1], "--list") == 0) {
		if (core_init() != RLC_OK) return 2;
		alloc_all();
		return list_params();
	}
	in = vh_open(argc, argv, &start);
	real_out = vh_out;
	if (getenv("VH_NOFORK")) fork_mode = 0;
	/* "nofork": bulk runs (tiny worlds) fork only for the routines known to be able to corrupt memory */
	if (argc > 4 && strcmp(argv[4], "nofork") == 0) fork_mode = 2;
	fb_install();
	if (core_init() != RLC_OK) return 2;
#if RAND == CALL
	rand_seed(vh_rand_cb, NULL);
#endif
	alloc_all();
	while (vh_next(in)) {
		if (idx++ < start) continue;
		vh_case = idx - 1;
		alarm(60);
		if (setjmp(case_jmp) == 0) {
			if (vh_ntok < 2 || !run_case()) { fprintf(stderr, "unknown op %s\n", vh_ntok > 1 ? vh_tok[1] : "?"); return 2; }
		}
		alarm(0);
	}
	fclose(real_out);
	core_clean();
	return 0;
}
