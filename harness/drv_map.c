/*
 * drv_map.c - conformance driver for hashing to curve groups (C13).
 *
 * Case line:  <op> <curve> <bytes>
 *   curve   id<N>      ep_param_set(N)
 *           pairf      ep_param_set_any_pairf() (configures the twist: needed by ep2_map*)
 *           ed         ed_param_set_any()           eb<N>   eb_param_set(N)
 *   bytes   hex string ("." = empty): the message, or the uniform bytes of ep_map_rnd
 *   ops     map_params                      dump of the implementation-defined constants (judged by the spec)
 *           rfc9380_bls12381g1              the same dump; the spec evaluates the RFC 9380 J.9.1 vector with them
 *           ep_map ep_map_basic ep_map_sswum ep_map_swift ep_map_rnd
 *           ep2_map ep2_map_basic ep2_map_sswum ep2_map_swift
 *           ed_map  ed_map_dst <curve> <msg> <dst>          eb_map
 *
 * Every map event carries the field header, the curve (raw a, b, order n, cofactor h), the constants the
 * library reads while mapping (ep_map_u, ep_map_c[], the isogeny, ep_param_level, FP_PRIME, the tag string,
 * the curve family and its parameter for the cofactor clearing), the input bytes, and
 *   R    the point returned (raw coordinates)
 *   R2   the point returned for the SAME input after unrelated calls in between (another message through
 *        another map, a scalar multiplication, a hash, a fixed-base table use): determinism
 *   err, err2, code, crash
 */
#include "vh.h"

static FILE *real_out;
static char *mbuf;
static size_t mlen, safe_len;
static volatile int in_event;

static void ev_begin(const char *op) {
	mbuf = NULL; mlen = 0; safe_len = 0;
	vh_out = open_memstream(&mbuf, &mlen);
	if (!vh_out) { perror("open_memstream"); exit(2); }
	in_event = 1;
	vh_begin(op);
}
static void ev_end(void) {
	vh_end();
	fclose(vh_out);
	in_event = 0;
	fwrite(mbuf, 1, mlen, real_out);
	fflush(real_out);
	free(mbuf);
	vh_out = real_out;
}
#define MARK() do { fflush(vh_out); safe_len = mlen; } while (0)

static void map_fatal(int sig) {
	char buf[200];
	int n;
	const char *what = (sig == SIGALRM) ? "TIMEOUT" : "CRASH";
	if (in_event && safe_len > 0) {
		if (write(vh_outfd, mbuf, safe_len) < 0) {}
		n = snprintf(buf, sizeof(buf), ",\"crash\":%d,\"err\":0,\"err2\":0,\"code\":0}\n", sig);
		if (write(vh_outfd, buf, n) < 0) {}
		what = "restart";
	}
	n = snprintf(buf, sizeof(buf), "{\"op\":\"%s\",\"i\":%ld,\"sig\":%d}\n", what, (long)vh_case, sig);
	if (write(vh_outfd, buf, n) < 0) {}
	_exit(sig == SIGALRM ? 3 : 4);
}
static void map_install(void) {
	signal(SIGSEGV, map_fatal); signal(SIGBUS, map_fatal); signal(SIGFPE, map_fatal);
	signal(SIGABRT, map_fatal); signal(SIGILL, map_fatal); signal(SIGALRM, map_fatal);
}

static char cur_curve[64];
static int cur_ok;
static ep_t R, R2, T;
static bn_t N, H, K;
static uint8_t msg[1 << 16], dstb[1024], other[64];

#if defined(WITH_EPX)
static void pick_twist(void) {
	ep2_t g, f; bn_t pp;
	ep2_null(g); ep2_null(f); bn_null(pp); ep2_new(g); ep2_new(f); bn_new(pp);
	ep2_curve_set_twist(RLC_EP_DTYPE);
	ep2_curve_get_gen(g);
	pp->used = RLC_FP_DIGS; pp->sign = RLC_POS; dv_copy(pp->dp, fp_prime_get(), RLC_FP_DIGS);
	ep2_frb(f, g, 1); ep2_mul_basic(g, g, pp);
	if (ep2_cmp(f, g) != RLC_EQ) ep2_curve_set_twist(RLC_EP_MTYPE);
	ep2_free(g); ep2_free(f); bn_free(pp);
}
#endif

static int set_curve(const char *spec) {
	int err = 0, code;
	if (strcmp(spec, cur_curve) == 0) return cur_ok;
	if (strlen(spec) >= sizeof(cur_curve)) return 0;
	strcpy(cur_curve, spec);
	cur_ok = 0;
	if (spec[0] == 'i' && spec[1] == 'd') {
		VH_TRY(err, ep_param_set(atoi(spec + 2)));
		code = vh_code();
		cur_ok = (err == 0) && (code == 0);
	} else if (strcmp(spec, "pairf") == 0) {
#if defined(WITH_EPX)
		volatile int r = RLC_ERR;
		VH_TRY(err, r = ep_param_set_any_pairf());
		code = vh_code();
		cur_ok = (err == 0) && (code == 0) && (r == RLC_OK) && ep2_curve_is_twist();
#endif
	} else if (spec[0] == 'p' && spec[1] == 'f') {
#if defined(WITH_EPX)
		/* a pairing-friendly set by id; the twist type is the caller's knowledge: take the one under which the
		 * Frobenius endomorphism acts on the generator as multiplication by p (selection only, not a verdict) */
		VH_TRY(err, ep_param_set(atoi(spec + 2)));
		code = vh_code();
		if (err == 0 && code == 0 && ep_curve_is_pairf() && ep_curve_embed() == 12) {
			VH_TRY(err, pick_twist());
			code = vh_code();
			cur_ok = (err == 0) && (code == 0) && ep2_curve_is_twist();
		}
#endif
	} else if (strcmp(spec, "ed") == 0) {
#if defined(WITH_ED)
		VH_TRY(err, ed_param_set_any());
		code = vh_code();
		cur_ok = (err == 0) && (code == 0);
#endif
	} else if (spec[0] == 'e' && spec[1] == 'b') {
#if defined(WITH_EB)
		VH_TRY(err, eb_param_set(atoi(spec + 2)));
		code = vh_code();
		cur_ok = (err == 0) && (code == 0);
#endif
	}
	return cur_ok;
}

static void fp_list(const char *k, fp_st *v, int n) {
	int i;
	fprintf(vh_out, ",\"%s\":[", k);
	for (i = 0; i < n; i++) { if (i) fputc(',', vh_out); vh_fp_raw(v[i]); }
	fputc(']', vh_out);
}

/* ---------------------------------------------------------------- prime curves */
static void ep_hdr(const char *op) {
	ctx_t *ctx = core_get();
	ev_begin(op);
	vh_fp_hdr();
	vh_str("curve", cur_curve);
	vh_fp("ca", ep_curve_get_a());
	vh_fp("cb", ep_curve_get_b());
	ep_curve_get_ord(N); ep_curve_get_cof(H);
	vh_bn("n", N); vh_bn("h", H);
	vh_int("lvl", ep_param_level());
	vh_int("fpp", (long)FP_PRIME);
	vh_int("defmap", (long)EP_MAP);
	vh_int("BASIC", (long)BASIC); vh_int("SSWUM", (long)SSWUM); vh_int("SWIFT", (long)SWIFT);
	vh_int("rndsz", (long)ep_map_rnd_size());
	vh_int("ctmap", ep_curve_is_ctmap());
	vh_int("super", ep_curve_is_super());
	vh_int("pairf", ep_curve_is_pairf());
	vh_int("EP_BN", (long)EP_BN); vh_int("EP_B12", (long)EP_B12);
	fp_prime_get_par(K);
	vh_bn("par", K);
	vh_bytes("tag", (const uint8_t *)RLC_STRING, strlen(RLC_STRING));
	vh_fp("mu", ctx->ep_map_u);
	fp_list("mc", ctx->ep_map_c, 5);
#ifdef EP_CTMAP
	if (ep_curve_is_ctmap()) {
		iso_t iso = ep_curve_get_iso();
		vh_fp("ia", iso->a); vh_fp("ib", iso->b);
		fp_list("ixn", iso->xn, iso->deg_xn + 1);
		fp_list("ixd", iso->xd, iso->deg_xd + 1);
		fp_list("iyn", iso->yn, iso->deg_yn + 1);
		fp_list("iyd", iso->yd, iso->deg_yd + 1);
	}
#endif
}

static void fin(int err, int err2) {
	vh_int("crash", 0);
	vh_int("err", err);
	vh_int("err2", err2);
	vh_int("code", vh_code());
	ev_end();
}

static void ep_stale(ep_t r, int v) {
	fp_set_dig(r->x, 0x1234 + v); fp_set_dig(r->y, 0x77 + v); fp_set_dig(r->z, 3); r->coord = PROJC;
}

typedef void (*epmap_f)(ep_t, const uint8_t *, size_t);
static void w_ep_map(ep_t p, const uint8_t *m, size_t l) { ep_map(p, m, l); }

/* unrelated library activity between the two evaluations of the same input */
static void ep_unrelated(size_t n) {
	int e;
	size_t i;
	uint8_t dig[64];
	for (i = 0; i < sizeof(other); i++) other[i] = (uint8_t)(0xA5 ^ (i * 7) ^ n);
	VH_TRY(e, ep_map_sswum(T, other, 1 + n % sizeof(other)));
	VH_TRY(e, ep_map_basic(T, other, sizeof(other)));
	bn_set_dig(K, 0x1D3); bn_lsh(K, K, 70); bn_add_dig(K, K, 0x55);
	VH_TRY(e, ep_mul_gen(T, K));
	VH_TRY(e, ep_mul(T, T, K));
	md_map(dig, other, sizeof(other));
	md_xmd(dig, 48, other, 5, (const uint8_t *)"another-DST", 11);
	(void)vh_code();
	(void)e;
}

static void do_ep_map(const char *op, epmap_f f, int rnd) {
	int err, err2 = 0;
	size_t n = vh_hex2bytes(vh_tok[2], msg, sizeof(msg), NULL);
	ep_stale(R, 0); ep_stale(R2, 1);
	ep_hdr(op);
	vh_bytes(rnd ? "rnd" : "msg", msg, n);
	MARK();
	VH_TRY(err, f(R, msg, n));
	vh_ep("R", R);
	ep_unrelated(n);
	VH_TRY(err2, f(R2, msg, n));
	vh_ep("R2", R2);
	fin(err, err2);
}

static void do_params(void) {
	ep_hdr("map_params");
	ep_curve_get_gen(T);
	vh_ep("G", T);
	fin(0, 0);
}

/* ---------------------------------------------------------------- curves over F_p^2 */
#if defined(WITH_EPX)
static ep2_t S, S2, U;
static void fp2_raw(fp2_t a) { fputc('[', vh_out); vh_fp_raw(a[0]); fputc(',', vh_out); vh_fp_raw(a[1]); fputc(']', vh_out); }
static void fp2_log(const char *k, fp2_t a) { fprintf(vh_out, ",\"%s\":", k); fp2_raw(a); }
static void fp2_list(const char *k, fp2_t *v, int n) {
	int i;
	fprintf(vh_out, ",\"%s\":[", k);
	for (i = 0; i < n; i++) { if (i) fputc(',', vh_out); fp2_raw(v[i]); }
	fputc(']', vh_out);
}
static void ep2_log(const char *k, ep2_t p) {
	fprintf(vh_out, ",\"%s\":{\"x\":", k); fp2_raw(p->x);
	fputs(",\"y\":", vh_out); fp2_raw(p->y);
	fputs(",\"z\":", vh_out); fp2_raw(p->z);
	fprintf(vh_out, ",\"c\":%d}", p->coord);
}
static void ep2_hdr(const char *op) {
	ctx_t *ctx = core_get();
	ev_begin(op);
	vh_fp_hdr();
	vh_str("curve", cur_curve);
	vh_int("qnr", (long)fp_prime_get_qnr());
	fp2_log("a2", ep2_curve_get_a());
	fp2_log("b2", ep2_curve_get_b());
	ep2_curve_get_ord(N); ep2_curve_get_cof(H);
	vh_bn("n", N); vh_bn("h", H);
	vh_int("lvl", ep_param_level());
	vh_int("fpp", (long)FP_PRIME);
	vh_int("defmap", (long)EP_MAP);
	vh_int("BASIC", (long)BASIC); vh_int("SSWUM", (long)SSWUM); vh_int("SWIFT", (long)SWIFT);
	vh_int("ctmap", ep2_curve_is_ctmap());
	vh_int("pairf", ep_curve_is_pairf());
	vh_int("EP_BN", (long)EP_BN); vh_int("EP_B12", (long)EP_B12);
	vh_int("mdlen", (long)RLC_MD_LEN); vh_int("fpbytes", (long)RLC_FP_BYTES);
	fp_prime_get_par(K);
	vh_bn("par", K);
	vh_bytes("tag", (const uint8_t *)"RELIC", 5);
	fp2_log("mu", ctx->ep2_map_u);
	fp2_list("mc", ctx->ep2_map_c, 4);
#ifdef EP_CTMAP
	if (ep2_curve_is_ctmap()) {
		iso2_t iso = ep2_curve_get_iso();
		fp2_log("ia", iso->a); fp2_log("ib", iso->b);
		fp2_list("ixn", iso->xn, iso->deg_xn + 1);
		fp2_list("ixd", iso->xd, iso->deg_xd + 1);
		fp2_list("iyn", iso->yn, iso->deg_yn + 1);
		fp2_list("iyd", iso->yd, iso->deg_yd + 1);
	}
#endif
}
typedef void (*ep2map_f)(ep2_t, const uint8_t *, size_t);
static void w_ep2_map(ep2_t p, const uint8_t *m, size_t l) { ep2_map(p, m, l); }
static void ep2_stale(ep2_t r, int v) {
	fp2_zero(r->x); fp2_zero(r->y); fp2_zero(r->z);
	fp_set_dig(r->x[0], 0x1234 + v); fp_set_dig(r->y[1], 0x77 + v); fp_set_dig(r->z[0], 3); r->coord = PROJC;
}
static void do_ep2_map(const char *op, ep2map_f f) {
	int err, err2 = 0, e;
	size_t n = vh_hex2bytes(vh_tok[2], msg, sizeof(msg), NULL);
	if (!ep2_curve_is_twist()) { ev_begin("BADCURVE"); vh_str("curve", vh_tok[1]); ev_end(); return; }
	ep2_stale(S, 0); ep2_stale(S2, 1);
	ep2_hdr(op);
	vh_bytes("msg", msg, n);
	MARK();
	VH_TRY(err, f(S, msg, n));
	ep2_log("R", S);
	ep_unrelated(n);
	VH_TRY(e, ep2_map_sswum(U, other, 7));
	VH_TRY(e, ep2_mul_gen(U, K));
	(void)vh_code();
	VH_TRY(err2, f(S2, msg, n));
	ep2_log("R2", S2);
	fin(err, err2);
}
static void do_params2(void) {
	if (!ep2_curve_is_twist()) { ev_begin("BADCURVE"); vh_str("curve", vh_tok[1]); ev_end(); return; }
	ep2_hdr("map_params2");
	ep2_curve_get_gen(U);
	ep2_log("G", U);
	fin(0, 0);
}
#endif

/* ---------------------------------------------------------------- Edwards curves */
#if defined(WITH_ED)
static ed_t E1, E2, E3;
static void ed_log(const char *k, const ed_t p) {
	fprintf(vh_out, ",\"%s\":{\"x\":", k); vh_fp_raw(p->x);
	fputs(",\"y\":", vh_out); vh_fp_raw(p->y);
	fputs(",\"z\":", vh_out); vh_fp_raw(p->z);
	fprintf(vh_out, ",\"c\":%d}", p->coord);
}
static void do_ed_map(const char *op, int dst) {
	ctx_t *ctx = core_get();
	int err, err2 = 0, e;
	size_t n = vh_hex2bytes(vh_tok[2], msg, sizeof(msg), NULL), dn = 5;
	memcpy(dstb, "RELIC", 5);
	if (dst) dn = vh_hex2bytes(vh_tok[3], dstb, sizeof(dstb), NULL);
	ev_begin(op);
	vh_fp_hdr();
	vh_str("curve", cur_curve);
	vh_fp("ca", ctx->ed_a); vh_fp("cd", ctx->ed_d);
	ed_curve_get_ord(N); ed_curve_get_cof(H);
	vh_bn("n", N); vh_bn("h", H);
	vh_int("lvl", ed_param_level());
	vh_int("fpp", (long)FP_PRIME);
	fp_list("mc", ctx->ed_map_c, 4);
	vh_bytes("msg", msg, n);
	vh_bytes("dst", dstb, dn);
	MARK();
	if (dst) VH_TRY(err, ed_map_dst(E1, msg, n, dstb, dn)); else VH_TRY(err, ed_map(E1, msg, n));
	ed_log("R", E1);
	/* unrelated: another message, another tag, a multiplication */
	VH_TRY(e, ed_map_dst(E3, (const uint8_t *)"other", 5, (const uint8_t *)"another-DST", 11));
	bn_set_dig(K, 0x1D3); bn_lsh(K, K, 70); bn_add_dig(K, K, 0x55);
	VH_TRY(e, ed_mul_gen(E3, K));
	VH_TRY(e, ed_map(E3, msg, n ? n - 1 : 0));
	(void)vh_code(); (void)e;
	if (dst) VH_TRY(err2, ed_map_dst(E2, msg, n, dstb, dn)); else VH_TRY(err2, ed_map(E2, msg, n));
	ed_log("R2", E2);
	fin(err, err2);
}
#endif

/* ---------------------------------------------------------------- binary curves */
#if defined(WITH_EB)
static eb_t B1, B2, B3;
static void eb_log(const char *k, const eb_t p) {
	fprintf(vh_out, ",\"%s\":{\"x\":", k); vh_digs_raw(p->x, RLC_FB_DIGS);
	fputs(",\"y\":", vh_out); vh_digs_raw(p->y, RLC_FB_DIGS);
	fputs(",\"z\":", vh_out); vh_digs_raw(p->z, RLC_FB_DIGS);
	fprintf(vh_out, ",\"c\":%d}", p->coord);
}
static void do_eb_map(const char *op) {
	int err, err2 = 0, e;
	size_t n = vh_hex2bytes(vh_tok[2], msg, sizeof(msg), NULL);
	ev_begin(op);
	vh_str("curve", cur_curve);
	vh_digs("f", fb_poly_get(), RLC_FB_DIGS);
	vh_int("m", (long)RLC_FB_BITS);
	vh_int("fbbytes", (long)RLC_FB_BYTES); vh_int("mdlen", (long)RLC_MD_LEN);
	vh_digs("ca", eb_curve_get_a(), RLC_FB_DIGS);
	vh_digs("cb", eb_curve_get_b(), RLC_FB_DIGS);
	eb_curve_get_ord(N); eb_curve_get_cof(H);
	vh_bn("n", N); vh_bn("h", H);
	vh_bytes("msg", msg, n);
	MARK();
	VH_TRY(err, eb_map(B1, msg, n));
	eb_log("R", B1);
	VH_TRY(e, eb_map(B3, (const uint8_t *)"other", 5));
	bn_set_dig(K, 0x1D3); bn_lsh(K, K, 70); bn_add_dig(K, K, 0x55);
	VH_TRY(e, eb_mul_gen(B3, K));
	(void)vh_code(); (void)e;
	VH_TRY(err2, eb_map(B2, msg, n));
	eb_log("R2", B2);
	fin(err, err2);
}
#endif

static int run_case(void) {
	const char *op = vh_tok[0];
#define OP(n) (strcmp(op, n) == 0)
	if (vh_ntok < 2) return 0;
	if (!set_curve(vh_tok[1])) {
		ev_begin("BADCURVE"); vh_str("curve", vh_tok[1]); ev_end();
		return 1;
	}
	if (OP("map_params")) do_params();
	else if (OP("rfc9380_bls12381g1")) { ep_hdr(op); fin(0, 0); }   /* constants only: the spec evaluates the RFC vector */
	else if (OP("ep_map")) do_ep_map(op, w_ep_map, 0);
	else if (OP("ep_map_basic")) do_ep_map(op, ep_map_basic, 0);
	else if (OP("ep_map_sswum")) do_ep_map(op, ep_map_sswum, 0);
	else if (OP("ep_map_swift")) do_ep_map(op, ep_map_swift, 0);
	else if (OP("ep_map_rnd")) do_ep_map(op, ep_map_rnd, 1);
#if defined(WITH_EPX)
	else if (OP("map_params2")) do_params2();
	else if (OP("ep2_map")) do_ep2_map(op, w_ep2_map);
	else if (OP("ep2_map_basic")) do_ep2_map(op, ep2_map_basic);
	else if (OP("ep2_map_sswum")) do_ep2_map(op, ep2_map_sswum);
	else if (OP("ep2_map_swift")) do_ep2_map(op, ep2_map_swift);
#endif
#if defined(WITH_ED)
	else if (OP("ed_map")) do_ed_map(op, 0);
	else if (OP("ed_map_dst")) do_ed_map(op, 1);
#endif
#if defined(WITH_EB)
	else if (OP("eb_map")) do_eb_map(op);
#endif
	else return 0;
	return 1;
}

int main(int argc, char **argv) {
	long start, idx = 0;
	FILE *in = vh_open(argc, argv, &start);
	real_out = vh_out;
	map_install();
	if (core_init() != RLC_OK) return 2;
	ep_null(R); ep_null(R2); ep_null(T);
	ep_new(R); ep_new(R2); ep_new(T);
	bn_null(N); bn_null(H); bn_null(K);
	bn_new(N); bn_new(H); bn_new(K);
#if defined(WITH_EPX)
	ep2_null(S); ep2_null(S2); ep2_null(U);
	ep2_new(S); ep2_new(S2); ep2_new(U);
#endif
#if defined(WITH_ED)
	ed_null(E1); ed_null(E2); ed_null(E3);
	ed_new(E1); ed_new(E2); ed_new(E3);
#endif
#if defined(WITH_EB)
	eb_null(B1); eb_null(B2); eb_null(B3);
	eb_new(B1); eb_new(B2); eb_new(B3);
#endif
	while (vh_next(in)) {
		if (idx++ < start) continue;
		vh_case = idx - 1;
		alarm(60);
		if (!run_case()) { fprintf(stderr, "unknown op %s\n", vh_tok[0]); return 2; }
		alarm(0);
	}
	fclose(real_out);
	core_clean();
	return 0;
}
