/*
 * drv_codec3.c - conformance driver for the binary codecs of extension-field and target-group
 * elements (C07, third part): fpN_size_bin / fpN_write_bin / fpN_read_bin for N = 3, 4, 6, 8, 9, 12,
 * 16, 18, 24, 48, 54, the gt_* forms of the pairing group (macros over the tower of the build) and
 * fp12_pck / fp12_upk.
 *
 * Case line:  <sel> <op> <args...>
 *   sel = P<id> (fp_param_set) | E<curve name> (ep_param_set: pairing-friendly curve) | D<hex>
 *         (fp_prime_set_dense, tiny worlds)                        -- as in drv_fpx.c
 *   size  <N> <pack> <el>            fpN_size_bin(a[, pack])
 *   write <N> <pack> <len> <el>      fpN_write_bin(buf, len, a[, pack]) into a guarded buffer
 *   read  <N> <hex>                  fpN_read_bin(c, bytes, len), then re-encoding of the decoded
 *                                    object in the same format (pack iff len # N * RLC_FP_BYTES) and length
 *   gtsize / gtwrite / gtread        the same through gt_size_bin / gt_write_bin / gt_read_bin
 *   pck <N> <el> | upk <N> <el>      fp12_pck / fp12_upk (out of place and in place)
 *   element token = [c:|g:]<coef>,<coef>,...   one VALUE (hex, converted by the library; r:<hex> raw
 *   digits) per base-field coefficient in storage order;
 *     c: the library's fpN_conv_cyc is applied first (an element of the cyclotomic subgroup)
 *     g: the library's final exponentiation (gt_exp of pc_map's range: pp_exp_k12) - an element of G_T
 *     G:<k hex> e(g1, g2)^k computed by the library (pc_map, gt_exp)
 *   Inputs are logged RAW after this preparation: the specification judges what the call received.
 *
 * Event: {"op","lvl","i", field header p,w,fd,mont,fb, tower constants u2,xi,u3,x3 (as drv_fpx.c),
 *         "pack","len","size","a" (raw coefficient vector), "in"/"out"/"re" bytes, "g" guard verdict,
 *         "c" decoded object (raw), "rsize" = size_bin(c, same format), "err","code","eb","ev","em","unch"}
 */
#include "vh.h"

#if ALLOC != AUTO
#error "drv_codec3.c relies on the contiguous layout of ALLOC=AUTO"
#endif

#define FD ((int)RLC_FP_DIGS)
#define FB ((int)RLC_FP_BYTES)
#define MAXD 54

typedef fp_t S3;   typedef fp2_t S4;  typedef fp2_t S6;  typedef fp4_t S8;  typedef fp3_t S9;
typedef fp6_t S12; typedef fp8_t S16; typedef fp9_t S18; typedef fp8_t S24; typedef fp24_t S48; typedef fp18_t S54;

static fp_t A[MAXD], A0[MAXD], C[MAXD], C2[MAXD], T1[MAXD];

/* ---- per-level entry points (the pack argument exists at some levels only) */
#define NP(N) \
	static int sz##N(fp_t *a, int pack) { (void)pack; return fp##N##_size_bin((S##N *)a); } \
	static void wr##N(uint8_t *b, size_t l, fp_t *a, int pack) { (void)pack; fp##N##_write_bin(b, l, (S##N *)a); } \
	static void rd##N(fp_t *a, const uint8_t *b, size_t l) { fp##N##_read_bin((S##N *)a, b, l); }
#define PK(N) \
	static int sz##N(fp_t *a, int pack) { return fp##N##_size_bin((S##N *)a, pack); } \
	static void wr##N(uint8_t *b, size_t l, fp_t *a, int pack) { fp##N##_write_bin(b, l, (S##N *)a, pack); } \
	static void rd##N(fp_t *a, const uint8_t *b, size_t l) { fp##N##_read_bin((S##N *)a, b, l); }
#define CV(N) static void cv##N(fp_t *c, fp_t *a) { fp##N##_conv_cyc((S##N *)c, (S##N *)a); }
NP(3) NP(4) NP(6) PK(8) NP(9) PK(12) PK(16) PK(18) PK(24) PK(48) PK(54)
CV(8) CV(12) CV(16) CV(18) CV(24) CV(48) CV(54)

typedef struct {
	int lvl, packarg;
	int (*sz)(fp_t *, int);
	void (*wr)(uint8_t *, size_t, fp_t *, int);
	void (*rd)(fp_t *, const uint8_t *, size_t);
	void (*cv)(fp_t *, fp_t *);
} lv_t;
static const lv_t g_lv[] = {
	{ 3, 0, sz3, wr3, rd3, NULL }, { 4, 0, sz4, wr4, rd4, NULL }, { 6, 0, sz6, wr6, rd6, NULL },
	{ 8, 1, sz8, wr8, rd8, cv8 }, { 9, 0, sz9, wr9, rd9, NULL }, { 12, 1, sz12, wr12, rd12, cv12 },
	{ 16, 1, sz16, wr16, rd16, cv16 }, { 18, 1, sz18, wr18, rd18, cv18 }, { 24, 1, sz24, wr24, rd24, cv24 },
	{ 48, 1, sz48, wr48, rd48, cv48 }, { 54, 1, sz54, wr54, rd54, cv54 }, { 0, 0, NULL, NULL, NULL, NULL } };
static const lv_t *find_lv(int n) {
	const lv_t *l;
	for (l = g_lv; l->lvl; l++) if (l->lvl == n) return l;
	fprintf(stderr, "case %ld: no level %d\n", (long)vh_case, n); exit(2);
}
#ifdef WITH_PC
/* the pairing group's own names (macros in relic_pc.h); gt_t must be the dodecic tower for this driver */
static int gsz(fp_t *a, int pack) { return gt_size_bin(*(gt_t *)a, pack); }
static void gwr(uint8_t *b, size_t l, fp_t *a, int pack) { gt_write_bin(b, l, *(gt_t *)a, pack); }
static void grd(fp_t *a, const uint8_t *b, size_t l) { gt_read_bin(*(gt_t *)a, b, l); }
static const lv_t g_gt = { 12, 1, gsz, gwr, grd, cv12 };
#endif

/* ---- tower constants (as drv_fpx.c) */
static fp_t g_u2[2], g_xi[2], g_u3[3], g_x3[3];
static int g_pid = 0;
static void read_tower(void) {
	int err;
	fp_t t[3], s[3];
	memset(g_u2, 0, sizeof(g_u2)); memset(g_xi, 0, sizeof(g_xi)); memset(g_u3, 0, sizeof(g_u3)); memset(g_x3, 0, sizeof(g_x3));
	if (fp_prime_get_qnr() != 0) {
		fp_zero(t[0]); fp_set_dig(t[1], 1);
		VH_TRY(err, fp2_sqr(g_u2, t));
		fp_set_dig(t[0], 1); fp_zero(t[1]);
		VH_TRY(err, fp2_mul_nor(g_xi, t));
	}
	if (fp_prime_get_cnr() != 0) {
		fp_zero(t[0]); fp_set_dig(t[1], 1); fp_zero(t[2]);
		VH_TRY(err, fp3_sqr(s, t));
		VH_TRY(err, fp3_mul(g_u3, s, t));
		fp_set_dig(t[0], 1); fp_zero(t[1]); fp_zero(t[2]);
		VH_TRY(err, fp3_mul_nor(g_x3, t));
	}
	(void)err;
	vh_code();
}
static void vh_el(const char *k, fp_t *a, int n) {
	int i;
	fprintf(vh_out, ",\"%s\":[", k);
	for (i = 0; i < n; i++) { if (i) fputc(',', vh_out); vh_fp_raw(a[i]); }
	fputc(']', vh_out);
}
static void hdr(const char *op, int lvl) {
	vh_begin(op);
	vh_int("lvl", lvl);
	vh_fp_hdr();
	vh_int("fb", FB);
	vh_int("pid", g_pid);
	vh_el("u2", g_u2, 2); vh_el("xi", g_xi, 2); vh_el("u3", g_u3, 3); vh_el("x3", g_x3, 3);
	vh_int("eb", ERR_NO_BUFFER); vh_int("ev", ERR_NO_VALID); vh_int("em", ERR_MAX);
}
static int g_code;
#define XCALL(err, stmt) do { VH_TRY(err, stmt); g_code = vh_code(); } while (0)
static void fin(int err) {
	vh_int("err", err);
	vh_int("code", g_code);
	(void)vh_code();
	vh_end();
}
static int same(fp_t *a, fp_t *b, int n) {
	int i;
	for (i = 0; i < n; i++) if (memcmp(a[i], b[i], sizeof(dig_t) * FD) != 0) return 0;
	return 1;
}
static void cpy(fp_t *c, fp_t *a, int n) { int i; for (i = 0; i < n; i++) fp_copy(c[i], a[i]); }
static void stale(fp_t *c, int n) {
	int i, j;
	for (i = 0; i < n; i++) for (j = 0; j < FD; j++) c[i][j] = (dig_t)0x5a5a5a5a5a5a5a5aULL;
}

/* ---- guarded buffers (as drv_codec.c) */
#define GRD 4096           /* wide guards: a writer that ignores the buffer length lands in them, not in the heap */
typedef struct { uint8_t *base; uint8_t *p; size_t len; } gbuf_t;
static void gb_new(gbuf_t *g, size_t len) {
	g->base = malloc(len + 2 * GRD);
	if (!g->base) { perror("malloc"); exit(2); }
	memset(g->base, 0xA5, GRD);
	memset(g->base + GRD, 0x5C, len);
	memset(g->base + GRD + len, 0xA5, GRD);
	g->p = g->base + GRD;
	g->len = len;
}
static int gb_ok(const gbuf_t *g) {
	size_t i;
	for (i = 0; i < GRD; i++) if (g->base[i] != 0xA5 || g->base[GRD + g->len + i] != 0xA5) return 0;
	return 1;
}
static void gb_log(const char *k, const gbuf_t *g) { vh_bytes(k, g->p, g->len); vh_int("g", gb_ok(g)); }
static void gb_free(gbuf_t *g) { free(g->base); g->base = NULL; }
static uint8_t *in_bytes(const char *tok, size_t *len) {
	static uint8_t tmp[VH_LINE / 2];
	uint8_t *b;
	*len = vh_hex2bytes(tok[0] == '-' ? "" : tok, tmp, sizeof(tmp), NULL);
	b = malloc(*len + GRD);
	if (!b) { perror("malloc"); exit(2); }
	memcpy(b, tmp, *len);
	memset(b + *len, 0xA5, GRD);
	return b;
}

/* ---- element tokens */
static void set_el(fp_t *a, const lv_t *lv, const char *tok0) {
	static char buf[VH_LINE / 4];
	char *p, *q, mode = 0;
	int i = 0, n = lv->lvl, err = 0;
	const char *tok = tok0;
	if (tok[0] && tok[1] == ':' && tok[0] != 'r') { mode = tok[0]; tok += 2; }
	if (mode == 'G') {
#ifdef WITH_PC
		g1_t g1; g2_t g2; gt_t t; bn_t k;
		if (n != 12) { fprintf(stderr, "G: needs level 12\n"); exit(2); }
		g1_null(g1); g2_null(g2); gt_null(t); bn_null(k);
		g1_new(g1); g2_new(g2); gt_new(t); bn_new(k);
		vh_bn_set(k, tok);
		VH_TRY(err, (g1_get_gen(g1), g2_get_gen(g2), pc_map(t, g1, g2), gt_exp(t, t, k)));
		cpy(a, (fp_t *)t, 12);
		g1_free(g1); g2_free(g2); gt_free(t); bn_free(k);
		if (err) { fprintf(stderr, "case %ld: preparing %s failed\n", (long)vh_case, tok0); vh_code(); }
		return;
#else
		fprintf(stderr, "G: needs WITH_PC\n"); exit(2);
#endif
	}
	strncpy(buf, tok, sizeof(buf) - 1);
	for (p = buf; p && i < n; p = q) {
		q = strchr(p, ',');
		if (q) *q++ = 0;
		vh_fp_set(a[i], p);
		i++;
	}
	if (i != n || p) { fprintf(stderr, "case %ld: element %s does not have %d coefficients\n", (long)vh_case, tok0, n); exit(2); }
	if (mode == 'c') {
		if (!lv->cv) { fprintf(stderr, "no conv_cyc at level %d\n", n); exit(2); }
		VH_TRY(err, lv->cv(T1, a));
		cpy(a, T1, n);
	} else if (mode == 'g') {
#ifdef WITH_PP
		if (n != 12 || !ep_curve_is_pairf()) { fprintf(stderr, "g: needs a pairing-friendly curve with k = 12\n"); exit(2); }
		VH_TRY(err, pp_exp_k12((fp6_t *)T1, (fp6_t *)a));
		cpy(a, T1, n);
#else
		fprintf(stderr, "g: needs WITH_PP\n"); exit(2);
#endif
	} else if (mode) { fprintf(stderr, "bad element prefix in %s\n", tok0); exit(2); }
	if (err) { fprintf(stderr, "case %ld: preparing %s failed\n", (long)vh_case, tok0); vh_code(); }
}

/* ---- executors */
static void do_size(const char *op, const lv_t *lv) {
	int err, n = lv->lvl, pack = atoi(vh_tok[2]); volatile long sz = -1;
	set_el(A, lv, vh_tok[3]); cpy(A0, A, n);
	hdr(op, n);
	vh_int("pack", pack); vh_int("packarg", lv->packarg); vh_el("a", A, n);
	XCALL(err, sz = lv->sz(A, pack));
	vh_int("size", sz); vh_bool("unch", same(A, A0, n));
	fin(err);
}
static void do_write(const char *op, const lv_t *lv) {
	int err, serr, n = lv->lvl, pack = atoi(vh_tok[2]); long len = atol(vh_tok[3]); volatile long sz = -1; gbuf_t g;
	set_el(A, lv, vh_tok[4]); cpy(A0, A, n);
	gb_new(&g, (size_t)len);
	hdr(op, n);
	vh_int("pack", pack); vh_int("packarg", lv->packarg); vh_int("len", len); vh_el("a", A, n);
	VH_TRY(serr, sz = lv->sz(A, pack)); vh_code();
	vh_int("size", serr ? -1 : sz);
	XCALL(err, lv->wr(g.p, (size_t)len, A, pack));
	gb_log("out", &g); vh_bool("unch", same(A, A0, n));
	fin(err);
	gb_free(&g);
}
static void do_read(const char *op, const lv_t *lv) {
	int err, rerr = 0, serr = 0, n = lv->lvl, pk; size_t len; volatile long rs = -1;
	uint8_t *in = in_bytes(vh_tok[2], &len); gbuf_t g;
	stale(C, n);
	gb_new(&g, len);
	pk = lv->packarg && len != (size_t)n * FB;
	hdr(op, n);
	vh_bytes("in", in, len);
	XCALL(err, lv->rd(C, in, len));
	vh_el("c", C, n);
	if (!err) {
		VH_TRY(serr, rs = lv->sz(C, pk)); vh_code();
		VH_TRY(rerr, lv->wr(g.p, len, C, pk));
	}
	vh_int("rpack", pk); vh_int("rsize", serr ? -1 : rs); vh_int("rerr", rerr); gb_log("re", &g);
	fin(err);
	gb_free(&g); free(in);
}
/* fp12_pck / fp12_upk: out of place, then in place on a copy; both results are logged */
static void do_pck(const char *op, int upk) {
	int err, err2, n = 12; volatile int ret = -1, ret2 = -1;
	const lv_t *lv = find_lv(12);
	if (atoi(vh_tok[1]) != 12) { fprintf(stderr, "pck/upk: level 12 only\n"); exit(2); }
	set_el(A, lv, vh_tok[2]); cpy(A0, A, n); cpy(C2, A, n);
	stale(C, n);
	hdr(op, n);
	vh_el("a", A, n);
	if (upk) XCALL(err, ret = fp12_upk((fp6_t *)C, (fp6_t *)A)); else XCALL(err, fp12_pck((fp6_t *)C, (fp6_t *)A));
	vh_el("c", C, n); vh_int("ret", ret); vh_bool("unch", same(A, A0, n));
	if (upk) VH_TRY(err2, ret2 = fp12_upk((fp6_t *)C2, (fp6_t *)C2)); else VH_TRY(err2, fp12_pck((fp6_t *)C2, (fp6_t *)C2));
	vh_el("c2", C2, n); vh_int("ret2", ret2); vh_int("err2", err2);
	fin(err);
}

/* ---- selection (as drv_fpx.c) */
static char g_sel[1024] = "";
static void ensure_field(const char *sel) {
	int err = 0;
	if (strcmp(sel, g_sel) == 0) return;
	if (sel[0] == 'P') {
		g_pid = atoi(sel + 1);
		VH_TRY(err, fp_param_set(g_pid));
	} else if (sel[0] == 'E') {
		int id = -1;
		if (strncmp(sel + 1, "BN_P256", 7) == 0) id = BN_P256;
		else if (strncmp(sel + 1, "SM9_P256", 8) == 0) id = SM9_P256;
		else if (strncmp(sel + 1, "B12_P381", 8) == 0) id = B12_P381;
		else { fprintf(stderr, "unknown curve %s\n", sel); exit(2); }
		VH_TRY(err, ep_param_set(id));
#if defined(WITH_EPX)
		if (!err) VH_TRY(err, ep2_curve_set_twist(RLC_EP_DTYPE));
#endif
		if (!err) g_pid = fp_param_get();
	} else if (sel[0] == 'D') {
		bn_t p;
		bn_null(p); bn_new(p);
		vh_bn_set(p, sel + 1);
		g_pid = 0;
		VH_TRY(err, fp_prime_set_dense(p));
		bn_free(p);
	} else { fprintf(stderr, "bad selector %s\n", sel); exit(2); }
	vh_code();
	if (err) { fprintf(stderr, "selection %s failed\n", sel); exit(2); }
	read_tower();
	strncpy(g_sel, sel, sizeof(g_sel) - 1);
}

static int run_case(void) {
	const char *op = vh_tok[0];
	if (strcmp(op, "size") == 0) do_size("size_bin", find_lv(atoi(vh_tok[1])));
	else if (strcmp(op, "write") == 0) do_write("write_bin", find_lv(atoi(vh_tok[1])));
	else if (strcmp(op, "read") == 0) do_read("read_bin", find_lv(atoi(vh_tok[1])));
#ifdef WITH_PC
	else if (strcmp(op, "gtsize") == 0) do_size("gt_size_bin", &g_gt);
	else if (strcmp(op, "gtwrite") == 0) do_write("gt_write_bin", &g_gt);
	else if (strcmp(op, "gtread") == 0) do_read("gt_read_bin", &g_gt);
#endif
	else if (strcmp(op, "pck") == 0) do_pck("pck", 0);
	else if (strcmp(op, "upk") == 0) do_pck("upk", 1);
	else return 0;
	return 1;
}

int main(int argc, char **argv) {
	long start, idx = 0;
	FILE *in = vh_open(argc, argv, &start);
	if (core_init() != RLC_OK) return 2;
#ifdef WITH_PC
	if (sizeof(gt_t) != sizeof(fp12_t)) { fprintf(stderr, "gt_t is not fp12_t in this build\n"); return 2; }
#endif
	while (vh_next(in)) {
		if (idx++ < start) continue;
		vh_case = idx - 1;
		alarm(60);
		ensure_field(vh_tok[0]);
		memmove(vh_tok, vh_tok + 1, sizeof(vh_tok[0]) * (size_t)(vh_ntok - 1));
		vh_ntok--;
		if (!run_case()) { fprintf(stderr, "unknown op %s\n", vh_tok[0]); return 2; }
		alarm(0);
	}
	fclose(vh_out);
	core_clean();
	return 0;
}
