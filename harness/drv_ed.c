/*
 * drv_ed.c - conformance driver for twisted Edwards curves (C17): group law in every
 * coordinate system, every scalar multiplication, compression, byte formats, hashing.
 *
 * Case line:  <op> <curve> <alias> <args...>
 *   curve   id<N>                                  ed_param_set(N)
 *           t:<p>:<a>:<d>:<gx>:<gy>:<r>:<h>        (hex VALUES) tiny world: fp_prime_set_dense + the public
 *                                                  context fields ed_a, ed_d, ed_g, ed_r, ed_h written directly
 *                                                  (the module has no curve installer) + ed_mul_pre for the table
 *   point   inf                                    ed_set_infty
 *           <x>,<y>[/<rep>]                        affine VALUES as given (may be off the curve); T is always set
 *                                                  consistently (T = x*y*z) unless rep says otherwise
 *           rep: a (default: tag BASIC, z = 1) | P | E (retag PROJC / EXTND, z = 1)
 *                p<z> | e<z> ((x*z, y*z, z), tag PROJC / EXTND)   t<z> (as e<z> with T off by one: invalid T)
 *   scalar  hex with optional '-'
 *
 * Event: {"op","i", p,w,fd,mont (field header), "ca","cd" raw a,d, "n","h" order/cofactor (bn), "add","mul","fix","sim"
 *         (ED_ADD, ED_MUL, ED_FIX, ED_SIM),
 *         "fpb","fb","wd","dep","dgb","al", inputs "P","Q" raw points {x,y,z,t,c} / "k","m" bn / "dg" digit /
 *         "ps","ks" lists (before the call), outputs "R" raw point / "ret" / "bin" (after), "crash","err","code","unch"}
 */
#include "vh.h"

#define TAB_MAX RLC_ED_TABLE_MAX
static ed_t P, Q, R, R2, P0, Q0, G;
static bn_t K, M, K0, M0, N, H;
static ed_t TAB[TAB_MAX];
#define LOT_MAX 24
static ed_t LP[LOT_MAX], LP0[LOT_MAX], LR[LOT_MAX];
static bn_t LK[LOT_MAX], LK0[LOT_MAX];

static char cur_curve[4096];
static int cur_ok = 0;

/* ------------------------------------------------------------ event buffering (see drv_ep.c) */
static FILE *real_out;
static char *mbuf;
static size_t mlen, safe_len;
static volatile int in_event;

static void ev_begin(const char *op) {
	mbuf = NULL; mlen = 0; safe_len = 0;
	vh_out = open_memstream(&mbuf, &mlen);
	if (!vh_out) { perror("open_memstream"); exit(2); }
	in_event = 1;
	vh_begin(op);
}
static void ev_end(void) {
	vh_end();
	fclose(vh_out);
	in_event = 0;
	fwrite(mbuf, 1, mlen, real_out);
	fflush(real_out);
	free(mbuf);
	vh_out = real_out;
}
#define MARK() do { fflush(vh_out); safe_len = mlen; } while (0)

static void ed_fatal(int sig) {
	char buf[200];
	int n;
	const char *what = (sig == SIGALRM) ? "TIMEOUT" : "CRASH";
	if (in_event && safe_len > 0) {
		if (write(vh_outfd, mbuf, safe_len) < 0) {}
		n = snprintf(buf, sizeof(buf), ",\"crash\":%d,\"err\":0,\"code\":0,\"unch\":false}\n", sig);
		if (write(vh_outfd, buf, n) < 0) {}
		what = "restart";
	}
	n = snprintf(buf, sizeof(buf), "{\"op\":\"%s\",\"i\":%ld,\"sig\":%d}\n", what, (long)vh_case, sig);
	if (write(vh_outfd, buf, n) < 0) {}
	_exit(sig == SIGALRM ? 3 : 4);
}
static void ed_install(void) {
	signal(SIGSEGV, ed_fatal); signal(SIGBUS, ed_fatal); signal(SIGFPE, ed_fatal);
	signal(SIGABRT, ed_fatal); signal(SIGILL, ed_fatal); signal(SIGALRM, ed_fatal);
}

/* ------------------------------------------------------------ raw projection of an ed point */
static void vh_ed_raw(const ed_t p) {
	fputs("{\"x\":", vh_out); vh_fp_raw(p->x);
	fputs(",\"y\":", vh_out); vh_fp_raw(p->y);
	fputs(",\"z\":", vh_out); vh_fp_raw(p->z);
	fputs(",\"t\":", vh_out); vh_fp_raw(p->t);
	fprintf(vh_out, ",\"c\":%d}", p->coord);
}
static void vh_ed(const char *k, const ed_t p) {
	fprintf(vh_out, ",\"%s\":", k);
	vh_ed_raw(p);
}
static int ed_same(const ed_t a, const ed_t b) {
	size_t n = sizeof(dig_t) * RLC_FP_DIGS;
	return memcmp(a->x, b->x, n) == 0 && memcmp(a->y, b->y, n) == 0 && memcmp(a->z, b->z, n) == 0
		&& memcmp(a->t, b->t, n) == 0 && a->coord == b->coord;
}
/* full copy incl. t in every build (ed_copy copies t only in EXTND builds) */
static void ed_clone(ed_t r, const ed_t p) { memcpy(r, p, sizeof(ed_st)); }

/* ------------------------------------------------------------ curve */
static int set_tiny(char *spec) {
	/* t:p:a:d:gx:gy:r:h */
	char *f[10];
	int nf = 0, err = 0, code;
	char *s = spec;
	ctx_t *ctx = core_get();
	bn_t p;
	ed_t g;
	while (nf < 10) {
		f[nf++] = s;
		s = strchr(s, ':');
		if (!s) break;
		*s++ = 0;
	}
	if (nf != 8) return 0;
	bn_null(p); bn_new(p); ed_null(g); ed_new(g);
	vh_bn_set(p, f[1]);
	VH_TRY(err, fp_prime_set_dense(p));
	code = vh_code();
	if (err || code) return 0;
	vh_fp_set(ctx->ed_a, f[2]);
	vh_fp_set(ctx->ed_d, f[3]);
	vh_fp_set(g->x, f[4]); vh_fp_set(g->y, f[5]); fp_set_dig(g->z, 1);
	fp_mul(g->t, g->x, g->y);
	g->coord = BASIC;
	memcpy(&ctx->ed_g, g, sizeof(ed_st));
	vh_bn_set(&ctx->ed_r, f[6]);
	vh_bn_set(&ctx->ed_h, f[7]);
	ctx->ed_id = 0;
#ifdef ED_PRECO
	{
		int i;
		for (i = 0; i < RLC_ED_TABLE; i++) ctx->ed_ptr[i] = &(ctx->ed_pre[i]);
		VH_TRY(err, ed_mul_pre((ed_t *)ed_curve_get_tab(), &ctx->ed_g));
		code = vh_code();
		if (err || code) return 0;
	}
#endif
	bn_free(p);
	return 1;
}

static int set_curve(const char *spec) {
	int err = 0;
	if (strcmp(spec, cur_curve) == 0) return cur_ok;
	if (strlen(spec) >= sizeof(cur_curve)) return 0;
	strcpy(cur_curve, spec);
	cur_ok = 0;
	if (spec[0] == 'i' && spec[1] == 'd') {
		int id = atoi(spec + 2);
		int code;
		VH_TRY(err, ed_param_set(id));
		code = vh_code();
		cur_ok = (err == 0) && (code == 0);
	} else if (spec[0] == 't' && spec[1] == ':') {
		static char tmp[4096];
		strcpy(tmp, spec);
		cur_ok = set_tiny(tmp);
	}
	if (cur_ok) {
		ed_curve_get_gen(G);
		ed_curve_get_ord(N);
		ed_curve_get_cof(H);
	}
	return cur_ok;
}

/* ------------------------------------------------------------ points */
static void set_point(ed_t p, char *tok0) {
	static char tok[2048];
	char *rep, *y;
	fp_t z;
	strncpy(tok, tok0, sizeof(tok) - 1);
	rep = strchr(tok, '/');
	if (rep) *rep++ = 0;
	if (strcmp(tok, "inf") == 0) { ed_set_infty(p); fp_zero(p->t); return; }
	y = strchr(tok, ',');
	if (!y) { fprintf(stderr, "bad point token %s\n", tok0); exit(2); }
	*y++ = 0;
	vh_fp_set(p->x, tok); vh_fp_set(p->y, y);
	fp_set_dig(p->z, 1);
	fp_mul(p->t, p->x, p->y);
	p->coord = BASIC;
	if (!rep || rep[0] == 'a') return;
	if (rep[0] == 'P') { p->coord = PROJC; return; }
	if (rep[0] == 'E') { p->coord = EXTND; return; }
	fp_null(z); fp_new(z);
	vh_fp_set(z, rep + 1);
	fp_mul(p->x, p->x, z); fp_mul(p->y, p->y, z); fp_mul(p->t, p->t, z); fp_copy(p->z, z);
	if (rep[0] == 'p') p->coord = PROJC;
	else if (rep[0] == 'e') p->coord = EXTND;
	else if (rep[0] == 't') { p->coord = EXTND; fp_add_dig(p->t, p->t, 1); }
	else { fprintf(stderr, "bad representation %s\n", rep); exit(2); }
	fp_free(z);
}
static void set_stale(ed_t r) {
	/* stale output content: something that is no valid answer to anything */
	int i;
	for (i = 0; i < (int)RLC_FP_DIGS; i++) {
		r->x[i] = (dig_t)0x1111111111111111ULL; r->y[i] = (dig_t)0x2222222222222222ULL;
		r->z[i] = (dig_t)0x3333333333333333ULL; r->t[i] = (dig_t)0x4444444444444444ULL;
	}
	r->x[RLC_FP_DIGS - 1] &= 0x3f; r->y[RLC_FP_DIGS - 1] &= 0x3f; r->z[RLC_FP_DIGS - 1] &= 0x3f; r->t[RLC_FP_DIGS - 1] &= 0x3f;
	r->coord = PROJC;
}

/* ------------------------------------------------------------ events */
static void hdr(const char *op, int al) {
	ev_begin(op);
	vh_fp_hdr();
	vh_fp("ca", core_get()->ed_a);
	vh_fp("cd", core_get()->ed_d);
	vh_bn("n", N);
	vh_bn("h", H);
	vh_int("add", (long)ED_ADD);
	vh_int("mul", (long)ED_MUL);
	vh_int("fix", (long)ED_FIX);
	vh_int("sim", (long)ED_SIM);
	vh_int("fpb", (long)RLC_FP_BITS);
	vh_int("fb", (long)RLC_FP_BYTES);
	vh_int("wd", (long)RLC_WIDTH);
	vh_int("dep", (long)RLC_DEPTH);
	vh_int("dgb", (long)RLC_DIG);
	vh_int("EQ", RLC_EQ);
	vh_int("al", al);
}

static void fin(int err, int unch) {
	vh_int("crash", 0);
	vh_int("err", err);
	vh_int("code", vh_code());
	vh_bool("unch", unch);
	ev_end();
}

/* r = f(p): al 0 none, 1 r == p */
typedef void (*un_f)(ed_t, const ed_t);
static void do_un(const char *op, un_f f, int al) {
	int err, unch = 1;
	ed_st *pp = P, *pr = R;
	set_point(P, vh_tok[3]);
	if (al == 1) pr = pp;
	ed_clone(P0, P);
	set_stale(R);
	hdr(op, al);
	vh_ed("P", pp);
	MARK();
	VH_TRY(err, f(pr, pp));
	vh_ed("R", pr);
	if (pr != pp) unch &= ed_same(P, P0);
	fin(err, unch);
}

/* r = f(p, q): al 0 none, 1 r == p, 2 r == q, 3 p == q, 4 r == p == q */
typedef void (*bin_f)(ed_t, const ed_t, const ed_t);
static void do_bin(const char *op, bin_f f, int al) {
	int err, unch = 1;
	ed_st *pp = P, *pq = Q, *pr = R;
	set_point(P, vh_tok[3]);
	set_point(Q, vh_tok[4]);
	if (al == 3 || al == 4) pq = pp;
	if (al == 1 || al == 4) pr = pp;
	if (al == 2) pr = pq;
	ed_clone(P0, P); ed_clone(Q0, Q);
	set_stale(R);
	hdr(op, al);
	vh_ed("P", pp); vh_ed("Q", pq);
	MARK();
	VH_TRY(err, f(pr, pp, pq));
	vh_ed("R", pr);
	if (pr != pp) unch &= ed_same(P, P0);
	if (pr != pq && pq != pp) unch &= ed_same(Q, Q0);
	fin(err, unch);
}

/* which: 0 ed_cmp, 1 ed_on_curve, 2 ed_is_infty, 3 witness (ed_on_curve + the order the generator claims) */
static void do_query(const char *op, int which) {
	int err;
	volatile long ret = 0;
	set_point(P, vh_tok[3]);
	ed_clone(P0, P);
	if (which == 0) { set_point(Q, vh_tok[4]); ed_clone(Q0, Q); }
	hdr(op, 0);
	vh_ed("P", P);
	if (which == 0) vh_ed("Q", Q);
	if (which == 3) vh_int("ord", atol(vh_tok[4]));     /* 2, 4, 8 or 0 = the prime order n */
	MARK();
	switch (which) {
		case 0: VH_TRY(err, ret = ed_cmp(P, Q)); break;
		case 1: case 3: VH_TRY(err, ret = ed_on_curve(P)); break;
		case 2: VH_TRY(err, ret = ed_is_infty(P)); break;
		default: err = 0;
	}
	vh_int("ret", ret);
	fin(err, ed_same(P, P0) && (which != 0 || ed_same(Q, Q0)));
}

/* ed_norm_sim(r[], t[], n): al 0 separate arrays, 1 in place */
static void do_norm_sim(const char *op, int al) {
	int err, unch = 1, i, n = atoi(vh_tok[3]);
	ed_t *pr = (al == 1) ? LP : LR;
	if (n < 1 || n > LOT_MAX || vh_ntok < 4 + n) { fprintf(stderr, "bad norm_sim case\n"); exit(2); }
	for (i = 0; i < n; i++) { set_point(LP[i], vh_tok[4 + i]); ed_clone(LP0[i], LP[i]); set_stale(LR[i]); }
	hdr(op, al);
	vh_int("cnt", n);
	fputs(",\"ps\":[", vh_out);
	for (i = 0; i < n; i++) { if (i) fputc(',', vh_out); vh_ed_raw(LP[i]); }
	fputc(']', vh_out);
	MARK();
	VH_TRY(err, ed_norm_sim(pr, (const ed_t *)LP, n));
	fputs(",\"rs\":[", vh_out);
	for (i = 0; i < n; i++) { if (i) fputc(',', vh_out); vh_ed_raw(pr[i]); }
	fputc(']', vh_out);
	if (al != 1) for (i = 0; i < n; i++) unch &= ed_same(LP[i], LP0[i]);
	fin(err, unch);
}

/* r = [k]p: al 0 none, 1 r == p */
typedef void (*mul_f)(ed_t, const ed_t, const bn_t);
static void do_mul(const char *op, mul_f f, int al) {
	int err, unch = 1;
	ed_st *pp = P, *pr = R;
	set_point(P, vh_tok[3]);
	vh_bn_set(K, vh_tok[4]);
	if (al == 1) pr = pp;
	ed_clone(P0, P); bn_copy(K0, K);
	set_stale(R);
	hdr(op, al);
	vh_ed("P", pp); vh_bn("k", K);
	MARK();
	VH_TRY(err, f(pr, pp, K));
	vh_ed("R", pr);
	if (pr != pp) unch &= ed_same(P, P0);
	unch &= vh_bn_same(K, K0);
	fin(err, unch);
}

static void do_mul_gen(const char *op) {
	int err, unch = 1;
	ed_curve_get_gen(P);
	vh_bn_set(K, vh_tok[3]);
	bn_copy(K0, K);
	set_stale(R);
	hdr(op, 0);
	vh_ed("P", P); vh_bn("k", K);
	MARK();
	VH_TRY(err, ed_mul_gen(R, K));
	vh_ed("R", R);
	unch &= vh_bn_same(K, K0);
	fin(err, unch);
}

static void do_mul_dig(const char *op, int al) {
	int err, unch = 1;
	ed_st *pp = P, *pr = R;
	dig_t d = vh_dig_tok(vh_tok[4]);
	set_point(P, vh_tok[3]);
	if (al == 1) pr = pp;
	ed_clone(P0, P);
	set_stale(R);
	hdr(op, al);
	vh_ed("P", pp); vh_dig("dg", d);
	MARK();
	VH_TRY(err, ed_mul_dig(pr, pp, d));
	vh_ed("R", pr);
	if (pr != pp) unch &= ed_same(P, P0);
	fin(err, unch);
}

/* fixed base: table built by the matching builder from P (cached for the same curve/point/builder) */
typedef void (*pre_f)(ed_t *, const ed_t);
typedef void (*fix_f)(ed_t, const ed_t *, const bn_t);
static char tab_key[8192];
static void do_fix(const char *op, pre_f pre, fix_f fix) {
	int err = 0, err2 = 0, unch = 1, i;
	static char key[8192];
	snprintf(key, sizeof(key), "%s|%s|%s", op, cur_curve, vh_tok[3]);
	set_point(P, vh_tok[3]);
	ed_clone(P0, P);
	vh_bn_set(K, vh_tok[4]);
	bn_copy(K0, K);
	if (strcmp(key, tab_key) != 0) {
		for (i = 0; i < (int)TAB_MAX; i++) set_stale(TAB[i]);
		VH_TRY(err, pre(TAB, P));
		strcpy(tab_key, err ? "" : key);
	}
	set_stale(R);
	hdr(op, 0);
	vh_ed("P", P); vh_bn("k", K);
	vh_int("perr", err);
	MARK();
	if (!err) VH_TRY(err2, fix(R, (const ed_t *)TAB, K));
	vh_ed("R", R);
	unch &= ed_same(P, P0) && vh_bn_same(K, K0);
	fin(err ? err : err2, unch);
}

/* r = [k]p + [m]q: al 0 none, 1 r == p, 2 r == q, 3 p == q */
typedef void (*sim_f)(ed_t, const ed_t, const bn_t, const ed_t, const bn_t);
static void do_sim(const char *op, sim_f f, int al) {
	int err, unch = 1;
	ed_st *pp = P, *pq = Q, *pr = R;
	set_point(P, vh_tok[3]);
	vh_bn_set(K, vh_tok[4]);
	set_point(Q, vh_tok[5]);
	vh_bn_set(M, vh_tok[6]);
	if (al == 3) pq = pp;
	if (al == 1) pr = pp;
	if (al == 2) pr = pq;
	ed_clone(P0, P); ed_clone(Q0, Q); bn_copy(K0, K); bn_copy(M0, M);
	set_stale(R);
	hdr(op, al);
	vh_ed("P", pp); vh_bn("k", K); vh_ed("Q", pq); vh_bn("m", M);
	MARK();
	VH_TRY(err, f(pr, pp, K, pq, M));
	vh_ed("R", pr);
	if (pr != pp) unch &= ed_same(P, P0);
	if (pr != pq && pq != pp) unch &= ed_same(Q, Q0);
	unch &= vh_bn_same(K, K0) && vh_bn_same(M, M0);
	fin(err, unch);
}

/* r = [k]G + [m]q: al 0 none, 2 r == q */
static void do_sim_gen(const char *op, int al) {
	int err, unch = 1;
	ed_st *pq = Q, *pr = R;
	ed_curve_get_gen(P);
	vh_bn_set(K, vh_tok[3]);
	set_point(Q, vh_tok[4]);
	vh_bn_set(M, vh_tok[5]);
	if (al == 2) pr = pq;
	ed_clone(Q0, Q); bn_copy(K0, K); bn_copy(M0, M);
	set_stale(R);
	hdr(op, al);
	vh_ed("P", P); vh_bn("k", K); vh_ed("Q", pq); vh_bn("m", M);
	MARK();
	VH_TRY(err, ed_mul_sim_gen(pr, K, pq, M));
	vh_ed("R", pr);
	if (pr != pq) unch &= ed_same(Q, Q0);
	unch &= vh_bn_same(K, K0) && vh_bn_same(M, M0);
	fin(err, unch);
}

/* r = sum [k_i]p_i : <n> then n pairs (point, scalar) */
static void do_lot(const char *op) {
	int err, unch = 1, i, n = atoi(vh_tok[3]);
	if (n > LOT_MAX || vh_ntok < 4 + 2 * n) { fprintf(stderr, "bad lot case\n"); exit(2); }
	for (i = 0; i < n; i++) {
		set_point(LP[i], vh_tok[4 + 2 * i]);
		ed_clone(LP0[i], LP[i]);
		vh_bn_set(LK[i], vh_tok[5 + 2 * i]); bn_copy(LK0[i], LK[i]);
	}
	set_stale(R);
	hdr(op, 0);
	vh_int("cnt", n);
	fputs(",\"ps\":[", vh_out);
	for (i = 0; i < n; i++) { if (i) fputc(',', vh_out); vh_ed_raw(LP[i]); }
	fputs("],\"ks\":[", vh_out);
	for (i = 0; i < n; i++) { if (i) fputc(',', vh_out); vh_bn_raw(LK[i]); }
	fputc(']', vh_out);
	MARK();
	VH_TRY(err, ed_mul_sim_lot(R, (const ed_t *)LP, (const bn_t *)LK, n));
	vh_ed("R", R);
	for (i = 0; i < n; i++) unch &= ed_same(LP[i], LP0[i]) && vh_bn_same(LK[i], LK0[i]);
	fin(err, unch);
}

/* ------------------------------------------------------------ compression and byte formats */
/* ed_pck(r, p): al 0/1 */
static void do_pck(const char *op, int al) {
	int err, unch = 1;
	ed_st *pp = P, *pr = R;
	set_point(P, vh_tok[3]);
	if (al == 1) pr = pp;
	ed_clone(P0, P);
	set_stale(R);
	hdr(op, al);
	vh_ed("P", pp);
	MARK();
	VH_TRY(err, ed_pck(pr, pp));
	vh_ed("R", pr);
	if (pr != pp) unch &= ed_same(P, P0);
	fin(err, unch);
}
/* ed_upk(r, p) on the packed form (y VALUE, bit): args <y> <bit>; al 0/1.  Called for both bits:
 * "R","ret" for the bit given, "R2","ret2" for the other one */
static void do_upk(const char *op, int al) {
	int err, err2 = 0, unch = 1, b = atoi(vh_tok[4]) & 1;
	volatile long ret = -99, ret2 = -99;
	ed_st *pp = P, *pr = R;
	set_stale(P);
	vh_fp_set(P->y, vh_tok[3]);
	fp_zero(P->x); fp_set_bit(P->x, 0, b);
	fp_set_dig(P->z, 1); fp_zero(P->t);
	P->coord = BASIC;
	ed_clone(Q, P);
	fp_zero(Q->x); fp_set_bit(Q->x, 0, b ^ 1);
	if (al == 1) pr = pp;
	ed_clone(P0, P);
	set_stale(R); set_stale(R2);
	hdr(op, al);
	vh_ed("P", pp);
	MARK();
	VH_TRY(err, ret = ed_upk(pr, pp));
	vh_ed("R", pr);
	vh_int("ret", ret);
	if (pr != pp) unch &= ed_same(P, P0);
	if (!err) VH_TRY(err2, ret2 = ed_upk(R2, Q));
	vh_ed("R2", R2);
	vh_int("ret2", ret2);
	fin(err ? err : err2, unch);
}
/* round trip ed_pck then ed_upk: "Q" = the packed form in between */
static void do_pck_upk(const char *op) {
	int err, err2 = 0, unch = 1;
	volatile long ret = -99;
	set_point(P, vh_tok[3]);
	ed_clone(P0, P);
	set_stale(Q); set_stale(R);
	hdr(op, 0);
	vh_ed("P", P);
	MARK();
	VH_TRY(err, ed_pck(Q, P));
	vh_ed("Q", Q);
	if (!err) VH_TRY(err2, ret = ed_upk(R, Q));
	vh_ed("R", R);
	vh_int("ret", ret);
	unch &= ed_same(P, P0);
	fin(err ? err : err2, unch);
}
static uint8_t BIN[8 * RLC_FP_BYTES + 64], BIN0[8 * RLC_FP_BYTES + 64];
/* ed_write_bin(bin, len, p, pack): args <point> <pack> <len>; also logs ed_size_bin */
static void do_write_bin(const char *op) {
	int err, pack = atoi(vh_tok[4]);
	size_t len = (size_t)atol(vh_tok[5]);
	volatile long sz = -1;
	set_point(P, vh_tok[3]);
	ed_clone(P0, P);
	if (len > sizeof(BIN) - 8) { fprintf(stderr, "len too large\n"); exit(2); }
	memset(BIN, 0x5a, sizeof(BIN));
	hdr(op, 0);
	vh_ed("P", P); vh_int("pack", pack); vh_int("len", (long)len);
	MARK();
	VH_TRY(err, (sz = (long)ed_size_bin(P, pack), ed_write_bin(BIN, len, P, pack)));
	vh_bytes("bin", BIN, len);
	vh_bytes("guard", BIN + len, 4);
	vh_int("size", sz);
	fin(err, ed_same(P, P0));
}
/* ed_read_bin(a, bin, len): arg = hex of the bytes */
static void do_read_bin(const char *op) {
	int err;
	size_t n = vh_hex2bytes(vh_tok[3], BIN, sizeof(BIN), NULL);
	memcpy(BIN0, BIN, sizeof(BIN));
	set_stale(R);
	hdr(op, 0);
	vh_bytes("bin", BIN, n); vh_int("len", (long)n);
	MARK();
	VH_TRY(err, ed_read_bin(R, BIN, n));
	vh_ed("R", R);
	fin(err, memcmp(BIN, BIN0, sizeof(BIN)) == 0);
}
/* round trip: ed_write_bin(p, pack) with the length ed_size_bin reports, then ed_read_bin */
static void do_bin_rt(const char *op) {
	int err, err2 = 0, pack = atoi(vh_tok[4]);
	volatile long sz = 0;
	set_point(P, vh_tok[3]);
	ed_clone(P0, P);
	memset(BIN, 0x5a, sizeof(BIN));
	set_stale(R);
	hdr(op, 0);
	vh_ed("P", P); vh_int("pack", pack);
	MARK();
	VH_TRY(err, (sz = (long)ed_size_bin(P, pack), ed_write_bin(BIN, (size_t)sz, P, pack)));
	vh_int("size", sz);
	vh_bytes("bin", BIN, sz > 0 && (size_t)sz < sizeof(BIN) ? (size_t)sz : 0);
	if (!err) VH_TRY(err2, ed_read_bin(R, BIN, (size_t)sz));
	vh_ed("R", R);
	fin(err ? err : err2, ed_same(P, P0));
}

/* ed_map / ed_map_dst: called twice on the same input (determinism) */
static void do_map(const char *op, int dst) {
	static uint8_t msg[4096], dd[512];
	int err, err2 = 0;
	size_t n = vh_hex2bytes(vh_tok[3], msg, sizeof(msg), NULL), dn = 0;
	if (dst) dn = vh_hex2bytes(vh_tok[4], dd, sizeof(dd), NULL);
	set_stale(R); set_stale(R2);
	hdr(op, 0);
	vh_bytes("msg", msg, n);
	if (dst) vh_bytes("dst", dd, dn);
	MARK();
	if (dst) VH_TRY(err, ed_map_dst(R, msg, n, dd, dn)); else VH_TRY(err, ed_map(R, msg, n));
	vh_ed("R", R);
	if (!err) { if (dst) VH_TRY(err2, ed_map_dst(R2, msg, n, dd, dn)); else VH_TRY(err2, ed_map(R2, msg, n)); }
	vh_ed("R2", R2);
	fin(err ? err : err2, 1);
}

static void do_rand(const char *op) {
	int err;
	set_stale(R);
	hdr(op, 0);
	MARK();
	VH_TRY(err, ed_rand(R));
	vh_ed("R", R);
	fin(err, 1);
}
static void do_set_infty(const char *op) {
	int err;
	set_stale(R);
	hdr(op, 0);
	MARK();
	VH_TRY(err, ed_set_infty(R));
	vh_ed("R", R);
	fin(err, 1);
}

/* the installed parameters, as the getters return them */
static void do_param(const char *op) {
	int err;
	set_stale(R);
	bn_zero(K); bn_zero(M);
	hdr(op, 0);
	MARK();
	VH_TRY(err, (ed_curve_get_gen(R), ed_curve_get_ord(K), ed_curve_get_cof(M)));
	vh_ed("R", R); vh_bn("k", K); vh_bn("m", M);
	vh_int("id", ed_param_get());
	vh_int("level", ed_param_level());
	fin(err, 1);
}

static void do_probe(void) {
	int ok;
	cur_curve[0] = 0;
	ok = set_curve(vh_tok[1]);
	ev_begin("curve_probe");
	vh_str("curve", vh_tok[1]);
	vh_int("ok", ok);
	if (ok) {
		vh_fp_hdr();
		vh_bn("n", N); vh_bn("h", H);
		vh_int("fpb", (long)RLC_FP_BITS);
		vh_int("bnbits", (long)RLC_BN_BITS);
		vh_int("wd", (long)RLC_WIDTH);
		vh_int("dep", (long)RLC_DEPTH);
		vh_int("dgb", (long)RLC_DIG);
		vh_int("add", (long)ED_ADD);
	}
	ev_end();
}

static void w_neg(ed_t r, const ed_t p) { ed_neg(r, p); }
static void w_add(ed_t r, const ed_t p, const ed_t q) { ed_add(r, p, q); }
static void w_sub(ed_t r, const ed_t p, const ed_t q) { ed_sub(r, p, q); }
static void w_dbl(ed_t r, const ed_t p) { ed_dbl(r, p); }
static void w_mul(ed_t r, const ed_t p, const bn_t k) { ed_mul(r, p, k); }
static void w_pre(ed_t *t, const ed_t p) { ed_mul_pre(t, p); }
static void w_fix(ed_t r, const ed_t *t, const bn_t k) { ed_mul_fix(r, t, k); }
static void w_sim(ed_t r, const ed_t p, const bn_t k, const ed_t q, const bn_t m) { ed_mul_sim(r, p, k, q, m); }

static int run_case(void) {
	const char *op = vh_tok[0];
	int al = vh_ntok > 2 ? atoi(vh_tok[2]) : 0;
#define OP(n) (strcmp(op, n) == 0)
	if (OP("curve_probe")) { do_probe(); return 1; }
	if (!set_curve(vh_tok[1])) {
		ev_begin("BADCURVE"); vh_str("curve", vh_tok[1]); ev_end();
		return 1;
	}
	if (OP("ed_neg")) do_un(op, w_neg, al);
	else if (OP("ed_neg_basic")) do_un(op, ed_neg_basic, al);
	else if (OP("ed_neg_projc")) do_un(op, ed_neg_projc, al);
	else if (OP("ed_norm")) do_un(op, ed_norm, al);
	else if (OP("ed_copy")) do_un(op, ed_copy, al);
	else if (OP("ed_blind")) do_un(op, ed_blind, al);
	else if (OP("ed_dbl")) do_un(op, w_dbl, al);
	else if (OP("ed_dbl_basic")) do_un(op, ed_dbl_basic, al);
	else if (OP("ed_dbl_projc")) do_un(op, ed_dbl_projc, al);
	else if (OP("ed_dbl_extnd")) do_un(op, ed_dbl_extnd, al);
	else if (OP("ed_add")) do_bin(op, w_add, al);
	else if (OP("ed_add_basic")) do_bin(op, ed_add_basic, al);
	else if (OP("ed_add_projc")) do_bin(op, ed_add_projc, al);
	else if (OP("ed_add_extnd")) do_bin(op, ed_add_extnd, al);
	else if (OP("ed_sub")) do_bin(op, w_sub, al);
	else if (OP("ed_sub_basic")) do_bin(op, ed_sub_basic, al);
	else if (OP("ed_sub_projc")) do_bin(op, ed_sub_projc, al);
	else if (OP("ed_sub_extnd")) do_bin(op, ed_sub_extnd, al);
	else if (OP("ed_cmp")) do_query(op, 0);
	else if (OP("ed_on_curve")) do_query(op, 1);
	else if (OP("ed_is_infty")) do_query(op, 2);
	else if (OP("witness")) do_query(op, 3);
	else if (OP("ed_norm_sim")) do_norm_sim(op, al);
	else if (OP("ed_mul")) do_mul(op, w_mul, al);
	else if (OP("ed_mul_basic")) do_mul(op, ed_mul_basic, al);
	else if (OP("ed_mul_slide")) do_mul(op, ed_mul_slide, al);
	else if (OP("ed_mul_monty")) do_mul(op, ed_mul_monty, al);
	else if (OP("ed_mul_lwnaf")) do_mul(op, ed_mul_lwnaf, al);
	else if (OP("ed_mul_lwreg")) do_mul(op, ed_mul_lwreg, al);
	else if (OP("ed_mul_gen")) do_mul_gen(op);
	else if (OP("ed_mul_dig")) do_mul_dig(op, al);
	else if (OP("ed_mul_fix")) do_fix(op, w_pre, w_fix);
	else if (OP("ed_mul_fix_basic")) do_fix(op, ed_mul_pre_basic, ed_mul_fix_basic);
	else if (OP("ed_mul_fix_combs")) do_fix(op, ed_mul_pre_combs, ed_mul_fix_combs);
	else if (OP("ed_mul_fix_combd")) do_fix(op, ed_mul_pre_combd, ed_mul_fix_combd);
	else if (OP("ed_mul_fix_lwnaf")) do_fix(op, ed_mul_pre_lwnaf, ed_mul_fix_lwnaf);
	else if (OP("ed_mul_sim")) do_sim(op, w_sim, al);
	else if (OP("ed_mul_sim_basic")) do_sim(op, ed_mul_sim_basic, al);
	else if (OP("ed_mul_sim_trick")) do_sim(op, ed_mul_sim_trick, al);
	else if (OP("ed_mul_sim_inter")) do_sim(op, ed_mul_sim_inter, al);
	else if (OP("ed_mul_sim_joint")) do_sim(op, ed_mul_sim_joint, al);
	else if (OP("ed_mul_sim_gen")) do_sim_gen(op, al);
	else if (OP("ed_mul_sim_lot")) do_lot(op);
	else if (OP("ed_pck")) do_pck(op, al);
	else if (OP("ed_upk")) do_upk(op, al);
	else if (OP("ed_pck_upk")) do_pck_upk(op);
	else if (OP("ed_write_bin")) do_write_bin(op);
	else if (OP("ed_read_bin")) do_read_bin(op);
	else if (OP("ed_bin_rt")) do_bin_rt(op);
	else if (OP("ed_map")) do_map(op, 0);
	else if (OP("ed_map_dst")) do_map(op, 1);
	else if (OP("ed_rand")) do_rand(op);
	else if (OP("ed_set_infty")) do_set_infty(op);
	else if (OP("ed_param")) do_param(op);
	else return 0;
	return 1;
}

int main(int argc, char **argv) {
	long start, idx = 0;
	int i;
	FILE *in = vh_open(argc, argv, &start);
	real_out = vh_out;
	ed_install();
	if (core_init() != RLC_OK) return 2;
	ed_null(P); ed_null(Q); ed_null(R); ed_null(R2); ed_null(P0); ed_null(Q0); ed_null(G);
	ed_new(P); ed_new(Q); ed_new(R); ed_new(R2); ed_new(P0); ed_new(Q0); ed_new(G);
	bn_null(K); bn_null(M); bn_null(K0); bn_null(M0); bn_null(N); bn_null(H);
	bn_new(K); bn_new(M); bn_new(K0); bn_new(M0); bn_new(N); bn_new(H);
	for (i = 0; i < (int)TAB_MAX; i++) { ed_null(TAB[i]); ed_new(TAB[i]); }
	for (i = 0; i < LOT_MAX; i++) {
		ed_null(LP[i]); ed_new(LP[i]); ed_null(LP0[i]); ed_new(LP0[i]); ed_null(LR[i]); ed_new(LR[i]);
		bn_null(LK[i]); bn_new(LK[i]); bn_null(LK0[i]); bn_new(LK0[i]);
	}
	while (vh_next(in)) {
		if (idx++ < start) continue;
		vh_case = idx - 1;
		alarm(30);
		if (!run_case()) { fprintf(stderr, "unknown op %s\n", vh_tok[0]); return 2; }
		alarm(0);
	}
	fclose(real_out);
	core_clean();
	return 0;
}
