/*
 * ep2_common.h - shared by drv_ep2.c (C11) and drv_pc.c (C12): event buffering with an own
 * crash handler (as drv_ep.c), selection of a pairing-friendly parameter set with its twist,
 * raw projection of quadratic-field elements / twist points / F_p12 elements, construction of
 * twist-point operands from case tokens.
 *
 *   curve   id<N>       ep_param_set(N) + ep2_curve_set_twist(type); the twist type is the caller's
 *                       knowledge (ep_param_set_any_pairf hard-codes it per field size): the driver takes
 *                       the type under which the library's own generator lies on the library's own
 *                       twist curve (selection only; every relation is judged by the spec from the dump)
 *   point   inf | infp | infj | inf0p | inf0j     identity: library form / (0:1:0) PROJC / (1:1:0) JACOB /
 *                                                 all-zero triple tagged PROJC / JACOB
 *           m<k>[/rep]          [k]G2 (INPUT construction with ep2_mul_basic + ep2_norm; spec reads the raw result)
 *           c<seed>[/rep]       a curve point NOT constructed from the generator: t = seed div 2, first
 *                               x = (t + j, t^2 + 1), j = 0, 1, ... for which x^3 + a x + b is a square, y the root
 *                               fp2_srt returns (negated for odd seed): outside the order-r subgroup w.h.p. (spec decides)
 *           r<seed>[/rep]       [r] c<seed>      (a point of the cofactor part: order divides h2)
 *           h<seed>[/rep]       [h2] c<seed>     (a subgroup member not constructed from the generator)
 *           o<ell>,<seed>[/rep] [(h2 r)/ell^e] c<seed>, ell^e || h2 r   (ell a prime factor of h2: the ell-primary part
 *                               of c: a point of small order ell^j, or the identity)
 *           s<ell>,<seed>,<k>[/rep]   [k]G2 + o<ell>,<seed>   (a non-member next to a member)
 *           xy<x0>,<x1>,<y0>,<y1>[/rep]    affine VALUES as given (may be off the curve)
 *           rep: P | J (retag, z = 1)   p<z0>,<z1> (x z, y z, z; PROJC)   j<z0>,<z1> (x z^2, y z^3, z; JACOB)
 *   scalar  hex with optional '-'
 *
 * Field elements are logged RAW (Montgomery digits); F_p2 = [c0, c1], F_p6 = [3 x F_p2], F_p12 = [2 x F_p6];
 * a twist point is {"x","y","z" raw F_p2, "c" tag}.
 */
#ifndef EP2_COMMON_H
#define EP2_COMMON_H
#include "vh.h"

/* ------------------------------------------------------------ event buffering (see drv_ep.c) */
static FILE *real_out;
static char *mbuf;
static size_t mlen, safe_len;
static volatile int in_event;

static void ev_begin(const char *op) {
	mbuf = NULL; mlen = 0; safe_len = 0;
	vh_out = open_memstream(&mbuf, &mlen);
	if (!vh_out) { perror("open_memstream"); exit(2); }
	in_event = 1;
	vh_begin(op);
}
static void ev_end(void) {
	vh_end();
	fclose(vh_out);
	in_event = 0;
	fwrite(mbuf, 1, mlen, real_out);
	fflush(real_out);
	free(mbuf);
	vh_out = real_out;
}
#define MARK() do { fflush(vh_out); safe_len = mlen; } while (0)

static void x_fatal(int sig) {
	char buf[200];
	int n;
	const char *what = (sig == SIGALRM) ? "TIMEOUT" : "CRASH";
	if (in_event && safe_len > 0) {
		if (write(vh_outfd, mbuf, safe_len) < 0) {}
		n = snprintf(buf, sizeof(buf), ",\"crash\":%d,\"err\":0,\"code\":0,\"unch\":false}\n", sig);
		if (write(vh_outfd, buf, n) < 0) {}
		what = "restart";
	}
	n = snprintf(buf, sizeof(buf), "{\"op\":\"%s\",\"i\":%ld,\"sig\":%d}\n", what, (long)vh_case, sig);
	if (write(vh_outfd, buf, n) < 0) {}
	_exit(sig == SIGALRM ? 3 : 4);
}
static void x_install(void) {
	signal(SIGSEGV, x_fatal); signal(SIGBUS, x_fatal); signal(SIGFPE, x_fatal);
	signal(SIGABRT, x_fatal); signal(SIGILL, x_fatal); signal(SIGALRM, x_fatal);
}

/* ------------------------------------------------------------ raw projections */
static void vh_fp2_raw(const fp2_t a) {
	fputc('[', vh_out); vh_fp_raw(a[0]); fputc(',', vh_out); vh_fp_raw(a[1]); fputc(']', vh_out);
}
static void vh_fp2(const char *k, const fp2_t a) { fprintf(vh_out, ",\"%s\":", k); vh_fp2_raw(a); }
static void vh_fp6_raw(const fp6_t a) {
	fputc('[', vh_out); vh_fp2_raw(a[0]); fputc(',', vh_out); vh_fp2_raw(a[1]); fputc(',', vh_out);
	vh_fp2_raw(a[2]); fputc(']', vh_out);
}
static void vh_fp12_raw(const fp12_t a) {
	fputc('[', vh_out); vh_fp6_raw(a[0]); fputc(',', vh_out); vh_fp6_raw(a[1]); fputc(']', vh_out);
}
static void vh_fp12(const char *k, const fp12_t a) { fprintf(vh_out, ",\"%s\":", k); vh_fp12_raw(a); }
static void vh_ep2_raw(const ep2_t p) {
	fputs("{\"x\":", vh_out); vh_fp2_raw(p->x);
	fputs(",\"y\":", vh_out); vh_fp2_raw(p->y);
	fputs(",\"z\":", vh_out); vh_fp2_raw(p->z);
	fprintf(vh_out, ",\"c\":%d}", p->coord);
}
static void vh_ep2(const char *k, const ep2_t p) { fprintf(vh_out, ",\"%s\":", k); vh_ep2_raw(p); }
static int vh_fp2_same(const fp2_t a, const fp2_t b) {
	return memcmp(a[0], b[0], sizeof(dig_t) * RLC_FP_DIGS) == 0 && memcmp(a[1], b[1], sizeof(dig_t) * RLC_FP_DIGS) == 0;
}
static int vh_ep2_same(const ep2_t a, const ep2_t b) {
	return vh_fp2_same(a->x, b->x) && vh_fp2_same(a->y, b->y) && vh_fp2_same(a->z, b->z) && a->coord == b->coord;
}
static int vh_fp12_same(const fp12_t a, const fp12_t b) {
	int i, j;
	for (i = 0; i < 2; i++) for (j = 0; j < 3; j++) if (!vh_fp2_same(a[i][j], b[i][j])) return 0;
	return 1;
}
/* "<hex0>,<hex1>" VALUES -> fp2 (the token is modified) */
static void vh_fp2_set(fp2_t a, char *tok) {
	char *c1 = strchr(tok, ',');
	if (!c1) { fprintf(stderr, "bad fp2 token %s\n", tok); exit(2); }
	*c1++ = 0;
	vh_fp_set(a[0], tok); vh_fp_set(a[1], c1);
}

/* ------------------------------------------------------------ curve */
static char cur_curve[64];
static int cur_ok = 0, cur_twist = 0;
static ep2_t G2;
static bn_t N2, H2, PAR;
static ep_t G1;
static bn_t N1, H1;

static int gen_on_twist(void) {
	ep2_t g; int r;
	ep2_null(g); ep2_new(g);
	ep2_curve_get_gen(g);
	r = ep2_on_curve(g) && !ep2_is_infty(g);
	ep2_free(g);
	return r;
}

static int set_curve(const char *spec) {
	volatile int ok = 0;
	if (strcmp(spec, cur_curve) == 0) return cur_ok;
	if (strlen(spec) >= sizeof(cur_curve) || spec[0] != 'i' || spec[1] != 'd') return 0;
	strcpy(cur_curve, spec);
	cur_ok = 0;
	RLC_TRY {
		ep_param_set(atoi(spec + 2));
		if (err_get_code() == RLC_OK && ep_curve_is_pairf() && ep_curve_embed() == 12) {
			/* the twist type under which the Frobenius endomorphism acts on the generator as [p] (as drv_param.c) */
			ep2_t g, f; bn_t pp;
			ep2_null(g); ep2_null(f); bn_null(pp); ep2_new(g); ep2_new(f); bn_new(pp);
			cur_twist = RLC_EP_DTYPE;
			ep2_curve_set_twist(RLC_EP_DTYPE);
			ep2_curve_get_gen(g);
			bn_grow(pp, RLC_FP_DIGS);
			pp->used = RLC_FP_DIGS; pp->sign = RLC_POS; dv_copy(pp->dp, fp_prime_get(), RLC_FP_DIGS);
			ep2_frb(f, g, 1); ep2_mul_basic(g, g, pp);
			if (ep2_cmp(f, g) != RLC_EQ) { cur_twist = RLC_EP_MTYPE; ep2_curve_set_twist(RLC_EP_MTYPE); }
			ep2_free(g); ep2_free(f); bn_free(pp);
			ok = gen_on_twist();
		}
	} RLC_CATCH_ANY { ok = 0; }
	if (err_get_code() != RLC_OK) ok = 0;
	cur_ok = ok;
	if (cur_ok) {
		ep2_curve_get_gen(G2); ep2_curve_get_ord(N2); ep2_curve_get_cof(H2); fp_prime_get_par(PAR);
		ep_curve_get_gen(G1); ep_curve_get_ord(N1); ep_curve_get_cof(H1);
	}
	return cur_ok;
}

/* field + tower + twist header of every event */
static void x_hdr(const char *op, int al) {
	fp2_t e2;
	fp2_null(e2); fp2_new(e2);
	ev_begin(op);
	vh_fp_hdr();
	/* the tower's defining constants, revealed by the library's own arithmetic: u^2 and xi = "mul_nor"(1) */
	fp2_zero(e2); fp_set_dig(e2[1], 1); fp2_sqr(e2, e2); vh_fp2("usq", e2);
	fp2_zero(e2); fp_set_dig(e2[0], 1); fp2_mul_nor(e2, e2); vh_fp2("xi", e2);
	vh_fp2("a2", ep2_curve_get_a());
	vh_fp2("b2", ep2_curve_get_b());
	vh_bn("n", N2);
	vh_bn("h2", H2);
	vh_bn("par", PAR);
	vh_int("pf", ep_curve_is_pairf());
	vh_int("BN", EP_BN); vh_int("B12", EP_B12);
	vh_int("tw", cur_twist);
	vh_int("endom", ep_curve_is_endom());
	vh_int("add", (long)EP_ADD);
	vh_int("fpb", (long)RLC_FP_BITS);
	vh_int("wd", (long)RLC_WIDTH);
	vh_int("dep", (long)RLC_DEPTH);
	vh_int("dgb", (long)RLC_DIG);
	vh_int("al", al);
	fp2_free(e2);
}

static void x_fin(int err, int unch) {
	vh_int("crash", 0);
	vh_int("err", err);
	vh_int("code", vh_code());
	vh_bool("unch", unch);
	ev_end();
}

/* k := k with every factor l removed: [k]Q then has order a power of l (the l-primary part of Q) */
static void vh_strip_prime(bn_t k, const bn_t l) {
	bn_t q, r;
	bn_null(q); bn_null(r); bn_new(q); bn_new(r);
	if (bn_cmp_dig(l, 1) == RLC_GT) {
		for (;;) {
			bn_div_rem(q, r, k, l);
			if (!bn_is_zero(r)) break;
			bn_copy(k, q);
		}
	}
	bn_free(q); bn_free(r);
}

/* ------------------------------------------------------------ twist points from tokens */
/* a curve point not constructed from the generator (decompression of a seed-derived x) */
static void ep2_from_seed(ep2_t p, const char *hex) {
	bn_t s; fp2_t t; int j, odd;
	bn_null(s); fp2_null(t); bn_new(s); fp2_new(t);
	vh_bn_set(s, hex);
	odd = bn_is_zero(s) ? 0 : (int)(s->dp[0] & 1);
	bn_hlv(s, s);               /* seeds 2t and 2t + 1 give opposite points */
	bn_mod(s, s, &core_get()->prime);
	if (bn_is_zero(s)) fp_zero(p->x[0]); else fp_prime_conv(p->x[0], s);
	fp_sqr(p->x[1], p->x[0]); fp_add_dig(p->x[1], p->x[1], 1);
	for (j = 0; j < 1000; j++) {
		ep2_rhs(t, p->x);
		if (fp2_srt(p->y, t)) break;
		fp_add_dig(p->x[0], p->x[0], 1);
	}
	if (j == 1000) { fprintf(stderr, "no curve point for seed %s\n", hex); exit(2); }
	if (odd) fp2_neg(p->y, p->y);
	fp2_set_dig(p->z, 1);
	p->coord = BASIC;
	bn_free(s); fp2_free(t);
}

static void set_point2(ep2_t p, char *tok) {
	char *rep = strchr(tok, '/');
	fp2_t z, t;
	bn_t k;
	if (rep) *rep++ = 0;
	if (strcmp(tok, "inf") == 0) { ep2_set_infty(p); return; }
	if (strcmp(tok, "infp") == 0) { fp2_zero(p->x); fp2_set_dig(p->y, 1); fp2_zero(p->z); p->coord = PROJC; return; }
	if (strcmp(tok, "infj") == 0) { fp2_set_dig(p->x, 1); fp2_set_dig(p->y, 1); fp2_zero(p->z); p->coord = JACOB; return; }
	if (strcmp(tok, "inf0p") == 0) { ep2_set_infty(p); p->coord = PROJC; return; }
	if (strcmp(tok, "inf0j") == 0) { ep2_set_infty(p); p->coord = JACOB; return; }
	bn_null(k); bn_new(k);
	if (tok[0] == 'm') {
		vh_bn_set(k, tok + 1);
		ep2_mul_basic(p, G2, k);
		ep2_norm(p, p);
	} else if (tok[0] == 'c') {
		ep2_from_seed(p, tok + 1);
	} else if (tok[0] == 'r') {
		ep2_from_seed(p, tok + 1);
		ep2_mul_basic(p, p, N2); ep2_norm(p, p);
	} else if (tok[0] == 'h') {
		ep2_from_seed(p, tok + 1);
		ep2_mul_basic(p, p, H2); ep2_norm(p, p);
	} else if (tok[0] == 'o') {
		char *sd = strchr(tok, ',');
		bn_t l; bn_null(l); bn_new(l);
		if (!sd) { fprintf(stderr, "bad point token %s\n", tok); exit(2); }
		*sd++ = 0;
		vh_bn_set(l, tok + 1);
		ep2_from_seed(p, sd);
		bn_mul(k, H2, N2); vh_strip_prime(k, l);
		ep2_mul_basic(p, p, k); ep2_norm(p, p);
		bn_free(l);
	} else if (tok[0] == 's') {
		/* s<ell>,<seed>,<k>: [k]G2 + (point of order ell): a non-member next to a member */
		char *sd = strchr(tok, ','), *ks = sd ? strchr(sd + 1, ',') : NULL;
		bn_t l; ep2_t t2;
		if (!ks) { fprintf(stderr, "bad point token %s\n", tok); exit(2); }
		bn_null(l); bn_new(l); ep2_null(t2); ep2_new(t2);
		*sd++ = 0; *ks++ = 0;
		vh_bn_set(l, tok + 1);
		ep2_from_seed(p, sd);
		bn_mul(k, H2, N2); vh_strip_prime(k, l);
		ep2_mul_basic(p, p, k);
		vh_bn_set(k, ks);
		ep2_mul_basic(t2, G2, k);
		ep2_add(p, p, t2); ep2_norm(p, p);
		bn_free(l); ep2_free(t2);
	} else if (tok[0] == 'x' && tok[1] == 'y') {
		char *y = tok + 2, *c;
		c = strchr(y, ','); if (c) c = strchr(c + 1, ',');
		if (!c) { fprintf(stderr, "bad point token %s\n", tok); exit(2); }
		*c++ = 0;
		vh_fp2_set(p->x, y); vh_fp2_set(p->y, c);
		fp2_set_dig(p->z, 1); p->coord = BASIC;
	} else {
		fprintf(stderr, "bad point token %s\n", tok);
		exit(2);
	}
	bn_free(k);
	if (!rep || ep2_is_infty(p)) return;
	if (rep[0] == 'P') { p->coord = PROJC; return; }
	if (rep[0] == 'J') { p->coord = JACOB; return; }
	fp2_null(z); fp2_null(t); fp2_new(z); fp2_new(t);
	vh_fp2_set(z, rep + 1);
	if (rep[0] == 'p') {
		fp2_mul(p->x, p->x, z); fp2_mul(p->y, p->y, z); fp2_copy(p->z, z); p->coord = PROJC;
	} else if (rep[0] == 'j') {
		fp2_sqr(t, z); fp2_mul(p->x, p->x, t); fp2_mul(t, t, z); fp2_mul(p->y, p->y, t); fp2_copy(p->z, z);
		p->coord = JACOB;
	} else {
		fprintf(stderr, "bad representation %s\n", rep);
		exit(2);
	}
	fp2_free(z); fp2_free(t);
}

static void x_init_common(void) {
	ep2_null(G2); ep2_new(G2); ep_null(G1); ep_new(G1);
	bn_null(N2); bn_null(H2); bn_null(PAR); bn_null(N1); bn_null(H1);
	bn_new(N2); bn_new(H2); bn_new(PAR); bn_new(N1); bn_new(H1);
}
#endif
