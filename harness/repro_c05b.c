/*
 * repro_c05b.c - stand-alone reproduction of the C05 part-2 findings against the real library (no harness, no spec).
 * Build: gcc -I<build>/include -I/repo/include repro_c05b.c <build>/lib/librelic_s.a -o repro_c05b
 * Each line prints the verdict the library returns and the verdict the scheme's definition demands.
 */
#include <relic.h>
#include <stdio.h>
#include <string.h>
#include <unistd.h>
#include <sys/wait.h>

#define SHOW(what, got, want) printf("%-86s got %d, definition %d%s\n", what, (int)(got), (int)(want), (got) == (want) ? "" : "   <-- DEFECT")

int main(void) {
	bn_t n, x, c[2], r[2], t, td, tdv[4], yv[4], sk[4], m0, m[3], sm[2];
	ec_t y[2], pp, pk[4];
	ers_t ers[4];
	etrs_t etrs[4];
	uint8_t msg[5] = { 0, 1, 2, 3, 4 };
	size_t size;
	int i;

	if (core_init() != RLC_OK || ec_param_set_any() != RLC_OK) return 2;
	bn_new(n); bn_new(x); bn_new(t); bn_new(td); bn_new(m0);
	for (i = 0; i < 2; i++) { bn_new(c[i]); bn_new(r[i]); ec_new(y[i]); bn_new(sm[i]); }
	for (i = 0; i < 3; i++) bn_new(m[i]);
	for (i = 0; i < 4; i++) {
		bn_new(tdv[i]); bn_new(yv[i]); bn_new(sk[i]); ec_new(pk[i]);
		bn_new(ers[i]->c[0]); bn_new(ers[i]->c[1]); bn_new(ers[i]->r[0]); bn_new(ers[i]->r[1]);
		bn_new(etrs[i]->y); bn_new(etrs[i]->c[0]); bn_new(etrs[i]->c[1]); bn_new(etrs[i]->r[0]); bn_new(etrs[i]->r[1]);
		cp_ers_gen_key(sk[i], pk[i]);
	}
	ec_new(pp);
	ec_curve_get_ord(n);

	/* 1. proof of knowledge: response r + n */
	bn_rand_mod(x, n); ec_mul_gen(y[0], x);
	cp_pokdl_prv(c[0], r[0], y[0], x);
	bn_add(r[0], r[0], n);
	SHOW("cp_pokdl_ver(c, r + n, y)", cp_pokdl_ver(c[0], r[0], y[0]), 0);
	/* 2. signature of knowledge: response s - n (negative) */
	cp_sokdl_sig(c[0], r[0], msg, 5, y[0], x);
	bn_sub(r[0], r[0], n);
	SHOW("cp_sokdl_ver(c, s - n, msg, y)", cp_sokdl_ver(c[0], r[0], msg, 5, y[0]), 0);
	/* 3. extendable ring signature: trapdoor td + n */
	cp_ers_gen(pp);
	cp_ers_sig(td, ers[0], msg, 5, sk[0], pk[0], pp);
	bn_add(t, td, n);
	SHOW("cp_ers_ver(td + n, ring, 1, msg, pp)", cp_ers_ver(t, ers, 1, msg, 5, pp), 0);
	/* 4. threshold ring signature: one signer + one extension verifies for threshold 2; a flipped trapdoor verifies */
	cp_etrs_sig(tdv, yv, 4, etrs[0], msg, 5, sk[0], pk[0], pp);
	size = 1;
	cp_etrs_ext(tdv, yv, 4, etrs, &size, msg, 5, pk[1], pp);
	SHOW("cp_etrs_ver(1, ...) after sig + ext (one signer)", cp_etrs_ver(1, tdv + 1, yv + 1, 3, etrs, size, msg, 5, pp), 1);
	SHOW("cp_etrs_ver(2, ...) after sig + ext (one signer): forged threshold", cp_etrs_ver(2, tdv + 1, yv + 1, 3, etrs, size, msg, 5, pp), 0);
	bn_add_dig(tdv[2], tdv[2], 1);
	SHOW("cp_etrs_ver(1, ...) with td[1] + 1", cp_etrs_ver(1, tdv + 1, yv + 1, 3, etrs, size, msg, 5, pp), 0);
	bn_sub_dig(tdv[2], tdv[2], 1);
	ec_dbl(y[1], pp); ec_norm(y[1], y[1]);
	SHOW("cp_etrs_ver(1, ...) with pp replaced by [2]pp", cp_etrs_ver(1, tdv + 1, yv + 1, 3, etrs, size, msg, 5, y[1]), 0);

	if (pc_param_set_any() == RLC_OK) {
		g1_t a, b, sig, sa[2], h;
		g2_t g, X, Y, Yb[3], pks[2];
		bn_t ps_r, ps_s, sb[3], mu[2], skm[2], mm;
		const char *ids[2] = { "Alice", "Bob" }, *tags[1] = { "l" };
		dig_t f0[1] = { 3 }, f1[1] = { 5 };
		const dig_t *f[2] = { f0, f1 };
		size_t flen[2] = { 1, 1 };

		g1_new(a); g1_new(b); g1_new(sig); g1_new(h); g2_new(g); g2_new(X); g2_new(Y);
		bn_new(ps_r); bn_new(ps_s); bn_new(mm);
		for (i = 0; i < 3; i++) { bn_new(sb[i]); g2_new(Yb[i]); }
		for (i = 0; i < 2; i++) { g1_new(sa[i]); g2_new(pks[i]); bn_new(mu[i]); bn_new(skm[i]); }
		pc_get_ord(n);
		/* 5. Pointcheval-Sanders: the identity as generator (and key) accepts any signature */
		cp_pss_gen(ps_r, ps_s, g, X, Y);
		bn_rand_mod(m0, n);
		cp_pss_sig(a, b, m0, ps_r, ps_s);
		SHOW("cp_pss_ver(a, b, m, g, x, y) honest", cp_pss_ver(a, b, m0, g, X, Y), 1);
		g2_set_infty(g); g2_set_infty(X); g2_set_infty(Y);
		bn_add_dig(m0, m0, 1);
		SHOW("cp_pss_ver(a, b, m + 1, O, O, O)", cp_pss_ver(a, b, m0, g, X, Y), 0);
		/* 6. block version: Y_0 off the twist goes unnoticed when m_0 = 0 */
		cp_psb_gen(ps_r, sb, g, X, Yb, 3);
		bn_zero(m[0]); bn_rand_mod(m[1], n); bn_rand_mod(m[2], n);
		cp_psb_sig(a, b, (const bn_t *)m, ps_r, (const bn_t *)sb, 3);
		fp_add_dig(Yb[0]->x[0], Yb[0]->x[0], 1);
		SHOW("cp_psb_ver with m_0 = 0 and x(Y_0) + 1 (not on the twist)", cp_psb_ver(a, b, (const bn_t *)m, g, X, (const g2_t *)Yb, 3), 0);
		/* 7. multi-key homomorphic signature: two signers, one label each - the honest signature is refused */
		g1_set_infty(sig); bn_zero(mm);
		for (i = 0; i < 2; i++) {
			cp_mklhs_gen(skm[i], pks[i]);
			bn_rand_mod(m[i], n);
			cp_mklhs_sig(sa[i], m[i], "db", ids[i], tags[0], skm[i]);
			cp_mklhs_fun(mu[i], (const bn_t *)&m[i], f[i], 1);
			cp_mklhs_evl(h, (const g1_t *)&sa[i], f[i], 1);
			g1_add(sig, sig, h);
			bn_add(mm, mm, mu[i]); bn_mod(mm, mm, n);
		}
		g1_norm(sig, sig);
		fflush(stdout);
		if (fork() == 0) {
			int v = cp_mklhs_ver(sig, mm, (const bn_t *)mu, "db", ids, tags, f, flen, (const g2_t *)pks, 2);
			SHOW("cp_mklhs_ver honest, 2 signers x 1 label (normalises 2 of 1 points)", v, 1);
			fflush(stdout);
			_exit(0);
		} else {
			int st; wait(&st);
			if (WIFSIGNALED(st)) printf("cp_mklhs_ver honest, 2 signers x 1 label: killed by signal %d   <-- DEFECT\n", WTERMSIG(st));
		}
	}
	core_clean();
	return 0;
}
