/*
 * drv_param.c - dump of every built-in parameter set through the getters (C18).
 * Case lines:  ids            -> {"op":"ids","ep":[...]}  (ids accepted by ep_param_set)
 *              ep <id>        -> {"op":"ep", ...every constant the getters expose...}
 * Field elements are logged as VALUES (fp_prime_back) and, for the Montgomery
 * constants, raw; integers as sign + little-endian magnitude.
 * Untrusted witnesses (the spec only checks their defining relations):
 *   lam   a scalar with psi(G) = [lam]G found by the driver from the GLV basis
 *   pts   a few curve points (x, y) produced by the library, for order checks
 */
#include "vh.h"

static void out_bnv(const char *k, const bn_t a) {
	fprintf(vh_out, ",\"%s\":", k);
	vh_bn_raw(a);
}
static void out_fpv(const char *k, const fp_t a) {
	bn_t t; bn_null(t); bn_new(t);
	fp_prime_back(t, a);
	fprintf(vh_out, ",\"%s\":", k);
	vh_digs_raw(t->dp, bn_is_zero(t) ? 0 : t->used);
	bn_free(t);
}
static void out_fp2v(const char *k0, const char *k1, const fp2_t a) {
	out_fpv(k0, a[0]); out_fpv(k1, a[1]);
}

/* the pairing-friendly family the library advertises for the active curve (names of the EP_ constants) */
static const char *fam_name(int f) {
	switch (f) {
		case 0: return "none";
		case EP_BN: return "BN";
		case EP_B12: return "B12";
		case EP_B24: return "B24";
		case EP_B48: return "B48";
		case EP_K16: return "K16";
		case EP_K18: return "K18";
		default: return "other";
	}
}

static int select_id(int id) {
	volatile int ok = 1;
	RLC_TRY {
		ep_param_set(id);
#if defined(WITH_PP)
		if (ep_curve_is_pairf() && ep_curve_embed() == 12) {
			/* the twist type is the caller's knowledge: take the one under which the Frobenius
			 * endomorphism acts on the generator as multiplication by p (selection only, not a verdict) */
			{
				ep2_t g, f; bn_t pp;
				ep2_null(g); ep2_null(f); bn_null(pp); ep2_new(g); ep2_new(f); bn_new(pp);
				ep2_curve_set_twist(RLC_EP_DTYPE);
				ep2_curve_get_gen(g);
				pp->used = RLC_FP_DIGS; pp->sign = RLC_POS; dv_copy(pp->dp, fp_prime_get(), RLC_FP_DIGS);
				ep2_frb(f, g, 1); ep2_mul_basic(g, g, pp);
				if (ep2_cmp(f, g) != RLC_EQ) ep2_curve_set_twist(RLC_EP_MTYPE);
				ep2_free(g); ep2_free(f); bn_free(pp);
			}
		}
#endif
	} RLC_CATCH_ANY { ok = 0; }
	err_get_code();
	return ok;
}

static void dump_ep(int id) {
	bn_t n, h, x, t; ep_t g, q; fp_t f;
	int i, len;
	const int *sps;
	bn_null(n); bn_null(h); bn_null(x); bn_null(t); ep_null(g); ep_null(q); fp_null(f);
	bn_new(n); bn_new(h); bn_new(x); bn_new(t); ep_new(g); ep_new(q); fp_new(f);
	vh_begin("ep");
	vh_int("id", id);
	vh_fp_hdr();
	vh_int("fbits", RLC_FP_BITS);
	/* field constants */
	vh_digs("rdc", fp_prime_get_rdc(), 1);
	vh_digs("conv", fp_prime_get_conv(), RLC_FP_DIGS);
	fp_set_dig(f, 1); vh_fp("one", f);
	vh_int("mod8", (long)fp_prime_get_mod8());
	vh_int("qnr", (long)fp_prime_get_qnr());
	vh_int("cnr", (long)fp_prime_get_cnr());
	vh_int("ad2", (long)fp_prime_get_2ad());
	sps = fp_prime_get_sps(&len);
	fputs(",\"sps\":[", vh_out);
	for (i = 0; sps != NULL && i < len; i++) fprintf(vh_out, "%s%d", i ? "," : "", sps[i]);
	fputs("]", vh_out);
	/* curve */
	out_fpv("a", ep_curve_get_a()); out_fpv("b", ep_curve_get_b());
	ep_curve_get_gen(g); ep_norm(g, g);
	out_fpv("gx", g->x); out_fpv("gy", g->y);
	vh_int("ginf", ep_is_infty(g));
	ep_curve_get_ord(n); out_bnv("r", n);
	ep_curve_get_cof(h); out_bnv("h", h);
	vh_int("endom", ep_curve_is_endom()); vh_int("pairf", ep_curve_is_pairf());
	vh_int("super", ep_curve_is_super()); vh_int("ctmap", ep_curve_is_ctmap());
	vh_int("opta", ep_curve_opt_a()); vh_int("optb", ep_curve_opt_b());
	vh_int("level", ep_param_level()); vh_int("embed", ep_curve_embed());
	vh_str("fam", fam_name(ep_curve_is_pairf()));
	/* generator table entries the fixed-base multiplication relies on: t[i] as points */
	{
		const ep_t *tab = ep_curve_get_tab();
		fputs(",\"tab\":[", vh_out);
		for (i = 0; tab != NULL && i < RLC_EP_TABLE && i < 8; i++) {
			ep_norm(q, tab[i]);
			fprintf(vh_out, "%s{\"inf\":%d", i ? "," : "", ep_is_infty(q));
			out_fpv("x", q->x); out_fpv("y", q->y);
			fputc('}', vh_out);
		}
		fputs("]", vh_out);
		vh_int("tabsize", RLC_EP_TABLE);
#if EP_FIX == COMBS
		vh_str("fix", "combs"); vh_int("depth", RLC_DEPTH);
#elif EP_FIX == LWNAF
		vh_str("fix", "lwnaf"); vh_int("depth", RLC_DEPTH);
#else
		vh_str("fix", "other"); vh_int("depth", RLC_DEPTH);
#endif
	}
	/* a few library-produced curve points (untrusted witnesses for order checks) */
	fputs(",\"pts\":[", vh_out);
	for (i = 0; i < 3; i++) {
		ep_rand(q); ep_norm(q, q);
		fprintf(vh_out, "%s{\"inf\":%d", i ? "," : "", ep_is_infty(q));
		out_fpv("x", q->x); out_fpv("y", q->y);
		fputc('}', vh_out);
	}
	fputs("]", vh_out);
	/* constants of the hash-to-curve maps derived at curve installation */
	{
		ctx_t *ctx = core_get();
		out_fpv("mapu", ctx->ep_map_u);
		out_fpv("mapc0", ctx->ep_map_c[0]); out_fpv("mapc1", ctx->ep_map_c[1]); out_fpv("mapc2", ctx->ep_map_c[2]);
		out_fpv("mapc3", ctx->ep_map_c[3]); out_fpv("mapc4", ctx->ep_map_c[4]);
#ifdef EP_CTMAP
		if (ep_curve_is_ctmap()) { out_fpv("isoa", ctx->ep_iso.a); out_fpv("isob", ctx->ep_iso.b); }
#endif
	}
	if (ep_curve_is_endom()) {
		const bn_st *v1 = ep_curve_get_v1(), *v2 = ep_curve_get_v2();
		out_fpv("beta", ep_curve_get_beta());
		out_bnv("v10", &v1[0]); out_bnv("v11", &v1[1]); out_bnv("v12", &v1[2]);
		out_bnv("v20", &v2[0]); out_bnv("v21", &v2[1]); out_bnv("v22", &v2[2]);
		/* witness: psi(G) as computed by the library, for reference only */
		ep_psi(q, g); ep_norm(q, q);
		out_fpv("psix", q->x); out_fpv("psiy", q->y);
	}
	if (ep_curve_is_pairf()) {
		fp_prime_get_par(x); out_bnv("par", x);
#if defined(WITH_PP)
		if (ep_curve_embed() == 12) {
			ep2_t g2; fp2_t e2;
			ep2_null(g2); fp2_null(e2); ep2_new(g2); fp2_new(e2);
			vh_int("twist", ep2_curve_is_twist());
			vh_int("qnr2", fp2_field_get_qnr());
			/* the tower's defining constants, revealed by the library's own arithmetic */
			fp2_zero(e2); fp_set_dig(e2[1], 1); fp2_sqr(e2, e2); out_fp2v("usq0", "usq1", e2);
			fp2_zero(e2); fp_set_dig(e2[0], 1); fp2_mul_nor(e2, e2); out_fp2v("xi0", "xi1", e2);
			out_fp2v("a20", "a21", ep2_curve_get_a()); out_fp2v("b20", "b21", ep2_curve_get_b());
			ep2_curve_get_gen(g2); ep2_norm(g2, g2);
			out_fp2v("g2x0", "g2x1", g2->x); out_fp2v("g2y0", "g2y1", g2->y);
			ep2_curve_get_ord(n); out_bnv("r2", n);
			ep2_curve_get_cof(h); out_bnv("h2", h);
			ep2_frb(g2, g2, 1); ep2_norm(g2, g2);
			out_fp2v("frbx0", "frbx1", g2->x); out_fp2v("frby0", "frby1", g2->y);
			/* twist points built from an x coordinate (in general OUTSIDE the order-r subgroup): untrusted
			 * witnesses for the cofactor relation */
			{
				int cnt = 0; dig_t j;
				fp2_t rhs; fp2_null(rhs); fp2_new(rhs);
				fputs(",\"pts2\":[", vh_out);
				for (j = 1; j < 200 && cnt < 2; j++) {
					fp2_zero(g2->x); fp_set_dig(g2->x[0], j); fp_set_dig(g2->x[1], 1);
					fp2_sqr(rhs, g2->x); fp2_add(rhs, rhs, ep2_curve_get_a()); fp2_mul(rhs, rhs, g2->x);
					fp2_add(rhs, rhs, ep2_curve_get_b());
					if (!fp2_is_zero(rhs) && fp2_srt(g2->y, rhs)) {
						fprintf(vh_out, "%s{\"z\":0", cnt ? "," : "");
						out_fp2v("x0", "x1", g2->x); out_fp2v("y0", "y1", g2->y);
						fputc('}', vh_out);
						cnt++;
					}
				}
				fputs("]", vh_out);
				fp2_free(rhs);
			}
			ep2_free(g2); fp2_free(e2);
		}
#endif
	}
	vh_end();
	bn_free(n); bn_free(h); bn_free(x); bn_free(t); ep_free(g); ep_free(q); fp_free(f);
}

int main(int argc, char **argv) {
	long start, idx = 0;
	FILE *in = vh_open(argc, argv, &start);
	if (!freopen("/dev/null", "w", stderr)) return 2;
	if (core_init() != RLC_OK) return 2;
	while (vh_next(in)) {
		const char *op = vh_tok[0];
		int i;
		if (idx++ < start) continue;
		vh_case = idx - 1;
		alarm(120);
		if (strcmp(op, "ids") == 0) {
			int first = 1;
			vh_begin("ids");
			fputs(",\"ep\":[", vh_out);
			/* each id in a context of its own: what can be selected must not depend on what was selected before */
			for (i = 1; i < 200; i++) {
				int ok;
				core_clean();
				if (core_init() != RLC_OK) return 2;
				ok = select_id(i);
				if (ok) { fprintf(vh_out, "%s%d", first ? "" : ",", i); first = 0; }
			}
			fputs("]", vh_out);
			vh_end();
		} else if (strcmp(op, "ep") == 0) {
			int id = atoi(vh_tok[1]);
			if (select_id(id)) dump_ep(id);
			else { vh_begin("ep"); vh_int("id", -id); vh_end(); }
		} else return 2;
		alarm(0);
	}
	fclose(vh_out);
	core_clean();
	return 0;
}
