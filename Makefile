.PHONY: setup
setup:
	python3 /verif/bin/check --setup
