------------------------------- MODULE Edwards -------------------------------
(***************************************************************************)
(* Twisted Edwards curves  a x^2 + y^2 = 1 + d x^2 y^2  over Z/pZ (p an    *)
(* odd prime, a d (a - d) # 0): the affine unified addition law, the       *)
(* neutral element (0, 1), negation (-x, y), doubling, the scalar multiple *)
(* and the compressed / uncompressed byte formats of RELIC's ed module -   *)
(* the definition C17 is judged against.                                   *)
(*   curve  c == [p |-> prime, a |-> BigNat, d |-> BigNat]                 *)
(*   point  P == [x |-> BigNat, y |-> BigNat]      (no point at infinity)  *)
(* The unified law                                                         *)
(*   x3 = (x1 y2 + y1 x2) / (1 + d x1 x2 y1 y2)                            *)
(*   y3 = (y1 y2 - a x1 x2) / (1 - d x1 x2 y1 y2)                          *)
(* is COMPLETE (both denominators non-zero for every pair of curve points) *)
(* when a is a square and d is a non-square (Bernstein, Birkner, Joye,     *)
(* Lange, Peters 2008) - the case of edwards25519 (a = -1, p = 1 mod 4).   *)
(* In general a denominator can vanish: the sum is then not given by this  *)
(* law and EAdd returns EUndef = (0, 0), which lies on no curve.           *)
(* model/MCEdwards checks that the definition is an abelian group law for  *)
(* every complete curve over F_5 .. F_13.                                  *)
(***************************************************************************)
EXTENDS Field

EPt(x, y) == [x |-> x, y |-> y]
EO == EPt(<<>>, <<1>>)                       \* neutral element
EUndef == EPt(<<>>, <<>>)                    \* "the unified law does not apply" - on no curve (0 # 1)

EValidCurve(c) == /\ c.a # <<>> /\ c.d # <<>> /\ c.a # c.d
                  /\ InField(c.a, c.p) /\ InField(c.d, c.p)
EComplete(c) == EValidCurve(c) /\ FLegendre(c.a, c.p) = 1 /\ FLegendre(c.d, c.p) = 0 - 1

EOnCurve(P, c) ==
    /\ InField(P.x, c.p) /\ InField(P.y, c.p)
    /\ LET p  == c.p
           xx == FSqr(P.x, p)
           yy == FSqr(P.y, p)
       IN  FAdd(FMul(c.a, xx, p), yy, p) = FAdd(<<1>>, FMul(c.d, FMul(xx, yy, p), p), p)

EEq(P, Q) == P.x = Q.x /\ P.y = Q.y
EIsO(P) == P.x = <<>> /\ P.y = <<1>>
ENeg(P, c) == EPt(FNeg(P.x, c.p), P.y)

EAdd(P, Q, c) ==
    LET p   == c.p
        xx  == FMul(P.x, Q.x, p)
        yy  == FMul(P.y, Q.y, p)
        t   == FMul(c.d, FMul(xx, yy, p), p)
        dx  == FAdd(<<1>>, t, p)
        dy  == FSub(<<1>>, t, p)
    IN  IF dx = <<>> \/ dy = <<>> THEN EUndef
        ELSE EPt(FMul(FAdd(FMul(P.x, Q.y, p), FMul(P.y, Q.x, p), p), FInv(dx, p), p),
                 FMul(FSub(yy, FMul(c.a, xx, p), p), FInv(dy, p), p))
EDbl(P, c) == EAdd(P, P, c)
ESub(P, Q, c) == EAdd(P, ENeg(Q, c), c)

(* [k]P for a BigNat k: left-to-right double-and-add *)
RECURSIVE EMulR(_, _, _, _, _)
EMulR(k, P, c, i, acc) ==
    IF i < 0 THEN acc
    ELSE LET d == EDbl(acc, c) IN
         EMulR(k, P, c, i - 1, IF BBit(k, i) = 1 THEN EAdd(d, P, c) ELSE d)
EMulNat(k, P, c) == EMulR(k, P, c, BBits(k) - 1, EO)
(* [k]P for a signed k given as sign flag and magnitude *)
EMul(neg, mag, P, c) == IF neg THEN ENeg(EMulNat(mag, P, c), c) ELSE EMulNat(mag, P, c)

(* P has exact order n = 2^j (j >= 1): [n]P = O and [n/2]P # O *)
EHasOrder2Pow(P, n, c) == /\ EIsO(EMulNat(BFromNat(n), P, c))
                          /\ ~EIsO(EMulNat(BFromNat(n \div 2), P, c))
(* P has exact prime order r *)
EHasPrimeOrder(P, r, c) == ~EIsO(P) /\ EIsO(EMulNat(r, P, c))

(* the points of order two and four every twisted Edwards curve has / has when a is a square *)
EOrder2(c) == EPt(<<>>, FNeg(<<1>>, c.p))
EIsOrder4X(x, c) == FMul(c.a, FSqr(x, c.p), c.p) = <<1>>      \* (x, 0) with a x^2 = 1

(***************************************************************************)
(* Compression.  A point is determined by y and one bit of x:              *)
(*   x^2 = (y^2 - 1) / (d y^2 - a)                                         *)
(* (the denominator cannot vanish on a complete curve: a/d is no square).  *)
(* Which bit of x is recorded is the caller's convention (RFC 8032: the    *)
(* least significant bit of the canonical integer x; RELIC: see EdSpec).   *)
(***************************************************************************)
EXSquared(y, c) ==
    LET p   == c.p
        yy  == FSqr(y, p)
        den == FSub(FMul(c.d, yy, p), c.a, p)
    IN  IF den = <<>> THEN <<255, 255>>      \* no such x (marker outside the field is not needed: callers test EHasX)
        ELSE FMul(FSub(yy, <<1>>, p), FInv(den, p), p)
EHasX(y, c) ==
    /\ InField(y, c.p)
    /\ FSub(FMul(c.d, FSqr(y, c.p), c.p), c.a, c.p) # <<>>
    /\ FIsSquare(EXSquared(y, c), c.p)
(* P is a decompression of y: a curve point with that y-coordinate *)
EIsUpkOf(P, y, c) == P.y = y /\ EOnCurve(P, c)

(* byte formats of ed_write_bin: fb = bytes per field element, b = the recorded bit of x *)
EBinO == <<0>>
EBinPacked(P, b, fb) == <<2 + b>> \o BToBE(P.y, fb)
EBinPlain(P, fb) == <<4>> \o BToBE(P.y, fb) \o BToBE(P.x, fb)
=============================================================================
