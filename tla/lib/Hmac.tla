-------------------------------- MODULE Hmac --------------------------------
(***************************************************************************)
(* RFC 2104 HMAC over an arbitrary hash H with block size B bytes, and its *)
(* instance with SHA-256 (RELIC's md_hmac uses the configured MD_MAP hash; *)
(* the pinned configuration selects SHA-256, B = 64).                      *)
(***************************************************************************)
EXTENDS Sha2

(* RFC 2104 section 2: keys longer than B are hashed first; then K is      *)
(* padded with zeros to B bytes; H(K xor opad, H(K xor ipad, text))        *)
Hmac(H(_), B, key, text) ==
    LET k0   == IF Len(key) > B THEN H(key) ELSE key
        kp   == k0 \o Zeros(B - Len(k0))
        ipad == Eager([i \in 1..B |-> kp[i] ^^ 54])     \* 0x36
        opad == Eager([i \in 1..B |-> kp[i] ^^ 92])     \* 0x5C
    IN H(opad \o H(ipad \o text))

HmacSha256(key, text) == Hmac(Sha256, 64, key, text)
HmacSha224(key, text) == Hmac(Sha224, 64, key, text)
HmacSha384(key, text) == Hmac(Sha384, 128, key, text)
HmacSha512(key, text) == Hmac(Sha512, 128, key, text)

(* RFC 4231 test cases 1, 2 (short keys) and 6 (131-byte key, hashed first) *)
ASSUME HmacSha256(Eager([i \in 1..20 |-> 11]), <<72, 105, 32, 84, 104, 101, 114, 101>>) =
    <<176, 52, 76, 97, 216, 219, 56, 83, 92, 168, 175, 206, 175, 11, 241, 43, 136, 29, 194, 0, 201, 131, 61, 167, 38, 233, 55, 108, 46, 50, 207, 247>>
ASSUME HmacSha256(<<74, 101, 102, 101>>, <<119, 104, 97, 116, 32, 100, 111, 32, 121, 97, 32, 119, 97, 110, 116, 32, 102, 111, 114, 32, 110, 111, 116, 104, 105, 110, 103, 63>>) =
    <<91, 220, 193, 70, 191, 96, 117, 78, 106, 4, 36, 38, 8, 149, 117, 199, 90, 0, 63, 8, 157, 39, 57, 131, 157, 236, 88, 185, 100, 236, 56, 67>>
ASSUME HmacSha256(Eager([i \in 1..131 |-> 170]), <<84, 101, 115, 116, 32, 85, 115, 105, 110, 103, 32, 76, 97, 114, 103, 101, 114, 32, 84, 104, 97, 110, 32, 66, 108, 111, 99, 107, 45, 83, 105, 122, 101, 32, 75, 101, 121, 32, 45, 32, 72, 97, 115, 104, 32, 75, 101, 121, 32, 70, 105, 114, 115, 116>>) =
    <<96, 228, 49, 89, 30, 224, 182, 127, 13, 138, 38, 170, 203, 245, 183, 127, 142, 11, 198, 33, 55, 40, 197, 20, 5, 70, 4, 15, 14, 227, 127, 84>>
=============================================================================
