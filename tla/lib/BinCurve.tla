------------------------------ MODULE BinCurve ------------------------------
(***************************************************************************)
(* Ordinary binary curves  y^2 + x*y = x^3 + a*x^2 + b  over GF(2^m)       *)
(* (lib/GF2m): the affine group law with ALL its cases, the scalar         *)
(* multiple, point halving as the inverse of doubling and the Frobenius    *)
(* map - the definition C16 judges the eb module against (model/MCBinCurve *)
(* checks that it IS a group law on every curve over GF(8), GF(16), GF(32))*)
(*   curve  c == [f |-> field polynomial, a |-> elt, b |-> elt]  (b # 0)   *)
(*   point  P == [inf |-> BOOLEAN, x |-> elt, y |-> elt]                   *)
(* The negative of (x, y) is (x, x + y); the unique point of order two is  *)
(* (0, sqrt(b)) (it is its own negative; its tangent is vertical).         *)
(***************************************************************************)
EXTENDS GF2m

EInf == [inf |-> TRUE, x |-> <<>>, y |-> <<>>]
EPt(x, y) == [inf |-> FALSE, x |-> x, y |-> y]

(* x^3 + a x^2 + b *)
ERhs(x, c) == LET x2 == GSqr(x, c.f) IN GAdd(GAdd(GMul(x2, x, c.f), GMul(c.a, x2, c.f)), c.b)
EOnCurve(P, c) ==
    \/ P.inf
    \/ /\ GInField(P.x, GDeg(c.f)) /\ GInField(P.y, GDeg(c.f))
       /\ GAdd(GSqr(P.y, c.f), GMul(P.x, P.y, c.f)) = ERhs(P.x, c)
EEq(P, Q) == IF P.inf \/ Q.inf THEN P.inf = Q.inf ELSE P.x = Q.x /\ P.y = Q.y
ENeg(P) == IF P.inf THEN EInf ELSE EPt(P.x, GAdd(P.x, P.y))
EOrderTwo(c) == EPt(<<>>, GSqrt(c.b, c.f))

EDbl(P, c) ==
    IF P.inf \/ P.x = <<>> THEN EInf                      \* identity; the point of order two
    ELSE LET f  == c.f
             l  == GAdd(P.x, GMul(P.y, GInv(P.x, f), f))
             x3 == GAdd(GAdd(GSqr(l, f), l), c.a)
             y3 == GAdd(GSqr(P.x, f), GMul(GAdd(l, <<1>>), x3, f))
         IN  EPt(x3, y3)

EAdd(P, Q, c) ==
    IF P.inf THEN Q
    ELSE IF Q.inf THEN P
    ELSE IF P.x = Q.x THEN (IF P.y = Q.y THEN EDbl(P, c) ELSE EInf)      \* Q = P or Q = -P
    ELSE LET f  == c.f
             l  == GMul(GAdd(P.y, Q.y), GInv(GAdd(P.x, Q.x), f), f)
             x3 == GAdd(GAdd(GAdd(GAdd(GSqr(l, f), l), P.x), Q.x), c.a)
             y3 == GAdd(GAdd(GMul(l, GAdd(P.x, x3), f), x3), P.y)
         IN  EPt(x3, y3)
ESub(P, Q, c) == EAdd(P, ENeg(Q), c)

(* [k]P for a BigNat k: left-to-right double-and-add *)
RECURSIVE EMulR(_, _, _, _, _)
EMulR(k, P, c, i, acc) ==
    IF i < 0 THEN acc
    ELSE LET d == EDbl(acc, c) IN
         EMulR(k, P, c, i - 1, IF BBit(k, i) = 1 THEN EAdd(d, P, c) ELSE d)
EMulNat(k, P, c) == EMulR(k, P, c, BBits(k) - 1, EInf)
(* [k]P for a signed k given as sign flag and magnitude *)
EMul(neg, mag, P, c) == IF neg THEN ENeg(EMulNat(mag, P, c)) ELSE EMulNat(mag, P, c)

(* halving: R is a half of P iff [2]R = P.  P has a half iff P is the        *)
(* identity or Tr(x_P) = Tr(a) (then it has exactly two, R and R + T, T the  *)
(* point of order two).                                                      *)
EIsHalfOf(R, P, c) == EEq(EDbl(R, c), P)
EHalvable(P, c) == P.inf \/ GTrace(P.x, c.f) = GTrace(c.a, c.f)
(* lambda representation (x, lambda = x + y/x) of a finite point with x # 0 *)
EFromLambda(x, l, c) == EPt(x, GMul(GAdd(x, l), x, c.f))

(* Frobenius: coordinate-wise squaring (an endomorphism when a, b are in GF(2)) *)
EFrb(P, c) == IF P.inf THEN EInf ELSE EPt(GSqr(P.x, c.f), GSqr(P.y, c.f))
EIsKoblitz(c) == c.b = <<1>> /\ c.a \in {<<>>, <<1>>}
=============================================================================
