-------------------------------- MODULE Field --------------------------------
(***************************************************************************)
(* The prime field Z/pZ on BigNat residues in [0, p): the definitions      *)
(* fp_* (C02) and everything built on it are judged against.               *)
(***************************************************************************)
EXTENDS BigNat

InField(a, p) == IsBigNat(a) /\ BLt(a, p)
FAdd(a, b, p) == BAddMod(a, b, p)
FSub(a, b, p) == BSubMod(a, b, p)
FNeg(a, p)    == IF a = <<>> THEN <<>> ELSE BSub(p, a)
FMul(a, b, p) == BMulMod(a, b, p)
FSqr(a, p)    == BMulMod(a, a, p)
FDbl(a, p)    == BAddMod(a, a, p)
FInv(a, p)    == BModInv(a, p)                 \* <<>> for a = 0
FExp(a, e, p) == BModExp(a, e, p)              \* e a BigNat
(* a / 2 in the field *)
FHlv(a, p)    == IF BBit(a, 0) = 0 THEN BShr(a, 1) ELSE BShr(BAdd(a, p), 1)
FFromNat(n, p) == BMod(BFromNat(n), p)
(* Legendre symbol as -1, 0, 1 (p an odd prime) *)
FLegendre(a, p) ==
    LET r == BModExp(a, BShr(p, 1), p) IN
    IF r = <<>> THEN 0 ELSE IF r = <<1>> THEN 1 ELSE 0 - 1
FIsSquare(a, p) == FLegendre(a, p) >= 0
FIsSqrtOf(r, a, p) == BMulMod(r, r, p) = a
FIsCbrtOf(r, a, p) == BMulMod(BMulMod(r, r, p), r, p) = a
(* a is a cube iff a = 0 or a^((p-1)/gcd(3,p-1)) = 1 *)
FIsCube(a, p) ==
    IF a = <<>> THEN TRUE
    ELSE IF BMod(BSub(p, <<1>>), <<3>>) # <<>> THEN TRUE
    ELSE BModExp(a, BDiv(BSub(p, <<1>>), <<3>>), p) = <<1>>
(* signed BigInt reduced into the field *)
FFromInt(neg, mag, p) == LET r == BMod(mag, p) IN IF neg THEN FNeg(r, p) ELSE r
=============================================================================
