-------------------------------- MODULE Curve --------------------------------
(***************************************************************************)
(* Short-Weierstrass curves y^2 = x^3 + a x + b over Z/pZ: the affine      *)
(* group law with all its cases and the scalar multiple - the definition   *)
(* C03, C05, C07, C12, C13, C18 are judged against.                        *)
(*   curve  c == [p |-> prime, a |-> BigNat, b |-> BigNat]                 *)
(*   point  P == [inf |-> BOOLEAN, x |-> BigNat, y |-> BigNat]             *)
(***************************************************************************)
EXTENDS Field

PInf == [inf |-> TRUE, x |-> <<>>, y |-> <<>>]
Pt(x, y) == [inf |-> FALSE, x |-> x, y |-> y]

Rhs(x, c) == FAdd(FAdd(FMul(FSqr(x, c.p), x, c.p), FMul(c.a, x, c.p), c.p), c.b, c.p)
OnCurve(P, c) == P.inf \/ (InField(P.x, c.p) /\ InField(P.y, c.p) /\ FSqr(P.y, c.p) = Rhs(P.x, c))
PEq(P, Q) == IF P.inf \/ Q.inf THEN P.inf = Q.inf ELSE P.x = Q.x /\ P.y = Q.y
PNeg(P, c) == IF P.inf THEN PInf ELSE Pt(P.x, FNeg(P.y, c.p))

PDbl(P, c) ==
    IF P.inf \/ P.y = <<>> THEN PInf
    ELSE LET p  == c.p
             l  == FMul(FAdd(FMul(<<3>>, FSqr(P.x, p), p), c.a, p), FInv(FDbl(P.y, p), p), p)
             x3 == FSub(FSub(FSqr(l, p), P.x, p), P.x, p)
             y3 == FSub(FMul(l, FSub(P.x, x3, p), p), P.y, p)
         IN  Pt(x3, y3)

PAdd(P, Q, c) ==
    IF P.inf THEN Q
    ELSE IF Q.inf THEN P
    ELSE IF P.x = Q.x THEN (IF P.y = Q.y THEN PDbl(P, c) ELSE PInf)
    ELSE LET p  == c.p
             l  == FMul(FSub(Q.y, P.y, p), FInv(FSub(Q.x, P.x, p), p), p)
             x3 == FSub(FSub(FSqr(l, p), P.x, p), Q.x, p)
             y3 == FSub(FMul(l, FSub(P.x, x3, p), p), P.y, p)
         IN  Pt(x3, y3)
PSub(P, Q, c) == PAdd(P, PNeg(Q, c), c)

(* [k]P for a BigNat k: left-to-right double-and-add, the bit range folded by halves *)
(* (recursion depth O(log bits), see lib/Tower.TExpR)                              *)
RECURSIVE PMulR(_, _, _, _, _, _)
PMulR(k, P, c, acc, lo, hi) ==         \* acc after consuming bits hi-1 .. lo of k
    IF hi - lo = 1
    THEN LET d == PDbl(acc, c) IN IF BBit(k, lo) = 1 THEN PAdd(d, P, c) ELSE d
    ELSE LET mid == (lo + hi) \div 2
             a1  == PMulR(k, P, c, acc, mid, hi)
         IN  IF a1 = a1 THEN PMulR(k, P, c, a1, lo, mid) ELSE a1
PMulNat(k, P, c) == IF BBits(k) = 0 THEN PInf ELSE PMulR(k, P, c, PInf, 0, BBits(k))
(* [k]P for a signed k given as sign flag and magnitude *)
PMul(neg, mag, P, c) == IF neg THEN PNeg(PMulNat(mag, P, c), c) ELSE PMulNat(mag, P, c)

(* decompression: the y with the requested parity for a given x, if any *)
HasPointWithX(x, c) == FIsSquare(Rhs(x, c), c.p)
=============================================================================
