-------------------------------- MODULE Kdf ---------------------------------
(***************************************************************************)
(* The counter-mode derivation functions RELIC documents for md_kdf and    *)
(* md_mgf (include/relic_md.h):                                            *)
(*   md_kdf = "the standardized KDF2 function"  (IEEE 1363a / ISO 18033-2  *)
(*            KDF2: T = Hash(Z || I2OSP(1,4)) || Hash(Z || I2OSP(2,4)) ... *)
(*            counter starts at ONE, no shared info), and                  *)
(*   md_mgf = "PKCS#1 2.1 MGF1 ... the same as the standardized KDF1"      *)
(*            (RFC 8017 B.2.1: counter starts at ZERO).                    *)
(* Output = the leading outLen bytes of T.                                 *)
(***************************************************************************)
EXTENDS Sha2

(* RFC 8017 4.1: big-endian representation of x < 2^31 in n bytes *)
I2OSP(x, n) == Eager([j \in 1..n |-> LET e == n - j IN
                                     IF e >= 4 THEN 0 ELSE (x \div (256 ^ e)) % 256])

CounterKdf(H(_), hLen, z, outLen, first) ==
    LET d == (outLen + hLen - 1) \div hLen
        T == Iter(LAMBDA acc, i : acc \o H(z \o I2OSP(first + i - 1, 4)), <<>>, 1, d)
    IN Take(T, outLen)

Kdf2(H(_), hLen, z, outLen) == CounterKdf(H, hLen, z, outLen, 1)
Mgf1(H(_), hLen, seed, maskLen) == CounterKdf(H, hLen, seed, maskLen, 0)

Kdf2Sha256(z, n) == Kdf2(Sha256, 32, z, n)
Mgf1Sha256(z, n) == Mgf1(Sha256, 32, z, n)

ASSUME I2OSP(258, 4) = <<0, 0, 1, 2>>
(* the widely published MGF1-SHA-256 example: seed "bar", 50 bytes *)
ASSUME Mgf1Sha256(<<98, 97, 114>>, 50) =
    <<56, 37, 118, 167, 132, 16, 33, 204, 40, 252, 76, 9, 72, 117, 63, 184, 49, 32, 144, 206, 169, 66, 234, 76, 78, 115, 93, 16, 220, 114, 75, 21, 95, 159, 96, 105, 242, 137, 214, 29, 172, 160, 203, 129, 69, 2, 239, 4, 234, 225>>
(* KDF2 is MGF1 with the counter shifted by one *)
ASSUME Mgf1Sha256(<<98, 97, 114>>, 72) = Sha256(<<98, 97, 114>> \o <<0, 0, 0, 0>>) \o Kdf2Sha256(<<98, 97, 114>>, 40)
=============================================================================
