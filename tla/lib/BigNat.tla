------------------------------- MODULE BigNat -------------------------------
(***************************************************************************)
(* Arbitrary-precision naturals for TLC.  TLC's own integers are 32-bit,   *)
(* RELIC's values are 256..4096 bits wide, so every wide value of the      *)
(* corpus is a LITTLE-ENDIAN sequence of bytes (Seq(0..255)) without       *)
(* trailing zero bytes; zero is <<>>.  This is at the same time the digit  *)
(* vector of RELIC's 8-bit builds, the wire format of the ndjson traces    *)
(* and the value language of every other module.                           *)
(*                                                                         *)
(* The definitions below are the normative ones (schoolbook, pure TLA+).   *)
(* BigNat.java overrides exactly these operators with java.math.BigInteger *)
(* as an evaluation accelerator; MCBigNat checks the pure definitions      *)
(* against TLC's native integers exhaustively for small operands, and      *)
(* bin/check cross-checks override and definition on wide samples in every *)
(* run (DESIGN.md 2.3).                                                    *)
(***************************************************************************)
EXTENDS Naturals, Sequences

BRadix == 256

RECURSIVE BNormR(_)
BNormR(a) == IF a = <<>> THEN <<>>
             ELSE IF a[Len(a)] = 0 THEN BNormR(SubSeq(a, 1, Len(a) - 1)) ELSE a
(* canonical form: no trailing (most significant) zero bytes *)
BNorm(a) == BNormR(a)

IsBigNat(a) == /\ \A i \in 1..Len(a) : a[i] \in 0..255
               /\ (a # <<>> => a[Len(a)] # 0)

RECURSIVE BFromNatR(_)
BFromNatR(n) == IF n = 0 THEN <<>> ELSE <<n % BRadix>> \o BFromNatR(n \div BRadix)
BFromNat(n) == BFromNatR(n)

RECURSIVE BToNatR(_, _)
BToNatR(a, i) == IF i > Len(a) THEN 0 ELSE a[i] + BRadix * BToNatR(a, i + 1)
(* only meaningful below 2^31 *)
BToNat(a) == BToNatR(a, 1)

Dig(a, i) == IF i <= Len(a) THEN a[i] ELSE 0
Max(x, y) == IF x >= y THEN x ELSE y

BZero == <<>>
BOne  == <<1>>
BIsZero(a) == BNorm(a) = <<>>

RECURSIVE BCmpR(_, _, _)
BCmpR(a, b, i) == IF i = 0 THEN 0
                  ELSE IF Dig(a, i) < Dig(b, i) THEN 0 - 1
                  ELSE IF Dig(a, i) > Dig(b, i) THEN 1
                  ELSE BCmpR(a, b, i - 1)
(* -1, 0, 1 *)
BCmp(a, b) == BCmpR(a, b, Max(Len(a), Len(b)))
BLt(a, b) == BCmp(a, b) < 0
BLe(a, b) == BCmp(a, b) <= 0
BEq(a, b) == BCmp(a, b) = 0

RECURSIVE BAddR(_, _, _, _, _)
BAddR(a, b, i, n, c) ==
    IF i > n THEN (IF c = 0 THEN <<>> ELSE <<c>>)
    ELSE LET s == Dig(a, i) + Dig(b, i) + c
         IN  <<s % BRadix>> \o BAddR(a, b, i + 1, n, s \div BRadix)
BAdd(a, b) == BNorm(BAddR(a, b, 1, Max(Len(a), Len(b)), 0))

RECURSIVE BSubR(_, _, _, _, _)
BSubR(a, b, i, n, c) ==
    IF i > n THEN <<>>
    ELSE LET s == Dig(a, i) + BRadix - Dig(b, i) - c
         IN  <<s % BRadix>> \o BSubR(a, b, i + 1, n, 1 - (s \div BRadix))
(* natural subtraction, requires a >= b; (a - b) mod 256^Len otherwise *)
BSub(a, b) == BNorm(BSubR(a, b, 1, Max(Len(a), Len(b)), 0))

(* a * d for a single byte d, plus shift by k bytes *)
RECURSIVE BMul1R(_, _, _, _)
BMul1R(a, d, i, c) ==
    IF i > Len(a) THEN (IF c = 0 THEN <<>> ELSE <<c>>)
    ELSE LET s == a[i] * d + c
         IN  <<s % BRadix>> \o BMul1R(a, d, i + 1, s \div BRadix)
Zeros(k) == [i \in 1..k |-> 0]

RECURSIVE BMulR(_, _, _)
BMulR(a, b, j) ==
    IF j > Len(b) THEN <<>>
    ELSE BAdd(Zeros(j - 1) \o BMul1R(a, b[j], 1, 0), BMulR(a, b, j + 1))
BMul(a, b) == BNorm(BMulR(a, b, 1))

(* bit access, bit length, shifts *)
RECURSIVE Pow2(_)
Pow2(n) == IF n = 0 THEN 1 ELSE 2 * Pow2(n - 1)

BBit(a, i) == (Dig(a, (i \div 8) + 1) \div Pow2(i % 8)) % 2

RECURSIVE BitLen8(_)
BitLen8(d) == IF d = 0 THEN 0 ELSE 1 + BitLen8(d \div 2)
BBits(a) == LET n == BNorm(a) IN
            IF n = <<>> THEN 0 ELSE 8 * (Len(n) - 1) + BitLen8(n[Len(n)])

BShl(a, n) == BNorm(Zeros(n \div 8) \o BMul1R(a, Pow2(n % 8), 1, 0))

RECURSIVE BShrBitsR(_, _, _)
BShrBitsR(a, k, i) ==    \* k in 0..7
    IF i > Len(a) THEN <<>>
    ELSE <<((a[i] \div Pow2(k)) + (Dig(a, i + 1) % Pow2(k)) * Pow2(8 - k)) % BRadix>>
         \o BShrBitsR(a, k, i + 1)
BShr(a, n) == IF n \div 8 >= Len(a) THEN <<>>
              ELSE BNorm(BShrBitsR(SubSeq(a, (n \div 8) + 1, Len(a)), n % 8, 1))

(* a mod 2^n *)
BLow(a, n) == BSub(a, BShl(BShr(a, n), n))

(* Division: binary long division, most significant bit first. *)
RECURSIVE BDivModR(_, _, _, _, _)
BDivModR(a, b, i, q, r) ==
    IF i < 0 THEN <<q, r>>
    ELSE LET r2 == BAdd(BShl(r, 1), IF BBit(a, i) = 1 THEN <<1>> ELSE <<>>)
         IN  IF BLe(b, r2)
             THEN BDivModR(a, b, i - 1, BAdd(BShl(q, 1), <<1>>), BSub(r2, b))
             ELSE BDivModR(a, b, i - 1, BShl(q, 1), r2)
(* <<quotient, remainder>>; b # 0 *)
BDivMod(a, b) == BDivModR(a, b, BBits(a) - 1, <<>>, <<>>)
BDiv(a, b) == BDivMod(a, b)[1]
BMod(a, b) == BDivMod(a, b)[2]

BAddMod(a, b, m) == BMod(BAdd(a, b), m)
(* (a - b) mod m for a, b < m *)
BSubMod(a, b, m) == IF BLe(b, a) THEN BSub(a, b) ELSE BSub(BAdd(a, m), b)
BMulMod(a, b, m) == BMod(BMul(a, b), m)

RECURSIVE BModExpR(_, _, _, _, _)
BModExpR(a, e, m, i, acc) ==
    IF i < 0 THEN acc
    ELSE LET s == BMulMod(acc, acc, m)
         IN  BModExpR(a, e, m, i - 1, IF BBit(e, i) = 1 THEN BMulMod(s, a, m) ELSE s)
(* a^e mod m, m # 0 *)
BModExp(a, e, m) == BModExpR(BMod(a, m), e, m, BBits(e) - 1, BMod(<<1>>, m))

RECURSIVE BGcdR(_, _)
BGcdR(a, b) == IF b = <<>> THEN a ELSE BGcdR(b, BMod(a, b))
BGcd(a, b) == BGcdR(BNorm(a), BNorm(b))

(* modular inverse by extended Euclid on (r, t) pairs with t kept mod m;  *)
(* <<>> when no inverse exists                                             *)
RECURSIVE BModInvR(_, _, _, _, _)
BModInvR(r0, r1, t0, t1, m) ==
    IF r1 = <<>> THEN (IF r0 = <<1>> THEN t0 ELSE <<>>)
    ELSE LET qr == BDivMod(r0, r1)
         IN  BModInvR(r1, qr[2], t1, BSubMod(t0, BMulMod(qr[1], t1, m), m), m)
BModInv(a, m) == IF m = <<1>> THEN <<>> ELSE BModInvR(m, BMod(a, m), <<>>, <<1>>, m)

(* integer square root (floor) by bisection on the bit length *)
RECURSIVE BSqrtR(_, _, _)
BSqrtR(a, lo, hi) ==      \* invariant lo^2 <= a < hi^2
    IF BCmp(BAdd(lo, <<1>>), hi) >= 0 THEN lo
    ELSE LET mid == BShr(BAdd(lo, hi), 1)
         IN  IF BLe(BMul(mid, mid), a) THEN BSqrtR(a, mid, hi) ELSE BSqrtR(a, lo, mid)
BSqrt(a) == IF BNorm(a) = <<>> THEN <<>>
            ELSE BSqrtR(a, <<>>, BShl(<<1>>, (BBits(a) \div 2) + 1))

(* primality by trial division: the definition.  Usable in pure TLA+ only  *)
(* for small operands; the accelerator substitutes a 128-round             *)
(* Miller-Rabin (BigInteger.isProbablePrime) - the one place where the     *)
(* override is not an exact evaluator (named in every evidence file).      *)
RECURSIVE BIsPrimeR(_, _)
BIsPrimeR(a, d) == IF BLt(a, BMul(d, d)) THEN TRUE
                   ELSE IF BMod(a, d) = <<>> THEN FALSE
                   ELSE BIsPrimeR(a, BAdd(d, <<1>>))
BIsPrime(a) == BLe(<<2>>, a) /\ BIsPrimeR(a, <<2>>)

(* big-endian byte string of exactly n bytes <-> BigNat *)
Reverse(s) == [i \in 1..Len(s) |-> s[Len(s) - i + 1]]
BFromBE(s) == BNorm(Reverse(s))
BToBE(a, n) == Reverse(BNorm(a) \o Zeros(n - Len(BNorm(a))))
BLenBytes(a) == Len(BNorm(a))
=============================================================================
