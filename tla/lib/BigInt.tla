------------------------------- MODULE BigInt -------------------------------
(***************************************************************************)
(* Signed integers over BigNat magnitudes: [neg |-> BOOLEAN, mag |-> BigNat]*)
(* with the normal form "zero is not negative".  These are the             *)
(* mathematical right-hand sides the bn layer (C01, C09) is judged against.*)
(***************************************************************************)
EXTENDS BigNat

I(n, m)   == LET mm == BNorm(m) IN [neg |-> (n /\ mm # <<>>), mag |-> mm]
IZero     == [neg |-> FALSE, mag |-> <<>>]
IOne      == [neg |-> FALSE, mag |-> <<1>>]
IFromNat(n) == [neg |-> FALSE, mag |-> BFromNat(n)]
IFromInt(n) == IF n < 0 THEN I(TRUE, BFromNat(0 - n)) ELSE I(FALSE, BFromNat(n))
IIsZero(a) == a.mag = <<>>
INeg(a)   == I(~a.neg, a.mag)
IAbs(a)   == I(FALSE, a.mag)
ISign(a)  == IF a.mag = <<>> THEN 0 ELSE IF a.neg THEN 0 - 1 ELSE 1

ICmp(a, b) ==
    IF a.neg /\ ~b.neg THEN 0 - 1
    ELSE IF ~a.neg /\ b.neg THEN 1
    ELSE IF a.neg THEN BCmp(b.mag, a.mag) ELSE BCmp(a.mag, b.mag)
ICmpAbs(a, b) == BCmp(a.mag, b.mag)
IEq(a, b) == a.neg = b.neg /\ a.mag = b.mag

IAdd(a, b) ==
    IF a.neg = b.neg THEN I(a.neg, BAdd(a.mag, b.mag))
    ELSE IF BLe(b.mag, a.mag) THEN I(a.neg, BSub(a.mag, b.mag))
    ELSE I(b.neg, BSub(b.mag, a.mag))
ISub(a, b) == IAdd(a, INeg(b))
IMul(a, b) == I(a.neg # b.neg, BMul(a.mag, b.mag))
ISqr(a)    == I(FALSE, BMul(a.mag, a.mag))

(* floor division: q = floor(a / b), r = a - q*b, so that r = 0 or sign(r) = sign(b) *)
IFloorDivMod(a, b) ==
    LET qr == BDivMod(a.mag, b.mag)
        q0 == qr[1]
        r0 == qr[2]
    IN  IF a.neg = b.neg
        THEN <<I(FALSE, q0), I(b.neg, r0)>>
        ELSE IF r0 = <<>> THEN <<I(TRUE, q0), IZero>>
        ELSE <<I(TRUE, BAdd(q0, <<1>>)), I(b.neg, BSub(b.mag, r0))>>
IFloorDiv(a, b) == IFloorDivMod(a, b)[1]
IFloorMod(a, b) == IFloorDivMod(a, b)[2]

(* the defining relation of floor division, used when the trace carries q and r *)
IsFloorDivMod(a, b, q, r) ==
    /\ IEq(a, IAdd(IMul(q, b), r))
    /\ BLt(r.mag, b.mag)
    /\ (r.mag = <<>> \/ r.neg = b.neg)

(* truncated division (C semantics): sign(r) = sign(a) *)
ITruncDivMod(a, b) ==
    LET qr == BDivMod(a.mag, b.mag)
    IN  <<I(a.neg # b.neg, qr[1]), I(a.neg, qr[2])>>

IShl(a, n) == I(a.neg, BShl(a.mag, n))
(* floor(a / 2^n) *)
IShrFloor(a, n) ==
    IF ~a.neg THEN I(FALSE, BShr(a.mag, n))
    ELSE IF BLow(a.mag, n) = <<>> THEN I(TRUE, BShr(a.mag, n))
    ELSE I(TRUE, BAdd(BShr(a.mag, n), <<1>>))
(* sign-magnitude shift: sign(a) * floor(|a| / 2^n) *)
IShrMag(a, n) == I(a.neg, BShr(a.mag, n))
(* a mod 2^n in [0, 2^n) *)
IMod2b(a, n) ==
    IF ~a.neg THEN I(FALSE, BLow(a.mag, n))
    ELSE LET l == BLow(a.mag, n) IN
         IF l = <<>> THEN IZero ELSE I(FALSE, BSub(BShl(<<1>>, n), l))
(* mathematical a mod m in [0, m) for m > 0 *)
IModPos(a, m) ==
    LET r == BMod(a.mag, m) IN
    IF ~a.neg \/ r = <<>> THEN r ELSE BSub(m, r)

IGcd(a, b) == I(FALSE, BGcd(a.mag, b.mag))
IDivides(d, a) == IF d.mag = <<>> THEN a.mag = <<>> ELSE BMod(a.mag, d.mag) = <<>>
=============================================================================
