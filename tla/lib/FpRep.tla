-------------------------------- MODULE FpRep --------------------------------
(***************************************************************************)
(* Refinement mapping from RELIC's raw prime-field / curve-point objects    *)
(* (as projected by harness/vh.h) to the abstract values of Field/Curve.   *)
(*   field header of an event: p (LE bytes), w (bytes/digit), fd (digits), *)
(*   mont (1 = elements are stored as a*R mod p, R = 2^(8*w*fd))           *)
(*   raw point: [x, y, z raw elements, c = 1 affine | 2 projective | 3 jacobian] *)
(***************************************************************************)
EXTENDS Curve

FR(e) == BShl(<<1>>, 8 * e.w * e.fd)
FPrime(e) == BNorm(e.p)
(* canonical representation: the raw digits are a number < p of exactly fd digits *)
FCanon(e, raw) == Len(raw) = e.w * e.fd /\ BLt(BNorm(raw), FPrime(e))
(* abstract value of a raw element *)
FAbs(e, raw) == IF e.mont = 1
                THEN FMul(BNorm(raw), FInv(BMod(FR(e), FPrime(e)), FPrime(e)), FPrime(e))
                ELSE BNorm(raw)
(* raw digits that represent value v *)
FRaw(e, v) == IF e.mont = 1 THEN FMul(v, BMod(FR(e), FPrime(e)), FPrime(e)) ELSE v

(* abstract (affine) value of a raw point; infinity iff z = 0 *)
PAbs(e, P) ==
    LET p == FPrime(e)
        z == FAbs(e, P.z)
        x == FAbs(e, P.x)
        y == FAbs(e, P.y)
    IN  IF z = <<>> THEN PInf
        ELSE IF P.c = 1 THEN Pt(x, y)
        ELSE LET zi == FInv(z, p) IN
             IF P.c = 2 THEN Pt(FMul(x, zi, p), FMul(y, zi, p))
             ELSE Pt(FMul(x, FSqr(zi, p), p), FMul(y, FMul(FSqr(zi, p), zi, p), p))
PCanon(e, P) == FCanon(e, P.x) /\ FCanon(e, P.y) /\ FCanon(e, P.z)
(* normalised affine form: z = 1, tag affine (or the library's infinity) *)
PNormal(e, P) == PCanon(e, P) /\ (FAbs(e, P.z) = <<>> \/ (FAbs(e, P.z) = <<1>> /\ P.c = 1))
=============================================================================
