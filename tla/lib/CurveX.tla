-------------------------------- MODULE CurveX --------------------------------
(***************************************************************************)
(* Short-Weierstrass curves over a tower level (lib/Tower): the same affine*)
(* group law as lib/Curve with field operations of level k.                *)
(*   curve  c == [T |-> tower, k |-> level, a |-> el, b |-> el]            *)
(*   point  P == [inf |-> BOOLEAN, x |-> el, y |-> el]                     *)
(* Used for the twists that carry the second pairing group (C11, C12, C18).*)
(***************************************************************************)
EXTENDS Tower

XInf(c) == [inf |-> TRUE, x |-> TZero(c.T, c.k), y |-> TZero(c.T, c.k)]
XPt(x, y) == [inf |-> FALSE, x |-> x, y |-> y]
XA(c, u, v) == TAdd(c.T, c.k, u, v)
XS(c, u, v) == TSub(c.T, c.k, u, v)
XM(c, u, v) == TMul(c.T, c.k, u, v)
XI(c, u) == TInv(c.T, c.k, u)

XRhs(x, c) == XA(c, XA(c, XM(c, XM(c, x, x), x), XM(c, c.a, x)), c.b)
XOnCurve(P, c) == P.inf \/ (InTower(c.T, c.k, P.x) /\ InTower(c.T, c.k, P.y) /\ XM(c, P.y, P.y) = XRhs(P.x, c))
XNeg(P, c) == IF P.inf THEN P ELSE XPt(P.x, TNeg(c.T, c.k, P.y))

XDbl(P, c) ==
    IF P.inf \/ TIsZero(c.T, c.k, P.y) THEN XInf(c)
    ELSE LET xx == XM(c, P.x, P.x)
             l  == XM(c, XA(c, XA(c, XA(c, xx, xx), xx), c.a), XI(c, XA(c, P.y, P.y)))
             x3 == XS(c, XS(c, XM(c, l, l), P.x), P.x)
             y3 == XS(c, XM(c, l, XS(c, P.x, x3)), P.y)
         IN  XPt(x3, y3)

XAdd(P, Q, c) ==
    IF P.inf THEN Q
    ELSE IF Q.inf THEN P
    ELSE IF P.x = Q.x THEN (IF P.y = Q.y THEN XDbl(P, c) ELSE XInf(c))
    ELSE LET l  == XM(c, XS(c, Q.y, P.y), XI(c, XS(c, Q.x, P.x)))
             x3 == XS(c, XS(c, XM(c, l, l), P.x), Q.x)
             y3 == XS(c, XM(c, l, XS(c, P.x, x3)), P.y)
         IN  XPt(x3, y3)

RECURSIVE XMulR(_, _, _, _, _, _)
XMulR(n, P, c, acc, lo, hi) ==         \* balanced fold, see lib/Tower.TExpR
    IF hi - lo = 1
    THEN LET d == XDbl(acc, c) IN IF BBit(n, lo) = 1 THEN XAdd(d, P, c) ELSE d
    ELSE LET mid == (lo + hi) \div 2
             a1  == XMulR(n, P, c, acc, mid, hi)
         IN  IF a1 = a1 THEN XMulR(n, P, c, a1, lo, mid) ELSE a1
XMulNat(n, P, c) == IF BBits(n) = 0 THEN XInf(c) ELSE XMulR(n, P, c, XInf(c), 0, BBits(n))
XMul(neg, mag, P, c) == IF neg THEN XNeg(XMulNat(mag, P, c), c) ELSE XMulNat(mag, P, c)
=============================================================================
