-------------------------------- MODULE Sha2 --------------------------------
(***************************************************************************)
(* FIPS 180-4: SHA-224, SHA-256, SHA-384, SHA-512 on byte sequences.       *)
(* One transcription, generic in the word width: 32-bit words are two and  *)
(* 64-bit words four 16-bit limbs (module Words16).  Section numbers refer *)
(* to FIPS 180-4.  The constant tables were derived from their definitions *)
(* (fractional parts of square / cube roots of the first primes), not      *)
(* copied from the implementation under test.  ASSUMEs at the end pin the  *)
(* published example digests.                                              *)
(***************************************************************************)
EXTENDS Words16

(* 4.2.2 / 4.2.3 *)
K256 == <<
    <<\H428a, \H2f98>>, <<\H7137, \H4491>>, <<\Hb5c0, \Hfbcf>>, <<\He9b5, \Hdba5>>,
    <<\H3956, \Hc25b>>, <<\H59f1, \H11f1>>, <<\H923f, \H82a4>>, <<\Hab1c, \H5ed5>>,
    <<\Hd807, \Haa98>>, <<\H1283, \H5b01>>, <<\H2431, \H85be>>, <<\H550c, \H7dc3>>,
    <<\H72be, \H5d74>>, <<\H80de, \Hb1fe>>, <<\H9bdc, \H06a7>>, <<\Hc19b, \Hf174>>,
    <<\He49b, \H69c1>>, <<\Hefbe, \H4786>>, <<\H0fc1, \H9dc6>>, <<\H240c, \Ha1cc>>,
    <<\H2de9, \H2c6f>>, <<\H4a74, \H84aa>>, <<\H5cb0, \Ha9dc>>, <<\H76f9, \H88da>>,
    <<\H983e, \H5152>>, <<\Ha831, \Hc66d>>, <<\Hb003, \H27c8>>, <<\Hbf59, \H7fc7>>,
    <<\Hc6e0, \H0bf3>>, <<\Hd5a7, \H9147>>, <<\H06ca, \H6351>>, <<\H1429, \H2967>>,
    <<\H27b7, \H0a85>>, <<\H2e1b, \H2138>>, <<\H4d2c, \H6dfc>>, <<\H5338, \H0d13>>,
    <<\H650a, \H7354>>, <<\H766a, \H0abb>>, <<\H81c2, \Hc92e>>, <<\H9272, \H2c85>>,
    <<\Ha2bf, \He8a1>>, <<\Ha81a, \H664b>>, <<\Hc24b, \H8b70>>, <<\Hc76c, \H51a3>>,
    <<\Hd192, \He819>>, <<\Hd699, \H0624>>, <<\Hf40e, \H3585>>, <<\H106a, \Ha070>>,
    <<\H19a4, \Hc116>>, <<\H1e37, \H6c08>>, <<\H2748, \H774c>>, <<\H34b0, \Hbcb5>>,
    <<\H391c, \H0cb3>>, <<\H4ed8, \Haa4a>>, <<\H5b9c, \Hca4f>>, <<\H682e, \H6ff3>>,
    <<\H748f, \H82ee>>, <<\H78a5, \H636f>>, <<\H84c8, \H7814>>, <<\H8cc7, \H0208>>,
    <<\H90be, \Hfffa>>, <<\Ha450, \H6ceb>>, <<\Hbef9, \Ha3f7>>, <<\Hc671, \H78f2>> >>

H256 == <<
    <<\H6a09, \He667>>, <<\Hbb67, \Hae85>>, <<\H3c6e, \Hf372>>, <<\Ha54f, \Hf53a>>,
    <<\H510e, \H527f>>, <<\H9b05, \H688c>>, <<\H1f83, \Hd9ab>>, <<\H5be0, \Hcd19>> >>

H224 == <<
    <<\Hc105, \H9ed8>>, <<\H367c, \Hd507>>, <<\H3070, \Hdd17>>, <<\Hf70e, \H5939>>,
    <<\Hffc0, \H0b31>>, <<\H6858, \H1511>>, <<\H64f9, \H8fa7>>, <<\Hbefa, \H4fa4>> >>

K512 == <<
    <<\H428a, \H2f98, \Hd728, \Hae22>>, <<\H7137, \H4491, \H23ef, \H65cd>>,
    <<\Hb5c0, \Hfbcf, \Hec4d, \H3b2f>>, <<\He9b5, \Hdba5, \H8189, \Hdbbc>>,
    <<\H3956, \Hc25b, \Hf348, \Hb538>>, <<\H59f1, \H11f1, \Hb605, \Hd019>>,
    <<\H923f, \H82a4, \Haf19, \H4f9b>>, <<\Hab1c, \H5ed5, \Hda6d, \H8118>>,
    <<\Hd807, \Haa98, \Ha303, \H0242>>, <<\H1283, \H5b01, \H4570, \H6fbe>>,
    <<\H2431, \H85be, \H4ee4, \Hb28c>>, <<\H550c, \H7dc3, \Hd5ff, \Hb4e2>>,
    <<\H72be, \H5d74, \Hf27b, \H896f>>, <<\H80de, \Hb1fe, \H3b16, \H96b1>>,
    <<\H9bdc, \H06a7, \H25c7, \H1235>>, <<\Hc19b, \Hf174, \Hcf69, \H2694>>,
    <<\He49b, \H69c1, \H9ef1, \H4ad2>>, <<\Hefbe, \H4786, \H384f, \H25e3>>,
    <<\H0fc1, \H9dc6, \H8b8c, \Hd5b5>>, <<\H240c, \Ha1cc, \H77ac, \H9c65>>,
    <<\H2de9, \H2c6f, \H592b, \H0275>>, <<\H4a74, \H84aa, \H6ea6, \He483>>,
    <<\H5cb0, \Ha9dc, \Hbd41, \Hfbd4>>, <<\H76f9, \H88da, \H8311, \H53b5>>,
    <<\H983e, \H5152, \Hee66, \Hdfab>>, <<\Ha831, \Hc66d, \H2db4, \H3210>>,
    <<\Hb003, \H27c8, \H98fb, \H213f>>, <<\Hbf59, \H7fc7, \Hbeef, \H0ee4>>,
    <<\Hc6e0, \H0bf3, \H3da8, \H8fc2>>, <<\Hd5a7, \H9147, \H930a, \Ha725>>,
    <<\H06ca, \H6351, \He003, \H826f>>, <<\H1429, \H2967, \H0a0e, \H6e70>>,
    <<\H27b7, \H0a85, \H46d2, \H2ffc>>, <<\H2e1b, \H2138, \H5c26, \Hc926>>,
    <<\H4d2c, \H6dfc, \H5ac4, \H2aed>>, <<\H5338, \H0d13, \H9d95, \Hb3df>>,
    <<\H650a, \H7354, \H8baf, \H63de>>, <<\H766a, \H0abb, \H3c77, \Hb2a8>>,
    <<\H81c2, \Hc92e, \H47ed, \Haee6>>, <<\H9272, \H2c85, \H1482, \H353b>>,
    <<\Ha2bf, \He8a1, \H4cf1, \H0364>>, <<\Ha81a, \H664b, \Hbc42, \H3001>>,
    <<\Hc24b, \H8b70, \Hd0f8, \H9791>>, <<\Hc76c, \H51a3, \H0654, \Hbe30>>,
    <<\Hd192, \He819, \Hd6ef, \H5218>>, <<\Hd699, \H0624, \H5565, \Ha910>>,
    <<\Hf40e, \H3585, \H5771, \H202a>>, <<\H106a, \Ha070, \H32bb, \Hd1b8>>,
    <<\H19a4, \Hc116, \Hb8d2, \Hd0c8>>, <<\H1e37, \H6c08, \H5141, \Hab53>>,
    <<\H2748, \H774c, \Hdf8e, \Heb99>>, <<\H34b0, \Hbcb5, \He19b, \H48a8>>,
    <<\H391c, \H0cb3, \Hc5c9, \H5a63>>, <<\H4ed8, \Haa4a, \He341, \H8acb>>,
    <<\H5b9c, \Hca4f, \H7763, \He373>>, <<\H682e, \H6ff3, \Hd6b2, \Hb8a3>>,
    <<\H748f, \H82ee, \H5def, \Hb2fc>>, <<\H78a5, \H636f, \H4317, \H2f60>>,
    <<\H84c8, \H7814, \Ha1f0, \Hab72>>, <<\H8cc7, \H0208, \H1a64, \H39ec>>,
    <<\H90be, \Hfffa, \H2363, \H1e28>>, <<\Ha450, \H6ceb, \Hde82, \Hbde9>>,
    <<\Hbef9, \Ha3f7, \Hb2c6, \H7915>>, <<\Hc671, \H78f2, \He372, \H532b>>,
    <<\Hca27, \H3ece, \Hea26, \H619c>>, <<\Hd186, \Hb8c7, \H21c0, \Hc207>>,
    <<\Heada, \H7dd6, \Hcde0, \Heb1e>>, <<\Hf57d, \H4f7f, \Hee6e, \Hd178>>,
    <<\H06f0, \H67aa, \H7217, \H6fba>>, <<\H0a63, \H7dc5, \Ha2c8, \H98a6>>,
    <<\H113f, \H9804, \Hbef9, \H0dae>>, <<\H1b71, \H0b35, \H131c, \H471b>>,
    <<\H28db, \H77f5, \H2304, \H7d84>>, <<\H32ca, \Hab7b, \H40c7, \H2493>>,
    <<\H3c9e, \Hbe0a, \H15c9, \Hbebc>>, <<\H431d, \H67c4, \H9c10, \H0d4c>>,
    <<\H4cc5, \Hd4be, \Hcb3e, \H42b6>>, <<\H597f, \H299c, \Hfc65, \H7e2a>>,
    <<\H5fcb, \H6fab, \H3ad6, \Hfaec>>, <<\H6c44, \H198c, \H4a47, \H5817>> >>

H512 == <<
    <<\H6a09, \He667, \Hf3bc, \Hc908>>, <<\Hbb67, \Hae85, \H84ca, \Ha73b>>,
    <<\H3c6e, \Hf372, \Hfe94, \Hf82b>>, <<\Ha54f, \Hf53a, \H5f1d, \H36f1>>,
    <<\H510e, \H527f, \Hade6, \H82d1>>, <<\H9b05, \H688c, \H2b3e, \H6c1f>>,
    <<\H1f83, \Hd9ab, \Hfb41, \Hbd6b>>, <<\H5be0, \Hcd19, \H137e, \H2179>> >>

H384 == <<
    <<\Hcbbb, \H9d5d, \Hc105, \H9ed8>>, <<\H629a, \H292a, \H367c, \Hd507>>,
    <<\H9159, \H015a, \H3070, \Hdd17>>, <<\H152f, \Hecd8, \Hf70e, \H5939>>,
    <<\H6733, \H2667, \Hffc0, \H0b31>>, <<\H8eb4, \H4a87, \H6858, \H1511>>,
    <<\Hdb0c, \H2e0d, \H64f9, \H8fa7>>, <<\H47b5, \H481d, \Hbefa, \H4fa4>> >>


(* 4.1.2 / 4.1.3 functions *)
Ch(x, y, z)  == WXor(WAnd(x, y), WAnd(WNot(x), z))
Maj(x, y, z) == WXor3(WAnd(x, y), WAnd(x, z), WAnd(y, z))
BSig0(k, x) == IF k = 2 THEN WXor3(WRotr(x, 2), WRotr(x, 13), WRotr(x, 22))
                        ELSE WXor3(WRotr(x, 28), WRotr(x, 34), WRotr(x, 39))
BSig1(k, x) == IF k = 2 THEN WXor3(WRotr(x, 6), WRotr(x, 11), WRotr(x, 25))
                        ELSE WXor3(WRotr(x, 14), WRotr(x, 18), WRotr(x, 41))
SSig0(k, x) == IF k = 2 THEN WXor3(WRotr(x, 7), WRotr(x, 18), WShr(x, 3))
                        ELSE WXor3(WRotr(x, 1), WRotr(x, 8), WShr(x, 7))
SSig1(k, x) == IF k = 2 THEN WXor3(WRotr(x, 17), WRotr(x, 19), WShr(x, 10))
                        ELSE WXor3(WRotr(x, 19), WRotr(x, 61), WShr(x, 6))

(* 5.1 padding: message || 0x80 || 0* || bit length as a big-endian integer *)
(* of lenBytes bytes, total a multiple of blockBytes.  Byte lengths below   *)
(* 2^28 (the bit length must fit a TLC integer).                            *)
LenField(nbits, lenBytes) ==
    Eager([j \in 1..lenBytes |-> LET e == lenBytes - j IN
                                 IF e >= 4 THEN 0 ELSE (nbits \div (256 ^ e)) % 256])
Pad(msg, blockBytes, lenBytes) ==
    LET n == Len(msg)
        z == (2 * blockBytes - ((n + 1 + lenBytes) % blockBytes)) % blockBytes
    IN msg \o <<128>> \o Zeros(z) \o LenField(8 * n, lenBytes)

(* 6.2.2 / 6.4.2 step 1: message schedule, W extended by one word per step *)
SchedStep(k, W, t) ==
    Append(W, WSum(<<SSig1(k, W[t - 2]), W[t - 7], SSig0(k, W[t - 15]), W[t - 16]>>))

(* step 3: one round on the working variables v = <<a,b,c,d,e,f,g,h>> *)
Round(W, K, k, v, t) ==
    LET T1 == WSum(<<v[8], BSig1(k, v[5]), Ch(v[5], v[6], v[7]), K[t], W[t]>>)
        T2 == WAdd(BSig0(k, v[1]), Maj(v[1], v[2], v[3]))
    IN <<WAdd(T1, T2), v[1], v[2], v[3], WAdd(v[4], T1), v[5], v[6], v[7]>>

(* steps 1-4 for the block at byte offset o of m: H(i) from H(i-1) *)
Compress(H, m, o, K, k) ==
    LET W16 == Eager([t \in 1..16 |-> WFromBE(m, o + 2 * k * (t - 1), k)])
        W == Iter(LAMBDA X, t : SchedStep(k, X, t), W16, 17, Len(K))
        v == Iter(LAMBDA x, t : Round(W, K, k, x, t), H, 1, Len(K))
    IN Eager([i \in 1..8 |-> WAdd(H[i], v[i])])

(* all blocks of the padded message m, block size 32k bytes *)
Blocks(H0, m, K, k) ==
    Iter(LAMBDA H, i : Compress(H, m, 32 * k * (i - 1), K, k), H0, 1, Len(m) \div (32 * k))

Digest(H, nbytes) == Take(Flatten([i \in 1..8 |-> WToBE(H[i])]), nbytes)

Sha256(msg) == Digest(Blocks(H256, Pad(msg, 64, 8), K256, 2), 32)
Sha224(msg) == Digest(Blocks(H224, Pad(msg, 64, 8), K256, 2), 28)
Sha512(msg) == Digest(Blocks(H512, Pad(msg, 128, 16), K512, 4), 64)
Sha384(msg) == Digest(Blocks(H384, Pad(msg, 128, 16), K512, 4), 48)

-----------------------------------------------------------------------------
(* Published examples (FIPS 180-4 example files / RFC 6234 test cases).    *)
Abc == <<97, 98, 99>>
(* "abcdbcdecdefdefgefghfghighijhijkijkljklmklmnlmnomnopnopq" (448 bits) *)
M448 == Eager([i \in 1..56 |-> 97 + ((i - 1) \div 4) + ((i - 1) % 4)])
(* "abcdefghbcdefghicdefghij...nopqrstu" (896 bits) *)
M896 == Eager([i \in 1..112 |-> 97 + ((i - 1) \div 8) + ((i - 1) % 8)])
ASSUME Sha256(Abc) =
    <<186, 120, 22, 191, 143, 1, 207, 234, 65, 65, 64, 222, 93, 174, 34, 35, 176, 3, 97, 163, 150, 23, 122, 156, 180, 16, 255, 97, 242, 0, 21, 173>>
ASSUME Sha256(<<>>) =
    <<227, 176, 196, 66, 152, 252, 28, 20, 154, 251, 244, 200, 153, 111, 185, 36, 39, 174, 65, 228, 100, 155, 147, 76, 164, 149, 153, 27, 120, 82, 184, 85>>
ASSUME Sha256(M448) =
    <<36, 141, 106, 97, 210, 6, 56, 184, 229, 192, 38, 147, 12, 62, 96, 57, 163, 60, 228, 89, 100, 255, 33, 103, 246, 236, 237, 212, 25, 219, 6, 193>>
ASSUME Sha224(Abc) =
    <<35, 9, 125, 34, 52, 5, 216, 34, 134, 66, 164, 119, 189, 162, 85, 179, 42, 173, 188, 228, 189, 160, 179, 247, 227, 108, 157, 167>>
ASSUME Sha224(<<>>) =
    <<209, 74, 2, 140, 42, 58, 43, 201, 71, 97, 2, 187, 40, 130, 52, 196, 21, 162, 176, 31, 130, 142, 166, 42, 197, 179, 228, 47>>
ASSUME Sha224(M448) =
    <<117, 56, 139, 22, 81, 39, 118, 204, 93, 186, 93, 161, 253, 137, 1, 80, 176, 198, 69, 92, 180, 245, 139, 25, 82, 82, 37, 37>>
ASSUME Sha512(Abc) =
    <<221, 175, 53, 161, 147, 97, 122, 186, 204, 65, 115, 73, 174, 32, 65, 49, 18, 230, 250, 78, 137, 169, 126, 162, 10, 158, 238, 230, 75, 85, 211, 154, 33, 146, 153, 42, 39, 79, 193, 168, 54, 186, 60, 35, 163, 254, 235, 189, 69, 77, 68, 35, 100, 60, 232, 14, 42, 154, 201, 79, 165, 76, 164, 159>>
ASSUME Sha512(<<>>) =
    <<207, 131, 225, 53, 126, 239, 184, 189, 241, 84, 40, 80, 214, 109, 128, 7, 214, 32, 228, 5, 11, 87, 21, 220, 131, 244, 169, 33, 211, 108, 233, 206, 71, 208, 209, 60, 93, 133, 242, 176, 255, 131, 24, 210, 135, 126, 236, 47, 99, 185, 49, 189, 71, 65, 122, 129, 165, 56, 50, 122, 249, 39, 218, 62>>
ASSUME Sha512(M896) =
    <<142, 149, 155, 117, 218, 227, 19, 218, 140, 244, 247, 40, 20, 252, 20, 63, 143, 119, 121, 198, 235, 159, 127, 161, 114, 153, 174, 173, 182, 136, 144, 24, 80, 29, 40, 158, 73, 0, 247, 228, 51, 27, 153, 222, 196, 181, 67, 58, 199, 211, 41, 238, 182, 221, 38, 84, 94, 150, 229, 91, 135, 75, 233, 9>>
ASSUME Sha384(Abc) =
    <<203, 0, 117, 63, 69, 163, 94, 139, 181, 160, 61, 105, 154, 198, 80, 7, 39, 44, 50, 171, 14, 222, 209, 99, 26, 139, 96, 90, 67, 255, 91, 237, 128, 134, 7, 43, 161, 231, 204, 35, 88, 186, 236, 161, 52, 200, 37, 167>>
ASSUME Sha384(<<>>) =
    <<56, 176, 96, 167, 81, 172, 150, 56, 76, 217, 50, 126, 177, 177, 227, 106, 33, 253, 183, 17, 20, 190, 7, 67, 76, 12, 199, 191, 99, 246, 225, 218, 39, 78, 222, 191, 231, 111, 101, 251, 213, 26, 210, 241, 72, 152, 185, 91>>
ASSUME Sha384(M896) =
    <<9, 51, 12, 51, 247, 17, 71, 232, 61, 25, 47, 199, 130, 205, 27, 71, 83, 17, 27, 23, 59, 59, 5, 210, 47, 160, 128, 134, 227, 176, 247, 18, 252, 199, 199, 26, 85, 126, 45, 185, 102, 195, 233, 250, 145, 116, 96, 57>>

=============================================================================
