-------------------------------- MODULE GF2m --------------------------------
(***************************************************************************)
(* Polynomials over GF(2) and the binary fields GF(2^m) = GF(2)[x]/(f).    *)
(* A polynomial is a BigNat (lib/BigNat): a little-endian byte sequence    *)
(* without trailing zero bytes in which bit i of the value is the          *)
(* coefficient of x^i; the zero polynomial is <<>>.  This is RELIC's fb_t  *)
(* digit vector read as little-endian bytes.  The field polynomial f is    *)
(* given the same way (bit m and the trinomial / pentanomial exponents).   *)
(*                                                                         *)
(* The definitions below are the normative ones (pure TLA+; byte xor from  *)
(* the CommunityModules Bitwise module).  GF2m.java overrides exactly      *)
(* GAdd, GMulPoly, GDivMod, GModPoly, GMul, GSqr, GInv as an evaluation    *)
(* accelerator (same mechanism and trust argument as BigNat.java, DESIGN   *)
(* 2.3): model/MCGF2m checks the pure definitions exhaustively on small    *)
(* operands against the field axioms and, run a second time with the       *)
(* override loaded, checks the override against the same statements;       *)
(* bin/check C16 also evaluates a sample of full-width operations both     *)
(* ways.                                                                   *)
(* This is the definition C16 (binary fields, binary curves) is judged     *)
(* against: fb_* results must equal these operators on the abstract value. *)
(***************************************************************************)
EXTENDS BigNat, Bitwise

(* degree; -1 for the zero polynomial *)
GDeg(a) == BBits(a) - 1

RECURSIVE GAddR(_, _, _, _)
GAddR(a, b, i, n) == IF i > n THEN <<>>
                     ELSE <<Dig(a, i) ^^ Dig(b, i)>> \o GAddR(a, b, i + 1, n)
(* addition = subtraction = coefficient-wise xor *)
GAdd(a, b) == BNorm(GAddR(a, b, 1, Max(Len(a), Len(b))))

(* carry-less product, Horner over the bits of b from the top: acc*x (+ a) *)
RECURSIVE GMulPolyR(_, _, _, _)
GMulPolyR(a, b, i, acc) ==
    IF i < 0 THEN acc
    ELSE LET s == BShl(acc, 1) IN
         GMulPolyR(a, b, i - 1, IF BBit(b, i) = 1 THEN GAdd(s, a) ELSE s)
GMulPoly(a, b) == GMulPolyR(BNorm(a), b, BBits(b) - 1, <<>>)

(* polynomial division with remainder: <<q, r>>, a = q*f + r, deg r < deg f; f # 0 *)
RECURSIVE GDivModR(_, _, _, _)
GDivModR(r, f, df, q) ==
    LET d == GDeg(r) IN
    IF d < df THEN <<q, r>>
    ELSE GDivModR(GAdd(r, BShl(f, d - df)), f, df, GAdd(q, BShl(<<1>>, d - df)))
GDivMod(a, f) == GDivModR(BNorm(a), BNorm(f), GDeg(f), <<>>)
GModPoly(a, f) == GDivMod(a, f)[2]

RECURSIVE GGcdR(_, _)
GGcdR(a, b) == IF b = <<>> THEN a ELSE GGcdR(b, GModPoly(a, b))
GGcd(a, b) == GGcdR(BNorm(a), BNorm(b))

(* ------------------------------------------------------------------------ *)
(* the field GF(2)[x]/(f), elements = polynomials of degree < m = deg f     *)
(* ------------------------------------------------------------------------ *)
GInField(a, m) == IsBigNat(a) /\ BBits(a) <= m
GMul(a, b, f) == GModPoly(GMulPoly(a, b), f)
GSqr(a, f) == GModPoly(GMulPoly(a, a), f)

(* inverse by the extended Euclidean algorithm in GF(2)[x] on (r, t) pairs, *)
(* invariant t_i * a = r_i (mod f); <<>> when a = 0 (no inverse); for       *)
(* irreducible f the defining relation is GMul(a, GInv(a, f), f) = 1        *)
RECURSIVE GInvR(_, _, _, _, _)
GInvR(r0, r1, t0, t1, f) ==
    IF r1 = <<>> THEN (IF r0 = <<1>> THEN t0 ELSE <<>>)
    ELSE LET qr == GDivMod(r0, r1)
         IN  GInvR(r1, qr[2], t1, GAdd(t0, GModPoly(GMulPoly(qr[1], t1), f)), f)
GInv(a, f) == GInvR(BNorm(f), GModPoly(a, f), <<>>, <<1>>, f)
GIsInvOf(c, a, f) == GMul(c, a, f) = <<1>>

(* a^e for a BigNat exponent e (a^0 = 1) *)
RECURSIVE GExpR(_, _, _, _, _)
GExpR(a, e, f, i, acc) ==
    IF i < 0 THEN acc
    ELSE LET s == GSqr(acc, f) IN
         GExpR(a, e, f, i - 1, IF BBit(e, i) = 1 THEN GMul(s, a, f) ELSE s)
GExp(a, e, f) == GExpR(GModPoly(a, f), e, f, BBits(e) - 1, GModPoly(<<1>>, f))

(* iterated squaring a^(2^k) *)
RECURSIVE GItr(_, _, _)
GItr(a, k, f) == IF k = 0 THEN a ELSE GItr(GSqr(a, f), k - 1, f)

(* the square root: squaring is the Frobenius automorphism, a = (a^(2^(m-1)))^2 *)
GSqrt(a, f) == GItr(a, GDeg(f) - 1, f)

(* trace to GF(2): a + a^2 + a^4 + ... + a^(2^(m-1)); the result is 0 or 1 *)
RECURSIVE GTraceR(_, _, _, _)
GTraceR(t, acc, k, f) == IF k = 0 THEN acc
                         ELSE LET s == GSqr(t, f) IN GTraceR(s, GAdd(acc, s), k - 1, f)
GTraceElt(a, f) == GTraceR(a, a, GDeg(f) - 1, f)        \* as a field element (<<>> or <<1>>)
GTrace(a, f) == IF GTraceElt(a, f) = <<>> THEN 0 ELSE 1

(* half-trace (odd m): H(a) = sum_{i=0..(m-1)/2} a^(2^(2i)); H(a)^2 + H(a) = a + Tr(a) *)
RECURSIVE GHalfTraceR(_, _, _, _)
GHalfTraceR(t, acc, k, f) == IF k = 0 THEN acc
                             ELSE LET s == GSqr(GSqr(t, f), f) IN GHalfTraceR(s, GAdd(acc, s), k - 1, f)
GHalfTrace(a, f) == GHalfTraceR(a, a, (GDeg(f) - 1) \div 2, f)

(* z solves z^2 + z = c; solvable iff Tr(c) = 0, the solutions are z and z + 1 *)
GSolves(z, c, f) == GAdd(GSqr(z, f), z) = c
GSolvable(c, f) == GTrace(c, f) = 0

(* ------------------------------------------------------------------------ *)
(* irreducibility (Rabin): f of degree m is irreducible iff                 *)
(*   x^(2^m) = x (mod f)  and  gcd(x^(2^(m/q)) - x, f) = 1 for every prime  *)
(*   divisor q of m                                                         *)
(* ------------------------------------------------------------------------ *)
GX == <<2>>
NatIsPrime(n) == n >= 2 /\ \A d \in 2..(n - 1) : d * d > n \/ n % d # 0
GIsIrreducible(f) ==
    LET m == GDeg(f) IN
    /\ m >= 1
    /\ (m = 1 \/ (/\ GItr(GModPoly(GX, f), m, f) = GModPoly(GX, f)
                  /\ \A q \in 2..m : (m % q = 0 /\ NatIsPrime(q)) =>
                        GGcd(GAdd(GItr(GModPoly(GX, f), m \div q, f), GModPoly(GX, f)), f) = <<1>>))

(* ------------------------------------------------------------------------ *)
(* the quadratic extension GF(2^2m) = GF(2^m)[s]/(s^2 + s + 1) (m odd),     *)
(* elements <<a0, a1>> = a0 + a1*s                                          *)
(* ------------------------------------------------------------------------ *)
G2Add(a, b) == <<GAdd(a[1], b[1]), GAdd(a[2], b[2])>>
G2Mul(a, b, f) ==
    LET p00 == GMul(a[1], b[1], f)
        p11 == GMul(a[2], b[2], f)
        p01 == GMul(a[1], b[2], f)
        p10 == GMul(a[2], b[1], f)
    IN  <<GAdd(p00, p11), GAdd(GAdd(p01, p10), p11)>>
G2Sqr(a, f) == G2Mul(a, a, f)
G2One == <<<<1>>, <<>>>>
G2Zero == <<<<>>, <<>>>>
G2IsInvOf(c, a, f) == G2Mul(c, a, f) = G2One
G2Solves(z, c, f) == G2Add(G2Sqr(z, f), z) = c
(* trace of GF(2^2m) over GF(2): Tr_m(a + a^(2^m)) = Tr_m(a1) *)
G2Trace(a, f) == GTrace(a[2], f)
=============================================================================
