------------------------------ MODULE Words16 ------------------------------
(***************************************************************************)
(* Fixed-width machine words for TLC, whose integers are 32-bit signed.    *)
(* A word of 16k bits is a tuple of k limbs in 0..65535, MOST significant  *)
(* limb first (so a 32-bit word 0x428a2f98 reads <<\H428a, \H2f98>> and a  *)
(* 64-bit word has four limbs).  All operators are generic in k.           *)
(* Bit operations on limbs come from the CommunityModules Bitwise module   *)
(* (x & y, x | y, x ^^ y); shifts and rotations are written with div/mod.  *)
(***************************************************************************)
EXTENDS Integers, Sequences, Bitwise

LIMB == 65536

(* TLC evaluates a function constructor [i \in S |-> e] lazily and without *)
(* memoisation (every application re-evaluates e), which is exponential in *)
(* chains of word operations.  Words are therefore built as explicit       *)
(* tuples (k = 2 or k = 4 limbs), and Eager(f) = f turns any finite        *)
(* sequence-valued function into an evaluated tuple.                        *)
Tup(k, F(_)) == IF k = 2 THEN <<F(1), F(2)>> ELSE <<F(1), F(2), F(3), F(4)>>
Eager(f) == f \o <<>>

WXor(a, b) == Tup(Len(a), LAMBDA i : a[i] ^^ b[i])
WAnd(a, b) == Tup(Len(a), LAMBDA i : a[i] & b[i])
WOr(a, b)  == Tup(Len(a), LAMBDA i : a[i] | b[i])
WNot(a)    == Tup(Len(a), LAMBDA i : 65535 - a[i])
WXor3(a, b, c) == IF Len(a) = 2 THEN <<(a[1] ^^ b[1]) ^^ c[1], (a[2] ^^ b[2]) ^^ c[2]>>
                  ELSE Tup(4, LAMBDA i : (a[i] ^^ b[i]) ^^ c[i])

(* limb of significance s (0 = least significant) *)
LimbAt(w, s) == w[Len(w) - s]

(* rotate right by n bits, 0 <= n < 16k *)
WRotr(w, n) ==
    LET k == Len(w)
        q == n \div 16
        lo == 2 ^ (n % 16)
        hi == 2 ^ (16 - (n % 16))
        (* limb i of the result: the limb q places up, shifted, plus the low *)
        (* bits of the limb q + 1 places up (indices cyclic in 1..k)        *)
        L(i) == (w[((i - q - 1 + k) % k) + 1] \div lo) + (w[((i - q - 2 + k) % k) + 1] % lo) * hi
    IN IF k = 2 THEN <<L(1), L(2)>> ELSE <<L(1), L(2), L(3), L(4)>>
WRotl(w, n) == WRotr(w, (16 * Len(w) - n) % (16 * Len(w)))

(* logical shift right by n bits, 0 <= n < 16k *)
WShr(w, n) ==
    LET k == Len(w)
        q == n \div 16
        r == n % 16
        lo == 2 ^ r
        hi == 2 ^ (16 - r)
        G(s) == IF s < k THEN LimbAt(w, s) ELSE 0
    IN Tup(k, LAMBDA i : (G(k - i + q) \div lo) + (G(k - i + q + 1) % lo) * hi)

(* sum modulo 2^(16k) of a non-empty sequence of at most 30000 words:      *)
(* column sums first, then one carry chain from the least significant limb *)
WSum(ws) ==
    LET k == Len(ws[1])
        n == Len(ws)
        RECURSIVE col(_, _)
        col(i, j) == IF j = 1 THEN ws[1][i] ELSE ws[j][i] + col(i, j - 1)
    IN IF k = 2
       THEN LET s2 == col(2, n)
                s1 == col(1, n) + s2 \div LIMB
            IN <<s1 % LIMB, s2 % LIMB>>
       ELSE LET s4 == col(4, n)
                s3 == col(3, n) + s4 \div LIMB
                s2 == col(2, n) + s3 \div LIMB
                s1 == col(1, n) + s2 \div LIMB
            IN <<s1 % LIMB, s2 % LIMB, s3 % LIMB, s4 % LIMB>>
WAdd(a, b) == WSum(<<a, b>>)

(* big-endian bytes b[o+1 .. o+2k] -> word of k limbs; and back *)
WFromBE(b, o, k) == Tup(k, LAMBDA i : b[o + 2 * i - 1] * 256 + b[o + 2 * i])
WToBE(w) == Eager([j \in 1..(2 * Len(w)) |->
               IF j % 2 = 1 THEN w[(j + 1) \div 2] \div 256 ELSE w[j \div 2] % 256])
(* little-endian bytes b[o+1 .. o+2k] -> word; and back *)
WFromLE(b, o, k) == Tup(k, LAMBDA i : b[o + 2 * (k - i) + 2] * 256 + b[o + 2 * (k - i) + 1])
WToLE(w) == LET k == Len(w) IN
            Eager([j \in 1..(2 * k) |->
               IF j % 2 = 1 THEN w[k - (j - 1) \div 2] % 256 ELSE w[k - (j - 2) \div 2] \div 256])

(* the non-negative integer n < 2^31 as a word of k limbs *)
WOfNat(n, k) == Tup(k, LAMBDA i : IF k - i = 0 THEN n % LIMB
                                  ELSE IF k - i = 1 THEN n \div LIMB ELSE 0)

(* Iter(F, v, lo, hi) = F(...F(F(v, lo), lo + 1)..., hi): a left fold over  *)
(* lo..hi, split in halves so that the recursion depth is logarithmic (TLC  *)
(* resolves every identifier by walking the chain of enclosing bindings,    *)
(* so a deep linear recursion makes each step slower).                      *)
RECURSIVE Iter(_, _, _, _)
Iter(F(_, _), v, lo, hi) ==
    IF lo > hi THEN v
    ELSE IF lo = hi THEN F(v, lo)
    ELSE LET mid == (lo + hi) \div 2 IN Iter(F, Iter(F, v, lo, mid), mid + 1, hi)

(* concatenation of a sequence of byte sequences *)
RECURSIVE Flatten(_)
Flatten(ss) == IF ss = <<>> THEN <<>> ELSE Head(ss) \o Flatten(Tail(ss))
Take(s, n) == SubSeq(s, 1, n)
Zeros(n) == Eager([i \in 1..n |-> 0])

ASSUME WRotr(<<\H1234, \H5678>>, 4) = <<\H8123, \H4567>>
ASSUME WRotr(<<\H1234, \H5678>>, 20) = <<\H4567, \H8123>>
ASSUME WRotr(<<\H1234, \H5678>>, 0) = <<\H1234, \H5678>>
ASSUME WRotr(<<\H0123, \H4567, \H89ab, \Hcdef>>, 28) = <<\H9abc, \Hdef0, \H1234, \H5678>>
ASSUME WRotr(<<\H0123, \H4567, \H89ab, \Hcdef>>, 1) = <<\H8091, \Ha2b3, \Hc4d5, \He6f7>>
ASSUME WShr(<<\H1234, \H5678>>, 4) = <<\H0123, \H4567>>
ASSUME WShr(<<\H1234, \H5678>>, 20) = <<\H0000, \H0123>>
ASSUME WShr(<<\H0123, \H4567, \H89ab, \Hcdef>>, 7) = <<\H0002, \H468a, \Hcf13, \H579b>>
ASSUME WSum(<< <<\Hffff, \Hffff>>, <<0, 1>> >>) = <<0, 0>>
ASSUME WSum(<< <<\Hffff, \Hffff>>, <<\Hffff, \Hffff>>, <<\H0001, \H0003>> >>) = <<\H0001, \H0001>>
ASSUME WSum(<< <<1, \Hffff, \Hffff, \Hffff>>, <<0, 0, 0, 1>> >>) = <<2, 0, 0, 0>>
ASSUME WToBE(<<\H1234, \H5678>>) = <<18, 52, 86, 120>>
ASSUME WFromBE(<<9, 18, 52, 86, 120>>, 1, 2) = <<\H1234, \H5678>>
ASSUME WToLE(<<\H1234, \H5678>>) = <<120, 86, 52, 18>>
ASSUME WFromLE(<<9, 120, 86, 52, 18>>, 1, 2) = <<\H1234, \H5678>>
ASSUME WOfNat(70000, 4) = <<0, 0, 1, 4464>>
=============================================================================
