------------------------------ MODULE Words16 ------------------------------
(***************************************************************************)
(* Fixed-width machine words for TLC, whose integers are 32-bit signed.    *)
(* A word of 16k bits is a tuple of k limbs in 0..65535, MOST significant  *)
(* limb first (so a 32-bit word 0x428a2f98 reads <<\H428a, \H2f98>> and a  *)
(* 64-bit word has four limbs).  All operators are generic in k.           *)
(* Bit operations on limbs come from the CommunityModules Bitwise module   *)
(* (x & y, x | y, x ^^ y); shifts and rotations are written with div/mod.  *)
(***************************************************************************)
EXTENDS Integers, Sequences, Bitwise

LIMB == 65536

WXor(a, b) == [i \in 1..Len(a) |-> a[i] ^^ b[i]]
WAnd(a, b) == [i \in 1..Len(a) |-> a[i] & b[i]]
WOr(a, b)  == [i \in 1..Len(a) |-> a[i] | b[i]]
WNot(a)    == [i \in 1..Len(a) |-> 65535 - a[i]]
WXor3(a, b, c) == [i \in 1..Len(a) |-> (a[i] ^^ b[i]) ^^ c[i]]

(* limb of significance s (0 = least significant) *)
LimbAt(w, s) == w[Len(w) - s]

(* rotate right by n bits, 0 <= n < 16k *)
WRotr(w, n) ==
    LET k == Len(w)
        q == n \div 16
        r == n % 16
        lo == 2 ^ r
        hi == 2 ^ (16 - r)
    IN [i \in 1..k |->
          LET s == k - i IN
          (LimbAt(w, (s + q) % k) \div lo) + (LimbAt(w, (s + q + 1) % k) % lo) * hi]
WRotl(w, n) == WRotr(w, (16 * Len(w) - n) % (16 * Len(w)))

(* logical shift right by n bits, 0 <= n < 16k *)
WShr(w, n) ==
    LET k == Len(w)
        q == n \div 16
        r == n % 16
        lo == 2 ^ r
        hi == 2 ^ (16 - r)
        G(s) == IF s < k THEN LimbAt(w, s) ELSE 0
    IN [i \in 1..k |->
          LET s == k - i IN (G(s + q) \div lo) + (G(s + q + 1) % lo) * hi]

(* sum modulo 2^(16k) of a non-empty sequence of at most 30000 words *)
WSum(ws) ==
    LET k == Len(ws[1])
        n == Len(ws)
        RECURSIVE col(_, _)
        col(i, j) == IF j = 0 THEN 0 ELSE ws[j][i] + col(i, j - 1)
        RECURSIVE cy(_)     \* carry into limb i from the less significant limbs
        cy(i) == IF i = k THEN 0 ELSE (col(i + 1, n) + cy(i + 1)) \div LIMB
    IN [i \in 1..k |-> (col(i, n) + cy(i)) % LIMB]
WAdd(a, b) == WSum(<<a, b>>)

(* big-endian bytes b[o+1 .. o+2k] -> word of k limbs; and back *)
WFromBE(b, o, k) == [i \in 1..k |-> b[o + 2 * i - 1] * 256 + b[o + 2 * i]]
WToBE(w) == [j \in 1..(2 * Len(w)) |->
               IF j % 2 = 1 THEN w[(j + 1) \div 2] \div 256 ELSE w[j \div 2] % 256]
(* little-endian bytes b[o+1 .. o+2k] -> word; and back *)
WFromLE(b, o, k) == [i \in 1..k |-> b[o + 2 * (k - i) + 2] * 256 + b[o + 2 * (k - i) + 1]]
WToLE(w) == LET k == Len(w) IN
            [j \in 1..(2 * k) |->
               IF j % 2 = 1 THEN w[k - (j - 1) \div 2] % 256 ELSE w[k - (j - 2) \div 2] \div 256]

(* the non-negative integer n < 2^31 as a word of k limbs *)
WOfNat(n, k) == [i \in 1..k |-> IF k - i = 0 THEN n % LIMB
                                ELSE IF k - i = 1 THEN n \div LIMB ELSE 0]

(* concatenation of a sequence of byte sequences *)
RECURSIVE Flatten(_)
Flatten(ss) == IF ss = <<>> THEN <<>> ELSE Head(ss) \o Flatten(Tail(ss))
Take(s, n) == SubSeq(s, 1, n)
Zeros(n) == [i \in 1..n |-> 0]

ASSUME WRotr(<<\H1234, \H5678>>, 4) = <<\H8123, \H4567>>
ASSUME WRotr(<<\H1234, \H5678>>, 20) = <<\H4567, \H8123>>
ASSUME WRotr(<<\H1234, \H5678>>, 0) = <<\H1234, \H5678>>
ASSUME WRotr(<<\H0123, \H4567, \H89ab, \Hcdef>>, 28) = <<\H9abc, \Hdef0, \H1234, \H5678>>
ASSUME WRotr(<<\H0123, \H4567, \H89ab, \Hcdef>>, 1) = <<\H8091, \Ha2b3, \Hc4d5, \He6f7>>
ASSUME WShr(<<\H1234, \H5678>>, 4) = <<\H0123, \H4567>>
ASSUME WShr(<<\H1234, \H5678>>, 20) = <<\H0000, \H0123>>
ASSUME WShr(<<\H0123, \H4567, \H89ab, \Hcdef>>, 7) = <<\H0002, \H468a, \Hcf13, \H579b>>
ASSUME WSum(<< <<\Hffff, \Hffff>>, <<0, 1>> >>) = <<0, 0>>
ASSUME WSum(<< <<\Hffff, \Hffff>>, <<\Hffff, \Hffff>>, <<\H0001, \H0003>> >>) = <<\H0001, \H0001>>
ASSUME WSum(<< <<1, \Hffff, \Hffff, \Hffff>>, <<0, 0, 0, 1>> >>) = <<2, 0, 0, 0>>
ASSUME WToBE(<<\H1234, \H5678>>) = <<18, 52, 86, 120>>
ASSUME WFromBE(<<9, 18, 52, 86, 120>>, 1, 2) = <<\H1234, \H5678>>
ASSUME WToLE(<<\H1234, \H5678>>) = <<120, 86, 52, 18>>
ASSUME WFromLE(<<9, 120, 86, 52, 18>>, 1, 2) = <<\H1234, \H5678>>
ASSUME WOfNat(70000, 4) = <<0, 0, 1, 4464>>
=============================================================================
