/*
 * Evaluation accelerator for GF2m.tla (DESIGN.md 2.3): a TLC module override of
 * exactly GAdd, GMulPoly, GDivMod, GModPoly, GMul, GSqr and GInv, computed with
 * java.math.BigInteger shifts and xors (polynomials over GF(2), bit i = coefficient
 * of x^i).  Values are little-endian byte tuples without trailing zeros, as in
 * BigNat.java.  model/MCGF2m checks the pure TLA+ definitions exhaustively for small
 * operands and, run with this class loaded, checks this class against the same
 * statements; bin/check C16 evaluates a sample of full-width operations both ways.
 */
import java.math.BigInteger;

import tlc2.value.impl.IntValue;
import tlc2.value.impl.TupleValue;
import tlc2.value.impl.Value;

public class GF2m {

    static BigInteger dec(final Value v) {
        final TupleValue t = (TupleValue) v.toTuple();
        if (t == null) {
            throw new RuntimeException("GF2m: not a sequence: " + v);
        }
        final Value[] e = t.elems;
        final byte[] be = new byte[e.length + 1];
        for (int i = 0; i < e.length; i++) {
            final int d = ((IntValue) e[i]).val;
            if (d < 0 || d > 255) {
                throw new RuntimeException("GF2m: digit out of range: " + d);
            }
            be[e.length - i] = (byte) d;
        }
        return new BigInteger(be);
    }

    static Value enc(final BigInteger x) {
        if (x.signum() == 0) {
            return new TupleValue(new Value[0]);
        }
        final byte[] be = x.toByteArray();
        int start = 0;
        while (start < be.length && be[start] == 0) {
            start++;
        }
        final int n = be.length - start;
        final Value[] e = new Value[n];
        for (int i = 0; i < n; i++) {
            e[i] = IntValue.gen(be[be.length - 1 - i] & 0xff);
        }
        return new TupleValue(e);
    }

    /* ---- polynomials as long[] (bit i of word i / 64) */
    static long[] words(final BigInteger x, final int n) {
        final long[] w = new long[n];
        final byte[] be = x.toByteArray();
        for (int i = 0; i < be.length; i++) {
            final int pos = be.length - 1 - i;          /* byte index from the least significant */
            if (be[i] != 0 && pos / 8 < n) {
                w[pos / 8] |= ((long) (be[i] & 0xff)) << (8 * (pos % 8));
            }
        }
        return w;
    }

    static BigInteger big(final long[] w) {
        final byte[] be = new byte[8 * w.length + 1];
        for (int i = 0; i < w.length; i++) {
            for (int j = 0; j < 8; j++) {
                be[be.length - 1 - (8 * i + j)] = (byte) (w[i] >>> (8 * j));
            }
        }
        return new BigInteger(be);
    }

    /* carry-less product: for every set bit i of b, xor (a << i) */
    static BigInteger clmul(final BigInteger a, final BigInteger b) {
        final int la = a.bitLength(), lb = b.bitLength();
        if (la == 0 || lb == 0) {
            return BigInteger.ZERO;
        }
        final int na = (la + 63) / 64;
        final int n = (la + lb + 63) / 64 + 1;
        final long[] aw = words(a, na), r = new long[n];
        for (int i = 0; i < lb; i++) {
            if (b.testBit(i)) {
                final int d = i >>> 6, s = i & 63;
                if (s == 0) {
                    for (int k = 0; k < na; k++) {
                        r[k + d] ^= aw[k];
                    }
                } else {
                    for (int k = 0; k < na; k++) {
                        r[k + d] ^= aw[k] << s;
                        r[k + d + 1] ^= aw[k] >>> (64 - s);
                    }
                }
            }
        }
        return big(r);
    }

    /* <<q, r>> with a = q*f + r, deg r < deg f */
    static BigInteger[] divmod(final BigInteger a, final BigInteger f) {
        final int df = f.bitLength() - 1;
        if (df < 0) {
            throw new RuntimeException("GF2m: division by the zero polynomial");
        }
        BigInteger r = a, q = BigInteger.ZERO;
        int d = r.bitLength() - 1;
        if (d < df) {
            return new BigInteger[] { q, r };
        }
        /* word arrays for speed */
        final int n = d / 64 + 1, nf = df / 64 + 1;
        final long[] rw = words(r, n + 1), fw = words(f, nf), qw = new long[n + 1];
        for (int i = d; i >= df; i--) {
            if (((rw[i >>> 6] >>> (i & 63)) & 1L) != 0) {
                final int sh = i - df, dd = sh >>> 6, s = sh & 63;
                qw[dd] |= 1L << s;
                if (s == 0) {
                    for (int k = 0; k < nf; k++) {
                        rw[k + dd] ^= fw[k];
                    }
                } else {
                    for (int k = 0; k < nf; k++) {
                        rw[k + dd] ^= fw[k] << s;
                        if (k + dd + 1 < rw.length) {
                            rw[k + dd + 1] ^= fw[k] >>> (64 - s);
                        }
                    }
                }
            }
        }
        return new BigInteger[] { big(qw), big(rw) };
    }

    static BigInteger mod(final BigInteger a, final BigInteger f) {
        return divmod(a, f)[1];
    }

    public static Value GAdd(final Value a, final Value b) {
        return enc(dec(a).xor(dec(b)));
    }

    public static Value GMulPoly(final Value a, final Value b) {
        return enc(clmul(dec(a), dec(b)));
    }

    public static Value GDivMod(final Value a, final Value f) {
        final BigInteger[] qr = divmod(dec(a), dec(f));
        return new TupleValue(new Value[] { enc(qr[0]), enc(qr[1]) });
    }

    public static Value GModPoly(final Value a, final Value f) {
        return enc(mod(dec(a), dec(f)));
    }

    public static Value GMul(final Value a, final Value b, final Value f) {
        return enc(mod(clmul(dec(a), dec(b)), dec(f)));
    }

    public static Value GSqr(final Value a, final Value f) {
        final BigInteger x = dec(a);
        return enc(mod(clmul(x, x), dec(f)));
    }

    /* extended Euclid on (r, t) pairs, t * a = r (mod f); the empty tuple when gcd(a, f) # 1 */
    public static Value GInv(final Value a, final Value fv) {
        final BigInteger f = dec(fv);
        BigInteger r0 = f, r1 = mod(dec(a), f), t0 = BigInteger.ZERO, t1 = BigInteger.ONE;
        while (r1.signum() != 0) {
            /* r0 = r0 mod r1 by shift-and-xor, t0 follows with the same multiples of t1 */
            int j = r0.bitLength() - r1.bitLength();
            while (j >= 0) {
                r0 = r0.xor(r1.shiftLeft(j));
                t0 = t0.xor(t1.shiftLeft(j));
                j = r0.bitLength() - r1.bitLength();
            }
            BigInteger s = r0; r0 = r1; r1 = s;
            s = t0; t0 = t1; t1 = s;
        }
        if (!r0.equals(BigInteger.ONE)) {
            return new TupleValue(new Value[0]);
        }
        return enc(mod(t0, f));
    }
}
