------------------------------- MODULE Blake2s ------------------------------
(***************************************************************************)
(* RFC 7693 BLAKE2s (32-bit words, 10 rounds, 64-byte blocks), sequential  *)
(* mode with optional key; digest length nn in 1..32.  Words are pairs of  *)
(* 16-bit limbs (module Words16); indices below are 1-based, the RFC's     *)
(* 0-based.                                                                *)
(***************************************************************************)
EXTENDS Sha2

(* 2.6: IV = the SHA-256 initial hash value *)
B2IV == H256
(* 2.7 message word permutations (0-based values) *)
B2Sigma == <<
    <<0, 1, 2, 3, 4, 5, 6, 7, 8, 9, 10, 11, 12, 13, 14, 15>>,
    <<14, 10, 4, 8, 9, 15, 13, 6, 1, 12, 0, 2, 11, 7, 5, 3>>,
    <<11, 8, 12, 0, 5, 2, 15, 13, 10, 14, 3, 6, 7, 1, 9, 4>>,
    <<7, 9, 3, 1, 13, 12, 11, 14, 2, 6, 5, 10, 4, 0, 15, 8>>,
    <<9, 0, 5, 7, 2, 4, 10, 15, 14, 1, 11, 12, 6, 8, 3, 13>>,
    <<2, 12, 6, 10, 0, 11, 8, 3, 4, 13, 7, 5, 15, 14, 1, 9>>,
    <<12, 5, 1, 15, 14, 13, 4, 10, 0, 7, 6, 3, 9, 2, 8, 11>>,
    <<13, 11, 7, 14, 12, 1, 3, 9, 5, 0, 15, 4, 8, 6, 2, 10>>,
    <<6, 15, 14, 9, 11, 3, 0, 8, 12, 2, 13, 7, 1, 4, 10, 5>>,
    <<10, 2, 8, 4, 7, 6, 1, 5, 15, 11, 9, 14, 3, 12, 13, 0>> >>

(* 3.1 mixing function G on v (16 words) at 0-based positions a,b,c,d; R = 16,12,8,7 *)
B2G(v, a, b, c, d, x, y) ==
    LET a1 == WSum(<<v[a + 1], v[b + 1], x>>)
        d1 == WRotr(WXor(v[d + 1], a1), 16)
        c1 == WAdd(v[c + 1], d1)
        b1 == WRotr(WXor(v[b + 1], c1), 12)
        a2 == WSum(<<a1, b1, y>>)
        d2 == WRotr(WXor(d1, a2), 8)
        c2 == WAdd(c1, d2)
        b2 == WRotr(WXor(b1, c2), 7)
    IN Eager([i \in 1..16 |-> IF i = a + 1 THEN a2 ELSE IF i = b + 1 THEN b2
                              ELSE IF i = c + 1 THEN c2 ELSE IF i = d + 1 THEN d2 ELSE v[i]])

(* 3.2 compression F(h, m, t, f): m = 16 words, t = byte offset counter < 2^31 *)
B2Round(m, v, r) ==
    LET s == B2Sigma[((r - 1) % 10) + 1]
        M(j) == m[s[j + 1] + 1]
        v1 == B2G(v, 0, 4, 8, 12, M(0), M(1))
        v2 == B2G(v1, 1, 5, 9, 13, M(2), M(3))
        v3 == B2G(v2, 2, 6, 10, 14, M(4), M(5))
        v4 == B2G(v3, 3, 7, 11, 15, M(6), M(7))
        v5 == B2G(v4, 0, 5, 10, 15, M(8), M(9))
        v6 == B2G(v5, 1, 6, 11, 12, M(10), M(11))
        v7 == B2G(v6, 2, 7, 8, 13, M(12), M(13))
    IN B2G(v7, 3, 4, 9, 14, M(14), M(15))

B2F(h, m, t, final) ==
    LET v0 == Eager([i \in 1..16 |->
                  IF i <= 8 THEN h[i]
                  ELSE IF i = 13 THEN WXor(B2IV[5], WOfNat(t, 2))     \* low word of t
                  ELSE IF i = 14 THEN B2IV[6]                          \* high word of t = 0
                  ELSE IF i = 15 /\ final THEN WNot(B2IV[7])
                  ELSE B2IV[i - 8]])
        v == Iter(LAMBDA x, r : B2Round(m, x, r), v0, 1, 10)
    IN Eager([i \in 1..8 |-> WXor3(h[i], v[i], v[i + 8])])

(* 3.3: data = key block (if any) || message, zero-padded to whole blocks;  *)
(* h0 = IV with p[0] = 0x0101kknn xored in; the last block has the flag.    *)
Blake2s(msg, key, nn) ==
    LET kk == Len(key)
        data == (IF kk > 0 THEN key \o Zeros(64 - kk) ELSE <<>>) \o msg
        ll == Len(data)
        dd == IF ll = 0 THEN 1 ELSE (ll + 63) \div 64
        padded == data \o Zeros(64 * dd - ll)
        h0 == Eager([i \in 1..8 |-> IF i = 1 THEN WXor(B2IV[1], <<\H0101, 256 * kk + nn>>) ELSE B2IV[i]])
        blk(i) == Eager([j \in 1..16 |-> WFromLE(padded, 64 * (i - 1) + 4 * (j - 1), 2)])
        step(h, i) == IF i < dd THEN B2F(h, blk(i), 64 * i, FALSE)
                               ELSE B2F(h, blk(i), ll, TRUE)
        h == Iter(step, h0, 1, dd)
    IN Take(Flatten([i \in 1..8 |-> WToLE(h[i])]), nn)

Blake2s256(msg) == Blake2s(msg, <<>>, 32)
Blake2s160(msg) == Blake2s(msg, <<>>, 20)

(* RFC 7693 appendix B: BLAKE2s-256("abc"); and the empty message *)
ASSUME Blake2s256(<<97, 98, 99>>) =
    <<80, 140, 94, 140, 50, 124, 20, 226, 225, 167, 43, 163, 78, 235, 69, 47, 55, 69, 139, 32, 158, 214, 58, 41, 77, 153, 155, 76, 134, 103, 89, 130>>
ASSUME Blake2s256(<<>>) =
    <<105, 33, 122, 48, 121, 144, 128, 148, 225, 17, 33, 208, 66, 53, 74, 124, 31, 85, 182, 72, 44, 161, 165, 30, 27, 37, 13, 253, 30, 208, 238, 249>>
=============================================================================
