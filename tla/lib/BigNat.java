/*
 * Evaluation accelerator for BigNat.tla (DESIGN.md 2.3): a TLC module override
 * of exactly the operators defined in pure TLA+ there, computed with
 * java.math.BigInteger.  Values are little-endian byte tuples without trailing
 * zeros.  MCBigNat.cfg checks the pure definitions against native integers;
 * bin/check cross-checks this class against the pure definitions on wide
 * samples in every run.
 */
import java.math.BigInteger;

import tlc2.value.impl.BoolValue;
import tlc2.value.impl.IntValue;
import tlc2.value.impl.TupleValue;
import tlc2.value.impl.Value;

public class BigNat {

    static BigInteger dec(final Value v) {
        final TupleValue t = (TupleValue) v.toTuple();
        if (t == null) {
            throw new RuntimeException("BigNat: not a sequence: " + v);
        }
        final Value[] e = t.elems;
        final byte[] be = new byte[e.length + 1];
        for (int i = 0; i < e.length; i++) {
            final int d = ((IntValue) e[i]).val;
            if (d < 0 || d > 255) {
                throw new RuntimeException("BigNat: digit out of range: " + d);
            }
            be[e.length - i] = (byte) d;
        }
        return new BigInteger(be);
    }

    static Value enc(final BigInteger x) {
        if (x.signum() < 0) {
            throw new RuntimeException("BigNat: negative result");
        }
        if (x.signum() == 0) {
            return new TupleValue(new Value[0]);
        }
        final byte[] be = x.toByteArray();
        int start = 0;
        while (start < be.length && be[start] == 0) {
            start++;
        }
        final int n = be.length - start;
        final Value[] e = new Value[n];
        for (int i = 0; i < n; i++) {
            e[i] = IntValue.gen(be[be.length - 1 - i] & 0xff);
        }
        return new TupleValue(e);
    }

    static int ival(final Value v) {
        return ((IntValue) v).val;
    }

    public static Value BNorm(final Value a) { return enc(dec(a)); }

    public static Value BCmp(final Value a, final Value b) {
        return IntValue.gen(Integer.signum(dec(a).compareTo(dec(b))));
    }
    public static Value BLt(final Value a, final Value b) {
        return dec(a).compareTo(dec(b)) < 0 ? BoolValue.ValTrue : BoolValue.ValFalse;
    }
    public static Value BLe(final Value a, final Value b) {
        return dec(a).compareTo(dec(b)) <= 0 ? BoolValue.ValTrue : BoolValue.ValFalse;
    }
    public static Value BEq(final Value a, final Value b) {
        return dec(a).compareTo(dec(b)) == 0 ? BoolValue.ValTrue : BoolValue.ValFalse;
    }
    public static Value BAdd(final Value a, final Value b) { return enc(dec(a).add(dec(b))); }

    public static Value BSub(final Value a, final Value b) {
        final BigInteger x = dec(a), y = dec(b);
        BigInteger r = x.subtract(y);
        if (r.signum() < 0) {
            /* the definition: (a - b) mod 256^max(len) */
            final int n = Math.max(((TupleValue) a.toTuple()).elems.length,
                    ((TupleValue) b.toTuple()).elems.length);
            r = r.mod(BigInteger.ONE.shiftLeft(8 * n));
        }
        return enc(r);
    }
    public static Value BMul(final Value a, final Value b) { return enc(dec(a).multiply(dec(b))); }

    public static Value BBit(final Value a, final Value i) {
        return IntValue.gen(dec(a).testBit(ival(i)) ? 1 : 0);
    }
    public static Value BBits(final Value a) { return IntValue.gen(dec(a).bitLength()); }
    public static Value BShl(final Value a, final Value n) { return enc(dec(a).shiftLeft(ival(n))); }
    public static Value BShr(final Value a, final Value n) { return enc(dec(a).shiftRight(ival(n))); }
    public static Value BLow(final Value a, final Value n) {
        return enc(dec(a).mod(BigInteger.ONE.shiftLeft(ival(n))));
    }

    public static Value BDivMod(final Value a, final Value b) {
        final BigInteger[] qr = dec(a).divideAndRemainder(dec(b));
        return new TupleValue(new Value[] { enc(qr[0]), enc(qr[1]) });
    }
    public static Value BDiv(final Value a, final Value b) { return enc(dec(a).divide(dec(b))); }
    public static Value BMod(final Value a, final Value b) { return enc(dec(a).mod(dec(b))); }
    public static Value BAddMod(final Value a, final Value b, final Value m) {
        return enc(dec(a).add(dec(b)).mod(dec(m)));
    }
    public static Value BSubMod(final Value a, final Value b, final Value m) {
        final BigInteger x = dec(a), y = dec(b);
        /* definition: a - b if b <= a, a + m - b otherwise (a, b < m) */
        return enc(y.compareTo(x) <= 0 ? x.subtract(y) : x.add(dec(m)).subtract(y));
    }
    public static Value BMulMod(final Value a, final Value b, final Value m) {
        return enc(dec(a).multiply(dec(b)).mod(dec(m)));
    }
    public static Value BModExp(final Value a, final Value e, final Value m) {
        return enc(dec(a).modPow(dec(e), dec(m)));
    }
    public static Value BGcd(final Value a, final Value b) { return enc(dec(a).gcd(dec(b))); }

    public static Value BModInv(final Value a, final Value m) {
        final BigInteger mm = dec(m), x = dec(a).mod(mm);
        if (mm.equals(BigInteger.ONE) || !x.gcd(mm).equals(BigInteger.ONE)) {
            return new TupleValue(new Value[0]);
        }
        return enc(x.modInverse(mm));
    }
    public static Value BSqrt(final Value a) { return enc(dec(a).sqrt()); }

    public static Value BIsPrime(final Value a) {
        return dec(a).isProbablePrime(128) ? BoolValue.ValTrue : BoolValue.ValFalse;
    }
    public static Value BFromBE(final Value s) {
        final TupleValue t = (TupleValue) s.toTuple();
        final byte[] be = new byte[t.elems.length + 1];
        for (int i = 0; i < t.elems.length; i++) {
            be[i + 1] = (byte) ((IntValue) t.elems[i]).val;
        }
        return enc(new BigInteger(be));
    }
    public static Value BToBE(final Value a, final Value n) {
        final BigInteger x = dec(a);
        final int len = Math.max(ival(n), (x.bitLength() + 7) / 8);
        final Value[] e = new Value[len];
        for (int i = 0; i < len; i++) {
            e[i] = IntValue.gen(x.shiftRight(8 * (len - 1 - i)).intValue() & 0xff);
        }
        return new TupleValue(e);
    }
    public static Value BLenBytes(final Value a) {
        return IntValue.gen((dec(a).bitLength() + 7) / 8);
    }
}
