--------------------------------- MODULE Aes ---------------------------------
(***************************************************************************)
(* FIPS 197 (AES-128/192/256 cipher and inverse cipher, key expansion),    *)
(* SP 800-38A section 6.2 (CBC) and PKCS#7 padding (RFC 5652 6.3) as used  *)
(* by bc_aes_cbc_enc / bc_aes_cbc_dec.  Bytes are integers 0..255; the     *)
(* state is the 16 input bytes in order (s[r,c] = in[r + 4c], FIPS 197     *)
(* 3.4), i.e. position 1 + r + 4c of a 16-tuple.                           *)
(***************************************************************************)
EXTENDS Words16

(* 5.1.1 S-box (figure 7), rows x0..xf; SBoxDef below is its definition    *)
SBoxTable == <<
    \H63, \H7c, \H77, \H7b, \Hf2, \H6b, \H6f, \Hc5, \H30, \H01, \H67, \H2b, \Hfe, \Hd7, \Hab, \H76,
    \Hca, \H82, \Hc9, \H7d, \Hfa, \H59, \H47, \Hf0, \Had, \Hd4, \Ha2, \Haf, \H9c, \Ha4, \H72, \Hc0,
    \Hb7, \Hfd, \H93, \H26, \H36, \H3f, \Hf7, \Hcc, \H34, \Ha5, \He5, \Hf1, \H71, \Hd8, \H31, \H15,
    \H04, \Hc7, \H23, \Hc3, \H18, \H96, \H05, \H9a, \H07, \H12, \H80, \He2, \Heb, \H27, \Hb2, \H75,
    \H09, \H83, \H2c, \H1a, \H1b, \H6e, \H5a, \Ha0, \H52, \H3b, \Hd6, \Hb3, \H29, \He3, \H2f, \H84,
    \H53, \Hd1, \H00, \Hed, \H20, \Hfc, \Hb1, \H5b, \H6a, \Hcb, \Hbe, \H39, \H4a, \H4c, \H58, \Hcf,
    \Hd0, \Hef, \Haa, \Hfb, \H43, \H4d, \H33, \H85, \H45, \Hf9, \H02, \H7f, \H50, \H3c, \H9f, \Ha8,
    \H51, \Ha3, \H40, \H8f, \H92, \H9d, \H38, \Hf5, \Hbc, \Hb6, \Hda, \H21, \H10, \Hff, \Hf3, \Hd2,
    \Hcd, \H0c, \H13, \Hec, \H5f, \H97, \H44, \H17, \Hc4, \Ha7, \H7e, \H3d, \H64, \H5d, \H19, \H73,
    \H60, \H81, \H4f, \Hdc, \H22, \H2a, \H90, \H88, \H46, \Hee, \Hb8, \H14, \Hde, \H5e, \H0b, \Hdb,
    \He0, \H32, \H3a, \H0a, \H49, \H06, \H24, \H5c, \Hc2, \Hd3, \Hac, \H62, \H91, \H95, \He4, \H79,
    \He7, \Hc8, \H37, \H6d, \H8d, \Hd5, \H4e, \Ha9, \H6c, \H56, \Hf4, \Hea, \H65, \H7a, \Hae, \H08,
    \Hba, \H78, \H25, \H2e, \H1c, \Ha6, \Hb4, \Hc6, \He8, \Hdd, \H74, \H1f, \H4b, \Hbd, \H8b, \H8a,
    \H70, \H3e, \Hb5, \H66, \H48, \H03, \Hf6, \H0e, \H61, \H35, \H57, \Hb9, \H86, \Hc1, \H1d, \H9e,
    \He1, \Hf8, \H98, \H11, \H69, \Hd9, \H8e, \H94, \H9b, \H1e, \H87, \He9, \Hce, \H55, \H28, \Hdf,
    \H8c, \Ha1, \H89, \H0d, \Hbf, \He6, \H42, \H68, \H41, \H99, \H2d, \H0f, \Hb0, \H54, \Hbb, \H16 >>
SBox(x) == SBoxTable[x + 1]
(* 5.3.2 inverse S-box (figure 14); MCMdVectors checks InvSBox(SBox(a)) = a for all a *)
InvSBoxTable == <<
    \H52, \H09, \H6a, \Hd5, \H30, \H36, \Ha5, \H38, \Hbf, \H40, \Ha3, \H9e, \H81, \Hf3, \Hd7, \Hfb,
    \H7c, \He3, \H39, \H82, \H9b, \H2f, \Hff, \H87, \H34, \H8e, \H43, \H44, \Hc4, \Hde, \He9, \Hcb,
    \H54, \H7b, \H94, \H32, \Ha6, \Hc2, \H23, \H3d, \Hee, \H4c, \H95, \H0b, \H42, \Hfa, \Hc3, \H4e,
    \H08, \H2e, \Ha1, \H66, \H28, \Hd9, \H24, \Hb2, \H76, \H5b, \Ha2, \H49, \H6d, \H8b, \Hd1, \H25,
    \H72, \Hf8, \Hf6, \H64, \H86, \H68, \H98, \H16, \Hd4, \Ha4, \H5c, \Hcc, \H5d, \H65, \Hb6, \H92,
    \H6c, \H70, \H48, \H50, \Hfd, \Hed, \Hb9, \Hda, \H5e, \H15, \H46, \H57, \Ha7, \H8d, \H9d, \H84,
    \H90, \Hd8, \Hab, \H00, \H8c, \Hbc, \Hd3, \H0a, \Hf7, \He4, \H58, \H05, \Hb8, \Hb3, \H45, \H06,
    \Hd0, \H2c, \H1e, \H8f, \Hca, \H3f, \H0f, \H02, \Hc1, \Haf, \Hbd, \H03, \H01, \H13, \H8a, \H6b,
    \H3a, \H91, \H11, \H41, \H4f, \H67, \Hdc, \Hea, \H97, \Hf2, \Hcf, \Hce, \Hf0, \Hb4, \He6, \H73,
    \H96, \Hac, \H74, \H22, \He7, \Had, \H35, \H85, \He2, \Hf9, \H37, \He8, \H1c, \H75, \Hdf, \H6e,
    \H47, \Hf1, \H1a, \H71, \H1d, \H29, \Hc5, \H89, \H6f, \Hb7, \H62, \H0e, \Haa, \H18, \Hbe, \H1b,
    \Hfc, \H56, \H3e, \H4b, \Hc6, \Hd2, \H79, \H20, \H9a, \Hdb, \Hc0, \Hfe, \H78, \Hcd, \H5a, \Hf4,
    \H1f, \Hdd, \Ha8, \H33, \H88, \H07, \Hc7, \H31, \Hb1, \H12, \H10, \H59, \H27, \H80, \Hec, \H5f,
    \H60, \H51, \H7f, \Ha9, \H19, \Hb5, \H4a, \H0d, \H2d, \He5, \H7a, \H9f, \H93, \Hc9, \H9c, \Hef,
    \Ha0, \He0, \H3b, \H4d, \Hae, \H2a, \Hf5, \Hb0, \Hc8, \Heb, \Hbb, \H3c, \H83, \H53, \H99, \H61,
    \H17, \H2b, \H04, \H7e, \Hba, \H77, \Hd6, \H26, \He1, \H69, \H14, \H63, \H55, \H21, \H0c, \H7d >>
InvSBox(y) == InvSBoxTable[y + 1]

(* 4.2 multiplication in GF(2^8) modulo x^8 + x^4 + x^3 + x + 1 *)
XTime(b) == IF b < 128 THEN 2 * b ELSE (2 * b - 256) ^^ 27
RECURSIVE GMul(_, _)
GMul(a, b) == IF b = 0 THEN 0
              ELSE (IF b % 2 = 1 THEN a ELSE 0) ^^ GMul(XTime(a), b \div 2)

(* the definition of the S-box: multiplicative inverse, then the affine map *)
GInv(a) == IF a = 0 THEN 0 ELSE CHOOSE x \in 1..255 : GMul(a, x) = 1
Bit(b, i) == (b \div (2 ^ (i % 8))) % 2
SBoxDef(a) ==
    LET b == GInv(a)
        RECURSIVE s(_)
        s(i) == IF i = 8 THEN 0
                ELSE ((Bit(b, i) + Bit(b, i + 4) + Bit(b, i + 5) + Bit(b, i + 6) + Bit(b, i + 7)
                       + Bit(99, i)) % 2) * (2 ^ i) + s(i + 1)
    IN s(0)

XorBytes(a, b) == Eager([i \in 1..Len(a) |-> a[i] ^^ b[i]])

(* 5.1.1 - 5.1.4 *)
SubBytes(s) == Eager([i \in 1..16 |-> SBox(s[i])])
ShiftRows(s) == Eager([i \in 1..16 |-> LET r == (i - 1) % 4
                                           c == (i - 1) \div 4
                                       IN s[1 + r + 4 * ((c + r) % 4)]])
MixColumns(s) ==
    Eager([i \in 1..16 |->
        LET r == (i - 1) % 4
            o == 4 * ((i - 1) \div 4)
            a(j) == s[o + 1 + ((r + j) % 4)]
        IN ((XTime(a(0)) ^^ (XTime(a(1)) ^^ a(1))) ^^ a(2)) ^^ a(3)])
(* 5.3.1 - 5.3.3 *)
InvSubBytes(s) == Eager([i \in 1..16 |-> InvSBox(s[i])])
InvShiftRows(s) == Eager([i \in 1..16 |-> LET r == (i - 1) % 4
                                              c == (i - 1) \div 4
                                          IN s[1 + r + 4 * ((c - r + 4) % 4)]])
InvMixColumns(s) ==
    Eager([i \in 1..16 |->
        LET r == (i - 1) % 4
            o == 4 * ((i - 1) \div 4)
            a(j) == s[o + 1 + ((r + j) % 4)]
        IN ((GMul(a(0), 14) ^^ GMul(a(1), 11)) ^^ GMul(a(2), 13)) ^^ GMul(a(3), 9)])

(* 5.2 key expansion: the schedule as a flat byte sequence, word i (0-based) *)
(* at bytes 4i+1 .. 4i+4; Nk = key words, Nr = Nk + 6 rounds                *)
Rcon(j) == <<Iter(LAMBDA x, i : XTime(x), 1, 2, j), 0, 0, 0>>
KeyExpansion(key) ==
    LET Nk == Len(key) \div 4
        Nr == Nk + 6
        Wd(w, i) == SubSeq(w, 4 * i + 1, 4 * i + 4)
        SubWord(t) == <<SBox(t[1]), SBox(t[2]), SBox(t[3]), SBox(t[4])>>
        RotWord(t) == <<t[2], t[3], t[4], t[1]>>
        step(w, i) ==
            LET t0 == Wd(w, i - 1)
                t  == IF i % Nk = 0 THEN XorBytes(SubWord(RotWord(t0)), Rcon(i \div Nk))
                      ELSE IF Nk > 6 /\ i % Nk = 4 THEN SubWord(t0)
                      ELSE t0
            IN w \o XorBytes(Wd(w, i - Nk), t)
    IN Iter(step, key, Nk, 4 * (Nr + 1) - 1)

RoundKey(w, r) == SubSeq(w, 16 * r + 1, 16 * r + 16)

(* 5.1 Cipher and 5.3 InvCipher on one 16-byte block with schedule w *)
Cipher(in, w) ==
    LET Nr == Len(w) \div 16 - 1
        rnd(s, r) == XorBytes(MixColumns(ShiftRows(SubBytes(s))), RoundKey(w, r))
        s1 == Iter(rnd, XorBytes(in, RoundKey(w, 0)), 1, Nr - 1)
    IN XorBytes(ShiftRows(SubBytes(s1)), RoundKey(w, Nr))

InvCipher(in, w) ==
    LET Nr == Len(w) \div 16 - 1
        rnd(s, j) == InvMixColumns(XorBytes(InvSubBytes(InvShiftRows(s)), RoundKey(w, Nr - j)))
        s1 == Iter(rnd, XorBytes(in, RoundKey(w, Nr)), 1, Nr - 1)
    IN XorBytes(InvSubBytes(InvShiftRows(s1)), RoundKey(w, 0))

ValidKeyLen(n) == n \in {16, 24, 32}

(* SP 800-38A 6.2: CBC over whole blocks; acc = <<previous ciphertext block, output>> *)
Block(s, j) == SubSeq(s, 16 * j - 15, 16 * j)
CbcEncrypt(key, iv, pt) ==
    LET w == KeyExpansion(key)
        step(acc, j) == LET c == Cipher(XorBytes(Block(pt, j), acc[1]), w) IN <<c, acc[2] \o c>>
    IN Iter(step, <<iv, <<>>>>, 1, Len(pt) \div 16)[2]
CbcDecrypt(key, iv, ct) ==
    LET w == KeyExpansion(key)
        prev(j) == IF j = 1 THEN iv ELSE Block(ct, j - 1)
        step(acc, j) == acc \o XorBytes(InvCipher(Block(ct, j), w), prev(j))
    IN Iter(step, <<>>, 1, Len(ct) \div 16)

(* PKCS#7 for 16-byte blocks: append p = 16 - (n mod 16) bytes of value p *)
Pkcs7Pad(m) == LET p == 16 - (Len(m) % 16) IN m \o Eager([i \in 1..p |-> p])
Pkcs7Valid(m) ==
    /\ Len(m) > 0 /\ Len(m) % 16 = 0
    /\ LET p == m[Len(m)] IN
       /\ p >= 1 /\ p <= 16
       /\ \A i \in (Len(m) - p + 1)..Len(m) : m[i] = p
Pkcs7Unpad(m) == Take(m, Len(m) - m[Len(m)])

AesCbcPkcs7Enc(key, iv, pt) == CbcEncrypt(key, iv, Pkcs7Pad(pt))
(* [ok |-> FALSE] when the ciphertext is not a positive number of blocks or *)
(* the padding of the decrypted text is invalid                              *)
AesCbcPkcs7Dec(key, iv, ct) ==
    IF Len(ct) = 0 \/ Len(ct) % 16 # 0 THEN [ok |-> FALSE, pt |-> <<>>]
    ELSE LET m == CbcDecrypt(key, iv, ct) IN
         IF Pkcs7Valid(m) THEN [ok |-> TRUE, pt |-> Pkcs7Unpad(m)]
         ELSE [ok |-> FALSE, pt |-> <<>>]

-----------------------------------------------------------------------------
(* FIPS 197 appendix C.1-C.3 example vectors, appendix A.1 schedule word    *)
AesKey128 == Eager([i \in 1..16 |-> i - 1])
AesKey192 == Eager([i \in 1..24 |-> i - 1])
AesKey256 == Eager([i \in 1..32 |-> i - 1])
AesPtC == Eager([i \in 1..16 |-> 17 * (i - 1)])        \* 00112233...ff
ASSUME SBox(0) = 99 /\ SBox(83) = 237 /\ InvSBox(99) = 0
ASSUME GMul(87, 19) = 254                           \* {57} . {13} = {fe} (4.2.1)
ASSUME SubSeq(KeyExpansion(<<43, 126, 21, 22, 40, 174, 210, 166, 171, 247, 21, 136, 9, 207, 79, 60>>), 17, 20) = <<160, 250, 254, 23>>   \* A.1 w4 = a0fafe17
ASSUME Cipher(AesPtC, KeyExpansion(AesKey128)) = <<105, 196, 224, 216, 106, 123, 4, 48, 216, 205, 183, 128, 112, 180, 197, 90>>
ASSUME Cipher(AesPtC, KeyExpansion(AesKey192)) = <<221, 169, 124, 164, 134, 76, 223, 224, 110, 175, 112, 160, 236, 13, 113, 145>>
ASSUME Cipher(AesPtC, KeyExpansion(AesKey256)) = <<142, 162, 183, 202, 81, 103, 69, 191, 234, 252, 73, 144, 75, 73, 96, 137>>
ASSUME InvCipher(<<105, 196, 224, 216, 106, 123, 4, 48, 216, 205, 183, 128, 112, 180, 197, 90>>, KeyExpansion(AesKey128)) = AesPtC
ASSUME InvCipher(<<221, 169, 124, 164, 134, 76, 223, 224, 110, 175, 112, 160, 236, 13, 113, 145>>, KeyExpansion(AesKey192)) = AesPtC
ASSUME InvCipher(<<142, 162, 183, 202, 81, 103, 69, 191, 234, 252, 73, 144, 75, 73, 96, 137>>, KeyExpansion(AesKey256)) = AesPtC
(* SP 800-38A F.2.1 / F.2.2 CBC-AES128, first two blocks *)
ASSUME CbcEncrypt(<<43, 126, 21, 22, 40, 174, 210, 166, 171, 247, 21, 136, 9, 207, 79, 60>>, AesKey128, <<107, 193, 190, 226, 46, 64, 159, 150, 233, 61, 126, 17, 115, 147, 23, 42, 174, 45, 138, 87, 30, 3, 172, 156, 158, 183, 111, 172, 69, 175, 142, 81>>) = <<118, 73, 171, 172, 129, 25, 178, 70, 206, 233, 142, 155, 18, 233, 25, 125, 80, 134, 203, 155, 80, 114, 25, 238, 149, 219, 17, 58, 145, 118, 120, 178>>
ASSUME CbcDecrypt(<<43, 126, 21, 22, 40, 174, 210, 166, 171, 247, 21, 136, 9, 207, 79, 60>>, AesKey128, <<118, 73, 171, 172, 129, 25, 178, 70, 206, 233, 142, 155, 18, 233, 25, 125, 80, 134, 203, 155, 80, 114, 25, 238, 149, 219, 17, 58, 145, 118, 120, 178>>) = <<107, 193, 190, 226, 46, 64, 159, 150, 233, 61, 126, 17, 115, 147, 23, 42, 174, 45, 138, 87, 30, 3, 172, 156, 158, 183, 111, 172, 69, 175, 142, 81>>
ASSUME Pkcs7Pad(<<>>) = Eager([i \in 1..16 |-> 16]) /\ Pkcs7Pad(<<7, 7>>)[16] = 14
ASSUME ~Pkcs7Valid(Eager([i \in 1..16 |-> 0])) /\ ~Pkcs7Valid(Eager([i \in 1..16 |-> 17]))
=============================================================================
