-------------------------------- MODULE Tower --------------------------------
(***************************************************************************)
(* Extension-field towers over Z/pZ as iterated polynomial quotient rings. *)
(*   T == [p |-> prime, lv |-> seq of levels [deg |-> d_k, nr |-> e_(k-1)]]  *)
(* Level 0 is Z/pZ (elements are BigNats < p).  Level k is                 *)
(*   (level k-1)[x] / (x^deg_k - nr_k),  nr_k an element of level k-1;     *)
(* an element of level k is the sequence of its deg_k coefficients, lowest *)
(* first.  E.g. F_p12 = F_p2[v]/(v^3 - xi)[w]/(w^2 - v) over F_p2 =        *)
(* F_p[u]/(u^2 - qnr) has levels (2, qnr), (3, xi), (2, v).                *)
(* Everything is generic polynomial arithmetic modulo the defining         *)
(* polynomials - the definition C10/C11/C12/C04/C18 are judged against.    *)
(***************************************************************************)
EXTENDS Field

(* Elements are built as explicit tuples: TLC evaluates [i \in S |-> e] lazily at every  *)
(* application (no caching), which is exponential in the depth of a tower expression.    *)
Mk(d, F(_)) == IF d = 2 THEN <<F(1), F(2)>> ELSE <<F(1), F(2), F(3)>>
Deg(T, k) == T.lv[k].deg
Nr(T, k)  == T.lv[k].nr
Top(T)    == Len(T.lv)

RECURSIVE TZero(_, _), TOne(_, _), TIsZero(_, _, _), TAdd(_, _, _, _), TSub(_, _, _, _),
          TNeg(_, _, _), TMul(_, _, _, _), TInv(_, _, _), TScale(_, _, _, _), TEmbed(_, _, _, _)

TZero(T, k) == IF k = 0 THEN <<>> ELSE Mk(Deg(T, k), LAMBDA i : TZero(T, k - 1))
TOne(T, k)  == IF k = 0 THEN <<1>> ELSE Mk(Deg(T, k), LAMBDA i : IF i = 1 THEN TOne(T, k - 1) ELSE TZero(T, k - 1))
TIsZero(T, k, x) == x = TZero(T, k)
TAdd(T, k, x, y) == IF k = 0 THEN FAdd(x, y, T.p) ELSE Mk(Deg(T, k), LAMBDA i : TAdd(T, k - 1, x[i], y[i]))
TSub(T, k, x, y) == IF k = 0 THEN FSub(x, y, T.p) ELSE Mk(Deg(T, k), LAMBDA i : TSub(T, k - 1, x[i], y[i]))
TNeg(T, k, x)    == IF k = 0 THEN FNeg(x, T.p) ELSE Mk(Deg(T, k), LAMBDA i : TNeg(T, k - 1, x[i]))

(* sum over i + j = m (0-based) of x_i * y_j at level k-1 *)
RECURSIVE ConvSum(_, _, _, _, _, _)
ConvSum(T, k, x, y, m, i) ==
    LET d == Deg(T, k) IN
    IF i > m \/ i >= d THEN TZero(T, k - 1)
    ELSE IF m - i >= d THEN ConvSum(T, k, x, y, m, i + 1)
    ELSE TAdd(T, k - 1, TMul(T, k - 1, x[i + 1], y[m - i + 1]), ConvSum(T, k, x, y, m, i + 1))

TMul(T, k, x, y) ==
    IF k = 0 THEN FMul(x, y, T.p)
    ELSE LET d  == Deg(T, k)
             \* all product coefficients c_0 .. c_(2d-2), computed once, as an explicit tuple
             cs == IF d = 2 THEN <<ConvSum(T, k, x, y, 0, 0), ConvSum(T, k, x, y, 1, 0), ConvSum(T, k, x, y, 2, 0)>>
                   ELSE <<ConvSum(T, k, x, y, 0, 0), ConvSum(T, k, x, y, 1, 0), ConvSum(T, k, x, y, 2, 0),
                          ConvSum(T, k, x, y, 3, 0), ConvSum(T, k, x, y, 4, 0)>>
         IN  Mk(d, LAMBDA i : IF i - 1 + d <= 2 * d - 2
                              THEN TAdd(T, k - 1, cs[i], TMul(T, k - 1, Nr(T, k), cs[i + d]))
                              ELSE cs[i])
TSqr(T, k, x) == TMul(T, k, x, x)

(* inverse through the norm to the level below (degrees 2 and 3); zero for zero *)
TInv(T, k, x) ==
    IF k = 0 THEN FInv(x, T.p)
    ELSE IF Deg(T, k) = 2 THEN
         LET a == x[1]  b == x[2]
             n == TSub(T, k - 1, TMul(T, k - 1, a, a), TMul(T, k - 1, Nr(T, k), TMul(T, k - 1, b, b)))
             ni == TInv(T, k - 1, n)
         IN  <<TMul(T, k - 1, a, ni), TNeg(T, k - 1, TMul(T, k - 1, b, ni))>>
    ELSE LET a == x[1]  b == x[2]  c == x[3]  xi == Nr(T, k)
             M(u, v) == TMul(T, k - 1, u, v)
             cA == TSub(T, k - 1, M(a, a), M(xi, M(b, c)))
             cB == TSub(T, k - 1, M(xi, M(c, c)), M(a, b))
             cC == TSub(T, k - 1, M(b, b), M(a, c))
             nF == TAdd(T, k - 1, M(a, cA), M(xi, TAdd(T, k - 1, M(c, cB), M(b, cC))))
             Fi == TInv(T, k - 1, nF)
         IN  <<M(cA, Fi), M(cB, Fi), M(cC, Fi)>>

(* multiply every base coefficient by the base-field element s *)
TScale(T, k, x, s) == IF k = 0 THEN FMul(x, s, T.p) ELSE Mk(Deg(T, k), LAMBDA i : TScale(T, k - 1, x[i], s))
(* embed an element of level j <= k into level k *)
TEmbed(T, j, k, x) == IF j = k THEN x
                      ELSE Mk(Deg(T, k), LAMBDA i : IF i = 1 THEN TEmbed(T, j, k - 1, x) ELSE TZero(T, k - 1))

(* x^e for a BigNat e: square and multiply, most significant bit first.  The bit range is folded  *)
(* by halves (recursion depth O(log bits)): TLC's cost per step grows with the depth of the Java *)
(* stack, a linear recursion over 256 bits is ~8x slower.  `a1 = a1` forces the left half.        *)
RECURSIVE TExpR(_, _, _, _, _, _, _)
TExpR(T, k, x, e, acc, lo, hi) ==      \* acc after consuming bits hi-1 .. lo of e
    IF hi - lo = 1
    THEN LET s == TMul(T, k, acc, acc) IN IF BBit(e, lo) = 1 THEN TMul(T, k, s, x) ELSE s
    ELSE LET mid == (lo + hi) \div 2
             a1  == TExpR(T, k, x, e, acc, mid, hi)
         IN  IF a1 = a1 THEN TExpR(T, k, x, e, a1, lo, mid) ELSE a1
TExp(T, k, x, e) == IF BBits(e) = 0 THEN TOne(T, k) ELSE TExpR(T, k, x, e, TOne(T, k), 0, BBits(e))

(* Frobenius: the p-th power map, iterated j times *)
RECURSIVE TFrb(_, _, _, _)
TFrb(T, k, x, j) == IF j = 0 THEN x ELSE TFrb(T, k, TExp(T, k, x, T.p), j - 1)

(* flatten to the sequence of base-field coefficients in storage order (lowest level innermost) *)
RECURSIVE TFlat(_, _, _)
TFlat(T, k, x) ==
    IF k = 0 THEN <<x>>
    ELSE LET RECURSIVE cat(_)
             cat(i) == IF i > Deg(T, k) THEN <<>> ELSE TFlat(T, k - 1, x[i]) \o cat(i + 1)
         IN  cat(1)
(* number of base coefficients of a level-k element *)
RECURSIVE TDim(_, _)
TDim(T, k) == IF k = 0 THEN 1 ELSE Deg(T, k) * TDim(T, k - 1)
(* rebuild a level-k element from a flat sequence of base coefficients *)
RECURSIVE TUnflat(_, _, _)
TUnflat(T, k, s) ==
    IF k = 0 THEN s[1]
    ELSE LET n == TDim(T, k - 1) IN
         Mk(Deg(T, k), LAMBDA i : TUnflat(T, k - 1, SubSeq(s, (i - 1) * n + 1, i * n)))
RECURSIVE InTower(_, _, _)
InTower(T, k, x) == IF k = 0 THEN InField(x, T.p)
                    ELSE Len(x) = Deg(T, k) /\ \A i \in 1..Deg(T, k) : InTower(T, k - 1, x[i])

(* |level k| - 1 = p^dim - 1, the order of the multiplicative group *)
RECURSIVE BPow(_, _)
BPow(b, n) == IF n = 0 THEN <<1>> ELSE BMul(b, BPow(b, n - 1))
TGroupOrder(T, k) == BSub(BPow(T.p, TDim(T, k)), <<1>>)
(* x^deg - nr is irreducible over level k-1 iff nr is not a deg-th power there (deg prime, *)
(* deg | q - 1): nr^((q-1)/deg) # 1                                                        *)
TLevelIsField(T, k) ==
    LET q1 == TGroupOrder(T, k - 1)
        d  == BFromNat(Deg(T, k))
    IN  /\ BMod(q1, d) = <<>>
        /\ TExp(T, k - 1, Nr(T, k), BDiv(q1, d)) # TOne(T, k - 1)
=============================================================================
