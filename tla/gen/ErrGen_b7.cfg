CONSTANTS Budget = 7  MaxDepth = 4  SnapshotCaught = TRUE
SPECIFICATION Spec
INVARIANT Emit
CHECK_DEADLOCK FALSE
