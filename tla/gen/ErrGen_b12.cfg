CONSTANTS Budget = 12  MaxDepth = 5  SnapshotCaught = TRUE
SPECIFICATION Spec
INVARIANT Emit
CHECK_DEADLOCK FALSE
