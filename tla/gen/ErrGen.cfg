CONSTANTS Budget = 5  MaxDepth = 3  SnapshotCaught = TRUE
SPECIFICATION Spec
INVARIANT Emit
CHECK_DEADLOCK FALSE
