------------------------------- MODULE ErrGen -------------------------------
(***************************************************************************)
(* Generator: every COMPLETE program of model/Err within the token budget  *)
(* (the history variable `log` of a behaviour that reached `done`) is      *)
(* printed as JSON; harness/err_vm.c replays each with the real macros.    *)
(***************************************************************************)
EXTENDS Err, Json
Emit == done => PrintT(<<"@@", ToJson(log)>>)
=============================================================================
