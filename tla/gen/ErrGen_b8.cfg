CONSTANTS Budget = 8  MaxDepth = 4  SnapshotCaught = TRUE
SPECIFICATION Spec
INVARIANT Emit
CHECK_DEADLOCK FALSE
