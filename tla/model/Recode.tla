------------------------------- MODULE Recode -------------------------------
(***************************************************************************)
(* The signed scalar recodings of src/bn/relic_bn_rec.c transcribed loop   *)
(* iteration by loop iteration on native integers:                         *)
(*   bn_rec_naf  - width-w NAF: lowest digit, mask, int8_t cast, the       *)
(*                 "u_i > l/2" correction, add/sub of |u_i|, halving;      *)
(*   bn_rec_reg  - regular recoding on a raw digit vector: the update      *)
(*                 t[0] -= u_i is a SINGLE-DIGIT operation (no borrow or   *)
(*                 carry is propagated), then a multi-digit right shift;   *)
(*   bn_rec_jsf  - Solinas' joint sparse form with the carries d0, d1.     *)
(* Checked for every scalar below 2^KBits and every width 2..WMax (JSF:    *)
(* every pair below 2^JBits): the digits represent the scalar, lie in the  *)
(* promised set, are non-adjacent / regular / jointly sparse, and the      *)
(* length bounds hold (for JSF: the two rows, laid out at distance         *)
(* max(bits)+1 by every caller, never overlap).                            *)
(***************************************************************************)
EXTENDS Integers, Sequences, TLC

CONSTANTS KBits,    \* scalars 1 .. 2^KBits - 1
          JBits,    \* JSF pairs 0 .. 2^JBits - 1
          WMax,     \* widths 2 .. WMax
          DigBits   \* bits per digit of the modelled build (8: int8_t casts bite at w = 8)

RECURSIVE Pow2(_)
Pow2(n) == IF n = 0 THEN 1 ELSE 2 * Pow2(n - 1)
RECURSIVE Bits(_)
Bits(n) == IF n = 0 THEN 0 ELSE 1 + Bits(n \div 2)
Ceil(a, b) == (a + b - 1) \div b
Max(a, b) == IF a >= b THEN a ELSE b
Abs(x) == IF x < 0 THEN 0 - x ELSE x
ToInt8(x) == ((x + 128) % 256) - 128          \* (int8_t) conversion
DigMod == Pow2(DigBits)

RECURSIVE SumR(_, _, _)
SumR(ds, s, i) == IF i > Len(ds) THEN 0 ELSE ds[i] * Pow2((i - 1) * s) + SumR(ds, s, i + 1)
Sum(ds, s) == SumR(ds, s, 1)

VARIABLES alg, k, k2, w, n, t, t2, d0, d1, ds, es, pc, wrap
vars == <<alg, k, k2, w, n, t, t2, d0, d1, ds, es, pc, wrap>>

InitNaf == /\ alg = "naf" /\ k \in 1..(Pow2(KBits) - 1) /\ w \in 2..WMax
           /\ k2 = 0 /\ n = 0 /\ t = k /\ t2 = 0 /\ d0 = 0 /\ d1 = 0
InitReg == /\ alg = "reg" /\ k \in 1..(Pow2(KBits) - 1) /\ w \in 2..WMax
           /\ n \in {Bits(k), KBits, KBits + 3}
           /\ k2 = 0 /\ t = k /\ t2 = 0 /\ d0 = 0 /\ d1 = 0
InitJsf == /\ alg = "jsf" /\ k \in 0..(Pow2(JBits) - 1) /\ k2 \in 0..(Pow2(JBits) - 1)
           /\ w = 2 /\ n = 0 /\ t = k /\ t2 = k2 /\ d0 = 0 /\ d1 = 0
Init == /\ (InitNaf \/ InitReg \/ InitJsf)
        /\ ds = <<>> /\ es = <<>> /\ pc = "loop" /\ wrap = FALSE

(* ---------------------------------------------------------------- bn_rec_naf *)
NafDigit(t0) ==
    LET mask == Pow2(w) - 1
        l == Pow2(w)
    IN  IF w = 2 THEN ToInt8(2 - (t0 % 4))
        ELSE LET u == ToInt8(t0 % (mask + 1)) IN
             IF u > l \div 2 THEN ToInt8(u - l) ELSE u
NafStep ==
    /\ alg = "naf" /\ pc = "loop"
    /\ IF t = 0 THEN pc' = "done" /\ UNCHANGED <<t, ds>>
       ELSE /\ pc' = "loop"
            /\ IF t % 2 = 1
               THEN LET u == NafDigit(t % DigMod)
                        tn == IF u < 0 THEN t + (0 - u) ELSE t - u
                    IN  /\ ds' = Append(ds, u)
                        /\ t' = tn \div 2            \* bn_hlv
               ELSE /\ ds' = Append(ds, 0)
                    /\ t' = t \div 2
    /\ UNCHANGED <<alg, k, k2, w, n, t2, d0, d1, es, wrap>>

(* ---------------------------------------------------------------- bn_rec_reg *)
RegL == Ceil(n, w - 1)
RegD == Ceil(RegL * (w - 1), DigBits)
RegStep ==
    /\ alg = "reg" /\ pc = "loop"
    /\ IF Len(ds) < RegL
       THEN LET t0 == t % DigMod
                u  == ToInt8((t0 % Pow2(w)) - Pow2(w - 1))
                t0n == (t0 - u) % DigMod                 \* dig_t arithmetic on t[0] only
                tn == (t - t0) + t0n
            IN  /\ ds' = Append(ds, u)
                /\ wrap' = (wrap \/ t0 - u < 0 \/ t0 - u >= DigMod)
                /\ t' = (tn % Pow2(RegD * DigBits)) \div Pow2(w - 1)      \* bn_rshb_low over d digits
                /\ pc' = "loop"
       ELSE /\ ds' = Append(ds, ToInt8(t % DigMod))      \* naf[i] = t[0]
            /\ pc' = "done" /\ UNCHANGED <<t, wrap>>
    /\ UNCHANGED <<alg, k, k2, w, n, t2, d0, d1, es>>

(* ---------------------------------------------------------------- bn_rec_jsf *)
JsfDigit(l0, l1) ==
    IF l0 % 2 = 0 THEN 0
    ELSE LET u == 2 - (l0 % 4) IN
         IF (l0 = 3 \/ l0 = 5) /\ (l1 % 4 = 2) THEN 0 - u ELSE u
JsfStep ==
    /\ alg = "jsf" /\ pc = "loop"
    /\ IF (t = 0 /\ d0 = 0) /\ (t2 = 0 /\ d1 = 0)
       THEN pc' = "done" /\ UNCHANGED <<t, t2, d0, d1, ds, es>>
       ELSE LET l0 == ((t % DigMod) + d0) % 8
                l1 == ((t2 % DigMod) + d1) % 8
                u0 == JsfDigit(l0, l1)
                u1 == JsfDigit(l1, l0)
            IN  /\ ds' = Append(ds, u0) /\ es' = Append(es, u1)
                /\ d0' = IF d0 + d0 = 1 + u0 THEN 1 - d0 ELSE d0
                /\ d1' = IF d1 + d1 = 1 + u1 THEN 1 - d1 ELSE d1
                /\ t' = t \div 2 /\ t2' = t2 \div 2
                /\ pc' = "loop"
    /\ UNCHANGED <<alg, k, k2, w, n, wrap>>

Next == NafStep \/ RegStep \/ JsfStep
Spec == Init /\ [][Next]_vars

(* ---------------------------------------------------------------- invariants *)
NonAdjacent(x, ww) == \A i \in 1..Len(x) : x[i] # 0 =>
                         \A j \in (i + 1)..(IF i + ww - 1 < Len(x) THEN i + ww - 1 ELSE Len(x)) : x[j] = 0
OddDig(d) == d % 2 = 1

(* loop invariant of the NAF extraction: nothing of k is lost *)
NafPartial == alg = "naf" => k = t * Pow2(Len(ds)) + Sum(ds, 1)
NafDone == (alg = "naf" /\ pc = "done") =>
    /\ Sum(ds, 1) = k
    /\ \A i \in 1..Len(ds) : ds[i] = 0 \/ (OddDig(ds[i]) /\ Abs(ds[i]) < Pow2(w - 1))
    /\ NonAdjacent(ds, w)
    /\ Len(ds) <= Bits(k) + 1
    /\ ds[Len(ds)] # 0

RegPartial == (alg = "reg" /\ pc = "loop" /\ k < Pow2(n)) =>
                  k = t * Pow2(Len(ds) * (w - 1)) + Sum(ds, w - 1)
RegDone == (alg = "reg" /\ pc = "done" /\ k < Pow2(n)) =>
    /\ Len(ds) = RegL + 1
    /\ Sum(ds, w - 1) = k
    /\ ~wrap                                          \* the single-digit update never needed a borrow / carry
    /\ (k % 2 = 1 => /\ \A i \in 1..RegL : OddDig(ds[i]) /\ Abs(ds[i]) < Pow2(w - 1)
                     /\ ds[RegL + 1] = 1)

ZeroCol(j) == ds[j] = 0 /\ es[j] = 0
JsfRows(x, y) == \A j \in 1..(Len(x) - 1) :
                    /\ x[j + 1] * x[j] # 0 - 1
                    /\ (x[j + 1] * x[j] # 0 => (y[j + 1] # 0 /\ y[j] = 0))
JsfPartial == alg = "jsf" => /\ k = (t + d0) * Pow2(Len(ds)) + Sum(ds, 1)
                             /\ k2 = (t2 + d1) * Pow2(Len(es)) + Sum(es, 1)
JsfDone == (alg = "jsf" /\ pc = "done") =>
    /\ Sum(ds, 1) = k /\ Sum(es, 1) = k2
    /\ Len(ds) = Len(es)
    /\ Len(ds) <= Max(Bits(k), Bits(k2)) + 1          \* the rows at distance max(bits)+1 do not overlap
    /\ \A j \in 1..Len(ds) : ds[j] \in {0 - 1, 0, 1} /\ es[j] \in {0 - 1, 0, 1}
    /\ \A j \in 1..(Len(ds) - 2) : ZeroCol(j) \/ ZeroCol(j + 1) \/ ZeroCol(j + 2)
    /\ JsfRows(ds, es) /\ JsfRows(es, ds)
    /\ (Len(ds) > 0 => ~ZeroCol(Len(ds)))
Bounded == Len(ds) <= KBits + 6
=============================================================================
