---- MODULE AllocFault_TTrace_1790415665 ----
EXTENDS Sequences, AllocFault, TLCExt, Toolbox, Naturals, TLC

_expression ==
    LET AllocFault_TEExpression == INSTANCE AllocFault_TEExpression
    IN AllocFault_TEExpression!expression
----

_trace ==
    LET AllocFault_TETrace == INSTANCE AllocFault_TETrace
    IN AllocFault_TETrace!trace
----

_inv ==
    ~(
        TLCGet("level") = Len(_TETrace)
        /\
        pcF = (<<"done", 0>>)
        /\
        err = (TRUE)
        /\
        pcG = (<<"idle", 1>>)
        /\
        used_after_free = (FALSE)
        /\
        reported = (TRUE)
        /\
        freed = ((<<"F", 1>> :> 1 @@ <<"F", 2>> :> 1 @@ <<"F", 3>> :> 0 @@ <<"F", 4>> :> 0 @@ <<"G", 1>> :> 0 @@ <<"G", 2>> :> 0 @@ <<"G", 3>> :> 0))
        /\
        k = (4)
        /\
        live = ({<<"G", 1>>})
        /\
        attempts = (4)
    )
----

_init ==
    /\ used_after_free = _TETrace[1].used_after_free
    /\ live = _TETrace[1].live
    /\ err = _TETrace[1].err
    /\ freed = _TETrace[1].freed
    /\ attempts = _TETrace[1].attempts
    /\ k = _TETrace[1].k
    /\ reported = _TETrace[1].reported
    /\ pcF = _TETrace[1].pcF
    /\ pcG = _TETrace[1].pcG
----

_next ==
    /\ \E i,j \in DOMAIN _TETrace:
        /\ \/ /\ j = i + 1
              /\ i = TLCGet("level")
        /\ used_after_free  = _TETrace[i].used_after_free
        /\ used_after_free' = _TETrace[j].used_after_free
        /\ live  = _TETrace[i].live
        /\ live' = _TETrace[j].live
        /\ err  = _TETrace[i].err
        /\ err' = _TETrace[j].err
        /\ freed  = _TETrace[i].freed
        /\ freed' = _TETrace[j].freed
        /\ attempts  = _TETrace[i].attempts
        /\ attempts' = _TETrace[j].attempts
        /\ k  = _TETrace[i].k
        /\ k' = _TETrace[j].k
        /\ reported  = _TETrace[i].reported
        /\ reported' = _TETrace[j].reported
        /\ pcF  = _TETrace[i].pcF
        /\ pcF' = _TETrace[j].pcF
        /\ pcG  = _TETrace[i].pcG
        /\ pcG' = _TETrace[j].pcG

\* Uncomment the ASSUME below to write the states of the error trace
\* to the given file in Json format. Note that you can pass any tuple
\* to `JsonSerialize`. For example, a sub-sequence of _TETrace.
    \* ASSUME
    \*     LET J == INSTANCE Json
    \*         IN J!JsonSerialize("AllocFault_TTrace_1790415665.json", _TETrace)

=============================================================================

 Note that you can extract this module `AllocFault_TEExpression`
  to a dedicated file to reuse `expression` (the module in the 
  dedicated `AllocFault_TEExpression.tla` file takes precedence 
  over the module `AllocFault_TEExpression` below).

---- MODULE AllocFault_TEExpression ----
EXTENDS Sequences, AllocFault, TLCExt, Toolbox, Naturals, TLC

expression == 
    [
        \* To hide variables of the `AllocFault` spec from the error trace,
        \* remove the variables below.  The trace will be written in the order
        \* of the fields of this record.
        used_after_free |-> used_after_free
        ,live |-> live
        ,err |-> err
        ,freed |-> freed
        ,attempts |-> attempts
        ,k |-> k
        ,reported |-> reported
        ,pcF |-> pcF
        ,pcG |-> pcG
        
        \* Put additional constant-, state-, and action-level expressions here:
        \* ,_stateNumber |-> _TEPosition
        \* ,_used_after_freeUnchanged |-> used_after_free = used_after_free'
        
        \* Format the `used_after_free` variable as Json value.
        \* ,_used_after_freeJson |->
        \*     LET J == INSTANCE Json
        \*     IN J!ToJson(used_after_free)
        
        \* Lastly, you may build expressions over arbitrary sets of states by
        \* leveraging the _TETrace operator.  For example, this is how to
        \* count the number of times a spec variable changed up to the current
        \* state in the trace.
        \* ,_used_after_freeModCount |->
        \*     LET F[s \in DOMAIN _TETrace] ==
        \*         IF s = 1 THEN 0
        \*         ELSE IF _TETrace[s].used_after_free # _TETrace[s-1].used_after_free
        \*             THEN 1 + F[s-1] ELSE F[s-1]
        \*     IN F[_TEPosition - 1]
    ]

=============================================================================



Parsing and semantic processing can take forever if the trace below is long.
 In this case, it is advised to uncomment the module below to deserialize the
 trace from a generated binary file.

\*
\*---- MODULE AllocFault_TETrace ----
\*EXTENDS IOUtils, AllocFault, TLC
\*
\*trace == IODeserialize("AllocFault_TTrace_1790415665.bin", TRUE)
\*
\*=============================================================================
\*

---- MODULE AllocFault_TETrace ----
EXTENDS AllocFault, TLC

trace == 
    <<
    ([pcF |-> <<"alloc", 1>>,err |-> FALSE,pcG |-> <<"idle", 0>>,used_after_free |-> FALSE,reported |-> FALSE,freed |-> (<<"F", 1>> :> 0 @@ <<"F", 2>> :> 0 @@ <<"F", 3>> :> 0 @@ <<"F", 4>> :> 0 @@ <<"G", 1>> :> 0 @@ <<"G", 2>> :> 0 @@ <<"G", 3>> :> 0),k |-> 4,live |-> {},attempts |-> 0]),
    ([pcF |-> <<"alloc", 2>>,err |-> FALSE,pcG |-> <<"idle", 0>>,used_after_free |-> FALSE,reported |-> FALSE,freed |-> (<<"F", 1>> :> 0 @@ <<"F", 2>> :> 0 @@ <<"F", 3>> :> 0 @@ <<"F", 4>> :> 0 @@ <<"G", 1>> :> 0 @@ <<"G", 2>> :> 0 @@ <<"G", 3>> :> 0),k |-> 4,live |-> {<<"F", 1>>},attempts |-> 1]),
    ([pcF |-> <<"alloc", 3>>,err |-> FALSE,pcG |-> <<"idle", 0>>,used_after_free |-> FALSE,reported |-> FALSE,freed |-> (<<"F", 1>> :> 0 @@ <<"F", 2>> :> 0 @@ <<"F", 3>> :> 0 @@ <<"F", 4>> :> 0 @@ <<"G", 1>> :> 0 @@ <<"G", 2>> :> 0 @@ <<"G", 3>> :> 0),k |-> 4,live |-> {<<"F", 1>>, <<"F", 2>>},attempts |-> 2]),
    ([pcF |-> <<"alloc", 3>>,err |-> FALSE,pcG |-> <<"alloc", 1>>,used_after_free |-> FALSE,reported |-> FALSE,freed |-> (<<"F", 1>> :> 0 @@ <<"F", 2>> :> 0 @@ <<"F", 3>> :> 0 @@ <<"F", 4>> :> 0 @@ <<"G", 1>> :> 0 @@ <<"G", 2>> :> 0 @@ <<"G", 3>> :> 0),k |-> 4,live |-> {<<"F", 1>>, <<"F", 2>>},attempts |-> 2]),
    ([pcF |-> <<"alloc", 3>>,err |-> FALSE,pcG |-> <<"alloc", 2>>,used_after_free |-> FALSE,reported |-> FALSE,freed |-> (<<"F", 1>> :> 0 @@ <<"F", 2>> :> 0 @@ <<"F", 3>> :> 0 @@ <<"F", 4>> :> 0 @@ <<"G", 1>> :> 0 @@ <<"G", 2>> :> 0 @@ <<"G", 3>> :> 0),k |-> 4,live |-> {<<"F", 1>>, <<"F", 2>>, <<"G", 1>>},attempts |-> 3]),
    ([pcF |-> <<"alloc", 3>>,err |-> TRUE,pcG |-> <<"done", 1>>,used_after_free |-> FALSE,reported |-> FALSE,freed |-> (<<"F", 1>> :> 0 @@ <<"F", 2>> :> 0 @@ <<"F", 3>> :> 0 @@ <<"F", 4>> :> 0 @@ <<"G", 1>> :> 0 @@ <<"G", 2>> :> 0 @@ <<"G", 3>> :> 0),k |-> 4,live |-> {<<"F", 1>>, <<"F", 2>>, <<"G", 1>>},attempts |-> 4]),
    ([pcF |-> <<"finally", 0>>,err |-> TRUE,pcG |-> <<"idle", 1>>,used_after_free |-> FALSE,reported |-> FALSE,freed |-> (<<"F", 1>> :> 0 @@ <<"F", 2>> :> 0 @@ <<"F", 3>> :> 0 @@ <<"F", 4>> :> 0 @@ <<"G", 1>> :> 0 @@ <<"G", 2>> :> 0 @@ <<"G", 3>> :> 0),k |-> 4,live |-> {<<"F", 1>>, <<"F", 2>>, <<"G", 1>>},attempts |-> 4]),
    ([pcF |-> <<"done", 0>>,err |-> TRUE,pcG |-> <<"idle", 1>>,used_after_free |-> FALSE,reported |-> TRUE,freed |-> (<<"F", 1>> :> 1 @@ <<"F", 2>> :> 1 @@ <<"F", 3>> :> 0 @@ <<"F", 4>> :> 0 @@ <<"G", 1>> :> 0 @@ <<"G", 2>> :> 0 @@ <<"G", 3>> :> 0),k |-> 4,live |-> {<<"G", 1>>},attempts |-> 4])
    >>
----


=============================================================================

---- CONFIG AllocFault_TTrace_1790415665 ----
CONSTANTS
    NF = 4
    NG = 3
    Discipline = "leaky"

INVARIANT
    _inv

CHECK_DEADLOCK
    \* CHECK_DEADLOCK off because of PROPERTY or INVARIANT above.
    FALSE

INIT
    _init

NEXT
    _next

CONSTANT
    _TETrace <- _trace

ALIAS
    _expression
=============================================================================
\* Generated on Sat Sep 26 09:41:06 UTC 2026