CONSTANTS p = 37
 usq = 2
 r = 13
 trabs = 1
 trneg = TRUE
 xabs = 2
 xneg = TRUE
 fam = "B12"
 n2 = 1417
 CMax = 12
SPECIFICATION Spec
INVARIANT Check
CHECK_DEADLOCK FALSE
