CONSTANTS Budget = 5  MaxDepth = 3  SnapshotCaught = TRUE
SPECIFICATION Spec
INVARIANTS NoViolation NoDangling ChainShape FinallyAtMostOnce EndState
VIEW View
CHECK_DEADLOCK FALSE
