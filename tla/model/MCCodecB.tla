------------------------------ MODULE MCCodecB ------------------------------
(***************************************************************************)
(* The definitions of model/CodecB are checked exhaustively over small     *)
(* binary fields GF(2^m), m <= 7 (a field element is ONE byte), for EVERY  *)
(* curve y^2 + xy = x^3 + a x^2 + b with a in 0..AMax, b # 0 (one checked   *)
(* state per curve):                                                       *)
(*  - "x has a point" (trace criterion) agrees with the curve equation;    *)
(*  - the packed bit separates P from -P; (0, sqrt b) is the only point    *)
(*    over x = 0;                                                          *)
(*  - Enc is injective, has the advertised size, and Dec accepts it and    *)
(*    denotes exactly the encoded point (decode(encode(P)) = P);           *)
(*  - every byte string of the explored set (ALL strings of length <= 1,   *)
(*    first byte in Tags and the other bytes over every value below 2^(m+1)*)
(*    - i.e. every reduced value and every value with bit m set - and the  *)
(*    bytes of Extra, lengths 2 and 3; a few of length 4) is either "bad"  *)
(*    or denotes exactly ONE point whose encoding in the same format is    *)
(*    the string itself (canonicity; encode(decode(s)) = s);               *)
(*  - unpacking is characterised uniquely;                                 *)
(*  - field elements: binary round trip, the decoder accepts exactly the   *)
(*    image of the encoder; text: the numeral of every element in every    *)
(*    power-of-two radix is canonical, reads back, and its characters are  *)
(*    the groups of log2(radix) coefficients.                              *)
(***************************************************************************)
EXTENDS CodecB, FiniteSets, Integers, TLC
CONSTANTS Polys, AMax, Tags, Extra
VARIABLES f, a, b, go

RECURSIVE NDeg(_)
NDeg(n) == IF n = 0 THEN 0 - 1 ELSE 1 + NDeg(n \div 2)
M == NDeg(f)
Q == Pow2(M)
FB == BfBytes(M)

Init == /\ f \in Polys /\ a \in 0..(IF AMax < Pow2(NDeg(f)) THEN AMax ELSE Pow2(NDeg(f)) - 1)
        /\ b \in 1..(Pow2(NDeg(f)) - 1) /\ go = FALSE
Next == go = FALSE /\ go' = TRUE /\ UNCHANGED <<f, a, b>>
Spec == Init /\ [][Next]_<<f, a, b, go>>

C == [f |-> BFromNat(f), a |-> BFromNat(a), b |-> BFromNat(b)]
Elts == {BFromNat(x) : x \in 0..(Q - 1)}
Points == {EInf} \cup {EPt(x, y) : x \in Elts, y \in Elts}
Group == {P \in Points : EOnCurve(P, C)}
Finite == {P \in Group : ~P.inf}

Bytes == (0..(2 * Q - 1)) \cup Extra
Strs == {<<>>} \cup {<<t>> : t \in 0..255}
        \cup {<<t, x>> : t \in Tags, x \in Bytes}
        \cup {<<t, x, y>> : t \in Tags, x \in Bytes, y \in Bytes}
        \cup {<<t, x, y, z>> : t \in {0, 2, 4}, x \in {0, 1, 2}, y \in {0, 1, 2}, z \in {0, 1}}

FormatOf(P, pack) == IF P.inf THEN "inf" ELSE IF pack THEN "cmp" ELSE "unc"

PointCodec ==
    go =>
    LET G == Group IN
    /\ FB = 1 /\ GIsIrreducible(C.f)
    \* the trace criterion
    /\ \A x \in Elts : BcHasPointWithX(x, C) <=> \E P \in Finite : P.x = x
    /\ \A P \in Finite : (P.x = <<>>) <=> (P = EOrderTwo(C))
    /\ \A P \in Finite : P.x # <<>> => BcBit(ENeg(P), C) = 1 - BcBit(P, C)
    \* encode, then decode
    /\ \A P \in G : \A pack \in BOOLEAN :
          LET s  == BcEnc(P, pack, C, FB)
              cl == BcDecClass(s, C, FB)
          IN  /\ Len(s) = BcEncSize(P, pack, FB)
              /\ cl = FormatOf(P, pack)
              /\ \A R \in G : BcIsDec(s, cl, R, C, FB) <=> (R = P)
    \* decode, then encode: nothing but canonical encodings is accepted
    /\ \A s \in Strs :
          LET cl == BcDecClass(s, C, FB) IN
          cl # "bad" =>
             LET Ds == {R \in G : BcIsDec(s, cl, R, C, FB)} IN
             /\ Cardinality(Ds) = 1
             /\ \A R \in Ds : BcEnc(R, cl = "cmp", C, FB) = s
    \* pck / upk
    /\ \A x \in Elts : \A bit \in {0, 1} :
          LET Us == {R \in G : BcIsUpk(x, bit, R, C)} IN
          /\ Cardinality(Us) = (IF BcUpkExists(x, bit, C) THEN 1 ELSE 0)
    /\ \A P \in Finite : BcIsUpk(P.x, BcBit(P, C), P, C)

(* the field part does not depend on the curve: checked in one state per polynomial *)
LogR(r) == CASE r = 2 -> 1 [] r = 4 -> 2 [] r = 8 -> 3 [] r = 16 -> 4 [] r = 32 -> 5 [] r = 64 -> 6
FieldCodec ==
    (go /\ a = 0 /\ b = 1) =>
    /\ \A v \in Elts : /\ Len(BfEncBin(v, FB)) = FB
                       /\ BfDecBin(BfEncBin(v, FB), M, FB) = Ok(v)
    /\ \A s \in {<<>>} \cup {<<x>> : x \in 0..255} \cup {<<x, y>> : x \in {0, 1, 255}, y \in {0, 1, 255}} :
          BfDecBin(s, M, FB).ok <=> \E v \in Elts : s = BfEncBin(v, FB)
    /\ \A r \in 0..70 : ValidRadixB(r) <=> (\E k \in 1..6 : r = Pow2(k))
    /\ \A v \in 0..(Q - 1) : \A r \in {2, 4, 8, 16, 32, 64} :
          LET nm == Numeral(I(FALSE, BFromNat(v)), r)
              n  == Len(nm)
          IN  /\ IsCanonNumeral(nm, r)
              /\ BfDecStr(nm \o <<0>>, r) = Ok(BFromNat(v))
              /\ BfDecStr(nm, r) = Ok(BFromNat(v))
              /\ BfDecStr(<<45>> \o nm, r) = Ok(BFromNat(v))
              /\ n = (IF v = 0 THEN 1 ELSE (BBits(BFromNat(v)) + LogR(r) - 1) \div LogR(r))
              \* character j from the right = the coefficients j*log2(r) .. (j+1)*log2(r)-1
              /\ \A j \in 0..(n - 1) : nm[n - j] = DigitChar((v \div Pow2(j * LogR(r))) % r)
=============================================================================
