----------------------------- MODULE Codec2Spec -----------------------------
(***************************************************************************)
(* C07, second part, at the level of one public call: what the readers and *)
(* writers of binary-field elements (fb_size_str, fb_write_str,            *)
(* fb_read_str, fb_write_bin, fb_read_bin) and of binary-curve points      *)
(* (eb_size_bin, eb_write_bin, eb_read_bin, eb_pck, eb_upk) must return    *)
(* for the recorded input, judged with the definitions of model/CodecB     *)
(* (the operators MCCodecB checks exhaustively) over lib/GF2m and          *)
(* lib/BinCurve.  Events come from harness/drv_codec2.c:                   *)
(*   eb, ev, em   the numbers of ERR_NO_BUFFER, ERR_NO_VALID, ERR_MAX      *)
(*                (em = an error that was caught and re-thrown inside the  *)
(*                library: its number is not propagated)                   *)
(*   m, f, w, fd  field degree, field polynomial (raw digits), digit       *)
(*                bytes, digits per element; fb = RLC_FB_BYTES; digs = the *)
(*                integer precision in digits (text goes through bn)       *)
(*   ca, cb       raw curve coefficients                                   *)
(*   in / out     byte strings in wire order; len = buffer length given    *)
(*   g            1 iff the guard bytes before and after the output buffer *)
(*                survived; re / rerr = re-encoding of a decoded object in *)
(*                the same format and length                               *)
(*   objects      raw projections: field element = its digits as little-   *)
(*                endian bytes (binary fields have no internal form);      *)
(*                point {x, y, z, c}: c = 1 affine (the identity is        *)
(*                (0,0,0)), c = 2 Lopez-Dahab projective x = X/Z,          *)
(*                y = Y/Z^2, c = 3 lambda form (x, x + y/x)                *)
(* Direction of the verdicts (property text): an invalid encoding MUST be  *)
(* rejected (err # 0 and the sticky code set) - wrong length, unknown tag, *)
(* a coordinate with a coefficient at or above x^m, an abscissa without a  *)
(* point, a pair off the curve; a valid canonical encoding MUST be         *)
(* accepted with exactly the value CodecB defines, and re-encodes to the   *)
(* input; writers produce Enc(abstract value) - whatever the coordinate    *)
(* system of the operand - in the first `advertised size` bytes, report a  *)
(* too short buffer and never write outside the buffer.                    *)
(*                                                                         *)
(* vr = a VARIANT of the library: the specification is Strict; the other   *)
(* variants only key known findings (see the end of the module):           *)
(*   unred   a coordinate / element with coefficients at or above x^m is   *)
(*           taken as it is (no range check in fb_read_bin)                *)
(*   t2      the point of order two (0, sqrt b) has no packed form:        *)
(*           packing and unpacking it end in an error                      *)
(***************************************************************************)
EXTENDS CodecB

Has(e, k) == k \in DOMAIN e
Clean(e)  == e.err = 0 /\ e.code = 0
Failed(e) == e.err # 0 /\ e.code = 1
BufErr(e) == Failed(e) /\ e.err \in {e.eb, e.em}
Prefix(s, n) == SubSeq(s, 1, n)

Strict == [unred |-> FALSE, t2 |-> FALSE]

(* ---- field header and elements *)
Poly(e) == BNorm(e.f)
Val(raw) == BNorm(raw)
FieldOkB(e) == Len(e.f) = e.w * e.fd /\ GDeg(Poly(e)) = e.m /\ e.fb = BfBytes(e.m)
FullLen(e, raw) == Len(raw) = e.w * e.fd
FCanonB(e, raw) == FullLen(e, raw) /\ BBits(raw) <= e.m
IsFbVal(e, raw, v) == FCanonB(e, raw) /\ Val(raw) = v

(* the part of a text buffer before the terminator *)
RECURSIVE BodyLen(_, _)
BodyLen(s, j) == IF j > Len(s) \/ s[j] = 0 THEN j - 1 ELSE BodyLen(s, j + 1)
Body(s) == SubSeq(s, 1, BodyLen(s, 1))
(* an error of the text reader is admissible when the numeral cannot be guaranteed to fit the integer precision *)
TooLongStr(e) == Len(e.in) * BitLen8(e.radix) > 8 * e.w * e.digs

FbCodecV(e, vr) ==
    LET a == I(FALSE, Val(e.a)) IN
    CASE e.op = "fb_write_bin" ->
            /\ FieldOkB(e) /\ FCanonB(e, e.a) /\ e.g = 1
            /\ IF e.len < e.fb THEN BufErr(e)
               ELSE IF e.len = e.fb THEN Clean(e) /\ e.out = BfEncBin(Val(e.a), e.fb)
               ELSE BufErr(e) \/ (Clean(e) /\ Prefix(e.out, e.fb) = BfEncBin(Val(e.a), e.fb))
      [] e.op = "fb_read_bin" ->
            LET d == BfDecBin(e.in, e.m, e.fb) IN
            /\ FieldOkB(e)
            /\ IF d.ok THEN Clean(e) /\ IsFbVal(e, e.c, d.v) /\ e.rerr = 0 /\ e.re = e.in /\ e.g = 1
               ELSE IF vr.unred /\ Len(e.in) = e.fb THEN
                    Clean(e) /\ FullLen(e, e.c) /\ Val(e.c) = BFromBE(e.in)
               ELSE Failed(e)
      [] e.op = "fb_size_str" ->
            /\ FieldOkB(e) /\ FCanonB(e, e.a)
            /\ IF ~ValidRadixB(e.radix) THEN Failed(e)
               ELSE Clean(e) /\ e.size = SizeStr(a, e.radix)
      [] e.op = "fb_write_str" ->
            /\ FieldOkB(e) /\ FCanonB(e, e.a) /\ e.g = 1
            /\ IF ~ValidRadixB(e.radix) THEN Failed(e)
               ELSE LET z == SizeStr(a, e.radix) IN
                    IF e.len < z THEN BufErr(e)
                    ELSE Clean(e) /\ Prefix(e.out, z) = Numeral(a, e.radix) \o <<0>>
      [] e.op = "fb_read_str" ->
            \* a numeral (digits of the radix up to the terminator or the buffer end) of a polynomial of degree
            \* < m MUST be read as its positional value; anything else is either refused or read as its longest
            \* numeral prefix, provided that prefix denotes a reduced element
            /\ FieldOkB(e)
            /\ IF ~ValidRadixB(e.radix) THEN Failed(e)
               ELSE LET mag == BfDecStr(e.in, e.radix).v IN
                    IF e.err # 0 THEN
                        Failed(e) /\ (TooLongStr(e) \/ ~IsNumeral(Body(e.in), e.radix) \/ BBits(mag) > e.m)
                    ELSE /\ Clean(e) /\ BBits(mag) <= e.m /\ IsFbVal(e, e.c, mag)
                         /\ (IsCanonNumeral(Body(e.in), e.radix) /\ ~StrNeg(e.in)) =>
                                (e.rerr = 0 /\ e.g = 1 /\ e.re = Body(e.in) \o <<0>>)
      [] OTHER -> FALSE

(* ---- curves and points *)
CrvB(e) == [f |-> Poly(e), a |-> Val(e.ca), b |-> Val(e.cb)]
CurveOkB(e) == FieldOkB(e) /\ FCanonB(e, e.ca) /\ FCanonB(e, e.cb) /\ Val(e.cb) # <<>>
PCanonB(e, P) == FCanonB(e, P.x) /\ FCanonB(e, P.y) /\ FCanonB(e, P.z)
ZUnit(P) == Val(P.z) \in {<<>>, <<1>>}
PAbsB(e, P) ==
    LET f == Poly(e) IN
    IF Val(P.z) = <<>> THEN EInf
    ELSE IF P.c = 1 THEN EPt(Val(P.x), Val(P.y))
    ELSE IF P.c = 3 THEN EFromLambda(Val(P.x), Val(P.y), CrvB(e))
    ELSE LET zi == GInv(Val(P.z), f) IN
         EPt(GMul(Val(P.x), zi, f), GMul(Val(P.y), GSqr(zi, f), f))
(* a well-formed point object: known tag, reduced coordinates, z in {0, 1} where the system has no z *)
AnyRepB(e, P) == P.c \in {1, 2, 3} /\ PCanonB(e, P) /\ (P.c \in {1, 3} => ZUnit(P))
PNormalB(e, P) == P.c = 1 /\ PCanonB(e, P) /\ ZUnit(P)
(* the compressed OBJECT of eb_pck / eb_upk: x, raw y in {0, 1}, z = 1, affine *)
IsPackedB(e, R, x, bit) == /\ PNormalB(e, R) /\ Val(R.x) = x /\ Val(R.z) = <<1>>
                           /\ Val(R.y) = (IF bit = 1 THEN <<1>> ELSE <<>>)

(* the point a finite string WOULD denote if its coordinates were not range-checked (variant unred only) *)
RawX(e) == BFromBE(SubSeq(e.in, 2, e.fb + 1))
RawY(e) == BFromBE(SubSeq(e.in, e.fb + 2, 2 * e.fb + 1))
Unreduced(e) == \/ (Len(e.in) = e.fb + 1 /\ e.in[1] \in {2, 3} /\ BBits(RawX(e)) > e.m)
                \/ (Len(e.in) = 2 * e.fb + 1 /\ e.in[1] = 4 /\ (BBits(RawX(e)) > e.m \/ BBits(RawY(e)) > e.m))
OrderTwoPacked(e) == Len(e.in) = e.fb + 1 /\ e.in[1] = 2 /\ RawX(e) = <<>>

EbCodecV(e, vr) ==
    LET c == CrvB(e) IN
    /\ CurveOkB(e)
    /\ CASE e.op = "eb_size_bin" ->
            LET Q == PAbsB(e, e.P) IN
            AnyRepB(e, e.P) /\ EOnCurve(Q, c) /\ Clean(e) /\ e.size = BcEncSize(Q, e.pack # 0, e.fb)
      [] e.op = "eb_write_bin" ->
            LET Q == PAbsB(e, e.P)
                z == BcEncSize(Q, e.pack # 0, e.fb)
            IN  /\ AnyRepB(e, e.P) /\ EOnCurve(Q, c)
                /\ e.size = z /\ e.g = 1
                /\ IF e.len < z THEN BufErr(e)
                   ELSE IF vr.t2 /\ e.pack # 0 /\ ~Q.inf /\ Q.x = <<>> THEN Failed(e)
                   ELSE Clean(e) /\ Prefix(e.out, z) = BcEnc(Q, e.pack # 0, c, e.fb)
      [] e.op = "eb_read_bin" ->
            LET cl == BcDecClass(e.in, c, e.fb) IN
            IF vr.t2 /\ OrderTwoPacked(e) THEN Failed(e)
            ELSE IF cl # "bad" THEN
                /\ Clean(e) /\ AnyRepB(e, e.R) /\ BcIsDec(e.in, cl, PAbsB(e, e.R), c, e.fb)
                /\ e.rerr = 0 /\ e.re = e.in /\ e.g = 1
            ELSE IF vr.unred /\ Unreduced(e) THEN
                \* no range check: refused, or accepted with the unreduced digits as they are when the pair reduced
                \* modulo f is a point (with the requested bit): the arithmetic reduces, the copies do not
                \/ Failed(e)
                \/ /\ Clean(e) /\ e.R.c = 1 /\ FullLen(e, e.R.x) /\ FullLen(e, e.R.y) /\ Val(e.R.z) = <<1>>
                   /\ Val(e.R.x) = RawX(e)
                   /\ (e.in[1] = 4 => Val(e.R.y) = RawY(e))
                   /\ LET Q == EPt(GModPoly(Val(e.R.x), c.f), GModPoly(Val(e.R.y), c.f)) IN
                      EOnCurve(Q, c) /\ (e.in[1] # 4 => BcBit(Q, c) = e.in[1] - 2)
            ELSE Failed(e)
      [] e.op = "eb_pck" ->
            LET Q == PAbsB(e, e.P) IN
            /\ PNormalB(e, e.P) /\ ~Q.inf /\ EOnCurve(Q, c)
            /\ IF vr.t2 /\ Q.x = <<>> THEN Failed(e)
               ELSE Clean(e) /\ IsPackedB(e, e.R, Q.x, BcBit(Q, c))
      [] e.op = "eb_upk" ->
            LET x == Val(e.P.x) IN
            /\ FCanonB(e, e.P.x) /\ e.bit \in {0, 1}
            /\ IF vr.t2 /\ x = <<>> THEN Failed(e)
               ELSE IF BcUpkExists(x, e.bit, c) THEN
                    Clean(e) /\ e.ret = 1 /\ AnyRepB(e, e.R) /\ BcIsUpk(x, e.bit, PAbsB(e, e.R), c)
               ELSE IF x = <<>> THEN
                    \* the only point over 0 has bit 0 and bit 1 was asked for: no demand on eb_upk itself
                    Clean(e) /\ (e.ret = 0 \/ (e.ret = 1 /\ AnyRepB(e, e.R) /\ EEq(PAbsB(e, e.R), EOrderTwo(c))))
               ELSE Clean(e) /\ e.ret = 0
      [] OTHER -> FALSE

IsFbOp(op) == op \in {"fb_write_bin", "fb_read_bin", "fb_size_str", "fb_write_str", "fb_read_str"}
IsEbOp(op) == op \in {"eb_size_bin", "eb_write_bin", "eb_read_bin", "eb_pck", "eb_upk"}

Codec2V(e, vr) ==
    IF IsFbOp(e.op) THEN FbCodecV(e, vr)
    ELSE IF IsEbOp(e.op) THEN EbCodecV(e, vr)
    ELSE FALSE

Codec2Accept(e) ==
    IF e.op \in {"curve_probe", "restart"} THEN TRUE
    ELSE IF Has(e, "crash") THEN FALSE
    ELSE Codec2V(e, Strict)

(***************************************************************************)
(* Known findings (keys take effect only when listed in                    *)
(* /verif/known_findings.json).  Each is keyed on op + input class + the   *)
(* exact wrong outcome: the event must be explained by the variant of the  *)
(* library that has exactly the recorded deviations.                       *)
(*  C07-fb-read-bin-unreduced: fb_read_bin has no range check: a string of *)
(*    RLC_FB_BYTES bytes with bits at or above the field degree m is       *)
(*    accepted and the element returned is not reduced (degree >= m); so   *)
(*    eb_read_bin accepts points with an unreduced coordinate (04 x+f y    *)
(*    denotes the same point as 04 x y: the encoding is not unique).       *)
(*  C07-eb-pck-order-two: eb_pck and eb_upk divide by x: for the point of  *)
(*    order two (0, sqrt b) - a point of every ordinary binary curve - the *)
(*    inversion of zero throws: eb_write_bin(pack = 1) fails although      *)
(*    eb_size_bin advertises fb + 1 bytes, and the packed string 02 0..0   *)
(*    is refused by eb_read_bin / eb_upk.                                  *)
(***************************************************************************)
Variants == {[unred |-> u, t2 |-> t] : u \in BOOLEAN, t \in BOOLEAN} \ {Strict}
B2N(b) == IF b THEN 1 ELSE 0
VCost(v) == B2N(v.unred) + B2N(v.t2)
VKeys(v) == (IF v.unred THEN {"C07-fb-read-bin-unreduced"} ELSE {})
            \cup (IF v.t2 THEN {"C07-eb-pck-order-two"} ELSE {})
(* the set of known-finding keys that together explain a rejected event ({} = none) *)
Codec2KnownKeys(e) ==
    IF Has(e, "crash") \/ ~(IsFbOp(e.op) \/ IsEbOp(e.op)) THEN {}
    ELSE LET Vs == {v \in Variants : Codec2V(e, v)} IN
         IF Vs = {} THEN {}
         ELSE VKeys(CHOOSE v \in Vs : \A u \in Vs : VCost(v) <= VCost(u))
(* a single representative ("" = none) *)
Codec2KnownKey(e) == LET ks == Codec2KnownKeys(e) IN IF ks = {} THEN "" ELSE CHOOSE k \in ks : TRUE
=============================================================================
