SPECIFICATION Spec
CONSTANTS
    R = 5
    Protocols = {"pdprv", "lvprv"}
    BlindSet = {0, 2}
    SetSize = 1
INVARIANTS Sound Complete Detects PsiExact
CHECK_DEADLOCK FALSE
