------------------------------ MODULE EncPcSpec ------------------------------
(***************************************************************************)
(* C06, pairing-based protocols and set intersection (second half of       *)
(* harness/drv_enc.c), judged on their INPUT/OUTPUT contract:              *)
(*   SOK key agreement   both parties derive the same key of the requested *)
(*                       length                                            *)
(*   Boneh-Franklin IBE  Dec(Enc(m)) = m for the admitted lengths 1..|H|,  *)
(*                       other lengths and truncated ciphertexts refused   *)
(*   BGN                 Dec(Enc(m)) = m in G1 and G2; sum in G1, product  *)
(*                       through the pairing, sum of products in GT        *)
(*   delegated pairing   honest helper: the client accepts and outputs     *)
(*                       e(P, Q); ONE tampered response element: the       *)
(*                       client REJECTS (verdict 0) and outputs the unit   *)
(*   set intersection    the output is exactly X cap Y                     *)
(*   pairing triples     c0 c1 = e(a0 + a1, b0 + b1); a pairing computed   *)
(*                       from shares with the triple equals e(P, Q)        *)
(* The group operations themselves are not re-derived here (pairing: C04,  *)
(* groups: C03/C10); where a reference value is needed the library is its  *)
(* own witness ("same", "tri", "map") - these schemes are listed as        *)
(* completeness-only in the evidence.  The message-flow logic of the       *)
(* delegation and intersection protocols is model-checked in model/Flows.  *)
(***************************************************************************)
EXTENDS EncSpec

SokakaOk(e) == Succ(e) /\ e.over = 0 /\ Len(e.kA) = e.klen /\ e.kA = e.kB

IbeEncOk(e) ==
    /\ e.gen = 0 /\ e.over = 0 /\ e.crash = 0
    /\ IF Len(e.m) >= 1 /\ Len(e.m) <= e.mdl /\ e.cap >= Len(e.m) + e.hdr
       THEN Succ(e) /\ e.olen = Len(e.m) + e.hdr
       ELSE Refused(e) /\ e.touched = 0
IbeDecOk(e) ==
    /\ e.over = 0 /\ e.crash = 0
    /\ IF e.honest = 1 THEN Succ(e) /\ e.out = e.m0 /\ e.olen = Len(e.m0)
       ELSE IF e.clen <= e.hdr \/ e.clen > e.mdl + e.hdr THEN Refused(e) /\ e.touched = 0      \* wrong length
       ELSE TRUE

BgnOk(e) ==
    /\ Succ(e) /\ e.d1 = e.m1 /\ e.d2 = e.m2
    /\ e.dsum = e.m1 + e.m2 /\ e.dmul = e.m1 * e.m2 /\ e.dadd = 2 * e.m1 * e.m2

PdelRan(e) == e.ret = 0 /\ e.err = 0 /\ e.refunity = 0 /\ BnVal(e.c) # <<>>
PdelOk(e) ==
    /\ PdelRan(e)
    /\ IF e.tamper < 0 THEN e.code = 0 /\ e.ver = 1 /\ e.same = 1
       ELSE e.ver = 0 /\ e.same = 0 /\ e.unity = 1

SetOf(s) == {BnVal(s[i]) : i \in 1..Len(s)}
Distinct(s) == \A i, j \in 1..Len(s) : i # j => BnVal(s[i]) # BnVal(s[j])
PsiOk(e) ==
    /\ Succ(e) /\ Distinct(e.x) /\ Distinct(e.y)
    /\ SetOf(e.z) = SetOf(e.x) \cap SetOf(e.y)
    /\ Distinct(e.z) /\ e.len = Len(e.z)

PctOk(e) == e.err = 0 /\ e.code = 0 /\ e.refunity = 0 /\ e.tri = 1 /\ e.bct = 1 /\ e.map = 1

PcOps == {"sokaka", "ibe_enc", "ibe_dec", "bgn", "pdel", "psi", "pct"}
PcAccept(e) ==
    CASE e.op = "sokaka" -> SokakaOk(e)
      [] e.op = "ibe_enc" -> IbeEncOk(e)
      [] e.op = "ibe_dec" -> IbeDecOk(e)
      [] e.op = "bgn" -> BgnOk(e)
      [] e.op = "pdel" -> PdelOk(e)
      [] e.op = "psi" -> PsiOk(e)
      [] e.op = "pct" -> PctOk(e)
      [] OTHER -> FALSE
EncAccept(e) == IF e.op \in PcOps THEN PcAccept(e) ELSE CoreAccept(e)
EncKnownKey(e) ==
    IF e.op = "pdel"
    THEN \* the verification fails (the output is the unit) but the function still reports success
         IF PdelRan(e) /\ e.tamper >= 0 /\ e.ver = 1 /\ e.same = 0 /\ e.unity = 1
         THEN "C06-pcdel-ver-reports-success-after-failed-check" ELSE ""
    ELSE IF e.op = "psi"
    THEN \* bn_lag yields the zero polynomial for no roots: with a one-element set the receiver's witness is the identity
         IF e.kind = "pb" /\ Succ(e) /\ Len(e.x) = 1 /\ Distinct(e.y) /\ Len(e.z) = 0 /\ e.len = 0 /\ BnVal(e.x[1]) \in SetOf(e.y)
         THEN "C06-pbpsi-singleton-set-never-intersects" ELSE ""
    ELSE CoreKnownKey(e)
=============================================================================
