------------------------------ MODULE EncPcSpec ------------------------------
(* C06, pairing-based protocols (second half of harness/drv_enc.c) *)
EXTENDS EncSpec

PcAccept(e) == FALSE
PcOps == {}
EncAccept(e) == IF e.op \in PcOps THEN PcAccept(e) ELSE CoreAccept(e)
EncKnownKey(e) == CoreKnownKey(e)
=============================================================================
