------------------------------- MODULE MdSpec -------------------------------
(***************************************************************************)
(* Call-level specification of RELIC's hash / MAC / KDF / XMD / AES-CBC    *)
(* interface (C14).  An event e is one call recorded by harness/drv_md.c:  *)
(*   op      the function                                                  *)
(*   msg     message / input keying material / plaintext / ciphertext      *)
(*   key, iv, dst, outlen, cap   the other inputs (where applicable)       *)
(*   out     the bytes the function produced, in order                     *)
(*   ret     return value (bc: 0 = RLC_OK, 1 = RLC_ERR), olen = *out_len   *)
(*   err     error thrown through RLC_THROW (0 none), code = sticky code   *)
(*   over    a byte beyond the permitted output area was modified          *)
(*   md      the configured MD_MAP ("SH256" in the pinned configuration)   *)
(* An event is accepted iff the output equals what the transcribed         *)
(* standards (tla/lib: Sha2, Blake2s, Hmac, Kdf, Xmd, Aes) define.         *)
(***************************************************************************)
EXTENDS Blake2s, Hmac, Xmd, Aes, ShaCtx

Clean(e) == e.err = 0 /\ e.code = 0 /\ ~e.over
Refused(e) == e.err # 0 /\ e.code = 1 /\ ~e.over

HashOps == {"md_map_sh224", "md_map_sh256", "md_map_sh384", "md_map_sh512",
            "md_map_b2s160", "md_map_b2s256"}
HashOf(op, m) ==
    CASE op = "md_map_sh224" -> Sha224(m)
      [] op = "md_map_sh256" -> Sha256(m)
      [] op = "md_map_sh384" -> Sha384(m)
      [] op = "md_map_sh512" -> Sha512(m)
      [] op = "md_map_b2s160" -> Blake2s160(m)
      [] op = "md_map_b2s256" -> Blake2s256(m)

(* the configured default hash md_map, its digest and block sizes *)
MdMap(md, m) ==
    CASE md = "SH224" -> Sha224(m) [] md = "SH256" -> Sha256(m)
      [] md = "SH384" -> Sha384(m) [] md = "SH512" -> Sha512(m)
      [] md = "B2S160" -> Blake2s160(m) [] md = "B2S256" -> Blake2s256(m)
MdLen(md) == CASE md = "SH224" -> 28 [] md = "SH256" -> 32 [] md = "SH384" -> 48
               [] md = "SH512" -> 64 [] md = "B2S160" -> 20 [] md = "B2S256" -> 32
MdBlock(md) == IF md \in {"SH384", "SH512"} THEN 128 ELSE 64

XmdOps == {"md_xmd_sh224", "md_xmd_sh256", "md_xmd_sh384", "md_xmd_sh512"}
XmdOf(op, m, dst, n) ==
    CASE op = "md_xmd_sh224" -> XmdSha224(m, dst, n)
      [] op = "md_xmd_sh256" -> XmdSha256(m, dst, n)
      [] op = "md_xmd_sh384" -> XmdSha384(m, dst, n)
      [] op = "md_xmd_sh512" -> XmdSha512(m, dst, n)

(* ---------------------------------------------------------------------- *)
(* the SHA-2 streaming interface (SHA256Reset/Input/FinalBits/Result and  *)
(* the 224/384/512 siblings) replayed call by call on the ShaCtx machine  *)
(* with the real compression function: return code and the context fields *)
(* after every call, the digest of every Result; and - the property       *)
(* itself - the digest of a message fed in chunks equals the one-shot     *)
(* function of the concatenation.                                          *)
StreamOps == {"sha224_stream", "sha256_stream", "sha384_stream", "sha512_stream"}
SplitOps == {"sha224_splits", "sha256_splits", "sha384_splits", "sha512_splits"}
Wide(op) == op \in {"sha384_stream", "sha512_stream", "sha384_splits", "sha512_splits"}
StreamH0(op) == CASE op = "sha224_stream" -> H224 [] op = "sha256_stream" -> H256
                  [] op = "sha384_stream" -> H384 [] op = "sha512_stream" -> H512
StreamHash(op, m) ==
    CASE op \in {"sha224_stream", "sha224_splits"} -> Sha224(m)
      [] op \in {"sha256_stream", "sha256_splits"} -> Sha256(m)
      [] op \in {"sha384_stream", "sha384_splits"} -> Sha384(m)
      [] op \in {"sha512_stream", "sha512_splits"} -> Sha512(m)
StreamLen(op) == CASE op = "sha224_stream" -> 28 [] op = "sha256_stream" -> 32
                   [] op = "sha384_stream" -> 48 [] op = "sha512_stream" -> 64

StreamAccept(e) ==
    LET wide == Wide(e.op)
        P == IF wide THEN [B |-> 128, LB |-> 8, M |-> 0] ELSE [B |-> 64, LB |-> 4, M |-> 0]
        F(h, blk) == IF wide THEN Compress(h, blk, 0, K512, 4) ELSE Compress(h, blk, 0, K256, 2)
        HBytes(h) == Flatten([i \in 1..8 |-> WToBE(h[i])])
        (* acc: c context, ok all calls matched so far, m bytes accepted since *)
        (* the last reset, plain = only Input calls since the last reset        *)
        step(acc, j) ==
            LET call == e.calls[j]
                r == CASE call.k = "z" -> <<CtxReset(StreamH0(e.op)), ShaSuccess>>
                       [] call.k = "i" -> CtxInput(acc.c, call.d, P, F)
                       [] call.k = "f" -> CtxFinalBits(acc.c, call.bits, call.n, P, F)
                       [] call.k = "r" -> CtxResult(acc.c, P, F)
                c2 == r[1]
                took == call.k = "i" /\ r[2] = ShaSuccess /\ ~acc.c.computed
                m2 == IF call.k = "z" THEN <<>> ELSE IF took THEN acc.m \o call.d ELSE acc.m
                plain2 == IF call.k = "z" THEN TRUE
                          ELSE acc.plain /\ ~(call.k = "f" /\ call.n > 0)
                fields == /\ call.ret = r[2]
                          /\ call.idx = Len(c2.blk) /\ call.lo = c2.lo /\ call.hi = c2.hi
                          /\ call.comp = (IF c2.computed THEN 1 ELSE 0)
                          /\ call.corr = c2.corrupted
                          /\ call.ih = HBytes(c2.h)
                digest == (call.k = "r" /\ r[2] = ShaSuccess) =>
                             /\ call.out = Take(HBytes(c2.h), StreamLen(e.op))
                             /\ plain2 => call.out = StreamHash(e.op, m2)
            IN [c |-> c2, ok |-> acc.ok /\ fields /\ digest, m |-> m2, plain |-> plain2]
        init == [c |-> CtxReset(StreamH0(e.op)), ok |-> e.calls[1].k = "z", m |-> <<>>, plain |-> TRUE]
    IN Iter(step, init, 1, Len(e.calls)).ok

(* every 2-chunk split of msg (cut after 0..Len(msg) bytes) gave the digest *)
SplitsAccept(e) ==
    LET d == StreamHash(e.op, e.msg) IN
    /\ e.bad = 0 /\ Len(e.outs) = Len(e.msg) + 1
    /\ \A k \in 1..Len(e.outs) : e.outs[k] = d

(* ---------------------------------------------------------------------- *)
(* AES-CBC with PKCS#7.  Encryption needs capacity for the padded text;   *)
(* decryption is documented to need capacity for the ciphertext length.   *)
EncAccept(e) ==
    IF ~ValidKeyLen(Len(e.key)) \/ e.cap < Len(e.msg) + 16 - (Len(e.msg) % 16)
    THEN e.ret = 1 /\ ~e.over
    ELSE /\ e.ret = 0 /\ ~e.over
         /\ e.olen = Len(e.msg) + 16 - (Len(e.msg) % 16)
         /\ e.out = AesCbcPkcs7Enc(e.key, e.iv, e.msg)
DecExpected(e) == AesCbcPkcs7Dec(e.key, e.iv, e.msg)
DecAccept(e) ==
    IF ~ValidKeyLen(Len(e.key)) \/ e.cap < Len(e.msg)
    THEN e.ret = 1 /\ ~e.over
    ELSE LET r == DecExpected(e) IN
         IF r.ok THEN e.ret = 0 /\ ~e.over /\ e.olen = Len(r.pt) /\ e.out = r.pt
         ELSE e.ret = 1 /\ ~e.over         \* invalid padding / length: rejected

MdAccept(e) ==
    CASE e.op \in HashOps -> Clean(e) /\ e.out = HashOf(e.op, e.msg)
      [] e.op = "md_hmac" ->
            Clean(e) /\ e.out = Hmac(LAMBDA m : MdMap(e.md, m), MdBlock(e.md), e.key, e.msg)
      [] e.op = "md_kdf" ->
            Clean(e) /\ e.out = Kdf2(LAMBDA m : MdMap(e.md, m), MdLen(e.md), e.msg, e.outlen)
      [] e.op = "md_mgf" ->
            Clean(e) /\ e.out = Mgf1(LAMBDA m : MdMap(e.md, m), MdLen(e.md), e.msg, e.outlen)
      [] e.op \in XmdOps ->
            LET r == XmdOf(e.op, e.msg, e.dst, e.outlen) IN
            IF r.ok THEN Clean(e) /\ e.out = r.out ELSE Refused(e)
      [] e.op \in StreamOps -> StreamAccept(e)
      [] e.op \in SplitOps -> SplitsAccept(e)
      [] e.op = "bc_aes_cbc_enc" -> EncAccept(e)
      [] e.op = "bc_aes_cbc_dec" -> DecAccept(e)
      [] OTHER -> FALSE

(***************************************************************************)
(* Known findings (only effective when listed in known_findings.json):     *)
(* narrowly keyed on op + input class + the exact wrong outcome.           *)
(***************************************************************************)
MdKnownKey(e) ==
    CASE e.op = "bc_aes_cbc_enc" /\ Len(e.msg) = 0 /\ ValidKeyLen(Len(e.key)) /\ e.cap >= 16
              /\ e.ret = 1 /\ e.olen = 0 /\ ~e.over
            -> "C14-aes-cbc-enc-empty-plaintext-refused"
      [] e.op = "bc_aes_cbc_dec" /\ Len(e.msg) = 16 /\ ValidKeyLen(Len(e.key)) /\ e.cap >= 16
              /\ e.ret = 1 /\ e.olen = 0 /\ ~e.over
              /\ DecExpected(e).ok /\ DecExpected(e).pt = <<>>
            -> "C14-aes-cbc-dec-empty-plaintext-refused"
      [] OTHER -> ""
=============================================================================
