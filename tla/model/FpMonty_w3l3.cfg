CONSTANTS W = 3  Ns = {3}  Moduli = {67, 127, 257}
  Kinds = {"mulc", "mulb", "add", "sub", "neg", "dbl", "dblb", "hlv"}
SPECIFICATION Spec
INVARIANTS TypeOK NoOverflow ProductExact RdcbInv Correct
CHECK_DEADLOCK FALSE
