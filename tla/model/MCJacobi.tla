------------------------------ MODULE MCJacobi ------------------------------
(***************************************************************************)
(* The Jacobi symbol used as oracle in BntSpec (reciprocity law on BigNat  *)
(* values) checked against its definition: the product over the prime      *)
(* factorisation of n of the Legendre symbols, each by Euler's criterion   *)
(* a^((p-1)/2) mod p on native integers.  All odd n <= MaxN, 0 <= a <= 2n. *)
(***************************************************************************)
EXTENDS BntSpec, TLC

CONSTANT MaxN

RECURSIVE PowMod(_, _, _)
PowMod(a, x, m) == IF x = 0 THEN 1 % m ELSE (a * PowMod(a, x - 1, m)) % m
IsPrimeN(p) == p >= 2 /\ \A d \in 2..(p - 1) : p % d # 0
LegendreN(a, p) == LET x == PowMod(a % p, (p - 1) \div 2, p) IN
                   IF x = 0 THEN 0 ELSE IF x = 1 THEN 1 ELSE 0 - 1
(* product of Legendre symbols over the prime factors of n with multiplicity *)
RECURSIVE JacDef(_, _, _)
JacDef(a, n, p) == IF n = 1 THEN 1
                   ELSE IF n % p = 0 THEN LegendreN(a, p) * JacDef(a, n \div p, p)
                   ELSE JacDef(a, n, p + 1)

VARIABLES n, a
Init == n \in {m \in 1..MaxN : m % 2 = 1} /\ a \in 0..(2 * MaxN)
Next == UNCHANGED <<n, a>>
Spec == Init /\ [][Next]_<<n, a>>

Agree == a <= 2 * n => Jacobi(BFromNat(a), BFromNat(n)) = JacDef(a, n, 3)
EulerAgrees == (IsPrimeN(n) /\ n > 2) => Euler(BFromNat(a % n), BFromNat(n)) = JacDef(a, n, 3)
=============================================================================
