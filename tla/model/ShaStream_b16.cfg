SPECIFICATION Spec
CONSTANTS
    B = 16
    LB = 1
    M = 256
    MaxLen = 70
    MaxChunks = 4
    BitsSet = {0, 255, 165}
INVARIANTS TypeOK Absorbing Overflow Finalised ResultRight Idempotent InputAfterResult EmptyInput
CHECK_DEADLOCK FALSE
