SPECIFICATION Spec
CONSTANTS
    R = 5
    Second = {0, 4}
    Delta = 1
    Break = "none"
INVARIANTS Opened Reconstruct WrongTriple
CHECK_DEADLOCK FALSE
