-------------------------------- MODULE Relic --------------------------------
(***************************************************************************)
(* The library as ONE state machine (DESIGN.md 2.2), integer layer:        *)
(*   slots   a heap of numbered integer objects; each is either KNOWN with *)
(*           an abstract value (BigInt) or UNKNOWN (contents unspecified   *)
(*           after an operation that reported an error wrote to it)        *)
(*   code    the sticky error code of the context                          *)
(* One action per public call Call(op, out, in1, in2, k) with two          *)
(* outcomes: Ret (the output slot takes the mathematical value, every      *)
(* other slot is unchanged - the frame condition; aliasing is nothing but  *)
(* a choice of slot numbers) or Throw (admissible only when the result     *)
(* needs more digits than the configured precision, or the argument is     *)
(* invalid; the output slot becomes UNKNOWN, every other slot is           *)
(* unchanged, the sticky code is set).  GetCode reads and clears the code. *)
(* Unlike the per-call trace specs this machine carries its state from     *)
(* call to call: an operation that damages an object it was not given, or  *)
(* leaves the library unusable after an error, is rejected at a LATER      *)
(* event.  model/MCRelic explores it over a small value set; trace/        *)
(* RelicTrace validates call histories executed by harness/relic_vm.c.     *)
(***************************************************************************)
EXTENDS BigInt, Naturals, Sequences

CONSTANTS NSlots,     \* number of integer objects
          Digs,       \* digits of the configured precision (RLC_BN_DIGS)
          DigBytes,   \* bytes per digit
          Cap         \* physical capacity of an object in digits (RLC_BN_SIZE)

Unknown == [known |-> FALSE, val |-> IZero]
K(v) == [known |-> TRUE, val |-> v]
DigitsOfVal(v) == (Len(v.mag) + DigBytes - 1) \div DigBytes

BinOps == {"bn_add", "bn_sub", "bn_mul", "bn_div"}
UnOps == {"bn_sqr", "bn_neg", "bn_abs", "bn_copy", "bn_dbl"}
ShOps == {"bn_lsh", "bn_rsh"}

(* the mathematical value of a call; <<>> stands for "invalid argument" *)
ValueOf(op, a, b, k) ==
    CASE op = "bn_add" -> <<IAdd(a, b)>>
      [] op = "bn_sub" -> <<ISub(a, b)>>
      [] op = "bn_mul" -> <<IMul(a, b)>>
      [] op = "bn_div" -> IF IIsZero(b) THEN <<>> ELSE <<IFloorDiv(a, b)>>
      [] op = "bn_sqr" -> <<ISqr(a)>>
      [] op = "bn_neg" -> <<INeg(a)>>
      [] op = "bn_abs" -> <<IAbs(a)>>
      [] op = "bn_copy" -> <<a>>
      [] op = "bn_dbl" -> <<IAdd(a, a)>>
      [] op = "bn_lsh" -> <<IShl(a, k)>>
      [] op = "bn_rsh" -> <<IShrMag(a, k)>>       \* magnitude shift (known finding C01 for negative a)
(* digits beyond which an error outcome is admissible *)
Limit(op) == IF op \in {"bn_mul", "bn_sqr"} THEN 2 * Digs ELSE Digs

VARIABLES slots, code
vars == <<slots, code>>
Init == slots = [s \in 1..NSlots |-> K(IZero)] /\ code = 0

Set(s, v) == slots' = [slots EXCEPT ![s] = K(v)] /\ UNCHANGED code

(* Call with outcome Ret *)
Ret(op, o, a, b, k) ==
    /\ slots[a].known /\ (op \in BinOps => slots[b].known)
    /\ LET r == ValueOf(op, slots[a].val, slots[b].val, k) IN
       /\ r # <<>>
       /\ DigitsOfVal(r[1]) <= Cap                            \* nothing larger than an object can hold
       /\ slots' = [slots EXCEPT ![o] = K(r[1])]
    /\ UNCHANGED code
(* Call with outcome Throw *)
Throw(op, o, a, b, k) ==
    /\ slots[a].known /\ (op \in BinOps => slots[b].known)
    /\ LET r == ValueOf(op, slots[a].val, slots[b].val, k) IN
       \/ r = <<>>                                            \* invalid argument (division by zero)
       \/ r # <<>> /\ DigitsOfVal(r[1]) > Limit(op)           \* result beyond the precision
    /\ slots' = [slots EXCEPT ![o] = Unknown]
    /\ code' = 1
GetCode(ret) == ret = code /\ code' = 0 /\ UNCHANGED slots
=============================================================================
