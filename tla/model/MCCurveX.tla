------------------------------ MODULE MCCurveX ------------------------------
(***************************************************************************)
(* The definition C11/C12 are judged against - lib/CurveX, the affine      *)
(* chord-and-tangent law over a level of lib/Tower - IS a group law on the *)
(* points of every nonsingular curve y^2 = x^3 + ax + b over the quadratic *)
(* field F_p2 = F_p[u]/(u^2 - usq), checked exhaustively for tiny p:       *)
(*   closure (the sum of two curve points is a curve point), identity,     *)
(*   inverse, commutativity on ALL pairs of points; associativity on ALL   *)
(*   triples (AssocAll) or on all triples (P, Q, R) with Q, R from a       *)
(*   sample of the points (every AssocStep-th point and the 2-torsion);    *)
(*   Lagrange: [#E]P = O for every point.                                  *)
(* One leaf state per curve (a, b); a ranges over ASet (all of F_p2 or      *)
(* {0, 1, u, -3}), b over all of F_p2 (BSet = "all") or b_1 in {0, 1}.      *)
(* The same states check the balanced-recursion evaluators of             *)
(* model/CurveXB (and of the libraries): XMulB = the LINEAR once-per-bit   *)
(* double-and-add (XMulLin) = XMulNat, and [k+1]Q = [k]Q + Q (the k-fold   *)
(* repeated group operation) for all points and all scalars 0..MaxK;       *)
(* TPowB = TPowLin = TExp and x^(k+1) = x^k x on F_p2; PMulB = PMulLin =   *)
(* PMulNat on the curve y^2 = x^3 + a_0 x + b_0 over F_p when nonsingular. *)
(***************************************************************************)
EXTENDS CurveXB, FiniteSets, TLC
CONSTANTS p, usq, ASet, BSet, AssocAll, AssocStep, MaxK
VARIABLES a, b, ph

P == BFromNat(p)
T == [p |-> P, lv |-> <<[deg |-> 2, nr |-> BFromNat(usq)]>>]
F0 == {BFromNat(n) : n \in 0..(p - 1)}
F2 == {<<x0, x1>> : x0 \in F0, x1 \in F0}
El(n0, n1) == <<BFromNat(n0), BFromNat(n1)>>
AVals == IF ASet = "all" THEN F2 ELSE {El(0, 0), El(1, 0), El(0, 1), El(p - 3, 0)}

Crv == [T |-> T, k |-> 1, a |-> a, b |-> b]

(* the textbook definitions: one recursion step per scalar bit, most significant first *)
RECURSIVE XMulLin(_, _, _, _, _), PMulLin(_, _, _, _, _), TPowLin(_, _, _, _)
XMulLin(n, Q, c, i, acc) ==
    IF i < 0 THEN acc
    ELSE LET d == XDbl(acc, c) IN XMulLin(n, Q, c, i - 1, IF BBit(n, i) = 1 THEN XAdd(d, Q, c) ELSE d)
PMulLin(n, Q, c, i, acc) ==
    IF i < 0 THEN acc
    ELSE LET d == PDbl(acc, c) IN PMulLin(n, Q, c, i - 1, IF BBit(n, i) = 1 THEN PAdd(d, Q, c) ELSE d)
TPowLin(x, e, i, acc) ==
    IF i < 0 THEN acc
    ELSE LET s == TMul(T, 1, acc, acc) IN TPowLin(x, e, i - 1, IF BBit(e, i) = 1 THEN TMul(T, 1, s, x) ELSE s)
M(x, y) == TMul(T, 1, x, y)
Disc == TAdd(T, 1, TScale(T, 1, M(M(a, a), a), BMod(<<4>>, P)), TScale(T, 1, M(b, b), BMod(<<27>>, P)))
Nonsingular == ~TIsZero(T, 1, Disc)

(* The curves are reached in two steps (choose a and b_0, then b_1) so that TLC's workers share them: *)
(* the states of one parent are generated - and their invariant evaluated - by one worker.           *)
Init == a = El(0, 0) /\ b = El(0, 0) /\ ph = 0
Next == \/ ph = 0 /\ a' \in AVals /\ (\E b0 \in F0 : b' = <<b0, <<>>>>) /\ ph' = 1
        \/ ph = 1 /\ a' = a /\ (\E b1 \in (IF BSet = "all" THEN F0 ELSE {<<>>, <<1>>}) : b' = <<b[1], b1>>) /\ ph' = 2
Spec == Init /\ [][Next]_<<a, b, ph>>

(* all affine points: for every x the y with y^2 = rhs(x), through the table of squares *)
Squares == TLCEval({<<M(y, y), y>> : y \in F2})
Points == LET sq == Squares IN
          TLCEval(UNION {LET rh == XRhs(x, Crv) IN {XPt(x, s[2]) : s \in {t \in sq : t[1] = rh}} : x \in F2})
Seq2Set(s) == {s[i] : i \in 1..Len(s)}

RECURSIVE SetToSeq(_)
SetToSeq(S) == IF S = {} THEN <<>> ELSE LET x == CHOOSE x \in S : TRUE IN <<x>> \o SetToSeq(S \ {x})

GroupLaw ==
    Nonsingular =>
    LET c    == Crv
        O    == XInf(c)
        aff  == Points
        pts  == TLCEval(aff \cup {O})
        n    == Cardinality(pts)
        ps   == SetToSeq(aff)
        smp  == TLCEval({ps[i] : i \in {j \in 1..Len(ps) : j % AssocStep = 1}} \cup {Q \in aff : TIsZero(T, 1, Q.y)} \cup {O})
        QR   == IF AssocAll THEN pts ELSE smp
    IN  /\ \A Q \in pts : XOnCurve(Q, c)
        /\ \A Q \in pts : XAdd(Q, O, c) = Q /\ XAdd(O, Q, c) = Q
        /\ \A Q \in pts : XNeg(Q, c) \in pts /\ XAdd(Q, XNeg(Q, c), c) = O
        /\ \A Q \in pts, R \in pts : XAdd(Q, R, c) \in pts /\ XAdd(Q, R, c) = XAdd(R, Q, c)
        /\ \A Q \in pts : XDbl(Q, c) = XAdd(Q, Q, c)
        /\ \A Q \in pts, R \in QR, S \in QR : XAdd(XAdd(Q, R, c), S, c) = XAdd(Q, XAdd(R, S, c), c)
        /\ \A Q \in pts : XMulNat(BFromNat(n), Q, c) = O                                   \* Lagrange
        /\ \A Q \in pts : \A k \in 0..MaxK :
              LET kk == BFromNat(k)  X == XMulB(kk, Q, c) IN
              /\ X = XMulNat(kk, Q, c) /\ X = XMulLin(kk, Q, c, BBits(kk) - 1, O)
              /\ XMulB(BFromNat(k + 1), Q, c) = XAdd(X, Q, c)                             \* repeated operation
        /\ \A Q \in pts : XMulB(BFromNat(n + 1), Q, c) = Q /\ XMulSB(TRUE, BFromNat(n - 1), Q, c) = Q

(* the balanced evaluators over F_p2 and over the prime-field curve with the F_p parts of (a, b) *)
Balanced ==
    /\ \A x \in {a, b} : \A k \in 0..MaxK :
          LET kk == BFromNat(k)  y == TPowB(T, 1, x, kk) IN
          /\ y = TExp(T, 1, x, kk) /\ y = TPowLin(x, kk, BBits(kk) - 1, TOne(T, 1))
          /\ TPowB(T, 1, x, BFromNat(k + 1)) = TMul(T, 1, y, x)
    /\ TPowB(T, 1, b, BFromNat(p * p)) = b                                                  \* x^(p^2) = x in F_p2
    /\ LET c1 == [p |-> P, a |-> a[1], b |-> b[1]]
           nonsing == FAdd(FMul(BMod(<<4>>, P), FMul(FSqr(c1.a, P), c1.a, P), P), FMul(BMod(<<27>>, P), FSqr(c1.b, P), P), P) # <<>>
           pts1 == TLCEval(UNION {{Pt(x, y) : y \in {z \in F0 : FSqr(z, P) = Rhs(x, c1)}} : x \in F0})
       IN  nonsing => \A Q \in pts1 : \A k \in 0..MaxK :
                          LET kk == BFromNat(k)  X == PMulB(kk, Q, c1) IN
                          /\ X = PMulNat(kk, Q, c1) /\ X = PMulLin(kk, Q, c1, BBits(kk) - 1, PInf)
                          /\ PMulB(BFromNat(k + 1), Q, c1) = PAdd(X, Q, c1)

Check == ph = 2 => (GroupLaw /\ Balanced)
=============================================================================
