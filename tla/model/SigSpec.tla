------------------------------- MODULE SigSpec -------------------------------
(***************************************************************************)
(* C05 - call-level specification of the signature schemes.  An event e    *)
(* (harness/drv_sig.c) is ONE verification call with everything it was     *)
(* given: domain parameters, public key, signature components, message,    *)
(* mode flag - and the verdict the library returned.  The event is         *)
(* accepted iff that verdict equals the verdict of the scheme's            *)
(* DEFINITION, written here from the standards and evaluated on the        *)
(* abstract values with lib/Curve (affine group law), lib/BigNat, lib/Sha2,*)
(* lib/Kdf - never by another routine of the library:                      *)
(*   ECDSA   FIPS 186-4 section 6.4 / SEC 1 section 4.1.4                  *)
(*   EC-Schnorr as RELIC documents it in the code (signature (e, s),       *)
(*           e = H(m || I2OSP(x([k]G) mod n)), s = k - d e), with the      *)
(*           validity clauses of BSI TR-03111 4.2.3 (valid public key,     *)
(*           commitment not the identity)                                  *)
(*   RSA     RFC 8017: RSASSA-PSS-VERIFY with sLen = 0 (8.1.2 + 9.1.2),    *)
(*           RSASSA-PKCS1-V1_5-VERIFY (8.2.2 + 9.2), and the library's     *)
(*           "basic" padding (EM = 0..0 FF H) verified by re-encoding      *)
(*   BLS     sigma = [d]H(m) for pk = [d]G2 (ghost discrete logarithm: d   *)
(*           is checked against pk with the group law over F_p^2), pk a    *)
(*           point of order n of the twist, H(m) the hash-to-curve output  *)
(*           the verifier computed (captured, its input bound to m;        *)
(*           correctness of the map itself is C13)                         *)
(*   BB / ZSS  sigma = [1/(H(m)+d)]g for pk = [d]g' (ghost logarithm)      *)
(* Mutated triples are judged by the same definition - so ECDSA's (r, n-s) *)
(* is expected to be ACCEPTED and everything invalid to be rejected.       *)
(***************************************************************************)
EXTENDS FpRep, BigInt

X == INSTANCE Xmd          \* Sha256, Mgf1Sha256, StrXor (FIPS 180-4, RFC 8017 B.2.1)

BnVal(x) == BNorm(x.d)
BnNeg(x) == x.s = 1 /\ BNorm(x.d) # <<>>
Clean(e) == e.err = 0 /\ e.code = 0
Verdict(e, def) == Clean(e) /\ e.ret = (IF def THEN 1 ELSE 0) /\ (e.honest = 1 => e.ret = 1)

Crv(e) == [p |-> FPrime(e), a |-> FAbs(e, e.ca), b |-> FAbs(e, e.cb)]
(* an operand the schemes are specified for: canonical coordinates, affine or the identity *)
RepOk(e, P) == P.c \in {1, 2, 3} /\ PCanon(e, P)

(* the integer derived from a digest: its leftmost min(bits(n), 8 len) bits *)
DigestInt(h, n) ==
    LET nb == BBits(n) IN
    IF 8 * Len(h) > nb
    THEN LET l == (nb + 7) \div 8 IN BShr(BFromBE(SubSeq(h, 1, l)), 8 * l - nb)
    ELSE BFromBE(h)

(* public-key validation (SEC 1 3.2.2.1): not the identity, coordinates in the field, on the curve, order n *)
ValidPub(Q, c, n, h) == ~Q.inf /\ OnCurve(Q, c) /\ (h = <<1>> \/ PMulNat(n, Q, c).inf)

(* ------------------------------------------------------------------ ECDSA *)
EcdsaRange(e) ==
    LET n == BnVal(e.n) IN
    /\ ~BnNeg(e.r) /\ ~BnNeg(e.s)
    /\ BnVal(e.r) # <<>> /\ BnVal(e.s) # <<>>
    /\ BLt(BnVal(e.r), n) /\ BLt(BnVal(e.s), n)
EcdsaDigest(e) == IF e.flag = 0 THEN X!Sha256(e.msg) ELSE e.msg
(* R = [e s^-1]G + [r s^-1]Q is a finite point and x(R) mod n = r *)
EcdsaEqn(e) ==
    LET c == Crv(e)
        n == BnVal(e.n)
        r == BnVal(e.r)
        w == BModInv(BnVal(e.s), n)
        u1 == BMulMod(DigestInt(EcdsaDigest(e), n), w, n)
        u2 == BMulMod(r, w, n)
        R == PAdd(PMulNat(u1, PAbs(e, e.G), c), PMulNat(u2, PAbs(e, e.Q), c), c)
    IN  ~R.inf /\ BMod(R.x, n) = r
EcdsaDef(e) ==
    /\ e.mdl = 32 /\ RepOk(e, e.Q)
    /\ EcdsaRange(e)
    /\ ValidPub(PAbs(e, e.Q), Crv(e), BnVal(e.n), BnVal(e.h))
    /\ EcdsaEqn(e)

(* ------------------------------------------------------------- EC-Schnorr *)
(* signature (e, s) is carried in the fields r (= e) and s *)
EcssRange(e) ==
    LET n == BnVal(e.n) IN
    /\ ~BnNeg(e.r) /\ ~BnNeg(e.s)
    /\ BnVal(e.s) # <<>>
    /\ BLt(BnVal(e.r), n) /\ BLt(BnVal(e.s), n)
EcssHash(e, rv) ==
    LET n == BnVal(e.n) IN BMod(DigestInt(X!Sha256(e.msg \o BToBE(rv, e.fcb)), n), n)
EcssPoint(e) ==
    LET c == Crv(e) IN
    PAdd(PMulNat(BnVal(e.s), PAbs(e, e.G), c), PMulNat(BnVal(e.r), PAbs(e, e.Q), c), c)
EcssDef(e) ==
    /\ e.mdl = 32 /\ RepOk(e, e.Q)
    /\ EcssRange(e)
    /\ ValidPub(PAbs(e, e.Q), Crv(e), BnVal(e.n), BnVal(e.h))
    /\ LET R == EcssPoint(e) IN
       ~R.inf /\ EcssHash(e, BMod(R.x, BnVal(e.n))) = BnVal(e.r)

(* key generation of both: 1 <= d < n and Q = [d]G *)
EcGenOk(e) ==
    LET n == BnVal(e.n) IN
    /\ Clean(e) /\ e.ret = 0
    /\ ~BnNeg(e.d) /\ BnVal(e.d) # <<>> /\ BLt(BnVal(e.d), n)
    /\ RepOk(e, e.Q)
    /\ PEq(PAbs(e, e.Q), PMulNat(BnVal(e.d), PAbs(e, e.G), Crv(e)))
EcSigOk(e, rzero) ==
    /\ Clean(e) /\ e.ret = 0
    /\ ~BnNeg(e.r) /\ ~BnNeg(e.s)
    /\ (rzero \/ BnVal(e.r) # <<>>) /\ (rzero \/ BnVal(e.s) # <<>>)
    /\ BLt(BnVal(e.r), BnVal(e.n)) /\ BLt(BnVal(e.s), BnVal(e.n))

(* -------------------------------------------------------------------- RSA *)
HLen == 32
(* RFC 8017 9.1.2 EMSA-PSS-VERIFY with sLen = 0 on the integer m = s^e mod N; steps as numbered there *)
PssVerifyG(mHash, m, emBits, checkH) ==
    LET emLen == (emBits + 7) \div 8
        zb == 8 * emLen - emBits                  \* number of leftmost bits that must be zero
    IN  /\ BLenBytes(m) <= emLen                   \* 8.1.2 step 2c: I2OSP(m, emLen) exists
        /\ emLen >= HLen + 2                       \* 3
        /\ LET EM == BToBE(m, emLen)
               mDB == SubSeq(EM, 1, emLen - HLen - 1)                   \* 5
               Hh == SubSeq(EM, emLen - HLen, emLen - 1)
           IN  /\ EM[emLen] = 188                                       \* 4 (0xbc)
               /\ mDB[1] < 2 ^ (8 - zb)                                 \* 6
               /\ LET DB0 == X!StrXor(mDB, X!Mgf1Sha256(Hh, emLen - HLen - 1))   \* 7, 8
                      DB == <<DB0[1] % (2 ^ (8 - zb))>> \o Tail(DB0)             \* 9
                  IN  /\ DB = Zeros(emLen - HLen - 2) \o <<1>>                  \* 10
                      /\ (checkH => Hh = X!Sha256(Zeros(8) \o mHash))            \* 12 - 14
PssVerify(mHash, m, emBits) == PssVerifyG(mHash, m, emBits, TRUE)
(* pad_pkcs2 unmasks digit-wise (m->dp[i] ^= t->dp[i]) without growing m->used: DB is inspected only in the   *)
(* nd = used digits of maskedDB.  This predicate = PssVerify with step 10 restricted to those digits AND a   *)
(* non-zero ignored part (so it never holds for a valid encoding).  wbits = bits per digit.                  *)
PssVerifyLowDigits(mHash, m, emBits, wbits) ==
    LET emLen == (emBits + 7) \div 8
        zb == 8 * emLen - emBits
    IN  /\ BLenBytes(m) <= emLen /\ emLen >= HLen + 2
        /\ LET EM == BToBE(m, emLen)
               mDB == SubSeq(EM, 1, emLen - HLen - 1)
               Hh == SubSeq(EM, emLen - HLen, emLen - 1)
               mi == BFromBE(mDB)
               nd == IF mi = <<>> THEN 1 ELSE (BBits(mi) + wbits - 1) \div wbits
           IN  /\ EM[emLen] = 188 /\ mDB[1] < 2 ^ (8 - zb)
               /\ LET DB0 == X!StrXor(mDB, X!Mgf1Sha256(Hh, emLen - HLen - 1))
                      DB == BFromBE(<<DB0[1] % (2 ^ (8 - zb))>> \o Tail(DB0))
                  IN  /\ BLow(DB, wbits * nd) = <<1>>
                      /\ BShr(DB, wbits * nd) # <<>>
                      /\ Hh = X!Sha256(Zeros(8) \o mHash)
(* the same with the offending leftmost bits of the encoded message cleared first *)
PssVerifyLax(mHash, m, emBits) ==
    PssVerify(mHash, BLow(m, emBits), emBits)

(* RFC 8017 9.2 EMSA-PKCS1-v1_5: EM = 00 01 FF..FF 00 T, PS at least 8 bytes; T = DigestInfo(SHA-256) || H;    *)
(* with the pre-hashed flag the library signs block type 01 over the bare digest (T = D)                   *)
Sha256Id == <<48, 49, 48, 13, 6, 9, 96, 134, 72, 1, 101, 3, 4, 2, 1, 5, 0, 4, 32>>
Ones(k) == IF k <= 0 THEN <<>> ELSE [i \in 1..k |-> 255] \o <<>>
Pkcs1Verify(mHash, m, k, withId) ==
    LET T == IF withId THEN Sha256Id \o mHash ELSE mHash
        ps == k - 3 - Len(T)
    IN  /\ ps >= 8                              \* "intended encoded message length too short" otherwise
        /\ m = BFromBE(<<0, 1>> \o Ones(ps) \o <<0>> \o T)
(* the library's own "basic" padding: the integer FF || H *)
BasicVerify(mHash, m, k) == k >= Len(mHash) + 2 /\ m = BFromBE(<<255>> \o mHash)

RsaDigest(e) == IF e.flag = 0 THEN X!Sha256(e.msg) ELSE e.msg
(* the padding check on the signature representative s *)
RsaPad(e, mh, m, N) ==
    CASE e.pad = "pss" -> PssVerify(mh, m, BBits(N) - 1)
      [] e.pad = "pkcs1" -> Pkcs1Verify(mh, m, BLenBytes(N), e.flag = 0)
      [] e.pad = "basic" -> BasicVerify(mh, m, BLenBytes(N))
RsaCore(e, s) == LET N == BnVal(e.N) IN RsaPad(e, RsaDigest(e), BModExp(s, BnVal(e.E), N), N)
RsaDef(e) ==
    LET N == BnVal(e.N)
        s == BFromBE(e.sig)
    IN  /\ e.mdl = 32
        /\ (e.flag # 0 => Len(e.msg) = HLen)          \* pre-hashed mode: the message IS a digest
        /\ Len(e.sig) = BLenBytes(N)                  \* 8.1.2 / 8.2.2 step 1: length check
        /\ BLt(s, N)                                  \* 5.2.2 RSAVP1 step 1
        /\ RsaCore(e, s)

(* signing: RFC 8017 8.2.1 - "RSA modulus too short" when k < tLen + 11 (PKCS#1 v1.5); a signature of k bytes otherwise *)
RsaTLen(e) == IF e.flag = 0 THEN Len(Sha256Id) + HLen ELSE e.mlen
RsaTooShort(e) == e.pad = "pkcs1" /\ e.k < RsaTLen(e) + 11
RsaSigOk(e) == Clean(e) /\ (IF RsaTooShort(e) THEN e.ret # 0 ELSE e.ret = 0 /\ e.slen = e.k)

RsaGenOk(e) ==
    /\ e.ok = 1
    /\ LET N == BnVal(e.N)  P == BnVal(e.P)  Q == BnVal(e.Q)  E == BnVal(e.E)  D == BnVal(e.D) IN
       /\ N = BMul(P, Q) /\ P # Q /\ BIsPrime(P) /\ BIsPrime(Q)
       /\ BBits(N) \in {e.bits - 1, e.bits}
       /\ BMulMod(E, D, BSub(P, <<1>>)) = <<1>> /\ BMulMod(E, D, BSub(Q, <<1>>)) = <<1>>

(* -------------------------------------------------------------------- BLS *)
(* F_p^2 = F_p[u]/(u^2 - qnr), elements <<a0, a1>>; the twist E'/F_p^2: y^2 = x^3 + ta x + tb, affine law *)
Qnr(e) == FFromInt(e.qnr < 0, BFromNat(IF e.qnr < 0 THEN 0 - e.qnr ELSE e.qnr), FPrime(e))
F2Abs(e, a) == <<FAbs(e, a[1]), FAbs(e, a[2])>>
F2Canon(e, a) == FCanon(e, a[1]) /\ FCanon(e, a[2])
F2Add(a, b, p) == <<FAdd(a[1], b[1], p), FAdd(a[2], b[2], p)>>
F2Sub(a, b, p) == <<FSub(a[1], b[1], p), FSub(a[2], b[2], p)>>
F2Mul(a, b, p, q) == <<FAdd(FMul(a[1], b[1], p), FMul(q, FMul(a[2], b[2], p), p), p),
                       FAdd(FMul(a[1], b[2], p), FMul(a[2], b[1], p), p)>>
F2Inv(a, p, q) ==
    LET ni == FInv(FSub(FSqr(a[1], p), FMul(q, FSqr(a[2], p), p), p), p)
    IN  <<FMul(a[1], ni, p), FNeg(FMul(a[2], ni, p), p)>>
F2Zero == <<<<>>, <<>>>>
(* twist context t == [p, q (non-residue), a, b]; points [inf, x, y] *)
TInf == [inf |-> TRUE, x |-> F2Zero, y |-> F2Zero]
TOn(P, t) == P.inf \/ F2Mul(P.y, P.y, t.p, t.q) =
                      F2Add(F2Add(F2Mul(F2Mul(P.x, P.x, t.p, t.q), P.x, t.p, t.q), F2Mul(t.a, P.x, t.p, t.q), t.p), t.b, t.p)
TDbl(P, t) ==
    IF P.inf \/ P.y = F2Zero THEN TInf
    ELSE LET p == t.p  q == t.q
             xx == F2Mul(P.x, P.x, p, q)
             l  == F2Mul(F2Add(F2Add(F2Add(xx, xx, p), xx, p), t.a, p), F2Inv(F2Add(P.y, P.y, p), p, q), p, q)
             x3 == F2Sub(F2Sub(F2Mul(l, l, p, q), P.x, p), P.x, p)
         IN  [inf |-> FALSE, x |-> x3, y |-> F2Sub(F2Mul(l, F2Sub(P.x, x3, p), p, q), P.y, p)]
TAddP(P, Q, t) ==
    IF P.inf THEN Q ELSE IF Q.inf THEN P
    ELSE IF P.x = Q.x THEN (IF P.y = Q.y THEN TDbl(P, t) ELSE TInf)
    ELSE LET p == t.p  q == t.q
             l  == F2Mul(F2Sub(Q.y, P.y, p), F2Inv(F2Sub(Q.x, P.x, p), p, q), p, q)
             x3 == F2Sub(F2Sub(F2Mul(l, l, p, q), P.x, p), Q.x, p)
         IN  [inf |-> FALSE, x |-> x3, y |-> F2Sub(F2Mul(l, F2Sub(P.x, x3, p), p, q), P.y, p)]
RECURSIVE TMulR(_, _, _, _, _)
TMulR(k, P, t, i, acc) ==
    IF i < 0 THEN acc
    ELSE LET d == TDbl(acc, t) IN TMulR(k, P, t, i - 1, IF BBit(k, i) = 1 THEN TAddP(d, P, t) ELSE d)
TMulNat(k, P, t) == TMulR(k, P, t, BBits(k) - 1, TInf)

Twist(e) == [p |-> FPrime(e), q |-> Qnr(e), a |-> F2Abs(e, e.ta), b |-> F2Abs(e, e.tb)]
(* abstract value of a raw, normalised G2 point (z = 1 or the identity z = 0) *)
T2Norm(e, P) == F2Canon(e, P.x) /\ F2Canon(e, P.y) /\ F2Canon(e, P.z) /\ F2Abs(e, P.z) \in {F2Zero, <<<<1>>, <<>>>>}
T2Abs(e, P) == IF F2Abs(e, P.z) = F2Zero THEN TInf ELSE [inf |-> FALSE, x |-> F2Abs(e, P.x), y |-> F2Abs(e, P.y)]
(* a valid BLS public key: a point of order n of the twist *)
ValidG2(e, P) == ~P.inf /\ TOn(P, Twist(e)) /\ TMulNat(BnVal(e.n), P, Twist(e)).inf
(* ghost logarithm: pk = [gd]G2 with 0 < gd < n (then pk is valid: G2 has order n, checked at key generation) *)
HasLog(e) == BnVal(e.gd) # <<>> /\ BLt(BnVal(e.gd), BnVal(e.n))
             /\ T2Abs(e, e.pk) = TMulNat(BnVal(e.gd), T2Abs(e, e.G2), Twist(e))
BlsDef(e) ==
    LET c == Crv(e)
        S == PAbs(e, e.S)
    IN  /\ RepOk(e, e.S) /\ T2Norm(e, e.pk)
        /\ e.hn = 1 /\ e.hin = e.msg                 \* the verifier hashed exactly the message, once
        /\ ~S.inf /\ OnCurve(S, c)                   \* G1 = E(F_p): cofactor 1 (checked: bls_gen)
        /\ HasLog(e)
        /\ PEq(S, PMulNat(BnVal(e.gd), PAbs(e, e.hP), c))
(* events without ghost logarithm claim an INVALID key; the claim is checked by the definition *)
BlsClaimOk(e) == BnVal(e.gd) # <<>> \/ ~T2Norm(e, e.pk) \/ ~ValidG2(e, T2Abs(e, e.pk))
BlsGenOk(e) ==
    LET n == BnVal(e.n) IN
    /\ Clean(e) /\ e.ret = 0
    /\ ~BnNeg(e.d) /\ BnVal(e.d) # <<>> /\ BLt(BnVal(e.d), n)
    /\ T2Norm(e, e.pk) /\ T2Norm(e, e.G2)
    /\ ValidG2(e, T2Abs(e, e.G2))                                        \* the generator has order n
    /\ T2Abs(e, e.pk) = TMulNat(BnVal(e.d), T2Abs(e, e.G2), Twist(e))    \* pk = [d]G2

(* ------------------------------------------- Boneh-Boyen short signatures, ZSS *)
(* sigma = [1 / (H(m) + d)]g with g the generator of G1 (BB; key [d]G2) resp. G2 (ZSS; key [d]G1);       *)
(* e(sigma, [H(m)]G2 + pk) = e(G1, G2) holds iff (H(m) + d) log(sigma) = 1 mod n - decided with the ghost   *)
(* logarithm gd of the submitted key.  H(m) = SHA-256 digest (or the given digest) as an integer mod n.   *)
InvMsgInt(e) == BMod(BFromBE(IF e.flag = 0 THEN X!Sha256(e.msg) ELSE e.msg), BnVal(e.n))
InvExp(e, d) == BModInv(BAddMod(InvMsgInt(e), d, BnVal(e.n)), BnVal(e.n))       \* <<>> when H(m) + d = 0
BbsDef(e) ==
    LET c == Crv(e)
        S == PAbs(e, e.S)
    IN  /\ e.mdl = 32 /\ RepOk(e, e.S) /\ T2Norm(e, e.pk)
        /\ ~S.inf /\ OnCurve(S, c)
        /\ HasLog(e)
        /\ InvExp(e, BnVal(e.gd)) # <<>>
        /\ PEq(S, PMulNat(InvExp(e, BnVal(e.gd)), PAbs(e, e.G1), c))
ZssKeyValid(e) == RepOk(e, e.pk) /\ ~PAbs(e, e.pk).inf /\ OnCurve(PAbs(e, e.pk), Crv(e))
ZssDef(e) ==
    LET c == Crv(e)
        gd == BnVal(e.gd)
    IN  /\ e.mdl = 32 /\ T2Norm(e, e.S)
        /\ ZssKeyValid(e)
        /\ gd # <<>> /\ BLt(gd, BnVal(e.n)) /\ PEq(PAbs(e, e.pk), PMulNat(gd, PAbs(e, e.G1), c))
        /\ InvExp(e, gd) # <<>>
        /\ T2Abs(e, e.S) = TMulNat(InvExp(e, gd), T2Abs(e, e.G2), Twist(e))
ZssClaimOk(e) == BnVal(e.gd) # <<>> \/ ~ZssKeyValid(e)
ZssGenOk(e) ==
    /\ Clean(e) /\ e.ret = 0
    /\ ~BnNeg(e.d) /\ BnVal(e.d) # <<>> /\ BLt(BnVal(e.d), BnVal(e.n))
    /\ RepOk(e, e.pk) /\ PEq(PAbs(e, e.pk), PMulNat(BnVal(e.d), PAbs(e, e.G1), Crv(e)))

(* ----------------------------------------------------------------- accept *)
SigAccept(e) ==
    CASE e.op = "ecdsa_ver" -> Verdict(e, EcdsaDef(e))
      [] e.op = "ecss_ver"  -> Verdict(e, EcssDef(e))
      [] e.op \in {"ecdsa_gen", "ecss_gen"} -> EcGenOk(e)
      [] e.op = "ecdsa_sig" -> EcSigOk(e, FALSE)
      [] e.op = "ecss_sig"  -> EcSigOk(e, TRUE)
      [] e.op = "rsa_ver"   -> e.crash = 0 /\ Verdict(e, RsaDef(e))
      [] e.op = "rsa_gen"   -> RsaGenOk(e)
      [] e.op = "rsa_sig"   -> RsaSigOk(e)
      [] e.op = "bls_ver"   -> BlsClaimOk(e) /\ Verdict(e, BlsDef(e))
      [] e.op = "bls_gen"   -> BlsGenOk(e)
      [] e.op \in {"bls_sig", "bbs_sig", "zss_sig"} -> Clean(e) /\ e.ret = 0
      [] e.op = "bbs_ver"   -> BlsClaimOk(e) /\ Verdict(e, BbsDef(e))
      [] e.op = "bbs_gen"   -> BlsGenOk(e)
      [] e.op = "zss_ver"   -> ZssClaimOk(e) /\ Verdict(e, ZssDef(e))
      [] e.op = "zss_gen"   -> ZssGenOk(e)
      [] e.op = "skip"      -> TRUE
      [] OTHER -> FALSE

(* ---------------------------------------------------------- known findings *)
(* Each key names ONE wrong outcome on ONE input class; everything else of the event must be as defined. *)
SigKnownKey(e) ==
    CASE e.op = "ecdsa_ver" ->
            \* identity public key: the verdict is the bare equation with Q = O
            IF Clean(e) /\ e.ret = 1 /\ RepOk(e, e.Q) /\ PAbs(e, e.Q).inf /\ EcdsaRange(e) /\ EcdsaEqn(e)
            THEN "C05-ecdsa-identity-pubkey" ELSE ""
      [] e.op = "ecss_ver" ->
            IF Clean(e) /\ e.ret = 1 /\ RepOk(e, e.Q) /\ EcssRange(e)
            THEN IF PAbs(e, e.Q).inf
                 THEN (LET R == EcssPoint(e) IN
                       IF ~R.inf /\ EcssHash(e, BMod(R.x, BnVal(e.n))) = BnVal(e.r)
                       THEN "C05-ecss-identity-pubkey" ELSE "")
                 ELSE IF /\ ValidPub(PAbs(e, e.Q), Crv(e), BnVal(e.n), BnVal(e.h))
                         /\ EcssPoint(e).inf /\ EcssHash(e, <<>>) = BnVal(e.r)
                      THEN "C05-ecss-commitment-at-infinity" ELSE ""
            ELSE ""
      [] e.op = "rsa_ver" ->
            LET N == BnVal(e.N)
                s == BFromBE(e.sig)
                wellformed == e.mdl = 32 /\ (e.flag # 0 => Len(e.msg) = HLen)
                m == BModExp(s, BnVal(e.E), N)
                em == BToBE(m, BLenBytes(m))                       \* minimal big-endian form of s^e mod N
                h == RsaDigest(e)
                \* basic padding: h1 = alloca(max(msg_len, RLC_MD_LEN) + 8) receives the whole payload behind the FF marker
                overflow == e.pad = "basic" /\ Len(em) >= 1 /\ em[1] = 255
                            /\ Len(em) - 1 > (IF Len(e.msg) > HLen THEN Len(e.msg) ELSE HLen) + 8
            IN  IF e.mdl = 32 /\ e.flag # 0 /\ Len(e.msg) # HLen
                THEN \* pre-hashed mode compares msg_len bytes only: a proper prefix or a zero-extended copy of the signed
                     \* digest D (recovered from the encoded message) is accepted
                     (IF /\ Clean(e) /\ e.crash = 0 /\ e.ret = 1
                         /\ Len(e.sig) = BLenBytes(N) /\ BLt(s, N)
                         /\ IF e.pad = "pss"
                            THEN Len(e.msg) = 0 /\ PssVerifyG(<<>>, m, BBits(N) - 1, FALSE)   \* zero bytes compared
                            ELSE /\ Len(em) >= HLen
                                 /\ LET D == SubSeq(em, Len(em) - HLen + 1, Len(em)) IN
                                    /\ RsaPad(e, D, m, N)
                                    /\ IF Len(e.msg) < HLen THEN SubSeq(D, 1, Len(e.msg)) = e.msg
                                       ELSE e.msg = D \o Zeros(Len(e.msg) - HLen)
                      THEN "C05-rsa-prehashed-digest-length-not-checked" ELSE "")
                ELSE IF ~wellformed THEN ""
                ELSE IF Len(e.sig) = BLenBytes(N) /\ BLt(s, N) /\ overflow
                     THEN \* undefined behaviour: abnormal end or a verdict that differs from the definition
                          (IF e.crash # 0 \/ ~Verdict(e, RsaDef(e)) THEN "C05-rsa-basic-payload-overflows-stack-buffer" ELSE "")
                ELSE IF ~(Clean(e) /\ e.crash = 0) THEN ""
                ELSE IF e.ret = 0
                     THEN \* honest PSS signatures under a modulus of 8j + 1 bits are refused
                          (IF e.pad = "pss" /\ (BBits(N) - 1) % 8 = 0 /\ RsaDef(e)
                           THEN "C05-rsa-pss-modbits-1-mod-8-rejected" ELSE "")
                ELSE IF e.ret # 1 THEN ""
                ELSE IF ~BLt(s, N)
                     THEN (IF RsaCore(e, BMod(s, N)) THEN "C05-rsa-sig-not-below-modulus" ELSE "")
                ELSE IF Len(e.sig) # BLenBytes(N)
                     THEN (IF RsaCore(e, s) THEN "C05-rsa-sig-length-not-checked" ELSE "")
                ELSE IF e.pad = "pss" /\ ~RsaCore(e, s)
                        /\ PssVerifyLax(h, m, BBits(N) - 1)
                     THEN "C05-rsa-pss-leftmost-bit-not-checked"
                ELSE IF e.pad = "pss" /\ ~RsaCore(e, s) /\ PssVerifyLowDigits(h, m, BBits(N) - 1, 8 * e.w)
                     THEN "C05-rsa-pss-db-above-used-digits-not-checked"
                ELSE IF e.pad = "basic" /\ ~RsaCore(e, s) /\ Len(em) >= 1 /\ em[1] = 255
                        /\ LET P == Tail(em) IN
                           \/ (Len(P) > Len(h) /\ SubSeq(P, 1, Len(h)) = h)            \* bytes behind the digest
                           \/ (Len(P) < Len(h) /\ P \o Zeros(Len(h) - Len(P)) = h)     \* short payload, zero-extended
                     THEN "C05-rsa-basic-payload-length-not-checked"
                ELSE IF e.pad = "pkcs1" /\ ~RsaCore(e, s)
                        /\ LET T == IF e.flag = 0 THEN Sha256Id \o h ELSE h IN
                           /\ BLenBytes(N) - 3 - Len(T) = 7          \* k = tLen + 10: RFC 8017 9.2 step 3 refuses to encode
                           /\ m = BFromBE(<<0, 1>> \o Ones(7) \o <<0>> \o T)
                     THEN "C05-rsa-pkcs1-seven-byte-padding-accepted"
                ELSE ""
      [] e.op = "rsa_sig" ->
            \* the signer's half of the same finding: a signature with a 7-byte padding string is produced
            IF Clean(e) /\ e.ret = 0 /\ e.slen = e.k /\ e.pad = "pkcs1" /\ e.k = RsaTLen(e) + 10
            THEN "C05-rsa-pkcs1-seven-byte-padding-accepted" ELSE ""
      [] e.op = "bbs_ver" ->
            \* identity public key: e(sigma, [H(m)]G2 + O) = e(G1, G2) for sigma = [1 / H(m)]G1
            IF /\ Clean(e) /\ e.ret = 1 /\ e.mdl = 32 /\ RepOk(e, e.S) /\ T2Norm(e, e.pk) /\ T2Abs(e, e.pk).inf
               /\ InvExp(e, <<>>) # <<>>
               /\ PEq(PAbs(e, e.S), PMulNat(InvExp(e, <<>>), PAbs(e, e.G1), Crv(e)))
            THEN "C05-bbs-identity-pubkey" ELSE ""
      [] e.op = "zss_ver" ->
            IF /\ Clean(e) /\ e.ret = 1 /\ e.mdl = 32 /\ RepOk(e, e.pk) /\ T2Norm(e, e.S) /\ PAbs(e, e.pk).inf
               /\ InvExp(e, <<>>) # <<>>
               /\ T2Abs(e, e.S) = TMulNat(InvExp(e, <<>>), T2Abs(e, e.G2), Twist(e))
            THEN "C05-zss-identity-pubkey" ELSE ""
      [] OTHER -> ""
=============================================================================
