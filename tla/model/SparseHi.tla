------------------------------ MODULE SparseHi ------------------------------
(***************************************************************************)
(* Design-level model of the sparse multiplications of the towers above    *)
(* degree 12 AS CODED in src/fpx (C10, field-size sweep): the line-function *)
(* products of the k = 16, 24 and 48 pairings,                             *)
(*   fp24_mul_dxs  (relic_fp24_mul.c)   fp24 = K[z]/(z^3 - w), K = fp8     *)
(*   fp16_mul_dxs  (relic_fp16_mul.c)   fp16 = fp8[z]/(z^2 - y),           *)
(*                                      fp8 = L[y]/(y^2 - v), L = fp4      *)
(*   fp48_mul_dxs  (relic_fp48_mul.c)   fp48 = fp24[t]/(t^2 - z)           *)
(* with their run-time choice between two operand shapes (fpN_is_zero on a *)
(* coefficient of b).  The formulas use only ring operations of the level  *)
(* below and the multiplication by its adjoined root, so they are identities*)
(* of commutative rings: the level below is modelled by Z/p with an         *)
(* arbitrary element w (resp. v) as "non-residue", and the programs are     *)
(* compared with the schoolbook product of the quotient ring on ALL operand *)
(* pairs that satisfy the precondition FpxSpec!DxsPre states.  Outside the  *)
(* precondition the programs are NOT the product (ASSUME: control).         *)
(***************************************************************************)
EXTENDS Integers, TLC
CONSTANTS p, phases
VARIABLES ph, w, a, b

K == 0..(p - 1)
M(x) == x % p
Ad(x, y) == (x + y) % p
Sb(x, y) == (x - y + p) % p
Ml(x, y) == (x * y) % p

(* ---- cubic level over K: K[z]/(z^3 - w) ---- *)
Add3(x, y) == <<Ad(x[1], y[1]), Ad(x[2], y[2]), Ad(x[3], y[3])>>
Sub3(x, y) == <<Sb(x[1], y[1]), Sb(x[2], y[2]), Sb(x[3], y[3])>>
Gen3(x, y, nr) == <<M(x[1] * y[1] + nr * (x[2] * y[3] + x[3] * y[2])),
                    M(x[1] * y[2] + x[2] * y[1] + nr * x[3] * y[3]),
                    M(x[1] * y[3] + x[2] * y[2] + x[3] * y[1])>>
Art3(x, nr) == <<Ml(nr, x[3]), x[1], x[2]>>
(* fp24_mul_dxs as coded *)
Dxs24(x, y, nr) ==
    LET t0 == Ml(x[1], y[1])
        t3 == Ad(x[2], x[3])
        t4 == Ad(x[1], x[2])
    IN  IF y[3] = 0
        THEN LET t1  == Ml(x[2], y[2])
                 t3b == Ad(Ml(nr, Sb(Ml(t3, y[2]), t1)), t0)
                 t2  == Ad(y[1], y[2])
                 c1  == Sb(Sb(Ml(t4, t2), t0), t1)
                 c2  == Ad(Sb(Ml(Ad(x[1], x[3]), y[1]), t0), t1)
             IN  <<t3b, c1, c2>>
        ELSE LET t1  == Ml(x[3], y[3])
                 t3b == Ad(Ml(nr, Sb(Ml(t3, y[3]), t1)), t0)
                 c1  == Ad(Sb(Ml(t4, y[1]), t0), Ml(nr, t1))
                 c2  == Sb(Sb(Ml(Ad(x[1], x[3]), Ad(y[1], y[3])), t0), t1)
             IN  <<t3b, c1, c2>>
Pre24(y) == y[3] = 0 \/ y[2] = 0

(* ---- fp16 = (L[y]/(y^2 - v))[z]/(z^2 - y) ---- *)
Add2(x, y) == <<Ad(x[1], y[1]), Ad(x[2], y[2])>>
Sub2(x, y) == <<Sb(x[1], y[1]), Sb(x[2], y[2])>>
Mul8(x, y, v) == <<M(x[1] * y[1] + v * x[2] * y[2]), M(x[1] * y[2] + x[2] * y[1])>>
Art8(x, v) == <<Ml(v, x[2]), x[1]>>
Gen16(x, y, v) == <<Add2(Mul8(x[1], y[1], v), Art8(Mul8(x[2], y[2], v), v)),
                    Add2(Mul8(x[1], y[2], v), Mul8(x[2], y[1], v))>>
(* fp16_mul_dxs_basic as coded (EP_ADD = PROJC branch of the second shape) *)
Dxs16(x, y, v) ==
    LET t0 == IF y[2][1] = 0 THEN Mul8(x[1], y[1], v)
              ELSE <<Ml(x[1][1], y[1][1]), Ml(x[1][2], y[1][1])>>
        t1 == IF y[2][1] = 0
              THEN LET u0 == Ml(x[2][2], y[2][2])
                       u1 == Sb(Ml(Ad(x[2][1], x[2][2]), y[2][2]), u0)
                   IN  <<Ml(v, u0), u1>>
              ELSE Mul8(x[2], y[2], v)
        t4 == Add2(y[1], y[2])
        c1 == Sub2(Sub2(Mul8(Add2(x[1], x[2]), t4, v), t0), t1)
        c0 == Add2(t0, Art8(t1, v))
    IN  <<c0, c1>>
Pre16(y) == y[2][1] = 0 \/ y[1][2] = 0

(* ---- fp48 = (K[z]/(z^3 - w))[t]/(t^2 - z) ---- *)
Gen48(x, y, nr) == <<Add3(Gen3(x[1], y[1], nr), Art3(Gen3(x[2], y[2], nr), nr)),
                     Add3(Gen3(x[1], y[2], nr), Gen3(x[2], y[1], nr))>>
(* fp48_mul_dxs as coded *)
Dxs48(x, y, nr) ==
    LET t0  == Dxs24(x[1], y[1], nr)
        s   == y[2][2]
        t1  == Art3(<<Ml(x[2][1], s), Ml(x[2][2], s), Ml(x[2][3], s)>>, nr)
        t2  == <<y[1][1], Ad(y[1][2], s), y[1][3]>>
        c1  == Sub3(Sub3(Dxs24(Add3(x[1], x[2]), t2, nr), t0), t1)
        c0  == Add3(t0, Art3(t1, nr))
    IN  <<c0, c1>>
Pre48(y) == y[1][3] = 0 /\ y[2][1] = 0 /\ y[2][3] = 0

El3 == {<<x0, x1, x2>> : x0 \in K, x1 \in K, x2 \in K}
El2 == {<<x0, x1>> : x0 \in K, x1 \in K}
El4 == {<<x, y>> : x \in El2, y \in El2}
El6 == {<<x, y>> : x \in El3, y \in El3}
Sparse(q) ==
    CASE q = "d24" -> {y \in El3 : Pre24(y)}
      [] q = "d16" -> {y \in El4 : Pre16(y)}
      [] q = "d48" -> {<<<<y0, y1, 0>>, <<0, s, 0>>>> : y0 \in K, y1 \in K, s \in K}
Operands(q) == CASE q = "d24" -> El3 [] q = "d16" -> El4 [] q = "d48" -> El6

(* control: the shapes matter - outside the precondition the programs differ from the product *)
ASSUME \E x \in El3, y \in El3 : ~Pre24(y) /\ Dxs24(x, y, 2) # Gen3(x, y, 2)
ASSUME \E x \in El4, y \in El4 : ~Pre16(y) /\ Dxs16(x, y, 2) # Gen16(x, y, 2)

None == <<>>
Init == ph \in phases /\ w \in K /\ a \in Operands(ph) /\ b = None
Pick == b = None /\ b' \in Sparse(ph) /\ UNCHANGED <<ph, w, a>>
Next == Pick
Spec == Init /\ [][Next]_<<ph, w, a, b>>

Check ==
    b # None =>
        CASE ph = "d24" -> Dxs24(a, b, w) = Gen3(a, b, w)
          [] ph = "d16" -> Dxs16(a, b, w) = Gen16(a, b, w)
          [] ph = "d48" -> Dxs48(a, b, w) = Gen48(a, b, w)
=============================================================================
