------------------------------- MODULE BntSpec -------------------------------
(***************************************************************************)
(* Modular and number-theoretic functions of the bn module and the scalar  *)
(* recodings (property C09) at the level of one public call: what each     *)
(* function must return for given operand VALUES.  Events come from        *)
(* harness/drv_bnt.c; objects are raw projections [s, u, d] as in BnSpec,  *)
(* recoding digits are sequences of small integers.                        *)
(* Everything is defined here or in BigNat/BigInt: remainders, powers,     *)
(* inverses, gcd, Jacobi symbol (reciprocity law), primality (BIsPrime),   *)
(* and the digit-set / sparsity / length contracts of the recodings.       *)
(* Relation form is used wherever the result carries its own witness       *)
(* (inverse, square root, Bezout cofactors, lattice vectors, factor).      *)
(***************************************************************************)
EXTENDS BnSpec, Integers

Nat2I(b) == I(FALSE, b)
MagOf(o) == BNorm(o.d)
WBits(e) == 8 * e.w
Done(e)  == e.err = 0 /\ e.code = 0 /\ e.unch
(* the call returned normally with the natural number v in output field o *)
RetN(e, o, v) == Ret(e, o, Nat2I(v))
PosMod(e) == e.m.s = 0 /\ MagOf(e.m) # <<>>
OddPosMod(e) == PosMod(e) /\ BBit(MagOf(e.m), 0) = 1
AbsI(n) == IF n < 0 THEN 0 - n ELSE n

(* Montgomery radix of the modulus as the library fixes it: 2^(W * used(m)) *)
RMont(e) == BShl(<<1>>, WBits(e) * e.m.u)

(* a * R^-1 mod m for odd m *)
MontRed(a, m, R) == IF m = <<1>> THEN <<>> ELSE BMulMod(a, BModInv(BMod(R, m), m), m)

(* the pre-computed constants *)
BarrtConst(e) == BDiv(BShl(<<1>>, 2 * WBits(e) * e.m.u), MagOf(e.m))
IsMontyConst(e) == /\ e.u.s = 0 /\ e.u.u = 1
                   /\ BLow(BAdd(BMul(MagOf(e.u), MagOf(e.m)), <<1>>), WBits(e)) = <<>>
PmersConst(e) == BSub(BShl(<<1>>, BBits(MagOf(e.m))), MagOf(e.m))

(***************************************************************************)
(* exponentiation: a^b mod m; a negative exponent denotes the power of the *)
(* inverse, defined only when the base is a unit.  NoVal = undefined       *)
(***************************************************************************)
NoVal == <<0 - 1>>
MxpVal(a, b, m) ==
    IF m = <<1>> THEN <<>>
    ELSE LET p == BModExp(IModPos(a, m), b.mag, m) IN
         IF ~b.neg THEN p
         ELSE IF BGcd(p, m) = <<1>> THEN BModInv(p, m) ELSE NoVal

MxpAccept(e, b) ==
    LET m == MagOf(e.m)
        v == MxpVal(Val(e.a), b, m)
    IN  IF ~PosMod(e) THEN TRUE                      \* not driven
        ELSE IF v = NoVal THEN MustThrow(e)
        ELSE \/ RetN(e, e.c, v)
             \* Montgomery builds do not admit even moduli: must be reported
             \/ (e.bnmod = "monty" /\ BBit(m, 0) = 0 /\ m # <<1>> /\ ~IIsZero(b) /\ MustThrow(e))

(***************************************************************************)
(* Jacobi symbol by the reciprocity law; n odd and positive                *)
(***************************************************************************)
RECURSIVE JacR(_, _, _)
JacR(a, n, s) ==
    LET r == BMod(a, n) IN
    IF r = <<>> THEN (IF n = <<1>> THEN s ELSE 0)
    ELSE IF BBit(r, 0) = 0
         THEN LET n8 == BToNat(BLow(n, 3)) IN
              JacR(BShr(r, 1), n, IF n8 = 3 \/ n8 = 5 THEN 0 - s ELSE s)
         ELSE LET flip == BToNat(BLow(r, 2)) = 3 /\ BToNat(BLow(n, 2)) = 3 IN
              JacR(n, r, IF flip THEN 0 - s ELSE s)
Jacobi(a, n) == JacR(a, n, 1)

(* Legendre symbol by Euler's criterion; p an odd prime *)
Euler(a, p) == LET x == BModExp(a, BShr(BSub(p, <<1>>), 1), p) IN
               IF x = <<>> THEN 0 ELSE IF x = <<1>> THEN 1 ELSE IF x = BSub(p, <<1>>) THEN 0 - 1 ELSE 2

(* strong pseudoprimality of n to base b, by the definition (n odd, n > 2) *)
RECURSIVE TwoAdic(_, _)
TwoAdic(d, s) == IF BBit(d, 0) = 1 THEN <<d, s>> ELSE TwoAdic(BShr(d, 1), s + 1)
RECURSIVE SpspLoop(_, _, _)
SpspLoop(x, n, r) == IF r = 0 THEN FALSE
                     ELSE IF x = BSub(n, <<1>>) THEN TRUE
                     ELSE SpspLoop(BMulMod(x, x, n), n, r - 1)
StrongPsp(n, b) == LET ds == TwoAdic(BSub(n, <<1>>), 0)
                       x  == BModExp(b, ds[1], n)
                   IN  x = <<1>> \/ SpspLoop(x, n, ds[2])

(***************************************************************************)
(* trial division bound of bn_is_prime_basic: the table of small primes    *)
(* ends at 223 in 8-bit builds and at 3671 otherwise                       *)
(***************************************************************************)
TrialBound(e) == IF e.w = 1 THEN 223 ELSE 3671
HasSmallDivisor(a, T) == \E d \in 2..T : BFromNat(d) # a /\ BMod(a, BFromNat(d)) = <<>>

(***************************************************************************)
(* polynomials over Z/m: coefficient sequences, lowest degree first        *)
(***************************************************************************)
PolyCoef(p, j) == IF j >= 1 /\ j <= Len(p) THEN p[j] ELSE <<>>
(* p(x) * (x - r) mod m, built as an explicit tuple.  The bounded quantifier *)
(* in PolyRoots binds p to an evaluated value (TLC would otherwise re-       *)
(* evaluate the recursive argument at every use).                            *)
RECURSIVE PolyMulLinR(_, _, _, _)
PolyMulLinR(p, r, m, j) ==
    IF j > Len(p) + 1 THEN <<>>
    ELSE <<BSubMod(PolyCoef(p, j - 1), BMulMod(PolyCoef(p, j), r, m), m)>> \o PolyMulLinR(p, r, m, j + 1)
RECURSIVE PolyRoots(_, _, _)
PolyRoots(as, i, m) ==
    IF i = 0 THEN <<BMod(<<1>>, m)>>
    ELSE CHOOSE q \in {PolyMulLinR(p, IModPos(Val(as[i]), m), m, 1) : p \in {PolyRoots(as, i - 1, m)}} : TRUE
RECURSIVE ProdPow(_, _, _, _)
ProdPow(as, bs, j, m) == IF j > Len(as) THEN BMod(<<1>>, m)
                         ELSE BMulMod(BModExp(IModPos(Val(as[j]), m), BNorm(bs[j].d), m), ProdPow(as, bs, j + 1, m), m)
RECURSIVE HornerEval(_, _, _, _)
HornerEval(as, j, x, m) == IF j > Len(as) THEN <<>>
                           ELSE BAddMod(IModPos(Val(as[j]), m), BMulMod(HornerEval(as, j + 1, x, m), x, m), m)

(***************************************************************************)
(* recodings                                                               *)
(***************************************************************************)
(* sum of ds[i] * 2^((i-1)*s) as a signed integer *)
RECURSIVE DigSumR(_, _, _, _)
DigSumR(ds, s, i, acc) == IF i = 0 THEN acc
                          ELSE DigSumR(ds, s, i - 1, IAdd(IShl(acc, s), IFromInt(ds[i])))
DigSum(ds, s) == DigSumR(ds, s, Len(ds), IZero)

Ceil(a, b) == (a + b - 1) \div b
OddInt(d) == d % 2 = 1
BitLenNat(d) == BitLen8(d)

(* sliding-window sequence, most significant first: a zero entry stands for *)
(* one zero bit, a non-zero entry for itself on as many bits as it is long  *)
RECURSIVE SlwValR(_, _, _)
SlwValR(ds, i, acc) == IF i > Len(ds) THEN acc
                       ELSE IF ds[i] = 0 THEN SlwValR(ds, i + 1, BShl(acc, 1))
                       ELSE SlwValR(ds, i + 1, BAdd(BShl(acc, BitLenNat(ds[i])), BFromNat(ds[i])))
SlwVal(ds) == SlwValR(ds, 1, <<>>)

NonAdjacent(ds, w) == \A i \in 1..Len(ds) : ds[i] # 0 =>
                         \A j \in (i + 1)..(IF i + w - 1 < Len(ds) THEN i + w - 1 ELSE Len(ds)) : ds[j] = 0

(* what every recoding event must satisfy when it did not throw *)
RecDone(e) == e.err = 0 /\ e.code = 0 /\ e.unch /\ ~e.ovf /\ e.len = Len(e.ds) /\ e.len <= e.rcap
(* a capacity error: admissible only when the capacity is below `need`; nothing written outside *)
RecThrown(e, need) == e.err # 0 /\ e.code = 1 /\ e.unch /\ ~e.ovf /\ e.rcap < need

KMag(e) == MagOf(e.k)

RecWinAccept(e) ==
    LET k == KMag(e)  w == e.rw  need == Ceil(BBits(k), w) IN
    IF k = <<>> THEN (RecThrown(e, e.rcap + 1) \/ (RecDone(e) /\ \A i \in 1..Len(e.ds) : e.ds[i] = 0))
    ELSE \/ RecThrown(e, need)
         \/ /\ RecDone(e)
            /\ e.len = need
            /\ \A i \in 1..Len(e.ds) : e.ds[i] >= 0 /\ e.ds[i] < Pow2(w)
            /\ IEq(DigSum(e.ds, w), Nat2I(k))

RecSlwAccept(e) ==
    LET k == KMag(e)  w == e.rw IN
    IF k = <<>> THEN (RecThrown(e, e.rcap + 1) \/ (RecDone(e) /\ \A i \in 1..Len(e.ds) : e.ds[i] = 0))
    ELSE \/ RecThrown(e, BBits(k))
         \/ /\ RecDone(e)
            /\ e.len <= BBits(k)
            /\ \A i \in 1..Len(e.ds) : e.ds[i] = 0 \/ (OddInt(e.ds[i]) /\ e.ds[i] > 0 /\ e.ds[i] < Pow2(w))
            /\ e.len >= 1 /\ e.ds[1] # 0
            /\ SlwVal(e.ds) = k

RecNafAccept(e) ==
    LET k == KMag(e)  w == e.rw IN
    \/ RecThrown(e, BBits(k) + 1)
    \/ /\ RecDone(e)
       /\ e.len <= BBits(k) + 1
       /\ \A i \in 1..Len(e.ds) : e.ds[i] = 0 \/ (OddInt(e.ds[i]) /\ AbsI(e.ds[i]) < Pow2(w - 1))
       /\ NonAdjacent(e.ds, w)
       /\ (e.len > 0 => e.ds[e.len] # 0)
       /\ IEq(DigSum(e.ds, 1), Nat2I(k))

(* regular recoding: fixed length ceil(n/(w-1)) + 1, base 2^(w-1); for an odd *)
(* scalar below 2^n every digit is odd (hence non-zero) and the top one is 1 *)
RecRegAccept(e) ==
    LET k == KMag(e)  w == e.rw  l == Ceil(e.n, w - 1) IN
    IF BBits(k) > e.n \/ k = <<>> THEN TRUE          \* outside the contract, not driven
    ELSE \/ RecThrown(e, l + 1)
         \/ /\ RecDone(e)
            /\ e.len = l + 1
            /\ IEq(DigSum(e.ds, w - 1), Nat2I(k))
            /\ \A i \in 1..l : e.ds[i] >= 0 - Pow2(w - 1) /\ e.ds[i] < Pow2(w - 1)
            /\ (BBit(k, 0) = 1 =>
                   /\ \A i \in 1..l : OddInt(e.ds[i]) /\ AbsI(e.ds[i]) < Pow2(w - 1)
                   /\ e.ds[l + 1] = 1)

ZeroCol(e, j) == e.ds[j] = 0 /\ e.es[j] = 0
JsfRows(x, y) ==
    \A j \in 1..(Len(x) - 1) :
        /\ x[j + 1] * x[j] # 0 - 1
        /\ (x[j + 1] * x[j] # 0 => (y[j + 1] # 0 /\ y[j] = 0))
RecJsfAccept(e) ==
    LET k == KMag(e)  l == MagOf(e.l)
        mb == IF BBits(k) >= BBits(l) THEN BBits(k) ELSE BBits(l)
    IN
    \/ RecThrown(e, 2 * (mb + 1))
    \/ /\ RecDone(e) /\ Len(e.es) = e.len
       /\ e.off = mb + 1 /\ e.len <= mb + 1
       /\ \A j \in 1..e.len : e.ds[j] \in {0 - 1, 0, 1} /\ e.es[j] \in {0 - 1, 0, 1}
       /\ IEq(DigSum(e.ds, 1), Nat2I(k))
       /\ IEq(DigSum(e.es, 1), Nat2I(l))
       /\ \A j \in 1..(e.len - 2) : ZeroCol(e, j) \/ ZeroCol(e, j + 1) \/ ZeroCol(e, j + 2)
       /\ JsfRows(e.ds, e.es) /\ JsfRows(e.es, e.ds)
       /\ (e.len > 0 => ~ZeroCol(e, e.len))

(* GLV: k = k0 + k1 * lambda (mod n) for a primitive cube root of unity lambda *)
(* modulo the group order; both halves about half as long as n               *)
RecGlvAccept(e) ==
    LET n == MagOf(e.n)  lam == MagOf(e.lam)  k == KMag(e)
        lam2 == BMulMod(lam, lam, n)
        k0 == Val(e.c)  k1 == Val(e.d)
        Rep(x) == IModPos(IAdd(k0, IMul(k1, Nat2I(x))), n) = BMod(k, n)
        half == (BBits(n) + 1) \div 2
    IN  IF e.skip = 1 THEN TRUE
        ELSE IF ~(BLt(<<1>>, lam) /\ BLt(lam, n) /\ BMod(BAdd(BAdd(lam2, lam), <<1>>), n) = <<>> /\ BLt(k, n))
             THEN TRUE                                \* not a valid case
        ELSE /\ Done(e) /\ Normal(e.c, e.w) /\ Normal(e.d, e.w)
             /\ (Rep(lam) \/ Rep(lam2))
             /\ BBits(k0.mag) <= half + 2 /\ BBits(k1.mag) <= half + 2

(* Frobenius basis: cof = 0 - signed digits in base x (every digit below |x| in magnitude, sum k_i x^i = k, for  *)
(* |k| < |x|^sub); cof = 1 - the Barreto-Naehrig lattice: n = 36x^4 + 36x^3 + 18x^2 + 6x + 1, eigenvalue 6x^2,   *)
(* sum k_i (6x^2)^i = k (mod n) with sub-scalars about a quarter as long as n                                     *)
RECURSIVE IPowI(_, _)
IPowI(x, j) == IF j = 0 THEN IOne ELSE IMul(x, IPowI(x, j - 1))
RECURSIVE FrbSum(_, _, _)
FrbSum(e, b, i) == IF i > e.sub THEN IZero ELSE IAdd(IMul(Val(e.ki[i]), IPowI(b, i - 1)), FrbSum(e, b, i + 1))
BnOrderOf(x) == LET x2 == IMul(x, x) IN
    IAdd(IAdd(IAdd(IAdd(IMul(IFromNat(36), IMul(x2, x2)), IMul(IFromNat(36), IMul(x2, x))), IMul(IFromNat(18), x2)),
              IMul(IFromNat(6), x)), IOne)
RecFrbAccept(e) ==
    LET k == Val(e.k)  x == Val(e.x)  n == MagOf(e.n) IN
    IF e.cof = 0
    THEN IF ~(BLt(<<1>>, x.mag) /\ BLt(k.mag, IPowI(IAbs(x), e.sub).mag)) THEN TRUE       \* outside the domain
         ELSE /\ Done(e) /\ Len(e.ki) = e.sub
              /\ \A i \in 1..e.sub : Normal(e.ki[i], e.w) /\ BLt(Val(e.ki[i]).mag, x.mag)
              /\ IEq(FrbSum(e, x, 1), k)
    ELSE IF ~(e.sub = 4 /\ BLt(<<1>>, x.mag) /\ IEq(BnOrderOf(x), Nat2I(n))) THEN TRUE
         ELSE /\ Done(e) /\ Len(e.ki) = 4
              /\ \A i \in 1..4 : Normal(e.ki[i], e.w) /\ BBits(Val(e.ki[i]).mag) <= BBits(x.mag) + 3
              /\ IModPos(FrbSum(e, IMul(IFromNat(6), IMul(x, x)), 1), n) = IModPos(k, n)

(***************************************************************************)
(* gcd with cofactors                                                      *)
(***************************************************************************)
Bezout(c, d, e, a, b) == IEq(c, IAdd(IMul(d, a), IMul(e, b)))
GcdExtAccept(ev, b) ==
    LET a == Val(ev.a) IN
    /\ Ret(ev, ev.c, IGcd(a, b))
    /\ Normal(ev.d, ev.w) /\ Normal(ev.e, ev.w)
    /\ Bezout(Val(ev.c), Val(ev.d), Val(ev.e), a, b)

(* bn_gcd_ext_mid: two independent vectors (c, d), (e, f) of the lattice    *)
(* { (x, y) : x + y*a = 0 (mod b) } spanning it (determinant +-b), the first *)
(* with both components at most sqrt(2b); driven for 1 < a < b coprime       *)
GcdMidAccept(ev) ==
    LET a == Val(ev.a)  b == Val(ev.b)
        c == Val(ev.c)  d == Val(ev.d)  e == Val(ev.e)  f == Val(ev.f)
        InLat(x, y) == IModPos(IAdd(x, IMul(y, a)), b.mag) = <<>>
        det == ISub(IMul(c, f), IMul(d, e))
        short(x) == BLe(BMul(x.mag, x.mag), BShl(b.mag, 1))    \* |x| <= sqrt(2b): the code stops at floor(sqrt(b))
    IN  IF a.neg \/ b.neg \/ ~BLt(<<1>>, a.mag) \/ ~BLt(a.mag, b.mag) \/ BGcd(a.mag, b.mag) # <<1>>
           \/ BLt(b.mag, <<32>>) \/ BLe(BMul(a.mag, a.mag), BShl(b.mag, 1))     \* a itself already short: not driven
        THEN TRUE
        ELSE /\ Done(ev)
             /\ InLat(c, d) /\ InLat(e, f)
             /\ det.mag = b.mag
             /\ short(c) /\ short(d)                     \* the first vector is short by construction

(***************************************************************************)
(* the acceptance relation                                                 *)
(***************************************************************************)
BntAccept(e) ==
    CASE e.op = "bn_mod_basic" ->
            IF IIsZero(Val(e.m)) THEN MustThrow(e)
            ELSE Ret(e, e.c, IFloorMod(Val(e.a), Val(e.m)))
      [] e.op = "bn_mod_barrt" ->
            IF ~PosMod(e) THEN e.perr # 0
            ELSE /\ e.perr = 0 /\ e.u.s = 0 /\ MagOf(e.u) = BarrtConst(e)
                 /\ \/ RetN(e, e.c, IModPos(Val(e.a), MagOf(e.m)))
                    \* the quotient estimate (a div B^(k-1)) * u must fit the physical capacity
                    \/ /\ MustThrow(e)
                       /\ DigitsOf(Val(e.a), e.w) <= 2 * e.m.u
                       /\ (DigitsOf(Val(e.a), e.w) - e.m.u + 1) + DigitsOf(Val(e.u), e.w) > e.cap
      [] e.op \in {"bn_mod_monty_basic", "bn_mod_monty_comba"} ->
            IF ~OddPosMod(e) THEN e.perr # 0
            ELSE /\ e.perr = 0 /\ IsMontyConst(e)
                 /\ LET a == Val(e.a)  m == MagOf(e.m) IN
                    IF a.neg \/ ~BLt(a.mag, BMul(m, RMont(e))) THEN TRUE    \* outside the operand range
                    ELSE RetN(e, e.c, MontRed(a.mag, m, RMont(e)))
      [] e.op = "bn_mod_pmers" ->
            IF ~PosMod(e) THEN e.perr # 0
            ELSE /\ e.perr = 0 /\ e.u.s = 0 /\ MagOf(e.u) = PmersConst(e)
                 /\ RetN(e, e.c, IModPos(Val(e.a), MagOf(e.m)))
      [] e.op = "bn_mod_monty_conv" ->
            IF ~OddPosMod(e) THEN MustThrow(e)
            ELSE LET m == MagOf(e.m) IN
                 RetN(e, e.c, BMulMod(IModPos(Val(e.a), m), BMod(RMont(e), m), m))
      [] e.op = "bn_mod_monty_back" ->
            IF ~OddPosMod(e) THEN MustThrow(e)
            ELSE LET a == Val(e.a)  m == MagOf(e.m) IN
                 IF a.neg \/ ~BLt(a.mag, BMul(m, RMont(e))) THEN TRUE
                 ELSE RetN(e, e.c, MontRed(a.mag, m, RMont(e)))
      [] e.op \in {"bn_mxp_basic", "bn_mxp_slide", "bn_mxp_monty"} -> MxpAccept(e, Val(e.b))
      [] e.op = "bn_mxp_dig" -> MxpAccept(e, DigVal(e))
      [] e.op = "bn_mxp_sim" ->
            LET m == MagOf(e.m)  b == Val(e.b)  x == Val(e.e) IN
            IF ~PosMod(e) \/ b.neg \/ x.neg THEN TRUE
            ELSE LET v == IF m = <<1>> THEN <<>>
                          ELSE BMulMod(BModExp(IModPos(Val(e.a), m), b.mag, m),
                                       BModExp(IModPos(Val(e.d), m), x.mag, m), m)
                 IN  \/ RetN(e, e.c, v)
                     \/ (e.bnmod = "monty" /\ BBit(m, 0) = 0 /\ MustThrow(e))
      [] e.op = "bn_mxp_sim_lot" ->
            \* c = prod a_i^b_i mod m for every number of terms (the routine works through the terms in blocks of eight)
            LET m == MagOf(e.m) IN
            IF ~PosMod(e) \/ e.n = 0 \/ (\E j \in 1..e.n : e.bs[j].s = 1) THEN TRUE
            ELSE LET v == IF m = <<1>> THEN <<>> ELSE ProdPow(e.as, e.bs, 1, m)
                 IN  \/ RetN(e, e.c, v)
                     \/ (e.bnmod = "monty" /\ BBit(m, 0) = 0 /\ MustThrow(e))
      [] e.op = "bn_mxp_crt" ->
            LET p == MagOf(e.p)  q == MagOf(e.q)  a == Val(e.a)  b == Val(e.b)  x == Val(e.e) IN
            IF e.p.s = 1 \/ e.q.s = 1 \/ ~BLt(<<2>>, p) \/ ~BLt(<<2>>, q) \/ BBit(p, 0) = 0 \/ BBit(q, 0) = 0
               \/ b.neg \/ x.neg \/ e.qi.s = 1 \/ BMulMod(MagOf(e.qi), q, p) # <<1>> THEN TRUE
            ELSE /\ Done(e) /\ Normal(e.c, e.w) /\ e.c.s = 0
                 /\ BLt(MagOf(e.c), BMul(p, q))
                 /\ BMod(MagOf(e.c), p) = BModExp(IModPos(a, p), b.mag, p)
                 /\ BMod(MagOf(e.c), q) = BModExp(IModPos(a, q), x.mag, q)
      [] e.op = "bn_mod_inv" ->
            LET a == Val(e.a)  m == MagOf(e.m) IN
            IF ~PosMod(e) \/ m = <<1>> THEN TRUE
            ELSE IF BGcd(a.mag, m) # <<1>> THEN MustThrow(e)
            ELSE /\ Done(e) /\ Normal(e.c, e.w) /\ e.c.s = 0 /\ BLt(MagOf(e.c), m)
                 /\ IModPos(IMul(a, Val(e.c)), m) = <<1>>
      [] e.op = "bn_mod_inv_sim" ->
            LET m == MagOf(e.m) IN
            IF ~PosMod(e) \/ m = <<1>> \/ e.n = 0 THEN TRUE
            ELSE IF \E i \in 1..e.n : BGcd(MagOf(e.as[i]), m) # <<1>> THEN MustThrow(e)
            ELSE /\ Done(e) /\ Len(e.cs) = e.n
                 /\ \A i \in 1..e.n :
                       /\ Normal(e.cs[i], e.w) /\ e.cs[i].s = 0 /\ BLt(MagOf(e.cs[i]), m)
                       /\ IModPos(IMul(Val(e.as[i]), Val(e.cs[i])), m) = <<1>>
      [] e.op \in {"bn_gcd_basic", "bn_gcd_lehme", "bn_gcd_binar"} ->
            Ret(e, e.c, IGcd(Val(e.a), Val(e.b)))
      [] e.op = "bn_gcd_dig" -> Ret(e, e.c, IGcd(Val(e.a), DigVal(e)))
      [] e.op = "bn_lcm" ->
            LET a == Val(e.a)  b == Val(e.b) IN
            IF IIsZero(a) /\ IIsZero(b) THEN (Ret(e, e.c, IZero) \/ MustThrow(e))
            ELSE RetOrPreci(e, e.c, Nat2I(BDiv(BMul(a.mag, b.mag), BGcd(a.mag, b.mag))), 2 * e.digs)
      [] e.op \in {"bn_gcd_ext_basic", "bn_gcd_ext_lehme", "bn_gcd_ext_binar"} -> GcdExtAccept(e, Val(e.b))
      [] e.op = "bn_gcd_ext_dig" -> GcdExtAccept(e, DigVal(e))
      [] e.op = "bn_gcd_ext_mid" -> GcdMidAccept(e)
      [] e.op = "bn_smb_leg" ->
            LET b == Val(e.b) IN
            IF b.neg THEN MustThrow(e)
            ELSE IF ~(BLt(<<2>>, b.mag) /\ BIsPrime(b.mag)) THEN TRUE    \* defined for odd primes only
            ELSE Done(e) /\ e.ret = Euler(IModPos(Val(e.a), b.mag), b.mag)
      [] e.op = "bn_smb_jac" ->
            LET b == Val(e.b) IN
            IF b.neg \/ BBit(b.mag, 0) = 0 THEN MustThrow(e)
            ELSE Done(e) /\ e.ret = Jacobi(IModPos(Val(e.a), b.mag), b.mag)
      [] e.op = "bn_srt" ->
            LET a == Val(e.a)  c == MagOf(e.c) IN
            IF a.neg THEN MustThrow(e)
            ELSE /\ Done(e) /\ Normal(e.c, e.w) /\ e.c.s = 0
                 /\ BLe(BMul(c, c), a.mag)
                 /\ BLt(a.mag, BMul(BAdd(c, <<1>>), BAdd(c, <<1>>)))
      [] e.op \in {"bn_is_prime", "bn_is_prime_rabin"} ->
            LET a == Val(e.a) IN
            Done(e) /\ e.ret = (IF ~a.neg /\ BIsPrime(a.mag) THEN 1 ELSE 0)
      [] e.op = "bn_is_prime_solov" ->
            LET a == Val(e.a) IN
            IF a.neg \/ ~BLt(<<2>>, a.mag) THEN TRUE                     \* documented for a > 2
            ELSE \/ Done(e) /\ e.ret = (IF BIsPrime(a.mag) THEN 1 ELSE 0)
                 \/ (BBit(a.mag, 0) = 0 /\ MustThrow(e))                  \* even: reported as invalid
      [] e.op = "bn_is_prime_basic" ->
            LET a == Val(e.a) IN
            IF a.neg THEN TRUE
            ELSE /\ Done(e) /\ e.ret \in {0, 1}
                 /\ (BIsPrime(a.mag) => e.ret = 1)
                 /\ (BLe(a.mag, <<1>>) => e.ret = 0)
                 /\ (HasSmallDivisor(a.mag, TrialBound(e)) => e.ret = 0)
      [] e.op \in {"bn_gen_prime_basic", "bn_gen_prime_stron"} ->
            /\ Done(e) /\ Normal(e.c, e.w) /\ e.c.s = 0
            /\ BBits(MagOf(e.c)) = e.bits /\ BIsPrime(MagOf(e.c))
      [] e.op = "bn_gen_prime_safep" ->
            /\ Done(e) /\ Normal(e.c, e.w) /\ e.c.s = 0
            /\ BBits(MagOf(e.c)) = e.bits /\ BIsPrime(MagOf(e.c))
            /\ BIsPrime(BShr(BSub(MagOf(e.c), <<1>>), 1))
      [] e.op = "bn_factor" ->
            LET a == Val(e.a)  c == MagOf(e.c) IN
            IF a.neg \/ BLe(a.mag, <<3>>) THEN TRUE
            ELSE /\ Done(e) /\ e.ret \in {0, 1}
                 /\ (BBit(a.mag, 0) = 0 => e.ret = 1)
                 /\ (e.ret = 1 => /\ Normal(e.c, e.w) /\ e.c.s = 0
                                  /\ BLt(<<1>>, c) /\ BLt(c, a.mag) /\ BMod(a.mag, c) = <<>>)
      [] e.op = "bn_is_factor" ->
            IF IIsZero(Val(e.a)) THEN MustThrow(e)
            ELSE Done(e) /\ e.ret = (IF IDivides(Val(e.a), Val(e.b)) THEN 1 ELSE 0)
      [] e.op = "bn_lag" ->
            LET m == MagOf(e.m) IN
            IF ~PosMod(e) \/ e.n = 0 THEN TRUE
            ELSE \E p \in {PolyRoots(e.as, e.n, m)} :
                 /\ Done(e) /\ Len(e.cs) = e.n + 1
                 /\ \A j \in 1..(e.n + 1) : Normal(e.cs[j], e.w) /\ IModPos(Val(e.cs[j]), m) = p[j]
      [] e.op = "bn_evl" ->
            LET m == MagOf(e.m) IN
            IF ~PosMod(e) THEN TRUE
            ELSE RetN(e, e.c, HornerEval(e.as, 1, IModPos(Val(e.x), m), m))
      [] e.op = "bn_rec_win" -> RecWinAccept(e)
      [] e.op = "bn_rec_slw" -> RecSlwAccept(e)
      [] e.op = "bn_rec_naf" -> RecNafAccept(e)
      [] e.op = "bn_rec_reg" -> RecRegAccept(e)
      [] e.op = "bn_rec_jsf" -> RecJsfAccept(e)
      [] e.op = "bn_rec_glv" -> RecGlvAccept(e)
      [] e.op = "bn_rec_frb" -> RecFrbAccept(e)
      [] OTHER -> FALSE

(***************************************************************************)
(* Known findings (see BnSpec): op + input class + the exact wrong outcome *)
(***************************************************************************)
HasField(e, f) == f \in DOMAIN e

BntKnownKey(e) ==
    CASE e.op = "bn_mod_barrt" /\ PosMod(e) /\ e.perr = 0 /\ e.a.s = 1 /\ MagOf(e.a) # <<>>
              /\ BLt(MagOf(e.a), MagOf(e.m)) /\ Ret(e, e.c, Val(e.a))
            -> "C09-barrt-negative-below-modulus"
      [] e.op \in {"bn_mod_pmers", "bn_mod_barrt"} /\ PosMod(e) /\ e.perr = 0 /\ e.a.s = 1 /\ MagOf(e.a) # <<>>
              /\ BMod(MagOf(e.a), MagOf(e.m)) = <<>> /\ Ret(e, e.c, Val(e.m))
            -> "C09-modred-negative-multiple"
      [] e.op = "bn_mod_inv" /\ PosMod(e) /\ MagOf(e.m) # <<1>> /\ e.a.s = 1
              /\ BGcd(MagOf(e.a), MagOf(e.m)) = <<1>>
              /\ Done(e) /\ Normal(e.c, e.w) /\ e.c.s = 0 /\ BLt(MagOf(e.c), MagOf(e.m))
              /\ BMulMod(MagOf(e.a), MagOf(e.c), MagOf(e.m)) = <<1>>
            -> "C09-modinv-negative-operand"
      [] e.op \in {"bn_gcd_ext_basic", "bn_gcd_ext_binar", "bn_gcd_ext_lehme"}
              /\ (e.a.s = 1 \/ e.b.s = 1)
              /\ Ret(e, e.c, IGcd(Val(e.a), Val(e.b)))
              /\ (e.op = "bn_gcd_ext_lehme"
                    \/ Bezout(Val(e.c), Val(e.d), Val(e.e), IAbs(Val(e.a)), IAbs(Val(e.b))))
            -> "C09-gcdext-negative-operand"
      [] e.op = "bn_gcd_ext_dig" /\ e.a.s = 1
              /\ Ret(e, e.c, IGcd(Val(e.a), DigVal(e)))
              /\ Bezout(Val(e.c), Val(e.d), Val(e.e), IAbs(Val(e.a)), DigVal(e))
            -> "C09-gcdext-negative-operand"
      [] e.op = "bn_gcd_ext_binar" /\ MagOf(e.a) # <<>> /\ MagOf(e.b) # <<>>
              /\ BMod(MagOf(e.a), MagOf(e.b)) = <<>> /\ MustThrow(e)
            -> "C09-gcdext-binar-second-divides-first"
      [] e.op = "CRASH" /\ HasField(e, "in") /\ e.in = "bn_rec_win" /\ e.kb >= 1 /\ e.kb < e.rw
            -> "C09-recwin-scalar-shorter-than-window"
      [] e.op = "bn_gen_prime_stron" /\ Done(e) /\ Normal(e.c, e.w) /\ e.c.s = 0
              /\ BIsPrime(MagOf(e.c)) /\ BBits(MagOf(e.c)) < e.bits
            -> "C09-genprime-stron-short"
      [] e.op \in {"bn_is_prime", "bn_is_prime_rabin"} /\ e.a.s = 0 /\ BBits(MagOf(e.a)) >= 850
              /\ BBit(MagOf(e.a), 0) = 1 /\ Done(e) /\ e.ret = 1 /\ ~BIsPrime(MagOf(e.a))
              /\ StrongPsp(MagOf(e.a), <<2>>) /\ StrongPsp(MagOf(e.a), <<3>>) /\ StrongPsp(MagOf(e.a), <<5>>)
            -> "C09-isprime-fixed-bases-strong-pseudoprime"
      [] e.op = "bn_rec_jsf" /\ e.err = 0 /\ e.ovf
              /\ BBits(MagOf(e.l)) > BBits(KMag(e)) /\ e.rcap >= 2 * BBits(KMag(e)) + 1
              /\ e.rcap < 2 * (BBits(MagOf(e.l)) + 1)
            -> "C09-recjsf-capacity-check-first-scalar-only"
      [] e.op = "bn_smb_jac" /\ e.w <= 2 /\ e.bnmod # "" /\ e.b.s = 0 /\ BBit(MagOf(e.b), 0) = 1
              /\ Done(e) /\ e.ret \in {0 - 1, 0, 1}
            -> "C09-arch-tzcnt-small-digits"
      [] e.op = "bn_is_prime_solov" /\ e.w <= 2 /\ e.a.s = 0 /\ BBit(MagOf(e.a), 0) = 1
              /\ Done(e) /\ e.ret = 0 /\ BIsPrime(MagOf(e.a))
            -> "C09-arch-tzcnt-small-digits"
      [] OTHER -> ""
=============================================================================
