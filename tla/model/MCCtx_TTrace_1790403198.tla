---- MODULE MCCtx_TTrace_1790403198 ----
EXTENDS Sequences, TLCExt, Toolbox, Naturals, TLC, MCCtx

_expression ==
    LET MCCtx_TEExpression == INSTANCE MCCtx_TEExpression
    IN MCCtx_TEExpression!expression
----

_trace ==
    LET MCCtx_TETrace == INSTANCE MCCtx_TETrace
    IN MCCtx_TETrace!trace
----

_inv ==
    ~(
        TLCGet("level") = Len(_TETrace)
        /\
        cur = ([t1 |-> "c2", t2 |-> "c1"])
        /\
        pc = ([t1 |-> <<"sel", "P", "curve">>, t2 |-> "idle"])
        /\
        ctx = ([c1 |-> [param |-> "none", tag |-> [mont |-> "none", roots |-> "none", tower |-> "none", curve |-> "none", gentab |-> "none", map |-> "none", glv |-> "none", twist |-> "none", gt |-> "none"]], c2 |-> [param |-> "none", tag |-> [mont |-> "P", roots |-> "P", tower |-> "P", curve |-> "none", gentab |-> "none", map |-> "none", glv |-> "none", twist |-> "none", gt |-> "none"]], c3 |-> [param |-> "none", tag |-> [mont |-> "none", roots |-> "none", tower |-> "none", curve |-> "none", gentab |-> "none", map |-> "none", glv |-> "none", twist |-> "none", gt |-> "none"]]])
        /\
        prevCtx = ([c1 |-> [param |-> "none", tag |-> [mont |-> "none", roots |-> "none", tower |-> "none", curve |-> "none", gentab |-> "none", map |-> "none", glv |-> "none", twist |-> "none", gt |-> "none"]], c2 |-> [param |-> "none", tag |-> [mont |-> "none", roots |-> "none", tower |-> "none", curve |-> "none", gentab |-> "none", map |-> "none", glv |-> "none", twist |-> "none", gt |-> "none"]], c3 |-> [param |-> "none", tag |-> [mont |-> "none", roots |-> "none", tower |-> "none", curve |-> "none", gentab |-> "none", map |-> "none", glv |-> "none", twist |-> "none", gt |-> "none"]]])
        /\
        lastActor = ("t1")
        /\
        steps = (1)
    )
----

_init ==
    /\ lastActor = _TETrace[1].lastActor
    /\ ctx = _TETrace[1].ctx
    /\ steps = _TETrace[1].steps
    /\ prevCtx = _TETrace[1].prevCtx
    /\ cur = _TETrace[1].cur
    /\ pc = _TETrace[1].pc
----

_next ==
    /\ \E i,j \in DOMAIN _TETrace:
        /\ \/ /\ j = i + 1
              /\ i = TLCGet("level")
        /\ lastActor  = _TETrace[i].lastActor
        /\ lastActor' = _TETrace[j].lastActor
        /\ ctx  = _TETrace[i].ctx
        /\ ctx' = _TETrace[j].ctx
        /\ steps  = _TETrace[i].steps
        /\ steps' = _TETrace[j].steps
        /\ prevCtx  = _TETrace[i].prevCtx
        /\ prevCtx' = _TETrace[j].prevCtx
        /\ cur  = _TETrace[i].cur
        /\ cur' = _TETrace[j].cur
        /\ pc  = _TETrace[i].pc
        /\ pc' = _TETrace[j].pc

\* Uncomment the ASSUME below to write the states of the error trace
\* to the given file in Json format. Note that you can pass any tuple
\* to `JsonSerialize`. For example, a sub-sequence of _TETrace.
    \* ASSUME
    \*     LET J == INSTANCE Json
    \*         IN J!JsonSerialize("MCCtx_TTrace_1790403198.json", _TETrace)

=============================================================================

 Note that you can extract this module `MCCtx_TEExpression`
  to a dedicated file to reuse `expression` (the module in the 
  dedicated `MCCtx_TEExpression.tla` file takes precedence 
  over the module `MCCtx_TEExpression` below).

---- MODULE MCCtx_TEExpression ----
EXTENDS Sequences, TLCExt, Toolbox, Naturals, TLC, MCCtx

expression == 
    [
        \* To hide variables of the `MCCtx` spec from the error trace,
        \* remove the variables below.  The trace will be written in the order
        \* of the fields of this record.
        lastActor |-> lastActor
        ,ctx |-> ctx
        ,steps |-> steps
        ,prevCtx |-> prevCtx
        ,cur |-> cur
        ,pc |-> pc
        
        \* Put additional constant-, state-, and action-level expressions here:
        \* ,_stateNumber |-> _TEPosition
        \* ,_lastActorUnchanged |-> lastActor = lastActor'
        
        \* Format the `lastActor` variable as Json value.
        \* ,_lastActorJson |->
        \*     LET J == INSTANCE Json
        \*     IN J!ToJson(lastActor)
        
        \* Lastly, you may build expressions over arbitrary sets of states by
        \* leveraging the _TETrace operator.  For example, this is how to
        \* count the number of times a spec variable changed up to the current
        \* state in the trace.
        \* ,_lastActorModCount |->
        \*     LET F[s \in DOMAIN _TETrace] ==
        \*         IF s = 1 THEN 0
        \*         ELSE IF _TETrace[s].lastActor # _TETrace[s-1].lastActor
        \*             THEN 1 + F[s-1] ELSE F[s-1]
        \*     IN F[_TEPosition - 1]
    ]

=============================================================================



Parsing and semantic processing can take forever if the trace below is long.
 In this case, it is advised to uncomment the module below to deserialize the
 trace from a generated binary file.

\*
\*---- MODULE MCCtx_TETrace ----
\*EXTENDS IOUtils, TLC, MCCtx
\*
\*trace == IODeserialize("MCCtx_TTrace_1790403198.bin", TRUE)
\*
\*=============================================================================
\*

---- MODULE MCCtx_TETrace ----
EXTENDS TLC, MCCtx

trace == 
    <<
    ([cur |-> [t1 |-> "c2", t2 |-> "c1"],pc |-> [t1 |-> "idle", t2 |-> "idle"],ctx |-> [c1 |-> [param |-> "none", tag |-> [mont |-> "none", roots |-> "none", tower |-> "none", curve |-> "none", gentab |-> "none", map |-> "none", glv |-> "none", twist |-> "none", gt |-> "none"]], c2 |-> [param |-> "none", tag |-> [mont |-> "none", roots |-> "none", tower |-> "none", curve |-> "none", gentab |-> "none", map |-> "none", glv |-> "none", twist |-> "none", gt |-> "none"]], c3 |-> [param |-> "none", tag |-> [mont |-> "none", roots |-> "none", tower |-> "none", curve |-> "none", gentab |-> "none", map |-> "none", glv |-> "none", twist |-> "none", gt |-> "none"]]],prevCtx |-> [c1 |-> [param |-> "none", tag |-> [mont |-> "none", roots |-> "none", tower |-> "none", curve |-> "none", gentab |-> "none", map |-> "none", glv |-> "none", twist |-> "none", gt |-> "none"]], c2 |-> [param |-> "none", tag |-> [mont |-> "none", roots |-> "none", tower |-> "none", curve |-> "none", gentab |-> "none", map |-> "none", glv |-> "none", twist |-> "none", gt |-> "none"]], c3 |-> [param |-> "none", tag |-> [mont |-> "none", roots |-> "none", tower |-> "none", curve |-> "none", gentab |-> "none", map |-> "none", glv |-> "none", twist |-> "none", gt |-> "none"]]],lastActor |-> "t1",steps |-> 0]),
    ([cur |-> [t1 |-> "c2", t2 |-> "c1"],pc |-> [t1 |-> <<"sel", "P", "curve">>, t2 |-> "idle"],ctx |-> [c1 |-> [param |-> "none", tag |-> [mont |-> "none", roots |-> "none", tower |-> "none", curve |-> "none", gentab |-> "none", map |-> "none", glv |-> "none", twist |-> "none", gt |-> "none"]], c2 |-> [param |-> "none", tag |-> [mont |-> "P", roots |-> "P", tower |-> "P", curve |-> "none", gentab |-> "none", map |-> "none", glv |-> "none", twist |-> "none", gt |-> "none"]], c3 |-> [param |-> "none", tag |-> [mont |-> "none", roots |-> "none", tower |-> "none", curve |-> "none", gentab |-> "none", map |-> "none", glv |-> "none", twist |-> "none", gt |-> "none"]]],prevCtx |-> [c1 |-> [param |-> "none", tag |-> [mont |-> "none", roots |-> "none", tower |-> "none", curve |-> "none", gentab |-> "none", map |-> "none", glv |-> "none", twist |-> "none", gt |-> "none"]], c2 |-> [param |-> "none", tag |-> [mont |-> "none", roots |-> "none", tower |-> "none", curve |-> "none", gentab |-> "none", map |-> "none", glv |-> "none", twist |-> "none", gt |-> "none"]], c3 |-> [param |-> "none", tag |-> [mont |-> "none", roots |-> "none", tower |-> "none", curve |-> "none", gentab |-> "none", map |-> "none", glv |-> "none", twist |-> "none", gt |-> "none"]]],lastActor |-> "t1",steps |-> 1])
    >>
----


=============================================================================

---- CONFIG MCCtx_TTrace_1790403198 ----
CONSTANTS
    Params <- ParamsDef
    Kind <- KindDef
    Contexts = { "c1" , "c2" , "c3" }
    Threads = { "t1" , "t2" }
    MaxSteps = 5

INVARIANT
    _inv

CHECK_DEADLOCK
    \* CHECK_DEADLOCK off because of PROPERTY or INVARIANT above.
    FALSE

INIT
    _init

NEXT
    _next

CONSTANT
    _TETrace <- _trace

ALIAS
    _expression
=============================================================================
\* Generated on Sat Sep 26 06:13:18 UTC 2026