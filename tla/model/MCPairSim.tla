------------------------------ MODULE MCPairSim ------------------------------
(***************************************************************************)
(* Design-level model of the multi-pairing entry points pp_map_sim_* (C04): *)
(* identity pairs are skipped and the remaining pairs COMPACTED to the      *)
(* front of the working arrays before the shared Miller loop runs over the  *)
(* first j slots; an all-identity (or empty) list bypasses the loop.        *)
(* Groups are abstract: G1 = G2 = Z_R by logarithm, GT = Z_R written        *)
(* additively (the logarithm of the pairing value to the base e(G1,G2)), so *)
(* e([a]G1,[b]G2) has logarithm a b mod R and identities are logarithm 0.   *)
(* Checked exhaustively over every list of length 0..M over Z_R x Z_R:      *)
(* the value returned equals the product of the individual pairings, the    *)
(* compacted prefix holds exactly the non-identity pairs in order, and the  *)
(* loop never sees an identity.                                             *)
(***************************************************************************)
EXTENDS Naturals, Sequences
CONSTANTS R, M
Pairs == (0..R - 1) \X (0..R - 1)
Lists == UNION {[1..n -> Pairs] : n \in 0..M}
IsId(pr) == pr[1] = 0 \/ pr[2] = 0
RECURSIVE SumLog(_, _)
SumLog(s, i) == IF i > Len(s) THEN 0 ELSE (s[i][1] * s[i][2] + SumLog(s, i + 1)) % R
RECURSIVE Filter(_, _)
Filter(s, i) == IF i > Len(s) THEN <<>> ELSE (IF IsId(s[i]) THEN <<>> ELSE <<s[i]>>) \o Filter(s, i + 1)

VARIABLES in, i, comp, acc, l, pc
vars == <<in, i, comp, acc, l, pc>>
Init == in \in Lists /\ i = 1 /\ comp = <<>> /\ acc = 0 /\ l = 1 /\ pc = "scan"
Skip == pc = "scan" /\ i <= Len(in) /\ IsId(in[i]) /\ i' = i + 1 /\ UNCHANGED <<in, comp, acc, l, pc>>
Copy == pc = "scan" /\ i <= Len(in) /\ ~IsId(in[i]) /\ comp' = Append(comp, in[i]) /\ i' = i + 1
        /\ UNCHANGED <<in, acc, l, pc>>
Bypass == pc = "scan" /\ i > Len(in) /\ Len(comp) = 0 /\ pc' = "done" /\ UNCHANGED <<in, i, comp, acc, l>>
Enter == pc = "scan" /\ i > Len(in) /\ Len(comp) > 0 /\ pc' = "loop" /\ UNCHANGED <<in, i, comp, acc, l>>
(* the Miller loop and final exponentiation over the first j slots: one slot per step *)
Loop == pc = "loop" /\ l <= Len(comp) /\ acc' = (acc + comp[l][1] * comp[l][2]) % R /\ l' = l + 1
        /\ UNCHANGED <<in, i, comp, pc>>
Exit == pc = "loop" /\ l > Len(comp) /\ pc' = "done" /\ UNCHANGED <<in, i, comp, acc, l>>
Next == Skip \/ Copy \/ Bypass \/ Enter \/ Loop \/ Exit
Spec == Init /\ [][Next]_vars

Compacted == comp = Filter(SubSeq(in, 1, i - 1), 1)
NoIdentityInLoop == \A j \in 1..Len(comp) : ~IsId(comp[j])
Product == pc = "done" => acc = SumLog(in, 1)
Inv == Compacted /\ NoIdentityInLoop /\ Product /\ Len(comp) <= Len(in)
=============================================================================
