CONSTANTS
  Orders = {7, 11, 13, 19, 31}
  Algs = {"lwnaf", "lwreg", "monty", "slide", "basic", "dig", "combs", "combd", "fix_basic", "fix_lwnaf",
          "sim_inter", "sim_trick", "sim_joint", "sim_lot",
          "glv_basis", "glv_imp", "glv_reg", "tab", "rec_naf", "rec_reg", "rec_slw", "rec_win", "rec_jsf"}
  Widths = {2, 3, 4, 5}
  Depths = {2, 3, 4}
  Digs = {8, 64}
  AllBases = TRUE
  FPSlack = 0
  GlvOrders = {7, 13, 19, 31, 37, 43, 61, 67}
SPECIFICATION Spec
INVARIANTS InvLwnaf InvLwreg InvMonty InvSlide InvBasic InvDig InvCombs InvCombd InvFixBasic InvFixLwnaf
           InvSimInter InvSimTrick InvSimJoint InvSimLot
           InvGlvBasis InvGlvImp InvGlvReg InvTab InvRecNaf InvRecReg InvRecSlw InvRecWin InvRecJsf Counted
CHECK_DEADLOCK FALSE
