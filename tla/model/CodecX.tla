-------------------------------- MODULE CodecX --------------------------------
(***************************************************************************)
(* External representation of extension-field and target-group elements    *)
(* (C07, third part).  An element of a tower level of degree n over F_p is  *)
(* handled as the FLAT sequence of its n base-field coefficients in storage *)
(* order (lib/Tower TFlat: lowest level innermost).                         *)
(*                                                                          *)
(* Full form: the concatenation of the canonical coefficient encodings     *)
(* (big-endian, fb bytes each, value < p), n * fb bytes.                    *)
(*                                                                          *)
(* Compressed form (levels with a sextic top over F_q, q = p^(n/6):         *)
(* n = 12, 18, 48 built as quadratic over cubic, n = 24, 54 as cubic over   *)
(* quadratic): an element of the cyclotomic subgroup G_Phi6(F_q) (pairing   *)
(* values live there) is written as a = sum_k c_k z^k, z^6 = xi in F_q, and *)
(* only c_1, c_2, c_4, c_5 are stored - in storage order, 2n/3 * fb bytes.  *)
(* Karabina ("Squaring in cyclotomic subgroups", Thm 3.1): with             *)
(*    g0 = c_0, g1 = c_3, g2 = c_1, g3 = c_4, g4 = c_2, g5 = c_5            *)
(*    g2 # 0:  g1 = (xi g5^2 + 3 g4^2 - 2 g3) / (4 g2)                       *)
(*    g2 = 0:  g1 = 2 g4 g5 / g3                                             *)
(*    g0 = (2 g1^2 + g2 g5 - 3 g3 g4) xi + 1                                 *)
(* are NECESSARY for membership, so a compressed string denotes at most one *)
(* cyclotomic element; it denotes one iff the element so completed IS in    *)
(* the subgroup.  g2 = g3 = 0 happens for the unit element only (four zero  *)
(* coefficients).  MCCodecX checks all of this on every element of the      *)
(* cyclotomic subgroup of a tiny tower.                                     *)
(* An element outside the subgroup has the full form only (as in the fp2    *)
(* packed form of model/Codec): XEnc(x, pack) is the compressed string iff  *)
(* pack is requested AND x is cyclotomic.                                   *)
(* Membership is a parameter Cyc(_) (an operator on tower elements): the    *)
(* definition x # 0 /\ x^Phi(p) = 1 in MCCodecX, the equivalent Frobenius   *)
(* form of model/FpxSpec (InCyc) in Codec3Spec.                             *)
(***************************************************************************)
EXTENDS Tower

XOk(v) == [ok |-> TRUE, v |-> v]
XBad   == [ok |-> FALSE, v |-> <<>>]

(* kind of the top of a level: "q3" quadratic over cubic, "c2" cubic over quadratic, "none" *)
XKind(n) == IF n \in {12, 18, 48} THEN "q3" ELSE IF n \in {24, 54} THEN "c2" ELSE "none"
(* the power of z carried by the b-th (0-based) block of n/6 coefficients *)
XPow(kind, b) == IF kind = "q3" THEN 2 * (b % 3) + (b \div 3) ELSE (b \div 2) + 3 * (b % 2)
XKept(kind, b) == XPow(kind, b) \notin {0, 3}

(* ---- flat coefficient sequences and byte strings (eager tuples) *)
RECURSIVE XEncFlatR(_, _, _)
XEncFlatR(cs, fb, i) == IF i > Len(cs) THEN <<>> ELSE BToBE(cs[i], fb) \o XEncFlatR(cs, fb, i + 1)
XEncFlat(cs, fb) == XEncFlatR(cs, fb, 1)
RECURSIVE XCoefs(_, _, _, _)
XCoefs(s, fb, d, i) == IF i > d THEN <<>>
                       ELSE <<BFromBE(SubSeq(s, (i - 1) * fb + 1, i * fb))>> \o XCoefs(s, fb, d, i + 1)
XInRange(cs, p) == \A i \in 1..Len(cs) : BLt(cs[i], p)
XBlock(cs, m, b) == SubSeq(cs, b * m + 1, (b + 1) * m)            \* b 0-based
RECURSIVE XKeptR(_, _, _, _)
XKeptR(cs, m, kind, b) == IF b > 5 THEN <<>>
                          ELSE (IF XKept(kind, b) THEN XBlock(cs, m, b) ELSE <<>>) \o XKeptR(cs, m, kind, b + 1)
(* the 2n/3 coefficients the compressed form keeps, in storage order *)
XKeptCoefs(cs, n, kind) == XKeptR(cs, n \div 6, kind, 0)
XAllZero(cs) == \A i \in 1..Len(cs) : cs[i] = <<>>

(* ---- sizes and encodings.  cyc = the element is in the cyclotomic subgroup *)
XPacks(n, pack, cyc) == pack /\ XKind(n) # "none" /\ cyc
XSize(n, pack, cyc, fb) == IF XPacks(n, pack, cyc) THEN ((2 * n) \div 3) * fb ELSE n * fb
XEnc(cs, n, pack, cyc, fb) == IF XPacks(n, pack, cyc) THEN XEncFlat(XKeptCoefs(cs, n, XKind(n)), fb)
                              ELSE XEncFlat(cs, fb)

(* ---- decompression.  T = tower whose top level has degree n; L = Top(T) - 2 is F_q *)
XXi(T) == Nr(T, Top(T) - 1)
XKar(T, L, xi, g2, g3, g4, g5) ==
    LET M(a, b) == TMul(T, L, a, b)
        A(a, b) == TAdd(T, L, a, b)
        S(a, b) == TSub(T, L, a, b)
        Two(a)   == TAdd(T, L, a, a)
        Three(a) == TAdd(T, L, TAdd(T, L, a, a), a)
        g1 == IF g2 # TZero(T, L)
              THEN M(S(A(M(xi, M(g5, g5)), Three(M(g4, g4))), Two(g3)), TInv(T, L, Two(Two(g2))))
              ELSE M(Two(M(g4, g5)), TInv(T, L, g3))
        g0 == A(M(xi, S(A(Two(M(g1, g1)), M(g2, g5)), Three(M(g3, g4)))), TOne(T, L))
    IN  <<g0, g1>>

(* the block (flat, m coefficients) of z^k taken from the kept coefficients kc; kept blocks are stored in *)
(* increasing storage order                                                                          *)
RECURSIVE XKeptIndex(_, _, _)                 \* how many kept blocks precede block b
XKeptIndex(kind, b, j) == IF j >= b THEN 0 ELSE (IF XKept(kind, j) THEN 1 ELSE 0) + XKeptIndex(kind, b, j + 1)
XBlockOfPow(kind, k) == CHOOSE b \in 0..5 : XPow(kind, b) = k
XKeptBlock(kc, m, kind, k) == XBlock(kc, m, XKeptIndex(kind, XBlockOfPow(kind, k), 0))

(* the full flat element completed from the kept coefficients *)
XComplete(T, n, kc) ==
    LET kind == XKind(n)
        m    == n \div 6
        L    == Top(T) - 2
        G(k) == TUnflat(T, L, XKeptBlock(kc, m, kind, k))
        g01  == XKar(T, L, XXi(T), G(1), G(4), G(2), G(5))
        f0   == TFlat(T, L, g01[1])
        f3   == TFlat(T, L, g01[2])
        RECURSIVE asm(_)
        asm(b) == IF b > 5 THEN <<>>
                  ELSE (IF XPow(kind, b) = 0 THEN f0 ELSE IF XPow(kind, b) = 3 THEN f3
                        ELSE XKeptBlock(kc, m, kind, XPow(kind, b))) \o asm(b + 1)
    IN  asm(0)
RECURSIVE XZeros(_)
XZeros(k) == IF k = 0 THEN <<>> ELSE <<<<>>>> \o XZeros(k - 1)
XOneFlat(n) == <<<<1>>>> \o XZeros(n - 1)

XDecPacked(kc, T, n, Cyc(_)) ==
    LET kind == XKind(n)
        m    == n \div 6
    IN  IF XAllZero(XKeptBlock(kc, m, kind, 1)) /\ XAllZero(XKeptBlock(kc, m, kind, 4))
        THEN (IF XAllZero(kc) THEN XOk(XOneFlat(n)) ELSE XBad)
        ELSE LET v == XComplete(T, n, kc) IN
             IF Cyc(TUnflat(T, Top(T), v)) THEN XOk(v) ELSE XBad

(* Dec: byte string -> XOk(flat element) | XBad *)
XDec(s, T, n, fb, Cyc(_)) ==
    IF Len(s) = n * fb THEN
        LET cs == XCoefs(s, fb, n, 1) IN IF XInRange(cs, T.p) THEN XOk(cs) ELSE XBad
    ELSE IF XKind(n) # "none" /\ Len(s) = ((2 * n) \div 3) * fb THEN
        LET kc == XCoefs(s, fb, (2 * n) \div 3, 1) IN
        IF XInRange(kc, T.p) THEN XDecPacked(kc, T, n, Cyc) ELSE XBad
    ELSE XBad
=============================================================================
