CONSTANTS L = 3  HLen = 1  SBits = 16  Corners = {0, 128, 255}  Steps = 2
          CtrStarts = {1, 254, 255, 256, 32511, 32512, 32513, 32767, 32768, 65535, 65536, 16777215, 16777216}
SPECIFICATION Spec
INVARIANT FollowsStandard
CHECK_DEADLOCK FALSE
