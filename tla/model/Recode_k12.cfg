CONSTANTS KBits = 12  JBits = 7  WMax = 8  DigBits = 8
SPECIFICATION Spec
INVARIANTS NafPartial NafDone RegPartial RegDone JsfPartial JsfDone Bounded
CHECK_DEADLOCK FALSE
