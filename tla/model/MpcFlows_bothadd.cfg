SPECIFICATION Spec
CONSTANTS
    R = 5
    Second = {0, 4}
    Delta = 0
    Break = "bothadd"
INVARIANTS Reconstruct
CHECK_DEADLOCK FALSE
