CONSTANTS p = 19
 nq = 1
 qnr2 = 1
 big = TRUE
 phases = {"quad", "sextic", "dodecic"}
SPECIFICATION Spec
INVARIANT Check
CHECK_DEADLOCK FALSE
