SPECIFICATION Spec
CONSTANTS
    Ks = {9}
    Id <- IdB
    MinPS = 3
    Scheme = "pkcs1"
INVARIANTS AcceptsCanonical AcceptsOnlyCanonical
CHECK_DEADLOCK FALSE
