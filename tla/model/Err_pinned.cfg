CONSTANTS Budget = 6  MaxDepth = 3  SnapshotCaught = FALSE
SPECIFICATION Spec
INVARIANTS NoViolation NoDangling ChainShape FinallyAtMostOnce EndState
VIEW View
CHECK_DEADLOCK FALSE
