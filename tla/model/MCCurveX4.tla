------------------------------ MODULE MCCurveX4 ------------------------------
(***************************************************************************)
(* The definition the extension part of C11 is judged against - lib/CurveX *)
(* over a QUARTIC tower of lib/Tower, F_p4 = F_p[u]/(u^2 - usq)[v]/(v^2 -   *)
(* (xi0 + xi1 u)) as EpNSpec builds it for the ep4 module - IS a group law *)
(* on the points of nonsingular curves y^2 = x^3 + ax + b over F_p4,       *)
(* checked for tiny p on twist-shaped coefficients (a, b in {0, 1, v,      *)
(* 1 + u v, ...}): both tower levels are fields; closure, identity,        *)
(* inverse, commutativity, doubling = P + P on ALL pairs (Q, R) with R     *)
(* from every PairStep-th point, the 2-torsion and O (PairStep = 1: all    *)
(* pairs); associativity on all triples (Q, R, S) with R, S from every     *)
(* AssocStep-th point; Lagrange [#E]Q = O; XMulB (balanced recursion) =    *)
(* XMulNat and [k+1]Q = [k]Q + Q.  On the curves with a, b in F_p the      *)
(* p-power Frobenius (x, y) -> (x^p, y^p) computed with Tower!TExp is an   *)
(* additive map of the curve over F_p4 and satisfies its characteristic    *)
(* equation pi^2 - [t] pi + [p] = 0 with t = p + 1 - #E(F_p) on ALL points *)
(* (the endomorphism property behind ep<N>_frb = [p^i mod r]).             *)
(***************************************************************************)
EXTENDS CurveXB, FiniteSets, TLC
CONSTANTS p, usq, xi0, xi1, Mode, PairStep, AssocStep, MaxK
VARIABLES ci, ph

P == BFromNat(p)
N(n) == BFromNat(n)
T == [p |-> P, lv |-> <<[deg |-> 2, nr |-> N(usq)]>> \o <<[deg |-> 2, nr |-> <<N(xi0), N(xi1)>>]>>]
F0 == {N(n) : n \in 0..(p - 1)}
F2 == {<<x0, x1>> : x0 \in F0, x1 \in F0}
F4 == {<<x0, x1>> : x0 \in F2, x1 \in F2}
El(n0, n1, n2, n3) == <<<<N(n0), N(n1)>>, <<N(n2), N(n3)>>>>
(* (a, b): Mode 3 (char 3: a # 0), Mode 0 (a = 0, BLS-type twists), Mode 1 (b = 0, KSS16-type twists) *)
Curves ==
    IF Mode = 3 THEN <<<<El(1, 0, 0, 0), El(0, 0, 0, 0)>>, <<El(1, 0, 0, 0), El(1, 0, 0, 0)>>,
                       <<El(1, 0, 0, 0), El(0, 0, 1, 0)>>, <<El(0, 0, 1, 0), El(0, 0, 0, 0)>>,
                       <<El(0, 0, 1, 0), El(1, 0, 0, 1)>>, <<El(0, 0, 0, 1), El(0, 0, 1, 0)>>>>
    ELSE IF Mode = 0 THEN <<<<El(0, 0, 0, 0), El(1, 0, 0, 0)>>, <<El(0, 0, 0, 0), El(0, 0, 1, 0)>>,
                            <<El(0, 0, 0, 0), El(0, 0, 0, 2)>>>>
    ELSE <<<<El(1, 0, 0, 0), El(0, 0, 0, 0)>>, <<El(0, 0, 1, 0), El(0, 0, 0, 0)>>>>
a == Curves[ci][1]
b == Curves[ci][2]
Crv == [T |-> T, k |-> 2, a |-> a, b |-> b]

M(x, y) == TMul(T, 2, x, y)
Disc == TAdd(T, 2, TScale(T, 2, M(M(a, a), a), BMod(<<4>>, P)), TScale(T, 2, M(b, b), BMod(<<27>>, P)))
Nonsingular == ~TIsZero(T, 2, Disc)

Init == ci = 0 /\ ph = 0
Next == ph = 0 /\ ci' \in 1..Len(Curves) /\ ph' = 1
Spec == Init /\ [][Next]_<<ci, ph>>

Squares == TLCEval({<<M(y, y), y>> : y \in F4})
Points == LET sq == Squares IN
          TLCEval(UNION {LET rh == XRhs(x, Crv) IN {XPt(x, s[2]) : s \in {t \in sq : t[1] = rh}} : x \in F4})
RECURSIVE SetToSeq(_)
SetToSeq(S) == IF S = {} THEN <<>> ELSE LET x == CHOOSE x \in S : TRUE IN <<x>> \o SetToSeq(S \ {x})

InFp(x) == x[1][2] = <<>> /\ x[2] = <<<<>>, <<>>>>
Frob(Q, c) == IF Q.inf THEN Q ELSE XPt(TExp(T, 2, Q.x, P), TExp(T, 2, Q.y, P))

GroupLaw ==
    Nonsingular =>
    LET c    == Crv
        O    == XInf(c)
        aff  == Points
        pts  == TLCEval(aff \cup {O})
        n    == Cardinality(pts)
        ps   == SetToSeq(aff)
        tor  == {Q \in aff : TIsZero(T, 2, Q.y)}
        smpP == TLCEval({ps[i] : i \in {j \in 1..Len(ps) : j % PairStep = 0}} \cup tor \cup {O})
        smpA == TLCEval({ps[i] : i \in {j \in 1..Len(ps) : j % AssocStep = 0}} \cup {O})
    IN  /\ \A Q \in pts : XOnCurve(Q, c)
        /\ \A Q \in pts : XAdd(Q, O, c) = Q /\ XAdd(O, Q, c) = Q
        /\ \A Q \in pts : XNeg(Q, c) \in pts /\ XAdd(Q, XNeg(Q, c), c) = O
        /\ \A Q \in pts, R \in smpP : XAdd(Q, R, c) \in pts /\ XAdd(Q, R, c) = XAdd(R, Q, c)
        /\ \A Q \in pts : XDbl(Q, c) = XAdd(Q, Q, c)
        /\ \A Q \in pts, R \in smpA, S \in smpA : XAdd(XAdd(Q, R, c), S, c) = XAdd(Q, XAdd(R, S, c), c)
        /\ \A Q \in pts : XMulNat(N(n), Q, c) = O                                   \* Lagrange
        /\ \A Q \in smpP : \A k \in 0..MaxK :
              LET kk == N(k)  X == XMulB(kk, Q, c) IN
              /\ X = XMulNat(kk, Q, c) /\ XMulB(N(k + 1), Q, c) = XAdd(X, Q, c)
        /\ (InFp(a) /\ InFp(b)) =>
              LET n1 == Cardinality({Q \in aff : InFp(Q.x) /\ InFp(Q.y)}) + 1     \* #E(F_p)
                  tneg == n1 > p + 1
                  tabs == IF tneg THEN n1 - (p + 1) ELSE (p + 1) - n1
              IN  /\ \A Q \in pts : Frob(Q, c) \in pts
                  /\ \A Q \in pts, R \in smpP : Frob(XAdd(Q, R, c), c) = XAdd(Frob(Q, c), Frob(R, c), c)
                  /\ \A Q \in pts :
                        XAdd(XAdd(Frob(Frob(Q, c), c), XMulSB(~tneg, N(tabs), Frob(Q, c), c), c), XMulB(P, Q, c), c) = O

TowerIsField == TLevelIsField(T, 1) /\ TLevelIsField(T, 2)
Check == TowerIsField /\ (ph = 1 => GroupLaw)
=============================================================================
