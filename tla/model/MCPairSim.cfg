SPECIFICATION Spec
CONSTANTS R = 3
          M = 3
INVARIANT Inv
CHECK_DEADLOCK FALSE
