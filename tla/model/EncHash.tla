------------------------------ MODULE EncHash -------------------------------
(***************************************************************************)
(* The symmetric building blocks the C06 definitions use, collected from   *)
(* the pure-TLA+ transcriptions of the standards in tla/lib (checked       *)
(* against the published vectors by C14): SHA-256, KDF2 / MGF1, HMAC,      *)
(* AES-CBC with PKCS#7 padding.  Instantiated (H == INSTANCE EncHash) so   *)
(* that the helper names of lib/Words16 do not clash with lib/BigNat.      *)
(***************************************************************************)
EXTENDS Hmac, Xmd, Aes

Zero16 == <<0, 0, 0, 0, 0, 0, 0, 0, 0, 0, 0, 0, 0, 0, 0, 0>>
(* SHA-256 of the empty string (the OAEP label hash) *)
LHash256 == <<227, 176, 196, 66, 152, 252, 28, 20, 154, 251, 244, 200, 153, 111, 185, 36,
              39, 174, 65, 228, 100, 155, 147, 76, 164, 149, 153, 27, 120, 82, 184, 85>>
ASSUME LHash256 = Sha256(<<>>)
=============================================================================
