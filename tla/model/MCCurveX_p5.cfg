CONSTANTS p = 5
 usq = 2
 ASet = "all"
 AssocAll = FALSE
 AssocStep = 4
 MaxK = 24
SPECIFICATION Spec
INVARIANT Check
CHECK_DEADLOCK FALSE
