CONSTANTS p = 5
 usq = 2
 ASet = "some"
 BSet = "all"
 AssocAll = FALSE
 AssocStep = 6
 MaxK = 12
SPECIFICATION Spec
INVARIANT Check
CHECK_DEADLOCK FALSE
