CONSTANT Polys = {11, 19}
CONSTANT AMax = 255
SPECIFICATION Spec
INVARIANT GroupLaw
CHECK_DEADLOCK FALSE
