CONSTANT Polys = {11, 19}
SPECIFICATION Spec
INVARIANT GroupLaw
CHECK_DEADLOCK FALSE
