------------------------------- MODULE Ep2Spec -------------------------------
(***************************************************************************)
(* The twisted curves over F_p2 that carry the second pairing group (the   *)
(* ep2 module of RELIC) at the level of one public call (C11): what each   *)
(* group operation, each scalar multiplication, the Frobenius endomorphism *)
(* and the cofactor map must return for given operand VALUES.              *)
(* The definition is lib/CurveX (the affine group law over a tower level,  *)
(* model-checked to be a group law over F_p2 by model/MCCurveX) over       *)
(* lib/Tower (F_p2 = F_p[u]/(u^2 - usq) as a polynomial quotient ring);    *)
(* [k]Q is CurveX!XMulNat evaluated with the balanced recursion of         *)
(* model/CurveXB.  Raw objects are mapped to abstract points by X2Abs      *)
(* (Montgomery digits -> residues, coordinate tag -> affine point).        *)
(*                                                                         *)
(* An event e (harness/drv_ep2.c, ep2_common.h) carries the field header   *)
(* (p, w, fd, mont), the tower constant usq = u^2 as the library's own     *)
(* multiplication reveals it, the raw twist coefficients a2, b2, the group *)
(* order n, the cofactor h2, build parameters (add = default coordinate    *)
(* system, wd, dep, dgb, fpb), al = alias pattern, the raw inputs BEFORE   *)
(* the call (P, Q points; k, m bn projections; dg digit; pw Frobenius      *)
(* power; ps, ks lists), the raw outputs AFTER the call (R point, ret),    *)
(* crash, err (thrown error), code (sticky code), unch (every non-aliased  *)
(* input object bit-identical after the call).                             *)
(***************************************************************************)
EXTENDS FpRep, BigInt, CurveXB

(* ---- refinement mapping ---- *)
(* per-event context, computed once: prime, 1/R for Montgomery form, tower, curve *)
T2Of(e, ri) == [p |-> FPrime(e), lv |-> <<[deg |-> 2, nr |-> FMul(BNorm(e.usq[1]), ri, FPrime(e))]>>]
RInv(e) == IF e.mont = 1 THEN FInv(BMod(FR(e), FPrime(e)), FPrime(e)) ELSE <<1>>
FA(cx, raw) == FMul(BNorm(raw), cx.ri, cx.p)
F2A(cx, r) == <<FA(cx, r[1]), FA(cx, r[2])>>
Cx(e) ==
    LET ri == RInv(e)
        T  == T2Of(e, ri)
        c0 == [p |-> FPrime(e), ri |-> ri]
    IN  [p |-> FPrime(e), ri |-> ri, T |-> T,
         c |-> [T |-> T, k |-> 1, a |-> F2A(c0, e.a2), b |-> F2A(c0, e.b2)]]
(* u^2 lies in F_p (the quadratic tower level is F_p[u]/(u^2 - usq)) *)
TowerOk(e) == Len(e.usq) = 2 /\ BNorm(e.usq[2]) = <<>> /\ BNorm(e.usq[1]) # <<>>

F2Canon(e, r) == Len(r) = 2 /\ FCanon(e, r[1]) /\ FCanon(e, r[2])
X2Canon(e, P) == F2Canon(e, P.x) /\ F2Canon(e, P.y) /\ F2Canon(e, P.z)
Z2 == <<<<>>, <<>>>>
One2 == <<<<1>>, <<>>>>
(* abstract (affine) value of a raw point; infinity iff z = 0 *)
X2Abs(cx, P) ==
    LET T == cx.T
        z == F2A(cx, P.z)
        x == F2A(cx, P.x)
        y == F2A(cx, P.y)
    IN  IF z = Z2 THEN XInf(cx.c)
        ELSE IF P.c = 1 THEN XPt(x, y)
        ELSE LET zi == TInv(T, 1, z) IN
             IF P.c = 2 THEN XPt(TMul(T, 1, x, zi), TMul(T, 1, y, zi))
             ELSE LET zi2 == TMul(T, 1, zi, zi) IN
                  XPt(TMul(T, 1, x, zi2), TMul(T, 1, y, TMul(T, 1, zi2, zi)))

Ok(e) == e.crash = 0 /\ e.err = 0 /\ e.code = 0 /\ e.unch
ValidTag(P) == P.c \in {1, 2, 3}
(* operand representations a routine is specified for: affine (tag 1, z = 1 or the library identity) *)
(* and the projective system sys of the routine                                                      *)
RepOk(e, cx, P, sys) == /\ ValidTag(P) /\ X2Canon(e, P)
                        /\ P.c \in {1, sys}
                        /\ (P.c = 1 => F2A(cx, P.z) \in {Z2, One2})
AnyRep(e, cx, P) == ValidTag(P) /\ X2Canon(e, P) /\ (P.c = 1 => F2A(cx, P.z) \in {Z2, One2})
(* precondition of every group operation: operands are points of the curve *)
OnC(cx, P) == XOnCurve(X2Abs(cx, P), cx.c)

SysOf(e) ==
    CASE e.op \in {"ep2_add_basic", "ep2_dbl_basic"} -> 1
      [] e.op \in {"ep2_add_projc", "ep2_dbl_projc"} -> 2
      [] e.op \in {"ep2_add_jacob", "ep2_dbl_jacob"} -> 3
      [] OTHER -> e.add

(* the call returned normally and R is a valid representation of the point X *)
RetPoint(e, cx, X) == Ok(e) /\ ValidTag(e.R) /\ X2Canon(e, e.R) /\ XEq(X2Abs(cx, e.R), X)
(* ... in normalised affine form (ep2_norm only: the property speaks of representation there) *)
X2Normal(e, cx, P) == X2Canon(e, P) /\ (F2A(cx, P.z) = Z2 \/ (F2A(cx, P.z) = One2 /\ P.c = 1))
RetNormal(e, cx, X) == RetPoint(e, cx, X) /\ X2Normal(e, cx, e.R)

KNeg(k) == k.s = 1 /\ BNorm(k.d) # <<>>
(* [k]P by the definition, k a bn projection, P a raw point *)
KP(cx, k, P) == XMulSB(KNeg(k), BNorm(k.d), X2Abs(cx, P), cx.c)

RECURSIVE SumKPSeq(_, _, _)
SumKPSeq(e, cx, sums) ==
    IF Len(sums) > Len(e.ps) THEN sums
    ELSE LET i == Len(sums)
             nxt == XAdd(sums[i], KP(cx, e.ks[i], e.ps[i]), cx.c)
         IN  SumKPSeq(e, cx, Append(sums, nxt))
SumKP(e, cx) == LET s == SumKPSeq(e, cx, <<XInf(cx.c)>>) IN s[Len(s)]

DblOps == {"ep2_dbl", "ep2_dbl_basic", "ep2_dbl_projc", "ep2_dbl_jacob"}
AddOps == {"ep2_add", "ep2_add_basic", "ep2_add_projc", "ep2_add_jacob"}
MulOps == {"ep2_mul", "ep2_mul_basic", "ep2_mul_slide", "ep2_mul_monty", "ep2_mul_lwnaf", "ep2_mul_lwreg",
           "ep2_mul_gen", "ep2_mul_fix", "ep2_mul_fix_basic", "ep2_mul_fix_combs", "ep2_mul_fix_combd",
           "ep2_mul_fix_lwnaf"}
SimOps == {"ep2_mul_sim", "ep2_mul_sim_basic", "ep2_mul_sim_trick", "ep2_mul_sim_inter", "ep2_mul_sim_joint",
           "ep2_mul_sim_gen"}
LotOps == {"ep2_mul_sim_lot", "ep2_mul_sim_dig"}

(* p^j mod r: the scalar by which the j-th power of the Frobenius endomorphism acts on the order-r subgroup *)
FrbScalar(e, j) == BModExp(BMod(FPrime(e), BNorm(e.n.d)), BFromNat(j), BNorm(e.n.d))

Ep2Accept(e) ==
    IF e.op \in {"curve_probe", "restart"} THEN TRUE        \* input discovery / resume marker: nothing claimed
    ELSE IF e.op = "BADCURVE" THEN FALSE
    ELSE
    LET cx == Cx(e)
        c  == cx.c
        r  == BNorm(e.n.d)
    IN
    TowerOk(e) /\
    CASE e.op = "ep2_neg" ->
            AnyRep(e, cx, e.P) /\ OnC(cx, e.P) /\ RetPoint(e, cx, XNeg(X2Abs(cx, e.P), c))
      [] e.op \in DblOps ->
            RepOk(e, cx, e.P, SysOf(e)) /\ OnC(cx, e.P) /\ RetPoint(e, cx, XDbl(X2Abs(cx, e.P), c))
      [] e.op \in AddOps ->
            /\ RepOk(e, cx, e.P, SysOf(e)) /\ RepOk(e, cx, e.Q, SysOf(e)) /\ OnC(cx, e.P) /\ OnC(cx, e.Q)
            /\ RetPoint(e, cx, XAdd(X2Abs(cx, e.P), X2Abs(cx, e.Q), c))
      [] e.op = "ep2_sub" ->
            /\ RepOk(e, cx, e.P, SysOf(e)) /\ RepOk(e, cx, e.Q, SysOf(e)) /\ OnC(cx, e.P) /\ OnC(cx, e.Q)
            /\ RetPoint(e, cx, XSub(X2Abs(cx, e.P), X2Abs(cx, e.Q), c))
      [] e.op = "ep2_norm" ->
            AnyRep(e, cx, e.P) /\ OnC(cx, e.P) /\ RetNormal(e, cx, X2Abs(cx, e.P))
      [] e.op = "ep2_cmp" ->
            /\ AnyRep(e, cx, e.P) /\ AnyRep(e, cx, e.Q) /\ Ok(e)
            /\ ((e.ret = e.EQ) <=> XEq(X2Abs(cx, e.P), X2Abs(cx, e.Q)))
      [] e.op = "ep2_on_curve" ->
            AnyRep(e, cx, e.P) /\ Ok(e) /\ e.ret \in {0, 1} /\ ((e.ret = 1) <=> OnC(cx, e.P))
      [] e.op = "ep2_is_infty" ->
            AnyRep(e, cx, e.P) /\ Ok(e) /\ e.ret \in {0, 1} /\ ((e.ret = 1) <=> X2Abs(cx, e.P).inf)
      [] e.op \in MulOps ->
            RepOk(e, cx, e.P, SysOf(e)) /\ OnC(cx, e.P) /\ RetPoint(e, cx, KP(cx, e.k, e.P))
      [] e.op = "ep2_mul_dig" ->
            /\ RepOk(e, cx, e.P, SysOf(e)) /\ OnC(cx, e.P)
            /\ RetPoint(e, cx, XMulB(BNorm(e.dg), X2Abs(cx, e.P), c))
      [] e.op \in SimOps ->
            /\ RepOk(e, cx, e.P, SysOf(e)) /\ RepOk(e, cx, e.Q, SysOf(e)) /\ OnC(cx, e.P) /\ OnC(cx, e.Q)
            /\ RetPoint(e, cx, XAdd(KP(cx, e.k, e.P), KP(cx, e.m, e.Q), c))
      [] e.op \in LotOps ->
            /\ Len(e.ps) = e.cnt /\ Len(e.ks) = e.cnt
            /\ \A i \in 1..Len(e.ps) : RepOk(e, cx, e.ps[i], SysOf(e)) /\ OnC(cx, e.ps[i])
            /\ RetPoint(e, cx, SumKP(e, cx))
      (* the Frobenius (untwist-Frobenius-twist) endomorphism: on the order-r subgroup its j-th power is [p^j mod r] *)
      [] e.op = "ep2_frb" ->
            /\ AnyRep(e, cx, e.P) /\ OnC(cx, e.P) /\ e.pw >= 0
            /\ RetPoint(e, cx, XMulB(FrbScalar(e, e.pw), X2Abs(cx, e.P), c))
      (* cofactor clearing: EVERY point of the curve is sent into the order-r subgroup *)
      [] e.op = "ep2_mul_cof" ->
            /\ RepOk(e, cx, e.P, SysOf(e)) /\ OnC(cx, e.P)
            /\ Ok(e) /\ ValidTag(e.R) /\ X2Canon(e, e.R)
            /\ LET X == X2Abs(cx, e.R) IN XOnCurve(X, c) /\ XMulB(r, X, c).inf
      [] OTHER -> FALSE

(***************************************************************************)
(* Known findings (/verif/known_findings.json): enabled only for the op +  *)
(* input class + the kind of wrong outcome the finding describes.          *)
(*                                                                         *)
(* C11-cmp-zero-infinity: ep2_cmp special-cases the identity only when     *)
(* BOTH operands are the identity; the identity stored as the all-zero     *)
(* triple with a projective tag (what the shared addition template returns *)
(* for P + (-P) in Jacobian coordinates: ep2_set_infty, then the tag)      *)
(* compares RLC_EQ to EVERY finite point - both sides of the cross         *)
(* multiplication are 0.  (Same code pattern as ep_cmp, repaired there.)   *)
(*                                                                         *)
(* C11-sim-table-infinity: ep2_mul_sim_joint / ep2_mul_sim_trick normalise *)
(* their tables with ep2_norm_sim, whose simultaneous inversion cannot     *)
(* handle the identity: when a table entry iP + jQ is the identity (joint: *)
(* Q = P or Q = -P; trick: some 0 <= i, j < 2^(w/2)) the call throws or    *)
(* returns a wrong point.  (Same code pattern as ep_norm_sim.)             *)
(*                                                                         *)
(* C11-slide-long-scalar: ep2_mul_slide recodes the scalar AS GIVEN into a *)
(* buffer of RLC_FP_BITS + 1 windows (bn_rec_slw needs one window per bit  *)
(* in the worst case and checks bits(k) against the buffer): unlike        *)
(* ep_mul_slide it does not reduce k modulo the group order first, so      *)
(* every |k| of more than RLC_FP_BITS + 1 bits throws.                     *)
(***************************************************************************)
SimTableInf(e, cx) ==
    LET c == cx.c
        P == X2Abs(cx, e.P)
        Q == X2Abs(cx, e.Q)
        M == Pow2(e.wd \div 2) - 1
    IN  IF e.op = "ep2_mul_sim_joint" THEN XEq(P, Q) \/ XEq(P, XNeg(Q, c))
        ELSE \E i \in 0..M, j \in 0..M :
                /\ i * (M + 1) + j >= 2
                /\ XAdd(XMulB(BFromNat(i), P, c), XMulB(BFromNat(j), Q, c), c).inf

Ep2KnownKey(e) ==
    IF e.op \notin {"ep2_cmp", "ep2_mul_sim_joint", "ep2_mul_sim_trick", "ep2_mul_slide"} \/ ~TowerOk(e) THEN ""
    ELSE
    LET cx == Cx(e) IN
    CASE /\ e.op = "ep2_cmp" /\ AnyRep(e, cx, e.P) /\ AnyRep(e, cx, e.Q) /\ Ok(e)
         /\ X2Abs(cx, e.P).inf # X2Abs(cx, e.Q).inf
         /\ LET Z == IF X2Abs(cx, e.P).inf THEN e.P ELSE e.Q IN
              Z.c # 1 /\ F2A(cx, Z.x) = Z2 /\ F2A(cx, Z.y) = Z2
         /\ e.ret = e.EQ
            -> "C11-cmp-zero-infinity"
      [] /\ e.op \in {"ep2_mul_sim_joint", "ep2_mul_sim_trick"}
         /\ RepOk(e, cx, e.P, SysOf(e)) /\ RepOk(e, cx, e.Q, SysOf(e)) /\ OnC(cx, e.P) /\ OnC(cx, e.Q)
         /\ ~X2Abs(cx, e.P).inf /\ ~X2Abs(cx, e.Q).inf /\ BNorm(e.k.d) # <<>> /\ BNorm(e.m.d) # <<>>
         /\ e.crash = 0 /\ e.err # 0 /\ e.code = 1
         /\ SimTableInf(e, cx)
            -> "C11-sim-table-infinity"
      [] /\ e.op = "ep2_mul_slide"
         /\ RepOk(e, cx, e.P, SysOf(e)) /\ OnC(cx, e.P) /\ ~X2Abs(cx, e.P).inf
         /\ BBits(e.k.d) > e.fpb + 1
         /\ e.crash = 0 /\ e.err # 0 /\ e.code = 1
            -> "C11-slide-long-scalar"
      [] OTHER -> ""
=============================================================================
