CONSTANTS W = 3  Ns = {1, 2}  Moduli = {}
  Kinds = {"mulc", "mulb", "rdcc", "rdcb", "add", "sub", "neg", "dbl", "dblb", "hlv"}
SPECIFICATION Spec
INVARIANTS TypeOK NoOverflow ProductExact RdcbInv Correct
CHECK_DEADLOCK FALSE
