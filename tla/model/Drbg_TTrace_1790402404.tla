---- MODULE Drbg_TTrace_1790402404 ----
EXTENDS Sequences, TLCExt, Drbg, Toolbox, Naturals, TLC

_expression ==
    LET Drbg_TEExpression == INSTANCE Drbg_TEExpression
    IN Drbg_TEExpression!expression
----

_trace ==
    LET Drbg_TETrace == INSTANCE Drbg_TETrace
    IN Drbg_TETrace!trace
----

_inv ==
    ~(
        TLCGet("level") = Len(_TETrace)
        /\
        ctr = (65536)
        /\
        C = (<<0, 0, 0>>)
        /\
        V = (<<255, 255, 255>>)
        /\
        ok = (FALSE)
        /\
        n = (1)
    )
----

_init ==
    /\ C = _TETrace[1].C
    /\ V = _TETrace[1].V
    /\ ctr = _TETrace[1].ctr
    /\ n = _TETrace[1].n
    /\ ok = _TETrace[1].ok
----

_next ==
    /\ \E i,j \in DOMAIN _TETrace:
        /\ \/ /\ j = i + 1
              /\ i = TLCGet("level")
        /\ C  = _TETrace[i].C
        /\ C' = _TETrace[j].C
        /\ V  = _TETrace[i].V
        /\ V' = _TETrace[j].V
        /\ ctr  = _TETrace[i].ctr
        /\ ctr' = _TETrace[j].ctr
        /\ n  = _TETrace[i].n
        /\ n' = _TETrace[j].n
        /\ ok  = _TETrace[i].ok
        /\ ok' = _TETrace[j].ok

\* Uncomment the ASSUME below to write the states of the error trace
\* to the given file in Json format. Note that you can pass any tuple
\* to `JsonSerialize`. For example, a sub-sequence of _TETrace.
    \* ASSUME
    \*     LET J == INSTANCE Json
    \*         IN J!JsonSerialize("Drbg_TTrace_1790402404.json", _TETrace)

=============================================================================

 Note that you can extract this module `Drbg_TEExpression`
  to a dedicated file to reuse `expression` (the module in the 
  dedicated `Drbg_TEExpression.tla` file takes precedence 
  over the module `Drbg_TEExpression` below).

---- MODULE Drbg_TEExpression ----
EXTENDS Sequences, TLCExt, Drbg, Toolbox, Naturals, TLC

expression == 
    [
        \* To hide variables of the `Drbg` spec from the error trace,
        \* remove the variables below.  The trace will be written in the order
        \* of the fields of this record.
        C |-> C
        ,V |-> V
        ,ctr |-> ctr
        ,n |-> n
        ,ok |-> ok
        
        \* Put additional constant-, state-, and action-level expressions here:
        \* ,_stateNumber |-> _TEPosition
        \* ,_CUnchanged |-> C = C'
        
        \* Format the `C` variable as Json value.
        \* ,_CJson |->
        \*     LET J == INSTANCE Json
        \*     IN J!ToJson(C)
        
        \* Lastly, you may build expressions over arbitrary sets of states by
        \* leveraging the _TETrace operator.  For example, this is how to
        \* count the number of times a spec variable changed up to the current
        \* state in the trace.
        \* ,_CModCount |->
        \*     LET F[s \in DOMAIN _TETrace] ==
        \*         IF s = 1 THEN 0
        \*         ELSE IF _TETrace[s].C # _TETrace[s-1].C
        \*             THEN 1 + F[s-1] ELSE F[s-1]
        \*     IN F[_TEPosition - 1]
    ]

=============================================================================



Parsing and semantic processing can take forever if the trace below is long.
 In this case, it is advised to uncomment the module below to deserialize the
 trace from a generated binary file.

\*
\*---- MODULE Drbg_TETrace ----
\*EXTENDS IOUtils, Drbg, TLC
\*
\*trace == IODeserialize("Drbg_TTrace_1790402404.bin", TRUE)
\*
\*=============================================================================
\*

---- MODULE Drbg_TETrace ----
EXTENDS Drbg, TLC

trace == 
    <<
    ([ctr |-> 65535,C |-> <<0, 0, 0>>,V |-> <<0, 0, 0>>,ok |-> TRUE,n |-> 0]),
    ([ctr |-> 65536,C |-> <<0, 0, 0>>,V |-> <<255, 255, 255>>,ok |-> FALSE,n |-> 1])
    >>
----


=============================================================================

---- CONFIG Drbg_TTrace_1790402404 ----
CONSTANTS
    L = 3
    HLen = 1
    SBits = 16
    Corners = { 0 , 1 , 128 , 255 }
    Steps = 2
    CtrStarts = { 1 , 254 , 255 , 256 , 32511 , 32512 , 32513 , 32767 , 32768 , 65535 , 65536 , 16777215 , 16777216 }

INVARIANT
    _inv

CHECK_DEADLOCK
    \* CHECK_DEADLOCK off because of PROPERTY or INVARIANT above.
    FALSE

INIT
    _init

NEXT
    _next

CONSTANT
    _TETrace <- _trace

ALIAS
    _expression
=============================================================================
\* Generated on Sat Sep 26 06:00:06 UTC 2026