CONSTANT Primes = {7, 11, 13}
SPECIFICATION Spec
INVARIANT Check
CHECK_DEADLOCK FALSE
