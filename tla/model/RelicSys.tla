------------------------------ MODULE RelicSys ------------------------------
(***************************************************************************)
(* The library as ONE state machine across its layers (DESIGN.md 2.2):     *)
(* integers, the prime field and the prime curve share one context.        *)
(*                                                                         *)
(*   par    the selected parameter set: NoPar before any selection, else   *)
(*          the field characteristic p, the curve coefficients a, b, the   *)
(*          generator g and its order n (abstract values)                  *)
(*   bn     numbered integer objects     KNOWN with a BigInt value | UNKNOWN*)
(*   fp     numbered field elements      KNOWN with a residue      | UNKNOWN*)
(*   ep     numbered curve points        KNOWN with an affine point| UNKNOWN*)
(*   code   the sticky error code of the context                           *)
(*                                                                         *)
(* One action per public call.  The integer calls are those of model/Relic *)
(* (instantiated on the bn slots).  A field or curve call takes its        *)
(* operands from slots of the types its signature names - a scalar of      *)
(* ep_mul or an exponent of fp_exp is an INTEGER slot, fp_prime_conv /     *)
(* fp_prime_back / ep_getx / ep_rhs move values between the layers - and   *)
(* has two outcomes: Ret (the output slot takes the value the mathematical *)
(* definition gives for the CURRENT parameter set, every other slot of     *)
(* every type is unchanged: the frame condition across layers) or Throw    *)
(* (admissible only for an invalid argument: inversion of zero; output     *)
(* UNKNOWN, sticky code set, nothing else changed).                        *)
(* Select installs another parameter set: the integer objects keep their   *)
(* values, every field element and point becomes UNKNOWN (its digits mean  *)
(* nothing under the new modulus) and everything computed afterwards is    *)
(* defined by the NEW constants alone - a library that keeps derived state *)
(* of an earlier selection cannot follow this machine.                     *)
(* model/MCRelicSys explores the machine over a tiny field; trace/         *)
(* RelicSysTrace validates call histories executed by harness/relic_vm2.c. *)
(***************************************************************************)
EXTENDS BigInt, Curve, Naturals, Sequences

CONSTANTS NSlots,     \* objects per type
          Digs,       \* digits of the configured integer precision (RLC_BN_DIGS)
          DigBytes,   \* bytes per digit
          Cap         \* physical capacity of an integer object in digits

VARIABLES par, bn, fp, ep, code
svars == <<par, bn, fp, ep, code>>

R == INSTANCE Relic WITH slots <- bn        \* the integer layer (model/Relic) on the bn slots

NoPar == [sel |-> FALSE]
Par(p, a, b, g, n) == [sel |-> TRUE, c |-> [p |-> p, a |-> a, b |-> b], g |-> g, n |-> n]
Slots == 1..NSlots
Unk == [known |-> FALSE, val |-> <<>>]
KV(v) == [known |-> TRUE, val |-> v]
AllUnk == [s \in Slots |-> Unk]

SInit == par = NoPar /\ bn = [s \in Slots |-> R!K(IZero)] /\ fp = AllUnk /\ ep = AllUnk /\ code = 0

(* a parameter set the machine can compute with (its arithmetic consistency - primality, group order - *)
(* is the subject of model/ParamSpec; here only what the definitions below need)                        *)
WellFormed(q) == /\ BCmp(q.c.p, <<3>>) > 0 /\ BBit(q.c.p, 0) = 1
                 /\ InField(q.c.a, q.c.p) /\ InField(q.c.b, q.c.p)
                 /\ ~q.g.inf /\ OnCurve(q.g, q.c) /\ q.n # <<>>

Select(q) == /\ WellFormed(q)
             /\ par' = q /\ fp' = AllUnk /\ ep' = AllUnk
             /\ UNCHANGED <<bn, code>>

(* ---- integer layer ---- *)
BnSet(s, v) == R!Set(s, v) /\ UNCHANGED <<par, fp, ep>>
BnRet(op, o, a, b, k) == R!Ret(op, o, a, b, k) /\ UNCHANGED <<par, fp, ep>>
BnThrow(op, o, a, b, k) == R!Throw(op, o, a, b, k) /\ UNCHANGED <<par, fp, ep>>
GetCode(ret) == R!GetCode(ret) /\ UNCHANGED <<par, fp, ep>>

(* ---- typed operand access ---- *)
P == par.c.p
FpOps1 == {"fp_neg", "fp_dbl", "fp_hlv", "fp_sqr", "fp_inv", "fp_copy", "ep_rhs"}     \* fp <- fp
FpOps2 == {"fp_add", "fp_sub", "fp_mul"}                                          \* fp <- fp, fp
EpOps1 == {"ep_neg", "ep_dbl", "ep_norm", "ep_copy"}                              \* ep <- ep
EpOps2 == {"ep_add", "ep_sub"}                                                    \* ep <- ep, ep
EpOps0 == {"ep_gen", "ep_inf"}                                                    \* ep <- ()
(* fp_exp: fp <- fp, bn   fp_conv: fp <- bn   fp_back: bn <- fp   ep_getx: fp <- ep
   ep_mul: ep <- ep, bn   ep_mul_gen: ep <- bn   ep_mul_sim: ep <- ep, bn, ep, bn (slots o a k b m) *)

IntResidue(v) == FFromInt(v.neg, v.mag, P)
Ok(v) == [ok |-> TRUE, v |-> v]
Invalid == [ok |-> FALSE, v |-> <<>>]
FExpInt(x, k) == IF k.neg THEN (IF x = <<>> THEN Invalid ELSE Ok(FExp(FInv(x, P), k.mag, P)))
                 ELSE Ok(FExp(x, k.mag, P))
XOf(pt) == IF pt.inf THEN <<>> ELSE pt.x

(* value of a field-typed result; Invalid = invalid argument *)
FpValue(op, a, b) ==
    CASE op = "fp_add" -> Ok(FAdd(fp[a].val, fp[b].val, P))
      [] op = "fp_sub" -> Ok(FSub(fp[a].val, fp[b].val, P))
      [] op = "fp_mul" -> Ok(FMul(fp[a].val, fp[b].val, P))
      [] op = "fp_neg" -> Ok(FNeg(fp[a].val, P))
      [] op = "fp_dbl" -> Ok(FDbl(fp[a].val, P))
      [] op = "fp_hlv" -> Ok(FHlv(fp[a].val, P))
      [] op = "fp_sqr" -> Ok(FSqr(fp[a].val, P))
      [] op = "fp_copy" -> Ok(fp[a].val)
      [] op = "fp_inv" -> IF fp[a].val = <<>> THEN Invalid ELSE Ok(FInv(fp[a].val, P))
      [] op = "ep_rhs" -> Ok(Rhs(fp[a].val, par.c))
      [] op = "fp_exp" -> FExpInt(fp[a].val, bn[b].val)
      [] op = "fp_conv" -> Ok(IntResidue(bn[a].val))
      [] op = "ep_getx" -> Ok(XOf(ep[a].val))

FpInputsKnown(op, a, b) ==
    CASE op \in FpOps2 -> fp[a].known /\ fp[b].known
      [] op \in FpOps1 -> fp[a].known
      [] op = "fp_exp" -> fp[a].known /\ bn[b].known
      [] op = "fp_conv" -> bn[a].known
      [] op = "ep_getx" -> ep[a].known
FpOps == FpOps1 \cup FpOps2 \cup {"fp_exp", "fp_conv", "ep_getx"}

MulInt(k, pt) == PMul(k.neg, k.mag, pt, par.c)
EpValue(op, a, k, b, m) ==
    CASE op = "ep_gen" -> par.g
      [] op = "ep_inf" -> PInf
      [] op = "ep_neg" -> PNeg(ep[a].val, par.c)
      [] op = "ep_dbl" -> PDbl(ep[a].val, par.c)
      [] op \in {"ep_norm", "ep_copy"} -> ep[a].val
      [] op = "ep_add" -> PAdd(ep[a].val, ep[b].val, par.c)
      [] op = "ep_sub" -> PSub(ep[a].val, ep[b].val, par.c)
      [] op = "ep_mul" -> MulInt(bn[k].val, ep[a].val)
      [] op = "ep_mul_gen" -> MulInt(bn[k].val, par.g)
      [] op = "ep_mul_sim" -> PAdd(MulInt(bn[k].val, ep[a].val), MulInt(bn[m].val, ep[b].val), par.c)
EpInputsKnown(op, a, k, b, m) ==
    CASE op \in EpOps0 -> TRUE
      [] op \in EpOps1 -> ep[a].known
      [] op \in EpOps2 -> ep[a].known /\ ep[b].known
      [] op = "ep_mul" -> ep[a].known /\ bn[k].known
      [] op = "ep_mul_gen" -> bn[k].known
      [] op = "ep_mul_sim" -> ep[a].known /\ ep[b].known /\ bn[k].known /\ bn[m].known
EpOps == EpOps0 \cup EpOps1 \cup EpOps2 \cup {"ep_mul", "ep_mul_gen", "ep_mul_sim"}

(* ---- field-typed calls ---- *)
FpSet(o, v) == par.sel /\ InField(v, P) /\ fp' = [fp EXCEPT ![o] = KV(v)] /\ UNCHANGED <<par, bn, ep, code>>
FpRet(op, o, a, b) ==
    /\ par.sel /\ FpInputsKnown(op, a, b)
    /\ LET r == FpValue(op, a, b) IN r.ok /\ fp' = [fp EXCEPT ![o] = KV(r.v)]
    /\ UNCHANGED <<par, bn, ep, code>>
FpThrow(op, o, a, b) ==
    /\ par.sel /\ FpInputsKnown(op, a, b)
    /\ ~FpValue(op, a, b).ok
    /\ fp' = [fp EXCEPT ![o] = Unk] /\ code' = 1
    /\ UNCHANGED <<par, bn, ep>>
(* fp_prime_back: integer <- field element *)
FpBack(o, a) == /\ par.sel /\ fp[a].known
                /\ bn' = [bn EXCEPT ![o] = R!K(I(FALSE, fp[a].val))]
                /\ UNCHANGED <<par, fp, ep, code>>

(* ---- curve-typed calls (none of them has an error outcome for valid points) ---- *)
EpRet(op, o, a, k, b, m) ==
    /\ par.sel /\ EpInputsKnown(op, a, k, b, m)
    /\ ep' = [ep EXCEPT ![o] = KV(EpValue(op, a, k, b, m))]
    /\ UNCHANGED <<par, bn, fp, code>>

(* ---- queries: nothing changes, the returned integer is defined ---- *)
Bool(x) == IF x THEN 1 ELSE 0
Query(op, a, b, ret) ==
    /\ par.sel
    /\ CASE op = "ep_eq" -> ep[a].known /\ ep[b].known /\ ret = Bool(PEq(ep[a].val, ep[b].val))
         [] op = "ep_is_infty" -> ep[a].known /\ ret = Bool(ep[a].val.inf)
         [] op = "ep_on_curve" -> ep[a].known /\ ret = 1      \* every KNOWN point of the machine is a curve point
         [] op = "fp_eq" -> fp[a].known /\ fp[b].known /\ ret = Bool(fp[a].val = fp[b].val)
         [] op = "fp_is_zero" -> fp[a].known /\ ret = Bool(fp[a].val = <<>>)
    /\ UNCHANGED svars

(* every KNOWN point is on the curve of the current selection; every KNOWN residue is reduced *)
TypeOK == /\ \A s \in Slots : fp[s].known => par.sel /\ InField(fp[s].val, P)
          /\ \A s \in Slots : ep[s].known => par.sel /\ OnCurve(ep[s].val, par.c)
=============================================================================
