---- MODULE Err_TTrace_1790401130 ----
EXTENDS Sequences, TLCExt, Err, Toolbox, Naturals, TLC

_expression ==
    LET Err_TEExpression == INSTANCE Err_TEExpression
    IN Err_TEExpression!expression
----

_trace ==
    LET Err_TETrace == INSTANCE Err_TETrace
    IN Err_TETrace!trace
----

_inv ==
    ~(
        TLCGet("level") = Len(_TETrace)
        /\
        caught = (0)
        /\
        obs = (<<<<"enter", 1, -1>>, <<"throw", "E1">>, <<"finally", 1, -1>>, <<"enter", 2, -1>>, <<"exit", 2, -1>>, <<"exit", 1, -1>>>>)
        /\
        thrownSince = (TRUE)
        /\
        stack = (<<>>)
        /\
        code = ("ERR")
        /\
        bad = ("HandlerSkipped")
        /\
        last = (<<>>)
        /\
        log = (<<<<"open", "var", TRUE>>, <<"throw", "E1">>, <<"open", "var", FALSE>>, <<"end">>, <<"end">>>>)
        /\
        fins = (<<1, 0>>)
        /\
        done = (FALSE)
        /\
        number = ("NONE")
        /\
        slots = (<<"E1", "NONE">>)
        /\
        nextId = (3)
        /\
        handled = ({})
        /\
        landed = ({1})
        /\
        budget = (1)
    )
----

_init ==
    /\ bad = _TETrace[1].bad
    /\ done = _TETrace[1].done
    /\ landed = _TETrace[1].landed
    /\ handled = _TETrace[1].handled
    /\ slots = _TETrace[1].slots
    /\ log = _TETrace[1].log
    /\ nextId = _TETrace[1].nextId
    /\ number = _TETrace[1].number
    /\ code = _TETrace[1].code
    /\ thrownSince = _TETrace[1].thrownSince
    /\ fins = _TETrace[1].fins
    /\ last = _TETrace[1].last
    /\ caught = _TETrace[1].caught
    /\ obs = _TETrace[1].obs
    /\ stack = _TETrace[1].stack
    /\ budget = _TETrace[1].budget
----

_next ==
    /\ \E i,j \in DOMAIN _TETrace:
        /\ \/ /\ j = i + 1
              /\ i = TLCGet("level")
        /\ bad  = _TETrace[i].bad
        /\ bad' = _TETrace[j].bad
        /\ done  = _TETrace[i].done
        /\ done' = _TETrace[j].done
        /\ landed  = _TETrace[i].landed
        /\ landed' = _TETrace[j].landed
        /\ handled  = _TETrace[i].handled
        /\ handled' = _TETrace[j].handled
        /\ slots  = _TETrace[i].slots
        /\ slots' = _TETrace[j].slots
        /\ log  = _TETrace[i].log
        /\ log' = _TETrace[j].log
        /\ nextId  = _TETrace[i].nextId
        /\ nextId' = _TETrace[j].nextId
        /\ number  = _TETrace[i].number
        /\ number' = _TETrace[j].number
        /\ code  = _TETrace[i].code
        /\ code' = _TETrace[j].code
        /\ thrownSince  = _TETrace[i].thrownSince
        /\ thrownSince' = _TETrace[j].thrownSince
        /\ fins  = _TETrace[i].fins
        /\ fins' = _TETrace[j].fins
        /\ last  = _TETrace[i].last
        /\ last' = _TETrace[j].last
        /\ caught  = _TETrace[i].caught
        /\ caught' = _TETrace[j].caught
        /\ obs  = _TETrace[i].obs
        /\ obs' = _TETrace[j].obs
        /\ stack  = _TETrace[i].stack
        /\ stack' = _TETrace[j].stack
        /\ budget  = _TETrace[i].budget
        /\ budget' = _TETrace[j].budget

\* Uncomment the ASSUME below to write the states of the error trace
\* to the given file in Json format. Note that you can pass any tuple
\* to `JsonSerialize`. For example, a sub-sequence of _TETrace.
    \* ASSUME
    \*     LET J == INSTANCE Json
    \*         IN J!JsonSerialize("Err_TTrace_1790401130.json", _TETrace)

=============================================================================

 Note that you can extract this module `Err_TEExpression`
  to a dedicated file to reuse `expression` (the module in the 
  dedicated `Err_TEExpression.tla` file takes precedence 
  over the module `Err_TEExpression` below).

---- MODULE Err_TEExpression ----
EXTENDS Sequences, TLCExt, Err, Toolbox, Naturals, TLC

expression == 
    [
        \* To hide variables of the `Err` spec from the error trace,
        \* remove the variables below.  The trace will be written in the order
        \* of the fields of this record.
        bad |-> bad
        ,done |-> done
        ,landed |-> landed
        ,handled |-> handled
        ,slots |-> slots
        ,log |-> log
        ,nextId |-> nextId
        ,number |-> number
        ,code |-> code
        ,thrownSince |-> thrownSince
        ,fins |-> fins
        ,last |-> last
        ,caught |-> caught
        ,obs |-> obs
        ,stack |-> stack
        ,budget |-> budget
        
        \* Put additional constant-, state-, and action-level expressions here:
        \* ,_stateNumber |-> _TEPosition
        \* ,_badUnchanged |-> bad = bad'
        
        \* Format the `bad` variable as Json value.
        \* ,_badJson |->
        \*     LET J == INSTANCE Json
        \*     IN J!ToJson(bad)
        
        \* Lastly, you may build expressions over arbitrary sets of states by
        \* leveraging the _TETrace operator.  For example, this is how to
        \* count the number of times a spec variable changed up to the current
        \* state in the trace.
        \* ,_badModCount |->
        \*     LET F[s \in DOMAIN _TETrace] ==
        \*         IF s = 1 THEN 0
        \*         ELSE IF _TETrace[s].bad # _TETrace[s-1].bad
        \*             THEN 1 + F[s-1] ELSE F[s-1]
        \*     IN F[_TEPosition - 1]
    ]

=============================================================================



Parsing and semantic processing can take forever if the trace below is long.
 In this case, it is advised to uncomment the module below to deserialize the
 trace from a generated binary file.

\*
\*---- MODULE Err_TETrace ----
\*EXTENDS IOUtils, Err, TLC
\*
\*trace == IODeserialize("Err_TTrace_1790401130.bin", TRUE)
\*
\*=============================================================================
\*

---- MODULE Err_TETrace ----
EXTENDS Err, TLC

trace == 
    <<
    ([caught |-> 0,obs |-> <<>>,thrownSince |-> FALSE,stack |-> <<>>,code |-> "OK",bad |-> "",last |-> <<>>,log |-> <<>>,fins |-> <<>>,done |-> FALSE,number |-> "NONE",slots |-> <<>>,nextId |-> 1,handled |-> {},landed |-> {},budget |-> 6]),
    ([caught |-> 0,obs |-> <<<<"enter", 1, -1>>>>,thrownSince |-> FALSE,stack |-> <<[id |-> 1, saved |-> <<>>, phase |-> "body", kind |-> "var", fin |-> TRUE, snap |-> 0]>>,code |-> "OK",bad |-> "",last |-> <<[id |-> 1, block |-> 1]>>,log |-> <<<<"open", "var", TRUE>>>>,fins |-> <<0>>,done |-> FALSE,number |-> "NONE",slots |-> <<"NONE">>,nextId |-> 2,handled |-> {},landed |-> {},budget |-> 5]),
    ([caught |-> 1,obs |-> <<<<"enter", 1, -1>>, <<"throw", "E1">>>>,thrownSince |-> TRUE,stack |-> <<[id |-> 1, saved |-> <<>>, phase |-> "z0", kind |-> "var", fin |-> TRUE, snap |-> 1]>>,code |-> "ERR",bad |-> "",last |-> <<>>,log |-> <<<<"open", "var", TRUE>>, <<"throw", "E1">>>>,fins |-> <<0>>,done |-> FALSE,number |-> "NONE",slots |-> <<"E1">>,nextId |-> 2,handled |-> {},landed |-> {1},budget |-> 4]),
    ([caught |-> 1,obs |-> <<<<"enter", 1, -1>>, <<"throw", "E1">>, <<"finally", 1, -1>>>>,thrownSince |-> TRUE,stack |-> <<[id |-> 1, saved |-> <<>>, phase |-> "fin", kind |-> "var", fin |-> TRUE, snap |-> 1]>>,code |-> "ERR",bad |-> "",last |-> <<>>,log |-> <<<<"open", "var", TRUE>>, <<"throw", "E1">>>>,fins |-> <<1>>,done |-> FALSE,number |-> "NONE",slots |-> <<"E1">>,nextId |-> 2,handled |-> {},landed |-> {1},budget |-> 4]),
    ([caught |-> 1,obs |-> <<<<"enter", 1, -1>>, <<"throw", "E1">>, <<"finally", 1, -1>>, <<"enter", 2, -1>>>>,thrownSince |-> TRUE,stack |-> <<[id |-> 1, saved |-> <<>>, phase |-> "fin", kind |-> "var", fin |-> TRUE, snap |-> 1], [id |-> 2, saved |-> <<>>, phase |-> "body", kind |-> "var", fin |-> FALSE, snap |-> 0]>>,code |-> "ERR",bad |-> "",last |-> <<[id |-> 2, block |-> 1]>>,log |-> <<<<"open", "var", TRUE>>, <<"throw", "E1">>, <<"open", "var", FALSE>>>>,fins |-> <<1, 0>>,done |-> FALSE,number |-> "NONE",slots |-> <<"E1", "NONE">>,nextId |-> 3,handled |-> {},landed |-> {1},budget |-> 3]),
    ([caught |-> 0,obs |-> <<<<"enter", 1, -1>>, <<"throw", "E1">>, <<"finally", 1, -1>>, <<"enter", 2, -1>>>>,thrownSince |-> TRUE,stack |-> <<[id |-> 1, saved |-> <<>>, phase |-> "fin", kind |-> "var", fin |-> TRUE, snap |-> 1], [id |-> 2, saved |-> <<>>, phase |-> "z0", kind |-> "var", fin |-> FALSE, snap |-> 0]>>,code |-> "ERR",bad |-> "",last |-> <<>>,log |-> <<<<"open", "var", TRUE>>, <<"throw", "E1">>, <<"open", "var", FALSE>>, <<"end">>>>,fins |-> <<1, 0>>,done |-> FALSE,number |-> "NONE",slots |-> <<"E1", "NONE">>,nextId |-> 3,handled |-> {},landed |-> {1},budget |-> 2]),
    ([caught |-> 0,obs |-> <<<<"enter", 1, -1>>, <<"throw", "E1">>, <<"finally", 1, -1>>, <<"enter", 2, -1>>>>,thrownSince |-> TRUE,stack |-> <<[id |-> 1, saved |-> <<>>, phase |-> "fin", kind |-> "var", fin |-> TRUE, snap |-> 1], [id |-> 2, saved |-> <<>>, phase |-> "z1", kind |-> "var", fin |-> FALSE, snap |-> 0]>>,code |-> "ERR",bad |-> "",last |-> <<>>,log |-> <<<<"open", "var", TRUE>>, <<"throw", "E1">>, <<"open", "var", FALSE>>, <<"end">>>>,fins |-> <<1, 0>>,done |-> FALSE,number |-> "NONE",slots |-> <<"E1", "NONE">>,nextId |-> 3,handled |-> {},landed |-> {1},budget |-> 2]),
    ([caught |-> 0,obs |-> <<<<"enter", 1, -1>>, <<"throw", "E1">>, <<"finally", 1, -1>>, <<"enter", 2, -1>>, <<"exit", 2, -1>>>>,thrownSince |-> TRUE,stack |-> <<[id |-> 1, saved |-> <<>>, phase |-> "fin", kind |-> "var", fin |-> TRUE, snap |-> 1]>>,code |-> "ERR",bad |-> "",last |-> <<>>,log |-> <<<<"open", "var", TRUE>>, <<"throw", "E1">>, <<"open", "var", FALSE>>, <<"end">>>>,fins |-> <<1, 0>>,done |-> FALSE,number |-> "NONE",slots |-> <<"E1", "NONE">>,nextId |-> 3,handled |-> {},landed |-> {1},budget |-> 2]),
    ([caught |-> 0,obs |-> <<<<"enter", 1, -1>>, <<"throw", "E1">>, <<"finally", 1, -1>>, <<"enter", 2, -1>>, <<"exit", 2, -1>>>>,thrownSince |-> TRUE,stack |-> <<[id |-> 1, saved |-> <<>>, phase |-> "z1", kind |-> "var", fin |-> TRUE, snap |-> 1]>>,code |-> "ERR",bad |-> "",last |-> <<>>,log |-> <<<<"open", "var", TRUE>>, <<"throw", "E1">>, <<"open", "var", FALSE>>, <<"end">>, <<"end">>>>,fins |-> <<1, 0>>,done |-> FALSE,number |-> "NONE",slots |-> <<"E1", "NONE">>,nextId |-> 3,handled |-> {},landed |-> {1},budget |-> 1]),
    ([caught |-> 0,obs |-> <<<<"enter", 1, -1>>, <<"throw", "E1">>, <<"finally", 1, -1>>, <<"enter", 2, -1>>, <<"exit", 2, -1>>, <<"exit", 1, -1>>>>,thrownSince |-> TRUE,stack |-> <<>>,code |-> "ERR",bad |-> "HandlerSkipped",last |-> <<>>,log |-> <<<<"open", "var", TRUE>>, <<"throw", "E1">>, <<"open", "var", FALSE>>, <<"end">>, <<"end">>>>,fins |-> <<1, 0>>,done |-> FALSE,number |-> "NONE",slots |-> <<"E1", "NONE">>,nextId |-> 3,handled |-> {},landed |-> {1},budget |-> 1])
    >>
----


=============================================================================

---- CONFIG Err_TTrace_1790401130 ----
CONSTANTS
    Budget = 6
    MaxDepth = 3
    SnapshotCaught = FALSE

INVARIANT
    _inv

CHECK_DEADLOCK
    \* CHECK_DEADLOCK off because of PROPERTY or INVARIANT above.
    FALSE

INIT
    _init

NEXT
    _next

CONSTANT
    _TETrace <- _trace

ALIAS
    _expression
=============================================================================
\* Generated on Sat Sep 26 05:38:51 UTC 2026