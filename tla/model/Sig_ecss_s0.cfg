SPECIFICATION Spec
CONSTANTS
    Orders = {7, 11, 13}
    GuardIdentity = TRUE
    GuardOnCurveSS = TRUE
    GuardCommit = TRUE
    RetryS0 = FALSE
INVARIANTS Complete
CHECK_DEADLOCK FALSE
