CONSTANTS W = 2  MBits = 6  ABits = 10
SPECIFICATION Spec
INVARIANTS InRange Congruent MontyValue FewSubtractions FoldTerminates
CHECK_DEADLOCK FALSE
