CONSTANTS
  PW = 13
  QN = 11
  A0 = 1
  A1 = 0
  B0 = 0
  B1 = 3
  TagSet <- Tags6
SPECIFICATION Spec
INVARIANTS StrInv RootInv F2PackInv
CHECK_DEADLOCK FALSE
