------------------------------ MODULE MpcFlows ------------------------------
(***************************************************************************)
(* C06 design-level model of the secret-shared group multiplication of     *)
(* src/mpc/relic_mpc_pc.c (g1_mul_lcl / _bct / _mpc and the g2 / gt forms: *)
(* the three groups run the same flow) over the abstract group Z_R written *)
(* additively: an element is its discrete logarithm, [k]P = k p mod R.     *)
(*                                                                         *)
(* Two parties i = 1, 2 (the code's party 0 and 1) hold additive shares    *)
(* x[i] of the scalar, p[i] of the element, and the triple shares a[i],    *)
(* b[i] (as the element B_i = [b_i]G), c[i] (as C_i = [c_i]G) with         *)
(* c[1] + c[2] = (a[1] + a[2]) (b[1] + b[2]) + Delta  mod R  (Delta = 0:   *)
(* a valid triple).  Steps exactly as coded:                               *)
(*   Lcl(i)  d_i = x_i - a_i, plus R when negative, mod R;  q_i = p_i - b_i*)
(*   Bct     d_1 = d_1 + d_2 mod R, d_2 = d_1;  q likewise                 *)
(*   Mpc(i)  party 1: t = b_1 + q, party 2: t = b_2;                       *)
(*           out_i = a_i q + d t + c_i                                     *)
(* Checked for EVERY splitting of x, of the element's logarithm and of the *)
(* triple (first shares over all of Z_R, second shares over Second; Second *)
(* = Z_R: every splitting; smaller sets keep 0, 1 and R - 1):              *)
(*   Opened       after Bct both parties hold d = x - a and q = p - b      *)
(*   Reconstruct  Delta = 0: out_1 + out_2 = x p  (the product [x]P)       *)
(*   WrongTriple  Delta # 0: out_1 + out_2 # x p  (soundness of the judge  *)
(*                used in conformance, model/MpcSpec)                      *)
(* Break names ONE deliberately broken step (controls, expected to be      *)
(* refuted): "bothadd" both parties add the opened Q to their B share,     *)
(* "nocopy" the broadcast does not replicate the opened values to party 2. *)
(***************************************************************************)
EXTENDS Integers, TLC

CONSTANTS R, Second, Delta, Break

Z == 0..(R - 1)
M(v) == v % R

VARIABLES x, p, a, b, c, d, q, out, pc
vars == <<x, p, a, b, c, d, q, out, pc>>

Init == /\ x \in Z \X Second
        /\ p \in Z \X Second
        /\ a \in Z \X Second
        /\ b \in Z \X Second
        /\ \E c2 \in Second : c = <<M((a[1] + a[2]) * (b[1] + b[2]) + Delta - c2 + R), c2>>
        /\ d = <<0, 0>> /\ q = <<0, 0>> /\ out = <<0, 0>>
        /\ pc = "lcl1"

LclD(i) == LET t == x[i] - a[i] IN M(IF t < 0 THEN t + R ELSE t)
Lcl(i) == /\ pc = (IF i = 1 THEN "lcl1" ELSE "lcl2")
          /\ d' = [d EXCEPT ![i] = LclD(i)]
          /\ q' = [q EXCEPT ![i] = M(p[i] - b[i] + R)]
          /\ pc' = (IF i = 1 THEN "lcl2" ELSE "bct")
          /\ UNCHANGED <<x, p, a, b, c, out>>

Bct == /\ pc = "bct"
       /\ LET dd == M(d[1] + d[2])
              qq == M(q[1] + q[2])
          IN  IF Break = "nocopy" THEN d' = <<dd, d[2]>> /\ q' = <<qq, q[2]>>
              ELSE d' = <<dd, dd>> /\ q' = <<qq, qq>>
       /\ pc' = "mpc1"
       /\ UNCHANGED <<x, p, a, b, c, out>>

Mpc(i) == /\ pc = (IF i = 1 THEN "mpc1" ELSE "mpc2")
          /\ LET t == IF i = 1 \/ Break = "bothadd" THEN M(b[i] + q[i]) ELSE b[i]
             IN  out' = [out EXCEPT ![i] = M(a[i] * q[i] + d[i] * t + c[i])]
          /\ pc' = (IF i = 1 THEN "mpc2" ELSE "done")
          /\ UNCHANGED <<x, p, a, b, c, d, q>>

Next == Lcl(1) \/ Lcl(2) \/ Bct \/ Mpc(1) \/ Mpc(2)
Spec == Init /\ [][Next]_vars

X == M(x[1] + x[2])
P == M(p[1] + p[2])
A == M(a[1] + a[2])
B == M(b[1] + b[2])
Opened == pc \in {"mpc1", "mpc2", "done"} =>
              /\ d[1] = M(X - A + R) /\ d[2] = d[1]
              /\ q[1] = M(P - B + R) /\ q[2] = q[1]
Reconstruct == (pc = "done" /\ Delta = 0) => M(out[1] + out[2]) = M(X * P)
WrongTriple == (pc = "done" /\ Delta # 0) => M(out[1] + out[2]) # M(X * P)
=============================================================================
