------------------------------- MODULE MCCtx -------------------------------
EXTENDS Ctx
ParamsDef == {"P", "E", "B1", "B2"}
KindDef == [x \in ParamsDef |-> IF x = "P" THEN "plain" ELSE IF x = "E" THEN "endom" ELSE "pairf"]
=============================================================================
