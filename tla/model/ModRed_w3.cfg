CONSTANTS W = 3  MBits = 7  ABits = 12
SPECIFICATION Spec
INVARIANTS InRange Congruent MontyValue FewSubtractions FoldTerminates
CHECK_DEADLOCK FALSE
