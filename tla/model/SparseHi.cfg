CONSTANTS p = 3
 phases = {"d24", "d16", "d48"}
SPECIFICATION Spec
INVARIANT Check
CHECK_DEADLOCK FALSE
