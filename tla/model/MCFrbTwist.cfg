CONSTANTS p = 19
 usq = 18
 r = 13
 trabs = 7
 trneg = FALSE
 xabs = 1
 xneg = TRUE
 fam = "BN"
 n2 = 325
 CMax = 18
SPECIFICATION Spec
INVARIANT Check
CHECK_DEADLOCK FALSE
