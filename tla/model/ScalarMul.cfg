CONSTANTS
  Orders = {7, 11, 13}
  Algs = {"lwnaf", "lwreg", "monty", "slide", "basic", "dig", "combs", "combd", "fix_basic", "fix_lwnaf",
          "sim_inter", "sim_trick", "sim_joint", "sim_lot",
          "tab", "rec_naf", "rec_reg", "rec_slw", "rec_win", "rec_jsf"}
  Widths = {2, 3, 4, 5}
  Depths = {2, 3, 4}
  Digs = {8, 64}
  AllBases = FALSE
  FPSlack = 0
SPECIFICATION Spec
INVARIANTS InvLwnaf InvLwreg InvMonty InvSlide InvBasic InvDig InvCombs InvCombd InvFixBasic InvFixLwnaf
           InvSimInter InvSimTrick InvSimJoint InvSimLot
           InvTab InvRecNaf InvRecReg InvRecSlw InvRecWin InvRecJsf Counted
CHECK_DEADLOCK FALSE
