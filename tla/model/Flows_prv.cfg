SPECIFICATION Spec
CONSTANTS
    R = 3
    Protocols = {"pdprv", "lvprv"}
    BlindSet = {0, 1, 2}
    SetSize = 1
INVARIANTS Sound Complete Detects PsiExact
CHECK_DEADLOCK FALSE
