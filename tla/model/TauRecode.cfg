CONSTANTS Ms = {5, 7}  KBits = 10  WMax = 4  DigBits = 8
SPECIFICATION Spec
INVARIANTS ModPartial ModDone TnafPartial TnafDone RtnafPartial RtnafDone Bounded
CHECK_DEADLOCK FALSE
