CONSTANTS NSlots = 2  Digs = 2  DigBytes = 1  Cap = 3  MaxSteps = 4
SPECIFICATION MSpec
INVARIANT Inv
CHECK_DEADLOCK FALSE
