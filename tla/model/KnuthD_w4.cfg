CONSTANTS W = 4  MaxA = 3  MaxB = 2
SPECIFICATION Spec
INVARIANTS TypeOK Correctness NoOverrun DigitsFit PartialRem
CHECK_DEADLOCK FALSE
