------------------------------- MODULE ModRed -------------------------------
(***************************************************************************)
(* The reduction algorithms of src/bn/relic_bn_mod.c on W-bit digits       *)
(* (Bs = 2^W), as coded, for non-negative operands:                        *)
(*  Barrett (bn_mod_barrt): mu = floor(Bs^2k / m); early exits for a < m   *)
(*     and for more than 2k digits; q3 = ((a div Bs^(k-1)) * mu) div       *)
(*     Bs^(k+1); r = (a mod Bs^(k+1)) - (q3*m mod Bs^(k+1)), plus Bs^(k+1) *)
(*     when negative; final conditional subtractions (at most two);        *)
(*  Montgomery (bn_mod_monty_basic): k rounds r = t_i * u mod Bs,          *)
(*     t[i..i+k) += r*m with the carry parked in the vacated digit t_i,    *)
(*     high half + parked carries, subtraction of m on carry-out and once  *)
(*     more when still >= m; operand range a < m * Bs^k;                   *)
(*  pseudo-Mersenne (bn_mod_pmers): u = 2^bits - m, folding of the part    *)
(*     above 2^bits until it vanishes, final conditional subtractions.     *)
(* Checked for every modulus below 2^MBits and operand below 2^ABits:      *)
(* value in [0, m), congruent (Montgomery: a * R^-1), loop bounds.         *)
(***************************************************************************)
EXTENDS Integers, Sequences, TLC

CONSTANTS W, MBits, ABits

RECURSIVE Pow2(_)
Pow2(n) == IF n = 0 THEN 1 ELSE 2 * Pow2(n - 1)
RECURSIVE Bits(_)
Bits(n) == IF n = 0 THEN 0 ELSE 1 + Bits(n \div 2)
Bs == Pow2(W)
RECURSIVE PowB(_)
PowB(n) == IF n = 0 THEN 1 ELSE Bs * PowB(n - 1)
Used(v) == IF v = 0 THEN 1 ELSE (Bits(v) + W - 1) \div W
Dg(v, i) == (v \div PowB(i)) % Bs

(* ------------------------------------------------------------ Barrett *)
RECURSIVE SubLoop(_, _, _)
SubLoop(t, m, n) == IF t >= m THEN SubLoop(t - m, m, n + 1) ELSE <<t, n>>
Barrett(a, m) ==
    LET k  == Used(m)
        mu == PowB(2 * k) \div m
    IN  IF a < m THEN <<a, 0>>
        ELSE IF Used(a) > 2 * k THEN <<a % m, 0>>
        ELSE LET q1 == a \div PowB(k - 1)
                 q3 == (q1 * mu) \div PowB(k + 1)
                 r2 == (q3 * m) % PowB(k + 1)
                 r1 == a % PowB(k + 1)
                 t0 == r1 - r2
                 t  == IF t0 < 0 THEN t0 + PowB(k + 1) ELSE t0
             IN  SubLoop(t, m, 0)

(* ------------------------------------------------------------ Montgomery *)
(* u = -1/m mod Bs by the definition (the Newton iteration of the code is digit-width specific) *)
MontU(m) == CHOOSE u \in 0..(Bs - 1) : (u * m + 1) % Bs = 0
RECURSIVE MontRounds(_, _, _, _, _)
(* t: the 2k-digit accumulator; i: round; returns t after k rounds (carries parked in digits 0..k-1) *)
MontRounds(t, m, u, k, i) ==
    IF i = k THEN t
    ELSE LET r    == (Dg(t, i) * u) % Bs
             win  == (t \div PowB(i)) % PowB(k)
             sum  == win + r * m
             low  == sum % PowB(k)                  \* digits i .. i+k-1, digit i is now zero
             cy   == sum \div PowB(k)               \* bn_mula_low's carry, stored in digit i
             rest == t - win * PowB(i)
         IN  MontRounds(rest + (low - (low % Bs) + cy) * PowB(i), m, u, k, i + 1)
Monty(a, m) ==
    LET k == Used(m)
        t == MontRounds(a, m, MontU(m), k, 0)
        lo == t % PowB(k)                           \* the parked carries
        hi == (t \div PowB(k)) % PowB(k)
        s  == lo + hi
        s1 == IF s >= PowB(k) THEN (s - m) % PowB(k) ELSE s      \* carry out: subtract m (mod Bs^k)
    IN  <<IF s1 >= m THEN s1 - m ELSE s1, (IF s >= PowB(k) THEN 1 ELSE 0) + (IF s1 >= m THEN 1 ELSE 0)>>

(* ------------------------------------------------------------ pseudo-Mersenne *)
RECURSIVE Fold(_, _, _, _, _)
Fold(c, q, u, b, n) == IF q = 0 \/ n > 4 * ABits THEN <<c, n>>
                       ELSE LET t == q * u IN Fold(c + (t % Pow2(b)), t \div Pow2(b), u, b, n + 1)
Pmers(a, m) ==
    LET b == Bits(m)
        u == Pow2(b) - m
        f == Fold(a % Pow2(b), a \div Pow2(b), u, b, 0)
        r == SubLoop(f[1], m, 0)
    IN  <<r[1], f[2]>>

(* ------------------------------------------------------------ model *)
VARIABLES alg, m, a, res, aux, pc
vars == <<alg, m, a, res, aux, pc>>
Init == /\ alg \in {"barrt", "monty", "pmers"}
        /\ m \in 1..(Pow2(MBits) - 1) /\ a \in 0..(Pow2(ABits) - 1)
        /\ (alg = "monty" => (m % 2 = 1 /\ a < m * PowB(Used(m))))
        /\ res = 0 /\ aux = 0 /\ pc = "run"
Run == /\ pc = "run"
       /\ LET r == IF alg = "barrt" THEN Barrett(a, m) ELSE IF alg = "monty" THEN Monty(a, m) ELSE Pmers(a, m)
          IN  res' = r[1] /\ aux' = r[2]
       /\ pc' = "done" /\ UNCHANGED <<alg, m, a>>
Next == Run
Spec == Init /\ [][Next]_vars

InRange == pc = "done" => (res >= 0 /\ res < m)
Congruent == (pc = "done" /\ alg # "monty") => res = a % m
MontyValue == (pc = "done" /\ alg = "monty") => (res * PowB(Used(m))) % m = a % m
(* HAC 14.42: at most two final subtractions in Barrett; Montgomery at most two; folding terminates *)
FewSubtractions == (pc = "done" /\ alg \in {"barrt", "monty"}) => aux <= 2
FoldTerminates == (pc = "done" /\ alg = "pmers") => aux <= ABits
=============================================================================
