CONSTANT W = 4
CONSTANT Modes = {"rdc", "rdc1"}
CONSTANT Level = 4
CONSTANT MulDigs = {1}
CONSTANT Bs = {0}
CONSTANT Digs1 = {0}
SPECIFICATION Spec
INVARIANTS MulOk RdcOk Rdc1Ok
CHECK_DEADLOCK FALSE
