----------------------------- MODULE ScalarMul -----------------------------
(***************************************************************************)
(* RELIC's elliptic-curve scalar multiplication algorithms, transcribed AS *)
(* CODED (src/ep/relic_ep_mul.c, relic_ep_mul_fix.c, relic_ep_mul_sim.c,   *)
(* the recodings of src/bn/relic_bn_rec.c, ep_tab of relic_ep_util.c) over *)
(* an ABSTRACT CYCLIC GROUP Z_N of prime order N: a point is its discrete  *)
(* logarithm, the base point is P in 1..N-1, infinity is 0, ep_add is      *)
(* (x + y) % N, ep_dbl is 2x % N, ep_neg is (N - x) % N, ep_psi is         *)
(* multiplication by Lambda.  Every algorithm is a recursive operator that *)
(* mirrors the C loop statement by statement (trailing comments quote the  *)
(* C statement); scalars are native TLC integers.                          *)
(*                                                                         *)
(* One parameter tuple (alg, N, W, P, DG) per behaviour; its second state  *)
(* (go = TRUE, so that the TLC workers share the tuples) runs the          *)
(* algorithm on EVERY scalar of KSet and compares with (k * P) mod N.      *)
(*   alg  algorithm or recoding under check                                *)
(*   N    group order (prime), bits(N) plays bn_bits(n)                    *)
(*   W    RLC_WIDTH or RLC_DEPTH of the algorithm (2 where it has none)    *)
(*   P    discrete log of the base point                                   *)
(*   DG   RLC_DIG, bits per digit (matters for bn_rec_reg's scratch size,  *)
(*        ep_mul_basic's one-digit shortcut, ep_mul_monty's used fix-up)   *)
(* FPBITS = bits(N) + FPSlack stands for RLC_FP_BITS (bits(p) ~ bits(n)).  *)
(*                                                                         *)
(* Two markers stand for what C does outside arithmetic:                   *)
(*   UNDEF  undefined behaviour: a value read from an uninitialised        *)
(*          object or outside an array / a write past a buffer             *)
(*   ERR    RLC_THROW (ERR_NO_BUFFER) leaves the routine                   *)
(*                                                                         *)
(* Input classes on which the transcription does NOT return [k]P (each is  *)
(* stated exactly in its invariant, checked in both directions, and was    *)
(* reproduced on the real library, NIST P-256, RLC_WIDTH 4, 64-bit digits):*)
(*  lwreg      RegClass: with L = ceil(bits(n) / (w-1)) the result is      *)
(*             right iff |k| < 2^((L+1)(w-1)) and |k| fits bn_rec_reg's    *)
(*             scratch of ceil(L(w-1) / RLC_DIG) digits; beyond, the top   *)
(*             digit misses the table scan and an uninitialised register   *)
(*             is added, or dv_copy overruns the scratch.  (P-256: 261-bit *)
(*             scalars right, 262-bit scalars wrong.)                      *)
(*  fix_lwnaf  k # 0, k = 0 mod n: ep_mul_fix_plain reads naf[-1] and      *)
(*             returns -P (or garbage) instead of infinity.                *)
(*  sim_trick  k or m reduces to fewer than w = RLC_WIDTH / 2 bits:        *)
(*             bn_rec_win throws ERR_NO_BUFFER for 0 and runs off its      *)
(*             buffer for 0 < bits < w (int - size_t in the loop bound);   *)
(*             the real library segfaults for k = 1.                       *)
(***************************************************************************)
EXTENDS Integers, Sequences, FiniteSets, TLC

CONSTANTS Orders,      \* group orders (primes)
          Algs,        \* algorithms to check
          Widths,      \* RLC_WIDTH values
          Depths,      \* RLC_DEPTH values of the comb methods
          Digs,        \* RLC_DIG values
          AllBases,    \* TRUE: every P in 1..N-1 (single-scalar algorithms); FALSE: P in {1, 3}
          FPSlack,     \* RLC_FP_BITS - bits(N)
          GlvOrders    \* group orders = 1 mod 3 for the GLV methods

VARIABLES alg, N, W, P, DG, go
vars == <<alg, N, W, P, DG, go>>

UNDEF == -1
ERR   == -2

Max(a, b) == IF a >= b THEN a ELSE b
Min(a, b) == IF a <= b THEN a ELSE b
Abs(x) == IF x < 0 THEN -x ELSE x
Mod(a, m) == ((a % m) + m) % m                 \* bn_mod(c, a, m), m > 0: floor semantics
RECURSIVE Bits(_)
Bits(x) == IF x <= 0 THEN 0 ELSE 1 + Bits(x \div 2)         \* bn_bits of a magnitude
Bit(x, i) == (x \div (2^i)) % 2                             \* bn_get_bit of a magnitude
GetBits(x, from, to) == (x \div (2^from)) % (2^(to - from + 1))   \* get_bits(a, from, to), inclusive
Ceil(a, b) == ((a - 1) \div b) + 1                          \* RLC_CEIL(a, b) for a >= 1
Int8(x) == LET y == Mod(x, 256) IN IF y >= 128 THEN y - 256 ELSE y   \* conversion to int8_t
NDig(x) == IF x = 0 THEN 1 ELSE Ceil(Bits(x), DG)           \* a->used of a trimmed bn
(* every model value is below 2^30 (TLC integers are 32-bit): x mod 2^e and x div 2^e for any e *)
LowBits(x, e) == IF e >= 30 THEN x ELSE x % (2^e)
HighPart(x, e) == IF e >= 30 THEN 0 ELSE x \div (2^e)
FPBITS == Bits(N) + FPSlack                                 \* RLC_FP_BITS

(* the group *)
Add(x, y) == IF x < 0 \/ y < 0 THEN UNDEF ELSE (x + y) % N   \* ep_add
Dbl(x)    == Add(x, x)                                       \* ep_dbl
Neg(x)    == IF x < 0 THEN UNDEF ELSE (N - x) % N            \* ep_neg
Sub(x, y) == Add(x, Neg(y))                                  \* ep_sub
RECURSIVE DblN(_, _)
DblN(x, j) == IF j <= 0 THEN x ELSE DblN(Dbl(x), j - 1)      \* j times ep_dbl(r, r)
Exp(k)     == Mod(k * P, N)                                  \* [k]P, the specification
ExpOf(k, b) == Mod(k * b, N)

Chk(c, msg) == IF c THEN TRUE ELSE PrintT(<<"@@", "FAIL", ToString(msg)>>) /\ FALSE

Specials == UNION {{2^j - 1, 2^j, 2^j + 1} : j \in 0..10}
KSet == LET S == ((-2 * N)..(3 * N)) \cup Specials IN S \cup {-x : x \in S}
KPair == (-N)..(2 * N)                                        \* scalars of the two-scalar algorithms
QBases == {2, N - 1}                                          \* second base point

(***************************************************************************)
(* Tables are functions 0..(size-1) -> point; a slot never written UNDEF.  *)
(***************************************************************************)
TabGet(t, i) == IF i \in DOMAIN t THEN t[i] ELSE UNDEF        \* t[i], outside the array: UNDEF

RECURSIVE TabFill(_, _, _)
TabFill(t, i, hi) == IF i >= hi THEN t                         \* for (i = 2; i < (1 << (w - 2)); i++)
                     ELSE TabFill([t EXCEPT ![i] = Add(t[i - 1], t[0])], i + 1, hi)   \* ep_add(t[i], t[i - 1], t[0])
(* ep_tab(t, p, w), relic_ep_util.c; the caller's array has 1 << (w - 2) slots *)
EpTab(p, w) ==
    LET sz == 2^(w - 2)
        e  == [i \in 0..(sz - 1) |-> UNDEF]
    IN  IF w > 2
        THEN LET ta == [e EXCEPT ![0] = Dbl(p)]                \* ep_dbl(t[0], p)
                 tb == [ta EXCEPT ![1] = Add(p, ta[0])]        \* ep_add(t[1], p, t[0])
                 tc == TabFill(tb, 2, sz)
             IN  [tc EXCEPT ![0] = p]                          \* ep_copy(t[0], p)
        ELSE [e EXCEPT ![0] = p]

(***************************************************************************)
(* bn_rec_naf(naf, len, k, w): digits least significant first, as a        *)
(* sequence (naf[i] is s[i + 1]); the caller tests the buffer.             *)
(***************************************************************************)
RECURSIVE NafLoop(_, _, _)
NafLoop(t, w, acc) ==
    IF t = 0 THEN acc                                          \* while (!bn_is_zero(t))
    ELSE IF t % 2 = 1                                          \* if (!bn_is_even(t))
    THEN LET u == IF w = 2
                  THEN 2 - (t % 4)                             \* u_i = 2 - (t0 & mask)
                  ELSE LET v == t % (2^w)                      \* u_i = t0 & mask
                       IN  IF v > (2^w) \div 2 THEN v - 2^w ELSE v   \* if (u_i > l / 2) u_i = u_i - l
         IN  NafLoop((t - u) \div 2, w, Append(acc, u))        \* bn_add_dig / bn_sub_dig; *naf = u_i; bn_hlv
    ELSE NafLoop(t \div 2, w, Append(acc, 0))                  \* *naf = 0; bn_hlv(t, t)
RecNaf(k, w) == NafLoop(Abs(k), w, <<>>)                       \* bn_abs(t, k)
NafNoBuf(k, cap) == cap < Bits(Abs(k)) + 1                     \* if (*len < (bn_bits(k) + 1)) THROW(ERR_NO_BUFFER)
(* naf[i] of a buffer that bn_rec_naf zeroed over its whole capacity *)
NafAt(s, i) == IF i + 1 <= Len(s) THEN s[i + 1] ELSE 0

RECURSIVE SumDig(_, _, _)
SumDig(s, i, radix) == IF i > Len(s) THEN 0 ELSE s[i] + radix * SumDig(s, i + 1, radix)

(* for (i = l - 1; i >= 0; i--) { dbl; u = naf[i]; add t[u / 2] or sub t[-u / 2] } *)
RECURSIVE NafEval(_, _, _, _)
NafEval(s, t, i, r) ==
    IF i < 0 THEN r
    ELSE LET r2 == Dbl(r)                                      \* ep_dbl(r, r)
             u  == s[i + 1]                                    \* u = naf[i]
         IN  NafEval(s, t, i - 1,
                     IF u > 0 THEN Add(r2, TabGet(t, u \div 2))            \* ep_add(r, r, t[u / 2])
                     ELSE IF u < 0 THEN Sub(r2, TabGet(t, (-u) \div 2))    \* ep_sub(r, r, t[-u / 2])
                     ELSE r2)

(***************************************************************************)
(* 1. ep_mul_lwnaf -> ep_mul_naf_imp (plain curves)                        *)
(***************************************************************************)
MulLwnaf(k) ==
    IF k = 0 THEN 0                                            \* if (bn_is_zero(k)) ep_set_infty(r)
    ELSE LET m   == Mod(k, N)                                  \* bn_mod(m, k, n)
             t   == EpTab(P, W)                                \* ep_tab(t, p, RLC_WIDTH)
             cap == FPBITS + 2                                 \* l = RLC_FP_BITS + 2
         IN  IF NafNoBuf(m, cap) THEN ERR                      \* bn_rec_naf(naf, &l, m, RLC_WIDTH)
             ELSE LET s == RecNaf(m, W) IN NafEval(s, t, Len(s) - 1, 0)   \* ep_set_infty(r); loop

(***************************************************************************)
(* 2. ep_mul_lwreg -> ep_mul_reg_imp with bn_rec_reg                       *)
(***************************************************************************)
(* bn_rec_reg(naf, len, k, n, w): t is a scratch of d digits holding k *)
RECURSIVE RegLoop(_, _, _, _, _)
RegLoop(t, w, i, l, acc) ==
    IF i >= l THEN Append(acc, Int8(LowBits(t, DG)))               \* naf[i] = t[0], dig_t narrowed to int8_t
    ELSE LET t0 == LowBits(t, DG)                               \* t[0]
             u  == IF w = 2 THEN (t0 % 4) - 2                  \* u_i = (t[0] & mask) - 2
                   ELSE (t0 % (2^w)) - 2^(w - 1)               \* u_i = (t[0] & mask) - (1 << (w - 1))
             t1 == LowBits(t0 - u, DG)                         \* t[0] -= u_i, digit arithmetic (t0 odd: no borrow, t0 - u >= 0)
         IN  RegLoop(((t - t0) + t1) \div (2^(w - 1)), w, i + 1, l, Append(acc, u))   \* naf[i] = u_i; bn_rshb_low(t, t, d, w - 1)
RecReg(m, nb, w, cap) ==
    LET l  == Ceil(nb, w - 1)                                  \* l = RLC_CEIL(n, w - 1)
        dd == Ceil(l * (w - 1), DG)                            \* d = RLC_CEIL(l * (w - 1), RLC_DIG)
    IN  [err  |-> cap <= l,                                    \* if (*len <= l) THROW(ERR_NO_BUFFER)
         ovf  |-> NDig(m) > dd,                                \* dv_copy(t, k->dp, k->used) into d digits
         len  |-> l + 1,                                       \* *len = l + 1
         digs |-> RegLoop(m, w, 0, l, <<>>)]

(* main loop of ep_mul_reg_imp; u is the register the table scan writes *)
RECURSIVE RegEval(_, _, _, _, _)
RegEval(reg, t, i, r, u) ==
    IF i < 0 THEN r
    ELSE LET r1  == DblN(r, W - 1)                             \* for (j = 0; j < RLC_WIDTH - 1; j++) ep_dbl(r, r)
             nn  == reg[i + 1]                                 \* n = reg[i]
             s   == IF nn < 0 THEN -1 ELSE 0                   \* s = (n >> 7)
             idx == Abs(nn) \div 2                             \* n = ((n ^ s) - s) >> 1
             u1  == IF idx \in DOMAIN t THEN t[idx] ELSE u     \* fp_copy_sec(u, t[j], j == n): no j matches, u keeps its old value
             u2  == IF s # 0 THEN Neg(u1) ELSE u1              \* ep_neg(v, u); fp_copy_sec(u->y, v->y, s != 0)
         IN  RegEval(reg, t, i - 1, Add(r1, u2), u2)           \* ep_add(r, r, u)

RegOdd(k) == LET a == Abs(k) IN IF a % 2 = 0 THEN a + 1 ELSE a \* bn_abs(m, k); m->dp[0] |= 1
MulLwreg(k) ==
    IF k = 0 THEN 0                                            \* if (bn_is_zero(k)) ep_set_infty(r)
    ELSE LET t  == EpTab(P, W)                                 \* ep_tab(t, p, RLC_WIDTH)
             nb == Bits(N)                                     \* n = bn_bits(m), m the order
             m  == RegOdd(k)
             l  == Ceil(nb, W - 1) + 1                         \* l = RLC_CEIL(n, RLC_WIDTH - 1) + 1
             rr == RecReg(m, nb, W, l)                         \* bn_rec_reg(reg, &l, m, n, RLC_WIDTH)
         IN  IF rr.err THEN ERR
             ELSE IF rr.ovf THEN UNDEF
             ELSE LET r  == RegEval(rr.digs, t, rr.len - 1, 0, UNDEF)   \* ep_set_infty(r); u is uninitialised
                      u  == Sub(r, t[0])                       \* ep_sub(u, r, t[0])
                      r2 == IF Abs(k) % 2 = 0 THEN u ELSE r    \* fp_copy_sec(r, u, bn_is_even(k))
                  IN  IF k < 0 THEN Neg(r2) ELSE r2            \* ep_neg(u, r); fp_copy_sec(r->y, u->y, bn_sign(k) == RLC_NEG)
(* int8_t reg[1 + RLC_CEIL(RLC_FP_BITS + 1, RLC_WIDTH - 1)] must hold the l + 1 digits *)
RegBufOK == Ceil(Bits(N), W - 1) + 1 <= 1 + Ceil(FPBITS + 1, W - 1)

(* THE SOUND INPUT CLASS of ep_mul_reg_imp (it does not reduce k modulo n):   *)
(* with L = ceil(bits(n) / (w - 1)) the recoding has L regular digits and a   *)
(* top digit (|k| >> L(w-1)) | 1 that must index the table of 2^(w-2) odd     *)
(* multiples, and |k| must fit the d = ceil(L(w-1) / RLC_DIG) scratch digits. *)
RegL == Ceil(Bits(N), W - 1)
RegClass(k) == /\ Abs(k) < 2^((RegL + 1) * (W - 1))
               /\ NDig(Abs(k)) <= Ceil(RegL * (W - 1), DG)

(***************************************************************************)
(* 3. ep_mul_monty                                                         *)
(***************************************************************************)
RECURSIVE Ladder(_, _, _, _)
Ladder(l, i, t0, t1) ==
    IF i < 0 THEN t0                                           \* ep_norm(r, t[0])
    ELSE LET j  == Bit(l, i)                                   \* j = bn_get_bit(l, i)
             a0 == IF j = 0 THEN t1 ELSE t0                    \* dv_swap_sec(t[0], t[1], j ^ 1)
             a1 == IF j = 0 THEN t0 ELSE t1
             b0 == Add(a0, a1)                                 \* ep_add(t[0], t[0], t[1])
             b1 == Dbl(a1)                                     \* ep_dbl(t[1], t[1])
         IN  Ladder(l, i - 1, IF j = 0 THEN b1 ELSE b0, IF j = 0 THEN b0 ELSE b1)   \* dv_swap_sec back
(* bn_get_bit(a, bit) on a digit vector of value v read with a->used = used *)
GetBitUsed(v, used, bit) ==
    LET vv == LowBits(v, DG * used)
        bb == IF vv = 0 /\ used = 1 THEN 0
              ELSE (used - 1) * DG + Bits(HighPart(vv, DG * (used - 1)))   \* bn_bits(a)
    IN  IF bit > bb THEN 0                                     \* if (bit > bn_bits(a)) return 0
        ELSE IF bit \div DG >= used THEN 0                     \* if (d >= a->used) return 0
        ELSE Bit(v, bit)
MontyScalar(k) ==
    LET bits == Bits(N)                                        \* bits = bn_bits(n)
        m  == Mod(k, N)                                        \* bn_mod(m, k, n)
        l1 == Abs(m) + N                                       \* bn_abs(l, m); bn_add(l, l, n)
        l2 == l1 + N                                           \* bn_add(n, l, n)
        c1 == Bit(l1, bits) = 0
        dv == IF c1 THEN l2 ELSE l1                            \* dv_swap_sec(l->dp, n->dp, RLC_MAX(l->used, n->used), bn_get_bit(l, bits) == 0)
        c2 == GetBitUsed(dv, NDig(l1), bits) = 0               \* second bn_get_bit(l, bits): new digits, OLD l->used
        us == IF c2 THEN NDig(l2) ELSE NDig(l1)                \* l->used = RLC_SEL(l->used, n->used, ...)
    IN  [l |-> LowBits(dv, DG * us), want |-> dv, bits |-> bits]
MulMonty(k) ==
    IF k = 0 THEN 0                                            \* if (bn_is_zero(k)) ep_set_infty(r)
    ELSE LET ms == MontyScalar(k)
         IN  Ladder(ms.l, ms.bits - 1, P, Dbl(P))              \* ep_norm(t[0], p); ep_dbl(t[1], t[0]); for (i = bits - 1; ...)

(***************************************************************************)
(* 4. ep_mul_slide with bn_rec_slw; ep_mul_basic and ep_mul_dig            *)
(***************************************************************************)
RECURSIVE SlwLow(_, _)
SlwLow(k, s) == IF Bit(k, s) = 1 THEN s ELSE SlwLow(k, s + 1)  \* while (!bn_get_bit(k, s)) s++
RECURSIVE SlwLoop(_, _, _, _)
SlwLoop(k, w, i, acc) ==
    IF i < 0 THEN acc                                          \* while (i >= 0)
    ELSE IF Bit(k, i) = 0 THEN SlwLoop(k, w, i - 1, Append(acc, 0))   \* i--; win[j++] = 0
    ELSE LET s == SlwLow(k, Max(i - w + 1, 0))                 \* s = RLC_MAX(i - w + 1, 0)
         IN  SlwLoop(k, w, s - 1, Append(acc, GetBits(k, s, i)))      \* win[j++] = get_bits(k, s, i); i = s - 1
RecSlw(k, w) == SlwLoop(k, w, Bits(k) - 1, <<>>)               \* i = l - 1, l = bn_bits(k)

RECURSIVE SlideTabFill(_, _, _, _)
SlideTabFill(t, i, hi, q) == IF i >= hi THEN t
                             ELSE SlideTabFill([t EXCEPT ![i] = Add(t[i - 1], q)], i + 1, hi, q)   \* ep_add(t[i], t[i - 1], q)
SlideTab(p, w) == LET sz == 2^(w - 1)
                      e  == [i \in 0..(sz - 1) |-> UNDEF]
                  IN  SlideTabFill([e EXCEPT ![0] = p], 1, sz, Dbl(p))   \* ep_copy(t[0], p); ep_dbl(q, p)
RECURSIVE SlideEval(_, _, _, _)
SlideEval(win, t, i, q) ==
    IF i > Len(win) THEN q                                     \* for (i = 0; i < l; i++)
    ELSE IF win[i] = 0 THEN SlideEval(win, t, i + 1, Dbl(q))   \* ep_dbl(q, q)
    ELSE SlideEval(win, t, i + 1,
                   Add(DblN(q, Bits(win[i])), TabGet(t, win[i] \div 2)))   \* util_bits_dig(win[i]) doublings; ep_add(q, q, t[win[i] >> 1])
MulSlide(k) ==
    IF k = 0 THEN 0                                            \* if (bn_is_zero(k)) ep_set_infty(r)
    ELSE LET t == SlideTab(P, W)
             m == Mod(k, N)                                    \* bn_mod(m, k, n)
         IN  IF FPBITS + 1 < Bits(m) THEN ERR                  \* l = RLC_FP_BITS + 1; bn_rec_slw: if (*len < l) THROW
             ELSE SlideEval(RecSlw(m, W), t, 1, 0)             \* ep_set_infty(q); loop

(* for (i = l - 1; i >= 0; i--) { dbl; add p / sub p } of ep_mul_basic and ep_mul_dig *)
RECURSIVE BinNafEval(_, _, _, _)
BinNafEval(s, p, i, r) ==
    IF i < 0 THEN r
    ELSE LET r2 == Dbl(r)                                      \* ep_dbl(t, t)
             u  == s[i + 1]                                    \* u = naf[i]
         IN  BinNafEval(s, p, i - 1, IF u > 0 THEN Add(r2, p)  \* ep_add(t, t, p)
                                     ELSE IF u < 0 THEN Sub(r2, p) ELSE r2)   \* ep_sub(t, t, p)
MulDig(p, kd) ==
    IF kd = 0 THEN 0                                           \* if (k == 0) ep_set_infty(r)
    ELSE IF NafNoBuf(kd, DG + 1) THEN ERR                      \* l = RLC_DIG + 1; bn_rec_naf(naf, &l, m, 2)
    ELSE LET s == RecNaf(kd, 2) IN BinNafEval(s, p, Len(s) - 1, 0)
MulBasic(k) ==
    IF k = 0 THEN 0                                            \* if (bn_is_zero(k)) ep_set_infty(r)
    ELSE IF Bits(Abs(k)) <= DG                                 \* if (bn_bits(k) <= RLC_DIG)
    THEN LET r == MulDig(P, LowBits(Abs(k), DG))                \* ep_mul_dig(r, p, k->dp[0])
         IN  IF k < 0 /\ r # ERR THEN Neg(r) ELSE r            \* if (bn_sign(k) == RLC_NEG) ep_neg(r, r)
    ELSE IF NafNoBuf(k, Bits(Abs(k)) + 1) THEN ERR             \* l = bn_bits(k) + 1; bn_rec_naf(naf, &l, k, 2)
    ELSE LET s == RecNaf(k, 2)
             r == BinNafEval(s, P, Len(s) - 1, 0)
         IN  IF k < 0 THEN Neg(r) ELSE r                       \* if (bn_sign(k) == RLC_NEG) ep_neg(r, r)

(***************************************************************************)
(* 5. fixed-base methods, relic_ep_mul_fix.c (W = RLC_DEPTH)               *)
(***************************************************************************)
(* inner loops of ep_mul_pre_combs / ep_mul_pre_combd: l is the comb row length *)
RECURSIVE CombRowFill(_, _, _)
CombRowFill(t, j, i) ==
    IF i >= 2^j THEN t                                         \* for (i = 1; i < (1 << j); i++)
    ELSE CombRowFill([t EXCEPT ![2^j + i] = Add(t[i], t[2^j])], j, i + 1)   \* ep_add(t[(1 << j) + i], t[i], t[1 << j])
RECURSIVE CombFill(_, _, _)
CombFill(t, j, l) ==
    IF j >= W THEN t                                           \* for (j = 1; j < RLC_DEPTH; j++)
    ELSE LET a == DblN(Dbl(t[2^(j - 1)]), l - 1)               \* ep_dbl(t[1 << j], t[1 << (j - 1)]); for (i = 1; i < l; i++) ep_dbl
         IN  CombFill(CombRowFill([t EXCEPT ![2^j] = a], j, 1), j + 1, l)
PreCombs ==
    LET l == Ceil(Bits(N), W)                                  \* l = RLC_CEIL(bn_bits(n), RLC_DEPTH)
        e == [i \in 0..(2^W - 1) |-> UNDEF]                    \* RLC_EP_TABLE_COMBS = 1 << RLC_DEPTH
    IN  CombFill([e EXCEPT ![0] = 0, ![1] = P], 1, l)          \* ep_set_infty(t[0]); ep_copy(t[1], p)

(* for (j = RLC_DEPTH - 1; j >= 0; j--, p1 -= l) { w <<= 1; if (p1 < n0 && bn_get_bit(m, p1)) w |= 1; } *)
RECURSIVE CombWin(_, _, _, _, _, _)
CombWin(m, n0, p1, l, j, acc) ==
    IF j < 0 THEN acc
    ELSE CombWin(m, n0, p1 - l, l, j - 1,
                 2 * acc + (IF p1 < n0 /\ Bit(m, p1) = 1 THEN 1 ELSE 0))
RECURSIVE CombsLoop(_, _, _, _, _, _, _)
CombsLoop(m, n0, t, l, i, p0, r) ==
    IF i < 0 THEN r                                            \* for (i = l - 2; i >= 0; i--)
    ELSE LET r2 == Dbl(r)                                      \* ep_dbl(r, r)
             ww == CombWin(m, n0, p0, l, W - 1, 0)             \* p1 = p0--
         IN  CombsLoop(m, n0, t, l, i - 1, p0 - 1,
                       IF ww > 0 THEN Add(r2, TabGet(t, ww)) ELSE r2)   \* if (w > 0) ep_add(r, r, t[w])
MulCombs(k) ==
    IF k = 0 THEN 0                                            \* ep_mul_fix_combs: if (bn_is_zero(k)) ep_set_infty(r)
    ELSE LET t  == PreCombs
             l  == Ceil(Bits(N), W)                            \* l = RLC_CEIL(bn_bits(n), RLC_DEPTH)
             m  == Mod(k, N)                                   \* bn_mod(m, k, n)
             n0 == Bits(m)                                     \* n0 = bn_bits(m)
             p0 == W * l - 1                                   \* p0 = (RLC_DEPTH) * l - 1
             w0 == CombWin(m, n0, p0, l, W - 1, 0)             \* p1 = p0--
         IN  CombsLoop(m, n0, t, l, l - 2, p0 - 1, TabGet(t, w0))   \* ep_copy(r, t[w])

(* ep_mul_pre_combd: the second half is 2^e times the first *)
CombdD == Ceil(Bits(N), W)                                     \* d = RLC_CEIL(bn_bits(n), RLC_DEPTH)
CombdE == IF CombdD % 2 = 0 THEN CombdD \div 2 ELSE (CombdD \div 2) + 1   \* e = (d % 2 == 0 ? (d / 2) : (d / 2) + 1)
RECURSIVE CombdHigh(_, _)
CombdHigh(t, j) ==
    IF j >= 2^W THEN t                                         \* for (j = 1; j < (1 << RLC_DEPTH); j++)
    ELSE CombdHigh([t EXCEPT ![2^W + j] = DblN(Dbl(t[j]), CombdE - 1)], j + 1)   \* ep_dbl(t[(1 << D) + j], t[j]); e - 1 more
PreCombd ==
    LET e  == [i \in 0..(2^(W + 1) - 1) |-> UNDEF]             \* RLC_EP_TABLE_COMBD = 1 << (RLC_DEPTH + 1)
        lo == CombFill([e EXCEPT ![0] = 0, ![1] = P], 1, CombdD)
    IN  CombdHigh([lo EXCEPT ![2^W] = 0], 1)                   \* ep_set_infty(t[1 << RLC_DEPTH])
(* second window of ep_mul_fix_combd: the extra test i + e < d *)
RECURSIVE CombWin1(_, _, _, _, _, _, _)
CombWin1(m, n0, p0, dd, j, ok, acc) ==
    IF j < 0 THEN acc
    ELSE CombWin1(m, n0, p0 - dd, dd, j - 1, ok,
                  2 * acc + (IF ok /\ p0 < n0 /\ Bit(m, p0) = 1 THEN 1 ELSE 0))
RECURSIVE CombdLoop(_, _, _, _, _, _)
CombdLoop(m, n0, t, i, p1, r) ==
    IF i < 0 THEN r                                            \* for (i = e - 1; i >= 0; i--)
    ELSE LET r2 == Dbl(r)                                      \* ep_dbl(r, r)
             w0 == CombWin(m, n0, p1, CombdD, W - 1, 0)        \* p0 = p1
             w1 == CombWin1(m, n0, p1 + CombdE, CombdD, W - 1, i + CombdE < CombdD, 0)   \* p0 = p1-- + e; if (i + e < d && ...)
         IN  CombdLoop(m, n0, t, i - 1, p1 - 1,
                       Add(Add(r2, TabGet(t, w0)), TabGet(t, 2^W + w1)))   \* ep_add(r, r, t[w0]); ep_add(r, r, t[(1 << D) + w1])
MulCombd(k) ==
    IF k = 0 THEN 0                                            \* if (bn_is_zero(k)) ep_set_infty(r)
    ELSE LET m  == Mod(k, N)                                   \* bn_mod(m, k, n)
             n0 == Bits(m)                                     \* n0 = bn_bits(m)
         IN  CombdLoop(m, n0, PreCombd, CombdE - 1, (CombdE - 1) + (W - 1) * CombdD, 0)   \* p1 = (e - 1) + (RLC_DEPTH - 1) * d

(* ep_mul_pre_basic / ep_mul_fix_basic *)
RECURSIVE PreBasicFill(_, _)
PreBasicFill(t, i) == IF i >= Bits(N) THEN t                   \* for (i = 1; i < bn_bits(n); i++)
                      ELSE PreBasicFill([t EXCEPT ![i] = Dbl(t[i - 1])], i + 1)   \* ep_dbl(t[i], t[i - 1])
PreBasic == PreBasicFill([[i \in 0..(Bits(N) - 1) |-> UNDEF] EXCEPT ![0] = P], 1)   \* RLC_EP_TABLE_BASIC = RLC_FP_BITS (+1)
RECURSIVE FixBasicLoop(_, _, _, _)
FixBasicLoop(m, t, i, r) ==
    IF i >= Bits(m) THEN r                                     \* for (i = 0; i < bn_bits(m); i++)
    ELSE FixBasicLoop(m, t, i + 1, IF Bit(m, i) = 1 THEN Add(r, TabGet(t, i)) ELSE r)   \* if (bn_get_bit(m, i)) ep_add(r, r, t[i])
MulFixBasic(k) ==
    IF k = 0 THEN 0
    ELSE FixBasicLoop(Mod(k, N), PreBasic, 0, 0)               \* bn_mod(m, k, n); ep_set_infty(r)

(* ep_mul_pre_lwnaf = ep_tab(t, p, RLC_DEPTH); ep_mul_fix_lwnaf -> ep_mul_fix_plain(r, t, m) *)
MulFixLwnaf(k) ==
    IF k = 0 THEN 0                                            \* if (bn_is_zero(k)) ep_set_infty(r)
    ELSE LET t == EpTab(P, W)                                  \* ep_mul_pre_lwnaf
             m == Mod(k, N)                                    \* bn_mod(m, k, n)
         IN  IF NafNoBuf(m, FPBITS + 1) THEN ERR               \* l = RLC_FP_BITS + 1; bn_rec_naf(naf, &l, k, RLC_DEPTH)
             ELSE LET s == RecNaf(m, W)
                      l == Len(s)
                  IN  IF l = 0 THEN UNDEF                      \* n = naf[l - 1] with l == 0: reads naf[-1]
                      ELSE LET nn == s[l]                      \* n = naf[l - 1]
                               r0 == IF nn > 0 THEN TabGet(t, nn \div 2)          \* ep_copy(r, t[n / 2])
                                     ELSE Neg(TabGet(t, (-nn) \div 2))            \* ep_neg(r, t[-n / 2])
                           IN  NafEval(s, t, l - 2, r0)        \* for (i = l - 2; i >= 0; i--); m >= 0: no final ep_neg

(***************************************************************************)
(* 6. simultaneous multiplication, relic_ep_mul_sim.c: [k]P + [m]Q         *)
(***************************************************************************)
ExpSim(k, m, q) == Mod(k * P + m * q, N)

(* ep_mul_sim_plain(r, p, k, q, m, NULL) *)
RECURSIVE SimPlainLoop(_, _, _, _, _, _)
SimPlainLoop(s0, s1, t0, t1, i, r) ==
    IF i < 0 THEN r                                            \* for (i = l - 1; i >= 0; i--, u--, v--)
    ELSE LET r2 == Dbl(r)                                      \* ep_dbl(r, r)
             n0 == NafAt(s0, i)                                \* n0 = *u
             n1 == NafAt(s1, i)                                \* n1 = *v
             ra == IF n0 > 0 THEN Add(r2, TabGet(t0, n0 \div 2))            \* ep_add(r, r, t[n0 / 2])
                   ELSE IF n0 < 0 THEN Sub(r2, TabGet(t0, (-n0) \div 2))    \* ep_sub(r, r, t[-n0 / 2])
                   ELSE r2
             rb == IF n1 > 0 THEN Add(ra, TabGet(t1, n1 \div 2))            \* ep_add(r, r, t1[n1 / 2])
                   ELSE IF n1 < 0 THEN Sub(ra, TabGet(t1, (-n1) \div 2))    \* ep_sub(r, r, t1[-n1 / 2])
                   ELSE ra
         IN  SimPlainLoop(s0, s1, t0, t1, i - 1, rb)
NegSeq(s) == [i \in 1..Len(s) |-> -s[i]]
SimPlain(k, m, q) ==
    LET t0 == EpTab(P, W)                                      \* ep_tab(t0, p, RLC_WIDTH)
        t1 == EpTab(q, W)                                      \* ep_tab(t1, q, RLC_WIDTH)
    IN  IF NafNoBuf(k, FPBITS + 1) \/ NafNoBuf(m, FPBITS + 1) THEN ERR   \* l0 = l1 = RLC_FP_BITS + 1; bn_rec_naf x 2
        ELSE LET a0 == RecNaf(k, W)
                 a1 == RecNaf(m, W)
                 l  == Max(Len(a0), Len(a1))                   \* l = RLC_MAX(l0, l1)
                 s0 == IF k < 0 THEN NegSeq(a0) ELSE a0        \* if (bn_sign(k) == RLC_NEG) naf0[i] = -naf0[i]
                 s1 == IF m < 0 THEN NegSeq(a1) ELSE a1
             IN  SimPlainLoop(s0, s1, t0, t1, l - 1, 0)        \* ep_set_infty(r)
(* ep_mul_sim_inter; ep_mul(r, q, m) of the degenerate branches is taken as its specification *)
MulSimInter(k, m, q) ==
    IF k = 0 THEN ExpOf(m, q)                                  \* if (bn_is_zero(k)) ep_mul(r, q, m)
    ELSE IF m = 0 THEN Exp(k)                                  \* if (bn_is_zero(m)) ep_mul(r, p, k)
    ELSE SimPlain(Mod(k, N), Mod(m, N), q)                     \* bn_mod(_k, k, n); bn_mod(_m, m, n); ep_mul_sim_plain(..., NULL)

(* bn_rec_win(win, len, k, w): C integer conversions matter here *)
RECURSIVE WinLoop(_, _, _, _, _)
WinLoop(k, w, i, l, acc) ==
    IF i < l - w THEN WinLoop(k, w, i + w, l, Append(acc, GetBits(k, i, i + w - 1)))   \* for (i = 0; i < l - w; i += w)
    ELSE Append(acc, GetBits(k, i, l - 1))                     \* win[j++] = get_bits(k, i, bn_bits(k) - 1)
RecWin(k, w, cap) ==
    LET l == Bits(k)                                           \* l = bn_bits(k)
    IN  IF l = 0 /\ w = 1 THEN [st |-> UNDEF, win |-> <<>>]    \* RLC_CEIL(0, 1) = SIZE_MAX / 1 + 1 wraps to 0, test passes; then i < l - w = SIZE_MAX: runaway loop
        ELSE IF l = 0 THEN [st |-> ERR, win |-> <<>>]          \* RLC_CEIL(l, w) = ((int)-1 converted to size_t) / w + 1 > *len: THROW(ERR_NO_BUFFER)
        ELSE IF cap < Ceil(l, w) THEN [st |-> ERR, win |-> <<>>]   \* if (*len < RLC_CEIL(l, w)) THROW
        ELSE IF l < w THEN [st |-> UNDEF, win |-> <<>>]        \* i < l - w: int l minus size_t w wraps to a huge size_t, the loop runs off the buffer
        ELSE [st |-> 0, win |-> WinLoop(k, w, 0, l, <<>>)]
WinAt(s, i) == IF i + 1 <= Len(s) THEN s[i + 1] ELSE 0         \* memset(win, 0, *len)

RECURSIVE MulTabFill(_, _, _)
MulTabFill(t, i, hi) == IF i >= hi THEN t
                        ELSE MulTabFill([t EXCEPT ![i] = Add(t[i - 1], t[1])], i + 1, hi)   \* ep_add(t0[i], t0[i - 1], t0[1])
TrickTab(p, w) == MulTabFill([[i \in 0..(2^w - 1) |-> UNDEF] EXCEPT ![0] = 0, ![1] = p], 2, 2^w)   \* ep_set_infty(t0[0]); ep_copy(t0[1], p)
RECURSIVE TrickLoop(_, _, _, _, _, _)
TrickLoop(w0, w1, t, w, i, r) ==
    IF i < 0 THEN r                                            \* for (i = RLC_MAX(l0, l1) - 1; i >= 0; i--)
    ELSE TrickLoop(w0, w1, t, w, i - 1,
                   Add(DblN(r, w), TabGet(t, WinAt(w0, i) * (2^w) + WinAt(w1, i))))   \* w doublings; ep_add(r, r, t[(w0[i] << w) + w1[i]])
MulSimTrick(k, m, q) ==
    IF k = 0 THEN ExpOf(m, q)                                  \* if (bn_is_zero(k)) ep_mul(r, q, m)
    ELSE IF m = 0 THEN Exp(k)                                  \* if (bn_is_zero(m)) ep_mul(r, p, k)
    ELSE LET w   == W \div 2                                   \* w = RLC_WIDTH / 2
             kk  == Mod(k, N)                                  \* bn_mod(_k, k, n)
             mm  == Mod(m, N)                                  \* bn_mod(_m, m, n)
             t0  == TrickTab(P, w)
             t1  == TrickTab(q, w)
             t   == [x \in 0..(2^W - 1) |->                    \* ep_t t[1 << RLC_WIDTH]
                        IF x < 2^(2 * w) THEN Add(t0[x \div (2^w)], t1[x % (2^w)])   \* ep_add(t[(i << w) + j], t0[i], t1[j])
                        ELSE UNDEF]
             cap == Ceil(FPBITS + 1, w)                        \* l0 = l1 = RLC_CEIL(RLC_FP_BITS + 1, w)
             r0  == RecWin(kk, w, cap)                         \* bn_rec_win(w0, &l0, _k, w)
             r1  == RecWin(mm, w, cap)                         \* bn_rec_win(w1, &l1, _m, w)
         IN  IF r0.st # 0 THEN r0.st
             ELSE IF r1.st # 0 THEN r1.st
             ELSE TrickLoop(r0.win, r1.win, t, w, Max(Len(r0.win), Len(r1.win)) - 1, 0)
(* input class on which bn_rec_win works: the reduced scalar has at least w bits *)
TrickClass(k, m) == LET w == W \div 2 IN
    (k = 0 \/ m = 0) \/ (Bits(Mod(k, N)) >= w /\ Bits(Mod(m, N)) >= w)

(* bn_rec_jsf(jsf, len, k, l): two digit rows, the second at offset *)
RECURSIVE JsfLoop(_, _, _, _, _, _)
JsfLoop(n0, n1, d0, d1, a0, a1) ==
    IF (n0 = 0 /\ d0 = 0) /\ (n1 = 0 /\ d1 = 0) THEN <<a0, a1>>   \* while (!(bn_is_zero(n0) && d0 == 0) || !(bn_is_zero(n1) && d1 == 0))
    ELSE LET l0 == ((n0 % 8) + d0) % 8                         \* bn_get_dig(&l0, n0); l0 = (l0 + d0) & RLC_MASK(3)
             l1 == ((n1 % 8) + d1) % 8                         \* bn_get_dig(&l1, n1); l1 = (l1 + d1) & RLC_MASK(3)
             u0 == IF l0 % 2 = 0 THEN 0                        \* if (l0 % 2 == 0) u0 = 0
                   ELSE LET v == 2 - (l0 % 4)                  \* u0 = 2 - (l0 & RLC_MASK(2))
                        IN  IF (l0 = 3 \/ l0 = 5) /\ (l1 % 4 = 2) THEN -v ELSE v   \* if ((l0 == 3 || l0 == 5) && ((l1 & 3) == 2)) u0 = -u0
             u1 == IF l1 % 2 = 0 THEN 0
                   ELSE LET v == 2 - (l1 % 4)                  \* u1 = 2 - (l1 & RLC_MASK(2))
                        IN  IF (l1 = 3 \/ l1 = 5) /\ (l0 % 4 = 2) THEN -v ELSE v
             e0 == IF d0 + d0 = 1 + u0 THEN 1 - d0 ELSE d0     \* if (d0 + d0 == 1 + u0) d0 = 1 - d0
             e1 == IF d1 + d1 = 1 + u1 THEN 1 - d1 ELSE d1
         IN  JsfLoop(n0 \div 2, n1 \div 2, e0, e1, Append(a0, u0), Append(a1, u1))   \* bn_hlv(n0, n0); bn_hlv(n1, n1)
RecJsf(k, l) == JsfLoop(Abs(k), Abs(l), 0, 0, <<>>, <<>>)
JsfNoBuf(k, cap) == cap < 2 * Bits(Abs(k)) + 1                 \* if (*len < (2 * bn_bits(k) + 1)) THROW(ERR_NO_BUFFER)
JsfOffset(k, l) == Max(Bits(Abs(k)), Bits(Abs(l))) + 1         \* offset = RLC_MAX(i, j) + 1

RECURSIVE JointLoop(_, _, _, _, _)
JointLoop(j0, j1, t, i, r) ==
    IF i < 0 THEN r                                            \* for (i = l - 1; i >= 0; i--)
    ELSE LET r2 == Dbl(r)                                      \* ep_dbl(r, r)
             a  == j0[i + 1]                                   \* jsf[i]
             b  == j1[i + 1]                                   \* jsf[i + offset]
             u  == a * 2 + b                                   \* u_i = jsf[i] * 2 + jsf[i + offset]
         IN  JointLoop(j0, j1, t, i - 1,
                 IF a # 0 /\ a = -b                            \* if (jsf[i] != 0 && jsf[i] == -jsf[i + offset])
                 THEN (IF u < 0 THEN Sub(r2, t[4]) ELSE Add(r2, t[4]))          \* ep_sub(r, r, t[4]) / ep_add(r, r, t[4])
                 ELSE (IF u < 0 THEN Sub(r2, TabGet(t, -u)) ELSE Add(r2, TabGet(t, u))))   \* ep_sub(r, r, t[-u_i]) / ep_add(r, r, t[u_i])
MulSimJoint(k, m, q) ==
    IF k = 0 THEN ExpOf(m, q)                                  \* if (bn_is_zero(k)) ep_mul(r, q, m)
    ELSE IF m = 0 THEN Exp(k)                                  \* if (bn_is_zero(m)) ep_mul(r, p, k)
    ELSE LET kk == Mod(k, N)                                   \* bn_mod(_k, k, n)
             mm == Mod(m, N)                                   \* bn_mod(_m, m, n)
             t1 == IF mm < 0 THEN Neg(q) ELSE q                \* ep_copy(t[1], q); if (bn_sign(_m) == RLC_NEG) ep_neg
             t2 == IF kk < 0 THEN Neg(P) ELSE P                \* ep_copy(t[2], p); if (bn_sign(_k) == RLC_NEG) ep_neg
             t  == [x \in 0..4 |-> CASE x = 0 -> 0             \* ep_set_infty(t[0])
                                     [] x = 1 -> t1
                                     [] x = 2 -> t2
                                     [] x = 3 -> Add(t2, t1)   \* ep_add(t[3], t[2], t[1])
                                     [] x = 4 -> Sub(t2, t1)]  \* ep_sub(t[4], t[2], t[1])
             cap == 2 * (FPBITS + 1)                           \* l = 2 * (RLC_FP_BITS + 1)
         IN  IF JsfNoBuf(kk, cap) THEN ERR                     \* bn_rec_jsf(jsf, &l, _k, _m)
             ELSE LET js == RecJsf(kk, mm)
                      l  == Len(js[1])
                  IN  IF JsfOffset(kk, mm) + l > cap THEN UNDEF    \* jsf[i + offset] outside int8_t jsf[2 * (RLC_FP_BITS + 1)]
                      ELSE JointLoop(js[1], js[2], t, l - 1, 0)    \* offset recomputed the same way in the caller

(* ep_mul_sim_lot_plain with n = 2 points: no reduction, sign moved to the point *)
RECURSIVE LotLoop(_, _, _, _, _, _)
LotLoop(s0, s1, p0, p1, i, r) ==
    IF i < 0 THEN r                                            \* for (i = l - 1; i >= 0; i--)
    ELSE LET r2 == Dbl(r)                                      \* ep_dbl(r, r)
             a  == NafAt(s0, i)                                \* naf[0 * l + i]
             b  == NafAt(s1, i)                                \* naf[1 * l + i]
             ra == IF a > 0 THEN Add(r2, p0) ELSE IF a < 0 THEN Sub(r2, p0) ELSE r2   \* ep_add / ep_sub(r, r, _p[j])
             rb == IF b > 0 THEN Add(ra, p1) ELSE IF b < 0 THEN Sub(ra, p1) ELSE ra
         IN  LotLoop(s0, s1, p0, p1, i - 1, rb)
MulSimLot(k, m, q) ==
    LET l  == Max(Bits(Abs(k)) + 1, Bits(Abs(m)) + 1)          \* l = RLC_MAX(l, bn_bits(k[i]) + 1)
        p0 == IF k < 0 THEN Neg(P) ELSE P                      \* if (bn_sign(k[i]) == RLC_NEG) ep_neg(_p[i], _p[i])
        p1 == IF m < 0 THEN Neg(q) ELSE q
    IN  IF NafNoBuf(k, l) \/ NafNoBuf(m, l) THEN ERR           \* _l[i] = l; bn_rec_naf(&naf[i * l], &_l[i], k[i], 2)
        ELSE LotLoop(RecNaf(k, 2), RecNaf(m, 2), p0, p1, l - 1, 0)


(***************************************************************************)
(* 7. GLV: ep_curve_set_endom's lattice basis (relic_ep_curve.c with       *)
(* bn_gcd_ext_mid of relic_bn_gcd.c), bn_rec_glv, ep_mul_glv_imp and       *)
(* ep_mul_reg_glv.  N = 1 mod 3, lam a primitive cube root of unity mod N, *)
(* ep_psi multiplies by lam.                                               *)
(***************************************************************************)
Lambdas == {x \in 2..(N - 1) : (x * x + x + 1) % N = 0}
Psi(x, lam) == IF x < 0 THEN UNDEF ELSE (lam * x) % N          \* ep_psi
Sg(x) == IF x < 0 THEN -1 ELSE 1                               \* bn_sign: -1 for RLC_NEG; zero is RLC_POS
FloorDiv(a, b) == IF b > 0 THEN a \div b ELSE (-a) \div (-b)   \* bn_div (bn_div_imp adjusts to the floor)
Isqrt(u) == CHOOSE r \in 0..u : r * r <= u /\ (r + 1) * (r + 1) > u   \* bn_srt

(* bn_gcd_ext_mid(c, d, e, f, a, b): partial extended Euclid, outputs two short vectors *)
RECURSIVE GemLoop(_)
GemLoop(st) ==
    IF st.v = 0 THEN st                                        \* while (!bn_is_zero(v))
    ELSE LET q  == st.u \div st.v                              \* bn_div_rem(q, r, u, v)
             r  == st.u % st.v
             x2 == st.t - q * st.x                             \* bn_mul(s, q, x); bn_sub(s, t, s)
             s1 == [st EXCEPT !.u = st.v, !.v = r, !.t = st.x, !.x = x2]   \* u = v; v = r; t = x; x = s
             s2 == IF st.wait THEN [s1 EXCEPT !.e = r, !.f = -x2, !.wait = FALSE] ELSE s1   \* if (wait) { e = r; f = -x; wait = 0; }
         IN  GemLoop(IF s2.u >= st.p                           \* if (bn_cmp(u, p) != RLC_LT)
                     THEN [s2 EXCEPT !.c = r, !.d = -x2, !.w = s2.u, !.y = -s2.t, !.wait = TRUE]   \* c = r; d = -x; w = u; y = -t; wait = 1
                     ELSE s2)
GcdExtMid(a, b) ==
    LET u0 == IF Abs(a) > Abs(b) THEN Abs(a) ELSE Abs(b)       \* if (bn_cmp_abs(a, b) == RLC_GT) u = |a|, v = |b| else swapped
        v0 == IF Abs(a) > Abs(b) THEN Abs(b) ELSE Abs(a)
        st == GemLoop([u |-> u0, v |-> v0, p |-> Isqrt(u0), x |-> 1, t |-> 0, wait |-> FALSE,   \* bn_srt(p, u); x = 1; t = 0
                       c |-> 0, d |-> 0, e |-> 0, f |-> 0, w |-> 0, y |-> 0])
    IN  IF st.w * st.w + st.y * st.y < st.e * st.e + st.f * st.f   \* if (bn_cmp(t, q) == RLC_LT) { e = w; f = y; }
        THEN [st EXCEPT !.e = st.w, !.f = st.y] ELSE st
(* the six constants v1[0..2], v2[0..2] as ep_curve_set_endom leaves them *)
EndomBasis(lam) ==
    LET g    == GcdExtMid(lam, N)                              \* bn_gcd_ext_mid(v1[1], v1[2], v2[1], v2[2], m, r)
        bits == Bits(N)
        det  == g.c * g.f - g.d * g.e                          \* m = v1[1] * v2[2] - v1[2] * v2[1]
        m1   == Sg(det) * (Abs(det) \div 2)                    \* bn_hlv(m, m)
        x1   == g.f * 2^(bits + 1)                             \* bn_lsh(v1[0], v2[2], bits + 1)
        y1   == IF x1 >= 0 THEN x1 + m1 ELSE x1 - m1           \* if (bn_sign(v1[0]) == RLC_POS) add m else sub m
        m2   == 2 * m1                                         \* bn_dbl(m, m)
        q1   == FloorDiv(y1, m2)                               \* bn_div(v1[0], v1[0], m)
        x2   == g.d * 2^(bits + 1)                             \* bn_lsh(v2[0], v1[2], bits + 1)
        y2   == IF x2 >= 0 THEN x2 + m2 ELSE x2 - m2           \* add / sub m, which is already doubled here
        q2   == FloorDiv(y2, m2)                               \* bn_div(v2[0], v2[0], m)
    IN  [v10 |-> IF q1 < 0 THEN q1 + 1 ELSE q1,                \* if (bn_sign(v1[0]) == RLC_NEG) bn_add_dig(v1[0], v1[0], 1)
         v11 |-> g.c, v12 |-> g.d,
         v20 |-> -(IF q2 < 0 THEN q2 + 1 ELSE q2),             \* same, then bn_neg(v2[0], v2[0])
         v21 |-> g.e, v22 |-> g.f, det |-> det]

(* bn_rec_glv(k0, k1, k, n, v1, v2); digit vectors of k and the v's are magnitudes *)
RoundShift(x, bits) == (x \div (2^(bits + 1))) + ((x \div (2^bits)) % 2)   \* r = bit bits; >> (bits + 1); bn_add1_low(b1, b1, r)
RecGlv(k, B) ==
    LET bits == Bits(N)
        b1 == RoundShift(Abs(k) * Abs(B.v10), bits)            \* b1 = (k * v10) >> (bits + 1), rounded
        b2 == RoundShift(Abs(k) * Abs(B.v20), bits)            \* b2 = (k * v20) >> (bits + 1), rounded
        c1 == Sg(B.v10) * b1
        c2 == Sg(B.v20) * b2
    IN  [k0 |-> Abs(k) - c1 * B.v11 - c2 * B.v21,              \* k0 = k - b1 * v11 - b2 * v21 with sign = v[0].sign ^ v[1].sign
         k1 |-> -(c1 * B.v12) - (c2 * B.v22)]                  \* k1 = 0 - b1 * v12 - b2 * v22 with sign = v[0].sign ^ v[2].sign

(* ep_mul_glv_imp *)
RECURSIVE GlvLoop(_, _, _, _, _, _, _)
GlvLoop(a0, a1, t, lam, flip, i, r) ==
    IF i < 0 THEN r                                            \* for (i = l - 1; i >= 0; i--, t0--, t1--)
    ELSE LET r2 == Dbl(r)                                      \* ep_dbl(r, r)
             n0 == NafAt(a0, i)                                \* n0 = *t0
             n1 == NafAt(a1, i)                                \* n1 = *t1
             ra == IF n0 > 0 THEN Add(r2, TabGet(t, n0 \div 2))            \* ep_add(r, r, t[n0 / 2])
                   ELSE IF n0 < 0 THEN Sub(r2, TabGet(t, (-n0) \div 2))    \* ep_sub(r, r, t[-n0 / 2])
                   ELSE r2
             q  == LET z == Psi(TabGet(t, Abs(n1) \div 2), lam)            \* ep_psi(q, t[n1 / 2]) resp. t[-n1 / 2]
                   IN  IF flip THEN Neg(z) ELSE z                          \* if (s0 != s1) ep_neg(q, q)
             rb == IF n1 > 0 THEN Add(ra, q)                   \* ep_add(r, r, q)
                   ELSE IF n1 < 0 THEN Sub(ra, q)              \* ep_sub(r, r, q)
                   ELSE ra
         IN  GlvLoop(a0, a1, t, lam, flip, i - 1, rb)
MulGlvImp(k, lam) ==
    IF k = 0 THEN 0                                            \* ep_mul_lwnaf: if (bn_is_zero(k)) ep_set_infty(r)
    ELSE LET m  == Mod(k, N)                                   \* bn_mod(m, k, n)
             kk == RecGlv(m, EndomBasis(lam))                  \* bn_rec_glv(k0, k1, m, n, v1, v2)
             s0 == Sg(kk.k0)                                   \* s0 = bn_sign(k0)
             s1 == Sg(kk.k1)                                   \* s1 = bn_sign(k1)
             t  == IF s0 = 1 THEN EpTab(P, W) ELSE EpTab(Neg(P), W)   \* ep_tab(t, p, w) or ep_neg(q, p); ep_tab(t, q, w)
         IN  IF NafNoBuf(kk.k0, FPBITS + 1) \/ NafNoBuf(kk.k1, FPBITS + 1) THEN ERR   \* l0 = l1 = RLC_FP_BITS + 1; bn_rec_naf x 2
             ELSE LET a0 == RecNaf(kk.k0, W)
                      a1 == RecNaf(kk.k1, W)
                  IN  GlvLoop(a0, a1, t, lam, s0 # s1, Max(Len(a0), Len(a1)) - 1, 0)   \* l = RLC_MAX(l0, l1); ep_set_infty(r)

(* ep_mul_reg_glv; u and w are the two registers of the table scan *)
RECURSIVE RegGlvLoop(_, _, _, _, _, _, _, _, _)
RegGlvLoop(g0, g1, t, lam, sdiff, i, r, u, w) ==
    IF i < 0 THEN r                                            \* for (i = l - 1; i >= 0; i--)
    ELSE LET r1 == DblN(r, W - 1)                              \* RLC_WIDTH - 1 doublings
             n0 == g0[i + 1]                                   \* n0 = reg[0][i]
             n1 == g1[i + 1]                                   \* n1 = reg[1][i]
             i0 == Abs(n0) \div 2                              \* c0 = (n0 >> 7); n0 = ((n0 ^ c0) - c0) >> 1
             i1 == Abs(n1) \div 2
             u1 == IF i0 \in DOMAIN t THEN t[i0] ELSE u        \* fp_copy_sec(u, t[j], j == n0)
             w1 == IF i1 \in DOMAIN t THEN t[i1] ELSE w        \* fp_copy_sec(w, t[j], j == n1)
             q  == IF n0 < 0 THEN Neg(u1) ELSE u1              \* ep_neg(q, u); fp_copy_sec(q->y, u->y, c0 == 0)
             ra == Add(r1, q)                                  \* ep_add(r, r, q)
             w2 == Psi(w1, lam)                                \* ep_psi(w, w)
             w3 == IF (n1 < 0) # sdiff THEN Neg(w2) ELSE w2    \* ep_neg(q, w); fp_copy_sec(w->y, q->y, (c1 != 0) ^ (s[0] != s[1]))
         IN  RegGlvLoop(g0, g1, t, lam, sdiff, i - 1, Add(ra, w3), u1, w3)   \* ep_add(r, r, w)
GlvRegL == Ceil(Max(Bits(N) \div 2, 1), W - 1)                 \* bn_rec_reg's l for n = bn_bits(n) >> 1
MulRegGlv(k, lam) ==
    IF k = 0 THEN 0                                            \* ep_mul_lwreg: if (bn_is_zero(k)) ep_set_infty(r)
    ELSE LET kk == RecGlv(Mod(k, N), EndomBasis(lam))          \* bn_mod(m[0], k, n); bn_rec_glv(m[0], m[1], m[0], n, v1, v2)
             s0 == Sg(kk.k0)                                   \* s[i] = bn_sign(m[i])
             s1 == Sg(kk.k1)
             b0 == Abs(kk.k0) % 2 = 0                          \* bn_abs(m[i], m[i]); b[i] = bn_is_even(m[i])
             b1 == Abs(kk.k1) % 2 = 0
             m0 == IF b0 THEN Abs(kk.k0) + 1 ELSE Abs(kk.k0)   \* m[i]->dp[0] |= b[i]
             m1 == IF b1 THEN Abs(kk.k1) + 1 ELSE Abs(kk.k1)
             pq == IF s0 = 1 THEN P ELSE Neg(P)                \* ep_neg(q, t[0]); dv_copy_sec(q->y, t[0]->y, s[0] == RLC_POS)
             t  == EpTab(pq, W)                                \* ep_tab(t, q, RLC_WIDTH): t[0] = q
             nb == Bits(N) \div 2                              \* bn_bits(n) >> 1
             r0 == RecReg(m0, nb, W, FPBITS + 1)               \* l = RLC_FP_BITS + 1; bn_rec_reg(reg[0], &l, m[0], bn_bits(n) >> 1, w)
             r1 == RecReg(m1, nb, W, FPBITS + 1)
         IN  IF r0.err \/ r1.err THEN ERR
             ELSE IF r0.ovf \/ r1.ovf THEN UNDEF
             ELSE LET r  == RegGlvLoop(r0.digs, r1.digs, t, lam, s0 # s1, r1.len - 1, 0, UNDEF, UNDEF)
                      ua == Sub(r, t[0])                       \* ep_sub(u, r, t[0]); t[0] is q = +-P
                      ra == IF b0 THEN ua ELSE r               \* fp_copy_sec(r, u, b[0])
                      wq == Psi(t[0], lam)                     \* ep_psi(w, t[0])
                      qq == IF s0 = s1 THEN wq ELSE Neg(wq)    \* ep_neg(q, w); fp_copy_sec(q->y, w->y, s[0] == s[1])
                      ub == Sub(ra, qq)                        \* ep_sub(u, r, q)
                  IN  IF b1 THEN ub ELSE ra                    \* fp_copy_sec(r, u, b[1])
(* ep_mul_reg_glv needs both sub-scalars inside bn_rec_reg's range for n = bits(n) >> 1 *)
GlvRegFits(kk) == /\ Abs(kk.k0) < 2^((GlvRegL + 1) * (W - 1))
                  /\ Abs(kk.k1) < 2^((GlvRegL + 1) * (W - 1))

(***************************************************************************)
(* State space: one state per parameter tuple                              *)
(***************************************************************************)
GlvAlgs == {"glv_basis", "glv_imp", "glv_reg"}
WAlgs   == {"glv_imp", "glv_reg", "lwnaf", "lwreg", "slide", "fix_lwnaf", "sim_inter", "sim_trick",
            "rec_naf", "rec_reg", "rec_slw", "rec_win", "tab"}      \* parameterised by RLC_WIDTH
DAlgs   == {"combs", "combd"}                                      \* parameterised by RLC_DEPTH
DigAlgs == {"lwreg", "basic", "dig", "monty", "rec_reg"}                  \* RLC_DIG matters
PairAlgs == {"sim_inter", "sim_trick", "sim_joint", "sim_lot", "rec_jsf"}
WidthsOf(a) == IF a \in WAlgs THEN Widths ELSE IF a \in DAlgs THEN Depths ELSE {2}
DigsOf(a, n) == IF a = "monty" THEN {Bits(n)} \cup Digs   \* a digit as wide as the order: bits(n) a multiple of RLC_DIG
                ELSE IF a \in DigAlgs THEN Digs ELSE {64}
BasesOf(a, n) == IF a \in {"glv_basis", "rec_naf", "rec_reg", "rec_slw", "rec_win", "rec_jsf"} THEN {1}
                 ELSE IF AllBases /\ a \notin PairAlgs THEN 1..(n - 1) ELSE {1, 3}

Init == /\ alg \in Algs /\ N \in (IF alg \in GlvAlgs THEN GlvOrders ELSE Orders)
        /\ W \in WidthsOf(alg) /\ P \in BasesOf(alg, N) /\ DG \in DigsOf(alg, N)
        /\ go = FALSE
Next == ~go /\ go' = TRUE /\ UNCHANGED <<alg, N, W, P, DG>>
Spec == Init /\ [][Next]_vars

(***************************************************************************)
(* Invariants                                                              *)
(***************************************************************************)
Tag(k, got) == <<alg, "N", N, "W", W, "P", P, "DG", DG, "k", k, "got", got, "exp", Exp(k)>>
Cnt(c) == PrintT(<<"@@", "CNT", alg, c>>)

(* single-scalar algorithms: result = [k]P on all of KSet *)
Single(F(_)) == \A k \in KSet : LET r == F(k) IN Chk(r = Exp(k), Tag(k, r))

InvLwnaf == (go /\ alg = "lwnaf") => Single(MulLwnaf)
InvMonty == (go /\ alg = "monty") => /\ Single(MulMonty)
                             /\ \A k \in KSet \ {0} :          \* the scalar the ladder walks: bit bits set, = m mod n, used fix-up right
                                  LET ms == MontyScalar(k) IN
                                  /\ ms.l = ms.want /\ Bits(ms.l) = ms.bits + 1
                                  /\ ms.l % N = Mod(k, N)
InvSlide == (go /\ alg = "slide") => Single(MulSlide)
InvBasic == (go /\ alg = "basic") => Single(MulBasic)
InvDig   == (go /\ alg = "dig") => \A kd \in 0..(IF DG >= 10 THEN 1025 ELSE 2^DG - 1) :
                                 LET r == MulDig(P, kd) IN Chk(r = Exp(kd), Tag(kd, r))
InvCombs == (go /\ alg = "combs") => Single(MulCombs)
InvCombd == (go /\ alg = "combd") => Single(MulCombd)
InvFixBasic == (go /\ alg = "fix_basic") => Single(MulFixBasic)

(* ep_mul_lwreg: correct exactly on RegClass; outside it never correct on KSet *)
(* longer scalars: the top digit wraps around int8_t (2^12 - 1 at w = 5: top digit 255 read as -1) *)
RegExtra == {2^11 - 1, 2^11 + 3, 2^12 - 1, -(2^12 - 1), 2^12 + 1, 2^13 + 5, -(2^13 + 5), 255 * 16, 129 * 16 + 3, 257 * 8}
InvLwreg == (go /\ alg = "lwreg") =>
    /\ RegBufOK
    /\ \A k \in KSet \cup RegExtra : LET r == MulLwreg(k) IN
           IF k = 0 \/ RegClass(k) THEN Chk(r = Exp(k), Tag(k, r))
           ELSE Chk(r # Exp(k), <<"lwreg right outside class", Tag(k, r)>>)

(* ep_mul_fix_lwnaf: correct unless the reduced scalar is zero (k = c * n, c # 0), *)
(* where ep_mul_fix_plain reads naf[-1]                                            *)
FixLwnafZero(k) == k # 0 /\ Mod(k, N) = 0
InvFixLwnaf == (go /\ alg = "fix_lwnaf") =>
    \A k \in KSet : LET r == MulFixLwnaf(k) IN
        IF FixLwnafZero(k) THEN Chk(r = UNDEF, Tag(k, r))
        ELSE Chk(r = Exp(k), Tag(k, r))

(* tables *)
InvTab == (go /\ alg = "tab") =>
    /\ LET t == EpTab(P, W) IN \A i \in DOMAIN t : t[i] = Exp(2 * i + 1)           \* ep_tab: t[i] = (2i + 1)P
    /\ LET t == SlideTab(P, W) IN \A i \in DOMAIN t : t[i] = Exp(2 * i + 1)        \* ep_mul_slide: 2^(w-1) odd multiples
    /\ W \in Depths =>
         /\ LET t == PreCombs  l == Ceil(Bits(N), W) IN                            \* t[sum a_j 2^j] = sum a_j 2^(l j) P
              \A x \in DOMAIN t : t[x] = Exp(SumDig([j \in 1..W |-> Bit(x, j - 1)], 1, 2^l))
         /\ LET t == PreCombd IN
              \A x \in 0..(2^W - 1) :
                 /\ t[x] = Exp(SumDig([j \in 1..W |-> Bit(x, j - 1)], 1, 2^CombdD))
                 /\ t[2^W + x] = Mod((2^CombdE) * t[x], N)
    /\ LET t == PreBasic IN \A i \in DOMAIN t : t[i] = Exp(2^i)
    /\ LET t == TrickTab(P, W \div 2) IN \A i \in DOMAIN t : t[i] = Exp(i)

(* recodings *)
RecRange == 0..Max(3 * N, 1025)
InvRecNaf == (go /\ alg = "rec_naf") =>
    \A k \in RecRange : LET s == RecNaf(k, W) IN
        Chk(/\ SumDig(s, 1, 2) = k                                         \* sum naf[i] 2^i = k
            /\ Len(s) <= Bits(k) + 1                                       \* fits the tested buffer
            /\ \A i \in 1..Len(s) : s[i] = 0 \/ (s[i] % 2 = 1 /\ Abs(s[i]) < 2^(W - 1))   \* odd, indexes 2^(w-2) entries
            /\ \A i \in 1..Len(s) : s[i] # 0 =>
                   \A j \in (i + 1)..Min(Len(s), i + W - 1) : s[j] = 0     \* non-adjacent form
            /\ (k > 0 => s[Len(s)] > 0),                                   \* leading digit positive (ep_mul_fix_plain)
            <<"rec_naf", W, k, s>>)
InvRecReg == (go /\ alg = "rec_reg") =>
    \A k \in {x \in RecRange : x % 2 = 1} :
        LET rr == RecReg(k, Bits(N), W, RegL + 1)
            s  == rr.digs
        IN  Chk(/\ ~rr.err /\ rr.len = Len(s)
                /\ \A i \in 1..(Len(s) - 1) : s[i] % 2 = 1 /\ Abs(s[i]) < 2^(W - 1)   \* regular: every digit odd, in the table
                /\ (~rr.ovf /\ k < 2^(RegL * (W - 1) + 7)) => SumDig(s, 1, 2^(W - 1)) = k   \* exact while the top digit fits int8_t
                /\ (~rr.ovf /\ k < 2^((RegL + 1) * (W - 1))) => (s[Len(s)] % 2 = 1 /\ s[Len(s)] > 0 /\ s[Len(s)] < 2^(W - 1)),
                <<"rec_reg", N, W, DG, k, s>>)
RECURSIVE SlwVal(_, _, _)
SlwVal(s, i, v) == IF i > Len(s) THEN v
                   ELSE SlwVal(s, i + 1, IF s[i] = 0 THEN 2 * v ELSE v * (2^Bits(s[i])) + s[i])
InvRecSlw == (go /\ alg = "rec_slw") =>
    \A k \in RecRange : LET s == RecSlw(k, W) IN
        Chk(/\ Len(s) <= Bits(k)                                           \* fits the tested buffer
            /\ \A i \in 1..Len(s) : s[i] = 0 \/ (s[i] % 2 = 1 /\ s[i] < 2^W)   \* odd windows of at most w bits: t[win >> 1] in the table
            /\ SlwVal(s, 1, 0) = k,                                        \* left-to-right evaluation gives k back
            <<"rec_slw", W, k, s>>)
InvRecWin == (go /\ alg = "rec_win") =>
    \A k \in RecRange : LET rw == RecWin(k, W, Ceil(Bits(k) + 1, W)) IN
        Chk(IF Bits(k) >= W
            THEN /\ rw.st = 0 /\ SumDig(rw.win, 1, 2^W) = k
                 /\ Len(rw.win) = Ceil(Bits(k), W) /\ \A i \in 1..Len(rw.win) : rw.win[i] < 2^W
            ELSE rw.st # 0,                                                \* k = 0: ERR_NO_BUFFER; 0 < bits(k) < w: runaway loop
            <<"rec_win", W, k, rw>>)
InvRecJsf == (go /\ alg = "rec_jsf") =>
    \A k \in 0..(2 * N), m \in 0..(2 * N) : LET js == RecJsf(k, m) IN
        Chk(/\ SumDig(js[1], 1, 2) = k /\ SumDig(js[2], 1, 2) = m
            /\ Len(js[1]) = Len(js[2]) /\ Len(js[1]) <= JsfOffset(k, m)    \* the two rows do not overlap
            /\ \A i \in 1..Len(js[1]) : js[1][i] \in {-1, 0, 1} /\ js[2][i] \in {-1, 0, 1}
            /\ \A i \in 1..(Len(js[1]) - 2) :                              \* joint sparse form: of three consecutive columns one is zero
                   \E j \in i..(i + 2) : js[1][j] = 0 /\ js[2][j] = 0
            /\ \A i \in 1..(Len(js[1]) - 1) :                              \* adjacent non-zero digits of a row have the same sign
                   js[1][i] * js[1][i + 1] # -1 /\ js[2][i] * js[2][i + 1] # -1,
            <<"rec_jsf", k, m, js>>)


(* GLV *)
InvGlvBasis == (go /\ alg = "glv_basis") =>
    /\ Lambdas # {}
    /\ \A lam \in Lambdas : LET B == EndomBasis(lam) IN
         /\ Chk(/\ (B.v11 + B.v12 * lam) % N = 0               \* both vectors lie in the lattice {(x, y) : x + y lam = 0 mod n}
                /\ (B.v21 + B.v22 * lam) % N = 0
                /\ Abs(B.det) = N,                             \* and generate it
                <<"glv basis", N, lam, B>>)
         /\ \A k \in 0..(N - 1) : LET kk == RecGlv(k, B) IN
              Chk(/\ Mod(kk.k0 + kk.k1 * lam, N) = k           \* k = k0 + k1 lam (mod n)
                  /\ Bits(Abs(kk.k0)) + 1 <= FPBITS + 1        \* naf0, naf1 [RLC_FP_BITS + 1] of ep_mul_glv_imp
                  /\ Bits(Abs(kk.k1)) + 1 <= FPBITS + 1,
                  <<"rec_glv", N, lam, k, kk, B>>)
InvGlvImp == (go /\ alg = "glv_imp") =>
    \A lam \in Lambdas : \A k \in KSet : LET r == MulGlvImp(k, lam) IN Chk(r = Exp(k), <<"lam", lam, Tag(k, r)>>)
(* ep_mul_reg_glv: right, and both sub-scalars fit the regular recoding of bits(n) >> 1 bits *)
(* (the analogue of RegClass, here guaranteed by the size of the GLV split)                  *)
InvGlvReg == (go /\ alg = "glv_reg") =>
    \A lam \in Lambdas : \A k \in KSet : LET r == MulRegGlv(k, lam) IN
        /\ Chk(r = Exp(k), <<"lam", lam, Tag(k, r)>>)
        /\ Chk(GlvRegFits(RecGlv(Mod(k, N), EndomBasis(lam))), <<"glv split too long for bn_rec_reg", N, W, lam, k>>)

(* two-scalar algorithms *)
TagP(k, m, q, got) == <<alg, "N", N, "W", W, "P", P, "Q", q, "k", k, "m", m, "got", got, "exp", ExpSim(k, m, q)>>
Pair(F(_, _, _)) == \A q \in QBases : \A k \in KPair, m \in KPair :
                        LET r == F(k, m, q) IN Chk(r = ExpSim(k, m, q), TagP(k, m, q, r))
InvSimInter == (go /\ alg = "sim_inter") => Pair(MulSimInter)
InvSimJoint == (go /\ alg = "sim_joint") => Pair(MulSimJoint)
InvSimLot   == (go /\ alg = "sim_lot") => Pair(MulSimLot)
InvSimTrick == (go /\ alg = "sim_trick") =>
    \A q \in QBases : \A k \in KPair, m \in KPair :
        LET r == MulSimTrick(k, m, q) IN
        IF TrickClass(k, m) THEN Chk(r = ExpSim(k, m, q), TagP(k, m, q, r))
        ELSE Chk(r \in {ERR, UNDEF}, TagP(k, m, q, r))

Counted == go => Cnt(CASE alg = "rec_jsf" -> (2 * N + 1) * (2 * N + 1)
                          [] alg \in PairAlgs \ {"rec_jsf"} -> Cardinality(KPair) * Cardinality(KPair) * Cardinality(QBases)
                          [] alg \in {"rec_naf", "rec_slw", "rec_win"} -> Cardinality(RecRange)
                          [] alg = "rec_reg" -> Cardinality(RecRange) \div 2
                          [] alg = "tab" -> 1
                          [] alg = "dig" -> (IF DG >= 10 THEN 1026 ELSE 2^DG)
                          [] alg = "glv_basis" -> N * Cardinality(Lambdas)
                          [] alg \in {"glv_imp", "glv_reg"} -> Cardinality(KSet) * Cardinality(Lambdas)
                          [] alg = "lwreg" -> Cardinality(KSet \cup RegExtra)
                          [] OTHER -> Cardinality(KSet))
=============================================================================
