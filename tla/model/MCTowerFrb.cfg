CONSTANTS p = 7
 nq = 1
 qnr2 = 2
 cnr = 2
SPECIFICATION Spec
INVARIANT Check
CHECK_DEADLOCK FALSE
