CONSTANTS KBits = 10  JBits = 6  WMax = 8  DigBits = 8
SPECIFICATION Spec
INVARIANTS NafPartial NafDone RegPartial RegDone JsfPartial JsfDone Bounded
CHECK_DEADLOCK FALSE
