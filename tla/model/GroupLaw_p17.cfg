CONSTANTS Primes = {17}  ZFullUpTo = 0
SPECIFICATION Spec
INVARIANTS RefIsGroup RepsSound InfOperandsOK
           DblBasicOK AddBasicOK SubBasicOK
           DblProjcOK AddProjcOK ProjcExceptionalOnlyOrder2 ProjcCompleteOnOddOrder SubProjcOK
           DblJacobOK AddJacobOK SubJacobOK
           NegOK NegPermutesReps NormOK InfFormsCovered CmpOK MixedShortcutsAgree AddProjcAliasQ Stats
CHECK_DEADLOCK FALSE
