CONSTANTS p = 3
 usq = 2
 ASet = "all"
 BSet = "all"
 AssocAll = TRUE
 AssocStep = 1
 MaxK = 40
SPECIFICATION Spec
INVARIANT Check
CHECK_DEADLOCK FALSE
