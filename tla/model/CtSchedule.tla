----------------------------- MODULE CtSchedule -----------------------------
(***************************************************************************)
(* C20 at design level: self-composition of the secret-scalar algorithms.  *)
(* Each algorithm is its digit loop as coded, over the abstract cyclic     *)
(* group Z_n (a point is its discrete log), emitting one LABEL per         *)
(* group-level operation (dbl, add, sub, neg, norm, masked swap / copy /   *)
(* table scan).  Two runs with the same PUBLIC input (order n, hence the   *)
(* bit length; window w) and arbitrary SECRET scalars must emit the same   *)
(* label sequence - and each run must still compute k*P mod n.             *)
(*   ladder   ep_mul_monty: l = (k mod n) + n (+ n), bits+1 bits, per bit  *)
(*            swap add dbl swap                                            *)
(*   reg      ep_mul_reg_imp: m = |k| | 1, fixed-length regular recoding   *)
(*            (all digits odd), per digit w-1 dbl, full-table masked scan, *)
(*            neg, masked copy, add; final sub + masked copy for even k,   *)
(*            norm, neg + masked copy for the sign                         *)
(*   binary   left-to-right double-and-add: the NON-regular control, for   *)
(*            which TLC must find a counterexample (CtSchedule_ctl.cfg)    *)
(***************************************************************************)
EXTENDS Naturals, Integers, Sequences, TLC

CONSTANTS N,        \* the (public) group order
          Wd,       \* window width of the regular recoding
          Alg       \* "ladder" | "reg" | "binary"

RECURSIVE Pow2(_)
Pow2(i) == IF i = 0 THEN 1 ELSE 2 * Pow2(i - 1)
RECURSIVE BitsOf(_)
BitsOf(x) == IF x = 0 THEN 0 ELSE 1 + BitsOf(x \div 2)
Bit(x, i) == (x \div Pow2(i)) % 2
NB == BitsOf(N)

(* ------------------------------------------------------------ ladder *)
RECURSIVE LadderR(_, _, _, _, _)
LadderR(l, i, t0, t1, tr) ==      \* invariant t1 = t0 + 1 (as multiples of P)
    IF i < 0 THEN <<t0, tr \o <<"norm">>>>
    ELSE LET j == Bit(l, i)
             \* swap if j = 0, add, dbl, swap back
             a0 == IF j = 0 THEN t1 ELSE t0
             a1 == IF j = 0 THEN t0 ELSE t1
             s0 == (a0 + a1) % N
             s1 == (2 * a1) % N
             n0 == IF j = 0 THEN s1 ELSE s0
             n1 == IF j = 0 THEN s0 ELSE s1
         IN  LadderR(l, i - 1, n0, n1, tr \o <<"swap", "add", "dbl", "swap">>)
Ladder(k) ==
    IF k = 0 THEN <<0, <<"zero">>>>        \* the zero scalar is a public special case
    ELSE LET l0 == (k % N) + N
             l  == IF Bit(l0, NB) = 0 THEN l0 + N ELSE l0      \* masked swap of l and l + n
         IN  LadderR(l, NB - 1, 1, 2, <<"swap", "norm", "dbl", "blind", "blind">>)

(* ------------------------------------------------------------ regular recoding *)
(* bn_rec_reg: fixed number of odd signed digits of width Wd for an odd m *)
RECURSIVE RecReg(_, _, _)
RecReg(m, len, i) ==
    IF i = len THEN <<>>
    ELSE IF i = len - 1 THEN <<m>>
    ELSE LET d == (m % Pow2(Wd)) - Pow2(Wd - 1)      \* odd digit in (-2^(w-1), 2^(w-1))
         IN  <<d>> \o RecReg((m - d) \div Pow2(Wd - 1), len, i + 1)
RECURSIVE Rep(_, _)
Rep(x, n) == IF n = 0 THEN <<>> ELSE <<x>> \o Rep(x, n - 1)
RECURSIVE RegR(_, _, _, _)
RegR(digs, i, acc, tr) ==
    IF i < 1 THEN <<acc, tr>>
    ELSE LET a2 == (acc * Pow2(Wd - 1)) % N
         IN  RegR(digs, i - 1, (a2 + digs[i] + N * Pow2(Wd)) % N,
                  tr \o Rep("dbl", Wd - 1) \o Rep("scan", Pow2(Wd - 2)) \o <<"neg", "copy", "add">>)
Reg(k) ==
    LET ak   == IF k < 0 THEN 0 - k ELSE k
        m    == IF ak % 2 = 0 THEN ak + 1 ELSE ak          \* m->dp[0] |= 1
        len  == ((NB + (Wd - 1) - 1) \div (Wd - 1)) + 1
        digs == RecReg(m, len, 0)
        main == RegR(digs, len, 0, <<"tab">>)
        fix  == IF ak % 2 = 0 THEN (main[1] + N - 1) % N ELSE main[1]     \* sub + masked copy
        res  == IF k < 0 THEN (N - fix) % N ELSE fix
    IN  <<res, main[2] \o <<"sub", "copy", "norm", "neg", "copy">>>>

(* ------------------------------------------------------------ binary (control) *)
RECURSIVE BinR(_, _, _, _)
BinR(k, i, acc, tr) ==
    IF i < 0 THEN <<acc, tr \o <<"norm">>>>
    ELSE LET d == (2 * acc) % N IN
         IF Bit(k, i) = 1 THEN BinR(k, i - 1, (d + 1) % N, tr \o <<"dbl", "add">>)
         ELSE BinR(k, i - 1, d, tr \o <<"dbl">>)
Binary(k) == BinR(k, BitsOf(k) - 1, 0, <<>>)

Run(k) == CASE Alg = "ladder" -> Ladder(k) [] Alg = "reg" -> Reg(k) [] OTHER -> Binary(k)

(* Self-composition, reduced: "any two runs of a class agree" is checked as "every run agrees *)
(* with the reference run of the class" (the scalar N - 1); one state per secret scalar.     *)
VARIABLE k
Secrets == IF Alg = "reg" THEN ((0 - (N - 1))..(N - 1)) \ {0} ELSE 1..(N - 1)
Init == k \in Secrets
Next == UNCHANGED k
Spec == Init /\ [][Next]_k

Ref == Run(N - 1)[2]                      \* constant: evaluated once
SameSchedule == Run(k)[2] = Ref
Computes == Run(k)[1] = k % N
=============================================================================
