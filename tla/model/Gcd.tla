--------------------------------- MODULE Gcd ---------------------------------
(***************************************************************************)
(* The gcd algorithms of src/bn/relic_bn_gcd.c transcribed on native       *)
(* integers with W-bit digits (Bs = 2^W), one action per outer-loop        *)
(* iteration, the inner cosequence loop as a recursive operator:           *)
(*   "lehme"  bn_gcd_lehme: Lehmer's algorithm in the double-digit form of *)
(*            the Handbook of Elliptic and Hyperelliptic Curve             *)
(*            Cryptography: leading-digit approximation, single-precision  *)
(*            cosequence (A B; C D) in W-bit two's complement (dis_t),     *)
(*            fallback to one Euclidean division when B = 0, refinement    *)
(*            on the leading two digits otherwise;                         *)
(*   "xlehme" bn_gcd_ext_lehme: the same with one cofactor pair carried    *)
(*            along and the second cofactor recovered by a division;       *)
(*   "xbasic" bn_gcd_ext_basic: extended Euclid;                           *)
(*   "xbinar" bn_gcd_ext_binar: extended binary gcd including the final    *)
(*            cofactor reduction loop.                                     *)
(* Checked for all operand pairs 1 <= a, b < 2^KBits: every iteration      *)
(* preserves the gcd, the loops terminate within a step bound, the result  *)
(* is the gcd and the cofactors satisfy Bezout's identity.  The one        *)
(* deviation of the code as it stands is part of the model and of its      *)
(* invariant (BinarThrow): bn_gcd_ext_binar divides by zero when the       *)
(* second operand divides the first (known finding).                       *)
(***************************************************************************)
EXTENDS Integers, Sequences, TLC

CONSTANTS W,        \* bits per digit
          KBits,    \* operands below 2^KBits
          Algs      \* subset of {"lehme", "xlehme", "xbasic", "xbinar"}

RECURSIVE Pow2(_)
Pow2(n) == IF n = 0 THEN 1 ELSE 2 * Pow2(n - 1)
RECURSIVE Bits(_)
Bits(n) == IF n = 0 THEN 0 ELSE 1 + Bits(n \div 2)
Abs(x) == IF x < 0 THEN 0 - x ELSE x
Bs == Pow2(W)
Half == Pow2(W \div 2)
ToSigned(z) == LET m == z % Bs IN IF m >= Bs \div 2 THEN m - Bs ELSE m     \* dig_t -> dis_t
RECURSIVE GcdN(_, _)
GcdN(a, b) == IF b = 0 THEN a ELSE GcdN(b, a % b)
(* sign-magnitude operations of the bn layer *)
RshMag(v, s) == IF v >= 0 THEN v \div Pow2(s) ELSE 0 - ((0 - v) \div Pow2(s))
Hlv(v) == RshMag(v, 1)
(* floor division (bn_div) *)
FloorDiv(a, b) == a \div b

VARIABLES alg, a0, b0, x, y, p, q, r, s, sh, swap, pc, steps, inexact, c, d, e
vars == <<alg, a0, b0, x, y, p, q, r, s, sh, swap, pc, steps, inexact, c, d, e>>

(* ------------------------------------------------------------ cosequence *)
(* the inner while(1) loop of the C code; state (yy, t, qq, A, B, C, D);     *)
(* assignment order of the code: (A, C) <- (C, A - q*C), (B, D) <- (D, B - q*D), *)
(* computed in dig_t and stored in dis_t (W-bit two's complement)            *)
RECURSIVE CoLoop(_, _, _, _, _, _, _)
CoLoop(yy, t, qq, A, B, C, D) ==
    LET q2 == yy \div t
        t2 == yy % t
    IN  IF t2 < Half THEN <<A, B, C, D>>
        ELSE CoLoop(t, t2, q2, C, D, ToSigned(A - qq * C), ToSigned(B - qq * D))
(* one pass: quotient / remainder of the leading digits, then the loop *)
Coseq(xx, yy, A, B, C, D) ==
    IF yy = 0 THEN <<A, B, C, D>>
    ELSE LET t == xx % yy IN
         IF t >= Half THEN
            CoLoop(yy, t, xx \div yy, A, B, C, D)
         ELSE <<A, B, C, D>>

Top(v, bx, width) == IF bx > width THEN RshMag(v, bx - width) ELSE v

(* the two-stage Lehmer step: returns <<A, B, C, D>> *)
LehmerMatrix ==
    LET bx == Bits(Abs(x))
        m1 == Coseq(Abs(Top(x, bx, W)) % Bs, Abs(Top(y, bx, W)) % Bs, 1, 0, 0, 1)
    IN  IF m1[2] = 0 THEN m1
        ELSE LET u  == Top(x, bx, 2 * W)
                 v  == Top(y, bx, 2 * W)
                 u2 == m1[1] * u + m1[2] * v
                 v2 == m1[3] * u + m1[4] * v
                 b2 == Bits(Abs(u2))
             IN  Coseq(Abs(Top(u2, b2, W)) % Bs, Abs(Top(v2, b2, W)) % Bs, m1[1], m1[2], m1[3], m1[4])

(* extended Euclid of bn_gcd_ext_dig: <<g, u, v>> with u*|xx| + v*yy = g *)
RECURSIVE XE(_, _, _, _, _, _)
XE(r0, r1, s0, s1, t0, t1) == IF r1 = 0 THEN <<r0, s0, t0>>
                              ELSE LET qq == r0 \div r1 IN XE(r1, r0 - qq * r1, s1, s0 - qq * s1, t1, t0 - qq * t1)

(* ------------------------------------------------------------ initial states *)
Init == /\ alg \in Algs
        /\ a0 \in 1..(Pow2(KBits) - 1) /\ b0 \in 1..(Pow2(KBits) - 1)
        /\ steps = 0 /\ inexact = FALSE /\ c = 0 /\ sh = 0
        /\ IF alg = "lehme"
           THEN /\ x = (IF a0 > b0 THEN a0 ELSE b0) /\ y = (IF a0 > b0 THEN b0 ELSE a0)
                /\ swap = FALSE /\ p = 0 /\ q = 0 /\ r = 0 /\ s = 0 /\ d = 0 /\ e = 0 /\ pc = "loop"
           ELSE IF alg = "xlehme"
           THEN /\ swap = (a0 < b0)
                /\ x = (IF a0 >= b0 THEN a0 ELSE b0) /\ y = (IF a0 >= b0 THEN b0 ELSE a0)
                /\ p = 0 /\ d = 1            \* p is t4 of the C code
                /\ q = 0 /\ r = 0 /\ s = 0 /\ e = 0 /\ pc = "loop"
           ELSE IF alg = "xbasic"
           THEN /\ x = a0 /\ y = b0 /\ p = 0 /\ q = 1 /\ d = 1 /\ e = 0   \* p = x_1, q = y_1
                /\ swap = FALSE /\ r = 0 /\ s = 0 /\ pc = "loop"
           ELSE /\ x = a0 /\ y = b0 /\ swap = FALSE
                /\ p = 1 /\ q = 0 /\ d = 0 /\ e = 1   \* p = A, q = B, d = C, e = D ; r = u, s = v
                /\ r = 0 /\ s = 0 /\ pc = "shift"

(* ------------------------------------------------------------ Lehmer *)
LehmerStep ==
    /\ alg \in {"lehme", "xlehme"} /\ pc = "loop"
    /\ steps' = steps + 1
    /\ IF Abs(y) >= Bs                                    \* y->used > 1
       THEN LET m == LehmerMatrix IN
            IF m[2] = 0
            THEN /\ x' = y /\ y' = x % y                   \* fallback: one Euclidean step
                 /\ IF alg = "xlehme"
                    THEN /\ p' = d /\ d' = p - (x \div y) * d
                    ELSE UNCHANGED <<p, d>>
                 /\ UNCHANGED <<pc, c, e>>
            ELSE /\ x' = m[1] * x + m[2] * y
                 /\ y' = m[3] * x + m[4] * y
                 /\ IF alg = "xlehme"
                    THEN /\ p' = m[1] * p + m[2] * d /\ d' = m[3] * p + m[4] * d
                    ELSE UNCHANGED <<p, d>>
                 /\ UNCHANGED <<pc, c, e>>
       ELSE LET g == XE(Abs(x), Abs(y) % Bs, 1, 0, 0, 1) IN  \* bn_gcd_ext_dig(c, u, v, x, y->dp[0])
            /\ c' = g[1] /\ pc' = "done"
            /\ IF alg = "xlehme"
               THEN IF ~swap
                    THEN LET t4 == p * g[2] + d * g[3] IN
                         /\ e' = t4 /\ d' = FloorDiv(g[1] - b0 * t4, a0) /\ p' = t4
                    ELSE LET dd == p * g[2] + d * g[3] IN
                         /\ d' = dd /\ e' = FloorDiv(g[1] - a0 * dd, b0) /\ p' = p
               ELSE UNCHANGED <<p, d, e>>
            /\ UNCHANGED <<x, y>>
    /\ UNCHANGED <<alg, a0, b0, q, r, s, sh, swap, inexact>>

(* ------------------------------------------------------------ extended Euclid *)
BasicStep ==
    /\ alg = "xbasic" /\ pc = "loop"
    /\ steps' = steps + 1
    /\ IF y # 0
       THEN LET qq == x \div y IN
            /\ x' = y /\ y' = x % y
            /\ d' = p /\ p' = d - qq * p
            /\ e' = q /\ q' = e - qq * q
            /\ UNCHANGED <<pc, c>>
       ELSE /\ c' = x /\ pc' = "done" /\ UNCHANGED <<x, y, p, q, d, e>>
    /\ UNCHANGED <<alg, a0, b0, r, s, sh, swap, inexact>>

(* ------------------------------------------------------------ extended binary *)
Even(v) == v % 2 = 0
BinarStep ==
    /\ alg = "xbinar" /\ pc \in {"shift", "ueven", "main", "fix"}
    /\ steps' = steps + 1
    /\ CASE pc = "shift" ->
              IF Even(x) /\ Even(y)
              THEN /\ x' = x \div 2 /\ y' = y \div 2 /\ sh' = sh + 1
                   /\ UNCHANGED <<pc, p, q, d, e, r, s, c, inexact>>
              ELSE /\ r' = x /\ s' = y /\ pc' = "ueven"
                   /\ UNCHANGED <<x, y, sh, p, q, d, e, c, inexact>>
         [] pc = "ueven" ->
              IF Even(r)
              THEN /\ r' = r \div 2
                   /\ IF Even(p) /\ Even(q)
                      THEN p' = Hlv(p) /\ q' = Hlv(q) /\ UNCHANGED inexact
                      ELSE /\ p' = Hlv(p + y) /\ q' = Hlv(q - x)
                           /\ inexact' = (inexact \/ ~Even(p + y) \/ ~Even(q - x))
                   /\ UNCHANGED <<pc, x, y, sh, d, e, s, c>>
              ELSE pc' = "main" /\ UNCHANGED <<x, y, sh, p, q, d, e, r, s, c, inexact>>
         [] pc = "main" ->
              IF r # s
              THEN IF Even(s)
                   THEN /\ s' = s \div 2
                        /\ IF Even(d) /\ Even(e)
                           THEN d' = Hlv(d) /\ e' = Hlv(e) /\ UNCHANGED inexact
                           ELSE /\ d' = Hlv(d + y) /\ e' = Hlv(e - x)
                                /\ inexact' = (inexact \/ ~Even(d + y) \/ ~Even(e - x))
                        /\ UNCHANGED <<pc, x, y, sh, p, q, r, c>>
                   ELSE IF s < r
                        THEN /\ r' = s /\ s' = r /\ d' = p /\ p' = d /\ e' = q /\ q' = e
                             /\ UNCHANGED <<pc, x, y, sh, c, inexact>>
                        ELSE /\ s' = s - r /\ d' = d - p /\ e' = e - q
                             /\ UNCHANGED <<pc, x, y, sh, p, q, r, c, inexact>>
              ELSE \* c = u << shift; x = x/u; y = y/u; A = hlv(x); B = hlv(y)
                   /\ c' = r * Pow2(sh)
                   /\ x' = x \div r /\ y' = y \div r
                   /\ p' = Hlv(x \div r) /\ q' = Hlv(y \div r)
                   /\ pc' = "fix"
                   /\ UNCHANGED <<sh, d, e, r, s, inexact>>
         [] pc = "fix" ->
              IF Abs(d) > Abs(q) \/ Abs(e) > Abs(p)
              THEN IF q = 0
                   THEN pc' = "throw" /\ UNCHANGED <<x, y, sh, p, q, d, e, r, s, c, inexact>>   \* bn_div by zero
                   ELSE LET t0 == FloorDiv(d, q)
                            t  == IF Bits(Abs(t0)) > 1 THEN Hlv(t0) ELSE t0
                            vv == x * t
                            uu == y * t
                        IN  /\ IF (d < 0) # (uu < 0)
                               THEN d' = d + uu /\ e' = e - vv
                               ELSE d' = d - uu /\ e' = e + vv
                            /\ UNCHANGED <<pc, x, y, sh, p, q, r, s, c, inexact>>
              ELSE pc' = "done" /\ UNCHANGED <<x, y, sh, p, q, d, e, r, s, c, inexact>>
    /\ UNCHANGED <<alg, a0, b0, swap>>

Next == LehmerStep \/ BasicStep \/ BinarStep
Spec == Init /\ [][Next]_vars

(* ------------------------------------------------------------ invariants *)
G0 == GcdN(a0, b0)
(* every Lehmer / Euclid iteration preserves the gcd *)
GcdPreserved == (alg \in {"lehme", "xlehme", "xbasic"} /\ pc = "loop") => GcdN(Abs(x), Abs(y)) = G0
(* Lehmer's linear steps keep the pair ordered and non-negative, so the loop makes progress *)
LehmerOrdered == (alg \in {"lehme", "xlehme"} /\ pc = "loop") => (x >= y /\ y >= 0 /\ x > 0)
(* extended Euclid: both rows are combinations of the inputs *)
BasicRows == (alg = "xbasic" /\ pc = "loop") => (d * a0 + e * b0 = x /\ p * a0 + q * b0 = y)
(* extended binary: rows A*x + B*y = u, C*x + D*y = v; every halving is exact *)
BinarRows == (alg = "xbinar" /\ pc \in {"ueven", "main"}) => (p * x + q * y = r /\ d * x + e * y = s /\ ~inexact)
BinarFix == (alg = "xbinar" /\ pc = "fix") => d * x + e * y = 1
Result == pc = "done" => c = G0
Bezout == (pc = "done" /\ alg # "lehme") => d * a0 + e * b0 = c
(* the known finding, exactly: the cofactor reduction divides by zero iff the second operand divides the first *)
BinarThrow == pc = "throw" => (alg = "xbinar" /\ a0 % b0 = 0)
Terminates == steps <= 8 * KBits + 16
=============================================================================
