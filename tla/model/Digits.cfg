CONSTANTS W = 2  MaxLen = 3
SPECIFICATION Spec
INVARIANT Correct
CHECK_DEADLOCK FALSE
