------------------------------ MODULE GroupLaw ------------------------------
(***************************************************************************)
(* C03, design level: the point addition / doubling FORMULA PROGRAMS of    *)
(* RELIC (src/tmpl/relic_ep_add_tmpl.h, relic_ep_dbl_tmpl.h) transcribed   *)
(* statement by statement as register programs over native integers mod a  *)
(* small prime p, together with the exceptional-case dispatch as coded     *)
(* (relic_ep_add.c, relic_ep_dbl.c, relic_ep_neg.c, relic_ep_norm.c,       *)
(* relic_ep_cmp.c, relic_ep_util.c), checked against the textbook affine   *)
(* group law for EVERY nonsingular curve y^2 = x^3 + ax + b over F_p,      *)
(* p in Primes, every ordered pair of points and every representation the  *)
(* routines accept.  Same style as MCCurve: one state per curve (those     *)
(* with go = TRUE), each check is an invariant evaluated on that state.    *)
(* (The other states are only the fan-out p -> (p, a) -> (p, a, b) -> go   *)
(* that lets TLC's workers share the curves; invariants are vacuous there.)*)
(*                                                                         *)
(* Reading guide.  Every line of a program is                              *)
(*     <register><version> == <field op>     \* <the C statement>          *)
(* in the order of the C statements; a register that is overwritten gets   *)
(* a new version (t3a, t3b, ..., rx1, rx2, ...).  Where the C code joins   *)
(* after an if (p->coord == BASIC) the statements after the join are a     *)
(* separate operator ("...Tail") whose parameters are exactly the          *)
(* registers that are live at the join.  Build assumed: CHECK on, STRIP    *)
(* off, EP_MIXED on (the defaults), so the _IMP templates are the          *)
(* non-STRIP versions.                                                     *)
(*                                                                         *)
(* Findings recorded in this model.  Each is the narrowest carve-out, is   *)
(* stated EXACTLY by the invariant named (drop the carve-out and TLC       *)
(* reports the violation), and was reproduced on the real library:         *)
(*  F1 (DblBasicOK, AddBasicOK, SubBasicOK) ep_dbl_basic on a point of     *)
(*     order two (y = 0), hence ep_add_basic(P, P') and ep_sub of two      *)
(*     copies of it: fp_inv(0) throws ERR_NO_VALID, r is not written; the  *)
(*     group law says infinity.  p = 11, a = 1, b = 0, P = (0, 0).         *)
(*  F2 (AddProjcOK, ProjcExceptionalOnlyOrder2, ProjcCompleteOnOddOrder)   *)
(*     ep_add_projc, all of mix / BASIC shortcut / full, all three opt_a   *)
(*     branches: for finite P, Q with P - Q of exact order two the result  *)
(*     is the all-zero triple, which ep_is_infty reads as infinity (wrong  *)
(*     unless Q = -P).  Exactly these pairs, nothing else; none on curves  *)
(*     of odd order.  p = 11, a = 1, b = 0 (order 12): P = (7 : 2 : 2) =   *)
(*     (9, 1), Q = (4 : 2 : 3) = (5, 8), P - Q = (0, 0); result (0, 0, 0), *)
(*     group law (9, 10).                                                  *)
(*  F3 (CmpOK) ep_cmp special-cases infinity only when BOTH operands are   *)
(*     infinity.  An infinity with x = y = 0 tagged PROJC / JACOB compares *)
(*     RLC_EQ to EVERY finite point (both sides of the cross               *)
(*     multiplication are 0); ep_add_jacob returns exactly that,           *)
(*     (0, 0, 0) tagged JACOB, for P + (-P) (ep_set_infty, then            *)
(*     r->coord = JACOB), and F2 produces it tagged PROJC.  Tagged BASIC   *)
(*     (ep_set_infty) it compares RLC_EQ to the finite point (0, 0) of     *)
(*     curves with b = 0.  p = 11, a = 1, b = 6 (prime order 13):          *)
(*     I = ep_add_jacob((5, 2), (5, 9)) = (0, 0, 0, JACOB);                *)
(*     ep_cmp(I, (7, 2)) = ep_cmp((7, 2), I) = RLC_EQ.                     *)
(*  F4 (AddProjcAliasQ) ep_add_projc(q, p, q) - the result aliases the     *)
(*     SECOND operand - on a = -3 curves with q not affine: the RLC_MIN3   *)
(*     branch of TMPL_ADD_PROJC_IMP writes r->x and then reads q->x.       *)
(*     p = 11, a = 8, b = 6: p = (2 : 4 : 2) = (1, 2), q = (5 : 6 : 3) =   *)
(*     (9, 2): un-aliased (2 : 7 : 2) = (1, 9) (correct), aliased          *)
(*     (4 : 1 : 4) = (1, 3), not on the curve.  r = p is safe everywhere.  *)
(***************************************************************************)
EXTENDS Integers, FiniteSets, TLC
CONSTANTS Primes,      \* set of primes >= 5
          ZFullUpTo    \* projective / Jacobian operands: EVERY z in 1..p-1 for p <= ZFullUpTo,
                       \* z in {1, 2, 3, p-1} for larger p
ASSUME /\ \A q \in Primes : q \in Nat /\ q >= 5 /\ \A d \in 2..(q - 1) : q % d # 0
       /\ ZFullUpTo \in Nat
VARIABLES p, a, b,
          inv,      \* the inverse table of F_p, DEFINED by v * inv[v] = 1 (mod p)
          go        \* TRUE on the one state per curve on which the invariants are evaluated
vars == <<p, a, b, inv, go>>

Init == /\ p \in Primes /\ a = -1 /\ b = -1 /\ go = FALSE
        /\ inv = [v \in 1..(p - 1) |-> CHOOSE w \in 1..(p - 1) : (v * w) % p = 1]
Next == \/ /\ a = -1 /\ a' \in 0..(p - 1) /\ UNCHANGED <<p, b, inv, go>>
        \/ /\ a >= 0 /\ b = -1 /\ b' \in 0..(p - 1)
           /\ (4 * a * a * a + 27 * b' * b') % p # 0          \* nonsingular
           /\ UNCHANGED <<p, a, inv, go>>
        \/ /\ b >= 0 /\ ~go /\ go' = TRUE /\ UNCHANGED <<p, a, b, inv>>
Spec == Init /\ [][Next]_vars
IsCurve == go

(***************************************************************************)
(* F_p on native integers (all register values are in 0..p-1)              *)
(***************************************************************************)
Fp == 0..(p - 1)
FAdd(u, v) == (u + v) % p          \* fp_add
FSub(u, v) == (u + p - v) % p      \* fp_sub
FMul(u, v) == (u * v) % p          \* fp_mul
FSqr(u) == (u * u) % p             \* fp_sqr
FDbl(u) == (u + u) % p             \* fp_dbl
FNeg(u) == (p - u) % p             \* fp_neg
FInv(u) == inv[u]                  \* fp_inv for u # 0 (TLC stops if a program reaches it with 0);
                                   \* fp_inv(0) throws ERR_NO_VALID, modelled at the one call site that can reach it
MulA(u) == FMul(a, u)              \* ep_curve_mul_a (its opt_a shortcuts are value preserving)
MulB(u) == FMul(b, u)              \* ep_curve_mul_b
(* detect_opt in relic_ep_curve.c tests IN THIS ORDER: a == -3 -> RLC_MIN3; a == 0 -> RLC_ZERO;   *)
(* a == 1 -> RLC_ONE; a == 2 -> RLC_TWO; small -> RLC_TINY; else RLC_HUGE.  The templates only     *)
(* distinguish ZERO / MIN3 / everything else.  Because MIN3 is tested first, a = p - 3 is MIN3     *)
(* even when it is also a small integer: the only coincidence for p >= 5 is p = 5, a = 2 = p - 3,  *)
(* which is RLC_MIN3 and never RLC_TWO (for p = 7 MIN3 is a = 4, for p = 11 a = 8, ...).  As       *)
(* p - 3 # 0, ZERO and MIN3 never coincide.  RLC_ONE / TWO / TINY / HUGE only select how           *)
(* ep_curve_mul_a multiplies (copy, double, fp_mul_dig, fp_mul): plain multiplication by a here.   *)
OptA == IF a = p - 3 THEN "MIN3" ELSE IF a = 0 THEN "ZERO" ELSE "GEN"

(***************************************************************************)
(* The definition: textbook affine group law (same shape as lib/Curve.tla  *)
(* PAdd/PDbl/PNeg, on native integers).                                    *)
(***************************************************************************)
NInf == [inf |-> TRUE, x |-> 0, y |-> 0]
NPt(x, y) == [inf |-> FALSE, x |-> x, y |-> y]
NInv(v) == inv[v]
NRhs(x) == (x * x * x + a * x + b) % p
NOnCurve(A) == A.inf \/ (A.y * A.y) % p = NRhs(A.x)
NNeg(A) == IF A.inf THEN NInf ELSE NPt(A.x, (p - A.y) % p)
NDbl(A) ==
    IF A.inf \/ A.y = 0 THEN NInf
    ELSE LET l  == ((3 * A.x * A.x + a) * NInv((2 * A.y) % p)) % p
             x3 == (l * l + 2 * p - A.x - A.x) % p
             y3 == (l * (A.x + p - x3) + p - A.y) % p
         IN  NPt(x3, y3)
NAdd(A, B) ==
    IF A.inf THEN B
    ELSE IF B.inf THEN A
    ELSE IF A.x = B.x THEN (IF A.y = B.y THEN NDbl(A) ELSE NInf)
    ELSE LET l  == ((B.y + p - A.y) * NInv((B.x + p - A.x) % p)) % p
             x3 == (l * l + 2 * p - A.x - B.x) % p
             y3 == (l * (A.x + p - x3) + p - A.y) % p
         IN  NPt(x3, y3)
NSub(A, B) == NAdd(A, NNeg(B))
Finite == {NPt(w[1], w[2]) : w \in {v \in Fp \X Fp : NOnCurve(NPt(v[1], v[2]))}}
G == {NInf} \cup Finite
Order2(A) == ~A.inf /\ A.y = 0          \* the points of exact order two

(***************************************************************************)
(* Raw points [x, y, z, c], c as in relic_conf.h: BASIC 1, PROJC 2,        *)
(* JACOB 3; abstraction = lib/FpRep.tla PAbs.                              *)
(***************************************************************************)
BASIC == 1
PROJC == 2
JACOB == 3
Raw(vx, vy, vz, vc) == [x |-> vx, y |-> vy, z |-> vz, c |-> vc]
Retag(R, vc) == [R EXCEPT !.c = vc]
Abs(R) == IF R.z = 0 THEN NInf
          ELSE IF R.c = BASIC THEN NPt(R.x, R.y)
          ELSE LET zi == NInv(R.z) IN
               IF R.c = PROJC THEN NPt((R.x * zi) % p, (R.y * zi) % p)
               ELSE NPt((R.x * zi * zi) % p, (R.y * ((zi * zi * zi) % p)) % p)
IsInfty(R) == R.z = 0                           \* ep_is_infty: fp_is_zero(p->z)
SetInfty == Raw(0, 0, 0, BASIC)                 \* ep_set_infty: x = y = z = 0, coord = BASIC
Throw == Raw(0, 0, 0, 0)                        \* c = 0: the call threw (RLC_THROW), r was not written
Unset == -1                                     \* a register the C code has not written on this path

(***************************************************************************)
(* relic_ep_dbl_tmpl.h  TMPL_DBL_BASIC_IMP  (ep_dbl_basic_imp, s = NULL)   *)
(***************************************************************************)
DblBasicImp(P) ==
    LET
        t0a == FDbl(P.y)                       \* fp_dbl(t0, p->y)
    IN  IF t0a = 0 THEN Throw   \* fp_inv(t0, t0) with t0 = 0: fp_is_zero(a) -> RLC_THROW(ERR_NO_VALID); r untouched
        ELSE LET
                 t0b == FInv(t0a)                 \* fp_inv(t0, t0)
                 t1a == FSqr(P.x)                 \* fp_sqr(t1, p->x)
                 t2a == t1a                       \* fp_copy(t2, t1)
                 t1b == FDbl(t1a)                 \* fp_dbl(t1, t1)
                 t1c == FAdd(t1b, t2a)            \* fp_add(t1, t1, t2)
                 t1d == FAdd(t1c, a)              \* fp_add(t1, t1, ep_curve_get_a())
                 t1e == FMul(t1d, t0b)            \* fp_mul(t1, t1, t0)
                 t2b == FSqr(t1e)                 \* fp_sqr(t2, t1)
                 t0c == FDbl(P.x)                 \* fp_dbl(t0, p->x)
                 t0d == FSub(t2b, t0c)            \* fp_sub(t0, t2, t0)
                 t2c == FSub(P.x, t0d)            \* fp_sub(t2, p->x, t0)
                 t1f == FMul(t1e, t2c)            \* fp_mul(t1, t1, t2)
                 ry1 == FSub(t1f, P.y)            \* fp_sub(r->y, t1, p->y)
                 rx1 == t0d                       \* fp_copy(r->x, t0)
                 rz1 == P.z                       \* fp_copy(r->z, p->z)
             IN  Raw(rx1, ry1, rz1, BASIC)     \* r->coord = BASIC
(* relic_ep_dbl.c ep_dbl_basic *)
EpDblBasic(P) == IF IsInfty(P) THEN SetInfty    \* if (ep_is_infty(p)) { ep_set_infty(r); return; }
                 ELSE DblBasicImp(P)            \* ep_dbl_basic_imp(r, NULL, p)

(***************************************************************************)
(* TMPL_DBL_PROJC_IMP (ep_dbl_projc_imp): RCB complete doubling            *)
(***************************************************************************)
(* branch opt_a == RLC_ZERO, statements after the if (p->coord == BASIC) join *)
DblProjcZeroTail(t0, t1, t2, t3) ==
    LET
        rz1 == FDbl(t0)                        \* fp_dbl(r->z, t0)
        rz2 == FDbl(rz1)                       \* fp_dbl(r->z, r->z)
        rz3 == FDbl(rz2)                       \* fp_dbl(r->z, r->z)
        rx1 == FMul(t2, rz3)                   \* fp_mul(r->x, t2, r->z)
        ry1 == FAdd(t0, t2)                    \* fp_add(r->y, t0, t2)
        rz4 == FMul(t1, rz3)                   \* fp_mul(r->z, t1, r->z)
        t1a == FDbl(t2)                        \* fp_dbl(t1, t2)
        t2a == FAdd(t1a, t2)                   \* fp_add(t2, t1, t2)
        t0a == FSub(t0, t2a)                   \* fp_sub(t0, t0, t2)
        ry2 == FMul(t0a, ry1)                  \* fp_mul(r->y, t0, r->y)
        ry3 == FAdd(rx1, ry2)                  \* fp_add(r->y, r->x, r->y)
        rx2 == FMul(t0a, t3)                   \* fp_mul(r->x, t0, t3)
        rx3 == FDbl(rx2)                       \* fp_dbl(r->x, r->x)
    IN  Raw(rx3, ry3, rz4, PROJC)                  \* r->coord = PROJC

(* branch opt_a == RLC_MIN3, statements after the if (p->coord == BASIC) join, then the "common part" *)
DblProjcMin3Tail(P, ry, t0, t1, t2, t3, t4) ==
    LET
        rz1 == FMul(P.x, P.z)                  \* fp_mul(r->z, p->x, p->z)
        rz2 == FDbl(rz1)                       \* fp_dbl(r->z, r->z)
        ry1 == FSub(ry, rz2)                   \* fp_sub(r->y, r->y, r->z)
        rx1 == FDbl(ry1)                       \* fp_dbl(r->x, r->y)
        ry2 == FAdd(rx1, ry1)                  \* fp_add(r->y, r->x, r->y)
        rx2 == FSub(t1, ry2)                   \* fp_sub(r->x, t1, r->y)
        ry3 == FAdd(t1, ry2)                   \* fp_add(r->y, t1, r->y)
        ry4 == FMul(rx2, ry3)                  \* fp_mul(r->y, r->x, r->y)
        rx3 == FMul(t3, rx2)                   \* fp_mul(r->x, t3, r->x)
        rz3 == MulB(rz2)                       \* ep_curve_mul_b(r->z, r->z)
        t3a == FSub(rz3, t2)                   \* fp_sub(t3, r->z, t2)
        t3b == FSub(t3a, t0)                   \* fp_sub(t3, t3, t0)
        rz4 == FDbl(t3b)                       \* fp_dbl(r->z, t3)
        t3c == FAdd(t3b, rz4)                  \* fp_add(t3, t3, r->z)
        rz5 == FDbl(t0)                        \* fp_dbl(r->z, t0)
        t0a == FAdd(t0, rz5)                   \* fp_add(t0, t0, r->z)
        t0b == FSub(t0a, t2)                   \* fp_sub(t0, t0, t2)
        \* Common part with renamed variables.
        t0c == FMul(t0b, t3c)                  \* [common] fp_mul(t0, t0, t3)
        ry5 == FAdd(ry4, t0c)                  \* [common] fp_add(r->y, r->y, t0)
        t2a == FDbl(t4)                        \* [common] fp_dbl(t2, t4)
        t0d == FMul(t2a, t3c)                  \* [common] fp_mul(t0, t2, t3)
        rx4 == FSub(rx3, t0d)                  \* [common] fp_sub(r->x, r->x, t0)
        rz6 == FMul(t2a, t1)                   \* [common] fp_mul(r->z, t2, t1)
        rz7 == FDbl(rz6)                       \* [common] fp_dbl(r->z, r->z)
        rz8 == FDbl(rz7)                       \* [common] fp_dbl(r->z, r->z)
    IN  Raw(rx4, ry5, rz8, PROJC)                  \* r->coord = PROJC

(* branch opt_a generic (else), statements after the if (p->coord == BASIC) join, then the "common part" *)
DblProjcGenTail(P, ry, t0, t1, t2, t3, t4) ==
    LET
        rz1 == FMul(P.x, P.z)                  \* fp_mul(r->z, p->x, p->z)
        rz2 == FDbl(rz1)                       \* fp_dbl(r->z, r->z)
        rx1 == MulA(rz2)                       \* ep_curve_mul_a(r->x, r->z)
        ry1 == FAdd(rx1, ry)                   \* fp_add(r->y, r->x, r->y)
        rx2 == FSub(t1, ry1)                   \* fp_sub(r->x, t1, r->y)
        ry2 == FAdd(t1, ry1)                   \* fp_add(r->y, t1, r->y)
        ry3 == FMul(rx2, ry2)                  \* fp_mul(r->y, r->x, r->y)
        rx3 == FMul(t3, rx2)                   \* fp_mul(r->x, t3, r->x)
        t5a == FDbl(rz2)                       \* fp_dbl(t5, r->z)
        t5b == FAdd(t5a, rz2)                  \* fp_add(t5, t5, r->z)
        rz3 == MulB(t5b)                       \* ep_curve_mul_b(r->z, t5)
        t3a == FSub(t0, t2)                    \* fp_sub(t3, t0, t2)
        t3b == MulA(t3a)                       \* ep_curve_mul_a(t3, t3)
        t3c == FAdd(t3b, rz3)                  \* fp_add(t3, t3, r->z)
        rz4 == FDbl(t0)                        \* fp_dbl(r->z, t0)
        t0a == FAdd(t0, rz4)                   \* fp_add(t0, t0, r->z)
        t0b == FAdd(t0a, t2)                   \* fp_add(t0, t0, t2)
        \* Common part with renamed variables.
        t0c == FMul(t0b, t3c)                  \* [common] fp_mul(t0, t0, t3)
        ry4 == FAdd(ry3, t0c)                  \* [common] fp_add(r->y, r->y, t0)
        t2a == FDbl(t4)                        \* [common] fp_dbl(t2, t4)
        t0d == FMul(t2a, t3c)                  \* [common] fp_mul(t0, t2, t3)
        rx4 == FSub(rx3, t0d)                  \* [common] fp_sub(r->x, r->x, t0)
        rz5 == FMul(t2a, t1)                   \* [common] fp_mul(r->z, t2, t1)
        rz6 == FDbl(rz5)                       \* [common] fp_dbl(r->z, r->z)
        rz7 == FDbl(rz6)                       \* [common] fp_dbl(r->z, r->z)
    IN  Raw(rx4, ry4, rz7, PROJC)                  \* r->coord = PROJC

DblProjcImp(P) ==
    IF OptA = "ZERO" THEN                       \* if (ep_curve_opt_a() == RLC_ZERO)
        LET
            t0a == FSqr(P.y)                   \* fp_sqr(t0, p->y)
            t3a == FMul(P.x, P.y)              \* fp_mul(t3, p->x, p->y)
        IN  IF P.c = BASIC THEN                 \* if (p->coord == BASIC)
                LET
                     t1a == P.y                       \* fp_copy(t1, p->y)
                     t2a == FDbl(b)                   \* fp_dbl(t2, ep_curve_get_b())
                     t2b == FAdd(t2a, b)              \* fp_add(t2, t2, ep_curve_get_b())
                IN  DblProjcZeroTail(t0a, t1a, t2b, t3a)
            ELSE
                LET
                     t1a == FMul(P.y, P.z)            \* fp_mul(t1, p->y, p->z)
                     t2a == FSqr(P.z)                 \* fp_sqr(t2, p->z)
                     t5a == FDbl(t2a)                 \* fp_dbl(t5, t2)
                     t5b == FAdd(t5a, t2a)            \* fp_add(t5, t5, t2)
                     t2b == MulB(t5b)                 \* ep_curve_mul_b(t2, t5)
                IN  DblProjcZeroTail(t0a, t1a, t2b, t3a)
    ELSE
        LET
            t0a == FSqr(P.x)                   \* fp_sqr(t0, p->x)
            t1a == FSqr(P.y)                   \* fp_sqr(t1, p->y)
            t3a == FMul(P.x, P.y)              \* fp_mul(t3, p->x, p->y)
            t3b == FDbl(t3a)                   \* fp_dbl(t3, t3)
            t4a == FMul(P.y, P.z)              \* fp_mul(t4, p->y, p->z)
        IN  IF OptA = "MIN3" THEN               \* if (ep_curve_opt_a() == RLC_MIN3)
                IF P.c = BASIC THEN             \* if (p->coord == BASIC)
                    LET
                         t2a == (3 % p)                   \* fp_set_dig(t2, 3)
                         ry1 == b                         \* fp_copy(r->y, ep_curve_get_b())
                    IN  DblProjcMin3Tail(P, ry1, t0a, t1a, t2a, t3b, t4a)
                ELSE
                    LET
                         t2a == FSqr(P.z)                 \* fp_sqr(t2, p->z)
                         ry1 == MulB(t2a)                 \* ep_curve_mul_b(r->y, t2)
                         t5a == FDbl(t2a)                 \* fp_dbl(t5, t2)
                         t2b == FAdd(t2a, t5a)            \* fp_add(t2, t2, t5)
                    IN  DblProjcMin3Tail(P, ry1, t0a, t1a, t2b, t3b, t4a)
            ELSE
                IF P.c = BASIC THEN             \* if (p->coord == BASIC)
                    LET
                         ry1 == FDbl(b)                   \* fp_dbl(r->y, ep_curve_get_b())
                         ry2 == FAdd(ry1, b)              \* fp_add(r->y, r->y, ep_curve_get_b())
                         t2a == a                         \* fp_copy(t2, ep_curve_get_a())
                    IN  DblProjcGenTail(P, ry2, t0a, t1a, t2a, t3b, t4a)
                ELSE
                    LET
                         t2a == FSqr(P.z)                 \* fp_sqr(t2, p->z)
                         t5a == FDbl(t2a)                 \* fp_dbl(t5, t2)
                         t5b == FAdd(t5a, t2a)            \* fp_add(t5, t5, t2)
                         ry1 == MulB(t5b)                 \* ep_curve_mul_b(r->y, t5)
                         t2b == MulA(t2a)                 \* ep_curve_mul_a(t2, t2)
                    IN  DblProjcGenTail(P, ry1, t0a, t1a, t2b, t3b, t4a)
(* relic_ep_dbl.c ep_dbl_projc *)
EpDblProjc(P) == IF IsInfty(P) THEN SetInfty    \* if (ep_is_infty(p)) { ep_set_infty(r); return; }
                 ELSE DblProjcImp(P)

(***************************************************************************)
(* TMPL_DBL_JACOB_IMP (ep_dbl_jacob_imp)                                   *)
(***************************************************************************)
(* else branch (dbl-2007-bl), p->coord != BASIC: statements after z3 *)
DblJacobBlGeneral(P, t0, t1, t2, t3, rz) ==
    LET
        t4a == FAdd(P.x, t1)                   \* fp_add(t4, p->x, t1)
        t4b == FSqr(t4a)                       \* fp_sqr(t4, t4)
        t4c == FSub(t4b, t0)                   \* fp_sub(t4, t4, t0)
        t4d == FSub(t4c, t2)                   \* fp_sub(t4, t4, t2)
        t4e == FDbl(t4d)                       \* fp_dbl(t4, t4)
        t5a == FDbl(t0)                        \* fp_dbl(t5, t0)
        t5b == FAdd(t5a, t0)                   \* fp_add(t5, t5, t0)
        t3a == FSqr(t3)                        \* [p->coord != BASIC] fp_sqr(t3, t3)
        t1a == MulA(t3a)                       \* [p->coord != BASIC] ep_curve_mul_a(t1, t3)
        t5c == FAdd(t5b, t1a)                  \* [p->coord != BASIC] fp_add(t5, t5, t1)
        rx1 == FSqr(t5c)                       \* fp_sqr(r->x, t5)
        t1b == FDbl(t4e)                       \* fp_dbl(t1, t4)
        rx2 == FSub(rx1, t1b)                  \* fp_sub(r->x, r->x, t1)
        t2a == FDbl(t2)                        \* fp_dbl(t2, t2)
        t2b == FDbl(t2a)                       \* fp_dbl(t2, t2)
        t2c == FDbl(t2b)                       \* fp_dbl(t2, t2)
        t4f == FSub(t4e, rx2)                  \* fp_sub(t4, t4, r->x)
        t5d == FMul(t5c, t4f)                  \* fp_mul(t5, t5, t4)
        ry1 == FSub(t5d, t2c)                  \* fp_sub(r->y, t5, t2)
    IN  Raw(rx2, ry1, rz, JACOB)                  \* r->coord = JACOB
(* else branch (dbl-2007-bl), p->coord == BASIC: statements after z3 *)
DblJacobBlBasic(P, t0, t1, t2, rz) ==
    LET
        t4a == FAdd(P.x, t1)                   \* fp_add(t4, p->x, t1)
        t4b == FSqr(t4a)                       \* fp_sqr(t4, t4)
        t4c == FSub(t4b, t0)                   \* fp_sub(t4, t4, t0)
        t4d == FSub(t4c, t2)                   \* fp_sub(t4, t4, t2)
        t4e == FDbl(t4d)                       \* fp_dbl(t4, t4)
        t5a == FDbl(t0)                        \* fp_dbl(t5, t0)
        t5b == FAdd(t5a, t0)                   \* fp_add(t5, t5, t0)
        t5c == FAdd(t5b, a)                    \* [else: p->coord == BASIC] fp_add(t5, t5, ep_curve_get_a())
        rx1 == FSqr(t5c)                       \* fp_sqr(r->x, t5)
        t1a == FDbl(t4e)                       \* fp_dbl(t1, t4)
        rx2 == FSub(rx1, t1a)                  \* fp_sub(r->x, r->x, t1)
        t2a == FDbl(t2)                        \* fp_dbl(t2, t2)
        t2b == FDbl(t2a)                       \* fp_dbl(t2, t2)
        t2c == FDbl(t2b)                       \* fp_dbl(t2, t2)
        t4f == FSub(t4e, rx2)                  \* fp_sub(t4, t4, r->x)
        t5d == FMul(t5c, t4f)                  \* fp_mul(t5, t5, t4)
        ry1 == FSub(t5d, t2c)                  \* fp_sub(r->y, t5, t2)
    IN  Raw(rx2, ry1, rz, JACOB)                  \* r->coord = JACOB
DblJacobImp(P) ==
    IF P.c # BASIC /\ OptA = "MIN3" THEN        \* if (p->coord != BASIC && ep_curve_opt_a() == RLC_MIN3)  dbl-2001-b
        LET
            t0a == FSqr(P.z)                   \* fp_sqr(t0, p->z)
            t1a == FSqr(P.y)                   \* fp_sqr(t1, p->y)
            t2a == FMul(P.x, t1a)              \* fp_mul(t2, p->x, t1)
            t3a == FSub(P.x, t0a)              \* fp_sub(t3, p->x, t0)
            t4a == FAdd(P.x, t0a)              \* fp_add(t4, p->x, t0)
            t4b == FMul(t3a, t4a)              \* fp_mul(t4, t3, t4)
            t3b == FDbl(t4b)                   \* fp_dbl(t3, t4)
            t3c == FAdd(t3b, t4b)              \* fp_add(t3, t3, t4)
            t2b == FDbl(t2a)                   \* fp_dbl(t2, t2)
            t2c == FDbl(t2b)                   \* fp_dbl(t2, t2)
            t5a == FDbl(t2c)                   \* fp_dbl(t5, t2)
            rx1 == FSqr(t3c)                   \* fp_sqr(r->x, t3)
            rx2 == FSub(rx1, t5a)              \* fp_sub(r->x, r->x, t5)
            rz1 == FAdd(P.y, P.z)              \* fp_add(r->z, p->y, p->z)
            rz2 == FSqr(rz1)                   \* fp_sqr(r->z, r->z)
            rz3 == FSub(rz2, t1a)              \* fp_sub(r->z, r->z, t1)
            rz4 == FSub(rz3, t0a)              \* fp_sub(r->z, r->z, t0)
            t1b == FDbl(t1a)                   \* fp_dbl(t1, t1)
            t1c == FSqr(t1b)                   \* fp_sqr(t1, t1)
            t1d == FDbl(t1c)                   \* fp_dbl(t1, t1)
            ry1 == FSub(t2c, rx2)              \* fp_sub(r->y, t2, r->x)
            ry2 == FMul(ry1, t3c)              \* fp_mul(r->y, r->y, t3)
            ry3 == FSub(ry2, t1d)              \* fp_sub(r->y, r->y, t1)
        IN  Raw(rx2, ry3, rz4, JACOB)              \* r->coord = JACOB
    ELSE IF OptA = "ZERO" THEN                  \* else if (ep_curve_opt_a() == RLC_ZERO)  dbl-2009-l
        LET
            t0a == FSqr(P.x)                   \* fp_sqr(t0, p->x)
            t1a == FSqr(P.y)                   \* fp_sqr(t1, p->y)
            t2a == FSqr(t1a)                   \* fp_sqr(t2, t1)
            t1b == FAdd(t1a, P.x)              \* fp_add(t1, t1, p->x)
            t1c == FSqr(t1b)                   \* fp_sqr(t1, t1)
            t1d == FSub(t1c, t0a)              \* fp_sub(t1, t1, t0)
            t1e == FSub(t1d, t2a)              \* fp_sub(t1, t1, t2)
            t1f == FDbl(t1e)                   \* fp_dbl(t1, t1)
            t3a == FDbl(t0a)                   \* fp_dbl(t3, t0)
            t0b == FAdd(t3a, t0a)              \* fp_add(t0, t3, t0)
            t3b == FSqr(t0b)                   \* fp_sqr(t3, t0)
            rz1 == FMul(P.y, P.z)              \* fp_mul(r->z, p->y, p->z)
            rz2 == FDbl(rz1)                   \* fp_dbl(r->z, r->z)
            rx1 == FSub(t3b, t1f)              \* fp_sub(r->x, t3, t1)
            rx2 == FSub(rx1, t1f)              \* fp_sub(r->x, r->x, t1)
            ry1 == FSub(t1f, rx2)              \* fp_sub(r->y, t1, r->x)
            ry2 == FMul(ry1, t0b)              \* fp_mul(r->y, r->y, t0)
            t2b == FDbl(t2a)                   \* fp_dbl(t2, t2)
            t2c == FDbl(t2b)                   \* fp_dbl(t2, t2)
            t2d == FDbl(t2c)                   \* fp_dbl(t2, t2)
            ry3 == FSub(ry2, t2d)              \* fp_sub(r->y, r->y, t2)
        IN  Raw(rx2, ry3, rz2, JACOB)              \* r->coord = JACOB
    ELSE                                        \* else  dbl-2007-bl
        LET
            t0a == FSqr(P.x)                   \* fp_sqr(t0, p->x)
            t1a == FSqr(P.y)                   \* fp_sqr(t1, p->y)
            t2a == FSqr(t1a)                   \* fp_sqr(t2, t1)
        IN  IF P.c # BASIC THEN                 \* if (p->coord != BASIC)
                LET
                    t3a == FSqr(P.z)                 \* fp_sqr(t3, p->z)
                IN  IF OptA = "ZERO" THEN       \* if (ep_curve_opt_a() == RLC_ZERO)  [dead: ZERO took the branch above]
                        LET
                            rz1 == FMul(P.y, P.z)            \* fp_mul(r->z, p->y, p->z)
                            rz2 == FDbl(rz1)                 \* fp_dbl(r->z, r->z)
                        IN  DblJacobBlGeneral(P, t0a, t1a, t2a, t3a, rz2)
                    ELSE
                        LET
                            rz1 == FAdd(P.y, P.z)            \* fp_add(r->z, p->y, p->z)
                            rz2 == FSqr(rz1)                 \* fp_sqr(r->z, r->z)
                            rz3 == FSub(rz2, t1a)            \* fp_sub(r->z, r->z, t1)
                            rz4 == FSub(rz3, t3a)            \* fp_sub(r->z, r->z, t3)
                        IN  DblJacobBlGeneral(P, t0a, t1a, t2a, t3a, rz4)
            ELSE
                LET
                    rz1 == FDbl(P.y)                 \* fp_dbl(r->z, p->y)
                IN  DblJacobBlBasic(P, t0a, t1a, t2a, rz1)
(* relic_ep_dbl.c ep_dbl_jacob *)
EpDblJacob(P) == IF IsInfty(P) THEN SetInfty    \* if (ep_is_infty(p)) { ep_set_infty(r); return; }
                 ELSE DblJacobImp(P)

(***************************************************************************)
(* relic_ep_add_tmpl.h  TMPL_ADD_BASIC_IMP (ep_add_basic_imp, s = NULL)    *)
(***************************************************************************)
AddBasicImp(P, Q) ==
    LET
        t0a == FSub(Q.x, P.x)                  \* fp_sub(t0, q->x, p->x)
        t1a == FSub(Q.y, P.y)                  \* fp_sub(t1, q->y, p->y)
    IN  IF t0a = 0 THEN                         \* if (fp_is_zero(t0))
            IF t1a = 0 THEN EpDblBasic(P)       \* if (fp_is_zero(t1)) ep_dbl_basic(r, p)
            ELSE SetInfty                       \* else ep_set_infty(r)
        ELSE LET
                 t2a == FInv(t0a)                 \* fp_inv(t2, t0)
                 t2b == FMul(t1a, t2a)            \* fp_mul(t2, t1, t2)
                 t1b == FSqr(t2b)                 \* fp_sqr(t1, t2)
                 t0b == FSub(t1b, P.x)            \* fp_sub(t0, t1, p->x)
                 t0c == FSub(t0b, Q.x)            \* fp_sub(t0, t0, q->x)
                 t1c == FSub(P.x, t0c)            \* fp_sub(t1, p->x, t0)
                 t1d == FMul(t2b, t1c)            \* fp_mul(t1, t2, t1)
                 ry1 == FSub(t1d, P.y)            \* fp_sub(r->y, t1, p->y)
                 rx1 == t0c                       \* fp_copy(r->x, t0)
                 rz1 == P.z                       \* fp_copy(r->z, p->z)
             IN  Raw(rx1, ry1, rz1, BASIC)      \* r->coord = BASIC
(* relic_ep_add.c ep_add_basic *)
EpAddBasic(P, Q) == IF IsInfty(P) THEN Q        \* if (ep_is_infty(p)) { ep_copy(r, q); return; }
                    ELSE IF IsInfty(Q) THEN P   \* if (ep_is_infty(q)) { ep_copy(r, p); return; }
                    ELSE AddBasicImp(P, Q)      \* ep_add_basic_imp(r, NULL, p, q)

(* TMPL_ADD_PROJC_MIX, branch opt_a == RLC_ZERO: statements after the if (p->coord == BASIC) join *)
AddProjcMixZeroTail(ry, rz, t0, t1, t3, t4) ==
    LET
        rx1 == FDbl(t0)                        \* fp_dbl(r->x, t0)
        t0a == FAdd(t0, rx1)                   \* fp_add(t0, t0, r->x)
        t5a == FDbl(ry)                        \* fp_dbl(t5, r->y)
        ry1 == FAdd(ry, t5a)                   \* fp_add(r->y, r->y, t5)
        ry2 == MulB(ry1)                       \* ep_curve_mul_b(r->y, r->y)
        rx2 == FMul(t4, ry2)                   \* fp_mul(r->x, t4, r->y)
        t2a == FMul(t3, t1)                    \* fp_mul(t2, t3, t1)
        rx3 == FSub(t2a, rx2)                  \* fp_sub(r->x, t2, r->x)
        ry3 == FMul(t0a, ry2)                  \* fp_mul(r->y, t0, r->y)
        t1a == FMul(t1, rz)                    \* fp_mul(t1, t1, r->z)
        ry4 == FAdd(t1a, ry3)                  \* fp_add(r->y, t1, r->y)
        t0b == FMul(t0a, t3)                   \* fp_mul(t0, t0, t3)
        rz1 == FMul(rz, t4)                    \* fp_mul(r->z, r->z, t4)
        rz2 == FAdd(rz1, t0b)                  \* fp_add(r->z, r->z, t0)
    IN  Raw(rx3, ry4, rz2, PROJC)                  \* r->coord = PROJC

(* TMPL_ADD_PROJC_MIX, branch opt_a == RLC_MIN3: statements after the if (p->coord == BASIC) join *)
AddProjcMixMin3Tail(rx, ry, t0, t1, t2, t3, t4) ==
    LET
        rz1 == FDbl(rx)                        \* fp_dbl(r->z, r->x)
        rx1 == FAdd(rx, rz1)                   \* fp_add(r->x, r->x, r->z)
        rz2 == FSub(t1, rx1)                   \* fp_sub(r->z, t1, r->x)
        rx2 == FAdd(t1, rx1)                   \* fp_add(r->x, t1, r->x)
        ry1 == MulB(ry)                        \* ep_curve_mul_b(r->y, r->y)
        ry2 == FSub(ry1, t2)                   \* fp_sub(r->y, r->y, t2)
        ry3 == FSub(ry2, t0)                   \* fp_sub(r->y, r->y, t0)
        t1a == FDbl(ry3)                       \* fp_dbl(t1, r->y)
        ry4 == FAdd(t1a, ry3)                  \* fp_add(r->y, t1, r->y)
        t1b == FDbl(t0)                        \* fp_dbl(t1, t0)
        t0a == FAdd(t1b, t0)                   \* fp_add(t0, t1, t0)
        t0b == FSub(t0a, t2)                   \* fp_sub(t0, t0, t2)
        t1c == FMul(t4, ry4)                   \* fp_mul(t1, t4, r->y)
        t2a == FMul(t0b, ry4)                  \* fp_mul(t2, t0, r->y)
        ry5 == FMul(rx2, rz2)                  \* fp_mul(r->y, r->x, r->z)
        ry6 == FAdd(ry5, t2a)                  \* fp_add(r->y, r->y, t2)
        rx3 == FMul(t3, rx2)                   \* fp_mul(r->x, t3, r->x)
        rx4 == FSub(rx3, t1c)                  \* fp_sub(r->x, r->x, t1)
        rz3 == FMul(t4, rz2)                   \* fp_mul(r->z, t4, r->z)
        t1d == FMul(t3, t0b)                   \* fp_mul(t1, t3, t0)
        rz4 == FAdd(rz3, t1d)                  \* fp_add(r->z, r->z, t1)
    IN  Raw(rx4, ry6, rz4, PROJC)                  \* r->coord = PROJC

(* TMPL_ADD_PROJC_MIX, branch generic (else): statements after the if (p->coord == BASIC) join *)
AddProjcMixGenTail(rz, t0, t1, t2, t3, t4, t5) ==
    LET
        rx1 == FSub(t1, rz)                    \* fp_sub(r->x, t1, r->z)
        rz1 == FAdd(t1, rz)                    \* fp_add(r->z, t1, r->z)
        ry1 == FMul(rx1, rz1)                  \* fp_mul(r->y, r->x, r->z)
        t1a == FDbl(t4)                        \* fp_dbl(t1, t4)
        t1b == FAdd(t1a, t4)                   \* fp_add(t1, t1, t4)
        t4a == MulB(t1b)                       \* ep_curve_mul_b(t4, t1)
        t1c == FDbl(t0)                        \* fp_dbl(t1, t0)
        t1d == FAdd(t1c, t0)                   \* fp_add(t1, t1, t0)
        t1e == FAdd(t1d, t2)                   \* fp_add(t1, t1, t2)
        t2a == FSub(t0, t2)                    \* fp_sub(t2, t0, t2)
        t2b == MulA(t2a)                       \* ep_curve_mul_a(t2, t2)
        t4b == FAdd(t4a, t2b)                  \* fp_add(t4, t4, t2)
        t0a == FMul(t1e, t4b)                  \* fp_mul(t0, t1, t4)
        ry2 == FAdd(ry1, t0a)                  \* fp_add(r->y, r->y, t0)
        t0b == FMul(t5, t4b)                   \* fp_mul(t0, t5, t4)
        rx2 == FMul(t3, rx1)                   \* fp_mul(r->x, t3, r->x)
        rx3 == FSub(rx2, t0b)                  \* fp_sub(r->x, r->x, t0)
        t0c == FMul(t3, t1e)                   \* fp_mul(t0, t3, t1)
        rz2 == FMul(t5, rz1)                   \* fp_mul(r->z, t5, r->z)
        rz3 == FAdd(rz2, t0c)                  \* fp_add(r->z, r->z, t0)
    IN  Raw(rx3, ry2, rz3, PROJC)                  \* r->coord = PROJC

(***************************************************************************)
(* TMPL_ADD_PROJC_MIX (ep_add_projc_mix): RCB complete mixed addition,     *)
(* q affine (Z2 = 1 is implicit: q->z is never read)                       *)
(***************************************************************************)
AddProjcMix(P, Q) ==
    LET
        t0a == FMul(P.x, Q.x)                  \* fp_mul(t0, p->x, q->x)
        t1a == FMul(P.y, Q.y)                  \* fp_mul(t1, p->y, q->y)
        t3a == FAdd(Q.x, Q.y)                  \* fp_add(t3, q->x, q->y)
        t4a == FAdd(P.x, P.y)                  \* fp_add(t4, p->x, p->y)
        t3b == FMul(t3a, t4a)                  \* fp_mul(t3, t3, t4)
        t4b == FAdd(t0a, t1a)                  \* fp_add(t4, t0, t1)
        t3c == FSub(t3b, t4b)                  \* fp_sub(t3, t3, t4)
    IN  IF OptA = "ZERO" THEN                   \* if (ep_curve_opt_a() == RLC_ZERO)
            IF P.c = BASIC THEN                 \* if (p->coord == BASIC)
                LET
                     t4c == FAdd(Q.y, P.y)            \* fp_add(t4, q->y, p->y)
                     ry1 == FAdd(Q.x, P.x)            \* fp_add(r->y, q->x, p->x)
                     t5a == FDbl(b)                   \* fp_dbl(t5, ep_curve_get_b())
                     t5b == FAdd(t5a, b)              \* fp_add(t5, t5, ep_curve_get_b())
                     rz1 == FAdd(t1a, t5b)            \* fp_add(r->z, t1, t5)
                     t1b == FSub(t1a, t5b)            \* fp_sub(t1, t1, t5)
                IN  AddProjcMixZeroTail(ry1, rz1, t0a, t1b, t3c, t4c)
            ELSE
                LET
                     t4c == FMul(Q.y, P.z)            \* fp_mul(t4, q->y, p->z)
                     t4d == FAdd(t4c, P.y)            \* fp_add(t4, t4, p->y)
                     ry1 == FMul(Q.x, P.z)            \* fp_mul(r->y, q->x, p->z)
                     ry2 == FAdd(ry1, P.x)            \* fp_add(r->y, r->y, p->x)
                     t2a == FDbl(P.z)                 \* fp_dbl(t2, p->z)
                     t2b == FAdd(t2a, P.z)            \* fp_add(t2, t2, p->z)
                     t2c == MulB(t2b)                 \* ep_curve_mul_b(t2, t2)
                     rz1 == FAdd(t1a, t2c)            \* fp_add(r->z, t1, t2)
                     t1b == FSub(t1a, t2c)            \* fp_sub(t1, t1, t2)
                IN  AddProjcMixZeroTail(ry2, rz1, t0a, t1b, t3c, t4d)
        ELSE IF OptA = "MIN3" THEN              \* else if (ep_curve_opt_a() == RLC_MIN3)
            IF P.c = BASIC THEN                 \* if (p->coord == BASIC)
                LET
                     t2a == (3 % p)                   \* fp_set_dig(t2, 3)
                     t4c == FAdd(Q.y, P.y)            \* fp_add(t4, q->y, p->y)
                     ry1 == FAdd(Q.x, P.x)            \* fp_add(r->y, q->x, p->x)
                     rx1 == FSub(ry1, b)              \* fp_sub(r->x, r->y, ep_curve_get_b())
                IN  AddProjcMixMin3Tail(rx1, ry1, t0a, t1a, t2a, t3c, t4c)
            ELSE
                LET
                     t2a == FDbl(P.z)                 \* fp_dbl(t2, p->z)
                     t2b == FAdd(t2a, P.z)            \* fp_add(t2, t2, p->z)
                     t4c == FMul(Q.y, P.z)            \* fp_mul(t4, q->y, p->z)
                     t4d == FAdd(t4c, P.y)            \* fp_add(t4, t4, p->y)
                     ry1 == FMul(Q.x, P.z)            \* fp_mul(r->y, q->x, p->z)
                     ry2 == FAdd(ry1, P.x)            \* fp_add(r->y, r->y, p->x)
                     rz1 == MulB(P.z)                 \* ep_curve_mul_b(r->z, p->z)
                     rx1 == FSub(ry2, rz1)            \* fp_sub(r->x, r->y, r->z)
                IN  AddProjcMixMin3Tail(rx1, ry2, t0a, t1a, t2b, t3c, t4d)
        ELSE                                    \* else
            IF P.c = BASIC THEN                 \* if (p->coord == BASIC)
                LET
                     t2a == a                         \* fp_copy(t2, ep_curve_get_a())
                     t4c == FAdd(Q.x, P.x)            \* fp_add(t4, q->x, p->x)
                     t5a == FAdd(Q.y, P.y)            \* fp_add(t5, q->y, p->y)
                     rz1 == MulA(t4c)                 \* ep_curve_mul_a(r->z, t4)
                     ry1 == FDbl(b)                   \* fp_dbl(r->y, ep_curve_get_b())
                     ry2 == FAdd(ry1, b)              \* fp_add(r->y, r->y, ep_curve_get_b())
                     rz2 == FAdd(rz1, ry2)            \* fp_add(r->z, r->z, r->y)
                IN  AddProjcMixGenTail(rz2, t0a, t1a, t2a, t3c, t4c, t5a)
            ELSE
                LET
                     t2a == MulA(P.z)                 \* ep_curve_mul_a(t2, p->z)
                     t4c == FMul(Q.x, P.z)            \* fp_mul(t4, q->x, p->z)
                     t4d == FAdd(t4c, P.x)            \* fp_add(t4, t4, p->x)
                     t5a == FMul(Q.y, P.z)            \* fp_mul(t5, q->y, p->z)
                     t5b == FAdd(t5a, P.y)            \* fp_add(t5, t5, p->y)
                     rx1 == FDbl(P.z)                 \* fp_dbl(r->x, p->z)
                     rx2 == FAdd(rx1, P.z)            \* fp_add(r->x, r->x, p->z)
                     rx3 == MulB(rx2)                 \* ep_curve_mul_b(r->x, r->x)
                     rz1 == MulA(t4d)                 \* ep_curve_mul_a(r->z, t4)
                     rz2 == FAdd(rx3, rz1)            \* fp_add(r->z, r->x, r->z)
                IN  AddProjcMixGenTail(rz2, t0a, t1a, t2a, t3c, t4d, t5b)

(***************************************************************************)
(* TMPL_ADD_PROJC_IMP (ep_add_projc_imp, the non-STRIP version): q affine  *)
(* -> mixed program, else RCB complete projective addition.                *)
(* aq = TRUE models the call ep_add_projc(q, p, q) (r aliases q): the ONLY *)
(* statement of all programs in this module that reads a coordinate of an  *)
(* input point after the same coordinate of r has been written is          *)
(* fp_add(r->y, q->x, q->z) of the RLC_MIN3 branch below (r->x is written  *)
(* one statement earlier); everywhere else aliasing r = p or r = q cannot  *)
(* change a value read, so the un-aliased transcription is exact there.    *)
(***************************************************************************)
AddProjcFull(P, Q, aq) ==
    LET
        t0a == FMul(P.x, Q.x)                  \* fp_mul(t0, p->x, q->x)
        t1a == FMul(P.y, Q.y)                  \* fp_mul(t1, p->y, q->y)
        t2a == FMul(P.z, Q.z)                  \* fp_mul(t2, p->z, q->z)
        t3a == FAdd(P.x, P.y)                  \* fp_add(t3, p->x, p->y)
        t4a == FAdd(Q.x, Q.y)                  \* fp_add(t4, q->x, q->y)
        t3b == FMul(t3a, t4a)                  \* fp_mul(t3, t3, t4)
        t4b == FAdd(t0a, t1a)                  \* fp_add(t4, t0, t1)
        t3c == FSub(t3b, t4b)                  \* fp_sub(t3, t3, t4)
    IN  IF OptA = "ZERO" THEN                   \* if (ep_curve_opt_a() == RLC_ZERO)
            LET
                 t4c == FAdd(P.y, P.z)            \* fp_add(t4, p->y, p->z)
                 t5a == FAdd(Q.y, Q.z)            \* fp_add(t5, q->y, q->z)
                 t4d == FMul(t4c, t5a)            \* fp_mul(t4, t4, t5)
                 t5b == FAdd(t1a, t2a)            \* fp_add(t5, t1, t2)
                 t4e == FSub(t4d, t5b)            \* fp_sub(t4, t4, t5)
                 ry1 == FAdd(Q.x, Q.z)            \* fp_add(r->y, q->x, q->z)
                 rx1 == FAdd(P.x, P.z)            \* fp_add(r->x, p->x, p->z)
                 rx2 == FMul(rx1, ry1)            \* fp_mul(r->x, r->x, r->y)
                 ry2 == FAdd(t0a, t2a)            \* fp_add(r->y, t0, t2)
                 ry3 == FSub(rx2, ry2)            \* fp_sub(r->y, r->x, r->y)
                 rx3 == FDbl(t0a)                 \* fp_dbl(r->x, t0)
                 t0b == FAdd(t0a, rx3)            \* fp_add(t0, t0, r->x)
                 t5c == FDbl(t2a)                 \* fp_dbl(t5, t2)
                 t2b == FAdd(t2a, t5c)            \* fp_add(t2, t2, t5)
                 t2c == MulB(t2b)                 \* ep_curve_mul_b(t2, t2)
                 rz1 == FAdd(t1a, t2c)            \* fp_add(r->z, t1, t2)
                 t1b == FSub(t1a, t2c)            \* fp_sub(t1, t1, t2)
                 t5d == FDbl(ry3)                 \* fp_dbl(t5, r->y)
                 ry4 == FAdd(ry3, t5d)            \* fp_add(r->y, r->y, t5)
                 ry5 == MulB(ry4)                 \* ep_curve_mul_b(r->y, r->y)
                 rx4 == FMul(t4e, ry5)            \* fp_mul(r->x, t4, r->y)
                 t2d == FMul(t3c, t1b)            \* fp_mul(t2, t3, t1)
                 rx5 == FSub(t2d, rx4)            \* fp_sub(r->x, t2, r->x)
                 ry6 == FMul(t0b, ry5)            \* fp_mul(r->y, t0, r->y)
                 t1c == FMul(t1b, rz1)            \* fp_mul(t1, t1, r->z)
                 ry7 == FAdd(t1c, ry6)            \* fp_add(r->y, t1, r->y)
                 t0c == FMul(t0b, t3c)            \* fp_mul(t0, t0, t3)
                 rz2 == FMul(rz1, t4e)            \* fp_mul(r->z, r->z, t4)
                 rz3 == FAdd(rz2, t0c)            \* fp_add(r->z, r->z, t0)
            IN  Raw(rx5, ry7, rz3, PROJC)          \* r->coord = PROJC
        ELSE IF OptA = "MIN3" THEN              \* else if (ep_curve_opt_a() == RLC_MIN3)
            LET
                 t4c == FAdd(P.y, P.z)            \* fp_add(t4, p->y, p->z)
                 t5a == FAdd(Q.y, Q.z)            \* fp_add(t5, q->y, q->z)
                 t4d == FMul(t4c, t5a)            \* fp_mul(t4, t4, t5)
                 t5b == FAdd(t1a, t2a)            \* fp_add(t5, t1, t2)
                 t4e == FSub(t4d, t5b)            \* fp_sub(t4, t4, t5)
                 rx1 == FAdd(P.x, P.z)            \* fp_add(r->x, p->x, p->z)
                 ry1 == FAdd(IF aq THEN rx1 ELSE Q.x, Q.z) \* fp_add(r->y, q->x, q->z)   [r == q: q->x was overwritten by the previous statement]
                 rx2 == FMul(rx1, ry1)            \* fp_mul(r->x, r->x, r->y)
                 ry2 == FAdd(t0a, t2a)            \* fp_add(r->y, t0, t2)
                 ry3 == FSub(rx2, ry2)            \* fp_sub(r->y, r->x, r->y)
                 rz1 == MulB(t2a)                 \* ep_curve_mul_b(r->z, t2)
                 rx3 == FSub(ry3, rz1)            \* fp_sub(r->x, r->y, r->z)
                 rz2 == FDbl(rx3)                 \* fp_dbl(r->z, r->x)
                 rx4 == FAdd(rx3, rz2)            \* fp_add(r->x, r->x, r->z)
                 rz3 == FSub(t1a, rx4)            \* fp_sub(r->z, t1, r->x)
                 rx5 == FAdd(t1a, rx4)            \* fp_add(r->x, t1, r->x)
                 ry4 == MulB(ry3)                 \* ep_curve_mul_b(r->y, r->y)
                 t1b == FDbl(t2a)                 \* fp_dbl(t1, t2)
                 t2b == FAdd(t1b, t2a)            \* fp_add(t2, t1, t2)
                 ry5 == FSub(ry4, t2b)            \* fp_sub(r->y, r->y, t2)
                 ry6 == FSub(ry5, t0a)            \* fp_sub(r->y, r->y, t0)
                 t1c == FDbl(ry6)                 \* fp_dbl(t1, r->y)
                 ry7 == FAdd(t1c, ry6)            \* fp_add(r->y, t1, r->y)
                 t1d == FDbl(t0a)                 \* fp_dbl(t1, t0)
                 t0b == FAdd(t1d, t0a)            \* fp_add(t0, t1, t0)
                 t0c == FSub(t0b, t2b)            \* fp_sub(t0, t0, t2)
                 t1e == FMul(t4e, ry7)            \* fp_mul(t1, t4, r->y)
                 t2c == FMul(t0c, ry7)            \* fp_mul(t2, t0, r->y)
                 ry8 == FMul(rx5, rz3)            \* fp_mul(r->y, r->x, r->z)
                 ry9 == FAdd(ry8, t2c)            \* fp_add(r->y, r->y, t2)
                 rx6 == FMul(t3c, rx5)            \* fp_mul(r->x, t3, r->x)
                 rx7 == FSub(rx6, t1e)            \* fp_sub(r->x, r->x, t1)
                 rz4 == FMul(t4e, rz3)            \* fp_mul(r->z, t4, r->z)
                 t1f == FMul(t3c, t0c)            \* fp_mul(t1, t3, t0)
                 rz5 == FAdd(rz4, t1f)            \* fp_add(r->z, r->z, t1)
            IN  Raw(rx7, ry9, rz5, PROJC)          \* r->coord = PROJC
        ELSE                                    \* else
            LET
                 t4c == FAdd(P.x, P.z)            \* fp_add(t4, p->x, p->z)
                 t5a == FAdd(Q.x, Q.z)            \* fp_add(t5, q->x, q->z)
                 t4d == FMul(t4c, t5a)            \* fp_mul(t4, t4, t5)
                 t5b == FAdd(t0a, t2a)            \* fp_add(t5, t0, t2)
                 t4e == FSub(t4d, t5b)            \* fp_sub(t4, t4, t5)
                 t5c == FAdd(P.y, P.z)            \* fp_add(t5, p->y, p->z)
                 rx1 == FAdd(Q.y, Q.z)            \* fp_add(r->x, q->y, q->z)
                 t5d == FMul(t5c, rx1)            \* fp_mul(t5, t5, r->x)
                 rx2 == FAdd(t1a, t2a)            \* fp_add(r->x, t1, t2)
                 t5e == FSub(t5d, rx2)            \* fp_sub(t5, t5, r->x)
                 rz1 == MulA(t4e)                 \* ep_curve_mul_a(r->z, t4)
                 rx3 == FDbl(t2a)                 \* fp_dbl(r->x, t2)
                 rx4 == FAdd(rx3, t2a)            \* fp_add(r->x, r->x, t2)
                 rx5 == MulB(rx4)                 \* ep_curve_mul_b(r->x, r->x)
                 rz2 == FAdd(rx5, rz1)            \* fp_add(r->z, r->x, r->z)
                 rx6 == FSub(t1a, rz2)            \* fp_sub(r->x, t1, r->z)
                 rz3 == FAdd(t1a, rz2)            \* fp_add(r->z, t1, r->z)
                 ry1 == FMul(rx6, rz3)            \* fp_mul(r->y, r->x, r->z)
                 t1b == FDbl(t4e)                 \* fp_dbl(t1, t4)
                 t1c == FAdd(t1b, t4e)            \* fp_add(t1, t1, t4)
                 t4f == MulB(t1c)                 \* ep_curve_mul_b(t4, t1)
                 t1d == FDbl(t0a)                 \* fp_dbl(t1, t0)
                 t1e == FAdd(t1d, t0a)            \* fp_add(t1, t1, t0)
                 t2b == MulA(t2a)                 \* ep_curve_mul_a(t2, t2)
                 t1f == FAdd(t1e, t2b)            \* fp_add(t1, t1, t2)
                 t2c == FSub(t0a, t2b)            \* fp_sub(t2, t0, t2)
                 t2d == MulA(t2c)                 \* ep_curve_mul_a(t2, t2)
                 t4g == FAdd(t4f, t2d)            \* fp_add(t4, t4, t2)
                 t0b == FMul(t1f, t4g)            \* fp_mul(t0, t1, t4)
                 ry2 == FAdd(ry1, t0b)            \* fp_add(r->y, r->y, t0)
                 t0c == FMul(t5e, t4g)            \* fp_mul(t0, t5, t4)
                 rx7 == FMul(t3c, rx6)            \* fp_mul(r->x, t3, r->x)
                 rx8 == FSub(rx7, t0c)            \* fp_sub(r->x, r->x, t0)
                 t0d == FMul(t3c, t1f)            \* fp_mul(t0, t3, t1)
                 rz4 == FMul(t5e, rz3)            \* fp_mul(r->z, t5, r->z)
                 rz5 == FAdd(rz4, t0d)            \* fp_add(r->z, r->z, t0)
            IN  Raw(rx8, ry2, rz5, PROJC)          \* r->coord = PROJC
AddProjcImpA(P, Q, aq) == IF Q.c = BASIC THEN AddProjcMix(P, Q)    \* if (q->coord == BASIC) { ep_add_projc_mix(r, p, q); return; }
                          ELSE AddProjcFull(P, Q, aq)
AddProjcImp(P, Q) == AddProjcImpA(P, Q, FALSE)
(* relic_ep_add.c ep_add_projc *)
EpAddProjcA(P, Q, aq) == IF IsInfty(P) THEN Q   \* if (ep_is_infty(p)) { ep_copy(r, q); return; }
                         ELSE IF IsInfty(Q) THEN P   \* if (ep_is_infty(q)) { ep_copy(r, p); return; }
                         ELSE AddProjcImpA(P, Q, aq) \* ep_add_projc_imp(r, p, q)
EpAddProjc(P, Q) == EpAddProjcA(P, Q, FALSE)

(***************************************************************************)
(* TMPL_ADD_JACOB_MIX (ep_add_jacob_mix): madd-2007-bl, q affine           *)
(***************************************************************************)
(* statements after the first if (p->coord != BASIC) join; t0 is written   *)
(* only on the p->coord != BASIC path and read only there (Unset else)     *)
AddJacobMixRest(P, Q, t0, t1, t3) ==
    LET
        t2a == FSqr(t3)                        \* fp_sqr(t2, t3)
    IN  IF t3 = 0 THEN                          \* if (fp_is_zero(t3))
            IF t1 = 0 THEN Retag(EpDblJacob(P), JACOB)  \* if (fp_is_zero(t1)) ep_dbl_jacob(r, p);   then r->coord = JACOB
            ELSE Retag(SetInfty, JACOB)                 \* else ep_set_infty(r);                    then r->coord = JACOB
        ELSE LET
                 t4a == FDbl(t2a)                 \* fp_dbl(t4, t2)
                 t4b == FDbl(t4a)                 \* fp_dbl(t4, t4)
                 t5a == FMul(t3, t4b)             \* fp_mul(t5, t3, t4)
                 t4c == FMul(P.x, t4b)            \* fp_mul(t4, p->x, t4)
                 rx1 == FSqr(t1)                  \* fp_sqr(r->x, t1)
                 rx2 == FSub(rx1, t5a)            \* fp_sub(r->x, r->x, t5)
                 t6a == FDbl(t4c)                 \* fp_dbl(t6, t4)
                 rx3 == FSub(rx2, t6a)            \* fp_sub(r->x, r->x, t6)
                 t4d == FSub(t4c, rx3)            \* fp_sub(t4, t4, r->x)
                 t4e == FMul(t4d, t1)             \* fp_mul(t4, t4, t1)
                 t1a == FMul(P.y, t5a)            \* fp_mul(t1, p->y, t5)
                 t1b == FDbl(t1a)                 \* fp_dbl(t1, t1)
                 ry1 == FSub(t4e, t1b)            \* fp_sub(r->y, t4, t1)
             IN  IF P.c # BASIC THEN            \* if (p->coord != BASIC)
                     LET
                         rz1 == FAdd(P.z, t3)             \* fp_add(r->z, p->z, t3)
                         rz2 == FSqr(rz1)                 \* fp_sqr(r->z, r->z)
                         rz3 == FSub(rz2, t0)             \* fp_sub(r->z, r->z, t0)
                         rz4 == FSub(rz3, t2a)            \* fp_sub(r->z, r->z, t2)
                     IN  Raw(rx3, ry1, rz4, JACOB) \* r->coord = JACOB
                 ELSE
                     LET
                         rz1 == FDbl(t3)                  \* fp_dbl(r->z, t3)
                     IN  Raw(rx3, ry1, rz1, JACOB) \* r->coord = JACOB
AddJacobMix(P, Q) ==
    IF P.c # BASIC THEN                         \* if (p->coord != BASIC)
        LET
            t0a == FSqr(P.z)                   \* fp_sqr(t0, p->z)
            t3a == FMul(Q.x, t0a)              \* fp_mul(t3, q->x, t0)
            t1a == FMul(t0a, P.z)              \* fp_mul(t1, t0, p->z)
            t1b == FMul(t1a, Q.y)              \* fp_mul(t1, t1, q->y)
            t3b == FSub(t3a, P.x)              \* fp_sub(t3, t3, p->x)
            t1c == FSub(t1b, P.y)              \* fp_sub(t1, t1, p->y)
            t1d == FDbl(t1c)                   \* fp_dbl(t1, t1)
        IN  AddJacobMixRest(P, Q, t0a, t1d, t3b)
    ELSE
        LET
            t3a == FSub(Q.x, P.x)              \* fp_sub(t3, q->x, p->x)
            t1a == FSub(Q.y, P.y)              \* fp_sub(t1, q->y, p->y)
            t1b == FDbl(t1a)                   \* fp_dbl(t1, t1)
        IN  AddJacobMixRest(P, Q, Unset, t1b, t3a)

(***************************************************************************)
(* TMPL_ADD_JACOB_IMP (ep_add_jacob_imp, non-STRIP version): add-2007-bl   *)
(***************************************************************************)
AddJacobFull(P, Q) ==
    LET
        t0a == FSqr(P.z)                       \* fp_sqr(t0, p->z)
        t1a == FSqr(Q.z)                       \* fp_sqr(t1, q->z)
        t2a == FMul(P.x, t1a)                  \* fp_mul(t2, p->x, t1)
        t3a == FMul(Q.x, t0a)                  \* fp_mul(t3, q->x, t0)
        t6a == FAdd(t0a, t1a)                  \* fp_add(t6, t0, t1)
        t0b == FMul(t0a, P.z)                  \* fp_mul(t0, t0, p->z)
        t0c == FMul(t0b, Q.y)                  \* fp_mul(t0, t0, q->y)
        t1b == FMul(t1a, Q.z)                  \* fp_mul(t1, t1, q->z)
        t1c == FMul(t1b, P.y)                  \* fp_mul(t1, t1, p->y)
        t3b == FSub(t3a, t2a)                  \* fp_sub(t3, t3, t2)
        t0d == FSub(t0c, t1c)                  \* fp_sub(t0, t0, t1)
        t0e == FDbl(t0d)                       \* fp_dbl(t0, t0)
    IN  IF t3b = 0 THEN                         \* if (fp_is_zero(t3))
            IF t0e = 0 THEN Retag(EpDblJacob(P), JACOB)  \* if (fp_is_zero(t0)) ep_dbl_jacob(r, p);   then r->coord = JACOB
            ELSE Retag(SetInfty, JACOB)                  \* else ep_set_infty(r);                    then r->coord = JACOB
        ELSE LET
                 t4a == FDbl(t3b)                 \* fp_dbl(t4, t3)
                 t4b == FSqr(t4a)                 \* fp_sqr(t4, t4)
                 t5a == FMul(t3b, t4b)            \* fp_mul(t5, t3, t4)
                 t4c == FMul(t2a, t4b)            \* fp_mul(t4, t2, t4)
                 rx1 == FSqr(t0e)                 \* fp_sqr(r->x, t0)
                 rx2 == FSub(rx1, t5a)            \* fp_sub(r->x, r->x, t5)
                 t2b == FDbl(t4c)                 \* fp_dbl(t2, t4)
                 rx3 == FSub(rx2, t2b)            \* fp_sub(r->x, r->x, t2)
                 t4d == FSub(t4c, rx3)            \* fp_sub(t4, t4, r->x)
                 t4e == FMul(t4d, t0e)            \* fp_mul(t4, t4, t0)
                 t1d == FMul(t1c, t5a)            \* fp_mul(t1, t1, t5)
                 t1e == FDbl(t1d)                 \* fp_dbl(t1, t1)
                 ry1 == FSub(t4e, t1e)            \* fp_sub(r->y, t4, t1)
                 rz1 == FAdd(P.z, Q.z)            \* fp_add(r->z, p->z, q->z)
                 rz2 == FSqr(rz1)                 \* fp_sqr(r->z, r->z)
                 rz3 == FSub(rz2, t6a)            \* fp_sub(r->z, r->z, t6)
                 rz4 == FMul(rz3, t3b)            \* fp_mul(r->z, r->z, t3)
             IN  Raw(rx3, ry1, rz4, JACOB)         \* r->coord = JACOB
AddJacobImp(P, Q) == IF Q.c = BASIC THEN AddJacobMix(P, Q)    \* if (q->coord == BASIC) { ep_add_jacob_mix(r, p, q); return; }
                     ELSE AddJacobFull(P, Q)
(* relic_ep_add.c ep_add_jacob *)
EpAddJacob(P, Q) == IF IsInfty(P) THEN Q        \* if (ep_is_infty(p)) { ep_copy(r, q); return; }
                    ELSE IF IsInfty(Q) THEN P   \* if (ep_is_infty(q)) { ep_copy(r, p); return; }
                    ELSE AddJacobImp(P, Q)      \* ep_add_jacob_imp(r, p, q)

(***************************************************************************)
(* relic_ep_neg.c, relic_ep_add.c ep_sub, relic_ep_norm.c, relic_ep_cmp.c  *)
(***************************************************************************)
EpNeg(P) == IF IsInfty(P) THEN SetInfty         \* if (ep_is_infty(p)) { ep_set_infty(r); return; }
            ELSE Raw(P.x, FNeg(P.y), P.z, P.c)  \* fp_copy(r->x, p->x); fp_copy(r->z, p->z); fp_neg(r->y, p->y); r->coord = p->coord
(* ep_sub(r, p, q): if (p == q) [pointer equality] { ep_set_infty(r); return; }  else ep_neg(t, q); ep_add(r, p, t), *)
(* ep_add being the configured one of the three                                                                      *)
EpSubSame == SetInfty
EpSubBasic(P, Q) == EpAddBasic(P, EpNeg(Q))
EpSubProjc(P, Q) == EpAddProjc(P, EpNeg(Q))
EpSubJacob(P, Q) == EpAddJacob(P, EpNeg(Q))

NormImp(P) ==                                   \* ep_norm_imp(r, p, 0) with p->coord != BASIC, p->z # 0
    LET rz1 == FInv(P.z)                        \* fp_inv(r->z, p->z)
    IN  IF P.c = PROJC THEN                     \* case PROJC:
            LET rx1 == FMul(P.x, rz1)           \* fp_mul(r->x, p->x, r->z)
                ry1 == FMul(P.y, rz1)           \* fp_mul(r->y, p->y, r->z)
                rz2 == 1 % p                    \* fp_set_dig(r->z, 1)
            IN  Raw(rx1, ry1, rz2, BASIC)       \* r->coord = BASIC
        ELSE                                    \* case JACOB:
            LET ta  == FSqr(rz1)                \* fp_sqr(t, r->z)
                rx1 == FMul(P.x, ta)            \* fp_mul(r->x, p->x, t)
                tb  == FMul(ta, rz1)            \* fp_mul(t, t, r->z)
                ry1 == FMul(P.y, tb)            \* fp_mul(r->y, p->y, t)
                rz2 == 1 % p                    \* fp_set_dig(r->z, 1)
            IN  Raw(rx1, ry1, rz2, BASIC)       \* r->coord = BASIC
EpNorm(P) == IF IsInfty(P) THEN SetInfty        \* if (ep_is_infty(p)) { ep_set_infty(r); return; }
             ELSE IF P.c = BASIC THEN P         \* if (p->coord == BASIC) { ep_copy(r, p); return; }
             ELSE NormImp(P)                    \* ep_norm_imp(r, p, 0)

CmpScale(U, V) ==        \* the pair (r->x, r->y) resp. (s->x, s->y): U scaled by the denominators of V
    IF V.c = PROJC THEN                         \* case PROJC:
        LET rx1 == FMul(U.x, V.z)               \* fp_mul(r->x, p->x, q->z)
            ry1 == FMul(U.y, V.z)               \* fp_mul(r->y, p->y, q->z)
        IN  <<rx1, ry1>>
    ELSE IF V.c = JACOB THEN                    \* case JACOB:
        LET rz1 == FSqr(V.z)                    \* fp_sqr(r->z, q->z)
            rx1 == FMul(U.x, rz1)               \* fp_mul(r->x, p->x, r->z)
            rz2 == FMul(rz1, V.z)               \* fp_mul(r->z, r->z, q->z)
            ry1 == FMul(U.y, rz2)               \* fp_mul(r->y, p->y, r->z)
        IN  <<rx1, ry1>>
    ELSE <<U.x, U.y>>                           \* default: ep_copy(r, p)
EpCmp(P, Q) ==           \* TRUE = RLC_EQ, FALSE = RLC_NE
    IF IsInfty(P) /\ IsInfty(Q) THEN TRUE       \* if (ep_is_infty(p) && ep_is_infty(q)) return RLC_EQ;
    ELSE LET r == CmpScale(P, Q)                \* switch (q->coord) ...
             s == CmpScale(Q, P)                \* switch (p->coord) ... the same for the other point
         IN  r[1] = s[1] /\ r[2] = s[2]         \* fp_cmp(r->x, s->x) == RLC_EQ && fp_cmp(r->y, s->y) == RLC_EQ

(***************************************************************************)
(* Representations enumerated                                              *)
(***************************************************************************)
ZFew == {1, 2, 3, p - 1}
Zs == IF p <= ZFullUpTo THEN 1..(p - 1) ELSE ZFew
RepB(A) == Raw(A.x, A.y, 1, BASIC)
RepP(A, z) == Raw((A.x * z) % p, (A.y * z) % p, z, PROJC)
RepJ(A, z) == Raw((A.x * z * z) % p, (A.y * ((z * z * z) % p)) % p, z, JACOB)
(* infinity: ep_set_infty's (0,0,0,BASIC); (0 : Y : 0) tagged PROJC for every Y (Y = 0 is the   *)
(* all-zero triple of finding F2); (t^2, t^3, 0) tagged JACOB for every t (t = 0 is what         *)
(* ep_add_jacob returns for P + (-P)).  InfFormsCovered shows every z = 0 output is one of these *)
Infs == {SetInfty} \cup {Raw(0, v, 0, PROJC) : v \in Fp}
                   \cup {Raw((t * t) % p, (t * t * t) % p, 0, JACOB) : t \in Fp}
(* the representations of an abstract point accepted by ep_*_basic / ep_*_projc / ep_*_jacob *)
RepsBasic(A) == IF A.inf THEN Infs ELSE {RepB(A)}
RepsProjc(A) == IF A.inf THEN Infs ELSE {RepB(A)} \cup {RepP(A, z) : z \in Zs}
RepsJacob(A) == IF A.inf THEN Infs ELSE {RepB(A)} \cup {RepJ(A, z) : z \in Zs}
RepsAll(A)   == RepsProjc(A) \cup RepsJacob(A)
(* the direct ep_sub checks and ep_cmp (all tag mixtures: quadratically more cases) use z in ZFew *)
RepsProjcFew(A) == IF A.inf THEN Infs ELSE {RepB(A)} \cup {RepP(A, z) : z \in ZFew}
RepsJacobFew(A) == IF A.inf THEN Infs ELSE {RepB(A)} \cup {RepJ(A, z) : z \in ZFew}
RepsAllFew(A)   == RepsProjcFew(A) \cup RepsJacobFew(A)

InFp(R) == R.x \in Fp /\ R.y \in Fp /\ R.z \in Fp
TagOK(R) == InFp(R) /\ R.c \in {BASIC, PROJC, JACOB} /\ (R.c = BASIC => R.z \in {0, 1})
Good(R, E) == TagOK(R) /\ Abs(R) = E
AllZero(R) == R.x = 0 /\ R.y = 0 /\ R.z = 0

(***************************************************************************)
(* Sanity of the yardstick itself                                          *)
(***************************************************************************)
RefIsGroup ==
    IsCurve =>
    /\ \A v \in 1..(p - 1) : (v * inv[v]) % p = 1
    /\ \A A \in G : /\ NAdd(A, NInf) = A /\ NAdd(NInf, A) = A
                    /\ NNeg(A) \in G /\ NAdd(A, NNeg(A)) = NInf
                    /\ NDbl(A) = NAdd(A, A)
    /\ \A A \in G, B \in G : NAdd(A, B) \in G /\ NAdd(A, B) = NAdd(B, A)
    /\ \A A \in G, B \in G, D \in G : NAdd(NAdd(A, B), D) = NAdd(A, NAdd(B, D))
RepsSound ==
    IsCurve => \A A \in G : \A P \in RepsAll(A) : TagOK(P) /\ Abs(P) = A

(***************************************************************************)
(* (1) operands that are infinity, in EVERY form of Infs, against every    *)
(* representation (finite or infinite) of every point: the wrappers test   *)
(* only z = 0 and copy the other operand / set infinity.  The pair         *)
(* invariants below therefore range over the finite points only.           *)
(***************************************************************************)
InfOperandsOK ==
    IsCurve => \A I \in Infs :
        /\ EpDblBasic(I) = SetInfty /\ EpDblProjc(I) = SetInfty /\ EpDblJacob(I) = SetInfty
        /\ \A B \in G :
              /\ \A Q \in RepsBasic(B) :
                    /\ EpAddBasic(I, Q) = Q /\ EpAddBasic(Q, I) = (IF IsInfty(Q) THEN I ELSE Q)
                    /\ Good(EpSubBasic(I, Q), NNeg(B)) /\ Good(EpSubBasic(Q, I), B)
              /\ \A Q \in RepsProjc(B) :
                    /\ EpAddProjc(I, Q) = Q /\ EpAddProjc(Q, I) = (IF IsInfty(Q) THEN I ELSE Q)
                    /\ Good(EpSubProjc(I, Q), NNeg(B)) /\ Good(EpSubProjc(Q, I), B)
              /\ \A Q \in RepsJacob(B) :
                    /\ EpAddJacob(I, Q) = Q /\ EpAddJacob(Q, I) = (IF IsInfty(Q) THEN I ELSE Q)
                    /\ Good(EpSubJacob(I, Q), NNeg(B)) /\ Good(EpSubJacob(Q, I), B)

(***************************************************************************)
(* (1) affine coordinates                                                  *)
(* F1: on a point of order two (y = 0) ep_dbl_basic_imp calls fp_inv(0),   *)
(* which throws ERR_NO_VALID (CHECK on), instead of returning infinity;    *)
(* reached by ep_dbl_basic(P), ep_add_basic(P, P') and ep_sub(P, P') with  *)
(* P' a copy of P.  The invariants state the behaviour exactly: Throw in   *)
(* precisely these cases, the group law everywhere else.                   *)
(***************************************************************************)
BasicThrows(A, B) == Order2(A) /\ B = A
DblBasicOK ==
    IsCurve => \A A \in G : \A P \in RepsBasic(A) :
        LET R == EpDblBasic(P) IN
        IF Order2(A) THEN R = Throw ELSE Good(R, NDbl(A))
AddBasicOK ==
    IsCurve => \A A \in Finite, B \in Finite :
        LET E == NAdd(A, B) IN
        \A P \in RepsBasic(A), Q \in RepsBasic(B) :
            LET R == EpAddBasic(P, Q) IN
            IF BasicThrows(A, B) THEN R = Throw ELSE Good(R, E)
SubBasicOK ==
    IsCurve => \A A \in Finite, B \in Finite :
        LET E == NSub(A, B) IN
        \A P \in RepsBasic(A), Q \in RepsBasic(B) :
            LET R == EpSubBasic(P, Q) IN
            IF BasicThrows(A, B) THEN R = Throw ELSE Good(R, E)

(***************************************************************************)
(* (1)(2) homogeneous projective coordinates (RCB complete formulas)       *)
(* F2: for FINITE P, Q such that P - Q has exact order two the formulas    *)
(* return the all-zero triple (not a projective point; ep_is_infty says    *)
(* infinity, which is wrong unless Q = -P).  AddProjcOK: the group law for *)
(* every other pair and every representation, and never the all-zero       *)
(* triple for finite operands.  ProjcExceptionalOnlyOrder2: every excluded *)
(* pair really is exceptional, in every representation - so the            *)
(* exceptional set is EXACTLY {P - Q of exact order two}.                  *)
(* ProjcCompleteOnOddOrder: on curves of odd order nothing is excluded,    *)
(* i.e. AddProjcOK holds there for all pairs without exception.            *)
(***************************************************************************)
ProjcExcluded(A, B) == ~A.inf /\ ~B.inf /\ Order2(NSub(A, B))
DblProjcOK ==
    IsCurve => \A A \in G : \A P \in RepsProjc(A) : Good(EpDblProjc(P), NDbl(A))
AddProjcOK ==
    IsCurve => \A A \in Finite, B \in Finite :
        \/ ProjcExcluded(A, B)
        \/ LET E == NAdd(A, B) IN
           \A P \in RepsProjc(A), Q \in RepsProjc(B) :
               LET R == EpAddProjc(P, Q) IN
               Good(R, E) /\ ~AllZero(R)
ProjcExceptionalOnlyOrder2 ==
    IsCurve => \A A \in Finite, B \in Finite :
        ProjcExcluded(A, B) =>
           \A P \in RepsProjc(A), Q \in RepsProjc(B) :
               /\ AllZero(EpAddProjc(P, Q))
               /\ AllZero(EpSubProjc(P, EpNeg(Q)))     \* ep_sub(P, -Q): the same pair reached through ep_neg
ProjcCompleteOnOddOrder ==
    IsCurve /\ Cardinality(G) % 2 = 1 => \A A \in G, B \in G : ~ProjcExcluded(A, B)
SubProjcOK ==
    IsCurve => \A A \in Finite, B \in Finite :
        \/ ProjcExcluded(A, NNeg(B))
        \/ LET E == NSub(A, B) IN
           \A P \in RepsProjcFew(A), Q \in RepsProjcFew(B) : Good(EpSubProjc(P, Q), E)

(***************************************************************************)
(* (1) Jacobian coordinates: no exception                                  *)
(***************************************************************************)
DblJacobOK ==
    IsCurve => \A A \in G : \A P \in RepsJacob(A) : Good(EpDblJacob(P), NDbl(A))
AddJacobOK ==
    IsCurve => \A A \in Finite, B \in Finite :
        LET E == NAdd(A, B) IN
        \A P \in RepsJacob(A), Q \in RepsJacob(B) : Good(EpAddJacob(P, Q), E)
SubJacobOK ==
    IsCurve => \A A \in Finite, B \in Finite :
        LET E == NSub(A, B) IN
        \A P \in RepsJacobFew(A), Q \in RepsJacobFew(B) : Good(EpSubJacob(P, Q), E)

(***************************************************************************)
(* ep_neg, ep_sub with p == q, ep_norm                                     *)
(***************************************************************************)
NegOK ==
    IsCurve => \A A \in G : \A P \in RepsAll(A) :
        LET R == EpNeg(P) IN
        /\ Good(R, NNeg(A))
        /\ IF A.inf THEN R = SetInfty ELSE R.x = P.x /\ R.z = P.z /\ R.c = P.c
        /\ Abs(EpSubSame) = NSub(A, A)
(* ep_sub = ep_neg then ep_add, and ep_neg maps the enumerated representations of B ONTO those *)
(* of -B; so Add*OK over all z already covers every call ep_sub makes; Sub*OK re-check it      *)
(* directly for z in ZFew.                                                                    *)
NegPermutesReps ==
    IsCurve => \A B \in G :
        /\ {EpNeg(Q) : Q \in RepsBasic(B)} = IF B.inf THEN {SetInfty} ELSE RepsBasic(NNeg(B))
        /\ {EpNeg(Q) : Q \in RepsProjc(B)} = IF B.inf THEN {SetInfty} ELSE RepsProjc(NNeg(B))
        /\ {EpNeg(Q) : Q \in RepsJacob(B)} = IF B.inf THEN {SetInfty} ELSE RepsJacob(NNeg(B))
NormOK ==
    IsCurve => \A A \in G : \A P \in RepsAll(A) :
        EpNorm(P) = IF A.inf THEN SetInfty ELSE RepB(A)

(***************************************************************************)
(* Every z = 0 result the programs produce (P + (-P), doubling a point of  *)
(* order two, the F2 pairs) - these are the infinities ep_cmp must cope    *)
(* with                                                                    *)
(***************************************************************************)
InfOutputs ==
    LET outs == UNION {
              {EpAddBasic(P, Q) : P \in RepsBasic(A), Q \in RepsBasic(NNeg(A))}
         \cup {EpAddProjc(P, Q) : P \in RepsProjc(A), Q \in RepsProjc(NNeg(A))}
         \cup {EpAddJacob(P, Q) : P \in RepsJacob(A), Q \in RepsJacob(NNeg(A))}
         \cup {EpDblProjc(P) : P \in RepsProjc(A)} \cup {EpDblJacob(P) : P \in RepsJacob(A)}
         \cup UNION {{EpAddProjc(P, Q) : P \in RepsProjc(A), Q \in RepsProjc(B)} :
                        B \in {D \in Finite : ProjcExcluded(A, D)}}
            : A \in Finite}
    IN  {SetInfty} \cup {R \in outs : R.c # 0 /\ R.z = 0}
InfFormsCovered == IsCurve => InfOutputs \subseteq Infs

(***************************************************************************)
(* ep_cmp over all mixtures BASIC / PROJC / JACOB                          *)
(* F3: ep_cmp short-cuts infinity only when BOTH operands are infinity;    *)
(* with exactly one infinity I and a finite F the cross-multiplied         *)
(* coordinates of F are all multiplied by I.z = 0 (if I is tagged PROJC or *)
(* JACOB) and compared with I.x, I.y times something, so I = (0,0,0) with  *)
(* tag PROJC/JACOB compares RLC_EQ to EVERY finite point.  ep_add_jacob    *)
(* returns exactly this I for P + (-P) (ep_set_infty followed by           *)
(* r->coord = JACOB).  With tag BASIC, I = (0,0,0) compares EQ to the      *)
(* finite point with x = y = 0 (a point of curves with b = 0).             *)
(***************************************************************************)
CmpKnownWrong(P, Q) ==
    /\ IsInfty(P) # IsInfty(Q)
    /\ LET I == IF IsInfty(P) THEN P ELSE Q
           F == IF IsInfty(P) THEN Q ELSE P
       IN  I.x = 0 /\ I.y = 0 /\ (I.c # BASIC \/ (F.x = 0 /\ F.y = 0))
CmpReps(A, IO) == IF A.inf THEN IO ELSE RepsAllFew(A)
CmpOK ==
    IsCurve => LET IO == InfOutputs
                   nc == Cardinality(IO) + Cardinality(UNION {RepsAllFew(A) : A \in Finite})
               IN
        /\ \A A \in G, B \in G : \A P \in CmpReps(A, IO), Q \in CmpReps(B, IO) :
               EpCmp(P, Q) <=> (A = B \/ CmpKnownWrong(P, Q))
        /\ PrintT(<<"@@", "CNT", "cmp_cases", nc * nc>>)

(***************************************************************************)
(* (3) the p->coord == BASIC shortcuts agree with the general path on the  *)
(* same point tagged PROJC / JACOB with z = 1                              *)
(***************************************************************************)
MixedShortcutsAgree ==
    IsCurve => \A A \in Finite :
        LET PB == RepB(A)
            PP == Retag(PB, PROJC)
            PJ == Retag(PB, JACOB)
        IN  /\ Abs(DblProjcImp(PB)) = Abs(DblProjcImp(PP))
            /\ Abs(DblJacobImp(PB)) = Abs(DblJacobImp(PJ))
            /\ \A B \in Finite :
                  LET Q == RepB(B) IN
                  /\ Abs(AddProjcMix(PB, Q)) = Abs(AddProjcMix(PP, Q))
                  /\ AllZero(AddProjcMix(PB, Q)) <=> AllZero(AddProjcMix(PP, Q))
                  /\ Abs(AddJacobMix(PB, Q)) = Abs(AddJacobMix(PJ, Q))

(***************************************************************************)
(* F4: ep_add_projc(q, p, q).  Only the RLC_MIN3 branch of the full        *)
(* projective program is sensitive to r = q (see AddProjcFull); there the  *)
(* statement reads p->x + p->z in place of q->x, so the result is the      *)
(* group law only when these happen to be equal.  Checked on the a = -3    *)
(* curves; for the other curves aq is not read at all.                     *)
(***************************************************************************)
AliasQKnownWrong(P, Q) == OptA = "MIN3" /\ Q.c # BASIC /\ FAdd(P.x, P.z) # Q.x
AddProjcAliasQ ==
    IsCurve /\ OptA = "MIN3" => \A A \in Finite, B \in Finite :
        \/ ProjcExcluded(A, B)
        \/ LET E == NAdd(A, B) IN
           \A P \in RepsProjc(A), Q \in RepsProjc(B) :
               AliasQKnownWrong(P, Q) \/ Good(EpAddProjcA(P, Q, TRUE), E)

(***************************************************************************)
(* statistics (always TRUE): cases evaluated on this curve                 *)
(***************************************************************************)
NReps(f(_)) == Cardinality(UNION {f(A) : A \in Finite})
Stats ==
    IsCurve =>
    LET nb == NReps(RepsBasic)
        np == NReps(RepsProjc)
        nj == NReps(RepsJacob)
        nbf == NReps(RepsProjcFew)
        ex == Cardinality({w \in Finite \X Finite : ProjcExcluded(w[1], w[2])})
        aw == IF OptA # "MIN3" THEN 0
              ELSE Cardinality({w \in (UNION {RepsProjc(A) : A \in Finite}) \X (UNION {RepsProjc(A) : A \in Finite}) :
                                   /\ ~ProjcExcluded(Abs(w[1]), Abs(w[2]))
                                   /\ Abs(EpAddProjcA(w[1], w[2], TRUE)) # NAdd(Abs(w[1]), Abs(w[2]))})
        ni == Cardinality(Infs)
    IN  /\ PrintT(<<"@@", "CNT", "curves", 1>>)
        /\ PrintT(<<"@@", "CNT", "inf_operand_cases", 4 * ni * (nb + np + nj + 3 * ni)>>)
        /\ PrintT(<<"@@", "CNT", "odd_order_curves", Cardinality(G) % 2>>)
        /\ PrintT(<<"@@", "CNT", "add_basic_cases", nb * nb>>)
        /\ PrintT(<<"@@", "CNT", "add_projc_cases", np * np>>)
        /\ PrintT(<<"@@", "CNT", "add_jacob_cases", nj * nj>>)
        /\ PrintT(<<"@@", "CNT", "sub_projc_cases", nbf * nbf>>)
        /\ PrintT(<<"@@", "CNT", "sub_jacob_cases", nbf * nbf>>)
        /\ PrintT(<<"@@", "CNT", "projc_exceptional_abstract_pairs", ex>>)
        /\ PrintT(<<"@@", "CNT", "projc_alias_q_wrong_cases", aw>>)
=============================================================================
