CONSTANTS NSlots = 2  Digs = 2  DigBytes = 1  Cap = 3  MaxSteps = 3
SPECIFICATION MSpec
INVARIANTS Fits Sticky Frame
CHECK_DEADLOCK FALSE
