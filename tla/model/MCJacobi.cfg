CONSTANTS MaxN = 199
SPECIFICATION Spec
INVARIANTS Agree EulerAgrees
CHECK_DEADLOCK FALSE
