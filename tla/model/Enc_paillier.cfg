SPECIFICATION Spec
CONSTANTS
    Scheme = "paillier"
    K = 6
    A = 4
    MinPS = 2
    CheckPS = TRUE
    MaxN = 100
    HomMax = 21
    Qs = {5, 7}
    MaxShares = 4
INVARIANTS PaillierInverts PaillierHomomorphic
CHECK_DEADLOCK FALSE
