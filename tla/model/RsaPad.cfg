SPECIFICATION Spec
CONSTANTS
    Ks = {8}
    Id <- IdA
    MinPS = 2
    Scheme = "pkcs1"
INVARIANTS AcceptsCanonical AcceptsOnlyCanonical
CHECK_DEADLOCK FALSE
