----------------------------- MODULE MCTowerFrb -----------------------------
(***************************************************************************)
(* TowerFrb against the definitions of lib/Tower on small towers:          *)
(*   TExpB (balanced recursion)  = Tower!TExp    for exponents 0..E        *)
(*   TFrbF (semilinear Frobenius) = Tower!TFrb   (p-th power), powers 0..3 *)
(*   TLevelIsFieldB = Tower!TLevelIsField                                  *)
(* on ALL elements of F_p2 and F_p3 and on lattices of F_p4, F_p6, F_p8,   *)
(* F_p9, F_p12, F_p18 built the way the library builds them (xi = c + u).  *)
(* One configuration per prime: p = 7 (3 | p-1, 4 does not), 11 (3 does    *)
(* not divide p-1: the branch that computes g^p by exponentiation),        *)
(* 13 (12 | p-1: every descent step).                                      *)
(***************************************************************************)
EXTENDS TowerFrb, TLC
CONSTANTS p, nq, qnr2, cnr      \* u^2 = -nq, xi = qnr2 + u, u^3 = cnr in F_p3 (0: no cubic tower)
VARIABLES shape, x
P == BFromNat(p)
El0 == {BFromNat(n) : n \in 0..(p - 1)}
L(d, nr) == [deg |-> d, nr |-> nr]
Ext(T, d, nr) == [p |-> T.p, lv |-> T.lv \o <<L(d, nr)>>]
T2 == [p |-> P, lv |-> <<L(2, BFromNat(p - nq))>>]
T3 == [p |-> P, lv |-> <<L(3, BFromNat(cnr))>>]
Xi == <<BFromNat(qnr2), <<1>>>>
T4 == Ext(T2, 2, Xi)
T6 == Ext(T2, 3, Xi)
T8 == Ext(T4, 2, TGen(T4, 2))
T12 == Ext(T6, 2, TGen(T6, 2))
T9 == Ext(T3, 3, TGen(T3, 1))
T18 == Ext(T9, 2, TGen(T9, 2))
Towers == [t2 |-> T2, t4 |-> T4, t6 |-> T6, t8 |-> T8, t12 |-> T12] @@
          (IF cnr # 0 THEN [t3 |-> T3, t9 |-> T9, t18 |-> T18] ELSE <<>>)
Z2 == <<<<>>, <<>>>>
S2 == {Z2, <<<<1>>, <<>>>>, <<<<>>, <<1>>>>, <<BFromNat(p - 1), <<2>>>>}
S3 == {<<<<>>, <<>>, <<>>>>, <<<<1>>, <<2>>, <<>>>>, <<<<>>, BFromNat(p - 1), <<3>>>>}
Elements(s) ==
    CASE s = "t2" -> {<<a, b>> : a \in El0, b \in El0}
      [] s = "t3" -> {<<a, b, c>> : a \in El0, b \in El0, c \in El0}
      [] s = "t4" -> {<<a, b>> : a \in S2, b \in S2}
      [] s = "t6" -> {<<a, b, c>> : a \in S2, b \in S2, c \in {Z2, <<<<2>>, <<1>>>>}}
      [] s = "t8" -> {<<<<a, b>>, <<c, d>>>> : a \in {Z2, <<<<1>>, <<2>>>>}, b \in {Z2, <<<<>>, <<1>>>>}, c \in {Z2, <<<<3>>, <<>>>>},
                                                d \in {Z2, <<BFromNat(p - 1), <<1>>>>}}
      [] s = "t9" -> {<<a, b, c>> : a \in S3, b \in S3, c \in S3}
      [] s = "t12" -> {<<<<a, b, c>>, <<d, b, a>>>> : a \in {Z2, <<<<1>>, <<2>>>>}, b \in {Z2, <<<<>>, <<1>>>>}, c \in {Z2, <<<<3>>, <<>>>>},
                                                     d \in {Z2, <<BFromNat(p - 1), <<1>>>>}}
      [] s = "t18" -> {<<<<a, b, a>>, <<b, c, a>>>> : a \in S3, b \in S3, c \in {S3c \in S3 : S3c[1] = <<>>}}
Init == shape \in DOMAIN Towers /\ x \in Elements(shape)
Next == UNCHANGED <<shape, x>>
Spec == Init /\ [][Next]_<<shape, x>>

Exps == {<<>>, <<1>>, <<2>>, <<3>>, <<7>>, <<8>>, <<255>>, <<0, 1>>, <<57, 48>>, P, BMul(P, P), BSub(BMul(P, P), <<1>>)}
Check ==
    LET T == Towers[shape]
        k == Top(T)
        gs == FrbConsts(T)
    IN  /\ \A e \in Exps : TExpB(T, k, x, e) = TExp(T, k, x, e)
        /\ \A j \in 0..3 : TFrbFK(T, gs, k, x, j) = TFrb(T, k, x, j)
        /\ TFrbB(T, k, x, 1) = TFrb(T, k, x, 1)
        /\ TFrbFK(T, gs, k, x, TDim(T, k)) = x
        /\ \A j \in 1..k : TLevelIsFieldB(T, j) = TLevelIsField(T, j)
=============================================================================
