CONSTANTS p = 13
 nq = 2
 qnr2 = 0
 big = FALSE
 phases = {"quad", "sextic"}
SPECIFICATION Spec
INVARIANT Check
CHECK_DEADLOCK FALSE
