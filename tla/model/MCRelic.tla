------------------------------- MODULE MCRelic -------------------------------
(* model/Relic explored breadth-first over a small value set and a bounded   *)
(* number of calls: every reachable state keeps each known object within the *)
(* capacity, the sticky code is set exactly by error outcomes and cleared    *)
(* exactly by GetCode, and an error outcome never changes a slot other than  *)
(* its output (checked as an action property through the ghost `prev`).      *)
EXTENDS Relic, TLC
CONSTANT MaxSteps
VARIABLES steps, prev, lastOut, threw
mvars == <<vars, steps, prev, lastOut, threw>>
Vals == {IFromInt(0), IFromInt(1), IFromInt(0 - 1), IFromInt(255), IFromInt(256), IFromInt(65535), IFromInt(0 - 65536)}
Ops == {"bn_add", "bn_sub", "bn_mul", "bn_div", "bn_sqr", "bn_neg", "bn_lsh"}
MInit == Init /\ steps = 0 /\ prev = slots /\ lastOut = 1 /\ threw = FALSE
MNext ==
    /\ steps < MaxSteps /\ steps' = steps + 1 /\ prev' = slots
    /\ \/ \E s \in 1..NSlots, v \in Vals : Set(s, v) /\ lastOut' = s /\ threw' = threw
       \/ \E op \in Ops, o, a, b \in 1..NSlots, k \in {1, 8, 9} :
             /\ lastOut' = o
             /\ \/ Ret(op, o, a, b, k) /\ threw' = threw
                \/ Throw(op, o, a, b, k) /\ threw' = TRUE
       \/ \E r \in {0, 1} : GetCode(r) /\ lastOut' = lastOut /\ threw' = FALSE
MSpec == MInit /\ [][MNext]_mvars
Fits == \A s \in 1..NSlots : slots[s].known => DigitsOfVal(slots[s].val) <= Cap
Sticky == code = (IF threw THEN 1 ELSE 0)
Frame == \A s \in 1..NSlots : s # lastOut => slots[s] = prev[s]
=============================================================================
