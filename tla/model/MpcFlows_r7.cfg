SPECIFICATION Spec
CONSTANTS
    R = 7
    Second = {0, 1, 6}
    Delta = 0
    Break = "none"
INVARIANTS Opened Reconstruct WrongTriple
CHECK_DEADLOCK FALSE
