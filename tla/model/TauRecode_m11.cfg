CONSTANTS Ms = {5, 7, 11}  KBits = 12  WMax = 5  DigBits = 8
SPECIFICATION Spec
INVARIANTS ModPartial ModDone TnafPartial TnafDone RtnafPartial RtnafDone Bounded
CHECK_DEADLOCK FALSE
