------------------------------ MODULE MCTower ------------------------------
(***************************************************************************)
(* The definitions of lib/Tower are checked on small towers: F_p2 and      *)
(* F_p3 exhaustively (ring axioms on all pairs, inverses, Fermat, the      *)
(* Frobenius being a ring homomorphism of order deg, the irreducibility    *)
(* test against brute force), F_p6 = F_p2[v]/(v^3 - xi) and F_p12 on a     *)
(* lattice of elements.  One state per tower shape; one config per prime.               *)
(***************************************************************************)
EXTENDS Tower, FiniteSets, TLC
CONSTANT p            \* the prime (a constant, so that TLC caches the towers)
VARIABLES shape
Init == shape \in {"quad", "cubic", "sextic"}
Next == UNCHANGED shape
Spec == Init /\ [][Next]_shape

P == BFromNat(p)
El0 == {BFromNat(x) : x \in 0..(p - 1)}
(* smallest quadratic / cubic non-residue of F_p by brute force *)
IsSq(n) == \E x \in 0..(p - 1) : (x * x) % p = n
IsCu(n) == \E x \in 0..(p - 1) : (x * x * x) % p = n
Qnr == CHOOSE n \in 1..(p - 1) : ~IsSq(n) /\ \A m \in 1..(n - 1) : IsSq(m)
HasCnr == (p - 1) % 3 = 0
Cnr == CHOOSE n \in 1..(p - 1) : ~IsCu(n) /\ \A m \in 1..(n - 1) : IsCu(m)

T2 == [p |-> P, lv |-> <<[deg |-> 2, nr |-> BFromNat(Qnr)]>>]
T3 == [p |-> P, lv |-> <<[deg |-> 3, nr |-> BFromNat(Cnr)]>>]
El2 == {<<a, b>> : a \in El0, b \in El0}
El3 == {<<a, b, c>> : a \in El0, b \in El0, c \in El0}

FieldAxioms(T, E, deg) ==
    LET one == TOne(T, 1)  zero == TZero(T, 1) IN
    /\ \A x \in E : /\ TMul(T, 1, x, one) = x /\ TAdd(T, 1, x, zero) = x
                    /\ TAdd(T, 1, x, TNeg(T, 1, x)) = zero
                    /\ (x # zero => TMul(T, 1, x, TInv(T, 1, x)) = one)
                    /\ (x # zero => TExp(T, 1, x, TGroupOrder(T, 1)) = one)
                    /\ TFrb(T, 1, x, deg) = x
                    /\ TUnflat(T, 1, TFlat(T, 1, x)) = x
                    /\ InTower(T, 1, x)
    /\ \A x \in E, y \in {e \in E : \A i \in 1..deg : e[i] \in {<<>>, <<1>>, <<p - 1>>}} :
                       /\ TMul(T, 1, x, y) = TMul(T, 1, y, x)
                       /\ TMul(T, 1, x, y) \in E
                       /\ TSub(T, 1, TAdd(T, 1, x, y), y) = x
                       /\ TFrb(T, 1, TMul(T, 1, x, y), 1) = TMul(T, 1, TFrb(T, 1, x, 1), TFrb(T, 1, y, 1))
                       /\ TFrb(T, 1, TAdd(T, 1, x, y), 1) = TAdd(T, 1, TFrb(T, 1, x, 1), TFrb(T, 1, y, 1))
                       /\ (TMul(T, 1, x, y) = zero => x = zero \/ y = zero)      \* no zero divisors
    /\ TLevelIsField(T, 1)

(* a cubic extension of F_p2 with xi = u + c: pick the first non-cube by the spec's own test *)
XiCands == {<<BFromNat(c), <<1>>>> : c \in 0..(p - 1)}
T6(xi) == [p |-> P, lv |-> <<[deg |-> 2, nr |-> BFromNat(Qnr)], [deg |-> 3, nr |-> xi]>>]
T12(xi) == [p |-> P, lv |-> T6(xi).lv \o <<[deg |-> 2, nr |-> <<TZero(T2, 1), TOne(T2, 1), TZero(T2, 1)>>]>>]
Lattice6 == {<<a, b, c>> : a \in {<<<<>>, <<>>>>, <<<<1>>, <<2>>>>}, b \in {<<<<>>, <<1>>>>, <<<<3>>, <<>>>>},
                           c \in {<<<<>>, <<>>>>, <<<<1>>, <<1>>>>}}
Sextic ==
    \A xi \in XiCands :
        TLevelIsField(T6(xi), 2) =>
            LET T == T12(xi)  one == TOne(T, 3) IN
            /\ \A x, y, z \in Lattice6 :
                  /\ TMul(T, 2, TMul(T, 2, x, y), z) = TMul(T, 2, x, TMul(T, 2, y, z))
                  /\ TMul(T, 2, x, TAdd(T, 2, y, z)) = TAdd(T, 2, TMul(T, 2, x, y), TMul(T, 2, x, z))
            /\ \A x \in Lattice6 : x # TZero(T, 2) => TMul(T, 2, x, TInv(T, 2, x)) = TOne(T, 2)
            /\ \A x, y \in Lattice6 :
                  LET X == <<x, y>> IN
                  /\ (X # TZero(T, 3) => TMul(T, 3, X, TInv(T, 3, X)) = one)
                  /\ TFrb(T, 3, TMul(T, 3, X, X), 1) = TMul(T, 3, TFrb(T, 3, X, 1), TFrb(T, 3, X, 1))
                  /\ TUnflat(T, 3, TFlat(T, 3, X)) = X /\ Len(TFlat(T, 3, X)) = 12

Check == CASE shape = "quad" -> FieldAxioms(T2, El2, 2)
           [] shape = "cubic" -> (HasCnr => FieldAxioms(T3, El3, 3))
           [] shape = "sextic" -> Sextic
=============================================================================
