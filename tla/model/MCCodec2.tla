------------------------------ MODULE MCCodec2 ------------------------------
(***************************************************************************)
(* Design-level check of the G2 part of model/Codec (points over F_p^2)    *)
(* in a tiny world: F_PW^2 = F_PW[i]/(i^2 = QN), curve y^2 = x^3 + a x + b *)
(* with a = A0 + A1 i, b = B0 + B1 i; a field element is one byte.  States *)
(* = all strings of length <= 5 whose first byte is in TagSet and whose    *)
(* other bytes are in 0..PW (every residue and one value >= p) or 255.     *)
(* Invariants: Dec2Class accepts EXACTLY the image of EncPoint2 over the   *)
(* group computed by brute force with native integers; for an accepted     *)
(* string exactly one point satisfies IsDecPoint2 (the characterisation    *)
(* determines the ordinate) and it re-encodes to the input; every point    *)
(* round-trips; the square criterion and the inverse of F_p^2 are right.   *)
(* The same strings are read as F_p^2 ELEMENTS with two bytes per field    *)
(* element (plain a0 a1 = 4 bytes, packed unitary a0 sign = 3 bytes):      *)
(* Fp2Dec accepts exactly the image of Fp2Enc and re-encodes to the input. *)
(***************************************************************************)
EXTENDS Codec, FiniteSets, TLC
CONSTANTS PW, QN, A0, A1, B0, B1, TagSet
VARIABLES s

P  == BFromNat(PW)
C2 == [p |-> P, q |-> BFromNat(QN), a |-> <<BFromNat(A0), BFromNat(A1)>>, b |-> <<BFromNat(B0), BFromNat(B1)>>]
FB == 1
Alphabet == (0..PW) \cup {255}
Tags6 == {0, 2, 3, 4, 5, 255}

Init == s = <<>>
Next == /\ Len(s) < 5
        /\ \E b \in (IF Len(s) = 0 THEN TagSet ELSE Alphabet) : s' = Append(s, b)
Spec == Init /\ [][Next]_s

(* native reference *)
R == 0..(PW - 1)
NM(a, b) == <<(a[1] * b[1] + QN * a[2] * b[2]) % PW, (a[1] * b[2] + a[2] * b[1]) % PW>>
NA(a, b) == <<(a[1] + b[1]) % PW, (a[2] + b[2]) % PW>>
NOn(x, y) == NM(y, y) = NA(NA(NM(NM(x, x), x), NM(<<A0, A1>>, x)), <<B0, B1>>)
B2(a) == <<BFromNat(a[1]), BFromNat(a[2])>>
PInf2 == [inf |-> TRUE, x |-> F2Zero, y |-> F2Zero]
NGroup2 == {PInf2} \cup {[inf |-> FALSE, x |-> B2(<<t[1], t[2]>>), y |-> B2(<<t[3], t[4]>>)] :
                          t \in {u \in R \X R \X R \X R : NOn(<<u[1], u[2]>>, <<u[3], u[4]>>)}}
Image2 == {EncPoint2(Q, pk, C2, FB, "ietf") : Q \in NGroup2, pk \in BOOLEAN}

StrInv ==
    LET cl == Dec2Class(s, C2, FB) IN
    /\ (cl # "bad") <=> (s \in Image2)
    /\ (cl # "bad") =>
          LET Qs == {Q \in NGroup2 : IsDecPoint2(s, cl, Q, C2, FB)} IN
          /\ Cardinality(Qs) = 1
          /\ \A Q \in Qs : /\ EncPoint2(Q, cl = "cmp", C2, FB, "ietf") = s
                           /\ Len(s) = EncSize2(Q, cl = "cmp", FB)
    /\ (Len(s) \notin {1, 3, 5}) => cl = "bad"
    /\ (Len(s) >= 1 /\ s[1] \notin {0, 2, 3, 4}) => cl = "bad"
    /\ (Len(s) >= 2 /\ \E i \in 2..Len(s) : s[i] >= PW) => cl = "bad"

(* ---- the packed form of unitary F_p^2 elements, here with TWO bytes per field element *)
FC == [p |-> P, q |-> BFromNat(QN)]
NUnit(a) == (a[1] * a[1] + (PW - QN) * a[2] * a[2]) % PW = 1
F2Image(sg) == {Fp2Enc(B2(a), pk, FC, 2, sg) : a \in R \X R, pk \in BOOLEAN}
F2ImP == F2Image(SgParity)
F2ImH == F2Image(SgHalf)
F2PackInv ==
    \A sg \in {SgParity, SgHalf} :
        LET d == Fp2Dec(s, FC, 2, sg) IN
        /\ d.ok <=> s \in (IF sg.kind = "half" THEN F2ImH ELSE F2ImP)
        /\ d.ok => /\ In2(d.v, P)
                   /\ Fp2Enc(d.v, Len(s) = 3, FC, 2, sg) = s
                   /\ Len(s) = Fp2EncSize(d.v, Len(s) = 3, FC, 2)
                   /\ (Len(s) = 3 => F2Unitary(d.v, FC))
        /\ (s = <<>>) =>
              \A a \in R \X R : \A pk \in BOOLEAN :
                 /\ F2Unitary(B2(a), FC) <=> NUnit(a)
                 /\ Fp2Dec(Fp2Enc(B2(a), pk, FC, 2, sg), FC, 2, sg) = Ok(B2(a))
                 /\ Len(Fp2Enc(B2(a), pk, FC, 2, sg)) = Fp2EncSize(B2(a), pk, FC, 2)

RootInv == (s = <<>>) =>
    /\ \A Q \in NGroup2 : OnCurve2(Q, C2)
    /\ \A Q \in NGroup2 : \A pk \in BOOLEAN :
          LET e  == EncPoint2(Q, pk, C2, FB, "ietf")
              cl == Dec2Class(e, C2, FB)
          IN  /\ IsByteStr(e) /\ Len(e) = EncSize2(Q, pk, FB)
              /\ cl = (IF Q.inf THEN "inf" ELSE IF pk THEN "cmp" ELSE "unc")
              /\ IsDecPoint2(e, cl, Q, C2, FB)
    /\ Cardinality(Image2) = 2 * Cardinality(NGroup2) - 1
    /\ \E Q \in NGroup2 : ~Q.inf /\ Q.y[2] = <<>> /\ Q.y[1] # <<>>             \* the sign rule's y1 = 0 branch is exercised
    /\ \A a \in R \X R :
          /\ F2IsSquare(B2(a), C2) <=> (\E r \in R \X R : NM(r, r) = a)
          /\ (a # <<0, 0>>) => F2Mul(B2(a), F2Inv(B2(a), C2), C2) = <<<<1>>, <<>>>>
          /\ \A b \in {<<1, 0>>, <<0, 1>>, <<2, 3>>, <<PW - 1, PW - 2>>} : F2Mul(B2(a), B2(b), C2) = B2(NM(a, b))
=============================================================================
