------------------------------ MODULE MCCurve ------------------------------
(***************************************************************************)
(* The definition itself is checked: for EVERY nonsingular short           *)
(* Weierstrass curve over F_p (p in Primes) the operators of lib/Curve     *)
(* make the set of points an abelian group: closure, identity, inverse,    *)
(* commutativity, associativity (all triples), and [k]P agrees with        *)
(* repeated addition.  One state per curve.                                *)
(***************************************************************************)
EXTENDS Curve, FiniteSets, TLC
CONSTANT Primes
VARIABLES p, a, b

Init == /\ p \in Primes /\ a \in 0..(p - 1) /\ b \in 0..(p - 1)
        /\ (4 * a * a * a + 27 * b * b) % p # 0
Next == UNCHANGED <<p, a, b>>
Spec == Init /\ [][Next]_<<p, a, b>>

C == [p |-> BFromNat(p), a |-> BFromNat(a), b |-> BFromNat(b)]
Points == {PInf} \cup {Pt(BFromNat(x), BFromNat(y)) : x \in 0..(p - 1), y \in 0..(p - 1)}
Group == {P \in Points : OnCurve(P, C)}

RECURSIVE Rep(_, _)
Rep(n, P) == IF n = 0 THEN PInf ELSE PAdd(Rep(n - 1, P), P, C)

GroupLaw ==
    LET G == Group IN
    /\ \A P \in G : /\ PAdd(P, PInf, C) = P /\ PAdd(PInf, P, C) = P
                    /\ PNeg(P, C) \in G /\ PAdd(P, PNeg(P, C), C) = PInf
                    /\ PDbl(P, C) = PAdd(P, P, C)
                    /\ \A n \in {0, 1, 2, 3, 5, 8} : PMulNat(BFromNat(n), P, C) = Rep(n, P)
                    /\ PMul(TRUE, <<3>>, P, C) = PNeg(Rep(3, P), C)
                    /\ PMulNat(BFromNat(Cardinality(G)), P, C) = PInf       \* Lagrange
    /\ \A P, Q \in G : PAdd(P, Q, C) \in G /\ PAdd(P, Q, C) = PAdd(Q, P, C)
    /\ \A P, Q, R \in G : PAdd(PAdd(P, Q, C), R, C) = PAdd(P, PAdd(Q, R, C), C)
    \* Hasse bound
    /\ (Cardinality(G) - (p + 1)) * (Cardinality(G) - (p + 1)) <= 4 * p
=============================================================================
