------------------------------- MODULE KnuthD -------------------------------
(***************************************************************************)
(* bn_divn_low (src/low/easy/relic_bn_div_low.c) transcribed step by step: *)
(* schoolbook long division of digit vectors (HAC 14.20 / Knuth D) with    *)
(* normalisation, first-digit loop, quotient-digit estimate from the top   *)
(* two dividend digits, the 3-by-2 correction loop, multiply-subtract,     *)
(* add-back and de-normalisation - one action per loop iteration / branch. *)
(* Digits are W bits wide (Bs = 2^W); with W = 2 or 3 the estimate is off  *)
(* and add-back fires in a large share of the states instead of 2^-64.     *)
(*                                                                         *)
(* The caller (bn_div_imp) guarantees |a| >= |b| > 0, zeroed q and r and   *)
(* scratch copies x = |a|, y = |b| of capacity used(a) + 1 digits.         *)
(***************************************************************************)
EXTENDS Naturals, Integers, Sequences, FiniteSets, TLC

CONSTANTS W,       \* bits per digit
          MaxA,    \* maximal digits of the dividend
          MaxB     \* maximal digits of the divisor

RECURSIVE Pow(_, _)
Pow(x, n) == IF n = 0 THEN 1 ELSE x * Pow(x, n - 1)
Bs == Pow(2, W)
Cap == MaxA + 2                  \* model arrays: one more than the C capacity, to see overruns
Idx == 0..(Cap - 1)
Dig == 0..(Bs - 1)

VARIABLES pc, a, b, c, d, sa, sb, norm, i, a0, b0, sa0, sb0, oob, qovf, ncorr, nadd
vars == <<pc, a, b, c, d, sa, sb, norm, i, a0, b0, sa0, sb0, oob, qovf, ncorr, nadd>>

RECURSIVE ValR(_, _, _)
ValR(x, len, j) == IF j >= len THEN 0 ELSE x[j] + Bs * ValR(x, len, j + 1)
Val(x, len) == ValR(x, len, 0)

ToArr(v) == [j \in Idx |-> (v \div Pow(Bs, j)) % Bs]
NDigits(v) == IF v = 0 THEN 0 ELSE CHOOSE k \in 1..Cap : Pow(Bs, k - 1) <= v /\ v < Pow(Bs, k)
BitsDig(x) == IF x = 0 THEN 0 ELSE CHOOSE k \in 1..W : Pow(2, k - 1) <= x /\ x < Pow(2, k)

Init == \E av \in 1..(Pow(Bs, MaxA) - 1), bv \in 1..(Pow(Bs, MaxB) - 1) :
          /\ av >= bv
          /\ a0 = av /\ b0 = bv
          /\ sa0 = NDigits(av) /\ sb0 = NDigits(bv)
          /\ a = ToArr(av) /\ b = ToArr(bv)
          /\ sa = NDigits(av) /\ sb = NDigits(bv)
          /\ c = [j \in Idx |-> 0] /\ d = [j \in Idx |-> 0]
          /\ norm = 0 /\ i = 0 /\ oob = FALSE /\ qovf = FALSE /\ ncorr = 0 /\ nadd = 0
          /\ pc = "norm"

(* the C capacity of every scratch vector is used(a) + 1 digits *)
CCap == sa0 + 1
Touch(hi) == hi > CCap     \* an access to digits [.., hi) leaves the object

(* bn_lshb_low(x, x, size, bits): returns <<array, carry>> *)
ShlB(x, size, bits) ==
    LET v == Val(x, size) * Pow(2, bits)
    IN  <<[j \in Idx |-> IF j < size THEN (v \div Pow(Bs, j)) % Bs ELSE x[j]],
          v \div Pow(Bs, size)>>

Normalize ==
    /\ pc = "norm"
    /\ LET nb == BitsDig(b[sb - 1]) % W IN
       IF nb < W - 1
       THEN LET s  == (W - 1) - nb
                ra == ShlB(a, sa, s)
                rb == ShlB(b, sb, s)
            IN  /\ norm' = s
                /\ a' = IF ra[2] # 0 THEN [ra[1] EXCEPT ![sa] = ra[2]] ELSE ra[1]
                /\ sa' = IF ra[2] # 0 THEN sa + 1 ELSE sa
                /\ b' = IF rb[2] # 0 THEN [rb[1] EXCEPT ![sb] = rb[2]] ELSE rb[1]
                /\ sb' = IF rb[2] # 0 THEN sb + 1 ELSE sb
                /\ oob' = (oob \/ (ra[2] # 0 /\ Touch(sa + 1)) \/ (rb[2] # 0 /\ Touch(sb + 1)))
       ELSE norm' = 0 /\ UNCHANGED <<a, sa, b, sb, oob>>
    /\ pc' = "align"
    /\ UNCHANGED <<c, d, i, a0, b0, sa0, sb0, qovf, ncorr, nadd>>

N == sa - 1
T == sb - 1

(* dv_lshd(b, b, sb + (n - t), n - t): shift up by whole digits *)
Align ==
    /\ pc = "align"
    /\ b' = [j \in Idx |-> IF j < sb + (N - T) THEN (IF j >= N - T THEN b[j - (N - T)] ELSE 0) ELSE b[j]]
    /\ oob' = (oob \/ Touch(sb + (N - T)) \/ N < T)
    /\ pc' = "first"
    /\ UNCHANGED <<a, c, d, sa, sb, norm, i, a0, b0, sa0, sb0, qovf, ncorr, nadd>>

(* while (dv_cmp(a, b, sa) != RLC_LT) { c[n - t]++; a -= b; } *)
First ==
    /\ pc = "first"
    /\ IF Val(a, sa) >= Val(b, sa)
       THEN /\ c' = [c EXCEPT ![N - T] = (c[N - T] + 1) % Bs]
            /\ qovf' = (qovf \/ c[N - T] + 1 >= Bs)
            /\ a' = [j \in Idx |-> IF j < sa THEN ((Val(a, sa) - Val(b, sa)) \div Pow(Bs, j)) % Bs ELSE a[j]]
            /\ oob' = (oob \/ Touch(N - T + 1))
            /\ UNCHANGED <<pc, b, i>>
       ELSE /\ pc' = "loop"
            \* dv_rshd(b, b, sb + (n - t), n - t): shift back
            /\ b' = [j \in Idx |-> IF j < sb + (N - T)
                                   THEN (IF j + (N - T) < sb + (N - T) THEN b[j + (N - T)] ELSE 0)
                                   ELSE b[j]]
            /\ i' = N
            /\ UNCHANGED <<a, c, qovf, oob>>
    /\ UNCHANGED <<d, sa, sb, norm, a0, b0, sa0, sb0, ncorr, nadd>>

Qi == i - T - 1      \* index of the quotient digit being produced

(* quotient digit estimate: all-ones if a[i] = b[t], else (a[i]:a[i-1]) / b[t] *)
Estimate ==
    /\ pc = "loop"
    /\ IF i < T + 1
       THEN pc' = "denorm" /\ UNCHANGED <<c, qovf, i>>
       ELSE IF i > sa
       THEN i' = i - 1 /\ UNCHANGED <<pc, c, qovf>>
       ELSE LET q == IF a[i] = b[T] THEN Bs - 1
                     ELSE (a[i] * Bs + a[i - 1]) \div b[T]
            IN  /\ c' = [c EXCEPT ![Qi] = q % Bs]
                /\ qovf' = (qovf \/ q >= Bs)       \* RLC_DIV_DIG would overflow a digit
                /\ pc' = "correct"
                /\ UNCHANGED i
    /\ UNCHANGED <<a, b, d, sa, sb, norm, a0, b0, sa0, sb0, oob, ncorr, nadd>>

(* do { q--; } while (q * (b[t]:b[t-1]) > (a[i]:a[i-1]:a[i-2])) - one test per step *)
Correct ==
    /\ pc = "correct"
    /\ LET q  == c[Qi]
           t1 == q * ((IF T - 1 < 0 THEN 0 ELSE b[T - 1]) + Bs * b[T])
           t2 == (IF i - 2 < 0 THEN 0 ELSE a[i - 2]) + Bs * (IF i - 1 < 0 THEN 0 ELSE a[i - 1])
                 + Bs * Bs * a[i]
       IN  IF t1 > t2
           THEN /\ c' = [c EXCEPT ![Qi] = (q + Bs - 1) % Bs]
                /\ qovf' = (qovf \/ q = 0)          \* digit would wrap below zero
                /\ ncorr' = ncorr + 1
                /\ UNCHANGED pc
           ELSE pc' = "mulsub" /\ UNCHANGED <<c, qovf, ncorr>>
    /\ UNCHANGED <<a, b, d, sa, sb, norm, i, a0, b0, sa0, sb0, oob, nadd>>

(* d = b * q (sb digits + carry); a[qi ..] -= d, borrow propagated to a[sa) *)
MulSub ==
    /\ pc = "mulsub"
    /\ LET q    == c[Qi]
           prod == Val(b, sb) * q
           cy   == prod \div Pow(Bs, sb)
           sd   == IF cy # 0 THEN sb + 1 ELSE sb
           hi   == Val([j \in Idx |-> IF j + Qi < Cap THEN a[j + Qi] ELSE 0], sa - Qi)
           diff == hi - prod
           wrap == IF diff < 0 THEN diff + Pow(Bs, sa - Qi) ELSE diff
       IN  /\ d' = [j \in Idx |-> IF j < sd THEN (prod \div Pow(Bs, j)) % Bs ELSE d[j]]
           /\ a' = [j \in Idx |-> IF j >= Qi /\ j < sa THEN (wrap \div Pow(Bs, j - Qi)) % Bs ELSE a[j]]
           /\ oob' = (oob \/ Touch(sd) \/ Qi + sd > sa)
           /\ IF diff < 0 THEN pc' = "addback" /\ UNCHANGED i
              ELSE pc' = "loop" /\ i' = i - 1
    /\ UNCHANGED <<b, c, sa, sb, norm, a0, b0, sa0, sb0, qovf, ncorr, nadd>>

(* a[qi ..] += b, carry propagated (and dropped at the top); q-- *)
AddBack ==
    /\ pc = "addback"
    /\ LET hi  == Val([j \in Idx |-> IF j + Qi < Cap THEN a[j + Qi] ELSE 0], sa - Qi)
           sum == (hi + Val(b, sb)) % Pow(Bs, sa - Qi)
       IN  a' = [j \in Idx |-> IF j >= Qi /\ j < sa THEN (sum \div Pow(Bs, j - Qi)) % Bs ELSE a[j]]
    /\ c' = [c EXCEPT ![Qi] = (c[Qi] + Bs - 1) % Bs]
    /\ qovf' = (qovf \/ c[Qi] = 0)
    /\ nadd' = nadd + 1
    /\ i' = i - 1
    /\ pc' = "loop"
    /\ UNCHANGED <<b, d, sa, sb, norm, a0, b0, sa0, sb0, oob, ncorr>>

(* bn_rshb_low(d, a, sb, norm): remainder = low sb digits of a shifted back *)
Denorm ==
    /\ pc = "denorm"
    /\ d' = [j \in Idx |-> IF j < sb THEN ((Val(a, sb) \div Pow(2, norm)) \div Pow(Bs, j)) % Bs ELSE d[j]]
    /\ pc' = "done"
    /\ UNCHANGED <<a, b, c, sa, sb, norm, i, a0, b0, sa0, sb0, oob, qovf, ncorr, nadd>>

Next == Normalize \/ Align \/ First \/ Estimate \/ Correct \/ MulSub \/ AddBack \/ Denorm
Spec == Init /\ [][Next]_vars

(***************************************************************************)
(* Properties                                                              *)
(***************************************************************************)
(* what bn_div_imp reads back: q->used = used(a) - used(b) + 1, r->used = used(b) *)
Quot == Val(c, sa0 - sb0 + 1)
Rem  == Val(d, sb0)

Correctness == pc = "done" => /\ Quot = a0 \div b0
                              /\ Rem = a0 % b0
                              \* nothing of the result lies outside what the caller reads
                              /\ Val(c, Cap) = Quot
                              /\ Val(a, sa) = Rem * Pow(2, norm)
NoOverrun    == ~oob              \* every digit access stays inside used(a)+1 digits
DigitsFit    == ~qovf             \* no quotient digit overflows or wraps
(* the partial remainder invariant of long division *)
PartialRem == pc = "loop" => Val(a, sa) < Val(b, sb) * Pow(Bs, i - T)
TypeOK == /\ a \in [Idx -> Dig] /\ b \in [Idx -> Dig] /\ c \in [Idx -> Dig] /\ d \in [Idx -> Dig]
          /\ sa \in 1..Cap /\ sb \in 1..Cap
(* at most two corrections per digit, as the 3-by-2 estimate promises *)
=============================================================================
