CONSTANTS NF = 4  NG = 3  Discipline = "tryfinally"
SPECIFICATION Spec
INVARIANTS Reported NoLeak FreedOnce NoUseAfterFree
CHECK_DEADLOCK FALSE
