------------------------------- MODULE MCGF2m -------------------------------
(***************************************************************************)
(* The definitions of lib/GF2m are checked themselves: for every field     *)
(* polynomial f in Polys and EVERY pair of operands a, b below 2^deg(f)    *)
(*   - GAdd, GMulPoly, GDivMod, GModPoly against an independent reference  *)
(*     on TLC's native integers (NXor/NMul/NMod below: bit recursion on    *)
(*     Nat, a different shape from the byte-sequence Horner definitions),  *)
(*   - the field axioms: inverse (every non-zero a), square root, Fermat   *)
(*     a^(2^m) = a, trace additive / Frobenius-invariant / in {0,1},       *)
(*     half-trace relation H^2 + H = a + Tr(a) (odd m), solvability of     *)
(*     z^2 + z = c iff Tr(c) = 0, GExp by induction on the exponent,       *)
(*   - the quadratic extension GF(2^m)[s]/(s^2+s+1): s^2 = s + 1,          *)
(*     commutativity, associativity, distributivity on derived triples,    *)
(*     inverse by relation,                                                *)
(*   - GIsIrreducible against trial division for every polynomial < IrrMax.*)
(* Run WITHOUT GF2m.class / BigNat.class (pure = the definitions are       *)
(* right) and WITH them (the accelerator computes the definitions).        *)
(***************************************************************************)
EXTENDS GF2m, Integers, TLC
CONSTANTS Polys, IrrMax
VARIABLES f, a, b

RECURSIVE NDeg(_)
NDeg(n) == IF n = 0 THEN 0 - 1 ELSE 1 + NDeg(n \div 2)
RECURSIVE NMul(_, _)
NMul(x, y) == IF x = 0 THEN 0 ELSE (IF x % 2 = 1 THEN y ELSE 0) ^^ NMul(x \div 2, y * 2)
RECURSIVE NMod(_, _)
NMod(x, g) == IF NDeg(x) < NDeg(g) THEN x ELSE NMod(x ^^ (g * Pow2(NDeg(x) - NDeg(g))), g)
NIrr(n) == NDeg(n) >= 1 /\ \A d \in 2..(n - 1) : (NDeg(d) < NDeg(n)) => NMod(n, d) # 0

M == NDeg(f)
Init == f \in Polys /\ a = 0 /\ b \in 0..(Pow2(NDeg(f)) - 1)
Next == a < Pow2(M) - 1 /\ a' = a + 1 /\ UNCHANGED <<f, b>>

F == BFromNat(f)
A == BFromNat(a)
Bb == BFromNat(b)
One == <<1>>

PolyLevel ==
    /\ GDeg(A) = NDeg(a)
    /\ GAdd(A, Bb) = BFromNat(a ^^ b)
    /\ GAdd(A \o <<0>>, Bb) = BFromNat(a ^^ b)               \* non-normalised operand
    /\ GMulPoly(A, Bb) = BFromNat(NMul(a, b))
    /\ GMulPoly(A, F) = BFromNat(NMul(a, f))                  \* wider second operand
    /\ (b # 0 => LET qr == GDivMod(A, Bb) IN
                   /\ qr[2] = BFromNat(NMod(a, b))
                   /\ GAdd(GMulPoly(qr[1], Bb), qr[2]) = A
                   /\ GDeg(qr[2]) < GDeg(Bb)
                   /\ GModPoly(A, Bb) = qr[2])
    /\ LET p == GMulPoly(A, Bb) IN GModPoly(p, F) = BFromNat(NMod(NMul(a, b), f))
    /\ LET g == GGcd(A, Bb) IN
         IF a = 0 /\ b = 0 THEN g = <<>>
         ELSE /\ GModPoly(A, g) = <<>> /\ GModPoly(Bb, g) = <<>>
              /\ \A d \in 2..31 : (NMod(a, d) = 0 /\ NMod(b, d) = 0) => NMod(BToNat(g), d) = 0

FieldLevel ==
    LET ab == GMul(A, Bb, F)
        tA == GTrace(A, F)
        tB == GTrace(Bb, F)
    IN
    /\ GInField(A, M) /\ GInField(ab, M)
    /\ ab = BFromNat(NMod(NMul(a, b), f))
    /\ GSqr(A, F) = BFromNat(NMod(NMul(a, a), f))
    /\ (IF a = 0 THEN GInv(A, F) = <<>>
        ELSE LET i == GInv(A, F) IN GInField(i, M) /\ GMul(i, A, F) = One /\ GIsInvOf(i, A, F))
    \* Frobenius, square root, Fermat
    /\ GSqr(GAdd(A, Bb), F) = GAdd(GSqr(A, F), GSqr(Bb, F))
    /\ GSqr(GSqrt(A, F), F) = A
    /\ GItr(A, M, F) = A
    /\ GItr(A, 2, F) = GSqr(GSqr(A, F), F)
    \* trace
    /\ tA \in {0, 1}
    /\ GTrace(GAdd(A, Bb), F) = (tA + tB) % 2
    /\ GTrace(GSqr(A, F), F) = tA
    /\ GTrace(GAdd(GSqr(Bb, F), Bb), F) = 0
    \* z^2 + z = a is solvable exactly when Tr(a) = 0 (b ranges over every candidate z)
    /\ (GSolves(Bb, A, F) => tA = 0 /\ GSolvable(A, F))
    /\ (M % 2 = 1 =>
          LET h == GHalfTrace(A, F) IN
          /\ GAdd(GSqr(h, F), h) = GAdd(A, GTraceElt(A, F))
          /\ (tA = 0 <=> GSolves(h, A, F)))
    \* exponentiation by induction on the exponent b
    /\ (b = 0 => GExp(A, Bb, F) = One)
    /\ GExp(A, BFromNat(b + 1), F) = GMul(GExp(A, Bb, F), A, F)

Ext ==
    LET u == <<A, Bb>>
        v == <<Bb, GAdd(A, One)>>
        w == <<GSqr(A, F), A>>
        s == <<<<>>, One>>
    IN
    /\ G2Mul(s, s, F) = <<One, One>>
    /\ G2Mul(u, G2One, F) = u
    /\ G2Mul(u, v, F) = G2Mul(v, u, F)
    /\ G2Mul(G2Mul(u, v, F), w, F) = G2Mul(u, G2Mul(v, w, F), F)
    /\ G2Mul(u, G2Add(v, w), F) = G2Add(G2Mul(u, v, F), G2Mul(u, w, F))
    /\ G2Sqr(u, F) = <<GAdd(GSqr(A, F), GSqr(Bb, F)), GSqr(Bb, F)>>
    \* inverse: conjugate / norm, checked by the relation
    /\ (u # G2Zero =>
          LET n == GAdd(GAdd(GSqr(A, F), GMul(A, Bb, F)), GSqr(Bb, F))
              i == <<GMul(GAdd(A, Bb), GInv(n, F), F), GMul(Bb, GInv(n, F), F)>>
          IN  n # <<>> /\ G2IsInvOf(i, u, F))
    \* the trace of z^2 + z vanishes
    /\ G2Trace(G2Add(G2Sqr(u, F), u), F) = 0

Correct == PolyLevel /\ FieldLevel /\ (M % 2 = 1 => Ext)

ASSUME \A n \in 2..IrrMax : GIsIrreducible(BFromNat(n)) = NIrr(n)
ASSUME \A n \in Polys : NIrr(n)
=============================================================================
