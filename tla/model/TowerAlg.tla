------------------------------ MODULE TowerAlg ------------------------------
(***************************************************************************)
(* Design-level model of the specialised tower formulas AS CODED in        *)
(* src/fpx (C10), compared with the generic quotient-ring product of       *)
(* lib/Tower for a small prime p:                                          *)
(*   F_p2  : Karatsuba fp2_mul_basic with its unreduced accumulators, the  *)
(*           complex squaring fp2_sqr_basic (both qnr branches),           *)
(*           fp2_mul_nor_basic / fp2_mul_art  - ALL pairs of elements      *)
(*   F_p6  : fp6_mul_basic (Karatsuba, 6 products), fp6_sqr_basic          *)
(*           (Chung-Hasan with the halving), fp6_mul_dxs, fp6_mul_art and  *)
(*           the lazy-reduced fp6_mul_unr on double-width accumulators     *)
(*           kept in [0, p*R) by fp_addc_low / fp_subc_low                 *)
(*   F_p12 : fp12_mul_basic, fp12_sqr_basic (complex), fp12_mul_unr +      *)
(*           reduction (fp12_mul_lazyr), fp12_mul_dxs (D- and M-type)      *)
(*   cyclotomic subgroup of F_p12 (ALL its Phi_12(p) elements, walked as   *)
(*   the powers of a generator): Granger-Scott fp12_sqr_cyc, Karabina      *)
(*   fp12_sqr_pck, decompression fp12_back_cyc, conjugate = inverse        *)
(* The tower is the library's: u^2 = qnr, xi = qnr2 + u (u when p = 1, 5   *)
(* mod 8), v^3 = xi, w^2 = v.  Base-field steps are native integers mod p. *)
(***************************************************************************)
EXTENDS TowerFrb, Integers, FiniteSets, TLC
CONSTANTS p,          \* the prime
          phases,     \* which parts to run: subset of {"quad", "sextic", "dodecic", "cyc"}
          big,        \* TRUE: the larger operand lattices
          qnr2,       \* xi = qnr2 + u (0: xi = u)
          nq          \* u^2 = qnr = -nq (ctx->qnr is a negative integer; TLC configs take naturals)
VARIABLES ph, x, gg     \* gg: the generator the cyclotomic walk multiplies by (evaluated once, in Init)

P == BFromNat(p)
qnr == 0 - nq
Q == nq
B(n) == BFromNat(n % p)
N(b) == BToNat(b)
R == CHOOSE r \in {4, 8, 16, 32} : r > p /\ r \div 2 <= p          \* Montgomery radix: no spare bit
PR == p * R

T2 == [p |-> P, lv |-> <<[deg |-> 2, nr |-> B(p * Q + qnr)]>>]
XiOf(c) == <<B(c), <<1>>>>
T12Of(c) == LET T6 == [p |-> P, lv |-> T2.lv \o <<[deg |-> 3, nr |-> XiOf(c)]>>] IN
            [p |-> P, lv |-> T6.lv \o <<[deg |-> 2, nr |-> TGen(T6, 2)]>>]
IsTower(c) == LET T == T12Of(c) IN TLevelIsField(T, 1) /\ TLevelIsField(T, 2) /\ TLevelIsField(T, 3)
(* the library's choice is u itself for p = 1, 5 mod 8, else the first suitable of 1 + u, 2 + u, 4 + u, ...; *)
(* here a configuration constant (TLC re-evaluates a CHOOSE-defined tower at every use), checked below      *)
Qnr2 == qnr2
T12 == T12Of(Qnr2)
ASSUME IsTower(Qnr2) /\ (p % 8 \in {1, 5} <=> Qnr2 = 0)
Xi == XiOf(Qnr2)

El0 == {BFromNat(n) : n \in 0..(p - 1)}
El2 == {<<a, b>> : a \in El0, b \in El0}
A2(a, b) == TAdd(T12, 1, a, b)
S2(a, b) == TSub(T12, 1, a, b)
D2(a) == A2(a, a)

(***************************************************************************)
(* F_p2 as coded                                                           *)
(***************************************************************************)
(* fp2_mul_basic: three integer products, unreduced sums, one reduction per coefficient *)
Mul2c(a, b) ==
    LET a0 == N(a[1])  a1 == N(a[2])  b0 == N(b[1])  b1 == N(b[2])
        t2 == (a0 + a1) % p
        t1 == (b0 + b1) % p
        t3 == t2 * t1
        t0 == a0 * b0
        t4 == a1 * b1
        \* t1 = t0 - t4 and |qnr| - 1 further subtractions (fp_subc_low adds p*R on borrow)
        c0 == (t0 + Q * p * p - Q * t4) % p
        c1 == (t3 + 2 * p * p - (t0 + t4)) % p
    IN  <<B(c0), B(c1)>>
(* fp2_sqr_basic: complex squaring *)
Sqr2c(a) ==
    LET a0 == N(a[1])  a1 == N(a[2])
        t0 == (a0 + a1) % p
        t1 == (a0 + Q * p - Q * a1) % p                \* a0 + u^2 a1
    IN  IF qnr = 0 - 1
        THEN <<B(t0 * t1), B(((2 * a0) % p) * a1)>>
        ELSE LET c1 == (a0 * a1) % p
                 c0 == (((t0 * t1) % p) + (Q - 1) * c1) % p
             IN  <<B(c0), B(2 * c1)>>
(* fp2_mul_art: times u *)
Art2c(a) == <<B(Q * p - Q * N(a[2])), a[1]>>
(* fp2_mul_nor_basic: times xi, by additions only *)
RECURSIVE DblK(_, _)
DblK(a, c) == IF c <= 1 THEN a ELSE DblK(D2(a), c \div 2)
Nor2c(a) ==
    IF p % 8 \in {1, 5} THEN Art2c(a)
    ELSE IF p % 8 = 3 /\ Qnr2 = 1
         THEN <<B(N(a[1]) + p - N(a[2])), B(N(a[1]) + N(a[2]))>>
         ELSE A2(DblK(a, Qnr2), Art2c(a))

CheckQuad(a) ==
    /\ Sqr2c(a) = TMul(T12, 1, a, a)
    /\ Nor2c(a) = TMul(T12, 1, a, Xi)
    /\ Art2c(a) = TMul(T12, 1, a, TGen(T12, 1))
    /\ \A b \in El2 : Mul2c(a, b) = TMul(T12, 1, a, b)

(***************************************************************************)
(* F_p6 as coded (over the coded F_p2 routines)                            *)
(***************************************************************************)
Mul6c(a, b) ==
    LET v0 == Mul2c(a[1], b[1])
        v1 == Mul2c(a[2], b[2])
        v2 == Mul2c(a[3], b[3])
        t2 == S2(S2(Mul2c(A2(a[2], a[3]), A2(b[2], b[3])), v1), v2)
        c0 == A2(Nor2c(t2), v0)
        c1 == A2(S2(S2(Mul2c(A2(a[1], a[2]), A2(b[1], b[2])), v0), v1), Nor2c(v2))
        c2 == S2(A2(S2(Mul2c(A2(a[1], a[3]), A2(b[1], b[3])), v0), v1), v2)
    IN  <<c0, c1, c2>>
Hlv(n) == IF n % 2 = 0 THEN n \div 2 ELSE (n + p) \div 2
Hlv2(a) == <<B(Hlv(N(a[1]))), B(Hlv(N(a[2])))>>
(* fp6_sqr_basic: Chung-Hasan SQR3-style with the division by two *)
Sqr6c(a) ==
    LET t0 == Sqr2c(a[1])
        t1 == D2(Mul2c(a[2], a[3]))
        t2 == Sqr2c(a[3])
        s  == A2(a[1], a[3])
        t3 == Sqr2c(A2(s, a[2]))
        m  == Sqr2c(S2(s, a[2]))
        h  == Hlv2(A2(m, t3))
        t3b == S2(S2(t3, h), t1)
        c2 == S2(S2(h, t0), t2)
    IN  <<A2(t0, Nor2c(t1)), A2(t3b, Nor2c(t2)), c2>>
Art6c(a) == <<Nor2c(a[3]), a[1], a[2]>>
(* fp6_mul_dxs: b[3] = 0 *)
Dxs6c(a, b) ==
    LET v0 == Mul2c(a[1], b[1])
        v1 == Mul2c(a[2], b[2])
        t2 == A2(Nor2c(S2(Mul2c(A2(a[2], a[3]), b[2]), v1)), v0)
        c1 == S2(S2(Mul2c(A2(a[1], a[2]), A2(b[1], b[2])), v0), v1)
        c2 == A2(S2(Mul2c(A2(a[1], a[3]), b[1]), v0), v1)
    IN  <<t2, c1, c2>>

(* ---- lazy reduction: double-width accumulators, integers kept in [0, p*R) ---- *)
AddC(a, b) == IF a + b >= PR THEN a + b - PR ELSE a + b          \* fp_addc_low
SubC(a, b) == IF a < b THEN a + PR - b ELSE a - b                \* fp_subc_low
InAcc(t) == t >= 0 /\ t <= PR     \* p*R itself occurs (fp2_nord_low: p*R - 0)
(* fp2_muln_low: the Karatsuba product of fp2_mul_basic left unreduced (pairs of accumulators) *)
RECURSIVE SubK(_, _, _)
SubK(t, s, n) == IF n = 0 THEN t ELSE SubK(SubC(t, s), s, n - 1)
Muln2(a, b) ==
    LET a0 == N(a[1])  a1 == N(a[2])  b0 == N(b[1])  b1 == N(b[2])
        t3 == ((a0 + a1) % p) * ((b0 + b1) % p)
        t0 == a0 * b0
        t4 == a1 * b1
    IN  <<SubK(t0, t4, Q), SubC(t3, AddC(t0, t4))>>
AddC2(a, b) == <<AddC(a[1], b[1]), AddC(a[2], b[2])>>
SubC2(a, b) == <<SubC(a[1], b[1]), SubC(a[2], b[2])>>
RECURSIVE DblC(_, _)
DblC(t, c) == IF c <= 1 THEN t ELSE DblC(AddC2(t, t), c \div 2)
(* fp2_nord_low: times xi on accumulators *)
Nord2(a) ==
    IF p % 8 \in {1, 5} THEN <<SubK(SubC(PR, a[2]), a[2], Q - 1), a[1]>>
    ELSE IF p % 8 = 3 /\ Qnr2 = 1 THEN <<SubC(a[1], a[2]), AddC(a[1], a[2])>>
    ELSE LET t == DblC(a, Qnr2) IN <<SubC(t[1], a[2]), AddC(t[2], a[1])>>
(* fp6_mul_unr *)
Mul6u(a, b) ==
    LET u0 == Muln2(a[1], b[1])
        u1 == Muln2(a[2], b[2])
        u2 == Muln2(a[3], b[3])
        c0 == AddC2(Nord2(SubC2(Muln2(A2(a[2], a[3]), A2(b[2], b[3])), AddC2(u1, u2))), u0)
        c1 == AddC2(SubC2(Muln2(A2(a[1], a[2]), A2(b[1], b[2])), AddC2(u0, u1)), Nord2(u2))
        c2 == AddC2(SubC2(Muln2(A2(a[1], a[3]), A2(b[1], b[3])), AddC2(u0, u2)), u1)
    IN  <<c0, c1, c2>>
Rdc2(t) == <<B(t[1]), B(t[2])>>
Rdc6(t) == <<Rdc2(t[1]), Rdc2(t[2]), Rdc2(t[3])>>
AccOk6(t) == \A i \in 1..3 : InAcc(t[i][1]) /\ InAcc(t[i][2])

A6(a, b) == TAdd(T12, 2, a, b)
S6(a, b) == TSub(T12, 2, a, b)
(* a lattice of F_p2 values that reaches every reduction boundary: 0, 1, p-1, u, (p-1)(1+u), mixed *)
S2set == {<<<<>>, <<>>>>, <<<<1>>, <<>>>>, <<B(p - 1), <<>>>>, <<<<>>, <<1>>>>, <<B(p - 1), B(p - 1)>>, <<<<2>>, B(p - 2)>>}
Lat6 == {<<a, b, c>> : a \in S2set, b \in S2set, c \in S2set}
Small6 == {<<a, b, c>> : a \in {<<<<>>, <<>>>>, <<B(p - 1), B(p - 1)>>, <<<<2>>, B(p - 2)>>},
                         b \in {<<<<>>, <<>>>>, <<<<1>>, <<1>>>>, <<B(p - 1), <<3>>>>},
                         c \in {<<<<>>, <<>>>>, <<B(p - 1), B(p - 1)>>, <<<<1>>, <<2>>>>}}

CheckSextic(a) ==
    /\ Sqr6c(a) = TMul(T12, 2, a, a)
    /\ Art6c(a) = TMul(T12, 2, a, TGen(T12, 2))
    /\ \A b \in Small6 :
          /\ Mul6c(a, b) = TMul(T12, 2, a, b)
          /\ LET t == Mul6u(a, b) IN AccOk6(t) /\ Rdc6(t) = TMul(T12, 2, a, b)
          /\ (b[3] = <<<<>>, <<>>>> => Dxs6c(a, b) = TMul(T12, 2, a, b))

(***************************************************************************)
(* F_p12 as coded                                                          *)
(***************************************************************************)
Mul12c(a, b) ==
    LET t0 == Mul6c(a[1], b[1])
        t1 == Mul6c(a[2], b[2])
        c1 == S6(S6(Mul6c(A6(a[1], a[2]), A6(b[1], b[2])), t0), t1)
    IN  <<A6(t0, Art6c(t1)), c1>>
Sqr12c(a) ==
    LET t0 == Mul6c(A6(a[1], a[2]), A6(a[1], Art6c(a[2])))
        c1 == Mul6c(a[1], a[2])
    IN  <<S6(S6(t0, c1), Art6c(c1)), A6(c1, c1)>>
(* fp12_mul_unr followed by the reductions of fp12_mul_lazyr *)
AddC6(a, b) == <<AddC2(a[1], b[1]), AddC2(a[2], b[2]), AddC2(a[3], b[3])>>
SubC6(a, b) == <<SubC2(a[1], b[1]), SubC2(a[2], b[2]), SubC2(a[3], b[3])>>
Mul12u(a, b) ==
    LET u0 == Mul6u(a[1], b[1])
        u1 == Mul6u(a[2], b[2])
        u2 == Mul6u(A6(a[1], a[2]), A6(b[1], b[2]))
        c1 == SubC6(u2, AddC6(u0, u1))
        c0 == <<AddC2(u0[1], Nord2(u1[3])), AddC2(u0[2], u1[1]), AddC2(u0[3], u1[2])>>
    IN  <<c0, c1>>
Z2 == <<<<>>, <<>>>>
(* fp12_mul_dxs_basic, EP_ADD = PROJC; D-type: b = b00 + (b10 + b11 v) w; M-type: b = b00 + b01 v + b11 v w *)
Dxs12D(a, b) ==
    LET t0 == <<Mul2c(a[1][1], b[1][1]), Mul2c(a[1][2], b[1][1]), Mul2c(a[1][3], b[1][1])>>
        t2 == <<A2(b[1][1], b[2][1]), b[2][2], Z2>>
        t1 == Dxs6c(a[2], b[2])
        c1 == S6(S6(Dxs6c(A6(a[1], a[2]), t2), t0), t1)
    IN  <<A6(t0, Art6c(t1)), c1>>
Dxs12M(a, b) ==
    LET t0 == Dxs6c(a[1], b[1])
        t1 == <<Nor2c(Mul2c(a[2][3], b[2][2])), Mul2c(a[2][1], b[2][2]), Mul2c(a[2][2], b[2][2])>>
        t2 == <<b[1][1], A2(b[1][2], b[2][2]), Z2>>
        c1 == S6(S6(Dxs6c(A6(a[1], a[2]), t2), t0), t1)
    IN  <<A6(t0, Art6c(t1)), c1>>

Tiny6 == {<<a, b, c>> : a \in {Z2, <<B(p - 1), <<2>>>>}, b \in {Z2, <<<<1>>, B(p - 1)>>}, c \in {Z2, <<<<3>>, <<1>>>>}}
Lat12 == {<<a, b>> : a \in Small6, b \in Tiny6}
SparseD == {<<<<s, Z2, Z2>>, <<t, r, Z2>>>> : s \in {Z2, <<<<2>>, <<>>>>, <<B(p - 1), <<1>>>>}, t \in {Z2, <<<<1>>, B(p - 2)>>},
                                           r \in {Z2, <<B(p - 1), B(p - 1)>>}}
SparseM == {<<<<s, t, Z2>>, <<Z2, r, Z2>>>> : s \in {Z2, <<<<2>>, <<>>>>, <<B(p - 1), <<1>>>>}, t \in {Z2, <<<<1>>, B(p - 2)>>},
                                           r \in {Z2, <<B(p - 1), B(p - 1)>>}}
CheckDodecic(a) ==
    /\ Sqr12c(a) = TMul(T12, 3, a, a)
    /\ \A b \in {<<c, d>> : c \in Tiny6, d \in (IF big THEN Tiny6 ELSE {<<Z2, <<<<1>>, B(p - 1)>>, <<<<3>>, <<1>>>>>>})} :
          /\ Mul12c(a, b) = TMul(T12, 3, a, b)
          /\ LET t == Mul12u(a, b) IN
             /\ AccOk6(t[1]) /\ AccOk6(t[2])
             /\ <<Rdc6(t[1]), Rdc6(t[2])>> = TMul(T12, 3, a, b)
    /\ \A b \in SparseD : Dxs12D(a, b) = TMul(T12, 3, a, b)
    /\ \A b \in SparseM : Dxs12M(a, b) = TMul(T12, 3, a, b)

(***************************************************************************)
(* Cyclotomic subgroup: Granger-Scott squaring, Karabina compressed        *)
(* squaring and decompression, as coded                                    *)
(***************************************************************************)
M2(a, b) == Mul2c(a, b)
Q2(a) == Sqr2c(a)
(* the four compressed coefficients (a[1][2], a[1][3], a[2][1], a[2][3]) = (c01, c02, c10, c12) *)
Pck(a) ==
    LET t0 == Q2(a[1][2])
        t1 == Q2(a[2][3])
        t5 == S2(Q2(A2(a[1][2], a[2][3])), A2(t0, t1))
        t3 == Q2(A2(a[2][1], a[1][3]))
        t2 == Q2(a[2][1])
        t6 == Nor2c(t5)
        c10 == A2(D2(A2(t6, a[2][1])), t6)
        t5b == A2(t0, Nor2c(t1))
        c02 == A2(D2(S2(t5b, a[1][3])), t5b)
        t1b == Q2(a[1][3])
        t5c == A2(t2, Nor2c(t1b))
        c01 == A2(D2(S2(t5c, a[1][2])), t5c)
        t5d == S2(t3, A2(t2, t1b))
        c12 == A2(t5d, D2(A2(t5d, a[2][3])))
    IN  [c01 |-> c01, c02 |-> c02, c10 |-> c10, c12 |-> c12]
SqrCyc(a) ==
    LET t2 == Q2(a[1][1])
        t3 == Q2(a[2][2])
        t0 == A2(Nor2c(t3), t2)
        t1 == S2(S2(Q2(A2(a[1][1], a[2][2])), t2), t3)
        c00 == A2(t0, D2(S2(t0, a[1][1])))
        c11 == A2(t1, D2(A2(t1, a[2][2])))
        k  == Pck(a)
    IN  <<<<c00, k.c01, k.c02>>, <<k.c10, c11, k.c12>>>>
One2 == <<<<1>>, <<>>>>
(* fp12_back_cyc on the compressed coefficients g4 = c01, g3 = c02, g2 = c10, g5 = c12.            *)
(* Karabina: g2 # 0: g1 = (xi g5^2 + 3 g4^2 - 2 g3) / (4 g2);  g2 = 0: g1 = 2 g4 g5 / g3;             *)
(*           g0 = (2 g1^2 + g2 g5 - 3 g3 g4) xi + 1.                                                 *)
(* AS CODED the numerator selected for g2 = 0 (2 g4 g5) is then run through the steps of the other  *)
(* branch (3 t0 - 2 g3 + xi g5^2) - coded = TRUE transcribes that, coded = FALSE is Karabina's form. *)
BackF(a, coded) ==
    LET g4 == a[1][2]  g3 == a[1][3]  g2 == a[2][1]  g5 == a[2][3]
        f  == g2 = Z2
        unity == a = TOne(T12, 3)
        t0a == IF f THEN D2(M2(g4, g5)) ELSE M2(g4, g4)
        t1a == A2(D2(S2(t0a, g3)), t0a)
        t0b == IF f /\ ~coded THEN t0a ELSE A2(Nor2c(Q2(g5)), t1a)
        den == IF unity THEN One2 ELSE IF f THEN g3 ELSE D2(D2(g2))
        g1  == M2(t0b, TInv(T12, 1, den))
        t1b == M2(g3, g4)
        t2  == A2(S2(D2(S2(Q2(g1), t1b)), t1b), M2(g2, g5))
        g0  == A2(Nor2c(t2), One2)
    IN  <<<<g0, g4, g3>>, <<g2, g1, g5>>>>
Back(a) == BackF(a, TRUE)
BackK(a) == BackF(a, FALSE)
Conj12(a) == <<a[1], TNeg(T12, 2, a[2])>>

One12 == TOne(T12, 3)
PhiOrder == p * p * p * p - p * p + 1
(* into the cyclotomic subgroup: y^((p^6 - 1)(p^2 + 1)) *)
ToCyc(y) == TExp(T12, 3, y, BMul(BSub(BPow(P, 6), <<1>>), BAdd(BPow(P, 2), <<1>>)))
RECURSIVE PrimeFactors(_, _)
PrimeFactors(n, d) == IF n = 1 THEN {} ELSE IF d * d > n THEN {n}
                      ELSE IF n % d = 0 THEN {d} \cup PrimeFactors(n \div d, d) ELSE PrimeFactors(n, d + 1)
RECURSIVE StripAll(_, _)
StripAll(n, d) == IF n % d = 0 THEN StripAll(n \div d, d) ELSE n
FullOrder(g) == TExp(T12, 3, g, BFromNat(PhiOrder)) = One12 /\ \A f \in PrimeFactors(PhiOrder, 2) : TExp(T12, 3, g, BFromNat(PhiOrder \div f)) # One12
(* a generator of the cyclotomic subgroup (cyclic, of order Phi_12(p)) *)
Gen == CHOOSE g \in {ToCyc(<<c, d>>) : c \in Tiny6, d \in Tiny6 \ {<<Z2, Z2, Z2>>}} : FullOrder(g)

CheckCyc(a) ==
    LET sq == TMul(T12, 3, a, a)
        k  == Pck(a) IN
    /\ SqrCyc(a) = sq
    /\ k.c01 = sq[1][2] /\ k.c02 = sq[1][3] /\ k.c10 = sq[2][1] /\ k.c12 = sq[2][3]
    \* decompression (it needs the compressed coefficients only).  Karabina's formulas recover every
    \* element; the routine AS CODED does so unless g2 = 0 (recorded finding C10-back-cyc-g2-zero: for
    \* the Phi_12(p)/p^2 or so non-trivial elements with g2 = 0 the coded numerator is wrong)
    /\ (a # One12 => BackK(<<<<Z2, a[1][2], a[1][3]>>, <<a[2][1], Z2, a[2][3]>>>>) = a)
    /\ (a[2][1] # Z2 \/ a = One12 => Back(a) = a)
    /\ (a[2][1] # Z2 => Back(<<<<Z2, a[1][2], a[1][3]>>, <<a[2][1], Z2, a[2][3]>>>>) = a)
    /\ TMul(T12, 3, a, Conj12(a)) = One12

(***************************************************************************)
Init == \/ ph = "quad" /\ ph \in phases /\ x \in El2 /\ gg = <<>>
        \/ ph = "sextic" /\ ph \in phases /\ x \in Lat6 /\ gg = <<>>
        \/ ph = "dodecic" /\ ph \in phases /\ x \in Lat12 /\ gg = <<>>
        \/ ph = "cyc" /\ ph \in phases /\ x = One12 /\ gg = Gen
Next == /\ ph = "cyc"
        /\ ph' = ph /\ gg' = gg
        /\ x' = TMul(T12, 3, x, gg)
Spec == Init /\ [][Next]_<<ph, x, gg>>

Check == CASE ph = "quad" -> CheckQuad(x)
           [] ph = "sextic" -> CheckSextic(x)
           [] ph = "dodecic" -> CheckDodecic(x)
           [] ph = "cyc" -> CheckCyc(x)
(* the walk visits the whole subgroup: Gen has order Phi_12(p), so the "cyc" phase contributes *)
(* exactly Phi_12(p) distinct states to the count TLC reports                                 *)
=============================================================================
