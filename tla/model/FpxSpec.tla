------------------------------- MODULE FpxSpec -------------------------------
(***************************************************************************)
(* The extension-field towers of RELIC (the fpx module) at the level of    *)
(* one public call (C10).  Every level the library builds is an iterated   *)
(* quotient ring of lib/Tower:                                             *)
(*    fp2  = fp[u]/(u^2 - U2)        fp3  = fp[u]/(u^3 - U3)               *)
(*    fp4  = fp2[v]/(v^2 - XI)       fp6  = fp2[v]/(v^3 - XI)              *)
(*    fp8  = fp4[w]/(w^2 - v)        fp9  = fp3[v]/(v^3 - X3)              *)
(*    fp12 = fp6[w]/(w^2 - v)        fp18 = fp9[w]/(w^2 - v)               *)
(*    fp16 = fp8[z]/(z^2 - w)        fp24 = fp8[z]/(z^3 - w)               *)
(*    fp48 = fp24[t]/(t^2 - z)       fp54 = fp18[z]/(z^3 - w)              *)
(* The implementation-defined constants U2 (= u^2), XI (= fp2_mul_nor(1)), *)
(* U3 (= u^3 in fp3), X3 (= fp3_mul_nor(1)) are PARAMETERS: the driver     *)
(* reads them from the library once per selected prime and every event     *)
(* carries them raw (e.u2, e.xi, e.u3, e.x3).  A "tower" event checks once *)
(* per prime that they define fields (Tower!TLevelIsField at every level). *)
(* Every operation is then judged against generic polynomial arithmetic    *)
(* modulo the defining polynomials (TAdd, TMul, TInv, TExp, TFrb).         *)
(*                                                                         *)
(* Elements are logged as the sequence of their RAW base-field             *)
(* coefficients in storage order (= Tower!TFlat order, lowest level        *)
(* innermost); abstract value of a coefficient = FpRep!FAbs.  Every output *)
(* coefficient must be canonical (FCanon), as the prime-field layer (C02)  *)
(* promises and fpN_cmp (raw comparison) relies on.                        *)
(* Specialised forms are judged under their precondition only.             *)
(***************************************************************************)
EXTENDS FpRep, BigInt, TowerFrb

P(e) == FPrime(e)
Clean(e) == e.err = 0 /\ e.code = 0 /\ e.unch
MustThrow(e) == e.err # 0 /\ e.code = 1 /\ e.unch

(* R^-1 mod p, computed once per event *)
RInv(e) == IF e.mont = 1 THEN FInv(BMod(FR(e), P(e)), P(e)) ELSE <<1>>
AbsC(e, ri, raw) == FMul(BNorm(raw), ri, P(e))
RECURSIVE AbsSeq(_, _, _, _)
AbsSeq(e, ri, s, i) == IF i > Len(s) THEN <<>> ELSE <<AbsC(e, ri, s[i])>> \o AbsSeq(e, ri, s, i + 1)
CanonAll(e, s) == \A i \in 1..Len(s) : FCanon(e, s[i])

(***************************************************************************)
(* Tower descriptors                                                       *)
(***************************************************************************)
Lv(d, nr) == [deg |-> d, nr |-> nr]
Mk1(p, d, nr) == [p |-> p, lv |-> <<Lv(d, nr)>>]
(* extension of T by x^d - (generator of the top level of T) / by x^d - nr *)
ExtNr(T, d, nr) == [p |-> T.p, lv |-> T.lv \o <<Lv(d, nr)>>]
ExtGen(T, d) == ExtNr(T, d, TGen(T, Top(T)))

U2(e, ri) == AbsC(e, ri, e.u2[1])
XI(e, ri) == <<AbsC(e, ri, e.xi[1]), AbsC(e, ri, e.xi[2])>>
U3(e, ri) == AbsC(e, ri, e.u3[1])
X3(e, ri) == <<AbsC(e, ri, e.x3[1]), AbsC(e, ri, e.x3[2]), AbsC(e, ri, e.x3[3])>>

RECURSIVE TowerOf(_, _, _)
TowerOf(e, ri, n) ==
    CASE n = 2  -> Mk1(P(e), 2, U2(e, ri))
      [] n = 3  -> Mk1(P(e), 3, U3(e, ri))
      [] n = 4  -> ExtNr(TowerOf(e, ri, 2), 2, XI(e, ri))
      [] n = 6  -> ExtNr(TowerOf(e, ri, 2), 3, XI(e, ri))
      [] n = 9  -> ExtNr(TowerOf(e, ri, 3), 3, X3(e, ri))
      [] n = 8  -> ExtGen(TowerOf(e, ri, 4), 2)
      [] n = 12 -> ExtGen(TowerOf(e, ri, 6), 2)
      [] n = 16 -> ExtGen(TowerOf(e, ri, 8), 2)
      [] n = 18 -> ExtGen(TowerOf(e, ri, 9), 2)
      [] n = 24 -> ExtGen(TowerOf(e, ri, 8), 3)
      [] n = 48 -> ExtGen(TowerOf(e, ri, 24), 2)
      [] n = 54 -> ExtGen(TowerOf(e, ri, 18), 3)
Levels == {2, 3, 4, 6, 8, 9, 12, 16, 18, 24, 48, 54}

(* the constants really are what the descriptors say: u^2 and u^3 lie in the base field *)
ConstsOk(e, ri, n) ==
    /\ CanonAll(e, e.u2) /\ CanonAll(e, e.xi) /\ CanonAll(e, e.u3) /\ CanonAll(e, e.x3)
    /\ (n \in {2, 4, 6, 8, 12, 16, 24, 48} => AbsC(e, ri, e.u2[2]) = <<>>)
    /\ (n \in {3, 9, 18, 54} => AbsC(e, ri, e.u3[2]) = <<>> /\ AbsC(e, ri, e.u3[3]) = <<>>)

RECURSIVE AllLevelsFields(_, _)
AllLevelsFields(T, k) == IF k = 0 THEN TRUE ELSE TLevelIsFieldB(T, k) /\ AllLevelsFields(T, k - 1)

IntResidue(k, p) == IF k < 0 THEN FNeg(BMod(BFromNat(0 - k), p), p) ELSE BMod(BFromNat(k), p)
(* the prime is selected and, for each level the generator is about to use, the constants *)
(* define a field (each defining polynomial is irreducible over the level below)          *)
TowerSpec(e) ==
    LET ri == RInv(e) IN
    /\ e.err = 0 /\ e.code = 0
    /\ BIsPrime(P(e)) /\ BBit(P(e), 0) = 1
    /\ \A j \in 1..Len(e.lvls) :
          LET n == e.lvls[j] IN
          /\ n \in Levels
          /\ ConstsOk(e, ri, n)
          /\ LET T == TowerOf(e, ri, n) IN AllLevelsFields(T, Top(T))
    \* the integers the library reports agree with the constants its operations realise
    /\ ((\E j \in 1..Len(e.lvls) : e.lvls[j] \in {2, 4, 6, 8, 12, 16, 24, 48}) => U2(e, ri) = IntResidue(e.qnr, P(e)))
    /\ ((\E j \in 1..Len(e.lvls) : e.lvls[j] \in {3, 9, 18, 54}) => U3(e, ri) = IntResidue(e.cnr, P(e)))

(***************************************************************************)
(* Per-call context: tower, level, elements                                *)
(***************************************************************************)
El(e, ri, T, s) == TUnflat(T, Top(T), AbsSeq(e, ri, s, 1))
IsEl(e, s) == Len(s) = e.lvl /\ CanonAll(e, s)
(* normal return with canonical output raw equal to v *)
RetEl(e, ri, T, raw, v) == Clean(e) /\ IsEl(e, raw) /\ El(e, ri, T, raw) = v

DigV(e) == BMod(BNorm(e.dg), P(e))
IntOf(o) == I(o.s = 1, o.d)
BnNormalIn(o, w) == Len(o.d) = o.u * w

(* conjugation of a quadratic top level: w -> -w *)
Conj(T, x) == LET k == Top(T) IN <<x[1], TNeg(T, k - 1, x[2])>>
TopQuad(T) == Deg(T, Top(T)) = 2

(* x^(p^j) by the fast Frobenius; the top-level conjugation when j is half the degree *)
FrbJ(T, gs, n, x, j) == IF TopQuad(T) /\ 2 * j = n THEN Conj(T, x) ELSE TFrbFK(T, gs, Top(T), x, j)

(* membership in the cyclotomic subgroup: x # 0 and x^Phi_n(p) = 1, Phi_n(p) = p^(n/2) + 1  *)
(* for n a power of two and p^(n/3) - p^(n/6) + 1 for n = 12, 18, 24, 48, 54; for n = 4, 6  *)
(* (no cyclotomic API) the norm-1 condition x^(p^(n/2) + 1) = 1 of fp4_inv_cyc              *)
InCyc(T, gs, n, x) ==
    LET k == Top(T) IN
    /\ x # TZero(T, k)
    /\ IF n \in {2, 4, 8, 16}
       THEN TMul(T, k, FrbJ(T, gs, n, x, n \div 2), x) = TOne(T, k)
       ELSE TMul(T, k, FrbJ(T, gs, n, x, n \div 3), x) = FrbJ(T, gs, n, x, n \div 6)

(* a^x for a signed integer x; <<FALSE, _>> when undefined (0 to a negative power) *)
PowInt(T, a, x) ==
    LET k == Top(T) IN
    IF x.mag = <<>> THEN <<TRUE, TOne(T, k)>>
    ELSE IF ~x.neg THEN <<TRUE, TExpB(T, k, a, x.mag)>>
    ELSE IF a = TZero(T, k) THEN <<FALSE, a>>
    ELSE <<TRUE, TInv(T, k, TExpB(T, k, a, x.mag))>>

(* the exponent of the sparse form: sum of sign(b_i) 2^|b_i| (b_1 = 0 counts as +1), negated when sg = 1 *)
RECURSIVE SpsSum(_, _, _)
SpsSum(sp, i, neg) ==
    IF i > Len(sp) THEN <<>>
    ELSE LET r == SpsSum(sp, i + 1, neg) IN
         IF (sp[i] < 0) = neg /\ (sp[i] # 0 \/ ~neg)
         THEN BAdd(r, BShl(<<1>>, IF sp[i] < 0 THEN 0 - sp[i] ELSE sp[i])) ELSE r
SpsExp(e) == LET v == ISub(I(FALSE, SpsSum(e.sp, 1, FALSE)), I(FALSE, SpsSum(e.sp, 1, TRUE))) IN
             IF e.sg = 1 THEN INeg(v) ELSE v

(* positions (1-based, flat) of the coefficients a sparse operand must have zero *)
DxsZero(e) ==
    CASE e.lvl = 6  -> {5, 6}
      [] e.lvl = 9  -> {7, 8, 9}
      [] e.lvl = 8  -> {5, 6}
      [] e.lvl = 12 -> IF e.tw = 1 THEN {3, 4, 5, 6, 11, 12} ELSE {5, 6, 7, 8, 11, 12}
      [] e.lvl = 18 -> IF e.tw3 = 1 THEN {4, 5, 6, 7, 8, 9, 16, 17, 18} ELSE {7, 8, 9, 10, 11, 12, 16, 17, 18}
      [] OTHER -> {}
(* the precondition of the sparse multiplication of a level.  The sparse forms of the towers above degree 12 *)
(* (line functions of the k = 16, 24, 48, 54 pairings) choose between two shapes by looking at the operand:  *)
(*   fp16 = fp8[z]:  b[1][0] = 0, or else b[0][1] = 0 (b[0] a quartic-subfield multiple)                     *)
(*   fp24 = fp8[z]/(z^3 - w):  b[2] = 0, or else b[1] = 0                                                    *)
(*   fp48 = fp24[t]:  b[0] sparse as in fp24 with b[0][2] = 0, b[1] = b[1][1] z only                         *)
(*   fp54 = fp18[z]/(z^3 - w):  b[1] = 0 and b[2] = (b[2][0], 0)                                             *)
DxsZeroAt(e, S) == \A i \in S : BNorm(e.b[i]) = <<>>
DxsPre(e) ==
    CASE e.lvl = 16 -> DxsZeroAt(e, 9..12) \/ DxsZeroAt(e, 5..8)
      [] e.lvl = 24 -> DxsZeroAt(e, 17..24) \/ DxsZeroAt(e, 9..16)
      [] e.lvl = 48 -> DxsZeroAt(e, (17..32) \cup (41..48))
      [] e.lvl = 54 -> DxsZeroAt(e, (19..36) \cup (46..54))
      [] OTHER -> DxsZeroAt(e, DxsZero(e))
(* positions kept by the compressed (Karabina) form: g2, g3, g4, g5 *)
PckPos(e) ==
    CASE e.lvl = 12 -> {3, 4, 5, 6, 7, 8, 11, 12}
      [] e.lvl = 18 -> {4, 5, 6, 7, 8, 9, 10, 11, 12, 16, 17, 18}
      [] OTHER -> {}

PckZero(e, s) == \A i \in PckPos(e) : BNorm(s[i]) = <<>>

AddFs == {"add", "add_basic", "add_integ"}
SubFs == {"sub", "sub_basic", "sub_integ"}
DblFs == {"dbl", "dbl_basic", "dbl_integ"}
MulFs == {"mul", "mul_basic", "mul_integ", "mul_lazyr"}
SqrFs == {"sqr", "sqr_basic", "sqr_integ", "sqr_lazyr"}
NorFs == {"mul_nor", "mul_nor_basic", "mul_nor_integ"}
DxsFs == {"mul_dxs", "mul_dxs_basic", "mul_dxs_lazyr"}
SqrCycFs == {"sqr_cyc", "sqr_cyc_basic", "sqr_cyc_lazyr"}
SqrPckFs == {"sqr_pck", "sqr_pck_basic", "sqr_pck_lazyr"}

(* unreduced products: double-length accumulators t_i with t_i = v_i * R^2 (mod p) *)
UnrSpec(e, ri, T, v) ==
    LET flat == TFlat(T, Top(T), v) IN
    /\ Clean(e) /\ Len(e.t) = e.lvl
    /\ \A i \in 1..e.lvl :
          /\ Len(e.t[i]) = 2 * e.w * e.fd
          /\ FMul(FMul(BMod(BNorm(e.t[i]), P(e)), ri, P(e)), ri, P(e)) = flat[i]

InvSimSpec(e, ri, T) ==
    LET k == Top(T) IN
    /\ Len(e.as) = e.n /\ Len(e.cs) = e.n
    /\ \A i \in 1..e.n : IsEl(e, e.as[i])
    /\ IF \E i \in 1..e.n : El(e, ri, T, e.as[i]) = TZero(T, k) THEN MustThrow(e)
       ELSE /\ Clean(e)
            /\ \A i \in 1..e.n : /\ IsEl(e, e.cs[i])
                                 /\ TMul(T, k, El(e, ri, T, e.cs[i]), El(e, ri, T, e.as[i])) = TOne(T, k)

(* decompression: the result keeps the compressed coefficients and lies in the cyclotomic *)
(* subgroup (it is then the unique such element - Karabina); unity decompresses to unity  *)
BackOne(e, ri, T, gs, araw, craw) ==
    LET k == Top(T)
        a == El(e, ri, T, araw)
        c == El(e, ri, T, craw)
    IN  /\ IsEl(e, craw)
        /\ \A i \in PckPos(e) : craw[i] = araw[i]
        /\ InCyc(T, gs, e.lvl, c)
        /\ (a = TOne(T, k) => c = a)

OrderDivides(T, x, r) == x # TZero(T, Top(T)) /\ TExpB(T, Top(T), x, r) = TOne(T, Top(T))
SimGt(e) == e.lvl = 12 /\ e.pf # 0 /\ e.ek = 12
SimPre(e, T, gs, a, d) ==
    IF SimGt(e) THEN OrderDivides(T, a, BNorm(e.r)) /\ OrderDivides(T, d, BNorm(e.r))
    ELSE InCyc(T, gs, e.lvl, a) /\ InCyc(T, gs, e.lvl, d)

IsSquareEl(T, a) ==
    LET k == Top(T) IN
    IF a = TZero(T, k) THEN TRUE ELSE TExpB(T, k, a, BShr(TGroupOrder(T, k), 1)) = TOne(T, k)

FpxAccept(e) ==
    IF e.f = "tower" THEN TowerSpec(e)
    ELSE
    LET ri == RInv(e)
        T  == TowerOf(e, ri, e.lvl)
        k  == Top(T)
        a  == El(e, ri, T, e.a)
        b  == El(e, ri, T, e.b)
        one == TOne(T, k)
        zero == TZero(T, k)
        gs == FrbConsts(T)
        Ret(v) == RetEl(e, ri, T, e.c, v)
        In1 == IsEl(e, e.a)
        In2 == IsEl(e, e.a) /\ IsEl(e, e.b)
    IN
    /\ e.lvl \in Levels /\ ConstsOk(e, ri, e.lvl)
    /\ CASE e.f \in AddFs -> In2 /\ Ret(TAdd(T, k, a, b))
         [] e.f \in SubFs -> In2 /\ Ret(TSub(T, k, a, b))
         [] e.f \in MulFs -> In2 /\ Ret(TMul(T, k, a, b))
         [] e.f = "neg" -> In1 /\ Ret(TNeg(T, k, a))
         [] e.f \in DblFs -> In1 /\ Ret(TAdd(T, k, a, a))
         [] e.f \in SqrFs -> In1 /\ Ret(TMul(T, k, a, a))
         [] e.f = "copy" -> In1 /\ Clean(e) /\ e.c = e.a
         \* multiplication by the adjoined root of the top level
         [] e.f = "mul_art" -> In1 /\ Ret(TMul(T, k, a, TGen(T, k)))
         \* multiplication by the non-residue that defines the next level
         [] e.f \in NorFs -> In1 /\ Ret(TMul(T, k, a, IF e.lvl = 2 THEN XI(e, ri) ELSE X3(e, ri)))
         [] e.f \in DxsFs ->
                In2 /\ IF DxsPre(e)
                       THEN Ret(TMul(T, k, a, b)) ELSE e.err = 0 /\ e.code = 0
         [] e.f = "mul_unr" -> In2 /\ UnrSpec(e, ri, T, TMul(T, k, a, b))
         [] e.f = "sqr_unr" -> In1 /\ UnrSpec(e, ri, T, TMul(T, k, a, a))
         [] e.f = "inv" -> In1 /\ IF a = zero THEN MustThrow(e)
                                  ELSE Ret(TInv(T, k, a)) /\ TMul(T, k, El(e, ri, T, e.c), a) = one
         [] e.f = "inv_sim" -> InvSimSpec(e, ri, T)
         \* inverse of a norm-1 / cyclotomic element
         [] e.f = "inv_cyc" ->
                In1 /\ IF InCyc(T, gs, e.lvl, a)
                       THEN Ret(TInv(T, k, a)) /\ TMul(T, k, El(e, ri, T, e.c), a) = one
                       ELSE e.err = 0 /\ e.code = 0
         \* a^((p^(n/2) - 1)) and, for n = 12, 18, 24, 48, 54, further to the power p^(n/6) + 1
         [] e.f = "conv_cyc" ->
                In1 /\ IF a = zero THEN MustThrow(e)
                       ELSE LET n  == e.lvl
                                t  == TMul(T, k, FrbJ(T, gs, n, a, n \div 2), TInv(T, k, a))
                                r  == IF n \in {2, 8, 16} THEN t
                                      ELSE TMul(T, k, FrbJ(T, gs, n, t, n \div 6), t)
                            IN  Ret(r) /\ InCyc(T, gs, n, r)
         [] e.f = "test_cyc" ->
                In1 /\ Clean(e) /\ e.ret = (IF InCyc(T, gs, e.lvl, a) THEN 1 ELSE 0)
         [] e.f \in SqrCycFs ->
                In1 /\ IF InCyc(T, gs, e.lvl, a) THEN Ret(TMul(T, k, a, a)) ELSE e.err = 0 /\ e.code = 0
         [] e.f \in SqrPckFs ->
                In1 /\ IF InCyc(T, gs, e.lvl, a)
                       THEN /\ Clean(e) /\ Len(e.c) = e.lvl
                            /\ LET sq == TFlat(T, k, TMul(T, k, a, a)) IN
                               \A i \in PckPos(e) : FCanon(e, e.c[i]) /\ AbsC(e, ri, e.c[i]) = sq[i]
                       ELSE e.err = 0 /\ e.code = 0
         \* Domain of the decompression: Karabina's formulas divide by g2 or g3, and unity is recognised
         \* only as the full element 1 - four zero compressed coefficients with a[0][0] # 1 are not a
         \* compressed element the routine is defined on (no demand on the outcome)
         [] e.f = "back_cyc" ->
                In1 /\ IF PckZero(e, e.a) /\ a # one THEN e.unch
                       ELSE Clean(e) /\ BackOne(e, ri, T, gs, e.a, e.c)
         [] e.f = "back_cyc_sim" ->
                /\ Len(e.as) = e.n /\ Len(e.cs) = e.n
                /\ \A i \in 1..e.n : IsEl(e, e.as[i])
                /\ IF \E i \in 1..e.n : PckZero(e, e.as[i]) /\ El(e, ri, T, e.as[i]) # one THEN e.unch
                   ELSE Clean(e) /\ \A i \in 1..e.n : BackOne(e, ri, T, gs, e.as[i], e.cs[i])
         \* Frobenius powers: the p-th power map iterated k times (full = 2: Tower!TFrb as it stands;
         \* full = 1: the same with the balanced recursion; otherwise through semilinearity, TowerFrb)
         [] e.f = "frb" ->
                In1 /\ e.k >= 0
                    /\ Ret(IF e.full = 2 THEN TFrb(T, k, a, e.k)
                           ELSE IF e.full = 1 THEN TFrbB(T, k, a, e.k) ELSE TFrbFK(T, gs, k, a, e.k))
         \* fp2_mul_frb(c, a, i, j): a * XI^(j (p-1) div 6) for i = 1; a * XI^(p div (4, 8, 12, 24)[j]) for i = 2
         [] e.f = "mul_frb" ->
                In1 /\ e.lvl = 2 /\
                LET ex == IF e.k = 1 THEN BMul(BFromNat(e.j), BDiv(BSub(P(e), <<1>>), <<6>>))
                          ELSE BDiv(P(e), BFromNat(<<4, 8, 12, 24>>[e.j]))
                IN  Ret(TMul(T, k, a, TExpB(T, k, XI(e, ri), ex)))
         [] e.f = "mul_dig" -> In1 /\ Ret(TScale(T, k, a, DigV(e)))
         [] e.f = "add_dig" -> In1 /\ Ret(TAdd(T, k, a, TEmbed(T, 0, k, DigV(e))))
         [] e.f = "sub_dig" -> In1 /\ Ret(TSub(T, k, a, TEmbed(T, 0, k, DigV(e))))
         [] e.f = "set_dig" -> Ret(TEmbed(T, 0, k, DigV(e)))
         \* RLC_EQ = 0, RLC_NE = 2
         [] e.f = "cmp_dig" -> In1 /\ Clean(e) /\ e.ret = (IF a = TEmbed(T, 0, k, DigV(e)) THEN 0 ELSE 2)
         [] e.f = "cmp" -> In2 /\ Clean(e) /\ e.ret = (IF a = b THEN 0 ELSE 2)
         [] e.f = "is_zero" -> In1 /\ Clean(e) /\ e.ret = (IF a = zero THEN 1 ELSE 0)
         [] e.f = "zero" -> e.err = 0 /\ e.code = 0 /\ IsEl(e, e.c) /\ El(e, ri, T, e.c) = zero
         [] e.f = "rand" -> e.err = 0 /\ e.code = 0 /\ IsEl(e, e.c)
         [] e.f = "exp" ->
                In1 /\ BnNormalIn(e.e, e.w) /\
                LET r == PowInt(T, a, IntOf(e.e)) IN IF r[1] THEN Ret(r[2]) ELSE MustThrow(e)
         [] e.f = "exp_dig" -> In1 /\ Ret(TExpB(T, k, a, BNorm(e.dg)))
         [] e.f = "exp_cyc" ->
                In1 /\ IF InCyc(T, gs, e.lvl, a)
                       THEN Ret(PowInt(T, a, IntOf(e.e))[2]) ELSE e.err = 0 /\ e.code = 0
         \* a^b * d^e2.  Precondition: both cyclotomic; the dodecic variant works modulo the group
         \* order r through the Frobenius when a pairing-friendly curve with k = 12 is configured,
         \* i.e. it is written for elements of order dividing r
         [] e.f = "exp_cyc_sim" ->
                LET d == El(e, ri, T, e.d) IN
                In1 /\ IsEl(e, e.d) /\
                IF SimPre(e, T, gs, a, d)
                THEN Ret(TMul(T, k, PowInt(T, a, IntOf(e.e))[2], PowInt(T, d, IntOf(e.e2))[2]))
                ELSE e.err = 0 /\ e.code = 0
         [] e.f = "exp_cyc_sps" ->
                In1 /\ IF InCyc(T, gs, e.lvl, a)
                       THEN Ret(PowInt(T, a, SpsExp(e))[2]) ELSE e.err = 0 /\ e.code = 0
         [] e.f = "is_sqr" -> In1 /\ Clean(e) /\ e.ret = (IF IsSquareEl(T, a) THEN 1 ELSE 0)
         \* a root is returned exactly when one exists; either root is accepted
         [] e.f = "srt" ->
                In1 /\ Clean(e) /\
                IF e.ret = 1 THEN IsEl(e, e.c) /\ LET c == El(e, ri, T, e.c) IN TMul(T, k, c, c) = a
                ELSE e.ret = 0 /\ ~IsSquareEl(T, a)
         [] OTHER -> FALSE

(***************************************************************************)
(* Known findings (DESIGN.md 2.8): narrowly keyed, enabled only when       *)
(* listed in known_findings.json.                                          *)
(***************************************************************************)
(* the recorded Frobenius findings apply to events whose output is NOT the p^k-th power *)
NotFrobenius(e) ==
    LET ri == RInv(e)
        T  == TowerOf(e, ri, e.lvl)
    IN  El(e, ri, T, e.c) # TFrbFK(T, FrbConsts(T), Top(T), El(e, ri, T, e.a), e.k)
AllZeroRaw(s) == \A i \in 1..Len(s) : BNorm(s[i]) = <<>>
(* flat positions of the compressed coefficient g2 = a[1][0] *)
G2Pos(e) == IF e.lvl = 12 THEN {7, 8} ELSE {10, 11, 12}
G2Zero(e, s) == \A i \in G2Pos(e) : BNorm(s[i]) = <<>>
FpxKnownKey(e) ==
    CASE \* the membership test x^(p^(n/3)) * x = x^(p^(n/6)) is evaluated by relation and holds for x = 0
         e.f = "test_cyc" /\ e.lvl \in {12, 18, 24, 48, 54} /\ Len(e.a) = e.lvl /\ AllZeroRaw(e.a)
                /\ e.ret = 1 /\ e.err = 0 /\ e.code = 0 /\ e.unch
            -> "C10-test-cyc-accepts-zero"
         \* decompression of a non-trivial compressed element whose coefficient g2 = a[1][0] is zero: the
         \* numerator 2 g4 g5 selected for that case is overwritten by the steps of the other branch
      [] e.f = "back_cyc" /\ e.lvl \in {12, 18} /\ Len(e.a) = e.lvl /\ Len(e.c) = e.lvl
                /\ G2Zero(e, e.a) /\ ~AllZeroRaw([i \in 1..(e.lvl - 1) |-> e.a[i + 1]])
                /\ e.err = 0 /\ e.code = 0 /\ e.unch /\ CanonAll(e, e.c)
                /\ \A i \in PckPos(e) : e.c[i] = e.a[i]
            -> "C10-back-cyc-g2-zero"
      [] e.f = "back_cyc_sim" /\ e.lvl \in {12, 18} /\ e.err = 0 /\ e.code = 0 /\ e.unch
                /\ Len(e.as) = e.n /\ Len(e.cs) = e.n
                /\ (\E j \in 1..e.n : Len(e.as[j]) = e.lvl /\ G2Zero(e, e.as[j])
                                         /\ ~AllZeroRaw([i \in 1..(e.lvl - 1) |-> e.as[j][i + 1]]))
                \* every member whose g2 is not zero is decompressed correctly
                /\ LET ri == RInv(e)
                       T  == TowerOf(e, ri, e.lvl)
                       gs == FrbConsts(T) IN
                   \A j \in 1..e.n :
                       IF Len(e.as[j]) = e.lvl /\ G2Zero(e, e.as[j]) THEN Len(e.cs[j]) = e.lvl
                       ELSE IsEl(e, e.as[j]) /\ BackOne(e, ri, T, gs, e.as[j], e.cs[j])
            -> "C10-back-cyc-g2-zero"
         \* fp12_exp_cyc_sim with a pairing-friendly curve configured: the sign of the FIRST exponent is
         \* applied to the second one as well - the result is a^b * d^(-e2) when the signs differ
      [] e.f = "exp_cyc_sim" /\ e.lvl = 12 /\ e.pf # 0 /\ e.ek = 12
                /\ BNorm(e.e.d) # <<>> /\ BNorm(e.e2.d) # <<>> /\ e.e.s # e.e2.s
                /\ e.err = 0 /\ e.code = 0 /\ e.unch /\ Len(e.a) = 12 /\ Len(e.d) = 12 /\ Len(e.c) = 12 /\ CanonAll(e, e.c)
                /\ LET ri == RInv(e)
                       T  == TowerOf(e, ri, 12)
                       a  == El(e, ri, T, e.a)
                       d  == El(e, ri, T, e.d)
                   IN  /\ OrderDivides(T, a, BNorm(e.r)) /\ OrderDivides(T, d, BNorm(e.r))
                       /\ El(e, ri, T, e.c) = TMul(T, 3, PowInt(T, a, IntOf(e.e))[2], PowInt(T, d, INeg(IntOf(e.e2)))[2])
            -> "C10-exp-cyc-sim-sign"
         \* fpN_exp on a ZERO base at the levels whose exponentiation asks fpN_test_cyc first: zero passes that
         \* test (finding above) and is sent down the cyclotomic path - an error for positive exponents,
         \* a silent zero for negative ones
      [] e.f = "exp" /\ e.lvl \in {12, 18, 24, 48, 54} /\ Len(e.a) = e.lvl /\ AllZeroRaw(e.a)
                /\ BNorm(e.e.d) # <<>> /\ e.unch
                /\ ((e.err # 0 /\ e.code = 1) \/ (e.err = 0 /\ e.code = 0 /\ Len(e.c) = e.lvl /\ AllZeroRaw(e.c)))
            -> "C10-exp-zero-base-cyc-path"
         \* fpN_exp_dig on a cyclotomic element recodes the digit in NAF but starts the ladder at the top
         \* BINARY bit: wrong whenever the NAF is one digit longer than the binary form (3 b > 2^(bits + 1))
      [] e.f = "exp_dig" /\ e.lvl \in {8, 12, 16, 18, 24, 48, 54} /\ Len(e.a) = e.lvl /\ Len(e.c) = e.lvl
                /\ e.err = 0 /\ e.code = 0 /\ e.unch /\ CanonAll(e, e.c) /\ CanonAll(e, e.a)
                /\ BLt(BShl(<<1>>, BBits(BNorm(e.dg)) + 1), BMul(<<3>>, BNorm(e.dg)))
                /\ LET ri == RInv(e)
                       T  == TowerOf(e, ri, e.lvl) IN InCyc(T, FrbConsts(T), e.lvl, El(e, ri, T, e.a))
            -> "C10-exp-dig-cyc-naf-length"
         \* fp16_frb: the loop counts the power modulo 8 (powers 8..15 of a degree-16 field are not reduced
         \* correctly) and its constants do not fit primes = 3 mod 4
      [] e.f = "frb" /\ e.lvl = 16 /\ Len(e.a) = 16 /\ Len(e.c) = 16 /\ e.err = 0 /\ e.code = 0 /\ e.unch
                /\ CanonAll(e, e.c) /\ e.k >= 1 /\ (e.k % 16 >= 8 \/ BMod(P(e), <<4>>) = <<3>>)
            -> "C10-fp16-frb"
         \* fp54_frb: the corrections after the Frobenius constants are hard-coded per field size for one
         \* parameter set (#if FP_PRIME == 256 ...) and do not fit the other primes of that size
      [] e.f = "frb" /\ e.lvl = 54 /\ Len(e.a) = 54 /\ Len(e.c) = 54 /\ e.err = 0 /\ e.code = 0 /\ e.unch
                /\ CanonAll(e, e.c) /\ CanonAll(e, e.a) /\ e.k % 54 # 0 /\ NotFrobenius(e)
            -> "C10-fp54-frb"
         \* the Frobenius constants of the towers over fp2 are xi^(j (p-1) div 6) and xi^(p div 4): exact
         \* only for p = 1 (mod 6); on the selectable primes = 2 (mod 3) (brainpoolP256r1, SM2) whose
         \* residue classes still admit fp4 / fp6 the maps fp4_frb, fp6_frb, ... are not the p-th power
      [] e.f = "frb" /\ e.lvl \in {4, 6, 8, 12, 16, 24, 48} /\ Len(e.a) = e.lvl /\ Len(e.c) = e.lvl
                /\ e.err = 0 /\ e.code = 0 /\ e.unch /\ CanonAll(e, e.c)
                /\ BMod(P(e), <<3>>) = <<2>> /\ e.k % e.lvl # 0 /\ CanonAll(e, e.a) /\ NotFrobenius(e)
            -> "C10-frb-p-2-mod-3"
         \* fp8_mul_dxs in builds whose prime leaves spare bits in the top digit (FP_PRIME = 381, FP_QNRES):
         \* fp4_mul_dxs_unr multiplies a full double-length product by the non-residue with fp2_norh_low, which
         \* adds without the carry handling of fp2_nord_low; for about 1 in 18 random operands a coefficient
         \* comes out wrong (c[1][0]) or not reduced below p (c[0][1])
      [] e.f = "mul_dxs" /\ e.lvl = 8 /\ Len(e.a) = 8 /\ Len(e.b) = 8 /\ Len(e.c) = 8
                /\ e.err = 0 /\ e.code = 0 /\ e.unch /\ CanonAll(e, e.a) /\ CanonAll(e, e.b)
                /\ BBits(P(e)) % (8 * e.w) # 0 /\ (\A i \in DxsZero(e) : BNorm(e.b[i]) = <<>>)
                /\ LET ri == RInv(e)
                       T  == TowerOf(e, ri, 8)
                   IN  ~(CanonAll(e, e.c) /\ El(e, ri, T, e.c) = TMul(T, 3, El(e, ri, T, e.a), El(e, ri, T, e.b)))
            -> "C10-fp8-mul-dxs-lazy-room"
         \* fp18_mul_dxs_basic does not look at the twist type: with a D-type cubic twist installed (K18-P354) the sparse
         \* operand has the shape b[0] = (b00, 0, 0), b[1] = (b10, b11, 0), the routine still assumes the M-type shape
         \* b[0] = (b00, b01, 0), b[1] = (0, b11, 0) and drops b10 (fp18_mul_dxs_lazyr, the default, handles both)
      [] e.f = "mul_dxs_basic" /\ e.lvl = 18 /\ e.tw3 = 1 /\ Len(e.a) = 18 /\ Len(e.b) = 18 /\ Len(e.c) = 18
                /\ e.err = 0 /\ e.code = 0 /\ e.unch /\ CanonAll(e, e.a) /\ CanonAll(e, e.b) /\ CanonAll(e, e.c)
                /\ DxsPre(e) /\ (\E i \in 10..12 : BNorm(e.b[i]) # <<>>)
            -> "C10-fp18-mul-dxs-basic-dtype"
      [] OTHER -> ""
=============================================================================
