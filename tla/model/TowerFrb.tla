------------------------------ MODULE TowerFrb ------------------------------
(***************************************************************************)
(* The Frobenius map of a tower (lib/Tower) evaluated through its          *)
(* semilinearity instead of a full p-th power:                             *)
(*    x = sum_i x_i g^i  (x_i in level k-1, g the generator of level k,    *)
(*    g^d = nr)   ==>   x^p = sum_i (x_i)^p (g^p)^i ,                      *)
(* and g^p = g * nr^((p-1)/d) when d divides p - 1 (otherwise g^p is       *)
(* computed as a p-th power).  TFrbF is what the trace specification uses  *)
(* for the bulk of the Frobenius / cyclotomic events; its equality with    *)
(* the definition Tower!TFrb (p-th power by square and multiply) is        *)
(* model-checked exhaustively on small towers (MCTowerFrb) and re-checked  *)
(* on the real 256/381-bit towers by the events flagged "full".            *)
(***************************************************************************)
EXTENDS Tower

(***************************************************************************)
(* Square-and-multiply with a BALANCED recursion.  Tower!TExp recurses     *)
(* once per exponent bit; TLC evaluates recursion on the Java stack and a  *)
(* 256..1500-deep stack makes every garbage collection scan it (measured:  *)
(* 10-40 times slower per multiplication).  TExpB performs exactly the     *)
(* same left-to-right sequence of squarings and multiplications as TExp,   *)
(* but folds the bit range by halves and forces each half before the next  *)
(* (IF a = a), so that the stack depth is logarithmic.  TExpB = TExp is    *)
(* model-checked (MCTowerFrb) and re-checked at full width by the events   *)
(* flagged full = 2.                                                       *)
(***************************************************************************)
RECURSIVE ExpFold(_, _, _, _, _, _, _)
(* acc after consuming bits hi-1 .. lo of e (most significant first) *)
ExpFold(T, k, x, e, acc, lo, hi) ==
    IF hi - lo = 1
    THEN LET s == TMul(T, k, acc, acc) IN IF BBit(e, lo) = 1 THEN TMul(T, k, s, x) ELSE s
    ELSE LET mid == (lo + hi) \div 2
             a1  == ExpFold(T, k, x, e, acc, mid, hi)
         IN  IF a1 = a1 THEN ExpFold(T, k, x, e, a1, lo, mid) ELSE a1
TExpB(T, k, x, e) == IF BBits(e) = 0 THEN TOne(T, k) ELSE ExpFold(T, k, x, e, TOne(T, k), 0, BBits(e))

(* Tower!TLevelIsField and Tower!TFrb with the balanced exponentiation *)
TLevelIsFieldB(T, k) ==
    LET q1 == TGroupOrder(T, k - 1)
        d  == BFromNat(Deg(T, k))
    IN  /\ BMod(q1, d) = <<>>
        /\ TExpB(T, k - 1, Nr(T, k), BDiv(q1, d)) # TOne(T, k - 1)
RECURSIVE TFrbB(_, _, _, _)
TFrbB(T, k, x, j) == IF j = 0 THEN x
                     ELSE LET y == TExpB(T, k, x, T.p) IN IF y = y THEN TFrbB(T, k, y, j - 1) ELSE y

(* the generator of level k (k >= 1): the element x of level k = (level k-1)[x] / (x^d - nr) *)
TGen(T, k) == Mk(Deg(T, k), LAMBDA i : IF i = 2 THEN TOne(T, k - 1) ELSE TZero(T, k - 1))
PM1(T) == BSub(T.p, <<1>>)
Divides(m, T) == BMod(PM1(T), BFromNat(m)) = <<>>

(* nr_k^((p-1)/m) in level k-1, for m | p-1.  When nr_k is the generator of level k-1 and  *)
(* m * d_(k-1) | p-1 the power descends: g^((p-1)/m) = (g^d)^((p-1)/(m d)) = nr_(k-1)^(..) *)
RECURSIVE NrPow(_, _, _)
NrPow(T, k, m) ==
    IF k >= 2 /\ Nr(T, k) = TGen(T, k - 1) /\ Divides(m * Deg(T, k - 1), T)
    THEN TEmbed(T, k - 2, k - 1, NrPow(T, k - 1, m * Deg(T, k - 1)))
    ELSE TExpB(T, k - 1, Nr(T, k), BDiv(PM1(T), BFromNat(m)))

(* level k constant: when d | p-1, c = nr^((p-1)/d) in level k-1 (g^p = c g, so that the   *)
(* i-th coefficient of x^p is (x_i)^p c^i); otherwise G = g^p as an element of level k.     *)
GenFrb(T, k) ==
    IF Divides(Deg(T, k), T)
    THEN [div |-> TRUE, c |-> NrPow(T, k, Deg(T, k))]
    ELSE [div |-> FALSE, c |-> TExpB(T, k, TGen(T, k), T.p)]

(* the constants of all levels, computed once *)
RECURSIVE FrbConstsR(_, _)
FrbConstsR(T, k) == IF k > Top(T) THEN <<>> ELSE <<GenFrb(T, k)>> \o FrbConstsR(T, k + 1)
FrbConsts(T) == FrbConstsR(T, 1)

RECURSIVE TFrbF(_, _, _, _)
TFrbF(T, gs, k, x) ==
    IF k = 0 THEN x
    ELSE LET c  == gs[k].c
             f1 == TFrbF(T, gs, k - 1, x[1])
             f2 == TFrbF(T, gs, k - 1, x[2])
         IN  IF gs[k].div
             THEN IF Deg(T, k) = 2 THEN <<f1, TMul(T, k - 1, f2, c)>>
                  ELSE <<f1, TMul(T, k - 1, f2, c),
                         TMul(T, k - 1, TFrbF(T, gs, k - 1, x[3]), TMul(T, k - 1, c, c))>>
             ELSE LET y1 == TEmbed(T, k - 1, k, f1)
                      y2 == TEmbed(T, k - 1, k, f2)
                  IN  IF Deg(T, k) = 2 THEN TAdd(T, k, y1, TMul(T, k, y2, c))
                      ELSE LET y3 == TEmbed(T, k - 1, k, TFrbF(T, gs, k - 1, x[3])) IN
                           TAdd(T, k, TAdd(T, k, y1, TMul(T, k, y2, c)), TMul(T, k, y3, TMul(T, k, c, c)))

RECURSIVE TFrbFK(_, _, _, _, _)
TFrbFK(T, gs, k, x, j) == IF j = 0 THEN x ELSE TFrbFK(T, gs, k, TFrbF(T, gs, k, x), j - 1)
=============================================================================
