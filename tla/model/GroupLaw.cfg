CONSTANTS Primes = {5, 7, 11}  ZFullUpTo = 7
SPECIFICATION Spec
INVARIANTS RefIsGroup RepsSound InfOperandsOK
           DblBasicOK AddBasicOK SubBasicOK
           DblProjcOK AddProjcOK ProjcExceptionalOnlyOrder2 ProjcCompleteOnOddOrder SubProjcOK
           DblJacobOK AddJacobOK SubJacobOK
           NegOK NegPermutesReps NormOK InfFormsCovered CmpOK MixedShortcutsAgree AddProjcAliasQ Stats
CHECK_DEADLOCK FALSE
