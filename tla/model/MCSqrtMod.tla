----------------------------- MODULE MCSqrtMod -----------------------------
(***************************************************************************)
(* model/SqrtMod checked against brute force: for EVERY odd prime p in     *)
(* Primes (all residue classes mod 8, so that the (p+1)/4 shortcut and the *)
(* Tonelli-Shanks loop with S = 2, 3, 4, ... are exercised) and EVERY a in *)
(* F_p: FSqrt(a) is a root when a is a square (by enumeration) and "none"  *)
(* otherwise; for F_p2 with the least non-residue q and EVERY element:     *)
(* F2Sqrt is a root exactly when the element is a square by enumeration.   *)
(* One state per prime.                                                    *)
(***************************************************************************)
EXTENDS SqrtMod, FiniteSets, TLC
CONSTANT Primes, Primes2
VARIABLE p
Init == p \in Primes
Next == UNCHANGED p
Spec == Init /\ [][Next]_p

P == BFromNat(p)
Squares == {(x * x) % p : x \in 0..(p - 1)}
RootOk ==
    \A a \in 0..(p - 1) :
        LET r == FSqrt(BFromNat(a), P) IN
        IF a \in Squares THEN InField(r, P) /\ FSqr(r, P) = BFromNat(a)
        ELSE r = SqrtNone
TwoAdicOk == LET qs == TwoAdic(P) IN
             /\ BBit(qs[1], 0) = 1 /\ BShl(qs[1], qs[2]) = BSub(P, <<1>>)
             /\ FLegendre(NonResidue(P), P) = 0 - 1

Qnr == CHOOSE n \in 1..(p - 1) : n \notin Squares /\ \A m \in 1..(n - 1) : m \in Squares
El2 == {<<BFromNat(a), BFromNat(b)>> : a \in 0..(p - 1), b \in 0..(p - 1)}
Root2Ok ==
    p \in Primes2 =>
    LET q == BFromNat(Qnr)
        Sq2 == {Q2Mul(x, x, q, P) : x \in El2}
    IN  \A x \in El2 :
            LET r == F2Sqrt(x, q, P) IN
            /\ (x \in Sq2) = Q2IsSquare(x, q, P)
            /\ IF x \in Sq2 THEN r \in El2 /\ Q2Mul(r, r, q, P) = x ELSE r = SqrtNone
Check == RootOk /\ TwoAdicOk /\ Root2Ok
=============================================================================
