CONSTANT N = 47
INIT Init
NEXT Next
INVARIANT Correct
CHECK_DEADLOCK FALSE
