------------------------------ MODULE ShaStream ------------------------------
(***************************************************************************)
(* Design-level model of the streaming layer of RELIC's SHA-2 code (the    *)
(* operators of ShaCtx, which the trace specification MdTrace binds to the *)
(* real SHA256Context / SHA512Context fields call by call), scaled down:   *)
(* block of B bytes, a length field of two LB-byte words modulo M, all     *)
(* messages of at most MaxLen bytes fed in at most MaxChunks calls of any  *)
(* sizes (empty chunks included), optionally closed by FinalBits.          *)
(* The compression function is ABSTRACT: F(h, block) appends the block to  *)
(* the list h, so h IS the sequence of blocks handed to compression.       *)
(* The layer never inspects message bytes, so the message whose byte i has *)
(* the value i (all distinct, none equal to the pad bytes) represents every*)
(* message of its length.                                                  *)
(*                                                                         *)
(* Checked: at every moment compressed blocks || buffer = message so far;  *)
(* after Result the compressed blocks are exactly the FIPS 180-4 padding   *)
(* of the message (bit-oriented when FinalBits was used) cut in blocks,    *)
(* for every chunking; the bit length carries into the high word; Result   *)
(* is idempotent; Input / FinalBits after Result is an error and poisons   *)
(* the context; a message too long for the length field is refused.        *)
(***************************************************************************)
EXTENDS ShaCtx, TLC

CONSTANTS B, LB, M, MaxLen, MaxChunks, BitsSet

P == [B |-> B, LB |-> LB, M |-> M]
F(h, blk) == Append(h, blk)

VARIABLES ctx,      \* the context record
          msg,      \* ghost: the whole bytes accepted so far
          tail,     \* ghost: <<bits, n>> accepted by FinalBits, or <<0, 0>>
          calls,    \* number of Input calls made
          ret,      \* return code of the last call
          out,      \* digest (list of blocks) returned by the last successful Result, or <<>>
          misuse    \* ghost: an Input/FinalBits was attempted after finalisation
vars == <<ctx, msg, tail, calls, ret, out, misuse>>

Init == /\ ctx = CtxReset(<<>>) /\ msg = <<>> /\ tail = <<0, 0>> /\ calls = 0
        /\ ret = 0 /\ out = <<>> /\ misuse = FALSE

Chunk(n) == Eager([i \in 1..n |-> Len(msg) + i])

DoInput(n) ==
    /\ calls < MaxChunks
    /\ LET r == CtxInput(ctx, Chunk(n), P, F) IN
       /\ ctx' = r[1] /\ ret' = r[2]
       /\ msg' = IF r[2] = ShaSuccess /\ ~ctx.computed THEN msg \o Chunk(n) ELSE msg
       /\ misuse' = (misuse \/ (ctx.computed /\ n > 0))
    /\ calls' = calls + 1
    /\ UNCHANGED <<tail, out>>

DoFinalBits(bits, n) ==
    /\ LET r == CtxFinalBits(ctx, bits, n, P, F) IN
       /\ ctx' = r[1] /\ ret' = r[2]
       /\ tail' = IF r[2] = ShaSuccess /\ ~ctx.computed /\ n > 0 THEN <<bits, n>> ELSE tail
       /\ misuse' = (misuse \/ ctx.computed)
    /\ UNCHANGED <<msg, calls, out>>

DoResult ==
    /\ LET r == CtxResult(ctx, P, F) IN
       /\ ctx' = r[1] /\ ret' = r[2]
       /\ out' = IF r[2] = ShaSuccess THEN r[1].h ELSE <<>>
    /\ UNCHANGED <<msg, tail, calls, misuse>>

Next == \/ \E n \in 0..(MaxLen - Len(msg)) : DoInput(n)
        \/ \E bits \in BitsSet, n \in 1..7 : ~misuse /\ DoFinalBits(bits, n)
        \/ DoResult
Spec == Init /\ [][Next]_vars

-----------------------------------------------------------------------------
(* FIPS 180-4 5.1 for a message of whole bytes msg followed by the n most  *)
(* significant bits of the byte `bits`: append the bit 1, then zero bits   *)
(* up to a multiple of the block less the length field, then the bit       *)
(* length L as a 2*LB-byte big-endian integer (two LB-byte words).         *)
BitLen == 8 * Len(msg) + tail[2]
TooLong == M # 0 /\ BitLen >= M * M
LastByte == LET n == tail[2]
                keep == 2 ^ (8 - n)
            IN (tail[1] \div keep) * keep + keep \div 2      \* n bits, then the 1 bit
PadSpec ==
    LET body == msg \o <<LastByte>>
        z == (2 * B - ((Len(body) + 2 * LB) % B)) % B
    IN body \o Zeros(z) \o BE(BitLen \div M, LB) \o BE(BitLen % M, LB)
CutBlocks(s) == Eager([i \in 1..(Len(s) \div B) |-> SubSeq(s, B * (i - 1) + 1, B * i)])

TypeOK == /\ Len(ctx.blk) <= B /\ ctx.lo \in 0..(M - 1) /\ ctx.hi \in 0..(M - 1)
          /\ ctx.corrupted \in {0, 1, ShaStateError}

(* while absorbing: nothing lost, nothing reordered, buffer never full,    *)
(* length words = bit length (carry into the high word)                     *)
Absorbing == (~ctx.computed /\ ctx.corrupted = 0) =>
                /\ Flatten(ctx.h) \o ctx.blk = msg
                /\ \A i \in 1..Len(ctx.h) : Len(ctx.h[i]) = B
                /\ Len(ctx.blk) < B
                /\ ctx.hi * M + ctx.lo = 8 * Len(msg)
                /\ ~TooLong

(* a message the length field cannot express is refused, never digested     *)
Overflow == (ctx.corrupted = 1) <=> (TooLong /\ ~misuse)

(* finalised: the blocks compressed are exactly the padded message          *)
Finalised == (ctx.computed /\ ctx.corrupted = 0) =>
                /\ ~TooLong
                /\ ctx.h = CutBlocks(PadSpec)
                /\ ctx.blk = <<>> /\ ctx.lo = 0 /\ ctx.hi = 0
ResultRight == (out # <<>>) => out = CutBlocks(PadSpec)

(* Result is idempotent *)
Idempotent == (ctx.computed /\ ctx.corrupted = 0) =>
                LET r == CtxResult(ctx, P, F) IN r[1] = ctx /\ r[2] = ShaSuccess /\ r[1].h = ctx.h

(* more input after finalisation is an error, and the context stays poisoned *)
InputAfterResult ==
    /\ ctx.computed =>
         /\ CtxInput(ctx, <<1>>, P, F)[2] = ShaStateError
         /\ CtxInput(ctx, <<1>>, P, F)[1].corrupted = ShaStateError
         /\ CtxFinalBits(ctx, 255, 1, P, F)[2] = ShaStateError
    /\ misuse => /\ ctx.corrupted = ShaStateError
                 /\ CtxResult(ctx, P, F)[2] = ShaStateError
                 /\ CtxInput(ctx, <<1>>, P, F)[2] = ShaStateError
(* an empty Input is always accepted and changes nothing (even after Result) *)
EmptyInput == CtxInput(ctx, <<>>, P, F) = <<ctx, ShaSuccess>>
=============================================================================
