CONSTANTS p = 7
 nq = 1
 qnr2 = 2
 phases = {"cyc", "str", "any"}
 alpha = {0, 1, 2, 3, 5, 6, 7, 255}
 chunk = 50
SPECIFICATION Spec
INVARIANT Check
CHECK_DEADLOCK FALSE
