CONSTANTS W = 3  MaxA = 4  MaxB = 3
SPECIFICATION Spec
INVARIANTS TypeOK Correctness NoOverrun DigitsFit PartialRem
CHECK_DEADLOCK FALSE
