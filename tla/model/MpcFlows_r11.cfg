SPECIFICATION Spec
CONSTANTS
    R = 11
    Second = {0, 10}
    Delta = 0
    Break = "none"
INVARIANTS Opened Reconstruct WrongTriple
CHECK_DEADLOCK FALSE
