CONSTANT Primes = {5, 7, 11, 13}
SPECIFICATION Spec
INVARIANT Inv
CHECK_DEADLOCK FALSE
