------------------------------- MODULE CurveXB -------------------------------
(***************************************************************************)
(* Balanced-recursion evaluation of [k]P over a tower level (lib/CurveX),  *)
(* over F_p (lib/Curve) and of x^e in a tower (lib/Tower) for wide scalars *)
(* (C11, C12), with the signed variants the call-level specs need.         *)
(*                                                                         *)
(* [k]P is left-to-right double-and-add, x^e square-and-multiply.  A       *)
(* recursion once per scalar bit puts 256..1500 frames on the Java stack   *)
(* and every garbage collection of TLC scans it (an order of magnitude per *)
(* step).  The operators below perform EXACTLY the textbook left-to-right  *)
(* sequence of doublings/additions (squarings/multiplications) but fold    *)
(* the bit range by halves and force each half before the next (IF a = a), *)
(* so the stack depth is logarithmic.  (lib/CurveX, lib/Curve, lib/Tower   *)
(* have meanwhile adopted the same fold for XMulNat, PMulNat, TExp.)       *)
(* model/MCCurveX checks on small instances that XMulB / PMulB / TPowB     *)
(*   - equal the LINEAR once-per-bit recursion (the textbook definition),  *)
(*   - equal the library operators XMulNat / PMulNat / TExp, and           *)
(*   - are the k-fold repeated group operation: [k+1]P = [k]P + P.         *)
(***************************************************************************)
EXTENDS CurveX, Curve

RECURSIVE XMulFold(_, _, _, _, _, _)
(* acc after consuming bits hi-1 .. lo of n (most significant first) *)
XMulFold(n, P, c, acc, lo, hi) ==
    IF hi - lo = 1
    THEN LET d == XDbl(acc, c) IN IF BBit(n, lo) = 1 THEN XAdd(d, P, c) ELSE d
    ELSE LET mid == (lo + hi) \div 2
             a1  == XMulFold(n, P, c, acc, mid, hi)
         IN  IF a1 = a1 THEN XMulFold(n, P, c, a1, lo, mid) ELSE a1
XMulB(n, P, c) == IF BBits(n) = 0 THEN XInf(c) ELSE XMulFold(n, P, c, XInf(c), 0, BBits(n))
XMulSB(neg, mag, P, c) == IF neg THEN XNeg(XMulB(mag, P, c), c) ELSE XMulB(mag, P, c)
XSub(P, Q, c) == XAdd(P, XNeg(Q, c), c)
XEq(P, Q) == IF P.inf \/ Q.inf THEN P.inf = Q.inf ELSE P.x = Q.x /\ P.y = Q.y

RECURSIVE PMulFold(_, _, _, _, _, _)
PMulFold(k, P, c, acc, lo, hi) ==
    IF hi - lo = 1
    THEN LET d == PDbl(acc, c) IN IF BBit(k, lo) = 1 THEN PAdd(d, P, c) ELSE d
    ELSE LET mid == (lo + hi) \div 2
             a1  == PMulFold(k, P, c, acc, mid, hi)
         IN  IF a1 = a1 THEN PMulFold(k, P, c, a1, lo, mid) ELSE a1
PMulB(k, P, c) == IF BBits(k) = 0 THEN PInf ELSE PMulFold(k, P, c, PInf, 0, BBits(k))
PMulSB(neg, mag, P, c) == IF neg THEN PNeg(PMulB(mag, P, c), c) ELSE PMulB(mag, P, c)

RECURSIVE TPowFold(_, _, _, _, _, _, _)
TPowFold(T, k, x, e, acc, lo, hi) ==
    IF hi - lo = 1
    THEN LET s == TMul(T, k, acc, acc) IN IF BBit(e, lo) = 1 THEN TMul(T, k, s, x) ELSE s
    ELSE LET mid == (lo + hi) \div 2
             a1  == TPowFold(T, k, x, e, acc, mid, hi)
         IN  IF a1 = a1 THEN TPowFold(T, k, x, e, a1, lo, mid) ELSE a1
TPowB(T, k, x, e) == IF BBits(e) = 0 THEN TOne(T, k) ELSE TPowFold(T, k, x, e, TOne(T, k), 0, BBits(e))
(* x^e for a signed exponent: the inverse for negative e (x # 0) *)
TPowSB(T, k, x, neg, mag) == IF neg THEN TInv(T, k, TPowB(T, k, x, mag)) ELSE TPowB(T, k, x, mag)
=============================================================================
