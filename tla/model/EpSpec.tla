------------------------------- MODULE EpSpec -------------------------------
(***************************************************************************)
(* Prime curves of RELIC (the ep module) at the level of one public call   *)
(* (C03): what each group operation and each scalar multiplication must    *)
(* return for given operand VALUES.  The definition is lib/Curve (affine   *)
(* group law, model-checked to be a group law by model/MCCurve); raw       *)
(* objects are mapped to abstract points by lib/FpRep (PAbs: Montgomery    *)
(* coordinates + coordinate tag -> affine point, PNormal: normalised       *)
(* affine form).                                                           *)
(* An event e (harness/drv_ep.c) carries the field header (p, w, fd,       *)
(* mont), the raw curve coefficients ca, cb, the group order n (bn         *)
(* projection), build parameters (add = default coordinate system, endom,  *)
(* fpb = RLC_FP_BITS, wd = RLC_WIDTH, dep = RLC_DEPTH, dgb = RLC_DIG),     *)
(* al = alias pattern, the raw inputs BEFORE the call (P, Q points; k, m   *)
(* bn projections; dg digit; ps, ks lists), the raw outputs AFTER the call *)
(* (R point, ret), err (thrown error), code (sticky code), unch (every     *)
(* non-aliased input object bit-identical after the call).                 *)
(***************************************************************************)
EXTENDS FpRep, BigInt

Crv(e) == [p |-> FPrime(e), a |-> FAbs(e, e.ca), b |-> FAbs(e, e.cb)]
Ok(e) == e.crash = 0 /\ e.err = 0 /\ e.code = 0 /\ e.unch
ValidTag(P) == P.c \in {1, 2, 3}

(* operand representations a routine is specified for: affine (tag 1, z = 1 *)
(* or the library identity) and the projective system sys of the routine   *)
RepOk(e, P, sys) == /\ ValidTag(P) /\ PCanon(e, P)
                    /\ P.c \in {1, sys}
                    /\ (P.c = 1 => FAbs(e, P.z) \in {<<>>, <<1>>})
AnyRep(e, P) == ValidTag(P) /\ PCanon(e, P) /\ (P.c = 1 => FAbs(e, P.z) \in {<<>>, <<1>>})
(* precondition of every group operation: operands are points of the curve *)
OnC(e, P) == OnCurve(PAbs(e, P), Crv(e))

SysOf(e) ==
    CASE e.op \in {"ep_add_basic", "ep_dbl_basic"} -> 1
      [] e.op \in {"ep_add_projc", "ep_dbl_projc"} -> 2
      [] e.op \in {"ep_add_jacob", "ep_dbl_jacob"} -> 3
      [] OTHER -> e.add          \* the build's default system (ep_add, ep_dbl, ep_sub, ep_mul...)

(* the call returned normally and R represents the point X *)
RetPoint(e, X) == Ok(e) /\ ValidTag(e.R) /\ PEq(PAbs(e, e.R), X)
(* ... in normalised affine form *)
RetNormal(e, X) == RetPoint(e, X) /\ PNormal(e, e.R)

KNeg(k) == k.s = 1 /\ BNorm(k.d) # <<>>
(* [k]P by the definition, k a bn projection, P a raw point *)
KP(e, k, P) == PMul(KNeg(k), BNorm(k.d), PAbs(e, P), Crv(e))

(* sum of [k_i]P_i; the partial sums are a sequence built front to back so that TLC evaluates each once *)
RECURSIVE SumKPSeq(_, _)
SumKPSeq(e, sums) ==
    IF Len(sums) > Len(e.ps) THEN sums
    ELSE LET i == Len(sums)
             nxt == PAdd(sums[i], KP(e, e.ks[i], e.ps[i]), Crv(e))
         IN  SumKPSeq(e, Append(sums, nxt))
SumKP(e, i, acc) == LET s == SumKPSeq(e, <<acc>>) IN s[Len(s)]

DblOps == {"ep_dbl", "ep_dbl_basic", "ep_dbl_projc", "ep_dbl_jacob"}
AddOps == {"ep_add", "ep_add_basic", "ep_add_projc", "ep_add_jacob"}
MulOps == {"ep_mul", "ep_mul_basic", "ep_mul_slide", "ep_mul_monty", "ep_mul_lwnaf", "ep_mul_lwreg",
           "ep_mul_gen", "ep_mul_fix", "ep_mul_fix_basic", "ep_mul_fix_combs", "ep_mul_fix_combd",
           "ep_mul_fix_lwnaf"}
SimOps == {"ep_mul_sim", "ep_mul_sim_basic", "ep_mul_sim_trick", "ep_mul_sim_inter", "ep_mul_sim_joint",
           "ep_mul_sim_gen"}
LotOps == {"ep_mul_sim_lot", "ep_mul_sim_dig"}

EpAccept(e) ==
    LET c == Crv(e) IN
    CASE e.op = "ep_neg" ->
            AnyRep(e, e.P) /\ OnC(e, e.P) /\ RetPoint(e, PNeg(PAbs(e, e.P), c))
      [] e.op \in DblOps ->
            RepOk(e, e.P, SysOf(e)) /\ OnC(e, e.P) /\ RetPoint(e, PDbl(PAbs(e, e.P), c))
      [] e.op \in AddOps ->
            /\ RepOk(e, e.P, SysOf(e)) /\ RepOk(e, e.Q, SysOf(e)) /\ OnC(e, e.P) /\ OnC(e, e.Q)
            /\ RetPoint(e, PAdd(PAbs(e, e.P), PAbs(e, e.Q), c))
      [] e.op = "ep_sub" ->
            /\ RepOk(e, e.P, SysOf(e)) /\ RepOk(e, e.Q, SysOf(e)) /\ OnC(e, e.P) /\ OnC(e, e.Q)
            /\ RetPoint(e, PSub(PAbs(e, e.P), PAbs(e, e.Q), c))
      [] e.op = "ep_norm" ->
            AnyRep(e, e.P) /\ OnC(e, e.P) /\ RetNormal(e, PAbs(e, e.P))
      [] e.op = "ep_cmp" ->
            /\ AnyRep(e, e.P) /\ AnyRep(e, e.Q) /\ Ok(e)
            /\ ((e.ret = e.EQ) <=> PEq(PAbs(e, e.P), PAbs(e, e.Q)))
      [] e.op = "ep_on_curve" ->
            AnyRep(e, e.P) /\ Ok(e) /\ e.ret \in {0, 1} /\ ((e.ret = 1) <=> OnC(e, e.P))
      [] e.op = "ep_is_infty" ->
            AnyRep(e, e.P) /\ Ok(e) /\ e.ret \in {0, 1} /\ ((e.ret = 1) <=> PAbs(e, e.P).inf)
      [] e.op \in MulOps ->
            RepOk(e, e.P, SysOf(e)) /\ OnC(e, e.P) /\ RetNormal(e, KP(e, e.k, e.P))
      [] e.op = "ep_mul_dig" ->
            /\ RepOk(e, e.P, SysOf(e)) /\ OnC(e, e.P)
            /\ RetNormal(e, PMul(FALSE, BNorm(e.dg), PAbs(e, e.P), c))
      [] e.op \in SimOps ->
            /\ RepOk(e, e.P, SysOf(e)) /\ RepOk(e, e.Q, SysOf(e)) /\ OnC(e, e.P) /\ OnC(e, e.Q)
            /\ RetNormal(e, PAdd(KP(e, e.k, e.P), KP(e, e.m, e.Q), c))
      [] e.op \in LotOps ->
            /\ Len(e.ps) = e.cnt /\ Len(e.ks) = e.cnt
            /\ \A i \in 1..Len(e.ps) : RepOk(e, e.ps[i], SysOf(e)) /\ OnC(e, e.ps[i])
            /\ RetNormal(e, SumKP(e, 1, PInf))
      [] e.op = "curve_probe" -> TRUE          \* input discovery, nothing claimed
      [] e.op = "restart" -> TRUE              \* resume marker after an event with crash # 0
      [] OTHER -> FALSE

(***************************************************************************)
(* Known findings (/verif/known_findings.json): enabled only for the op +  *)
(* input class + the kind of wrong outcome the finding describes.          *)
(*                                                                         *)
(* C03-lwreg-long-scalar: on curves without endomorphism ep_mul_lwreg      *)
(* (ep_mul_reg_imp) never reduces k modulo the group order n.  Its regular *)
(* recoding (bn_rec_reg) has l = ceil(bits(n)/(w-1)) digits of w-1 bits    *)
(* plus one top digit that must be an odd table index below 2^(w-1), so it *)
(* represents |k| < 2^((w-1)*(l+1)) only: for longer |k| the constant-time *)
(* table scan matches no entry, an uninitialised operand is added and the  *)
(* call returns a point that is not [k]P (or an affine addition throws).   *)
(* bn_rec_reg also copies all digits of k into a stack buffer of           *)
(* ceil(l*(w-1)/RLC_DIG) digits: a k with more digits overruns it          *)
(* (observed: SIGSEGV), which is the other admitted outcome.               *)
(*                                                                         *)
(* C03-fixlwnaf-zero-mod-order: ep_mul_fix_lwnaf reduces k modulo n and    *)
(* hands the result to ep_mul_fix_plain, which reads naf[l - 1] although   *)
(* the recoding of 0 has length l = 0: for k a non-zero multiple of n the  *)
(* call returns a point different from the identity (typically -P).        *)
(*                                                                         *)
(* C03-addprojc-min3-alias: in the a = -3 branch of the full projective    *)
(* addition (second operand tagged projective) ep_add_projc writes r->x    *)
(* before its last read of q->x: with the output aliasing the SECOND       *)
(* operand (r == q, also r == p == q) the returned point is not P + Q.     *)
(*                                                                         *)
(* C03-sim-table-infinity: ep_mul_sim_joint / ep_mul_sim_trick normalise   *)
(* their tables with ep_norm_sim, whose simultaneous inversion cannot      *)
(* handle the identity: when a table entry iP + jQ is the identity (joint: *)
(* Q = P or Q = -P; trick: some 0 <= i, j < 2^(w/2)) the call throws.      *)
(*                                                                         *)
(* C03-simtrick-short-scalar: ep_mul_sim_trick recodes k mod n and m mod n *)
(* with bn_rec_win(w = RLC_WIDTH/2), whose mixed int/size_t arithmetic     *)
(* wraps for scalars shorter than w bits: a reduced scalar 0 (k a non-zero *)
(* multiple of n) throws ERR_NO_BUFFER, a reduced scalar of 1..w-1 bits    *)
(* (k = 1 mod n for w = 2) runs the window loop past the buffer (SIGSEGV). *)
(*                                                                         *)
(* C03-cmp-zero-infinity: ep_cmp special-cases the identity only when BOTH *)
(* operands are the identity; the identity stored as the all-zero triple   *)
(* with a projective tag - exactly what ep_add_jacob returns for P + (-P)  *)
(* (ep_set_infty, then r->coord = JACOB) - compares RLC_EQ to EVERY finite *)
(* point (both sides of the cross multiplication are 0).                   *)
(*                                                                         *)
(* Curves of even order (cofactor 2, 4, 8; tiny world with h = 2):         *)
(* C03-dblbasic-order-two: affine doubling of a point of order two (y = 0) *)
(* inverts 2y = 0: fp_inv throws, nothing is returned (expected identity); *)
(* reached through ep_dbl_basic, ep_add_basic(P, P), ep_sub(P, P').        *)
(* C03-addprojc-order-two-difference: the complete projective formulas     *)
(* (Renes-Costello-Batina) are complete only for odd order: for finite P,  *)
(* Q with P - Q of exact order two ep_add_projc returns the all-zero       *)
(* triple, which reads as the identity.                                    *)
(***************************************************************************)
CeilDiv(x, y) == (x + y - 1) \div y
OrderTwo(X) == ~X.inf /\ X.y = <<>>
KRed(e, k) == IModPos(I(k.s = 1, k.d), BNorm(e.n.d))
TrickFirstShort(e) ==      \* the reduced scalar bn_rec_win fails on first ("none" if neither is short)
    LET w == e.wd \div 2 IN
    IF BBits(KRed(e, e.k)) < w THEN KRed(e, e.k)
    ELSE IF BBits(KRed(e, e.m)) < w THEN KRed(e, e.m) ELSE <<255, 255>>
SimTableInf(e) ==
    LET c == Crv(e)
        P == PAbs(e, e.P)
        Q == PAbs(e, e.Q)
        M == Pow2(e.wd \div 2) - 1
    IN  IF e.op = "ep_mul_sim_joint" THEN PEq(P, Q) \/ PEq(P, PNeg(Q, c))
        ELSE \E i \in 0..M, j \in 0..M :
                /\ i * (M + 1) + j >= 2
                /\ PAdd(PMulNat(BFromNat(i), P, c), PMulNat(BFromNat(j), Q, c), c).inf
LwregDigits(e) == CeilDiv(BBits(e.n.d), e.wd - 1)
LwregCap(e) == (e.wd - 1) * (LwregDigits(e) + 1)
LwregBuf(e) == CeilDiv(LwregDigits(e) * (e.wd - 1), e.dgb)

EpKnownKey(e) ==
    CASE /\ e.op = "ep_mul_lwreg" /\ e.endom = 0
         /\ RepOk(e, e.P, SysOf(e)) /\ OnC(e, e.P)
         /\ (BBits(e.k.d) > LwregCap(e) \/ e.k.u > LwregBuf(e))
         /\ IF e.crash # 0 THEN e.k.u > LwregBuf(e)
            ELSE IF e.err # 0 THEN e.code = 1          \* the garbage operand can also make an affine addition throw
            ELSE Ok(e) /\ ValidTag(e.R) /\ ~PEq(PAbs(e, e.R), KP(e, e.k, e.P))
            -> "C03-lwreg-long-scalar"
      [] /\ e.op = "ep_mul_fix_lwnaf"
         /\ RepOk(e, e.P, SysOf(e)) /\ OnC(e, e.P) /\ ~PAbs(e, e.P).inf
         /\ BNorm(e.k.d) # <<>> /\ BMod(BNorm(e.k.d), BNorm(e.n.d)) = <<>>
         /\ Ok(e) /\ ValidTag(e.R) /\ ~PAbs(e, e.R).inf
            -> "C03-fixlwnaf-zero-mod-order"
      [] /\ e.op \in {"ep_add_projc", "ep_add"} /\ SysOf(e) = 2 /\ e.al \in {2, 4}
         /\ Crv(e).a = BSub(Crv(e).p, <<3>>) /\ e.Q.c = 2
         /\ RepOk(e, e.P, 2) /\ RepOk(e, e.Q, 2) /\ OnC(e, e.P) /\ OnC(e, e.Q)
         /\ ~PAbs(e, e.P).inf /\ ~PAbs(e, e.Q).inf
         /\ Ok(e) /\ ValidTag(e.R) /\ ~PEq(PAbs(e, e.R), PAdd(PAbs(e, e.P), PAbs(e, e.Q), Crv(e)))
            -> "C03-addprojc-min3-alias"
      [] /\ e.op \in {"ep_mul_sim_joint", "ep_mul_sim_trick"}
         /\ RepOk(e, e.P, SysOf(e)) /\ RepOk(e, e.Q, SysOf(e)) /\ OnC(e, e.P) /\ OnC(e, e.Q)
         /\ ~PAbs(e, e.P).inf /\ ~PAbs(e, e.Q).inf /\ BNorm(e.k.d) # <<>> /\ BNorm(e.m.d) # <<>>
         /\ e.crash = 0 /\ e.err # 0 /\ e.code = 1
         /\ SimTableInf(e)
            -> "C03-sim-table-infinity"
      [] /\ e.op = "ep_mul_sim_trick"
         /\ RepOk(e, e.P, SysOf(e)) /\ RepOk(e, e.Q, SysOf(e)) /\ OnC(e, e.P) /\ OnC(e, e.Q)
         /\ ~PAbs(e, e.P).inf /\ ~PAbs(e, e.Q).inf /\ BNorm(e.k.d) # <<>> /\ BNorm(e.m.d) # <<>>
         /\ TrickFirstShort(e) # <<255, 255>>
         /\ IF TrickFirstShort(e) = <<>> THEN e.crash = 0 /\ e.err # 0 /\ e.code = 1
            ELSE e.crash # 0
            -> "C03-simtrick-short-scalar"
      [] /\ e.op = "ep_cmp" /\ AnyRep(e, e.P) /\ AnyRep(e, e.Q) /\ Ok(e)
         /\ PAbs(e, e.P).inf # PAbs(e, e.Q).inf
         /\ LET Z == IF PAbs(e, e.P).inf THEN e.P ELSE e.Q IN
              Z.c # 1 /\ BNorm(Z.x) = <<>> /\ BNorm(Z.y) = <<>>
         /\ e.ret = e.EQ
            -> "C03-cmp-zero-infinity"
      [] /\ e.op \in {"ep_dbl_basic", "ep_dbl"} /\ SysOf(e) = 1
         /\ RepOk(e, e.P, 1) /\ OnC(e, e.P) /\ OrderTwo(PAbs(e, e.P))
         /\ e.crash = 0 /\ e.err # 0 /\ e.code = 1
            -> "C03-dblbasic-order-two"
      [] /\ e.op \in {"ep_add_basic", "ep_add", "ep_sub"} /\ SysOf(e) = 1 /\ e.al \in {0, 1, 2}
         /\ RepOk(e, e.P, 1) /\ RepOk(e, e.Q, 1) /\ OnC(e, e.P) /\ OnC(e, e.Q)
         /\ OrderTwo(PAbs(e, e.P)) /\ PEq(PAbs(e, e.P), PAbs(e, e.Q))
         /\ e.crash = 0 /\ e.err # 0 /\ e.code = 1
            -> "C03-dblbasic-order-two"
      [] /\ e.op \in {"ep_add_projc", "ep_add", "ep_sub"} /\ SysOf(e) = 2
         /\ RepOk(e, e.P, 2) /\ RepOk(e, e.Q, 2) /\ OnC(e, e.P) /\ OnC(e, e.Q)
         /\ ~PAbs(e, e.P).inf /\ ~PAbs(e, e.Q).inf
         /\ LET c == Crv(e)
                Q2 == IF e.op = "ep_sub" THEN PNeg(PAbs(e, e.Q), c) ELSE PAbs(e, e.Q)   \* the point actually added
            IN  OrderTwo(PSub(PAbs(e, e.P), Q2, c)) /\ ~PAdd(PAbs(e, e.P), Q2, c).inf
         /\ Ok(e) /\ ValidTag(e.R) /\ PAbs(e, e.R).inf
            -> "C03-addprojc-order-two-difference"
      [] OTHER -> ""

(* One event can belong to two classes: a THROWN ep_mul_sim_trick call with a  *)
(* table entry at infinity and a zero reduced scalar is explained by either    *)
(* finding (the table is normalised first, then the scalars are recoded), so   *)
(* which of the two is observed depends on which one is still unrepaired.      *)
EpKnownKeyAlt(e) ==
    IF EpKnownKey(e) = "C03-sim-table-infinity" /\ e.op = "ep_mul_sim_trick" /\ TrickFirstShort(e) = <<>>
    THEN "C03-simtrick-short-scalar" ELSE ""
=============================================================================
