CONSTANT Polys = {11, 19}
CONSTANT AMax = 255
CONSTANT Tags = {0, 1, 2, 3, 4, 5, 6, 7, 255}
CONSTANT Extra = {128, 255}
SPECIFICATION Spec
INVARIANT PointCodec
INVARIANT FieldCodec
CHECK_DEADLOCK FALSE
