----------------------------- MODULE MCFrbTwist -----------------------------
(***************************************************************************)
(* Design-level model of the endomorphism mechanisms of the second pairing *)
(* group (C11, C12) in a TINY pairing-friendly world, exhaustive over ALL  *)
(* points of the twist:                                                    *)
(*   BN  family, x = -1:  p = 19, r = 13, t = 7,  #E'(F_p2) = 13 * 25      *)
(*   BLS12 family, x = -2: p = 37, r = 13, t = -1, #E'(F_p2) = 13 * 109    *)
(* F_p2 = F_p[u]/(u^2 - usq); E: y^2 = x^3 + b over F_p with p + 1 - t     *)
(* points (the model finds every such b itself); xi = c + u every element  *)
(* of that shape that is neither a square nor a cube (the shape the        *)
(* library uses); twists E'_D: y^2 = x^3 + b/xi and E'_M: y^2 = x^3 + b xi.*)
(* Checked in every leaf state (b, c):                                     *)
(*  - exactly one of the two twists has order n2 = r * h2 (TwistOrder);    *)
(* and on that twist, with the Frobenius constants derived the way         *)
(* ep2_curve_set_twist derives them (g2 = xi^((p-1)/3), g3 = xi^((p-1)/2), *)
(* both inverted for the M-type), psi(x, y) = (x^p g2, y^p g3):            *)
(*  - psi maps curve points to curve points and is additive (Endo);        *)
(*  - psi^2 - [t] psi + [p] = 0 on ALL points (CharEq);                    *)
(*  - the points annihilated by r are exactly r, and on them psi^i acts as *)
(*    [p^i mod r], i = 1..3 (FrbIsP) - what ep2_frb is specified by;       *)
(*  - the cofactor map as coded in ep2_mul_cof_bn / ep2_mul_cof_b12 sends  *)
(*    EVERY point into the order-r subgroup (CofClears);                   *)
(*  - the endomorphism equation g2_is_valid evaluates instead of [r]Q = O  *)
(*    (BN: [x+1]Q + psi([x]Q) + psi^2([x]Q) = psi^3([2x]Q); BLS12:         *)
(*    psi(Q) = [x]Q) holds EXACTLY for the points of the subgroup          *)
(*    (ValidEq; the identity is excluded by the routine itself).           *)
(***************************************************************************)
EXTENDS CurveXB, FiniteSets, TLC
CONSTANTS p, usq, r, trabs, trneg, xabs, xneg, fam, n2,  \* t = -trabs if trneg, x = -xabs if xneg
          CMax                                           \* xi = c + u for c in 0..CMax
VARIABLES b, c, ph

P == BFromNat(p)
R == BFromNat(r)
T == [p |-> P, lv |-> <<[deg |-> 2, nr |-> BFromNat(usq)]>>]
F0 == {BFromNat(n) : n \in 0..(p - 1)}
F2 == {<<x0, x1>> : x0 \in F0, x1 \in F0}
M(x, y) == TMul(T, 1, x, y)
Q1 == BSub(BMul(P, P), <<1>>)                       \* |F_p2^*|
Xi == <<BFromNat(c), <<1>>>>
XiOk == /\ TExp(T, 1, Xi, BDiv(Q1, <<2>>)) # TOne(T, 1)
        /\ TExp(T, 1, Xi, BDiv(Q1, <<3>>)) # TOne(T, 1)

(* #E_b(F_p) *)
Count1(bb) == 1 + Cardinality({<<x, y>> \in F0 \X F0 : FSqr(y, P) = FAdd(FMul(FSqr(x, P), x, P), bb, P)})
BOk(bb) == Count1(BFromNat(bb)) = (IF trneg THEN p + 1 + trabs ELSE p + 1 - trabs)

Init == b = 0 /\ c = 0 /\ ph = 0
(* two steps (xi, then b) so that TLC's workers share the leaves *)
Next == \/ ph = 0 /\ (\E cc \in 0..CMax : c' = cc) /\ b' = b /\ ph' = 1
        \/ ph = 1 /\ XiOk /\ c' = c /\ (\E bb \in 1..(p - 1) : BOk(bb) /\ b' = bb) /\ ph' = 2
Spec == Init /\ [][Next]_<<b, c, ph>>

B2(ty) == LET bb == <<BFromNat(b), <<>>>> IN
          IF ty = "D" THEN M(bb, TInv(T, 1, Xi)) ELSE M(bb, Xi)
Crv(ty) == [T |-> T, k |-> 1, a |-> TZero(T, 1), b |-> B2(ty)]
Squares == TLCEval({<<M(y, y), y>> : y \in F2})
Points(cv) == LET sq == Squares IN
              TLCEval(UNION {LET rh == XRhs(x, cv) IN {XPt(x, s[2]) : s \in {t \in sq : t[1] = rh}} : x \in F2}
                      \cup {XInf(cv)})

(* Frobenius constants as ep2_curve_set_twist derives them *)
G2c(ty) == LET g == TExp(T, 1, Xi, BDiv(BSub(P, <<1>>), <<3>>)) IN IF ty = "M" THEN TInv(T, 1, g) ELSE g
G3c(ty) == LET g == TExp(T, 1, Xi, BDiv(BSub(P, <<1>>), <<2>>)) IN IF ty = "M" THEN TInv(T, 1, g) ELSE g
Psi(Q, g2, g3, cv) == IF Q.inf THEN Q ELSE XPt(M(TExp(T, 1, Q.x, P), g2), M(TExp(T, 1, Q.y, P), g3))
RECURSIVE PsiK(_, _, _, _, _)
PsiK(Q, g2, g3, cv, k) == IF k = 0 THEN Q ELSE PsiK(Psi(Q, g2, g3, cv), g2, g3, cv, k - 1)

MulX(Q, cv) == XMulSB(xneg, BFromNat(xabs), Q, cv)
TrMul(Q, cv) == XMulSB(trneg, BFromNat(trabs), Q, cv)

(* ep2_mul_cof_bn / ep2_mul_cof_b12 as coded *)
Cof(Q, g2, g3, cv) ==
    LET F(X, k) == PsiK(X, g2, g3, cv, k)
        A(X, Y) == XAdd(X, Y, cv)
        t0 == MulX(Q, cv)
    IN  IF fam = "BN"
        THEN LET t1 == F(A(XDbl(t0, cv), t0), 1)
             IN  A(A(A(F(F(Q, 2), 1), t0), t1), F(t0, 2))
        ELSE LET t1 == MulX(t0, cv)
                 t2 == XSub(XSub(t1, t0, cv), Q, cv)
                 t3 == F(XSub(t0, Q, cv), 1)
             IN  A(A(t2, t3), F(XDbl(Q, cv), 2))

(* the equation g2_is_valid evaluates (relic_pc_util.c) *)
ValidEqn(Q, g2, g3, cv) ==
    LET F(X, k) == PsiK(X, g2, g3, cv, k)
        A(X, Y) == XAdd(X, Y, cv)
    IN  IF fam = "BN"
        THEN LET u0 == MulX(Q, cv)
                 v1 == F(u0, 1)
                 u1 == A(A(u0, Q), v1)
                 v2 == F(v1, 1)
                 u2 == A(u1, v2)
                 v3 == XDbl(F(v2, 1), cv)
             IN  XEq(u2, v3)
        ELSE XEq(MulX(Q, cv), F(Q, 1))

OnTwist(ty) ==
    LET cv  == Crv(ty)
        g2  == G2c(ty)
        g3  == G3c(ty)
        pts == Points(cv)
        O   == XInf(cv)
        sub == TLCEval({Q \in pts : XMulB(R, Q, cv).inf})
        smp == TLCEval(sub \cup {Q \in pts : TIsZero(T, 1, Q.y)})
        F(X, k) == PsiK(X, g2, g3, cv, k)
        pr(k) == BModExp(BMod(P, R), BFromNat(k), R)
    IN  /\ Cardinality(pts) = n2
        (* Endo *)
        /\ \A Q \in pts : F(Q, 1) \in pts
        /\ \A Q \in pts, S \in smp : F(XAdd(Q, S, cv), 1) = XAdd(F(Q, 1), F(S, 1), cv)
        (* CharEq *)
        /\ \A Q \in pts : XAdd(XSub(F(Q, 2), TrMul(F(Q, 1), cv), cv), XMulB(P, Q, cv), cv) = O
        (* FrbIsP *)
        /\ Cardinality(sub) = r
        /\ \A Q \in sub : \A k \in 1..3 : F(Q, k) = XMulB(pr(k), Q, cv)
        (* CofClears *)
        /\ \A Q \in pts : LET X == Cof(Q, g2, g3, cv) IN X \in pts /\ XMulB(R, X, cv).inf
        /\ \E Q \in pts : ~Cof(Q, g2, g3, cv).inf
        (* ValidEq *)
        /\ \A Q \in pts \ {O} : ValidEqn(Q, g2, g3, cv) <=> Q \in sub

Check ==
    (ph = 2) =>
        LET nD == Cardinality(Points(Crv("D")))
            nM == Cardinality(Points(Crv("M")))
        IN  /\ (nD = n2) # (nM = n2)                              \* TwistOrder
            /\ OnTwist(IF nD = n2 THEN "D" ELSE "M")
(* the model is not vacuous: some leaf is reached *)
Reached == ph = 2
=============================================================================
