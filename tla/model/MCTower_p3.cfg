CONSTANT p = 3
SPECIFICATION Spec
INVARIANT Check
CHECK_DEADLOCK FALSE
