CONSTANTS p = 3
 usq = 2
 xi0 = 1
 xi1 = 1
 Mode = 3
 PairStep = 3
 AssocStep = 16
 MaxK = 6
SPECIFICATION Spec
INVARIANT Check
CHECK_DEADLOCK FALSE
