SPECIFICATION Spec
CONSTANTS
    Orders = {7, 11, 13}
    GuardIdentity = FALSE
    GuardOnCurveSS = FALSE
    GuardCommit = FALSE
    RetryS0 = FALSE
INVARIANTS EcssCodedIsDefinition
CHECK_DEADLOCK FALSE
