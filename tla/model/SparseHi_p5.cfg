CONSTANTS p = 5
 phases = {"d24", "d16"}
SPECIFICATION Spec
INVARIANT Check
CHECK_DEADLOCK FALSE
