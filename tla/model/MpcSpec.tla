------------------------------ MODULE MpcSpec ------------------------------
(***************************************************************************)
(* C06 (extension): the secret-shared group multiplications of             *)
(* src/mpc/relic_mpc_pc.c and the Pedersen commitment cp_ped_com, one      *)
(* event per complete protocol run recorded by harness/drv_mpc.c.          *)
(*                                                                         *)
(* Share multiplication (Beaver's trick lifted to a group of prime order   *)
(* n; comments of relic_mpc_pc.c, test_mpc.c).  Party i in {0, 1} holds a  *)
(* scalar share x_i, an element share P_i and a triple share               *)
(* (a_i, B_i, C_i); x = x_0 + x_1 mod n, P = P_0 + P_1, a = a_0 + a_1,     *)
(* B = B_0 + B_1, C = C_0 + C_1.  The triple is VALID iff C = [a]B (then   *)
(* B = [b]G, C = [ab]G for the b the dealer chose).  Each party publishes  *)
(* d_i = x_i - a_i and Q_i = P_i - B_i (lcl), both open d, Q (bct), party  *)
(* 0 outputs [a_0]Q + [d](B_0 + Q) + C_0, party 1 [a_1]Q + [d]B_1 + C_1.   *)
(* What the property demands ("multiplication triples reconstruct the      *)
(* shared value from any qualifying set" - the qualifying set of an        *)
(* additive 2-sharing is both parties):                                    *)
(*      R_0 + R_1 = [x]P      for every valid triple and every splitting,  *)
(* evaluated here discrete-log-free on the logged coordinates with the     *)
(* affine group law of lib/Curve (G1), lib/CurveX (G2: the twist over      *)
(* F_p2) and the tower arithmetic of lib/Tower (GT, written                *)
(* multiplicatively: R_0 R_1 = P^x).  Preconditions decided by the spec    *)
(* from the dump: the shares are reduced mod n, every element is a         *)
(* canonical representation of a point of the curve (a unit of F_p12) and  *)
(* [n]P is the identity.  The ghost scalars the driver logs (gb, gc, gp:   *)
(* how it constructed B_i, C_i, P_i from the generator) are NOT used by    *)
(* the judgement.  Only the final relation is demanded; the opened values  *)
(* d1 / Q1 / d2 / Q2 are recorded for diagnosis.                           *)
(* Soundness of the judge (not a property clause): if the triple is NOT    *)
(* valid then R_0 + R_1 = [x]P + (C - [a]B) differs from [x]P for every    *)
(* correct implementation; such events (bad = 1) must come out as "does    *)
(* not reconstruct", and the generator's claim bad is checked against the  *)
(* spec's own verdict on the triple, so honest runs are honest.            *)
(*                                                                         *)
(* Pedersen commitment: cp_ped_com(c, h, r, x) = [x]G + [r]h (the message  *)
(* on the curve's generator, the randomness on the second generator h) for *)
(* a finite h on the curve, 0 < x < n, 0 <= r; the library declines h = O, *)
(* x = 0 and x >= n (an error, never a wrong commitment).                  *)
(***************************************************************************)
EXTENDS PcSpec

Sh(k) == BNorm(k.d)
ShareOk(k, n) == k.s = 0 /\ BLt(Sh(k), n)
PairOk(pr, n) == Len(pr) = 2 /\ ShareOk(pr[1], n) /\ ShareOk(pr[2], n)
SumMod(pr, n) == BMod(BAdd(Sh(pr[1]), Sh(pr[2])), n)

(* the relation, generic in the group: Add / Mul (BigNat scalar) / Eq / identity test *)
GmulRel(Add(_, _), Mul(_, _), Eq(_, _), IsId(_), P, B, C, R, e) ==
    LET n     == BNorm(e.n.d)
        a     == SumMod(e.sa, n)
        x     == SumMod(e.xs, n)
        PP    == Add(P[1], P[2])
        BB    == Add(B[1], B[2])
        CC    == Add(C[1], C[2])
        RR    == Add(R[1], R[2])
        triOk == Eq(Mul(a, BB), CC)
        rec   == Eq(RR, Mul(x, PP))
    IN  /\ IsId(Mul(n, PP))
        /\ ((e.bad = 1) <=> ~triOk)
        /\ (IF triOk THEN rec ELSE ~rec)

Pair(F(_), s) == <<F(s[1]), F(s[2])>>

Gmul1(e) ==
    LET c1 == Crv1(e)
        ok(P) == ValidTag(P) /\ PCanon(e, P) /\ (P.c = 1 => FAbs(e, P.z) \in {<<>>, <<1>>}) /\ OnCurve(PAbs(e, P), c1)
        A(P) == PAbs(e, P)
    IN  /\ \A i \in 1..2 : ok(e.P[i]) /\ ok(e.B[i]) /\ ok(e.C[i]) /\ ok(e.R[i])
        /\ GmulRel(LAMBDA u, v : PAdd(u, v, c1), LAMBDA k, u : PMulB(k, u, c1), LAMBDA u, v : PEq(u, v),
                   LAMBDA u : u.inf, Pair(A, e.P), Pair(A, e.B), Pair(A, e.C), Pair(A, e.R), e)

Gmul2(e) ==
    LET cx == Cx(e)
        c  == cx.c
        ok(P) == AnyRep(e, cx, P) /\ OnC(cx, P)
        A(P) == X2Abs(cx, P)
    IN  /\ \A i \in 1..2 : ok(e.P[i]) /\ ok(e.B[i]) /\ ok(e.C[i]) /\ ok(e.R[i])
        /\ GmulRel(LAMBDA u, v : XAdd(u, v, c), LAMBDA k, u : XMulB(k, u, c), LAMBDA u, v : XEq(u, v),
                   LAMBDA u : u.inf, Pair(A, e.P), Pair(A, e.B), Pair(A, e.C), Pair(A, e.R), e)

GmulT(e) ==
    LET cx  == Cx(e)
        T   == T12Of(e, cx)
        one == TOne(T, 3)
        ok(x) == F12Canon(e, x) /\ F12A(cx, x) # TZero(T, 3)
        A(x) == F12A(cx, x)
    IN  /\ Tower12Ok(e, cx)
        /\ \A i \in 1..2 : ok(e.P[i]) /\ ok(e.B[i]) /\ ok(e.C[i]) /\ ok(e.R[i])
        /\ GmulRel(LAMBDA u, v : TMul(T, 3, u, v), LAMBDA k, u : TPowB(T, 3, u, k), LAMBDA u, v : u = v,
                   LAMBDA u : u = one, Pair(A, e.P), Pair(A, e.B), Pair(A, e.C), Pair(A, e.R), e)

GmulOk(e) ==
    LET n == BNorm(e.n.d) IN
    /\ e.crash = 0 /\ e.err = 0 /\ e.code = 0
    /\ TowerOk(e) /\ e.bad \in {0, 1}
    /\ PairOk(e.xs, n) /\ PairOk(e.sa, n)
    /\ CASE e.grp = 1 -> Gmul1(e)
         [] e.grp = 2 -> Gmul2(e)
         [] e.grp = 3 -> GmulT(e)
         [] OTHER -> FALSE

(* ---- Pedersen commitment ---- *)
PedOk(e) ==
    LET c1 == Crv1(e)
        n  == BNorm(e.n.d)
        H  == PAbs(e, e.H)
        G  == PAbs(e, e.G)
        x  == Sh(e.x)
        r  == Sh(e.r)
        repOk(P) == ValidTag(P) /\ PCanon(e, P) /\ (P.c = 1 => FAbs(e, P.z) \in {<<>>, <<1>>})
        admitted == ~H.inf /\ x # <<>> /\ BLt(x, n)
        def == PAdd(PMulB(x, G, c1), PMulB(r, H, c1), c1)
    IN  /\ e.crash = 0 /\ e.code = 0
        /\ e.x.s = 0 /\ e.r.s = 0 /\ repOk(e.H) /\ repOk(e.G) /\ OnCurve(H, c1) /\ OnCurve(G, c1) /\ ~G.inf
        /\ IF e.ret = 0 /\ e.err = 0
           THEN admitted /\ repOk(e.R) /\ PEq(PAbs(e, e.R), def)
           ELSE ~admitted

MpcAccept(e) ==
    CASE e.op = "gmul" -> GmulOk(e)
      [] e.op = "ped" -> PedOk(e)
      [] e.op \in {"curve_probe", "restart"} -> TRUE
      [] OTHER -> FALSE
MpcKnownKey(e) == ""
=============================================================================
