CONSTANTS
  PW = 11
  QN = 10
  A0 = 0
  A1 = 0
  B0 = 2
  B1 = 1
  TagSet <- Tags6
SPECIFICATION Spec
INVARIANTS StrInv RootInv F2PackInv
CHECK_DEADLOCK FALSE
