----------------------------- MODULE MCRelicSys -----------------------------
(* model/RelicSys explored breadth-first over a tiny field: F_11 with the two curves y^2 = x^3 + x + 6 (13 points)  *)
(* and y^2 = x^3 + 2x + 1, a handful of integer values, a bounded number of calls.  Checked in every reachable      *)
(* state: TypeOK (every KNOWN point lies on the curve of the CURRENT selection, every KNOWN residue is reduced -    *)
(* this is what makes Select forget field elements and points), integers within the capacity, the sticky code set   *)
(* exactly by error outcomes and cleared exactly by GetCode, and the frame condition ACROSS the layers: a call      *)
(* changes at most its one output slot of its one output type (ghost prev / last).                                 *)
EXTENDS RelicSys, TLC
CONSTANT MaxSteps
VARIABLES steps, prev, last, threw
mvars == <<svars, steps, prev, last, threw>>

C1 == [p |-> <<11>>, a |-> <<1>>, b |-> <<6>>]
C2 == [p |-> <<11>>, a |-> <<2>>, b |-> <<1>>]
Q1 == [sel |-> TRUE, c |-> C1, g |-> Pt(<<2>>, <<7>>), n |-> <<13>>]
Q2 == [sel |-> TRUE, c |-> C2, g |-> Pt(<<>>, <<1>>), n |-> <<16>>]
IVals == {IFromInt(0), IFromInt(1), IFromInt(0 - 1), IFromInt(5), IFromInt(13), IFromInt(255)}
FVals == {<<>>, <<1>>, <<10>>, <<3>>}

MInit == SInit /\ steps = 0 /\ prev = <<bn, fp, ep>> /\ last = <<"none", 0>> /\ threw = FALSE
Out(t, o) == last' = <<t, o>>
MNext ==
    /\ steps < MaxSteps /\ steps' = steps + 1 /\ prev' = <<bn, fp, ep>>
    /\ \/ \E q \in {Q1, Q2} : Select(q) /\ Out("select", 0) /\ threw' = threw
       \/ \E s \in Slots, v \in IVals : BnSet(s, v) /\ Out("bn", s) /\ threw' = threw
       \/ \E s \in Slots, v \in FVals : FpSet(s, v) /\ Out("fp", s) /\ threw' = threw
       \/ \E op \in {"bn_add", "bn_mul", "bn_neg"}, o, a, b \in Slots :
             /\ Out("bn", o)
             /\ \/ BnRet(op, o, a, b, 1) /\ threw' = threw
                \/ BnThrow(op, o, a, b, 1) /\ threw' = TRUE
       \/ \E op \in {"fp_add", "fp_mul", "fp_inv", "fp_conv", "ep_getx", "ep_rhs", "fp_exp"}, o, a, b \in Slots :
             /\ Out("fp", o)
             /\ \/ FpRet(op, o, a, b) /\ threw' = threw
                \/ FpThrow(op, o, a, b) /\ threw' = TRUE
       \/ \E o, a \in Slots : FpBack(o, a) /\ Out("bn", o) /\ threw' = threw
       \/ \E op \in {"ep_gen", "ep_inf", "ep_add", "ep_dbl", "ep_neg", "ep_mul", "ep_mul_gen"}, o, a, b, k \in Slots :
             EpRet(op, o, a, k, b, k) /\ Out("ep", o) /\ threw' = threw
       \/ \E r \in {0, 1} : GetCode(r) /\ Out("none", 0) /\ threw' = FALSE
MSpec == MInit /\ [][MNext]_mvars

Fits == \A s \in Slots : bn[s].known => R!DigitsOfVal(bn[s].val) <= Cap
Sticky == code = (IF threw THEN 1 ELSE 0)
Frame ==
    /\ \A s \in Slots : (last # <<"bn", s>>) => bn[s] = prev[1][s]
    /\ last[1] # "select" => /\ \A s \in Slots : (last # <<"fp", s>>) => fp[s] = prev[2][s]
                             /\ \A s \in Slots : (last # <<"ep", s>>) => ep[s] = prev[3][s]
    /\ last[1] = "select" => \A s \in Slots : ~fp[s].known /\ ~ep[s].known
Inv == TypeOK /\ Fits /\ Sticky /\ Frame
=============================================================================
