CONSTANT Primes = {3, 5, 7, 11, 13, 17, 19, 23, 29, 31, 37, 41, 43, 47, 53, 59, 61, 67, 71, 73, 79, 83, 89, 97, 101, 103, 107, 109, 113, 127, 131, 137, 139, 149, 151, 157, 163, 167, 173, 179, 181, 191, 193, 197, 199, 211, 223, 227, 229, 233, 239, 241, 251, 257, 449, 577, 641, 769}
CONSTANT Primes2 = {3, 5, 7, 11, 13, 17, 19, 23}
SPECIFICATION Spec
INVARIANT Check
CHECK_DEADLOCK FALSE
