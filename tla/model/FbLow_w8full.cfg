CONSTANT W = 8
CONSTANT Modes = {"mul"}
CONSTANT Level = 1
CONSTANT MulDigs = {1, 2}
CONSTANT Bs = {0, 1, 2, 128, 255, 256, 257, 511, 32768, 32769, 65535, 43690, 21845, 4660, 61166, 127}
CONSTANT Digs1 = {0, 1, 2, 3, 5, 7, 8, 15, 16, 127, 128, 129, 254, 255}
SPECIFICATION Spec
INVARIANTS MulOk RdcOk Rdc1Ok
CHECK_DEADLOCK FALSE
