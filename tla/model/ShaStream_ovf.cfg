SPECIFICATION Spec
CONSTANTS
    B = 8
    LB = 1
    M = 16
    MaxLen = 40
    MaxChunks = 3
    BitsSet = {0, 255}
INVARIANTS TypeOK Absorbing Overflow Finalised ResultRight Idempotent InputAfterResult EmptyInput
CHECK_DEADLOCK FALSE
