----------------------------- MODULE ParamSpec -----------------------------
(***************************************************************************)
(* C18: the relations a built-in parameter set must satisfy, evaluated on  *)
(* the dump harness/drv_param.c takes through the getters after selecting  *)
(* the set.  One event per (parameter id, relation): e.rel names the       *)
(* relation, the rest of the record is the dump.  Nothing is explored -    *)
(* the relations are evaluated with BigNat / Curve / Tower arithmetic.     *)
(* Witnesses supplied by the driver (pts, psi(G)) are untrusted: only      *)
(* their defining relations are used.                                      *)
(***************************************************************************)
EXTENDS BigInt, Curve, CurveX

Pm(e)  == BNorm(e.p)
Cv(e)  == [p |-> Pm(e), a |-> BNorm(e.a), b |-> BNorm(e.b)]
Gen(e) == Pt(BNorm(e.gx), BNorm(e.gy))
Ord(e) == BNorm(e.r.d)
Cof(e) == BNorm(e.h.d)
BnI(o) == I(o.s = 1, o.d)
R(e)   == BShl(<<1>>, 8 * e.w * e.fd)
W(e)   == BShl(<<1>>, 8 * e.w)
SmallInField(n, p) == IF n < 0 THEN BSub(p, BFromNat(0 - n)) ELSE BMod(BFromNat(n), p)
Sq(x) == BMul(x, x)
AbsDiff(x, y) == IF BLe(y, x) THEN BSub(x, y) ELSE BSub(y, x)

(* ---- field ---- *)
(* the modulus is prime and fills the digit vector of the build; its bit length is the nominal field size in  *)
(* the baseline and additional configurations (in the field-size sweep a set may be named after another size: *)
(* K18-P354 is a 345-bit prime - the property asks for primality only)                                        *)
PrimeModulus(e) ==
    /\ BIsPrime(Pm(e))
    /\ \/ BBits(Pm(e)) = e.fbits
       \/ e.fbits \notin {255, 256, 381} /\ BBits(Pm(e)) <= e.fbits /\ BBits(Pm(e)) > 8 * e.w * (e.fd - 1)
MontConstants(e) ==
    e.mont = 1 =>
        /\ BMod(BAdd(BMul(BNorm(e.rdc), Pm(e)), <<1>>), W(e)) = <<>>      \* u = -p^-1 mod 2^w
        /\ BNorm(e.conv) = BMod(Sq(R(e)), Pm(e))                          \* conv = R^2 mod p
        /\ BNorm(e.one) = BMod(R(e), Pm(e))                               \* raw one = R mod p
ResidueConstants(e) ==
    LET p == Pm(e)  pm1 == BSub(Pm(e), <<1>>) IN
    /\ BToNat(BMod(p, <<8>>)) = e.mod8
    /\ BMod(pm1, BShl(<<1>>, e.ad2)) = <<>> /\ BMod(pm1, BShl(<<1>>, e.ad2 + 1)) # <<>>
    /\ FLegendre(SmallInField(e.qnr, p), p) = 0 - 1
    /\ (e.cnr # 0 => /\ BMod(pm1, <<3>>) = <<>>
                     /\ ~FIsCube(SmallInField(e.cnr, p), p))
(* ---- curve ---- *)
GeneratorOnCurve(e) == e.ginf = 0 /\ OnCurve(Gen(e), Cv(e))
Nonsingular(e) ==
    LET p == Pm(e)  c == Cv(e) IN
    FAdd(FMul(<<4>>, FMul(FSqr(c.a, p), c.a, p), p), FMul(<<27>>, FSqr(c.b, p), p), p) # <<>>
OrderPrime(e) == BIsPrime(Ord(e)) /\ e.r.s = 0
OrderAnnihilatesGenerator(e) == PMulNat(Ord(e), Gen(e), Cv(e)) = PInf
(* h*r lies in the Hasse interval and r > 4 sqrt(p), so h*r is THE curve order (r | #E, one multiple fits) *)
HasseAndCofactor(e) ==
    LET p == Pm(e)  n == BMul(Ord(e), Cof(e)) IN
    /\ e.h.s = 0 /\ Cof(e) # <<>>
    /\ BLe(Sq(AbsDiff(BAdd(p, <<1>>), n)), BShl(p, 2))
    \* uniqueness of the multiple by size (r > 4 sqrt(p)) where the sets are built that way: the baseline and additional
    \* configurations; the large-cofactor families of the field-size sweep (GMT8, FM16, AFG16, FM18: r^2 < p) rely on
    \* CofactorClears for the witness that h * r is the group order
    /\ (e.fbits \in {255, 256, 381} => BLt(BShl(p, 4), Sq(Ord(e))))
CofactorClears(e) ==
    \A j \in 1..Len(e.pts) :
        LET Q == IF e.pts[j].inf = 1 THEN PInf ELSE Pt(BNorm(e.pts[j].x), BNorm(e.pts[j].y)) IN
        OnCurve(Q, Cv(e)) /\ PMulNat(BMul(Ord(e), Cof(e)), Q, Cv(e)) = PInf
(* the coefficient-class flags the formulas dispatch on *)
CurveFlags(e) ==
    LET p == Pm(e)  c == Cv(e) IN
    /\ (e.opta = 0 <=> c.a = <<>>) /\ (e.opta = 1 <=> c.a = <<1>>) /\ (e.opta = 3 <=> c.a = BSub(p, <<3>>))
    /\ (e.optb = 0 <=> c.b = <<>>) /\ (e.optb = 1 <=> c.b = <<1>>)
    /\ (e.opta = 4 => BLenBytes(c.a) <= e.w) /\ (e.optb = 4 => BLenBytes(c.b) <= e.w)
(* advertised security level: not above half the bit length of the group order, and not absurdly below *)
SecurityLevel(e) ==
    \* generic attacks cost about sqrt(r): the advertised level is half the bit length of r, to the
    \* customary rounding (Curve25519: r of 253 bits, BLS12-381: r of 255 bits, both "128")
    /\ e.level > 0
    /\ 2 * e.level <= BBits(Ord(e)) + 8
    /\ (e.pairf = 0 => 2 * e.level >= BBits(Ord(e)) - 16)
(* the generator table used by fixed-base multiplication (single-table comb): t[j] = sum of
   [2^(i*l)]G over the set bits i of j, l = ceil(bits(r) / depth); first entries checked *)
RECURSIVE CombEntry(_, _, _, _, _)
CombEntry(j, i, l, G, c) ==
    IF j = 0 THEN PInf
    ELSE LET rest == CombEntry(j \div 2, i + 1, l, G, c) IN
         IF j % 2 = 1 THEN PAdd(PMulNat(BShl(<<1>>, i * l), G, c), rest, c) ELSE rest
GeneratorTable(e) ==
    e.fix = "combs" =>
        \* column height: ceil(bits(r) / depth), halved for endomorphism curves (the scalar is split by GLV)
        LET dd == IF e.endom = 1 THEN 2 * e.depth ELSE e.depth
            l  == (BBits(Ord(e)) + dd - 1) \div dd IN
        \A j \in 1..Len(e.tab) :
            LET T == IF e.tab[j].inf = 1 THEN PInf ELSE Pt(BNorm(e.tab[j].x), BNorm(e.tab[j].y)) IN
            T = CombEntry(j - 1, 0, l, Gen(e), Cv(e))

(* ---- endomorphism (GLV) ---- *)
Lambda(e) ==      \* from the first basis vector: v11 + v12 * lam = 0 (mod r)
    LET r == Ord(e) IN
    BMulMod(IModPos(INeg(BnI(e.v11)), r), BModInv(IModPos(BnI(e.v12), r), r), r)
(* curves y^2 = x^3 + b (j = 0): psi(x, y) = (beta x, y), beta a primitive cube root of unity, lam^2 + lam + 1 = 0 *)
(* curves y^2 = x^3 + a x (j = 1728, the k = 8 and k = 16 families): psi(x, y) = (-x, beta y), beta^2 = -1,       *)
(* lam^2 + 1 = 0 (mod r)                                                                                          *)
IsJ1728(e) == Cv(e).b = <<>>
BetaCubeRoot(e) ==
    LET p == Pm(e)  be == BNorm(e.beta) IN
    e.endom = 1 => IF IsJ1728(e) THEN FSqr(be, p) = BSub(p, <<1>>)
                   ELSE be # <<1>> /\ FMul(FSqr(be, p), be, p) = <<1>>
LambdaRoot(e) ==
    LET r == Ord(e)  l == Lambda(e) IN
    e.endom = 1 => IF IsJ1728(e) THEN BMod(BAdd(Sq(l), <<1>>), r) = <<>>
                   ELSE BMod(BAdd(BAdd(Sq(l), l), <<1>>), r) = <<>>
PsiIsLambda(e) ==
    e.endom = 1 =>
        LET p == Pm(e)  G == Gen(e)
            psi == Pt(BNorm(e.psix), BNorm(e.psiy)) IN
        /\ IF IsJ1728(e) THEN psi.x = FNeg(G.x, p) /\ psi.y = FMul(BNorm(e.beta), G.y, p)
           ELSE psi.x = FMul(BNorm(e.beta), G.x, p) /\ psi.y \in {G.y, FNeg(G.y, p)}
        /\ PMulNat(Lambda(e), G, Cv(e)) = psi
InLattice(e, x, y) == IModPos(IAdd(x, IMul(y, I(FALSE, Lambda(e)))), Ord(e)) = <<>>
GlvBasis(e) ==
    e.endom = 1 =>
        LET det == ISub(IMul(BnI(e.v11), BnI(e.v22)), IMul(BnI(e.v12), BnI(e.v21))) IN
        /\ InLattice(e, BnI(e.v11), BnI(e.v12)) /\ InLattice(e, BnI(e.v21), BnI(e.v22))
        /\ det.mag = Ord(e)
(* the decomposition the constants define is short: k0 + k1*lam = k, |k0|,|k1| <= 2^(bits/2 + 2) *)
RoundShift(x, n) == LET q == BShr(x, n) IN IF BBit(x, n - 1) = 1 THEN BAdd(q, <<1>>) ELSE q
GlvDecomp(e, k) ==
    LET bits == BBits(Ord(e))
        b1 == I(e.v10.s = 1, RoundShift(BMul(k, BNorm(e.v10.d)), bits + 1))
        b2 == I(e.v20.s = 1, RoundShift(BMul(k, BNorm(e.v20.d)), bits + 1))
        k0 == ISub(ISub(I(FALSE, k), IMul(b1, BnI(e.v11))), IMul(b2, BnI(e.v21)))
        k1 == INeg(IAdd(IMul(b1, BnI(e.v12)), IMul(b2, BnI(e.v22))))
    IN  <<k0, k1>>
GlvShort(e) ==
    e.endom = 1 =>
        LET r == Ord(e)  bits == BBits(Ord(e))
            ks == {<<1>>, BSub(r, <<1>>), BShr(r, 1), BShr(r, 2), BDiv(r, <<3>>),
                   BMod(BMul(Pm(e), <<200, 17, 99, 3>>), r), BMod(Sq(BNorm(e.gx)), r)} IN
        \A k \in ks :
            LET d == GlvDecomp(e, k) IN
            /\ IModPos(IAdd(d[1], IMul(d[2], I(FALSE, Lambda(e)))), r) = BMod(k, r)
            /\ BBits(d[1].mag) <= (bits \div 2) + 2 /\ BBits(d[2].mag) <= (bits \div 2) + 2

(* the rounding constants of the decomposition: v10 = round(v22 * 2^(bits+1) / det), |v20| = round(v12 * 2^(bits+1) / det) *)
(* with |det| = r, i.e. within half a unit of the defining quotient (signs are judged by GlvShort)                      *)
GlvRounding(e) ==
    e.endom = 1 =>
        LET r == Ord(e)  sh == BBits(Ord(e)) + 1 IN
        /\ BLe(BShl(AbsDiff(BMul(BNorm(e.v10.d), r), BShl(BNorm(e.v22.d), sh)), 1), r)
        /\ BLe(BShl(AbsDiff(BMul(BNorm(e.v20.d), r), BShl(BNorm(e.v12.d), sh)), 1), r)

(* ---- constants of the hash-to-curve maps (derived when the curve is installed) ---- *)
MapConstants(e) ==
    LET p == Pm(e)  a == Cv(e).a  b == Cv(e).b  u == BNorm(e.mapu)
        c0 == BNorm(e.mapc0)  c1 == BNorm(e.mapc1)  c2 == BNorm(e.mapc2)  c3 == BNorm(e.mapc3)  c4 == BNorm(e.mapc4)
    IN
    /\ IF e.ctmap = 1 \/ (a # <<>> /\ b # <<>>)
       THEN \* simplified SWU on the curve or on its isogenous curve: c2, c3 its coefficients, c0 = -c3/c2, u a non-square
            /\ c2 # <<>> /\ FMul(c0, c2, p) = FNeg(c3, p)
            /\ u # <<>> /\ FLegendre(u, p) = 0 - 1
            /\ IF e.ctmap = 1 THEN c2 = BNorm(e.isoa) /\ c3 = BNorm(e.isob)
               ELSE /\ c2 = a /\ c3 = b
                    \* u is the FIRST value 1, 2, 3, ... that is a non-square with g(b/(ua)) a square (the documented
                    \* search): the constant does not depend on what was selected before
                    /\ LET Adm(v) == LET x == FMul(b, FInv(FMul(v, a, p), p), p) IN
                                      /\ FLegendre(v, p) = 0 - 1
                                      /\ FLegendre(FAdd(FMul(FAdd(FSqr(x, p), a, p), x, p), b, p), p) # 0 - 1
                       IN  /\ BLt(u, <<0, 1>>) /\ Adm(u)
                           /\ \A v \in 1..(BToNat(u) - 1) : ~Adm(BFromNat(v))
       ELSE \* Shallue - van de Woestijne: c0 = g(u), c1 = -u/2, c2 = sqrt(-g(u)(3u^2+4a)) with sgn0 = 0, c3 = -4g(u)/(3u^2+4a)
            LET gu == FAdd(FMul(FAdd(FSqr(u, p), a, p), u, p), b, p)
                d  == FAdd(FMul(<<3>>, FSqr(u, p), p), FMul(<<4>>, a, p), p)
                AdmS(v) == LET gv == FAdd(FMul(FAdd(FSqr(v, p), a, p), v, p), b, p)
                               dv == FAdd(FMul(<<3>>, FSqr(v, p), p), FMul(<<4>>, a, p), p)
                               t  == FNeg(FMul(gv, dv, p), p)
                           IN  t # <<>> /\ FLegendre(t, p) = 1
            IN  /\ u # <<>> /\ c0 = gu
                \* u is the first value 1, 2, 3, ... for which -g(u)(3u^2 + 4a) is a non-zero square
                /\ BLt(u, <<0, 1>>) /\ AdmS(u) /\ \A v \in 1..(BToNat(u) - 1) : ~AdmS(BFromNat(v))
                /\ FAdd(FAdd(c1, c1, p), u, p) = <<>>
                /\ c2 # <<>> /\ FSqr(c2, p) = FNeg(FMul(gu, d, p), p) /\ BBit(c2, 0) = 0
                /\ FAdd(FMul(c3, d, p), FMul(<<4>>, gu, p), p) = <<>>
    /\ ((e.super = 0 /\ (a = <<>> \/ b = <<>>)) => FSqr(c4, p) = FNeg(<<3>>, p))

(* ---- pairing-friendly sets (BN family at k = 12) ---- *)
Par(e) == BnI(e.par)
PolyBN(x, c4, c3, c2, c1, c0) ==          \* c4 x^4 + c3 x^3 + c2 x^2 + c1 x + c0
    LET x2 == IMul(x, x)  x3 == IMul(x2, x)  x4 == IMul(x2, x2)
        K(n) == IFromNat(n) IN
    IAdd(IAdd(IAdd(IAdd(IMul(K(c4), x4), IMul(K(c3), x3)), IMul(K(c2), x2)), IMul(K(c1), x)), K(c0))
IsBN(e) == e.pairf # 0 /\ e.embed = 12 /\ PolyBN(Par(e), 36, 36, 24, 6, 1).mag = Pm(e)
FamilyPolynomials(e) ==
    (e.pairf # 0 /\ e.embed = 12 /\ BBits(Pm(e)) = 256) =>
        /\ IEq(PolyBN(Par(e), 36, 36, 24, 6, 1), I(FALSE, Pm(e)))
        /\ IEq(PolyBN(Par(e), 36, 36, 18, 6, 1), I(FALSE, Ord(e)))
BnTr(e) == IAdd(IMul(IFromNat(6), IMul(Par(e), Par(e))), IOne)      \* BN: t = 6 x^2 + 1
CurveOrderFromBnTr(e) ==
    IsBN(e) => IEq(ISub(IAdd(I(FALSE, Pm(e)), IOne), BnTr(e)), I(FALSE, BMul(Ord(e), Cof(e))))
EmbeddingDegree(e) ==
    e.pairf # 0 =>
        LET r == Ord(e)  p == BMod(Pm(e), Ord(e)) IN
        /\ BModExp(p, BFromNat(e.embed), r) = <<1>>
        /\ \A d \in {j \in 1..(e.embed - 1) : e.embed % j = 0} : BModExp(p, BFromNat(d), r) # <<1>>

(* ---- the advertised family at every field size (field-size sweep): the prime and the group order are the    *)
(* family polynomials at the stored parameter x.  BN: p, r as above.  Barreto-Lynn-Scott with k = 12, 24, 48:  *)
(* r divides Phi_k(x) = x^(k/3) - x^(k/6) + 1 and 3 p = (x - 1)^2 Phi_k(x) + 3 x.  Kachisa-Schaefer-Scott:     *)
(* k = 16: 980 p = x^10 + 2x^9 + 5x^8 + 48x^6 + 152x^5 + 240x^4 + 625x^2 + 2398x + 3125, r | x^8 + 48x^4 + 625 *)
(* k = 18: 21 p = x^8 + 5x^7 + 7x^6 + 37x^5 + 188x^4 + 259x^3 + 343x^2 + 1763x + 2401, r | x^6 + 37x^3 + 343   *)
RECURSIVE IPowN(_, _)
IPowN(x, n) == IF n = 0 THEN IOne ELSE IMul(x, IPowN(x, n - 1))
RECURSIVE IPolyAt(_, _, _)
IPolyAt(cs, x, i) ==          \* sum cs[j] x^(j-1), Horner from coefficient i upwards
    IF i > Len(cs) THEN IFromNat(0) ELSE IAdd(IFromNat(cs[i]), IMul(x, IPolyAt(cs, x, i + 1)))
BlsPhi(x, k) == LET d == k \div 6 IN IAdd(ISub(IPowN(x, 2 * d), IPowN(x, d)), IOne)
Divides(r, v) == BMod(v.mag, r) = <<>>
FamilyAtSize(e) ==
    LET x == Par(e)  p == I(FALSE, Pm(e))  r == Ord(e) IN
    CASE e.fam = "BN" ->
            /\ e.embed = 12
            /\ IEq(PolyBN(x, 36, 36, 24, 6, 1), p) /\ IEq(PolyBN(x, 36, 36, 18, 6, 1), I(FALSE, r))
      [] e.fam \in {"B12", "B24", "B48"} ->
            LET k == IF e.fam = "B12" THEN 12 ELSE IF e.fam = "B24" THEN 24 ELSE 48
                phi == BlsPhi(x, k)
                xm1 == ISub(x, IOne) IN
            /\ e.embed = k /\ ~phi.neg /\ Divides(r, phi)
            /\ IEq(IAdd(IMul(IMul(xm1, xm1), phi), IMul(IFromNat(3), x)), IMul(IFromNat(3), p))
      [] e.fam = "K16" ->
            /\ e.embed = 16
            /\ IEq(IPolyAt(<<3125, 2398, 625, 0, 240, 152, 48, 0, 5, 2, 1>>, x, 1), IMul(IFromNat(980), p))
            /\ Divides(r, IPolyAt(<<625, 0, 0, 0, 48, 0, 0, 0, 1>>, x, 1))
      [] e.fam = "K18" ->
            /\ e.embed = 18
            /\ IEq(IPolyAt(<<2401, 1763, 343, 259, 188, 37, 7, 5, 1>>, x, 1), IMul(IFromNat(21), p))
            /\ Divides(r, IPolyAt(<<343, 0, 0, 37, 0, 0, 1>>, x, 1))
      [] OTHER -> e.fam \in {"none", "other"}

(* the quadratic tower and the twist *)
T2(e) == [p |-> Pm(e), lv |-> <<[deg |-> 2, nr |-> BNorm(e.usq0)]>>]
E2(x0, x1) == <<BNorm(x0), BNorm(x1)>>
Twist(e) == [T |-> T2(e), k |-> 1, a |-> E2(e.a20, e.a21), b |-> E2(e.b20, e.b21)]
G2(e) == XPt(E2(e.g2x0, e.g2x1), E2(e.g2y0, e.g2y1))
HasTwist(e) == e.pairf # 0 /\ e.embed = 12
TowerIsField(e) ==
    HasTwist(e) =>
        /\ BNorm(e.usq1) = <<>> /\ TLevelIsField(T2(e), 1)                      \* u^2 in F_p, a non-square
        /\ LET T6 == [p |-> Pm(e), lv |-> <<[deg |-> 2, nr |-> BNorm(e.usq0)],
                                           [deg |-> 3, nr |-> E2(e.xi0, e.xi1)]>>] IN
           /\ TLevelIsField(T6, 2)                                               \* xi not a cube
           /\ TExp(T2(e), 1, E2(e.xi0, e.xi1), BShr(TGroupOrder(T2(e), 1), 1)) # TOne(T2(e), 1)  \* nor a square
TwistCoefficients(e) ==
    HasTwist(e) =>
        LET T == T2(e)  xi == E2(e.xi0, e.xi1)  b == <<BNorm(e.b), <<>>>> IN
        /\ Twist(e).a = TZero(T, 1)
        /\ \/ TMul(T, 1, Twist(e).b, xi) = b            \* D-type: b' = b / xi
           \/ Twist(e).b = TMul(T, 1, b, xi)            \* M-type: b' = b * xi
TwistGenerator(e) == HasTwist(e) => XOnCurve(G2(e), Twist(e)) /\ ~TIsZero(T2(e), 1, G2(e).y)
TwistOrder(e) ==
    HasTwist(e) => /\ BNorm(e.r2.d) = Ord(e)
                   /\ XMulNat(Ord(e), G2(e), Twist(e)) = XInf(Twist(e))
(* h2 * r is the order of the correct sextic twist: #E'(F_p2) = p^2 + 1 - (3f + t2)/2 or ... one of the six twist orders *)
TwistCofactor(e) ==
    IsBN(e) =>
        LET p  == I(FALSE, Pm(e))  t == BnTr(e)
            t2 == ISub(IMul(t, t), IMul(IFromNat(2), p))                          \* trace over F_p2
            f2m == BDiv(BSub(BMul(<<4>>, Sq(Pm(e))), Sq(t2.mag)), <<3>>)          \* 3 f^2 = 4 p^2 - t2^2
            f  == I(FALSE, BSqrt(f2m))
            n2 == IAdd(IMul(p, p), IOne)
            cands == {ISub(n2, t2), IAdd(n2, t2)} \cup
                     {ISub(n2, I((s1 = 1) # x.neg, BShr(x.mag, 1))) :
                        s1 \in {0, 1}, x \in {IAdd(t2, IMul(IFromNat(3), f)), ISub(t2, IMul(IFromNat(3), f))}}
            hr == I(FALSE, BMul(BNorm(e.h2.d), Ord(e)))
        IN  /\ Sq(f.mag) = f2m
            /\ \E c \in cands : IEq(c, hr)
(* h2 * r annihilates every point of the twist, not only the subgroup: witnesses built from an x coordinate *)
TwistCofactorClears(e) ==
    HasTwist(e) =>
        /\ Len(e.pts2) >= 1
        /\ \A j \in 1..Len(e.pts2) :
              LET Q == XPt(E2(e.pts2[j].x0, e.pts2[j].x1), E2(e.pts2[j].y0, e.pts2[j].y1)) IN
              /\ XOnCurve(Q, Twist(e))
              /\ XMulNat(BMul(BNorm(e.h2.d), Ord(e)), Q, Twist(e)) = XInf(Twist(e))
(* the Frobenius (untwist - Frobenius - twist) acts on G2 as multiplication by p *)
FrobeniusOnG2(e) ==
    HasTwist(e) =>
        XMulNat(BMod(Pm(e), Ord(e)), G2(e), Twist(e)) = XPt(E2(e.frbx0, e.frbx1), E2(e.frby0, e.frby1))

Relations == {"PrimeModulus", "MontConstants", "ResidueConstants", "GeneratorOnCurve", "Nonsingular",
              "OrderPrime", "OrderAnnihilatesGenerator", "HasseAndCofactor", "CofactorClears", "CurveFlags",
              "SecurityLevel", "GeneratorTable", "BetaCubeRoot", "LambdaRoot", "PsiIsLambda", "GlvBasis",
              "GlvShort", "FamilyPolynomials", "CurveOrderFromTrace", "EmbeddingDegree", "TowerIsField",
              "TwistCoefficients", "TwistGenerator", "TwistOrder", "TwistCofactor", "FrobeniusOnG2",
              "GlvRounding", "MapConstants", "TwistCofactorClears"}

ParamAccept(e) ==
    /\ e.op = "ep" /\ e.id > 0
    /\ CASE e.rel = "PrimeModulus" -> PrimeModulus(e)
         [] e.rel = "MontConstants" -> MontConstants(e)
         [] e.rel = "ResidueConstants" -> ResidueConstants(e)
         [] e.rel = "GeneratorOnCurve" -> GeneratorOnCurve(e)
         [] e.rel = "Nonsingular" -> Nonsingular(e)
         [] e.rel = "OrderPrime" -> OrderPrime(e)
         [] e.rel = "OrderAnnihilatesGenerator" -> OrderAnnihilatesGenerator(e)
         [] e.rel = "HasseAndCofactor" -> HasseAndCofactor(e)
         [] e.rel = "CofactorClears" -> CofactorClears(e)
         [] e.rel = "CurveFlags" -> CurveFlags(e)
         [] e.rel = "SecurityLevel" -> SecurityLevel(e)
         [] e.rel = "GeneratorTable" -> GeneratorTable(e)
         [] e.rel = "BetaCubeRoot" -> BetaCubeRoot(e)
         [] e.rel = "LambdaRoot" -> LambdaRoot(e)
         [] e.rel = "PsiIsLambda" -> PsiIsLambda(e)
         [] e.rel = "GlvBasis" -> GlvBasis(e)
         [] e.rel = "GlvShort" -> GlvShort(e)
         [] e.rel = "FamilyPolynomials" -> FamilyPolynomials(e)
         [] e.rel = "CurveOrderFromTrace" -> CurveOrderFromBnTr(e)
         [] e.rel = "EmbeddingDegree" -> EmbeddingDegree(e)
         [] e.rel = "TowerIsField" -> TowerIsField(e)
         [] e.rel = "TwistCoefficients" -> TwistCoefficients(e)
         [] e.rel = "TwistGenerator" -> TwistGenerator(e)
         [] e.rel = "TwistOrder" -> TwistOrder(e)
         [] e.rel = "TwistCofactor" -> TwistCofactor(e)
         [] e.rel = "FrobeniusOnG2" -> FrobeniusOnG2(e)
         [] e.rel = "GlvRounding" -> GlvRounding(e)
         [] e.rel = "MapConstants" -> MapConstants(e)
         [] e.rel = "TwistCofactorClears" -> TwistCofactorClears(e)
         [] e.rel = "FamilyAtSize" -> FamilyAtSize(e)
         [] OTHER -> FALSE
(* ep_param_level has no entry for some selectable sets of the field-size sweep (CURVE_67254, CURVE_383187,      *)
(* CURVE_511187, SG54-P569, B48-P575, SG18-P638, AFG16-P766): the advertised level is 0                           *)
ParamKnownKey(e) ==
    IF e.op # "ep" \/ e.id <= 0 THEN ""
    ELSE IF e.rel = "SecurityLevel" /\ e.level = 0 /\ e.fbits \in {382, 383, 511, 569, 575, 638, 766}
    THEN "C18-level-zero-sweep-sets"
    \* B12-P446 selected in a 446-bit build without FP_QNRES: fp2_field_get_qnr() is hard-wired to 16 for the field size
    \* (the BN-P446 tower); for the BLS12 prime xi = 16 + u is a square, so v^3 = xi, w^2 = v do not define F_p12 and the
    \* twist constants derived from xi do not fit the curve
    ELSE IF e.rel \in {"TowerIsField", "TwistCoefficients", "FrobeniusOnG2"} /\ e.fbits = 446 /\ e.fam = "B12" /\ e.embed = 12
            /\ BNorm(e.xi0) = <<16>> /\ BNorm(e.xi1) = <<1>>
    THEN "C18-b12-p446-tower-without-qnres"
    \* B12-P377: the stored cofactor of the twist (ep2_curve_get_cof) is two less than #E'(F_p2) / r: h2 * r does not
    \* annihilate the points of the twist (the witnesses themselves are on the twist)
    ELSE IF e.rel = "TwistCofactorClears" /\ e.fbits = 377 /\ e.fam = "B12" /\ e.embed = 12 /\ Len(e.pts2) >= 1
            /\ \A j \in 1..Len(e.pts2) :
                   XOnCurve(XPt(E2(e.pts2[j].x0, e.pts2[j].x1), E2(e.pts2[j].y0, e.pts2[j].y1)), Twist(e))
    THEN "C18-b12-p377-twist-cofactor"
    \* AFG16-P510: the stored cofactor (a 255-bit value) times the 256-bit order r is not a curve order - it lies
    \* outside the Hasse interval around p + 1 by about 2^509
    ELSE IF e.rel = "HasseAndCofactor" /\ e.fbits = 510 /\ e.pairf # 0 /\ e.embed = 16 /\ e.h.s = 0 /\ Cof(e) # <<>>
            /\ ~BLe(Sq(AbsDiff(BAdd(Pm(e), <<1>>), BMul(Ord(e), Cof(e)))), BShl(Pm(e), 2))
    THEN "C18-afg16-p510-cofactor"
    ELSE ""
=============================================================================
