CONSTANT Primes = {5, 7, 11}
SPECIFICATION Spec
INVARIANT GroupLaw
CHECK_DEADLOCK FALSE
