CONSTANT W = 8
CONSTANT Modes = {"mul", "rdc", "rdc1"}
CONSTANT Level = 1
CONSTANT MulDigs = {1, 2}
CONSTANT Bs = {65535, 32769, 4660}
CONSTANT Digs1 = {0, 1, 2, 129, 255}
SPECIFICATION Spec
INVARIANTS MulOk RdcOk Rdc1Ok
CHECK_DEADLOCK FALSE
