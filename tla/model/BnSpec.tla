------------------------------- MODULE BnSpec -------------------------------
(***************************************************************************)
(* The integer layer of RELIC (the bn module) at the level of one public call:*)
(* what each operation must return for given operand VALUES, in which      *)
(* representation (normal form), and when an error outcome is admissible.  *)
(* An event e carries the raw projection of each object:                   *)
(*    [s |-> 0|1 (sign), u |-> used, d |-> little-endian bytes of dp[0,u)] *)
(* w = bytes per digit, digs = digits of the configured precision,         *)
(* cap = physical digit capacity, al = alias pattern, err = thrown error   *)
(* (0 none), code = sticky code read after the call, unch = non-aliased    *)
(* inputs bit-identical after the call.                                    *)
(* Used by trace/BnTrace (code -> spec) and model/BnObj (design level).    *)
(***************************************************************************)
EXTENDS BigInt

Val(o) == I(o.s = 1, o.d)

(* normal form: digits exactly cover `used`; no leading zero digit; zero is *)
(* non-negative and occupies at most one digit                              *)
TopDigitNonZero(o, w) == \E j \in (Len(o.d) - w + 1)..Len(o.d) : o.d[j] # 0
Normal(o, w) ==
    /\ Len(o.d) = o.u * w
    /\ IF BNorm(o.d) = <<>> THEN o.s = 0 /\ o.u <= 1
       ELSE TopDigitNonZero(o, w)

DigitsOf(v, w) == (Len(v.mag) + w - 1) \div w

(* the call returned normally with value v in output field o *)
Ret(e, o, v) == /\ e.err = 0 /\ e.code = 0 /\ e.unch
                /\ Normal(o, e.w) /\ o.u <= e.cap            \* never more digits than physically exist
                /\ IEq(Val(o), v)
(* an error outcome: admissible only if the result needs more than lim digits; *)
(* inputs stay unchanged (unless aliased) and the sticky code reads as error   *)
Thrown(e, v, lim) == e.err # 0 /\ e.code = 1 /\ DigitsOf(v, e.w) > lim
RetOrPreci(e, o, v, lim) == Ret(e, o, v) \/ Thrown(e, v, lim)
(* invalid argument must be reported *)
MustThrow(e) == e.err # 0 /\ e.code = 1

DigVal(e) == I(FALSE, e.dg)
Sgn(x) == IF x < 0 THEN 0 - 1 ELSE IF x > 0 THEN 1 ELSE 0

RECURSIVE PopCount(_, _)
PopCount(m, i) == IF i > Len(m) THEN 0
                  ELSE LET RECURSIVE pc(_)
                           pc(x) == IF x = 0 THEN 0 ELSE (x % 2) + pc(x \div 2)
                       IN pc(m[i]) + PopCount(m, i + 1)

IsMul(op) == op \in {"bn_mul", "bn_mul_basic", "bn_mul_comba", "bn_mul_karat"}
IsSqr(op) == op \in {"bn_sqr", "bn_sqr_basic", "bn_sqr_comba", "bn_sqr_karat"}

BnAccept(e) ==
    LET a == Val(e.a) IN
    CASE e.op = "bn_add" -> RetOrPreci(e, e.c, IAdd(a, Val(e.b)), e.digs)
      [] e.op = "bn_sub" -> RetOrPreci(e, e.c, ISub(a, Val(e.b)), e.digs)
      [] IsMul(e.op)     -> RetOrPreci(e, e.c, IMul(a, Val(e.b)), 2 * e.digs)
      [] IsSqr(e.op)     -> RetOrPreci(e, e.c, ISqr(a), 2 * e.digs)
      [] e.op = "bn_neg" -> Ret(e, e.c, INeg(a))
      [] e.op = "bn_abs" -> Ret(e, e.c, IAbs(a))
      [] e.op = "bn_copy" -> Ret(e, e.c, a)
      [] e.op = "bn_dbl" -> RetOrPreci(e, e.c, IAdd(a, a), e.digs)
      [] e.op = "bn_hlv" -> Ret(e, e.c, IShrFloor(a, 1))
      [] e.op = "bn_lsh" -> RetOrPreci(e, e.c, IShl(a, e.k), e.digs)
      [] e.op = "bn_rsh" -> Ret(e, e.c, IShrFloor(a, e.k))
      [] e.op = "bn_mod_2b" -> Ret(e, e.c, IF e.k <= 0 THEN IZero ELSE IMod2b(a, e.k))
      [] e.op = "bn_add_dig" -> RetOrPreci(e, e.c, IAdd(a, DigVal(e)), e.digs)
      [] e.op = "bn_sub_dig" -> RetOrPreci(e, e.c, ISub(a, DigVal(e)), e.digs)
      [] e.op = "bn_mul_dig" -> RetOrPreci(e, e.c, IMul(a, DigVal(e)), e.digs + 1)
      [] e.op = "bn_div" ->
            IF IIsZero(Val(e.b)) THEN MustThrow(e)
            ELSE Ret(e, e.c, IFloorDiv(a, Val(e.b)))
      [] e.op = "bn_div_rem" ->
            IF IIsZero(Val(e.b)) THEN MustThrow(e)
            ELSE LET qr == IFloorDivMod(a, Val(e.b)) IN
                 Ret(e, e.c, qr[1]) /\ Ret(e, e.d, qr[2])
      [] e.op = "bn_div_dig" ->
            IF IIsZero(DigVal(e)) THEN MustThrow(e)
            ELSE Ret(e, e.c, IFloorDiv(a, DigVal(e)))
      [] e.op = "bn_div_rem_dig" ->
            IF IIsZero(DigVal(e)) THEN MustThrow(e)
            ELSE LET qr == IFloorDivMod(a, DigVal(e)) IN
                 Ret(e, e.c, qr[1]) /\ BNorm(e.rd) = qr[2].mag
      [] e.op = "bn_cmp" -> e.err = 0 /\ e.unch /\ Sgn(e.ret) = ICmp(a, Val(e.b))
      [] e.op = "bn_cmp_abs" -> e.err = 0 /\ e.unch /\ Sgn(e.ret) = ICmpAbs(a, Val(e.b))
      [] e.op = "bn_cmp_dig" -> e.err = 0 /\ e.unch /\ Sgn(e.ret) = ICmp(a, DigVal(e))
      [] e.op = "bn_get_bit" -> e.err = 0 /\ e.unch /\ e.ret = BBit(a.mag, e.k)
      [] e.op = "bn_bits" -> e.err = 0 /\ e.unch /\ e.ret = BBits(a.mag)
      [] e.op = "bn_ham" -> e.err = 0 /\ e.unch /\ e.ret = PopCount(a.mag, 1)
      [] e.op = "bn_is_zero" -> e.err = 0 /\ e.unch /\ e.ret = (IF IIsZero(a) THEN 1 ELSE 0)
      [] e.op = "bn_is_even" -> e.err = 0 /\ e.unch /\ e.ret = 1 - BBit(a.mag, 0)
      [] e.op = "bn_sign" -> e.err = 0 /\ e.unch /\ e.ret = (IF a.neg THEN 1 ELSE 0)
      [] e.op = "bn_get_dig" -> e.err = 0 /\ e.unch /\ BNorm(e.rd) = BLow(a.mag, 8 * e.w)
      [] e.op = "bn_set_bit" ->
            LET cur == BBit(a.mag, e.k)
                m2  == IF e.v = cur THEN a.mag
                       ELSE IF e.v = 1 THEN BAdd(a.mag, BShl(<<1>>, e.k))
                       ELSE BSub(a.mag, BShl(<<1>>, e.k))
            IN  RetOrPreci(e, e.c, I(a.neg, m2), e.digs)
      [] e.op = "bn_set_2b" -> RetOrPreci(e, e.c, I(FALSE, BShl(<<1>>, e.k)), e.digs)
      [] e.op = "bn_set_dig" -> Ret(e, e.c, DigVal(e))
      [] e.op = "bn_zero" -> Ret(e, e.c, IZero)
      [] OTHER -> FALSE

(***************************************************************************)
(* Known findings (DESIGN.md 2.8, /verif/known_findings.json): defects of  *)
(* the unchanged tree that are recorded, not repaired.  Each is enabled    *)
(* only for its op + input class and only for the exact wrong outcome the  *)
(* finding describes, so any other deviation is still a violation.         *)
(* The set of enabled keys is passed in through IOEnv.KNOWN (comma list).  *)
(***************************************************************************)
NegLowBits(a, n) == a.neg /\ BLow(a.mag, n) # <<>>

BnKnownKey(e) ==
    LET a == Val(e.a) IN
    CASE e.op = "bn_hlv" /\ NegLowBits(a, 1) /\ Ret(e, e.c, IShrMag(a, 1))
            -> "C01-shift-negative-magnitude"
      [] e.op = "bn_rsh" /\ NegLowBits(a, e.k) /\ Ret(e, e.c, IShrMag(a, e.k))
            -> "C01-shift-negative-magnitude"
      [] e.op = "bn_mod_2b" /\ e.k > 0 /\ NegLowBits(a, e.k)
                /\ Ret(e, e.c, I(TRUE, BLow(a.mag, e.k)))
            -> "C01-mod2b-negative-magnitude"
      [] e.op = "bn_div_dig" /\ ~IIsZero(DigVal(e)) /\ a.neg /\ BMod(a.mag, e.dg) # <<>>
                /\ Ret(e, e.c, ITruncDivMod(a, DigVal(e))[1])
            -> "C01-divdig-negative-dividend"
      [] e.op = "bn_div_rem_dig" /\ ~IIsZero(DigVal(e)) /\ a.neg
                /\ Ret(e, e.c, ITruncDivMod(a, DigVal(e))[1])
                /\ BNorm(e.rd) = BSub(BNorm(e.dg), BMod(a.mag, e.dg))
            -> "C01-divdig-negative-dividend"
      [] OTHER -> ""
=============================================================================
