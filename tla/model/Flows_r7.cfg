SPECIFICATION Spec
CONSTANTS
    R = 7
    Protocols = {"pdpub", "lvpub", "pbpsi"}
    BlindSet = {0}
    SetSize = 3
INVARIANTS Sound Complete Detects PsiExact
CHECK_DEADLOCK FALSE
