------------------------------- MODULE MapSpec -------------------------------
(***************************************************************************)
(* Hashing to curve groups (C13) at the level of one public call: what     *)
(* ep_map_sswum / ep_map_basic / ep_map_swift / ep_map_rnd, ep2_map_sswum /*)
(* ep2_map_basic, eb_map, ed_map / ed_map_dst (ep2_map_swift: validity     *)
(* only) must return for given input BYTES.                                *)
(*                                                                         *)
(* The construction (RFC 9380 hash_to_curve, with the library's documented *)
(* choices as parameters):                                                 *)
(*   uniform = expand_message_xmd(SHA-256, msg, DST, count * L)            *)
(*             (lib/Xmd, evaluated here from the message bytes),           *)
(*             L = (FP_PRIME + ep_param_level() + 7) div 8 as coded,       *)
(*             DST = the tag the routine passes (see DstOf)                *)
(*   u_i     = OS2IP(chunk_i) mod p                                        *)
(*   Q_i     = map_to_curve(u_i): simplified SWU (RFC 9380 6.6.2) on the   *)
(*             curve itself when a b # 0, on the isogenous curve followed  *)
(*             by the isogeny (rational maps xn/xd, y yn/yd) when the      *)
(*             curve has one configured (ctmap), otherwise Shallue-van de  *)
(*             Woestijne (RFC 9380 6.6.1); the root is fixed by            *)
(*             sgn0(y) = sgn0(u)                                           *)
(*   R       = clear_cofactor(Q_0 + Q_1)                                   *)
(* written ONCE over a field descriptor F = [T, k]: level k of a lib/Tower *)
(* tower (k = 0: F_p for ep, k = 1: F_p2 for ep2).  Square roots come from *)
(* model/SqrtMod and are re-asserted by relation (y^2 = g(x)) on every     *)
(* use; the point additions and the cofactor multiplication are lib/Curve  *)
(* (ep) and lib/CurveX (ep2).                                              *)
(*                                                                         *)
(* Implementation-defined constants are PARAMETERS read from the library   *)
(* (ep_map_u = Z, the isogeny coefficients, sqrt(-3) for SwiftEC, the tag  *)
(* string, the curve family and its parameter x): a map_params event is    *)
(* accepted iff they satisfy their DEFINING relations (ParamsOk); the      *)
(* library's derived constants ep_map_c[] are checked there too and never  *)
(* used by the spec's evaluation.                                          *)
(*                                                                         *)
(* Per event: (a) the returned point equals the construction, (b) it is on *)
(* the curve and [n]R = O, (c) the second evaluation of the same input     *)
(* after unrelated library calls returned the identical object (R2 = R).   *)
(***************************************************************************)
EXTENDS FpRep, BigInt, SqrtMod, CurveX, BinCurve
HX == INSTANCE Xmd
ED == INSTANCE Edwards

(* ------------------------------------------------------------ generic field *)
GA(F, x, y) == TAdd(F.T, F.k, x, y)
GS(F, x, y) == TSub(F.T, F.k, x, y)
GM(F, x, y) == TMul(F.T, F.k, x, y)
GN(F, x) == TNeg(F.T, F.k, x)
GI(F, x) == TInv(F.T, F.k, x)                      \* inv0: zero for zero
GQ(F, x) == TMul(F.T, F.k, x, x)
G0(F) == TZero(F.T, F.k)
G1(F) == TOne(F.T, F.k)
GNat(F, n) == IF F.k = 0 THEN FFromNat(n, F.T.p) ELSE <<FFromNat(n, F.T.p), <<>>>>
GIsSq(F, x) == IF F.k = 0 THEN FIsSquare(x, F.T.p) ELSE Q2IsSquare(x, Nr(F.T, 1), F.T.p)
GRoot(F, x) == IF F.k = 0 THEN FSqrt(x, F.T.p) ELSE F2Sqrt(x, Nr(F.T, 1), F.T.p)
(* sgn0 of RFC 9380 section 4.1 for m = 1, 2 *)
GSgn0(F, x) == IF F.k = 0 THEN BBit(x, 0)
               ELSE IF BBit(x[1], 0) = 1 \/ (x[1] = <<>> /\ BBit(x[2], 0) = 1) THEN 1 ELSE 0
Gx(F, A, B, x) == GA(F, GM(F, GA(F, GQ(F, x), A), x), B)            \* x^3 + A x + B

(* RFC 9380 6.6.2: the x coordinate *)
SswuX(F, A, B, Z, u) ==
    LET zu2 == GM(F, Z, GQ(F, u))
        tv1 == GA(F, GQ(F, zu2), zu2)
        x1  == IF tv1 = G0(F) THEN GM(F, B, GI(F, GM(F, Z, A)))
               ELSE GM(F, GM(F, GN(F, B), GI(F, A)), GA(F, G1(F), GI(F, tv1)))
    IN  IF GIsSq(F, Gx(F, A, B, x1)) THEN x1 ELSE GM(F, zu2, x1)
(* RFC 9380 6.6.1: the x coordinate *)
SvdwC3sq(F, A, B, Z) == GM(F, GN(F, Gx(F, A, B, Z)), GA(F, GM(F, GNat(F, 3), GQ(F, Z)), GM(F, GNat(F, 4), A)))
SvdwX(F, A, B, Z, u) ==
    LET gz   == Gx(F, A, B, Z)
        tv1a == GM(F, GQ(F, u), gz)
        tv2  == GA(F, G1(F), tv1a)
        tv1  == GS(F, G1(F), tv1a)
        tv3  == GI(F, GM(F, tv1, tv2))
        r    == GRoot(F, SvdwC3sq(F, A, B, Z))
        tv4  == IF GSgn0(F, r) = 1 THEN GN(F, r) ELSE r
        tv5  == GM(F, GM(F, GM(F, u, tv1), tv3), tv4)
        tv6  == GM(F, GM(F, GN(F, GNat(F, 4)), gz), GI(F, GA(F, GM(F, GNat(F, 3), GQ(F, Z)), GM(F, GNat(F, 4), A))))
        mz2  == GM(F, GN(F, Z), GI(F, GNat(F, 2)))
        x1   == GS(F, mz2, tv5)
        x2   == GA(F, mz2, tv5)
        x3   == GA(F, Z, GM(F, tv6, GQ(F, GM(F, GQ(F, tv2), tv3))))
    IN  IF GIsSq(F, Gx(F, A, B, x1)) THEN x1
        ELSE IF GIsSq(F, Gx(F, A, B, x2)) THEN x2 ELSE x3
(* the point with abscissa x whose ordinate has the sign of u; ok = the root relation holds *)
SignedPoint(F, A, B, x, u) ==
    LET gx == Gx(F, A, B, x)
        y0 == GRoot(F, gx)
        y  == IF y0 = SqrtNone THEN y0 ELSE IF GSgn0(F, u) # GSgn0(F, y0) THEN GN(F, y0) ELSE y0
    IN  [inf |-> FALSE, x |-> x, y |-> y, ok |-> (y0 # SqrtNone /\ GQ(F, y) = gx)]

(* polynomial with coefficient list cs (lowest first) at x *)
RECURSIVE GEvalR(_, _, _, _, _)
GEvalR(F, cs, x, i, acc) == IF i = 0 THEN acc ELSE GEvalR(F, cs, x, i - 1, GA(F, GM(F, acc, x), cs[i]))
GEval(F, cs, x) == GEvalR(F, cs, x, Len(cs) - 1, cs[Len(cs)])
(* the isogeny E' -> E as rational maps (RFC 9380 appendix E); poles go to infinity *)
IsoMap(F, iso, P) ==
    LET xd == GEval(F, iso.xd, P.x)
        yd == GEval(F, iso.yd, P.x)
    IN  IF xd = G0(F) \/ yd = G0(F) THEN [inf |-> TRUE, x |-> G0(F), y |-> G0(F), ok |-> P.ok]
        ELSE [inf |-> FALSE, x |-> GM(F, GEval(F, iso.xn, P.x), GI(F, xd)),
              y |-> GM(F, P.y, GM(F, GEval(F, iso.yn, P.x), GI(F, yd))), ok |-> P.ok]

(* map_to_curve for the map configuration m = [sswu, ctmap, A, B (curve), Z, iso] *)
MapToCurve(F, m, u) ==
    IF m.ctmap THEN IsoMap(F, m.iso, SignedPoint(F, m.iso.a, m.iso.b, SswuX(F, m.iso.a, m.iso.b, m.Z, u), u))
    ELSE IF m.sswu THEN SignedPoint(F, m.A, m.B, SswuX(F, m.A, m.B, m.Z, u), u)
    ELSE SignedPoint(F, m.A, m.B, SvdwX(F, m.A, m.B, m.Z, u), u)

(* ------------------------------------------------------------ bytes *)
OS2IP(s) == BFromBE(s)
Lpe(e) == (e.fpp + e.lvl + 7) \div 8
Chunk(s, i, L) == SubSeq(s, i * L + 1, (i + 1) * L)
FpOf(e, s) == BMod(OS2IP(s), FPrime(e))
(* the tag string each routine passes to md_xmd: ep_map_basic the string, ep_map_sswum and        *)
(* ep_map_swift the string WITH its terminating zero byte (sizeof), the ep2 routines "RELIC"     *)
DstOf(e) == IF e.op \in {"ep_map_sswum", "ep_map_swift"} THEN e.tag \o <<0>> ELSE e.tag
XmdOf(e, msg, n) == HX!XmdSha256(msg, DstOf(e), n)

(* ------------------------------------------------------------ prime curves *)
F1(e) == [T |-> [p |-> FPrime(e), lv |-> <<>>], k |-> 0]
Crv(e) == [p |-> FPrime(e), a |-> FAbs(e, e.ca), b |-> FAbs(e, e.cb)]
AbsList(e, rs) == LET RECURSIVE go(_)
                      go(i) == IF i > Len(rs) THEN <<>> ELSE <<FAbs(e, rs[i])>> \o go(i + 1)
                  IN  go(1)
Iso1(e) == [a |-> FAbs(e, e.ia), b |-> FAbs(e, e.ib), xn |-> AbsList(e, e.ixn), xd |-> AbsList(e, e.ixd),
            yn |-> AbsList(e, e.iyn), yd |-> AbsList(e, e.iyd)]
Map1(e) == LET c == Crv(e) IN
           [sswu |-> (c.a # <<>> /\ c.b # <<>>), ctmap |-> (e.ctmap = 1), A |-> c.a, B |-> c.b,
            Z |-> FAbs(e, e.mu), iso |-> IF e.ctmap = 1 THEN Iso1(e) ELSE <<>>]
ParOf(e) == I(e.par.s = 1, e.par.d)
(* cofactor clearing of ep_mul_cof: the cofactor h, except on BLS12 curves 1 - x (RFC 9380 8.8.1: h_eff) *)
HEff1(e) == IF e.pairf = e.EP_B12 THEN ISub(IOne, ParOf(e)) ELSE I(FALSE, e.h.d)
ClearCof1(e, P) == LET k == HEff1(e) IN PMul(k.neg, k.mag, P, Crv(e))
AsPt(Q) == IF Q.inf THEN PInf ELSE Pt(Q.x, Q.y)

(* hash_to_curve from 2L uniform bytes *)
FromUniform1(e, s) ==
    LET L  == Lpe(e)
        F  == F1(e)
        m  == Map1(e)
        Q0 == MapToCurve(F, m, FpOf(e, Chunk(s, 0, L)))
        Q1 == MapToCurve(F, m, FpOf(e, Chunk(s, 1, L)))
    IN  [pt |-> ClearCof1(e, PAdd(AsPt(Q0), AsPt(Q1), Crv(e))), ok |-> Q0.ok /\ Q1.ok]

(* try-and-increment (ep_map_basic_impl): the first x >= x0 (cyclically) with g(x) a non-zero square *)
RECURSIVE FirstX1(_, _)
FirstX1(x, c) == IF FLegendre(Rhs(x, c), c.p) = 1 THEN x ELSE FirstX1(FAdd(x, <<1>>, c.p), c)
(* the sign of the root is not documented: either root is the construction *)
Basic1(e, x0) ==
    LET c == Crv(e)
        x == FirstX1(x0, c)
        y == FSqrt(Rhs(x, c), c.p)
    IN  [pt |-> ClearCof1(e, Pt(x, y)), ok |-> FSqr(y, c.p) = Rhs(x, c)]

(* SwiftEC (ep_map_swift_impl, a = 0 branch; formulas of Chavez-Saab, Rodriguez-Henriquez, Tibouchi as    *)
(* documented in the routine): t1, t2 field elements, s the sign bit; tau = sqrt(-3) a parameter.         *)
(* The candidate abscissas are tried in the order x3, x2, x1; the root has parity 1 - s.                  *)
Swift1(e, t1, t2, s) ==
    LET c  == Crv(e)
        p  == c.p
        tau == FAbs(e, e.mc[5])
        h0 == FMul(FSqr(t1, p), t1, p)
        h1 == FSqr(t2, p)
        h2 == FSub(FAdd(h0, c.b, p), h1, p)
        h3 == FAdd(FDbl(h1, p), h2, p)
        h6 == FMul(t1, tau, p)
        v  == FMul(h2, h6, p)
        h8 == FDbl(FMul(h6, t2, p), p)
        n1 == FMul(FSub(v, FMul(t1, h3, p), p), h8, p)
        n2 == FSqr(FDbl(h3, p), p)
        w  == FDbl(FMul(h3, h8, p), p)
    IN  IF w = <<>> THEN [pt |-> PInf, ok |-> TRUE]
        ELSE LET wi == FInv(w, p)
                 x1 == FMul(n1, wi, p)
                 x2 == FNeg(FAdd(t1, x1, p), p)
                 x3 == FAdd(FSqr(FMul(n2, wi, p), p), t1, p)
                 x  == IF FIsSquare(Rhs(x3, c), p) THEN x3 ELSE IF FIsSquare(Rhs(x2, c), p) THEN x2 ELSE x1
                 y0 == FSqrt(Rhs(x, c), p)
                 y  == IF y0 = SqrtNone \/ y0 = <<>> THEN y0
                       ELSE IF BBit(y0, 0) = 1 - s THEN y0 ELSE FNeg(y0, p)
             IN  [pt |-> IF y0 = SqrtNone THEN PInf ELSE ClearCof1(e, Pt(x, y)),
                  ok |-> y0 # SqrtNone /\ FSqr(y, p) = Rhs(x, c)]
SwiftDefined(e) == Crv(e).a = <<>> /\ Crv(e).b # <<>> /\ e.super = 0 /\ BMod(FPrime(e), <<3>>) = <<1>>
SwiftFrom(e, s, len) ==
    LET hl == len \div 2 IN
    Swift1(e, FpOf(e, SubSeq(s, 1, hl)), FpOf(e, SubSeq(s, hl + 1, 2 * hl)), s[len] % 2)

(* outcome predicates *)
Clean(e) == e.crash = 0 /\ e.err = 0 /\ e.err2 = 0 /\ e.code = 0
Refused(e) == e.crash = 0 /\ e.err # 0 /\ e.err2 # 0
Same(e) == e.R2 = e.R                                             \* (c) determinism, bit for bit
Valid1(e) == /\ e.R.c \in {1, 2, 3} /\ PCanon(e, e.R)              \* (b)
             /\ OnCurve(PAbs(e, e.R), Crv(e))
             /\ PMulNat(BNorm(e.n.d), PAbs(e, e.R), Crv(e)).inf
Is1(e, r) == r.ok /\ PEq(PAbs(e, e.R), r.pt)                       \* (a)
IsPm1(e, r) == r.ok /\ (PEq(PAbs(e, e.R), r.pt) \/ PEq(PAbs(e, e.R), PNeg(r.pt, Crv(e))))

(* defining relations of the constants (map_params) *)
ParamsRel1(e, crit4) ==
    LET F == F1(e)
        c == Crv(e)
        p == c.p
        m == Map1(e)
        Z == m.Z
        C(i) == FAbs(e, e.mc[i])
        G == PAbs(e, e.G)
    IN  /\ Clean(e)
        /\ OnCurve(G, c) /\ ~G.inf /\ PMulNat(BNorm(e.n.d), G, c).inf
        /\ InField(Z, p) /\ Z # <<>>
        /\ IF m.ctmap \/ m.sswu THEN
              LET A == IF m.ctmap THEN m.iso.a ELSE c.a
                  B == IF m.ctmap THEN m.iso.b ELSE c.b
              IN  /\ A # <<>> /\ B # <<>>
                  /\ ~FIsSquare(Z, p) /\ Z # FNeg(<<1>>, p)                          \* RFC 9380 6.6.2, criteria 1, 2
                  /\ FIsSquare(Gx(F, A, B, FMul(B, FInv(FMul(Z, A, p), p), p)), p) = crit4   \* criterion 4
                  /\ C(1) = FMul(FNeg(B, p), FInv(A, p), p) /\ C(3) = A /\ C(4) = B
                  /\ (m.ctmap =>
                        \A j \in 1..3 :          \* the rational maps send points of E' to points of E
                            LET u == FFromNat(j, p)
                                Q == MapToCurve(F, m, u)
                            IN  Q.ok /\ ~Q.inf /\ OnCurve(AsPt(Q), c))
           ELSE
              LET gz == Gx(F, c.a, c.b, Z)
                  d  == FAdd(FMul(<<3>>, FSqr(Z, p), p), FMul(<<4>>, c.a, p), p)
                  c3 == SvdwC3sq(F, c.a, c.b, Z)
                  mz2 == FMul(FNeg(Z, p), FInv(<<2>>, p), p)
              IN  /\ gz # <<>> /\ d # <<>> /\ c3 # <<>> /\ FIsSquare(c3, p)          \* RFC 9380 6.6.1, criteria 1-3
                  /\ (FIsSquare(gz, p) \/ FIsSquare(Gx(F, c.a, c.b, mz2), p))        \* criterion 4
                  /\ C(1) = gz /\ C(2) = mz2
                  /\ FSqr(C(3), p) = c3 /\ BBit(C(3), 0) = 0
                  /\ C(4) = FMul(FMul(FNeg(<<4>>, p), gz, p), FInv(d, p), p)
        /\ ((e.super = 0 /\ (c.a = <<>> \/ c.b = <<>>)) => FSqr(C(5), p) = FNeg(<<3>>, p))

ParamsOk1(e) == ParamsRel1(e, TRUE)

(* ------------------------------------------------------------ curves over F_p2 *)
QnrOf(e) == IF e.qnr < 0 THEN BSub(FPrime(e), BFromNat(0 - e.qnr)) ELSE BFromNat(e.qnr)
T2(e) == [p |-> FPrime(e), lv |-> <<[deg |-> 2, nr |-> QnrOf(e)]>>]
F2(e) == [T |-> T2(e), k |-> 1]
A2(e, r) == <<FAbs(e, r[1]), FAbs(e, r[2])>>
Canon2(e, r) == FCanon(e, r[1]) /\ FCanon(e, r[2])
Crv2(e) == [T |-> T2(e), k |-> 1, a |-> A2(e, e.a2), b |-> A2(e, e.b2)]
Zero2 == <<<<>>, <<>>>>
One2 == <<<<1>>, <<>>>>
Abs2List(e, rs) == LET RECURSIVE go(_)
                       go(i) == IF i > Len(rs) THEN <<>> ELSE <<A2(e, rs[i])>> \o go(i + 1)
                   IN  go(1)
Iso2(e) == [a |-> A2(e, e.ia), b |-> A2(e, e.ib), xn |-> Abs2List(e, e.ixn), xd |-> Abs2List(e, e.ixd),
            yn |-> Abs2List(e, e.iyn), yd |-> Abs2List(e, e.iyd)]
Map2(e) == LET c == Crv2(e) IN
           [sswu |-> (c.a # Zero2 /\ c.b # Zero2), ctmap |-> (e.ctmap = 1), A |-> c.a, B |-> c.b,
            Z |-> A2(e, e.mu), iso |-> IF e.ctmap = 1 THEN Iso2(e) ELSE <<>>]
P2Abs(e, P) ==
    LET c == Crv2(e)
        z == A2(e, P.z)
        x == A2(e, P.x)
        y == A2(e, P.y)
    IN  IF z = Zero2 THEN XInf(c)
        ELSE IF P.c = 1 THEN XPt(x, y)
        ELSE LET zi  == XI(c, z)
                 zi2 == XM(c, zi, zi)
             IN  IF P.c = 2 THEN XPt(XM(c, x, zi), XM(c, y, zi))
                 ELSE XPt(XM(c, x, zi2), XM(c, y, XM(c, zi2, zi)))
P2Canon(e, P) == Canon2(e, P.x) /\ Canon2(e, P.y) /\ Canon2(e, P.z)
XEq(P, Q) == IF P.inf \/ Q.inf THEN P.inf = Q.inf ELSE P.x = Q.x /\ P.y = Q.y
AsXPt(e, Q) == IF Q.inf THEN XInf(Crv2(e)) ELSE XPt(Q.x, Q.y)

(* Cofactor clearing on the twist.  E'(F_p2) has order h n with gcd(h, n) = 1; write S = S_n + S_h.  The   *)
(* library applies an endomorphism f(psi), psi the untwist-Frobenius-twist map: BN curves (Fuentes-        *)
(* Castaneda, Knapp, Rodriguez-Henriquez) f = x + 3x psi + x psi^2 + psi^3, BLS12 curves (Budroni,         *)
(* Pintore; RFC 9380 appendix G.3) f = (x^2 - x - 1) + (x - 1) psi + 2 psi^2.  f(psi) kills S_h and psi    *)
(* acts on the subgroup of order n as multiplication by p, hence f(psi)(S) = [f(p) mod n] S_n              *)
(* = [h ((f(p) / h) mod n)] S: the effective cofactor as ONE scalar.                                       *)
HEff2(e) ==
    LET n  == BNorm(e.n.d)
        h  == BNorm(e.h.d)
        x  == IModPos(ParOf(e), n)
        pn == BMod(FPrime(e), n)
        M(u, v) == BMulMod(u, v, n)
        Ad(u, v) == BAddMod(u, v, n)
        f  == IF e.pairf = e.EP_BN
              THEN Ad(Ad(x, M(M(<<3>>, x), pn)), Ad(M(x, M(pn, pn)), M(pn, M(pn, pn))))
              ELSE Ad(Ad(BSubMod(BSubMod(M(x, x), x, n), BMod(<<1>>, n), n), M(BSubMod(x, BMod(<<1>>, n), n), pn)),
                      M(<<2>>, M(pn, pn)))
    IN  IF e.pairf \in {e.EP_BN, e.EP_B12}
        THEN BMul(h, M(f, BModInv(BMod(h, n), n)))
        ELSE h
ClearCof2(e, P) == XMulNat(HEff2(e), P, Crv2(e))

FromUniform2(e, s) ==
    LET L  == Lpe(e)
        U(i) == <<FpOf(e, Chunk(s, 2 * i, L)), FpOf(e, Chunk(s, 2 * i + 1, L))>>
        F  == F2(e)
        m  == Map2(e)
        Q0 == MapToCurve(F, m, U(0))
        Q1 == MapToCurve(F, m, U(1))
    IN  [pt |-> ClearCof2(e, XAdd(AsXPt(e, Q0), AsXPt(e, Q1), Crv2(e))), ok |-> Q0.ok /\ Q1.ok]

(* ep2_map_basic: x = (OS2IP(first min(RLC_FP_BYTES, RLC_MD_LEN) bytes of SHA-256(msg)) mod p, 0), incremented *)
(* in its first coordinate until g(x) is a square of F_p2; either root                                      *)
RECURSIVE FirstX2(_, _, _)
FirstX2(e, x, c) == IF GIsSq(F2(e), XRhs(x, c)) THEN x
                    ELSE FirstX2(e, <<FAdd(x[1], <<1>>, FPrime(e)), x[2]>>, c)
Basic2(e) ==
    LET c  == Crv2(e)
        dg == HX!Sha256(e.msg)
        nb == IF e.fpbytes < e.mdlen THEN e.fpbytes ELSE e.mdlen
        x  == FirstX2(e, <<FpOf(e, SubSeq(dg, 1, nb)), <<>>>>, c)
        y  == GRoot(F2(e), XRhs(x, c))
    IN  [pt |-> ClearCof2(e, XPt(x, y)), ok |-> XM(c, y, y) = XRhs(x, c)]

Valid2(e) == /\ e.R.c \in {1, 2, 3} /\ P2Canon(e, e.R)
             /\ XOnCurve(P2Abs(e, e.R), Crv2(e))
             /\ XMulNat(BNorm(e.n.d), P2Abs(e, e.R), Crv2(e)).inf
Is2(e, r) == r.ok /\ XEq(P2Abs(e, e.R), r.pt)
IsPm2(e, r) == r.ok /\ (XEq(P2Abs(e, e.R), r.pt) \/ XEq(P2Abs(e, e.R), XNeg(r.pt, Crv2(e))))

ParamsOk2(e) ==
    LET F == F2(e)
        c == Crv2(e)
        m == Map2(e)
        Z == m.Z
        C(i) == A2(e, e.mc[i])
        G == P2Abs(e, e.G)
        n == BNorm(e.n.d)
        h == BNorm(e.h.d)
    IN  /\ Clean(e)
        /\ TLevelIsField(T2(e), 1)
        /\ XOnCurve(G, c) /\ ~G.inf /\ XMulNat(n, G, c).inf
        /\ BGcd(n, h) = <<1>>
        /\ InTower(F.T, 1, Z) /\ Z # Zero2
        /\ IF m.ctmap \/ m.sswu THEN
              LET A == IF m.ctmap THEN m.iso.a ELSE c.a
                  B == IF m.ctmap THEN m.iso.b ELSE c.b
              IN  /\ A # Zero2 /\ B # Zero2
                  /\ ~GIsSq(F, Z) /\ Z # GN(F, One2)
                  /\ GIsSq(F, Gx(F, A, B, GM(F, B, GI(F, GM(F, Z, A)))))
                  /\ C(1) = GM(F, GN(F, B), GI(F, A)) /\ C(3) = A /\ C(4) = B
                  /\ (m.ctmap =>
                        \A j \in 1..3 :
                            LET u == <<FFromNat(j, F.T.p), <<1>>>>
                                Q == MapToCurve(F, m, u)
                            IN  Q.ok /\ ~Q.inf /\ XOnCurve(AsXPt(e, Q), c))
           ELSE
              LET gz == Gx(F, c.a, c.b, Z)
                  d  == GA(F, GM(F, GNat(F, 3), GQ(F, Z)), GM(F, GNat(F, 4), c.a))
                  c3 == SvdwC3sq(F, c.a, c.b, Z)
                  mz2 == GM(F, GN(F, Z), GI(F, GNat(F, 2)))
              IN  /\ gz # Zero2 /\ d # Zero2 /\ c3 # Zero2 /\ GIsSq(F, c3)
                  /\ (GIsSq(F, gz) \/ GIsSq(F, Gx(F, c.a, c.b, mz2)))
                  /\ C(1) = gz /\ C(2) = mz2
                  /\ GQ(F, C(3)) = c3 /\ GSgn0(F, C(3)) = 0
                  /\ C(4) = GM(F, GM(F, GN(F, GNat(F, 4)), gz), GI(F, d))

(* ------------------------------------------------------------ Edwards / binary curves *)
EdCrv(e) == [p |-> FPrime(e), a |-> FAbs(e, e.ca), d |-> FAbs(e, e.cd)]
EdAbs(e, P) ==
    LET p == FPrime(e)
        z == FAbs(e, P.z)
    IN  IF P.c = 1 THEN ED!EPt(FAbs(e, P.x), FAbs(e, P.y))
        ELSE IF z = <<>> THEN ED!EUndef
        ELSE ED!EPt(FMul(FAbs(e, P.x), FInv(z, p), p), FMul(FAbs(e, P.y), FInv(z, p), p))
ValidEd(e) == /\ e.R.c \in {1, 2, 3} /\ PCanon(e, e.R)
              /\ ED!EOnCurve(EdAbs(e, e.R), EdCrv(e))
              /\ ED!EIsO(ED!EMulNat(BNorm(e.n.d), EdAbs(e, e.R), EdCrv(e)))
(* ed_map / ed_map_dst on edwards25519 (RFC 9380 6.7.1 Elligator 2 on curve25519 with J = 486662, K = 1,  *)
(* Z = 2; 6.8.2 / appendix D.1 rational map (v, w) = (c s/t, (s - 1)/(s + 1)), c = sqrt(-486664) a library *)
(* parameter checked by its defining relation; exceptional points to the identity; cofactor 8):            *)
(* uniform = expand_message_xmd(SHA-256, msg, dst, 2 L), two elements, sum, [8].                           *)
Ell2(e, u) ==
    LET p  == FPrime(e)
        J  == FFromNat(486662, p)
        c  == FAbs(e, e.mc[3])
        g(x) == FAdd(FAdd(FMul(FSqr(x, p), x, p), FMul(J, FSqr(x, p), p), p), x, p)
        x1a == FMul(FNeg(J, p), FInv(FAdd(<<1>>, FDbl(FSqr(u, p), p), p), p), p)
        x1 == IF x1a = <<>> THEN FNeg(J, p) ELSE x1a
        x2 == FSub(FNeg(x1, p), J, p)
        sq == FIsSquare(g(x1), p)
        sx == IF sq THEN x1 ELSE x2
        y0 == FSqrt(g(sx), p)
        t  == IF y0 = SqrtNone \/ y0 = <<>> THEN y0
              ELSE IF BBit(y0, 0) = (IF sq THEN 1 ELSE 0) THEN y0 ELSE FNeg(y0, p)
        sp1 == FAdd(sx, <<1>>, p)
    IN  [pt |-> IF t = SqrtNone \/ t = <<>> \/ sp1 = <<>> THEN ED!EO
                ELSE ED!EPt(FMul(FMul(c, sx, p), FInv(t, p), p), FMul(FSub(sx, <<1>>, p), FInv(sp1, p), p)),
         ok |-> t # SqrtNone /\ FSqr(t, p) = g(sx)]
EdFromMsg(e) ==
    LET L  == Lpe(e)
        x  == HX!XmdSha256(e.msg, e.dst, 2 * L)
        c  == EdCrv(e)
        Q0 == Ell2(e, FpOf(e, Chunk(x.out, 0, L)))
        Q1 == Ell2(e, FpOf(e, Chunk(x.out, 1, L)))
    IN  [pt |-> ED!EMulNat(<<8>>, ED!EAdd(Q0.pt, Q1.pt, c), c),
         ok |-> x.ok /\ Q0.ok /\ Q1.ok /\ BNorm(e.h.d) = <<8>>
                /\ FSqr(FAbs(e, e.mc[3]), c.p) = FNeg(FFromNat(486664, c.p), c.p)
                /\ c.a = FNeg(<<1>>, c.p) /\ c.p = BSub(BShl(<<1>>, 255), <<19>>)]
IsEd(e, r) == r.ok /\ ED!EEq(EdAbs(e, e.R), r.pt)
EbCrv(e) == [f |-> BNorm(e.f), a |-> BNorm(e.ca), b |-> BNorm(e.cb)]
EbAbs(e, P) ==       \* eb_map returns affine points (z = 1) or infinity (z = 0)
    IF BNorm(P.z) = <<>> THEN EInf ELSE EPt(BNorm(P.x), BNorm(P.y))
(* eb_map (try-and-increment): k = OS2IP(first min(RLC_FB_BYTES, RLC_MD_LEN) bytes of SHA-256(msg)); x = k   *)
(* read as a polynomial, k incremented modulo 2^m until y^2 + x y = x^3 + a x^2 + b is solvable, i.e.       *)
(* Tr(g(x)/x^2) = 0; y = l x with l^2 + l = g(x)/x^2 (two solutions l, l + 1: the points P and -P, the      *)
(* choice is not documented); R = [h](x, y).                                                                *)
RECURSIVE FirstXb(_, _, _)
FirstXb(k, c, m) ==
    LET x == BNorm(k) IN
    IF x # <<>> /\ GTrace(GMul(ERhs(x, c), GInv(GSqr(x, c.f), c.f), c.f), c.f) = 0 THEN x
    ELSE FirstXb(BLow(BAdd(k, <<1>>), m), c, m)
BasicEb(e) ==
    LET c  == EbCrv(e)
        dg == HX!Sha256(e.msg)
        nb == IF e.fbbytes < e.mdlen THEN e.fbbytes ELSE e.mdlen
        x  == FirstXb(OS2IP(SubSeq(dg, 1, nb)), c, e.m)
        t0 == GMul(ERhs(x, c), GInv(GSqr(x, c.f), c.f), c.f)
        l  == GHalfTrace(t0, c.f)
        P  == EPt(x, GMul(l, x, c.f))
    IN  [pt |-> EMulNat(BNorm(e.h.d), P, c), ok |-> GSolves(l, t0, c.f) /\ EOnCurve(P, c) /\ e.m % 2 = 1]
IsPmEb(e, r) == r.ok /\ (EEq(EbAbs(e, e.R), r.pt) \/ EEq(EbAbs(e, e.R), ENeg(r.pt)))
ValidEb(e) == /\ e.R.c = 1 /\ BNorm(e.R.z) \in {<<>>, <<1>>}
              /\ BBits(BNorm(e.R.x)) <= e.m /\ BBits(BNorm(e.R.y)) <= e.m
              /\ EOnCurve(EbAbs(e, e.R), EbCrv(e))
              /\ EMulNat(BNorm(e.n.d), EbAbs(e, e.R), EbCrv(e)).inf

(* RFC 9380 appendix J.9.1 (BLS12381G1_XMD:SHA-256_SSWU_RO_, msg = ""): the published u[0], u[1] and P.   *)
(* Evaluated with the constants the library reports for B12_P381 (Z, the 11-isogeny, x): accepted iff the  *)
(* construction of this module, fed the RFC's field elements, yields the RFC's point - a check of the     *)
(* spec AND of the library's constants against the standard suite (big-endian bytes).                      *)
RfcU0 == <<11, 161, 75, 217, 7, 173, 100, 160, 22, 41, 62, 231, 194, 210, 118, 184, 234, 231, 31, 37, 164, 185,
         65, 238, 206, 123, 13, 137, 241, 127, 117, 203, 58, 229, 67, 138, 97, 79, 182, 29, 104, 53, 173, 89,
         242, 156, 86, 79>>
RfcU1 == <<1, 155, 155, 215, 151, 159, 18, 101, 121, 118, 222, 40, 132, 199, 204, 225, 146, 184, 44, 23, 124,
         128, 224, 236, 96, 68, 54, 167, 245, 56, 210, 49, 85, 47, 13, 150, 217, 247, 186, 190, 95, 163, 177,
         155, 63, 242, 90, 201>>
RfcPx == <<5, 41, 38, 173, 210, 32, 123, 118, 202, 79, 165, 122, 135, 52, 65, 108, 141, 201, 94, 36, 80, 23, 114,
         200, 20, 39, 135, 0, 238, 214, 209, 228, 232, 207, 98, 217, 192, 157, 176, 250, 195, 73, 97, 43, 117,
         158, 121, 161>>
RfcPy == <<8, 186, 115, 132, 83, 191, 237, 9, 203, 84, 109, 187, 7, 131, 219, 179, 165, 241, 245, 102, 237, 103,
         187, 107, 224, 232, 198, 126, 46, 129, 164, 204, 104, 238, 41, 129, 59, 183, 153, 73, 152, 243, 234,
         224, 201, 198, 162, 101>>
RfcVectorOk(e) ==
    LET pad == <<0, 0, 0, 0, 0, 0, 0, 0, 0, 0, 0, 0, 0, 0, 0, 0>>
        r == FromUniform1(e, pad \o RfcU0 \o pad \o RfcU1)
    IN  Lpe(e) = 64 /\ r.ok /\ PEq(r.pt, Pt(BFromBE(RfcPx), BFromBE(RfcPy)))

(* ------------------------------------------------------------ acceptance *)
EpMsgOps == {"ep_map", "ep_map_sswum", "ep_map_basic", "ep_map_swift"}
(* ep_map / ep2_map are macros for the build's default routine *)
OpOf(e) ==
    IF e.op = "ep_map" THEN
        (IF e.defmap = e.BASIC THEN "ep_map_basic" ELSE IF e.defmap = e.SWIFT THEN "ep_map_swift" ELSE "ep_map_sswum")
    ELSE IF e.op = "ep2_map" THEN
        (IF e.defmap = e.BASIC THEN "ep2_map_basic" ELSE IF e.defmap = e.SWIFT THEN "ep2_map_swift" ELSE "ep2_map_sswum")
    ELSE e.op
As(e, op) == [e EXCEPT !.op = op]

MapAcceptOp(e) ==
    CASE e.op = "map_params" -> ParamsOk1(e)
      [] e.op = "map_params2" -> ParamsOk2(e)
      [] e.op = "ep_map_sswum" ->
            LET x == XmdOf(e, e.msg, 2 * Lpe(e)) IN
            x.ok /\ Clean(e) /\ Same(e) /\ Valid1(e) /\ Is1(e, FromUniform1(e, x.out))
      [] e.op = "ep_map_basic" ->
            LET x == XmdOf(e, e.msg, Lpe(e)) IN
            x.ok /\ Clean(e) /\ Same(e) /\ Valid1(e) /\ IsPm1(e, Basic1(e, FpOf(e, x.out)))
      [] e.op = "ep_map_swift" ->
            IF ~SwiftDefined(e) THEN Refused(e)
            ELSE LET x == XmdOf(e, e.msg, 2 * Lpe(e) + 1) IN
                 x.ok /\ Clean(e) /\ Same(e) /\ Valid1(e) /\ Is1(e, SwiftFrom(e, x.out, 2 * Lpe(e) + 1))
      [] e.op = "ep_map_rnd" ->
            IF Len(e.rnd) < e.rndsz THEN Refused(e)
            ELSE IF e.defmap = e.SSWUM THEN
                Clean(e) /\ Same(e) /\ Valid1(e) /\ Is1(e, FromUniform1(e, e.rnd))
            ELSE IF e.defmap = e.BASIC THEN
                Clean(e) /\ Same(e) /\ Valid1(e) /\ IsPm1(e, Basic1(e, FpOf(e, e.rnd)))
            ELSE IF ~SwiftDefined(e) THEN Refused(e)
            ELSE Clean(e) /\ Same(e) /\ Valid1(e) /\ Is1(e, SwiftFrom(e, e.rnd, Len(e.rnd)))
      [] e.op = "ep2_map_sswum" ->
            LET x == XmdOf(e, e.msg, 4 * Lpe(e)) IN
            x.ok /\ Clean(e) /\ Same(e) /\ Valid2(e) /\ Is2(e, FromUniform2(e, x.out))
      [] e.op = "ep2_map_basic" ->
            Clean(e) /\ Same(e) /\ Valid2(e) /\ IsPm2(e, Basic2(e))
      [] e.op = "ep2_map_swift" -> Clean(e) /\ Same(e) /\ Valid2(e)           \* validity only
      [] e.op \in {"ed_map", "ed_map_dst"} ->
            IF Len(e.dst) > 255 THEN Refused(e) ELSE Clean(e) /\ Same(e) /\ ValidEd(e) /\ IsEd(e, EdFromMsg(e))
      [] e.op = "eb_map" -> Clean(e) /\ Same(e) /\ ValidEb(e) /\ IsPmEb(e, BasicEb(e))
      [] e.op = "rfc9380_bls12381g1" -> Clean(e) /\ RfcVectorOk(e)
      [] e.op = "restart" -> TRUE
      [] OTHER -> FALSE
MapAccept(e) == MapAcceptOp(As(e, OpOf(e)))

(***************************************************************************)
(* Known findings (/verif/known_findings.json)                             *)
(***************************************************************************)
(* C13-sswu-z-criterion4: the search loop for the SSWU constant Z in         *)
(* ep_curve_set_map (src/ep/relic_ep_curve.c) means to test that           *)
(* g(b/(Z a)) is a square (RFC 9380 6.6.2, criterion 4) but evaluates      *)
(* (x^2 + a) Z + b instead of (x^2 + a) x + b for x = b/(Z a), so the Z it *)
(* stops at need not meet the criterion (SM2_P256: Z = 13,                 *)
(* g(b/(13 a)) a non-square).  With such a Z the map has no image at the   *)
(* exceptional elements (Z^2 u^4 + Z u^2 = 0, i.e. u = 0 or Z u^2 = -1):   *)
(* the straight-line program falls into its second branch and returns      *)
(* (Z u^2 x1, sqrt((Z u^2)^3 g(x1))), which is not a point of the curve    *)
(* ((0, 0) for u = 0).  Keyed to: the map_params event of a curve whose Z  *)
(* fails exactly this criterion (all other relations hold), and direct-    *)
(* entry / message events on such a curve in which one of the two field    *)
(* elements is exceptional and the call returned normally, twice the same. *)
ExceptionalSswu(e, u) ==
    LET p == FPrime(e)
        zu2 == FMul(Map1(e).Z, FSqr(u, p), p)
    IN  FAdd(FSqr(zu2, p), zu2, p) = <<>>
ZFailsCrit4(e) ==
    LET m == Map1(e)
        p == FPrime(e)
        A == IF m.ctmap THEN m.iso.a ELSE m.A
        B == IF m.ctmap THEN m.iso.b ELSE m.B
    IN  (m.ctmap \/ m.sswu) /\ ~FIsSquare(Gx(F1(e), A, B, FMul(B, FInv(FMul(m.Z, A, p), p), p)), p)
SomeExceptional(e, s) ==
    Len(s) >= 2 * Lpe(e) /\ (ExceptionalSswu(e, FpOf(e, Chunk(s, 0, Lpe(e)))) \/ ExceptionalSswu(e, FpOf(e, Chunk(s, 1, Lpe(e)))))
(* C13-swift-exceptional-uninitialised: in the a = 0 branch of              *)
(* ep_map_swift_impl (src/ep/relic_ep_map.c) the exceptional case w = 2 h3 *)
(* h8 = 0 (t1 = 0, t2 = 0 or t1^3 + b + t2^2 = 0) calls ep_set_infty(p)    *)
(* and then falls through to the candidate selection, which reads x2 and   *)
(* x3 although they were never assigned: the call throws or returns a      *)
(* point computed from stack contents, and two calls with the same input   *)
(* disagree.  Reachable through ep_map_rnd in builds with EP_MAP = SWIFT   *)
(* (and through ep_map_swift for a message expanding to such t1, t2).      *)
(* Keyed to: SwiftEC defined on the curve, w = 0 for the decoded t1, t2,   *)
(* no crash.                                                               *)
SwiftW0(e, s, len) ==
    LET c  == Crv(e)
        p  == c.p
        hl == len \div 2
        t1 == FpOf(e, SubSeq(s, 1, hl))
        t2 == FpOf(e, SubSeq(s, hl + 1, 2 * hl))
        h3 == FAdd(FAdd(FMul(FSqr(t1, p), t1, p), c.b, p), FSqr(t2, p), p)
    IN  t1 = <<>> \/ t2 = <<>> \/ h3 = <<>>
MapKnownKeyOp(e) ==
    CASE e.op = "ep_map_rnd" /\ e.defmap = e.SWIFT /\ Len(e.rnd) >= e.rndsz /\ SwiftDefined(e)
         /\ SwiftW0(e, e.rnd, Len(e.rnd)) /\ e.crash = 0 -> "C13-swift-exceptional-uninitialised"
      [] e.op = "ep_map_swift" /\ SwiftDefined(e) /\ e.crash = 0
         /\ SwiftW0(e, XmdOf(e, e.msg, 2 * Lpe(e) + 1).out, 2 * Lpe(e) + 1) -> "C13-swift-exceptional-uninitialised"
      [] e.op = "map_params" /\ ParamsRel1(e, FALSE) -> "C13-sswu-z-criterion4"
      [] e.op = "ep_map_rnd" /\ e.defmap = e.SSWUM /\ Len(e.rnd) >= e.rndsz /\ ZFailsCrit4(e)
         /\ SomeExceptional(e, e.rnd) /\ Clean(e) /\ Same(e) -> "C13-sswu-z-criterion4"
      [] e.op = "ep_map_sswum" /\ ZFailsCrit4(e) /\ Clean(e) /\ Same(e)
         /\ SomeExceptional(e, XmdOf(e, e.msg, 2 * Lpe(e)).out) -> "C13-sswu-z-criterion4"
      [] OTHER -> ""
MapKnownKey(e) == MapKnownKeyOp(As(e, OpOf(e)))
=============================================================================
