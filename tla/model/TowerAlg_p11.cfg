CONSTANTS p = 11
 nq = 1
SPECIFICATION Spec
INVARIANT Check
CHECK_DEADLOCK FALSE
