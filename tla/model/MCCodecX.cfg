CONSTANTS p = 7
 nq = 1
 qnr2 = 2
 phases = {"cyc", "str", "any"}
 alpha = {0, 1, 6, 7}
 chunk = 50
SPECIFICATION Spec
INVARIANT Check
CHECK_DEADLOCK FALSE
