------------------------------- MODULE EncSpec -------------------------------
(***************************************************************************)
(* C06 - call-level specification of the encryption schemes, key           *)
(* agreements and sharing protocols.  An event e (harness/drv_enc.c) is    *)
(* one call or one short protocol run with everything it was given, the    *)
(* PRIVATE KEY the key generator returned, and what came back.  The event  *)
(* is accepted iff the scheme's DEFINITION - written here over lib/BigNat, *)
(* lib/Curve and the transcribed SHA-256 / KDF2 / MGF1 / HMAC / AES-CBC of *)
(* tla/lib, never another routine of the library - explains it:            *)
(*   RSA      RFC 8017: RSADP (c < n, |c| = k), EME-OAEP (7.1), EME-PKCS1- *)
(*            v1_5 (7.2), the library's "basic" block 00..00 FF M          *)
(*   Rabin    c = x^2 mod n with x = 00 .. FF M suffix (suffix = the last  *)
(*            8 bytes of FF M repeated), decoded over the four roots       *)
(*   Paillier (g = 1 + n), Damgaard-Jurik (n^(s+1)), subgroup variant:     *)
(*            m = L(c^x mod n^2) / L(g^x mod n^2) mod n                    *)
(*   Benaloh  c^T = (y^T)^m mod n, T = phi / t                             *)
(*   ECDH     K = KDF2(x([h d_A] Q_B));  ECMQV (implicit signatures, avf)  *)
(*   ECIES    KDF2(x([d]R)) = Ke || Km, AES-CBC-PKCS7 under Ke with zero   *)
(*            IV, tag = HMAC-SHA-256(Km, ciphertext)                       *)
(*   Shamir   Lagrange interpolation at 0 over Z_q; Beaver triples         *)
(* A decryption of a mutated ciphertext is judged by the same definition:  *)
(* the spec decides whether the mutant is valid; if not, the call must     *)
(* report an error, end normally and leave the output buffer untouched.    *)
(***************************************************************************)
EXTENDS BigInt, Curve

H == INSTANCE EncHash

BnVal(x) == BNorm(x.d)
NonNeg(x) == x.s = 0 \/ BNorm(x.d) = <<>>
One == <<1>>
Dec1(a) == BSub(a, One)

(* the call succeeded / was refused.  A refusal is an error return or a thrown error; a success is clean. *)
Succ(e) == e.ret = 0 /\ e.err = 0 /\ e.code = 0
Refused(e) == e.ret = 1 \/ e.err # 0

Ok(m) == [ok |-> TRUE, m |-> m]
Bad == [ok |-> FALSE, m |-> <<>>]

RECURSIVE FirstNonZero(_, _)
FirstNonZero(s, i) == IF i > Len(s) THEN 0 ELSE IF s[i] # 0 THEN i ELSE FirstNonZero(s, i + 1)
RECURSIVE FirstZero(_, _)
FirstZero(s, i) == IF i > Len(s) THEN 0 ELSE IF s[i] = 0 THEN i ELSE FirstZero(s, i + 1)
RECURSIVE NonZeroOnly(_, _)
NonZeroOnly(s, i) == IF i > Len(s) THEN <<>> ELSE (IF s[i] # 0 THEN <<s[i]>> ELSE <<>>) \o NonZeroOnly(s, i + 1)
Rest(s, i) == SubSeq(s, i, Len(s))

(* verdict of a decryption call against the definition's verdict def = [ok, m].                       *)
(* A refusal may have left at most `wr` in the output area: 0 = untouched, 1 = zero bytes only (cleared), *)
(* 2 = anything.                                                                                        *)
(* need = an output capacity with which a valid ciphertext must be decrypted; with less (but room for the  *)
(* plaintext) the call may decline; so it may for the empty plaintext, which the encryptors refuse too.  *)
DecVerdictN(e, def, wr, need) ==
    /\ e.crash = 0 /\ e.over = 0
    /\ IF def.ok /\ Len(def.m) <= e.cap
       THEN IF Succ(e) THEN e.olen = Len(def.m) /\ e.out = def.m
            ELSE Refused(e) /\ (e.cap < need \/ def.m = <<>>)     \* (the library's schemes exclude the empty plaintext)
       ELSE Refused(e) /\ e.touched <= wr
    /\ (e.honest = 1 => def.ok /\ def.m = e.m0)
DecVerdict(e, def, wr) == DecVerdictN(e, def, wr, Len(def.m))

(* ====================================================================== RSA *)
HLen == 32
RsaN(e) == BnVal(e.N)
RsaK(e) == BLenBytes(RsaN(e))
(* cheap relations that tie the logged private key to the public key in every event *)
RsaKeyOk(e) ==
    LET N == BnVal(e.N)  P == BnVal(e.P)  Q == BnVal(e.Q)  E == BnVal(e.E)  D == BnVal(e.D) IN
    /\ N = BMul(P, Q) /\ P # Q
    /\ BMulMod(E, D, Dec1(P)) = One /\ BMulMod(E, D, Dec1(Q)) = One
(* the key generator, as coded: two primes of bits/2 bits, p < q, e = 2^16 + 1, d = e^-1 mod (p-1)(q-1), CRT parts *)
RsaGenOk(e) ==
    LET N == BnVal(e.N)  P == BnVal(e.P)  Q == BnVal(e.Q)  E == BnVal(e.E)  D == BnVal(e.D)
        phi == BMul(Dec1(P), Dec1(Q))
    IN  /\ Succ(e) /\ RsaKeyOk(e)
        /\ BIsPrime(P) /\ BIsPrime(Q) /\ BLt(P, Q)
        /\ BBits(P) = e.bits \div 2 /\ BBits(Q) = e.bits \div 2
        /\ E = <<1, 0, 1>>
        /\ BLt(D, phi) /\ BMulMod(E, D, phi) = One
        /\ BnVal(e.DP) = BMod(D, Dec1(P)) /\ BnVal(e.DQ) = BMod(D, Dec1(Q))
        /\ BLt(BnVal(e.QI), P) /\ BMulMod(BnVal(e.QI), Q, P) = One
        /\ BnVal(e.N2) = N
        /\ NonNeg(e.D) /\ NonNeg(e.DP) /\ NonNeg(e.DQ) /\ NonNeg(e.QI)

(* ---- RFC 8017 7.1: EME-OAEP with SHA-256 / MGF1-SHA-256 and the empty label *)
OaepMax(k) == k - 2 * HLen - 2
OaepEncode(m, seed, k) ==
    LET DB == H!LHash256 \o Zeros(k - Len(m) - 2 * HLen - 2) \o <<1>> \o m
        maskedDB == H!StrXor(DB, H!Mgf1Sha256(seed, k - HLen - 1))
        maskedSeed == H!StrXor(seed, H!Mgf1Sha256(maskedDB, HLen))
    IN  <<0>> \o maskedSeed \o maskedDB
OaepDecode(EM, k) ==
    IF k < 2 * HLen + 2 THEN Bad
    ELSE IF EM[1] # 0 THEN Bad                                      \* step 3g: Y nonzero
    ELSE LET maskedSeed == SubSeq(EM, 2, HLen + 1)
             maskedDB == SubSeq(EM, HLen + 2, k)
             seed == H!StrXor(maskedSeed, H!Mgf1Sha256(maskedDB, HLen))
             DB == H!StrXor(maskedDB, H!Mgf1Sha256(seed, k - HLen - 1))
             rest == Rest(DB, HLen + 1)
             j == FirstNonZero(rest, 1)
         IN  IF SubSeq(DB, 1, HLen) # H!LHash256 THEN Bad            \* lHash' # lHash
             ELSE IF j = 0 THEN Bad                                  \* no 01 separator
             ELSE IF rest[j] # 1 THEN Bad
             ELSE Ok(Rest(rest, j + 1))

(* ---- RFC 8017 7.2: EME-PKCS1-v1_5:  EM = 00 02 PS 00 M, PS nonzero, at least 8 bytes *)
Pkcs1Max(k) == k - 11
Pkcs1Encode(m, ps, k) == <<0, 2>> \o ps \o <<0>> \o m
Pkcs1Decode(EM, k) ==
    IF k < 11 THEN Bad
    ELSE IF EM[1] # 0 \/ EM[2] # 2 THEN Bad
    ELSE LET j == FirstZero(EM, 3) IN                                \* the separator
         IF j = 0 THEN Bad
         ELSE IF j - 3 < 8 THEN Bad                                  \* |PS| < 8
         ELSE Ok(Rest(EM, j + 1))

(* ---- the library's "basic" block:  EM = 00 .. 00 FF M  (at least one leading 00) *)
BasicMax(k) == k - 2
BasicEncode(m, k) == Zeros(k - 1 - Len(m)) \o <<255>> \o m
BasicDecode(EM, k) ==
    IF k < 2 \/ EM[1] # 0 THEN Bad
    ELSE LET j == FirstNonZero(EM, 1) IN
         IF j = 0 THEN Bad
         ELSE IF EM[j] # 255 THEN Bad
         ELSE Ok(Rest(EM, j + 1))

PadMax(pad, k) == CASE pad = "oaep" -> OaepMax(k) [] pad = "pkcs1" -> Pkcs1Max(k) [] pad = "basic" -> BasicMax(k)
PadDecode(pad, EM, k) ==
    CASE pad = "oaep" -> OaepDecode(EM, k) [] pad = "pkcs1" -> Pkcs1Decode(EM, k) [] pad = "basic" -> BasicDecode(EM, k)
(* the encoded message the encryption must have produced from the bytes rand_bytes handed out *)
PadEncode(pad, m, rnd, k) ==
    CASE pad = "oaep" -> OaepEncode(m, rnd, k)
      [] pad = "pkcs1" -> Pkcs1Encode(m, SubSeq(NonZeroOnly(rnd, 1), 1, k - 3 - Len(m)), k)
      [] pad = "basic" -> BasicEncode(m, k)
RndOk(pad, m, rnd, rndn, k) ==
    CASE pad = "oaep" -> rndn = 1 /\ Len(rnd) = HLen
      [] pad = "pkcs1" -> rndn = Len(rnd) /\ Len(NonZeroOnly(rnd, 1)) = k - 3 - Len(m) /\ rnd[Len(rnd)] # 0
      [] pad = "basic" -> rndn = 0

(* RSADP + EME decoding of a ciphertext given as a byte string (7.1.2 / 7.2.2 steps 1 - 3) *)
RsaDecOf(e, c) ==
    LET N == RsaN(e)  k == RsaK(e) IN PadDecode(e.pad, BToBE(BModExp(c, BnVal(e.D), N), k), k)
RsaDecDef(e) ==
    LET N == RsaN(e)  k == RsaK(e)  c == BFromBE(e.c) IN
    IF Len(e.c) # k THEN Bad                        \* length check
    ELSE IF ~BLt(c, N) THEN Bad                     \* ciphertext representative out of range
    ELSE RsaDecOf(e, c)
(* A representative c >= n of the right length: RFC 8017 refuses it, the library reduces it.  The property *)
(* names padding, length and authentication only, so both outcomes are admitted: a refusal, or the verdict   *)
(* of the definition on c mod n.                                                                          *)
RsaDecOk(e) ==
    LET N == RsaN(e)  k == RsaK(e)  c == BFromBE(e.c) IN
    /\ e.mdl = HLen /\ RsaKeyOk(e)
    /\ IF Len(e.c) = k /\ ~BLt(c, N) /\ e.honest = 0
       THEN IF DecVerdict(e, Bad, 0) THEN TRUE ELSE DecVerdict(e, RsaDecOf(e, BMod(c, N)), 0)
       ELSE DecVerdict(e, RsaDecDef(e), 0)

RsaEncOk(e) ==
    LET N == RsaN(e)  k == RsaK(e)  c == BFromBE(e.out) IN
    /\ e.mdl = HLen /\ RsaKeyOk(e) /\ e.over = 0 /\ e.crash = 0
    /\ IF Len(e.m) > PadMax(e.pad, k) \/ e.cap < k
       THEN Refused(e) /\ e.touched = 0                     \* too long for the key, or no room for the result
       ELSE IF Len(e.m) = 0 /\ Refused(e) THEN e.touched = 0 \* the library declines the empty plaintext
       ELSE /\ Succ(e) /\ e.olen = k /\ Len(e.out) = k /\ BLt(c, N)
            /\ RndOk(e.pad, e.m, e.rnd, e.rndn, k)
            /\ c = BModExp(BFromBE(PadEncode(e.pad, e.m, e.rnd, k)), BnVal(e.E), N)   \* RSAEP of the defined block
            /\ RsaDecOf(e, c) = Ok(e.m)                                              \* and it inverts

(* ==================================================================== Rabin *)
RabinKeyOk(e) ==
    LET N == BnVal(e.N)  P == BnVal(e.P)  Q == BnVal(e.Q) IN
    N = BMul(P, Q) /\ P # Q /\ BMod(P, <<4>>) = <<3>> /\ BMod(Q, <<4>>) = <<3>>
RabinGenOk(e) ==
    /\ Succ(e) /\ RabinKeyOk(e) /\ BIsPrime(BnVal(e.P)) /\ BIsPrime(BnVal(e.Q))
    /\ BBits(BnVal(e.P)) = e.bits \div 2 /\ BBits(BnVal(e.Q)) = e.bits \div 2 /\ BnVal(e.NP) = BnVal(e.N)
RabinMax(k) == k - 10
(* the redundant block for message m: x = FF m || (last 8 bytes of FF m), as an integer *)
RabinBlock(m) ==
    LET fm == BFromBE(<<255>> \o m) IN BAdd(BShl(fm, 64), BLow(fm, 64))
(* decode a candidate root x (an integer below n) as a k-byte block 00 .. 00 FF M suffix *)
RabinDecode(x, k) ==
    LET fm == BShr(x, 64)
        EM == BToBE(fm, k - 8)
        j == FirstNonZero(EM, 1)
    IN  IF BLenBytes(x) > k - 1 THEN Bad                              \* leading 00
        ELSE IF BLow(x, 64) # BLow(fm, 64) THEN Bad                   \* redundancy
        ELSE IF j = 0 THEN Bad
        ELSE IF EM[j] # 255 THEN Bad
        ELSE Ok(Rest(EM, j + 1))
(* the square roots of c modulo n = p q, p = q = 3 mod 4 (those of the four candidates that ARE roots) *)
RabinRoots(c, P, Q) ==
    LET N == BMul(P, Q)
        rp == BModExp(c, BShr(BAdd(P, One), 2), P)
        rq == BModExp(c, BShr(BAdd(Q, One), 2), Q)
        ap == BMulMod(BMul(Q, BModInv(Q, P)), rp, N)                  \* = rp mod p, 0 mod q
        aq == BMulMod(BMul(P, BModInv(P, Q)), rq, N)
        x1 == BAddMod(ap, aq, N)
        x2 == BSubMod(ap, aq, N)
        cand == {x1, BSubMod(<<>>, x1, N), x2, BSubMod(<<>>, x2, N)}
    IN  {x \in cand : BMulMod(x, x, N) = BMod(c, N)}
RabinValidSet(e, c) ==
    LET k == BLenBytes(BnVal(e.N)) IN
    {RabinDecode(x, k) : x \in RabinRoots(c, BnVal(e.P), BnVal(e.Q))} \ {Bad}
RabinDecDef(e) ==
    LET N == BnVal(e.N)  k == BLenBytes(N)  c == BFromBE(e.c) IN
    IF Len(e.c) # k \/ ~BLt(c, N) THEN {} ELSE RabinValidSet(e, c)
RabinDecOk(e) ==
    LET S == RabinDecDef(e) IN
    /\ RabinKeyOk(e)
    /\ IF S = {} THEN DecVerdict(e, Bad, 1)          \* the refusing path clears the buffer
       ELSE \E d \in S : DecVerdict(e, d, 1)
RabinEncOk(e) ==
    LET N == BnVal(e.N)  k == BLenBytes(N)  c == BFromBE(e.out) IN
    /\ RabinKeyOk(e) /\ e.over = 0 /\ e.crash = 0
    /\ IF Len(e.m) > RabinMax(k) \/ e.cap < k
       THEN Refused(e) /\ e.touched = 0
       ELSE IF Len(e.m) = 0 /\ Refused(e) THEN e.touched = 0
       ELSE /\ Succ(e) /\ e.olen = k /\ Len(e.out) = k
            /\ c = BModExp(RabinBlock(e.m), <<2>>, N)
            /\ Ok(e.m) \in RabinValidSet(e, c)

(* ================================================================= Paillier *)
LFun(u, n) == BDiv(Dec1(u), n)
(* m = L(c^x mod n^2) / L(g^x mod n^2) mod n; defined when c^x = 1 mod n *)
PaillierDec(c, x, g, n) ==
    LET n2 == BMul(n, n)
        u == BModExp(c, x, n2)
        v == BModExp(g, x, n2)
    IN  IF BMod(u, n) # One \/ BMod(v, n) # One THEN <<0>>                         \* not a normalised integer: equals no plaintext
        ELSE BMulMod(LFun(u, n), BModInv(LFun(v, n), n), n)
PhpeKeyOk(e) == LET N == BnVal(e.N)  P == BnVal(e.P)  Q == BnVal(e.Q) IN N = BMul(P, Q) /\ P # Q
PhpeGenOk(e) ==
    /\ Succ(e) /\ PhpeKeyOk(e) /\ BIsPrime(BnVal(e.P)) /\ BIsPrime(BnVal(e.Q))
    /\ BBits(BnVal(e.P)) = e.bits \div 2 /\ BBits(BnVal(e.Q)) = e.bits \div 2 /\ BnVal(e.NP) = BnVal(e.N)
AllNonNeg(e) == NonNeg(e.c1) /\ NonNeg(e.c2) /\ NonNeg(e.c3) /\ NonNeg(e.d1) /\ NonNeg(e.d2) /\ NonNeg(e.d3)
(* two encryptions, their homomorphic combination, three decryptions *)
HomOk(e, N, M, dec(_)) ==
    LET m1 == BnVal(e.m1)  m2 == BnVal(e.m2) IN
    /\ Succ(e) /\ AllNonNeg(e)
    /\ BLt(m1, M) /\ BLt(m2, M)                                     \* admitted plaintexts
    /\ BLt(BnVal(e.c1), N) /\ BLt(BnVal(e.c2), N)
    /\ dec(BnVal(e.c1)) = m1 /\ dec(BnVal(e.c2)) = m2               \* the ciphertexts decrypt BY DEFINITION to the plaintexts
    /\ BnVal(e.d1) = m1 /\ BnVal(e.d2) = m2                         \* and the library's decryption returns them
    /\ BnVal(e.c3) = BMulMod(BnVal(e.c1), BnVal(e.c2), N)           \* combination
    /\ dec(BnVal(e.c3)) = BAddMod(m1, m2, M)
    /\ BnVal(e.d3) = BAddMod(m1, m2, M)                             \* incl. sums that wrap
PhpeOk(e) ==
    LET N == BnVal(e.N)
        lam == BMul(Dec1(BnVal(e.P)), Dec1(BnVal(e.Q)))
    IN  PhpeKeyOk(e) /\ HomOk(e, BMul(N, N), N, LAMBDA c : PaillierDec(c, lam, BAdd(N, One), N))

(* subgroup variant: g = (1 + n)^b mod n^2 with a b = (p - 1)(q - 1), a a prime factor of p - 1 *)
ShpeKeyOk(e) ==
    LET N == BnVal(e.N)  P == BnVal(e.P)  Q == BnVal(e.Q)  A == BnVal(e.A)
        lam == BMul(Dec1(P), Dec1(Q))
    IN  /\ N = BMul(P, Q) /\ P # Q /\ BMod(Dec1(P), A) = <<>> /\ A # <<>>
        /\ BnVal(e.G) = BModExp(BAdd(N, One), BDiv(lam, A), BMul(N, N))
ShpeGenOk(e) ==
    /\ Succ(e) /\ ShpeKeyOk(e) /\ BIsPrime(BnVal(e.P)) /\ BIsPrime(BnVal(e.Q)) /\ BIsPrime(BnVal(e.A))
    /\ BBits(BnVal(e.A)) = e.sbits /\ BBits(BnVal(e.P)) = e.bits \div 2 /\ BBits(BnVal(e.Q)) = e.bits \div 2
    /\ BnVal(e.B) = BDiv(BMul(Dec1(BnVal(e.P)), Dec1(BnVal(e.Q))), BnVal(e.A))
    /\ BnVal(e.GN) = BModExp(BnVal(e.G), BnVal(e.N), BMul(BnVal(e.N), BnVal(e.N)))
    /\ BnVal(e.NP) = BnVal(e.N) /\ BnVal(e.GP) = BnVal(e.G)
ShpeOk(e) ==
    LET N == BnVal(e.N) IN
    ShpeKeyOk(e) /\ HomOk(e, BMul(N, N), N, LAMBDA c : PaillierDec(c, BnVal(e.A), BnVal(e.G), N))

(* Damgaard-Jurik: c = (1 + n)^m r^(n^s) mod n^(s+1); with the private exponent L (a multiple of the order of   *)
(* the r-part, prime to n) the plaintext is THE m < n^s with c^L = (1 + n)^(m L) mod n^(s+1)                    *)
RECURSIVE BPow(_, _)
BPow(a, k) == IF k = 0 THEN One ELSE BMul(a, BPow(a, k - 1))
GhpeDecIs(c, m, L, N, s) ==
    LET Ns == BPow(N, s)  Ns1 == BMul(Ns, N) IN
    /\ BLt(m, Ns)
    /\ BModExp(c, L, Ns1) = BModExp(BAdd(N, One), BMulMod(m, L, Ns), Ns1)
(* the generator returns n and L = (p - 1)(q - 1): p + q = n - L + 1 recovers the factors *)
GhpeGenOk(e) ==
    LET N == BnVal(e.N)  L == BnVal(e.L)
        sum == BAdd(BSub(N, L), One)
        disc == BSub(BMul(sum, sum), BShl(N, 2))
        rt == BSqrt(disc)
        P == BShr(BSub(sum, rt), 1)  Q == BShr(BAdd(sum, rt), 1)
    IN  /\ Succ(e) /\ BLt(L, N) /\ BLe(BShl(N, 2), BMul(sum, sum)) /\ BMul(rt, rt) = disc
        /\ N = BMul(P, Q) /\ P # Q /\ BIsPrime(P) /\ BIsPrime(Q)
        /\ BMod(P, <<4>>) = <<3>> /\ BMod(Q, <<4>>) = <<3>>
        /\ BBits(P) = e.bits \div 2 /\ BBits(Q) = e.bits \div 2
(* everything but the library's decryptions: admitted plaintexts, ciphertexts that decrypt by definition, combination *)
GhpeEncPart(e) ==
    LET N == BnVal(e.N)  L == BnVal(e.L)  s == e.s
        Ns == BPow(N, s)  Ns1 == BMul(Ns, N)
        m1 == BnVal(e.m1)  m2 == BnVal(e.m2)
    IN  /\ Succ(e) /\ AllNonNeg(e) /\ s >= 1
        /\ BGcd(L, N) = One
        /\ BLt(m1, Ns) /\ BLt(m2, Ns)
        /\ BLt(BnVal(e.c1), Ns1) /\ BLt(BnVal(e.c2), Ns1)
        /\ GhpeDecIs(BnVal(e.c1), m1, L, N, s) /\ GhpeDecIs(BnVal(e.c2), m2, L, N, s)
        /\ BnVal(e.c3) = BMulMod(BnVal(e.c1), BnVal(e.c2), Ns1)
        /\ GhpeDecIs(BnVal(e.c3), BAddMod(m1, m2, Ns), L, N, s)
GhpeDecPart(e) ==
    LET Ns == BPow(BnVal(e.N), e.s)  m1 == BnVal(e.m1)  m2 == BnVal(e.m2) IN
    BnVal(e.d1) = m1 /\ BnVal(e.d2) = m2 /\ BnVal(e.d3) = BAddMod(m1, m2, Ns)
GhpeOk(e) == GhpeEncPart(e) /\ GhpeDecPart(e)

(* ================================================================== Benaloh *)
BdpeT(e) == BDiv(BMul(Dec1(BnVal(e.P)), Dec1(BnVal(e.Q))), BFromNat(e.t))
BdpeKeyOk(e) ==
    LET N == BnVal(e.N)  P == BnVal(e.P)  Q == BnVal(e.Q)  t == BFromNat(e.t) IN
    /\ N = BMul(P, Q) /\ P # Q /\ BIsPrime(t)
    /\ BMod(Dec1(P), t) = <<>>                                     \* t | p - 1
    /\ BGcd(BDiv(Dec1(P), t), t) = One /\ BGcd(Dec1(Q), t) = One   \* exactly once
    /\ BModExp(BnVal(e.Y), BdpeT(e), N) # One                      \* y^(phi / t) # 1: order t
    /\ BGcd(BnVal(e.Y), N) = One
BdpeGenOk(e) ==
    /\ Succ(e) /\ BdpeKeyOk(e) /\ BIsPrime(BnVal(e.P)) /\ BIsPrime(BnVal(e.Q))
    /\ e.t = e.block /\ e.tp = e.block /\ BnVal(e.NP) = BnVal(e.N) /\ BnVal(e.YP) = BnVal(e.Y)
(* c decrypts to m: c^T = (y^T)^m, 0 <= m < t *)
BdpeDecIs(e, c, m) ==
    LET N == BnVal(e.N)  T == BdpeT(e) IN
    m >= 0 /\ m < e.t /\ BModExp(c, T, N) = BModExp(BModExp(BnVal(e.Y), T, N), BFromNat(m), N)
BdpeEncOk(e) ==
    LET k == BLenBytes(BnVal(e.N)) IN
    /\ BdpeKeyOk(e)
    /\ IF e.m1 < e.t /\ e.m2 < e.t
       THEN /\ Succ(e) /\ Len(e.c1) = k /\ Len(e.c2) = k
            /\ BLt(BFromBE(e.c1), BnVal(e.N)) /\ BLt(BFromBE(e.c2), BnVal(e.N))
            /\ BdpeDecIs(e, BFromBE(e.c1), e.m1) /\ BdpeDecIs(e, BFromBE(e.c2), e.m2)
       ELSE TRUE                                                   \* outside the plaintext space: not judged
BdpeDecOk(e) ==
    LET N == BnVal(e.N)  k == BLenBytes(N)  c == BFromBE(e.c) IN
    /\ BdpeKeyOk(e) /\ e.crash = 0
    /\ IF Len(e.c) # k \/ ~BLt(c, N) \/ BGcd(c, N) # One
       THEN Refused(e) /\ e.honest = 0
       ELSE /\ Succ(e) /\ BdpeDecIs(e, c, e.m)
            /\ (e.honest = 1 => e.m = e.m0)

(* ============================================================ elliptic curves *)
Crv(e) == [p |-> BNorm(e.p), a |-> BNorm(e.ca), b |-> BNorm(e.cb)]
PtV(P) == IF P.inf = 1 THEN PInf ELSE Pt(BNorm(P.x), BNorm(P.y))
ValidPt(P, c) == ~P.inf /\ OnCurve(P, c)
(* minimal big-endian form of an integer, as bn_write_bin(bn_size_bin) gives it (one zero byte for 0) *)
MinBE(x) == IF BNorm(x) = <<>> THEN <<0>> ELSE BToBE(x, BLenBytes(x))
CurveOk(e) == LET c == Crv(e) IN ValidPt(PtV(e.G), c) /\ BIsPrime(c.p)
EcKeyOk(e, d, Q) ==
    /\ NonNeg(d) /\ BLt(BnVal(d), BnVal(e.n))
    /\ PEq(PtV(Q), PMulNat(BnVal(d), PtV(e.G), Crv(e)))
EcGenOk(e) == Succ(e) /\ CurveOk(e) /\ EcKeyOk(e, e.d, e.Q)

(* ECDH with cofactor multiplication and KDF2-SHA-256 of the x-coordinate (written without leading zero bytes, *)
(* as the library does) *)
EcdhDef(d, Q, e) ==
    LET c == Crv(e)
        S == PMulNat(d, PMulNat(BnVal(e.h), Q, c), c)
    IN  IF S.inf THEN Bad ELSE Ok(H!Kdf2Sha256(MinBE(S.x), e.klen))
EcdhOk(e) ==
    LET kA == EcdhDef(BnVal(e.dA), PtV(e.QB), e) IN
    /\ Succ(e) /\ e.over = 0 /\ CurveOk(e)
    /\ EcKeyOk(e, e.dA, e.QA) /\ EcKeyOk(e, e.dB, e.QB)
    /\ kA.ok /\ e.kA = kA.m
    /\ e.kB = EcdhDef(BnVal(e.dB), PtV(e.QA), e).m
    /\ e.kA = e.kB

(* ECMQV (IEEE 1363 / SP 800-56A): avf(R) = (x_R mod 2^f) + 2^f, f = ceil(bits(n) / 2);                        *)
(* s = e_own + avf(R_own) d_own mod n;  P = [h s](R_peer + [avf(R_peer)] Q_peer);  K = KDF2(x_P)                *)
Avf(R, n) == LET f == (BBits(n) + 1) \div 2 IN BAdd(BLow(R.x, f), BShl(One, f))
MqvDef(ds, de, Rown, Qpeer, Rpeer, e) ==
    LET c == Crv(e)  n == BnVal(e.n)
        s == BAddMod(de, BMulMod(Avf(Rown, n), ds, n), n)
        P == PMulNat(BMulMod(s, BnVal(e.h), n), PAdd(Rpeer, PMulNat(Avf(Rpeer, n), Qpeer, c), c), c)
    IN  IF P.inf THEN Bad ELSE Ok(H!Kdf2Sha256(MinBE(P.x), e.klen))
EcmqvOk(e) ==
    LET kA == MqvDef(BnVal(e.dA), BnVal(e.eA), PtV(e.RA), PtV(e.QB), PtV(e.RB), e) IN
    /\ Succ(e) /\ e.over = 0 /\ CurveOk(e)
    /\ EcKeyOk(e, e.dA, e.QA) /\ EcKeyOk(e, e.dB, e.QB) /\ EcKeyOk(e, e.eA, e.RA) /\ EcKeyOk(e, e.eB, e.RB)
    /\ kA.ok /\ e.kA = kA.m
    /\ e.kB = MqvDef(BnVal(e.dB), BnVal(e.eB), PtV(e.RB), PtV(e.QA), PtV(e.RA), e).m
    /\ e.kA = e.kB

(* ECIES: Z = x([d]R) as the library writes it (a 00 byte in front when the top bit of the leading byte is set), *)
(* Ke || Km = KDF2-SHA-256(Z, 2 ksz), AES-CBC-PKCS7 under Ke with the zero IV, tag = HMAC-SHA-256(Km, ct)       *)
EciesZ(x) == IF BBits(x) % 8 = 0 THEN <<0>> \o MinBE(x) ELSE MinBE(x)
EciesKeys(d, R, e) ==
    LET S == PMulNat(d, R, Crv(e))
        kk == H!Kdf2Sha256(EciesZ(S.x), 2 * e.ksz)
    IN  [inf |-> S.inf, ke |-> SubSeq(kk, 1, e.ksz), km |-> SubSeq(kk, e.ksz + 1, 2 * e.ksz)]
EciesEncOk(e) ==
    LET R == PtV(e.R)
        K == EciesKeys(BnVal(e.d), R, e)
        ctl == 16 * (Len(e.m) \div 16 + 1)
    IN  /\ e.mdl = 32 /\ e.ksz \in {16, 24, 32} /\ CurveOk(e) /\ EcKeyOk(e, e.d, e.Q) /\ e.over = 0 /\ e.crash = 0
        /\ IF e.cap < ctl + e.mdl THEN Refused(e)
           ELSE /\ Succ(e) /\ ValidPt(R, Crv(e)) /\ ~K.inf
                /\ e.olen = ctl + e.mdl
                /\ LET ct == H!AesCbcPkcs7Enc(K.ke, H!Zero16, e.m) IN
                   e.out = ct \o H!HmacSha256(K.km, ct)
(* which of the three ways a ciphertext is judged: structurally invalid, not authentic, authentic *)
EciesDecDef(e) ==
    LET R == PtV(e.R)
        n == Len(e.c)
    IN  IF ~ValidPt(R, Crv(e)) THEN [cls |-> "point", r |-> Bad]
        ELSE IF n < e.mdl THEN [cls |-> "short", r |-> Bad]
        ELSE LET K == EciesKeys(BnVal(e.d), R, e)
                 ct == SubSeq(e.c, 1, n - e.mdl)
                 tag == SubSeq(e.c, n - e.mdl + 1, n)
             IN  IF K.inf THEN [cls |-> "point", r |-> Bad]
                 ELSE IF tag # H!HmacSha256(K.km, ct) THEN [cls |-> "tag", r |-> Bad]
                 ELSE LET p == H!AesCbcPkcs7Dec(K.ke, H!Zero16, ct) IN
                      [cls |-> "auth", r |-> IF p.ok THEN Ok(p.pt) ELSE Bad]
(* an authentic ciphertext whose padding is wrong may have been deciphered into the buffer before the refusal; *)
(* everything that fails authentication must leave the buffer untouched                                        *)
EciesDecOk(e) ==
    LET D == EciesDecDef(e) IN
    /\ e.mdl = 32 /\ e.ksz \in {16, 24, 32} /\ CurveOk(e) /\ NonNeg(e.d)
    /\ DecVerdictN(e, D.r, IF D.cls = "auth" THEN 2 ELSE 0, Len(e.c) - e.mdl)       \* the library asks for room for the whole ciphertext
    /\ (D.cls = "auth" /\ D.r.ok /\ Len(D.r.m) > e.cap => e.touched = 0)

(* ======================================================== Shamir, Beaver triples *)
(* Lagrange interpolation at 0 over Z_q of the points (x[i], y[i]), i in idx (a sequence of indices) *)
RECURSIVE LagCoef(_, _, _, _, _)
LagCoef(x, idx, i, m, q) ==
    IF m > Len(idx) THEN One
    ELSE IF m = i THEN LagCoef(x, idx, i, m + 1, q)
    ELSE LET xm == x[idx[m]]  xi == x[idx[i]] IN
         BMulMod(BMulMod(xm, BModInv(BSubMod(xm, xi, q), q), q), LagCoef(x, idx, i, m + 1, q), q)
RECURSIVE LagSum(_, _, _, _, _)
LagSum(x, y, idx, i, q) ==
    IF i > Len(idx) THEN <<>>
    ELSE BAddMod(BMulMod(y[idx[i]], LagCoef(x, idx, i, 1, q), q), LagSum(x, y, idx, i + 1, q), q)
Interp0(x, y, idx, q) == LagSum(x, y, idx, 1, q)
RECURSIVE ValsOf(_, _)
ValsOf(s, i) == IF i > Len(s) THEN <<>> ELSE <<BnVal(s[i])>> \o ValsOf(s, i + 1)
SssOk(e) ==
    LET q == BnVal(e.q)
        x == ValsOf(e.x, 1)  y == ValsOf(e.y, 1)
        sec == BMod(BnVal(e.secret), q)
    IN  IF e.k < 2 \/ e.n < e.k
        THEN Refused(e)
        ELSE /\ Succ(e) /\ Len(x) = e.n /\ Len(y) = e.n /\ BIsPrime(q)
             /\ \A i \in 1..e.n : x[i] # <<>> /\ BLt(x[i], q) /\ BLt(y[i], q) /\ NonNeg(e.x[i]) /\ NonNeg(e.y[i])
             /\ \A i, j \in 1..e.n : i # j => x[i] # x[j]
             /\ Len(e.recs) > 0
             /\ \A r \in 1..Len(e.recs) :
                   LET rec == e.recs[r] IN
                   /\ rec.ret = 0 /\ rec.err = 0 /\ NonNeg(rec.key)
                   /\ BnVal(rec.key) = Interp0(x, y, rec.idx, q)                \* the function is interpolation at 0
                   /\ (Len(rec.idx) = e.k => BnVal(rec.key) = sec)              \* every qualifying subset reconstructs
                   /\ (e.op = "sssx" /\ Len(rec.idx) > e.k => BnVal(rec.key) = sec) \* ... and so does every superset (C06_EXT)
(* Beaver multiplication: triple relation, local openings, broadcast, product shares *)
MtOk(e) ==
    LET q == BnVal(e.q)
        V(s, i) == BnVal(s[i])
        a == BAddMod(V(e.ta, 1), V(e.ta, 2), q)  b == BAddMod(V(e.tb, 1), V(e.tb, 2), q)
        d == BAddMod(V(e.dl, 1), V(e.dl, 2), q)  ee == BAddMod(V(e.el, 1), V(e.el, 2), q)
        share(i) == BAddMod(BAddMod(BMulMod(V(e.ta, i), ee, q), BMulMod(d, V(e.tb, i), q), q),
                            BAddMod(V(e.tc, i), IF i = 1 THEN BMulMod(d, ee, q) ELSE <<>>, q), q)
    IN  /\ e.err = 0 /\ e.code = 0
        /\ \A i \in 1..2 : /\ BLt(V(e.ta, i), q) /\ BLt(V(e.tb, i), q) /\ BLt(V(e.tc, i), q)
                           /\ NonNeg(e.ta[i]) /\ NonNeg(e.tb[i]) /\ NonNeg(e.tc[i])
                           /\ NonNeg(e.dl[i]) /\ NonNeg(e.el[i]) /\ NonNeg(e.r[i])
        /\ BAddMod(V(e.tc, 1), V(e.tc, 2), q) = BMulMod(a, b, q)                        \* c = a b
        /\ BAddMod(V(e.xs, 1), V(e.xs, 2), q) = BMod(BnVal(e.x), q)
        /\ BAddMod(V(e.ys, 1), V(e.ys, 2), q) = BMod(BnVal(e.y), q)
        /\ \A i \in 1..2 : /\ V(e.dl, i) = BSubMod(V(e.xs, i), V(e.ta, i), q)           \* d_i = x_i - a_i
                           /\ V(e.el, i) = BSubMod(V(e.ys, i), V(e.tb, i), q)
                           /\ V(e.d, i) = d /\ V(e.e, i) = ee                           \* broadcast
                           /\ V(e.r, i) = share(i)
        /\ BAddMod(V(e.r, 1), V(e.r, 2), q) = BMulMod(BnVal(e.x), BnVal(e.y), q)        \* shares of x y

(* ================================================================== accept *)
CoreAccept(e) ==
    CASE e.op = "rsa_gen" -> RsaGenOk(e)
      [] e.op = "rsa_enc" -> RsaEncOk(e)
      [] e.op = "rsa_dec" -> RsaDecOk(e)
      [] e.op = "rabin_gen" -> RabinGenOk(e)
      [] e.op = "rabin_enc" -> RabinEncOk(e)
      [] e.op = "rabin_dec" -> RabinDecOk(e)
      [] e.op = "phpe_gen" -> PhpeGenOk(e)
      [] e.op = "phpe" -> PhpeOk(e)
      [] e.op = "shpe_gen" -> ShpeGenOk(e)
      [] e.op = "shpe" -> ShpeOk(e)
      [] e.op = "ghpe_gen" -> GhpeGenOk(e)
      [] e.op = "ghpe" -> GhpeOk(e)
      [] e.op = "bdpe_gen" -> BdpeGenOk(e)
      [] e.op = "bdpe_enc" -> BdpeEncOk(e)
      [] e.op = "bdpe_dec" -> BdpeDecOk(e)
      [] e.op = "ec_gen" -> EcGenOk(e)
      [] e.op = "ecdh" -> EcdhOk(e)
      [] e.op = "ecdh_inf" -> Refused(e)
      [] e.op = "ecmqv" -> EcmqvOk(e)
      [] e.op = "ecies_enc" -> EciesEncOk(e)
      [] e.op = "ecies_dec" -> EciesDecOk(e)
      [] e.op \in {"sss", "sssx"} -> SssOk(e)
      [] e.op = "mt" -> MtOk(e)
      [] OTHER -> FALSE

(* ---------------------------------------------------------- known findings *)
(* Each key names ONE wrong outcome on ONE input class; everything else of the event must be as defined. *)
AllZero(s) == \A i \in 1..Len(s) : s[i] = 0
CoreKnownKey(e) ==
    CASE e.op = "rsa_dec" ->
            LET N == RsaN(e)  k == RsaK(e)  c == BFromBE(e.c) IN
            \* PKCS#1 v1.5: a padding string shorter than 8 bytes is accepted (RFC 8017 7.2.2 step 3)
            IF /\ e.pad = "pkcs1" /\ RsaKeyOk(e) /\ Len(e.c) = k /\ BLt(c, N) /\ e.honest = 0 /\ Succ(e)
                    /\ LET EM == BToBE(BModExp(c, BnVal(e.D), N), k)
                           j == FirstZero(EM, 3)
                       IN  /\ EM[1] = 0 /\ EM[2] = 2 /\ j # 0 /\ j - 3 < 8 /\ j < k
                           /\ DecVerdict(e, Ok(Rest(EM, j + 1)), 0)
            THEN "C06-rsa-pkcs1-short-padding-accepted"
            ELSE ""
      [] e.op = "rabin_dec" ->
            LET N == BnVal(e.N)  k == BLenBytes(N)  c == BFromBE(e.c) IN
            \* the all-zero ciphertext: the search for the FF marker never ends
            IF RabinKeyOk(e) /\ e.crash # 0 /\ Len(e.c) >= 8 /\ AllZero(e.c)
            THEN "C06-rabin-zero-ciphertext-hangs"
            \* the length of the ciphertext is not compared with the length of the modulus
            ELSE IF /\ RabinKeyOk(e) /\ Len(e.c) # k /\ BLt(c, N) /\ e.honest = 0 /\ Succ(e)
                    /\ \E d \in RabinValidSet(e, c) : DecVerdict(e, d, 1)
            THEN "C06-rabin-ciphertext-length-not-checked"
            ELSE ""
      [] e.op = "ghpe" ->
            \* cp_ghpe_dec divides by k! after reducing modulo n^j: wrong plaintexts from s = 3 on
            IF e.s >= 3 /\ GhpeEncPart(e) /\ ~GhpeDecPart(e) THEN "C06-ghpe-dec-wrong-for-s-above-2" ELSE ""
      [] e.op = "ecies_dec" ->
            \* fewer bytes than one tag: the length of the authenticated part underflows
            IF Len(e.c) < e.mdl /\ e.honest = 0 /\ (e.crash # 0 \/ ~Refused(e))
            THEN "C06-ecies-ciphertext-shorter-than-tag"
            ELSE ""
      [] OTHER -> ""
=============================================================================
