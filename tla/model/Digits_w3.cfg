CONSTANTS W = 3  MaxLen = 2
SPECIFICATION Spec
INVARIANT Correct
CHECK_DEADLOCK FALSE
