------------------------------- MODULE RsaPad -------------------------------
(***************************************************************************)
(* C05 design-level model of the RSA signature paddings' VERIFICATION      *)
(* scanners, exactly as coded in src/cp/relic_cp_rsa.c, over tiny          *)
(* parameters: key length k bytes (k in Ks), DigestInfo Id (IdLen bytes),  *)
(* digest of MdLen = 1 byte, bytes drawn from the classes                  *)
(* {00, 01, 02, 30, FF}.  TLC enumerates EVERY k-byte string EM (the       *)
(* result of the public-key operation) and every digest H and checks that  *)
(* the coded procedure - pad_pkcs1(RSA_VER) / pad_basic(RSA_VER) followed  *)
(* by the comparison in cp_rsa_ver - accepts EM for H iff EM is THE        *)
(* encoding the standard's encoder produces for H (RFC 8017 9.2: 00 01     *)
(* FF..FF 00 DigestInfo H with at least MinPS padding bytes; verification  *)
(* there is defined as encode-and-compare), resp. the library's basic      *)
(* encoding 00..00 FF H.  A scanner that skips the FF run without counting,*)
(* tolerates bytes behind the digest, another block type or separator is   *)
(* caught by a concrete string.                                            *)
(*   Byte j of the integer (j = 0 least significant) is EM[k - j].         *)
(*   MinPS is the standard's minimum padding length (8 in RFC 8017; scaled *)
(*   down with k); the coded test is "counter >= MinPS" where counter      *)
(*   counts loop iterations (= FF bytes + 1) - the off-by-one shows in     *)
(*   RsaPad_short.cfg (k = tLen + MinPS + 2, i.e. one byte too short for   *)
(*   the standard's encoder: no valid signature exists, the coded scanner  *)
(*   accepts the 7-byte padding string).                                   *)
(***************************************************************************)
EXTENDS Integers, Sequences, TLC

CONSTANTS Ks, Id, MinPS, Scheme      \* Scheme \in {"pkcs1", "basic"}
Alphabet == {0, 1, 2, 48, 255}
(* DigestInfo stand-ins selectable from a cfg (Id <- IdA ...) *)
IdA == <<48, 2>>
IdB == <<48, 0>>
IdNone == <<>>
MdLen == 1
IdLen == Len(Id)

VARIABLES kk, em, hh
c == [k |-> kk, em |-> em, h |-> hh]
B(j) == c.em[c.k - j]
Low(n) == SubSeq(c.em, c.k - n + 1, c.k)         \* bn_mod_2b(m, m, 8 n) as a byte string

(* ----------------------------------------------------- PKCS#1 v1.5, coded *)
(* do { counter++; m_len--; pad = byte(m_len); } while (pad == RSA_PAD && m_len > 0); *)
RECURSIVE FFRun(_, _)
FFRun(mlen, counter) ==
    LET m2 == mlen - 1  c2 == counter + 1 IN
    IF B(m2) = 255 /\ m2 > 0 THEN FFRun(m2, c2) ELSE <<m2, c2>>

(* result of pad_pkcs1(RSA_VER): <<ok, payload length>> *)
ScanPkcs1 ==
    LET k == c.k IN
    IF B(k - 1) # 0 THEN <<FALSE, 0>>                   \* bn_rsh(t, m, 8 (k-1)); bn_is_zero(t)
    ELSE IF B(k - 2) # 1 THEN <<FALSE, 0>>              \* pad == RSA_PRV
    ELSE LET run == FFRun(k - 2, 0)
             mlen == run[1]
             counter == run[2]
         IN  IF B(mlen) # 0 THEN <<FALSE, 0>>           \* the separator
             ELSE IF mlen < IdLen THEN <<FALSE, 0>>     \* m_len -= len wraps: the id comparison fails
             ELSE LET ml == mlen - IdLen
                      idok == \A i \in 1..IdLen : B(ml + IdLen - i) = Id[i]
                  IN  <<idok /\ ml = MdLen /\ counter >= MinPS, ml>>
(* cp_rsa_ver: bn_write_bin(h1, size - pad_len, eb); util_cmp_sec(h1, h2, RLC_MD_LEN) *)
CodedPkcs1 == ScanPkcs1[1] /\ Low(ScanPkcs1[2]) = c.h

Ones(n) == [i \in 1..n |-> 255]
Pkcs1PS == c.k - 3 - IdLen - MdLen
DefPkcs1 == /\ Pkcs1PS >= MinPS                         \* otherwise "intended encoded message length too short"
            /\ c.em = <<0, 1>> \o Ones(Pkcs1PS) \o <<0>> \o Id \o c.h

(* ------------------------------------------------------------ basic, coded *)
(* do { p_len++; m_len--; pad = byte(m_len); } while (pad == 0 && m_len > 0); *)
RECURSIVE ZeroRun(_, _)
ZeroRun(mlen, plen) ==
    LET m2 == mlen - 1  p2 == plen + 1 IN
    IF B(m2) = 0 /\ m2 > 0 THEN ZeroRun(m2, p2) ELSE <<m2, p2>>
ScanBasic ==
    LET k == c.k IN
    IF B(k - 1) # 0 THEN <<FALSE, 0>>
    ELSE LET run == ZeroRun(k - 1, 1)
         IN  <<B(run[1]) = 255, k - run[2]>>            \* payload = the k - p_len low bytes
ZerosSeq(n) == [i \in 1..n |-> 0]
(* h1 is zero-filled, the payload is written at its start, MdLen bytes are compared *)
CodedBasic ==
    /\ ScanBasic[1]
    /\ LET pl == Low(ScanBasic[2])
           h1 == IF Len(pl) >= MdLen THEN SubSeq(pl, 1, MdLen) ELSE pl \o ZerosSeq(MdLen - Len(pl))
       IN  h1 = c.h
DefBasic == c.k >= MdLen + 2 /\ c.em = ZerosSeq(c.k - 1 - MdLen) \o <<255>> \o c.h

Coded == IF Scheme = "pkcs1" THEN CodedPkcs1 ELSE CodedBasic
Def   == IF Scheme = "pkcs1" THEN DefPkcs1 ELSE DefBasic

Init == kk \in Ks /\ em \in [1..kk -> Alphabet] /\ hh \in [1..MdLen -> Alphabet]
Next == UNCHANGED <<kk, em, hh>>
Spec == Init /\ [][Next]_<<kk, em, hh>>

(* the encoder's output is accepted ... *)
AcceptsCanonical == Def => Coded
(* ... and nothing else is *)
AcceptsOnlyCanonical == Coded => Def
=============================================================================
